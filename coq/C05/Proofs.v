(** C05 - lemmas about the metric models.  Summation-order, counting and structural facts; all
    arithmetic statements are over the real-number instance R_ops. *)
From Coq Require Import List NArith Bool Reals Lra Lia Permutation Sorted.
From LinfaVerif Require Import Common.Num Common.NdSum Common.B32 C05.Model C05.F32Exact.
Import ListNotations.
Local Open Scope R_scope.

(** * Sums over the reals: every summation order of the code is the plain sum *)
Definition Rsum (l : list R) : R := fold_right Rplus 0 l.

Lemma sum_s_R l : sum_s R_ops l = Rsum l.
Proof. reflexivity. Qed.

Lemma Rsum_app a b : Rsum (a ++ b) = Rsum a + Rsum b.
Proof. induction a as [|x a IH]; simpl; [lra | rewrite IH; lra]. Qed.

Lemma fold_left_Rplus l : forall a, fold_left Rplus l a = a + Rsum l.
Proof. induction l as [|x l IH]; intros a; simpl; [lra | rewrite IH; lra]. Qed.

Lemma seq_sum_R l : seq_sum R_ops l = Rsum l.
Proof. unfold seq_sum; simpl. rewrite fold_left_Rplus. lra. Qed.

Lemma fsum_R l : fsum R_ops l = Rsum l.
Proof. unfold fsum; simpl. rewrite fold_left_Rplus. lra. Qed.

Lemma ssum_R l : ssum R_ops l = Rsum l.
Proof. unfold ssum. rewrite seq_sum_R. simpl. lra. Qed.

Lemma chunks8_sum : forall n xs p, (length xs <= n)%nat -> length p = 8%nat ->
  length (fst (chunks8 R_ops xs p)) = 8%nat /\
  Rsum (fst (chunks8 R_ops xs p)) + Rsum (snd (chunks8 R_ops xs p)) = Rsum p + Rsum xs.
Proof.
  induction n as [|n IH]; intros xs p Hn Hp.
  - destruct xs; [simpl; split; [exact Hp | lra] | simpl in Hn; lia].
  - destruct xs as [|x0 [|x1 [|x2 [|x3 [|x4 [|x5 [|x6 [|x7 t]]]]]]]];
      try (cbn [chunks8 fst snd]; split; [exact Hp | lra]).
    destruct p as [|p0 [|p1 [|p2 [|p3 [|p4 [|p5 [|p6 [|p7 [|p8 p]]]]]]]]]; try discriminate Hp.
    cbn [chunks8].
    match goal with |- context [chunks8 R_ops t ?q] => destruct (IH t q) as [H1 H2] end.
    + simpl in Hn |- *. lia.
    + reflexivity.
    + split; [exact H1|]. rewrite H2. simpl. lra.
Qed.

Lemma usum_R l : usum R_ops l = Rsum l.
Proof.
  unfold usum.
  destruct (chunks8_sum (length l) l [zero R_ops; zero R_ops; zero R_ops; zero R_ops; zero R_ops; zero R_ops; zero R_ops; zero R_ops]) as [H1 H2];
    [lia | reflexivity |].
  destruct (chunks8 R_ops l _) as [p rest]. cbn [fst snd] in H1, H2.
  destruct p as [|p0 [|p1 [|p2 [|p3 [|p4 [|p5 [|p6 [|p7 [|p8 p]]]]]]]]]; try discriminate H1.
  rewrite fold_left_Rplus. simpl in H2 |- *. lra.
Qed.

Lemma csum_R l : csum R_ops l = Rsum l.
Proof. apply usum_R. Qed.
(** * Regression scores over the reals *)
Lemma ofn_R n : ofn R_ops n = INR n.
Proof. unfold ofn; simpl. rewrite Nnat.Nat2N.id. reflexivity. Qed.

Lemma mean_s_R l : mean_s R_ops l = Rsum l / INR (length l).
Proof. unfold mean_s. rewrite ofn_R. reflexivity. Qed.

Lemma cmean_R l : l <> [] -> cmean R_ops l = Some (mean_s R_ops l).
Proof. destruct l; [congruence|]. intros _. unfold cmean, mean_s. rewrite csum_R. reflexivity. Qed.

Lemma tmean_R s l : l <> [] -> tmean R_ops s l = Some (mean_s R_ops l).
Proof.
  destruct l; [congruence|]. intros _. unfold tmean, mean_s.
  destruct s; [rewrite ssum_R | rewrite csum_R]; reflexivity.
Qed.

Lemma map_nonempty {A B} (f : A -> B) l : l <> [] -> map f l <> [].
Proof. destruct l; simpl; congruence. Qed.
Lemma combine_nonempty {A B} (a : list A) (b : list B) : a <> [] -> b <> [] -> combine a b <> [].
Proof. destruct a, b; simpl; congruence. Qed.
Lemma vsub_nonempty (a b : list R) : a <> [] -> b <> [] -> vsub R_ops a b <> [].
Proof. intros; unfold vsub; apply map_nonempty, combine_nonempty; auto. Qed.

Lemma mae_eq a b : a <> [] -> b <> [] ->
  mean_absolute_error R_ops a b = Some (mae_spec R_ops a b).
Proof. intros Ha Hb. unfold mean_absolute_error, mae_spec. apply cmean_R, map_nonempty, vsub_nonempty; auto. Qed.

Lemma mse_eq a b : a <> [] -> b <> [] ->
  mean_squared_error R_ops a b = Some (mse_spec R_ops a b).
Proof. intros Ha Hb. unfold mean_squared_error, mse_spec. apply cmean_R, map_nonempty, vsub_nonempty; auto. Qed.

Lemma mape_eq a b : a <> [] -> b <> [] ->
  mean_absolute_percentage_error R_ops a b = Some (mape_spec R_ops a b).
Proof. intros Ha Hb. unfold mean_absolute_percentage_error, mape_spec. apply cmean_R, map_nonempty, combine_nonempty; auto. Qed.

Lemma msle_eq ln a b : a <> [] -> b <> [] ->
  mean_squared_log_error R_ops ln a b = Some (msle_spec R_ops ln a b).
Proof. intros Ha Hb. unfold mean_squared_log_error, msle_spec. apply mse_eq; apply map_nonempty; auto. Qed.

Lemma sst_R m b : sst R_ops m b = Rsum (map (fun x => (x - m) * (x - m)) b).
Proof. unfold sst. rewrite csum_R. reflexivity. Qed.

Lemma r2_eq c s a b : b <> [] -> r2 R_ops c s a b = Some (r2_spec R_ops c a b).
Proof.
  intros Hb. unfold r2. rewrite tmean_R by auto. unfold r2_spec, sse_spec, sst_spec.
  rewrite sst_R, csum_R. reflexivity.
Qed.

(* sum of centred squares *)
Lemma centred_squares d m :
  Rsum (map (fun e => (e - m) * (e - m)) d) = Rsum (map (fun e => e * e) d) - 2 * m * Rsum d + INR (length d) * (m * m).
Proof.
  induction d as [|e d IH]; [simpl; lra|].
  change (length (e :: d)) with (S (length d)). rewrite S_INR.
  change (Rsum (map (fun e0 => (e0 - m) * (e0 - m)) (e :: d))) with ((e - m) * (e - m) + Rsum (map (fun e0 => (e0 - m) * (e0 - m)) d)).
  change (Rsum (map (fun e0 => e0 * e0) (e :: d))) with (e * e + Rsum (map (fun e0 => e0 * e0) d)).
  change (Rsum (e :: d)) with (e + Rsum d).
  rewrite IH. lra.
Qed.

Lemma INR_length_nonzero {A} (l : list A) : l <> [] -> INR (length l) <> 0.
Proof. destruct l; [congruence|]. intros _. change (length (a :: l)) with (S (length l)). rewrite S_INR. pose proof (pos_INR (length l)). lra. Qed.

Lemma vsub_length (a b : list R) : length (vsub R_ops a b) = Nat.min (length a) (length b).
Proof. unfold vsub. rewrite map_length, combine_length. reflexivity. Qed.

(** the score the code computes, in closed form *)
Lemma ev_code_form c s a b : a <> [] -> b <> [] ->
  let d := vsub R_ops a b in
  explained_variance R_ops c s a b =
    Some (1 - (Rsum (map (fun e => e * e) d) - mean_s R_ops d) / (sst_spec R_ops b + c)).
Proof.
  intros Ha Hb d. unfold explained_variance. fold d.
  rewrite tmean_R by auto. rewrite cmean_R by (apply vsub_nonempty; auto).
  rewrite sst_R, csum_R. reflexivity.
Qed.

Lemma ev_spec_form c a b :
  let d := vsub R_ops a b in
  d <> [] ->
  ev_spec R_ops c a b =
    1 - (Rsum (map (fun e => e * e) d) - INR (length d) * (mean_s R_ops d * mean_s R_ops d)) / (sst_spec R_ops b + c).
Proof.
  intros d Hd. unfold ev_spec. fold d. cbv zeta.
  change (sum_s R_ops (map (fun e => sq R_ops (sub R_ops e (mean_s R_ops d))) d))
    with (Rsum (map (fun e => (e - mean_s R_ops d) * (e - mean_s R_ops d)) d)).
  rewrite centred_squares.
  assert (Hn : INR (length d) <> 0) by (apply INR_length_nonzero; exact Hd).
  assert (Hs : Rsum d = INR (length d) * mean_s R_ops d). { rewrite mean_s_R. field. exact Hn. }
  rewrite Hs. simpl. f_equal. f_equal. lra.
Qed.

(** finding F2, exactly: the code agrees with the textbook formula iff the mean residual m
    satisfies m = n m^2, i.e. m = 0 or m = 1/n *)
Lemma ev_agrees_iff c s a b : a <> [] -> b <> [] -> sst_spec R_ops b + c <> 0 ->
  let d := vsub R_ops a b in
  let m := mean_s R_ops d in
  explained_variance R_ops c s a b = Some (ev_spec R_ops c a b) <-> (m = 0 \/ m * INR (length d) = 1).
Proof.
  intros Ha Hb Hc d m.
  rewrite ev_code_form by auto. rewrite ev_spec_form by (apply vsub_nonempty; auto). fold d m.
  set (S2 := Rsum (map (fun e => e * e) d)). set (D := sst_spec R_ops b + c) in *.
  set (n := INR (length d)).
  split.
  - intros H. inversion H as [H1].
    assert (E : (S2 - m) / D = (S2 - n * (m * m)) / D) by lra.
    assert (E2 : S2 - m = S2 - n * (m * m)).
    { apply (Rmult_eq_reg_r (/ D)); [exact E | apply Rinv_neq_0_compat; exact Hc]. }
    assert (E3 : m * (1 - m * n) = 0) by lra.
    apply Rmult_integral in E3. destruct E3; [left; auto | right; lra].
  - intros [H|H]; f_equal; f_equal; f_equal.
    + rewrite H. lra.
    + replace (n * (m * m)) with (m * (m * n)) by lra. rewrite H. lra.
Qed.

Lemma ev_refuted c : 0 <= c ->
  exists a b, a <> [] /\ b <> [] /\ explained_variance R_ops c false a b <> Some (ev_spec R_ops c a b).
Proof.
  intros Hc. exists [1; 2], [0; 1]. split; [discriminate|]. split; [discriminate|].
  assert (Hd : sst_spec R_ops [0; 1] + c <> 0).
  { unfold sst_spec, mean_s, sum_s, ofn, sq; simpl. lra. }
  intros H. apply (ev_agrees_iff c false [1;2] [0;1]) in H; try discriminate; auto.
  unfold mean_s, sum_s, ofn in H; simpl in H. lra.
Qed.

Lemma log_loss_eq ln feps ps : ps <> [] ->
  log_loss R_ops ln feps ps = Some (log_loss_spec R_ops ln feps ps).
Proof.
  destruct ps as [|p ps]; [congruence|]. intros _. unfold log_loss, log_loss_spec, mean_s.
  rewrite fsum_R. f_equal. f_equal. change (sum_s R_ops) with Rsum. f_equal.
  - apply map_ext. intros [x l]. simpl. destruct l; reflexivity.
  - rewrite map_length. reflexivity.
Qed.
(** * Confusion matrix *)
Lemma upd_length {A} (l : list A) k f : length (upd l k f) = length l.
Proof. revert k; induction l as [|a l IH]; intros [|k]; simpl; auto. Qed.

Lemma nth_upd {A} (l : list A) k f d i :
  nth i (upd l k f) d = if (Nat.eqb i k && Nat.ltb k (length l))%bool then f (nth k l d) else nth i l d.
Proof.
  revert k i; induction l as [|a l IH]; intros k i.
  - simpl. rewrite andb_false_r. destruct k, i; reflexivity.
  - destruct k as [|k], i as [|i]; simpl; auto. rewrite IH. reflexivity.
Qed.

Lemma nth_repeat_lt {A} (a d : A) n i : (i < n)%nat -> nth i (repeat a n) d = a.
Proof. revert i; induction n as [|n IH]; intros i Hi; [lia|]. destruct i; simpl; auto. apply IH. lia. Qed.

Lemma map_nth_seq {A} (l : list A) d : map (fun i => nth i l d) (seq 0 (length l)) = l.
Proof.
  induction l as [|a l IH]; simpl; auto. f_equal. rewrite <- seq_shift, map_map. exact IH.
Qed.

Lemma map_seq_nth {A B} (g : A -> B) (l : list A) d :
  map (fun i => g (nth i l d)) (seq 0 (length l)) = map g l.
Proof. rewrite <- (map_map (fun i => nth i l d) g). rewrite map_nth_seq. reflexivity. Qed.

Lemma Rsum_concat (m : list (list R)) : Rsum (concat m) = Rsum (map Rsum m).
Proof. induction m as [|r m IH]; simpl; auto. rewrite Rsum_app, IH. reflexivity. Qed.

Lemma Rsum_map_add {A} (f g : A -> R) l : Rsum (map (fun x => f x + g x) l) = Rsum (map f l) + Rsum (map g l).
Proof. induction l as [|a l IH]; simpl; [lra | rewrite IH; lra]. Qed.

Lemma Rsum_map_const {A} (l : list A) c : Rsum (map (fun _ => c) l) = INR (length l) * c.
Proof.
  induction l as [|a l IH]; [simpl; lra|].
  change (length (a :: l)) with (S (length l)). rewrite S_INR. simpl. rewrite IH. lra.
Qed.

Lemma Rsum_map_ext {A} (f g : A -> R) l : (forall x, In x l -> f x = g x) -> Rsum (map f l) = Rsum (map g l).
Proof. intros H. f_equal. apply map_ext_in. exact H. Qed.

Lemma Rsum_map_scal {A} (f : A -> R) c l : Rsum (map (fun x => c * f x) l) = c * Rsum (map f l).
Proof. induction l as [|a l IH]; simpl; [lra | rewrite IH; lra]. Qed.

Section CMProofs.
Context {L : Type} (lltb leqb : L -> L -> bool).
Context (Heq : forall x y, leqb x y = true <-> x = y).
Context (Hirr : forall x, lltb x x = false).
Context (Htrans : forall x y z, lltb x y = true -> lltb y z = true -> lltb x z = true).
Context (Htot : forall x y, lltb x y = true \/ x = y \/ lltb y x = true).

Lemma leqb_refl x : leqb x x = true.
Proof. apply Heq; reflexivity. Qed.
Lemma leqb_false x y : leqb x y = false <-> x <> y.
Proof. split; intros H. - intros E; apply Heq in E; congruence. - destruct (leqb x y) eqn:E; auto. apply Heq in E; contradiction. Qed.

Definition lt (x y : L) : Prop := lltb x y = true.

Lemma in_ins x y l : In x (ins lltb leqb y l) <-> x = y \/ In x l.
Proof.
  induction l as [|z l IH]; simpl; [intuition congruence|].
  destruct (leqb y z) eqn:E; [apply Heq in E; subst; simpl; intuition congruence|].
  destruct (lltb y z); simpl; [intuition congruence|]. rewrite IH. intuition congruence.
Qed.

Lemma in_sort_set x l : In x (sort_set lltb leqb l) <-> In x l.
Proof. induction l as [|y l IH]; simpl; [tauto|]. rewrite in_ins, IH. intuition congruence. Qed.

Lemma ins_sorted y l : StronglySorted lt l -> StronglySorted lt (ins lltb leqb y l).
Proof.
  induction 1 as [|z l Hs IH Hz]; simpl; [repeat constructor|].
  destruct (leqb y z) eqn:E; [constructor; auto|].
  destruct (lltb y z) eqn:E2.
  - constructor; [constructor; auto|]. constructor; [exact E2|].
    rewrite Forall_forall in *. intros w Hw. eapply Htrans; [exact E2 | apply Hz; exact Hw].
  - constructor; [exact IH|]. rewrite Forall_forall in *. intros w Hw. apply in_ins in Hw. destruct Hw as [->|Hw]; [|auto].
    destruct (Htot y z) as [H|[H|H]]; [congruence | subst; rewrite leqb_refl in E; discriminate | exact H].
Qed.

Lemma sort_set_sorted l : StronglySorted lt (sort_set lltb leqb l).
Proof. induction l as [|y l IH]; simpl; [constructor | apply ins_sorted; exact IH]. Qed.

Lemma sorted_nodup l : StronglySorted lt l -> NoDup l.
Proof.
  induction 1 as [|z l Hs IH Hz]; constructor; auto.
  intros Hin. rewrite Forall_forall in Hz. specialize (Hz z Hin). unfold lt in Hz. rewrite Hirr in Hz. discriminate.
Qed.

Lemma classes_nodup pred truth : NoDup (classes lltb leqb pred truth).
Proof.
  unfold classes. pose proof (sorted_nodup _ (sort_set_sorted (pred ++ truth))) as H.
  destruct (sort_set lltb leqb (pred ++ truth)) as [|a [|b [|c l]]]; auto.
  change (NoDup (rev [a; b])). apply NoDup_rev. exact H.
Qed.

Lemma in_classes x pred truth : In x (classes lltb leqb pred truth) <-> In x (pred ++ truth).
Proof.
  unfold classes. rewrite <- (in_sort_set x (pred ++ truth)).
  destruct (sort_set lltb leqb (pred ++ truth)) as [|a [|b [|c l]]]; try tauto.
  rewrite <- in_rev. tauto.
Qed.

(** the classes are the sorted union of both label sets, reversed when there are exactly two *)
Lemma classes_sorted pred truth :
  let cs := classes lltb leqb pred truth in
  StronglySorted lt (if Nat.eqb (length cs) 2 then rev cs else cs).
Proof.
  unfold classes. pose proof (sort_set_sorted (pred ++ truth)) as H.
  destruct (sort_set lltb leqb (pred ++ truth)) as [|a [|b [|c l]]]; auto.
Qed.

(* index_of on a duplicate-free list *)
Lemma index_of_some x cs i : index_of leqb x cs = Some i -> (i < length cs)%nat /\ forall d, nth i cs d = x.
Proof.
  revert i; induction cs as [|c cs IH]; simpl; intros i H; [discriminate|].
  destruct (leqb x c) eqn:E.
  - inversion H; subst. apply Heq in E. split; [lia | intros; simpl; auto].
  - destruct (index_of leqb x cs) as [j|]; [|discriminate]. inversion H; subst.
    destruct (IH j eq_refl) as [H1 H2]. split; [lia | intros; simpl; apply H2].
Qed.

Lemma index_of_none x cs : index_of leqb x cs = None -> ~ In x cs.
Proof.
  induction cs as [|c cs IH]; simpl; intros H; [tauto|].
  destruct (leqb x c) eqn:E; [discriminate|]. apply leqb_false in E.
  destruct (index_of leqb x cs); [discriminate|]. intros [H1|H1]; [congruence | apply IH; auto].
Qed.

Lemma index_of_nth cs d i : NoDup cs -> (i < length cs)%nat -> index_of leqb (nth i cs d) cs = Some i.
Proof.
  revert i; induction cs as [|c cs IH]; simpl; intros i Hn Hi; [lia|].
  inversion Hn as [|? ? Hc Hn']; subst. destruct i as [|i].
  - rewrite leqb_refl. reflexivity.
  - destruct (leqb (nth i cs d) c) eqn:E.
    + apply Heq in E. exfalso. apply Hc. rewrite <- E. apply nth_In. lia.
    + rewrite IH by (auto; lia). reflexivity.
Qed.

(* matrices, in any arithmetic *)
Definition wf {F : Type} (k : nat) (m : list (list F)) : Prop := length m = k /\ Forall (fun r => length r = k) m.

Lemma nth_repeat_any {A} (a : A) n i : nth i (repeat a n) a = a.
Proof. revert i; induction n as [|n IH]; intros [|i]; simpl; auto. Qed.

Lemma iter_shift {A} (f : A -> A) n x : Nat.iter n f (f x) = f (Nat.iter n f x).
Proof. induction n as [|n IH]; simpl; congruence. Qed.

Section GenCells.
Context {F : Type} (o : NumOps F).

Lemma zeros_wf k : wf k (zeros o k).
Proof. unfold wf, zeros. rewrite repeat_length. split; auto. apply Forall_forall. intros r Hr. apply repeat_spec in Hr. subst. apply repeat_length. Qed.

Lemma get_zeros k i j : get o (zeros o k) i j = zero o.
Proof.
  unfold get, zeros. destruct (Nat.lt_ge_cases i k) as [Hi|Hi].
  - rewrite (nth_repeat_lt _ _ k i) by exact Hi. apply (nth_repeat_any (zero o)).
  - rewrite (nth_overflow (repeat (repeat (zero o) k) k) []) by (rewrite repeat_length; exact Hi). destruct j; reflexivity.
Qed.

Definition bump (m : list (list F)) (i j : nat) : list (list F) :=
  upd m i (fun r => upd r j (fun v => add o v (one o))).

Lemma bump_wf k m i j : wf k m -> wf k (bump m i j).
Proof.
  intros [H1 H2]. unfold wf, bump. rewrite upd_length. split; auto.
  apply Forall_forall. intros r Hr. apply In_nth with (d := []) in Hr. destruct Hr as [n [Hn Hr]].
  rewrite upd_length in Hn. rewrite nth_upd in Hr. rewrite Forall_forall in H2.
  destruct (Nat.eqb n i && Nat.ltb i (length m))%bool eqn:E.
  - subst r. rewrite upd_length. apply H2. apply nth_In. apply andb_true_iff in E. destruct E as [_ E]. apply Nat.ltb_lt in E. exact E.
  - subst r. apply H2. apply nth_In. exact Hn.
Qed.

Lemma get_bump k m i j i' j' : wf k m -> (i < k)%nat -> (j < k)%nat ->
  get o (bump m i j) i' j' = if (Nat.eqb i' i && Nat.eqb j' j)%bool then add o (get o m i' j') (one o) else get o m i' j'.
Proof.
  intros [H1 H2] Hi Hj. unfold get, bump. rewrite nth_upd. rewrite H1.
  destruct (Nat.eqb i' i) eqn:E1; simpl; [|reflexivity].
  apply Nat.eqb_eq in E1. subst i'. replace (Nat.ltb i k) with true by (symmetry; apply Nat.ltb_lt; exact Hi).
  rewrite nth_upd. rewrite Forall_forall in H2. rewrite (H2 (nth i m [])) by (apply nth_In; lia).
  replace (Nat.ltb j k) with true by (symmetry; apply Nat.ltb_lt; exact Hj).
  destruct (Nat.eqb j' j) eqn:E2; simpl; [|reflexivity].
  apply Nat.eqb_eq in E2. subst j'. reflexivity.
Qed.

(** every cell is the initial cell incremented once per matching (prediction, truth) pair *)
Lemma cm_count_cells cs : NoDup cs ->
  forall pred truth m0, wf (length cs) m0 ->
  forall i j, (i < length cs)%nat -> (j < length cs)%nat -> forall d,
  get o (fold_left (fun m pt =>
               match index_of leqb (fst pt) cs, index_of leqb (snd pt) cs with
               | Some i, Some j => upd m i (fun r => upd r j (fun v => add o v (one o)))
               | _, _ => m
               end) (combine pred truth) m0) i j
  = Nat.iter (count_pairs leqb (nth i cs d) (nth j cs d) pred truth) (fun v => add o v (one o)) (get o m0 i j).
Proof.
  intros Hnd. induction pred as [|p pred IH]; intros truth m0 Hwf i j Hi Hj d.
  - reflexivity.
  - destruct truth as [|t truth]; [reflexivity|].
    cbn [combine fold_left fst snd count_pairs].
    set (m1 := match index_of leqb p cs with
               | Some i0 => match index_of leqb t cs with
                            | Some j0 => upd m0 i0 (fun r => upd r j0 (fun v => add o v (one o)))
                            | None => m0 end
               | None => m0 end).
    assert (Hm1 : wf (length cs) m1 /\
                  get o m1 i j = if (leqb p (nth i cs d) && leqb t (nth j cs d))%bool then add o (get o m0 i j) (one o) else get o m0 i j).
    { unfold m1. destruct (index_of leqb p cs) as [i0|] eqn:Ep.
      - destruct (index_of leqb t cs) as [j0|] eqn:Et.
        + destruct (index_of_some _ _ _ Ep) as [Hi0 Hp]. destruct (index_of_some _ _ _ Et) as [Hj0 Ht].
          split; [apply (bump_wf _ m0 i0 j0 Hwf)|].
          change (upd m0 i0 (fun r => upd r j0 (fun v => add o v (one o)))) with (bump m0 i0 j0).
          rewrite (get_bump (length cs)) by auto.
          destruct (Nat.eqb i i0) eqn:E1; simpl.
          * apply Nat.eqb_eq in E1. subst i0. rewrite (Hp d), leqb_refl. simpl.
            destruct (Nat.eqb j j0) eqn:E2.
            -- apply Nat.eqb_eq in E2. subst j0. rewrite (Ht d), leqb_refl. reflexivity.
            -- destruct (leqb t (nth j cs d)) eqn:E3; auto. apply Heq in E3.
               rewrite E3 in Et. rewrite index_of_nth in Et by auto. inversion Et. subst. rewrite Nat.eqb_refl in E2. discriminate.
          * destruct (leqb p (nth i cs d)) eqn:E3; auto. apply Heq in E3.
            rewrite E3 in Ep. rewrite index_of_nth in Ep by auto. inversion Ep. subst. rewrite Nat.eqb_refl in E1. discriminate.
        + split; auto. apply index_of_none in Et.
          destruct (leqb t (nth j cs d)) eqn:E3; [|rewrite andb_false_r; reflexivity].
          apply Heq in E3. exfalso. apply Et. rewrite E3. apply nth_In. exact Hj.
      - split; auto. apply index_of_none in Ep.
        destruct (leqb p (nth i cs d)) eqn:E3; [|reflexivity].
        apply Heq in E3. exfalso. apply Ep. rewrite E3. apply nth_In. exact Hi. }
    destruct Hm1 as [Hw1 Hg1]. rewrite (IH truth m1 Hw1 i j Hi Hj d). rewrite Hg1.
    destruct (leqb p (nth i cs d) && leqb t (nth j cs d))%bool; simpl; [apply (iter_shift (fun v => add o v (one o))) | reflexivity].
Qed.

Lemma cm_count_wf cs pred truth : wf (length cs) (cm_count o leqb cs pred truth).
Proof.
  unfold cm_count. generalize (zeros_wf (length cs)). generalize (zeros o (length cs)).
  generalize (combine pred truth). induction l as [|pt l IH]; intros m Hm; simpl; auto.
  apply IH. destruct (index_of leqb (fst pt) cs); auto. destruct (index_of leqb (snd pt) cs); auto.
  apply (bump_wf _ m n n0 Hm).
Qed.

(** in every arithmetic: cell (i, j) is 0 incremented by 1 once per sample of that (predicted, true) pair *)
Lemma cm_cells_iter cs pred truth i j d : NoDup cs -> (i < length cs)%nat -> (j < length cs)%nat ->
  get o (cm_count o leqb cs pred truth) i j
  = Nat.iter (count_pairs leqb (nth i cs d) (nth j cs d) pred truth) (fun v => add o v (one o)) (zero o).
Proof.
  intros Hnd Hi Hj. unfold cm_count. rewrite (cm_count_cells cs Hnd pred truth _ (zeros_wf _) i j Hi Hj d).
  rewrite get_zeros. reflexivity.
Qed.
End GenCells.

Lemma iter_plus1_R n x : Nat.iter n (fun v => add R_ops v (one R_ops)) x = x + INR n.
Proof.
  induction n as [|n IH]; [simpl; lra|]. rewrite S_INR. cbn [Nat.iter nat_rect]. unfold Nat.iter in IH. rewrite IH. simpl. lra.
Qed.

Lemma cm_cells_gen cs pred truth i j d : NoDup cs -> (i < length cs)%nat -> (j < length cs)%nat ->
  get R_ops (cm_count R_ops leqb cs pred truth) i j = INR (count_pairs leqb (nth i cs d) (nth j cs d) pred truth).
Proof.
  intros Hnd Hi Hj. rewrite (cm_cells_iter R_ops cs pred truth i j d Hnd Hi Hj). rewrite iter_plus1_R. simpl. lra.
Qed.

(* sums of indicator functions over a duplicate-free list *)
Lemma indicator_sum x cs : NoDup cs -> In x cs ->
  Rsum (map (fun c => if leqb x c then 1 else 0) cs) = 1.
Proof.
  induction 1 as [|c cs Hc Hn IH]; intros Hin; [destruct Hin|].
  simpl. destruct Hin as [->|Hin].
  - rewrite leqb_refl. rewrite (Rsum_map_ext _ (fun _ => 0)).
    + rewrite Rsum_map_const. lra.
    + intros y Hy. destruct (leqb x y) eqn:E; auto. apply Heq in E. subst. contradiction.
  - destruct (leqb x c) eqn:E; [apply Heq in E; subst; contradiction|]. rewrite IH by auto. lra.
Qed.

Lemma indicator_sum_out x cs : ~ In x cs -> Rsum (map (fun c => if leqb x c then 1 else 0) cs) = 0.
Proof.
  intros Hx. rewrite (Rsum_map_ext _ (fun _ => 0)); [rewrite Rsum_map_const; lra|].
  intros y Hy. destruct (leqb x y) eqn:E; auto. apply Heq in E. subst. contradiction.
Qed.

Lemma count_pairs_total cs pred truth : NoDup cs -> length pred = length truth ->
  (forall x, In x (pred ++ truth) -> In x cs) ->
  Rsum (map (fun a => Rsum (map (fun b => INR (count_pairs leqb a b pred truth)) cs)) cs) = INR (length pred).
Proof.
  intros Hnd. revert truth. induction pred as [|p pred IH]; intros truth Hlen Hin.
  - simpl. rewrite (Rsum_map_ext _ (fun _ => 0)); [rewrite Rsum_map_const; lra|].
    intros a _. rewrite Rsum_map_const. lra.
  - destruct truth as [|t truth]; [discriminate|]. cbn [count_pairs].
    rewrite (Rsum_map_ext _ (fun a => (if leqb p a then 1 else 0) * Rsum (map (fun b => if leqb t b then 1 else 0) cs)
                                     + Rsum (map (fun b => INR (count_pairs leqb a b pred truth)) cs))).
    + rewrite Rsum_map_add. rewrite IH.
      * rewrite (indicator_sum t cs Hnd) by (apply Hin; apply in_or_app; right; left; auto).
        rewrite (Rsum_map_ext _ (fun a => if leqb p a then 1 else 0)) by (intros; lra).
        rewrite (indicator_sum p cs Hnd) by (apply Hin; left; auto).
        change (length (p :: pred)) with (S (length pred)). rewrite S_INR. lra.
      * simpl in Hlen. lia.
      * intros x Hx. apply Hin. apply in_app_or in Hx. destruct Hx as [Hx|Hx]; [right | ]; apply in_or_app; [left; auto | right; right; auto].
    + intros a _. rewrite <- Rsum_map_scal, <- Rsum_map_add. apply Rsum_map_ext. intros b _.
      rewrite plus_INR. destruct (leqb p a), (leqb t b); simpl; lra.
Qed.

Lemma count_pairs_diag cs pred truth : NoDup cs -> length pred = length truth ->
  (forall x, In x (pred ++ truth) -> In x cs) ->
  Rsum (map (fun a => INR (count_pairs leqb a a pred truth)) cs) = INR (count_eq leqb pred truth).
Proof.
  intros Hnd. revert truth. induction pred as [|p pred IH]; intros truth Hlen Hin.
  - simpl. rewrite Rsum_map_const. lra.
  - destruct truth as [|t truth]; [discriminate|]. cbn [count_pairs count_eq].
    rewrite (Rsum_map_ext _ (fun a => (if (leqb p a && leqb t a)%bool then 1 else 0) + INR (count_pairs leqb a a pred truth))).
    + rewrite Rsum_map_add, IH.
      * rewrite plus_INR. f_equal. destruct (leqb p t) eqn:E.
        -- apply Heq in E. subst t. rewrite (Rsum_map_ext _ (fun a => if leqb p a then 1 else 0)).
           ++ rewrite (indicator_sum p cs Hnd) by (apply Hin; left; auto). reflexivity.
           ++ intros a _. destruct (leqb p a); reflexivity.
        -- rewrite (Rsum_map_ext _ (fun _ => 0)); [rewrite Rsum_map_const; simpl; lra|].
           intros a _. destruct (leqb p a) eqn:E1; auto. destruct (leqb t a) eqn:E2; auto.
           apply Heq in E1, E2. subst. rewrite leqb_refl in E. discriminate.
      * simpl in Hlen. lia.
      * intros x Hx. apply Hin. apply in_app_or in Hx. destruct Hx as [Hx|Hx]; [right | ]; apply in_or_app; [left; auto | right; right; auto].
    + intros a _. rewrite plus_INR. destruct (leqb p a && leqb t a)%bool; simpl; lra.
Qed.

End CMProofs.
(** * Scores derived from the cells *)
Lemma fold_left_add_ext {A} (f : R -> A -> R) (h : A -> R) l :
  (forall acc x, f acc x = acc + h x) -> forall a, fold_left f l a = a + Rsum (map h l).
Proof.
  intros H. induction l as [|x l IH]; intros a; simpl; [lra|]. rewrite IH, H. lra.
Qed.

Lemma Rsum_map_scal_r {A} (f : A -> R) c l : Rsum (map (fun x => f x * c) l) = Rsum (map f l) * c.
Proof. induction l as [|a l IH]; simpl; [lra | rewrite IH; lra]. Qed.

Lemma Rsum_map_sub {A} (f g : A -> R) l : Rsum (map (fun x => f x - g x) l) = Rsum (map f l) - Rsum (map g l).
Proof. induction l as [|a l IH]; simpl; [lra | rewrite IH; lra]. Qed.

Lemma Rsum_swap {A B} (f : A -> B -> R) la lb :
  Rsum (map (fun a => Rsum (map (fun b => f a b) lb)) la) = Rsum (map (fun b => Rsum (map (fun a => f a b) la)) lb).
Proof.
  induction la as [|a la IH]; simpl.
  - rewrite Rsum_map_const. lra.
  - rewrite IH. rewrite <- Rsum_map_add. reflexivity.
Qed.

Lemma nth_map_seq {B} (f : nat -> B) n i d : (i < n)%nat -> nth i (map f (seq 0 n)) d = f i.
Proof.
  intros Hi. rewrite (nth_indep _ d (f 0%nat)) by (rewrite map_length, seq_length; exact Hi).
  rewrite map_nth. rewrite seq_nth by exact Hi. reflexivity.
Qed.

Section Derived.
Variable k : nat.
Variable m : list (list R).
Hypothesis Hwf : wf k m.

Let idx := seq 0 k.

Lemma wf_length : length m = k.
Proof. exact (proj1 Hwf). Qed.

Lemma row_as_map i : (i < k)%nat -> nth i m [] = map (fun j => get R_ops m i j) idx.
Proof.
  intros Hi. destruct Hwf as [H1 H2]. rewrite Forall_forall in H2.
  assert (Hl : length (nth i m []) = k) by (apply H2, nth_In; lia).
  unfold idx, get. rewrite <- Hl. symmetry. apply map_nth_seq.
Qed.

Lemma rowsum_get i : (i < k)%nat -> rowsum_s R_ops m i = Rsum (map (fun j => get R_ops m i j) idx).
Proof. intros Hi. unfold rowsum_s. rewrite sum_s_R. rewrite (row_as_map i Hi) at 1. reflexivity. Qed.

Lemma colsum_get j : colsum_s R_ops m j = Rsum (map (fun i => get R_ops m i j) idx).
Proof.
  unfold colsum_s, col. rewrite sum_s_R. unfold idx. rewrite <- wf_length.
  rewrite <- (map_seq_nth (fun r => nth j r (zero R_ops)) m []). reflexivity.
Qed.

Lemma total_get : total_s R_ops m = Rsum (map (fun i => Rsum (map (fun j => get R_ops m i j) idx)) idx).
Proof.
  unfold total_s. rewrite sum_s_R. unfold idx at 2. rewrite <- wf_length.
  rewrite <- (map_seq_nth (sum_s R_ops) m []). apply Rsum_map_ext. intros i Hi. apply in_seq in Hi.
  rewrite wf_length in Hi. rewrite <- rowsum_get by lia. reflexivity.
Qed.

Lemma total_rows : total_s R_ops m = Rsum (map (fun i => rowsum_s R_ops m i) idx).
Proof. rewrite total_get. apply Rsum_map_ext. intros i Hi. apply in_seq in Hi. rewrite rowsum_get by lia. reflexivity. Qed.

Lemma total_cols : total_s R_ops m = Rsum (map (fun j => colsum_s R_ops m j) idx).
Proof.
  rewrite total_get, Rsum_swap. apply Rsum_map_ext. intros j _. rewrite colsum_get. reflexivity.
Qed.

Lemma msum_total : msum R_ops m = total_s R_ops m.
Proof. unfold msum, total_s. rewrite csum_R, Rsum_concat. reflexivity. Qed.

Lemma diag_length : length m = k -> diag R_ops m = map (fun i => get R_ops m i i) idx.
Proof. intros H. unfold diag, idx. rewrite H. reflexivity. Qed.

Lemma accuracy_cells : accuracy R_ops m = trace_s R_ops m / total_s R_ops m.
Proof. unfold accuracy. rewrite ssum_R, msum_total. reflexivity. Qed.

(* one-vs-all *)
Lemma ova_nth i : (i < k)%nat ->
  nth i (split_one_vs_all R_ops m) [] =
  bin (get R_ops m i i) (rowsum_s R_ops m i - get R_ops m i i) (colsum_s R_ops m i - get R_ops m i i)
      (total_s R_ops m - get R_ops m i i - (rowsum_s R_ops m i - get R_ops m i i) - (colsum_s R_ops m i - get R_ops m i i)).
Proof.
  intros Hi. unfold split_one_vs_all. rewrite wf_length. rewrite nth_map_seq by exact Hi.
  rewrite csum_R, ssum_R, msum_total. reflexivity.
Qed.

Lemma ova_length : length (split_one_vs_all R_ops m) = k.
Proof. unfold split_one_vs_all. rewrite map_length, seq_length. apply wf_length. Qed.

Lemma get_bin (a b c d : R) :
  get R_ops (bin a b c d) 0 0 = a /\ get R_ops (bin a b c d) 0 1 = b /\ get R_ops (bin a b c d) 1 0 = c /\ get R_ops (bin a b c d) 1 1 = d.
Proof. repeat split; reflexivity. Qed.

Lemma precision_macro : k <> 2%nat ->
  precision R_ops m = Rsum (map (fun i => get R_ops m i i / colsum_s R_ops m i) idx) / INR k.
Proof.
  intros Hk. unfold precision, is_binary. rewrite wf_length.
  replace (Nat.eqb k 2) with false by (symmetry; apply Nat.eqb_neq; exact Hk).
  rewrite fsum_R, ofn_R. cbn [div R_ops]. f_equal. unfold split_one_vs_all. rewrite wf_length, map_map.
  apply Rsum_map_ext. intros i _. unfold precision_bin.
  destruct (get_bin (get R_ops m i i) (sub R_ops (csum R_ops (nth i m [])) (get R_ops m i i))
     (sub R_ops (ssum R_ops (col R_ops m i)) (get R_ops m i i))
     (sub R_ops (sub R_ops (sub R_ops (msum R_ops m) (get R_ops m i i)) (sub R_ops (csum R_ops (nth i m [])) (get R_ops m i i)))
        (sub R_ops (ssum R_ops (col R_ops m i)) (get R_ops m i i)))) as [G1 [G2 [G3 G4]]].
  rewrite G1, G3, ssum_R. change (colsum_s R_ops m i) with (Rsum (col R_ops m i)). cbn [div add sub R_ops]. f_equal. lra.
Qed.

Lemma recall_macro : k <> 2%nat ->
  recall R_ops m = Rsum (map (fun i => get R_ops m i i / rowsum_s R_ops m i) idx) / INR k.
Proof.
  intros Hk. unfold recall, is_binary. rewrite wf_length.
  replace (Nat.eqb k 2) with false by (symmetry; apply Nat.eqb_neq; exact Hk).
  rewrite fsum_R, ofn_R. cbn [div R_ops]. f_equal. unfold split_one_vs_all. rewrite wf_length, map_map.
  apply Rsum_map_ext. intros i _. unfold recall_bin.
  destruct (get_bin (get R_ops m i i) (sub R_ops (csum R_ops (nth i m [])) (get R_ops m i i))
     (sub R_ops (ssum R_ops (col R_ops m i)) (get R_ops m i i))
     (sub R_ops (sub R_ops (sub R_ops (msum R_ops m) (get R_ops m i i)) (sub R_ops (csum R_ops (nth i m [])) (get R_ops m i i)))
        (sub R_ops (ssum R_ops (col R_ops m i)) (get R_ops m i i)))) as [G1 [G2 [G3 G4]]].
  rewrite G1, G2, csum_R. change (rowsum_s R_ops m i) with (Rsum (nth i m [])). cbn [div add sub R_ops]. f_equal. lra.
Qed.

Lemma precision_binary : k = 2%nat ->
  precision R_ops m = get R_ops m 0 0 / (get R_ops m 0 0 + get R_ops m 1 0) /\
  recall R_ops m = get R_ops m 0 0 / (get R_ops m 0 0 + get R_ops m 0 1).
Proof.
  intros Hk. unfold precision, recall, is_binary. rewrite wf_length, Hk. simpl. split; reflexivity.
Qed.

(* one-vs-one *)
Lemma ovo_eq : split_one_vs_one R_ops m =
  flat_map (fun i => map (fun j => bin (get R_ops m i i) (get R_ops m i j) (get R_ops m j i) (get R_ops m j j))
                         (seq (S i) (k - S i))) idx.
Proof. unfold split_one_vs_one. rewrite wf_length. reflexivity. Qed.

(* Matthews correlation *)
Lemma mcc_cov_xy_eq :
  mcc_cov_xy R_ops m = trace_s R_ops m * total_s R_ops m - Rsum (map (fun a => rowsum_s R_ops m a * colsum_s R_ops m a) idx).
Proof.
  unfold mcc_cov_xy. rewrite wf_length. fold idx.
  rewrite (fold_left_add_ext _ (fun a => Rsum (map (fun l => Rsum (map (fun mm =>
             get R_ops m a a * get R_ops m l mm - get R_ops m a l * get R_ops m mm a) idx)) idx))).
  2:{ intros acc a. rewrite (fold_left_add_ext _ (fun l => Rsum (map (fun mm =>
             get R_ops m a a * get R_ops m l mm - get R_ops m a l * get R_ops m mm a) idx))).
      - reflexivity.
      - intros acc' l. rewrite (fold_left_add_ext _ (fun mm => get R_ops m a a * get R_ops m l mm - get R_ops m a l * get R_ops m mm a)).
        + reflexivity.
        + intros acc'' mm. simpl. lra. }
  simpl zero. rewrite Rplus_0_l.
  rewrite (Rsum_map_ext _ (fun a => get R_ops m a a * total_s R_ops m - rowsum_s R_ops m a * colsum_s R_ops m a)).
  - rewrite Rsum_map_sub. f_equal. rewrite Rsum_map_scal_r. f_equal.
    unfold trace_s. rewrite (diag_length wf_length). reflexivity.
  - intros a Ha. apply in_seq in Ha.
    rewrite (Rsum_map_ext _ (fun l => get R_ops m a a * Rsum (map (fun mm => get R_ops m l mm) idx)
                                      - get R_ops m a l * Rsum (map (fun mm => get R_ops m mm a) idx))).
    + rewrite Rsum_map_sub, Rsum_map_scal, Rsum_map_scal_r. rewrite <- total_get, <- colsum_get, <- rowsum_get by lia. reflexivity.
    + intros l _. rewrite Rsum_map_sub, Rsum_map_scal, Rsum_map_scal. reflexivity.
Qed.

Lemma mcc_cov_eq s v : mcc_cov R_ops s v = s * Rsum v - Rsum (map (fun x => x * x) v).
Proof.
  unfold mcc_cov. rewrite (fold_left_add_ext _ (fun x => x * (s - x))) by (intros; reflexivity).
  simpl zero. induction v as [|x v IH]; simpl in *; lra.
Qed.

Lemma mcc_eq : mcc R_ops m = mcc_spec R_ops m.
Proof.
  unfold mcc, mcc_spec. rewrite wf_length. fold idx. rewrite mcc_cov_xy_eq, !mcc_cov_eq, msum_total.
  assert (Hr : sum_over_rows R_ops m = map (fun a => rowsum_s R_ops m a) idx).
  { unfold sum_over_rows, idx. rewrite <- wf_length. rewrite <- (map_seq_nth (csum R_ops) m []).
    apply map_ext. intros a. rewrite csum_R. reflexivity. }
  assert (Hc : sum_over_cols R_ops m = map (fun a => colsum_s R_ops m a) idx).
  { unfold sum_over_cols. rewrite wf_length. apply map_ext. intros a. rewrite seq_sum_R. reflexivity. }
  rewrite Hr, Hc, <- total_rows, <- total_cols, !map_map. reflexivity.
Qed.

End Derived.
(** * ROC curve and area under the curve *)
Fixpoint A2 (pts : list (R * R)) : R :=
  match pts with
  | p :: (q :: _) as t => (fst q - fst p) * (snd p + snd q) + A2 t
  | _ => 0
  end.

Lemma A2_snoc l p q : A2 (l ++ [p] ++ [q]) = A2 (l ++ [p]) + (fst q - fst p) * (snd p + snd q).
Proof.
  induction l as [|a l IH]; [simpl; lra|].
  destruct l as [|b l]; [simpl; lra|].
  change (A2 ((a :: b :: l) ++ [p] ++ [q])) with ((fst b - fst a) * (snd a + snd b) + A2 ((b :: l) ++ [p] ++ [q])).
  change (A2 ((a :: b :: l) ++ [p])) with ((fst b - fst a) * (snd a + snd b) + A2 ((b :: l) ++ [p])).
  rewrite IH. lra.
Qed.

Lemma trapezoidal_fold rest : forall px py acc,
  snd (fold_left (fun st v => let '((px, py), integral) := st in
                  ((fst v, snd v), add R_ops integral (div R_ops (mul R_ops (sub R_ops (fst v) px) (add R_ops py (snd v))) (two R_ops))))
                 rest ((px, py), acc)) = acc + A2 ((px, py) :: rest) / 2.
Proof.
  induction rest as [|v rest IH]; intros px py acc; [simpl; lra|].
  cbn [fold_left]. rewrite IH. destruct v as [vx vy]. unfold two. simpl. lra.
Qed.

Lemma trapezoidal_R pts : trapezoidal R_ops pts = A2 pts / 2.
Proof.
  destruct pts as [|[x y] rest]; [simpl; lra|]. unfold trapezoidal. rewrite trapezoidal_fold. simpl fst. simpl snd. simpl zero. lra.
Qed.

Lemma A2_scale (P N : R) pts : P <> 0 -> N <> 0 ->
  A2 (map (fun q => (fst q / P, snd q / N)) pts) = A2 pts / (P * N).
Proof.
  intros HP HN. induction pts as [|p pts IH]; [simpl; field; auto|].
  destruct pts as [|q pts]; [simpl; field; auto|].
  change (A2 (map (fun q0 => (fst q0 / P, snd q0 / N)) (p :: q :: pts)))
    with ((fst q / P - fst p / P) * (snd p / N + snd q / N) + A2 (map (fun q0 => (fst q0 / P, snd q0 / N)) (q :: pts))).
  rewrite IH. change (A2 (p :: q :: pts)) with ((fst q - fst p) * (snd p + snd q) + A2 (q :: pts)). field; auto.
Qed.

Local Notation npos := (@npos R).
Local Notation nneg := (@nneg R).
Local Notation scored := (@scored R).
(* Mann-Whitney counts *)
Definition inner_neg (N : list scored) (sp : R) : nat :=
  fold_right (fun (q : scored) acc => if snd q then acc else (mw_pair R_ops (fst q) sp + acc)%nat) O N.
Definition inner_pos (P : list scored) (sn : R) : nat :=
  fold_right (fun (p : scored) acc => if snd p then (mw_pair R_ops sn (fst p) + acc)%nat else acc) O P.
Definition mwsum (P N : list scored) : nat :=
  fold_right (fun (p : scored) acc => if snd p then (inner_neg N (fst p) + acc)%nat else acc) O P.

Lemma mw2_mwsum ps : mw2 R_ops ps = mwsum ps ps.
Proof. reflexivity. Qed.

Lemma inner_neg_app N1 N2 s : inner_neg (N1 ++ N2) s = (inner_neg N1 s + inner_neg N2 s)%nat.
Proof. induction N1 as [|q N1 IH]; simpl; auto. destruct (snd q); rewrite IH; lia. Qed.

Lemma mwsum_app_l P1 P2 N : mwsum (P1 ++ P2) N = (mwsum P1 N + mwsum P2 N)%nat.
Proof. induction P1 as [|p P1 IH]; simpl; auto. destruct (snd p); rewrite IH; lia. Qed.

Lemma mwsum_app_r P N1 N2 : mwsum P (N1 ++ N2) = (mwsum P N1 + mwsum P N2)%nat.
Proof. induction P as [|p P IH]; simpl; auto. destruct (snd p); rewrite ?inner_neg_app, IH; lia. Qed.

Lemma mwsum_single_r P e : mwsum P [e] = if snd e then O else inner_pos P (fst e).
Proof.
  induction P as [|p P IH]; simpl; [destruct (snd e); reflexivity|].
  destruct (snd p); rewrite IH; destruct (snd e); simpl; lia.
Qed.

Lemma mw2_snoc pre e :
  mw2 R_ops (pre ++ [e]) = (mw2 R_ops pre + (if snd e then inner_neg pre (fst e) else inner_pos pre (fst e)))%nat.
Proof.
  rewrite !mw2_mwsum, mwsum_app_l, !mwsum_app_r, mwsum_single_r.
  simpl mwsum. destruct (snd e); simpl; lia.
Qed.

Definition neg_lt (s : R) (l : list scored) : nat := length (filter (fun q : scored => negb (snd q) && Rltb (fst q) s) l).
Definition neg_eq (s : R) (l : list scored) : nat := length (filter (fun q : scored => negb (snd q) && Reqb (fst q) s) l).
Definition pos_eq (s : R) (l : list scored) : nat := length (filter (fun q : scored => snd q && Reqb (fst q) s) l).

Lemma inner_neg_counts l s : inner_neg l s = (2 * neg_lt s l + neg_eq s l)%nat.
Proof.
  unfold neg_lt, neg_eq. induction l as [|q l IH]; simpl; auto.
  destruct (snd q); simpl; [exact IH|]. unfold mw_pair. simpl ltb. simpl eqb.
  destruct (Rltb (fst q) s) eqn:E1; destruct (Reqb (fst q) s) eqn:E2; simpl; rewrite IH; try lia.
  apply Rltb_true in E1. apply Reqb_true in E2. lra.
Qed.

Lemma inner_pos_counts l s : (forall q, In q l -> fst q <= s) -> inner_pos l s = pos_eq s l.
Proof.
  unfold pos_eq. induction l as [|p l IH]; intros H; simpl; auto.
  assert (Hp : fst p <= s) by (apply H; left; auto).
  destruct (snd p); simpl; [|apply IH; intros; apply H; right; auto].
  unfold mw_pair. simpl ltb. simpl eqb.
  replace (Rltb s (fst p)) with false by (symmetry; apply Rltb_false; exact Hp).
  rewrite IH by (intros; apply H; right; auto).
  destruct (Reqb s (fst p)) eqn:E1; destruct (Reqb (fst p) s) eqn:E2; simpl; auto.
  - apply Reqb_true in E1. assert (Reqb (fst p) s = true) by (apply Reqb_true; auto). congruence.
  - apply Reqb_true in E2. assert (Reqb s (fst p) = true) by (apply Reqb_true; auto). congruence.
Qed.

Lemma npos_app a b : npos (a ++ b) = (npos a + npos b)%nat.
Proof. unfold npos. rewrite filter_app, app_length. reflexivity. Qed.
Lemma nneg_app a b : nneg (a ++ b) = (nneg a + nneg b)%nat.
Proof. unfold nneg. rewrite filter_app, app_length. reflexivity. Qed.
Lemma neg_lt_app s a b : neg_lt s (a ++ b) = (neg_lt s a + neg_lt s b)%nat.
Proof. unfold neg_lt. rewrite filter_app, app_length. reflexivity. Qed.
Lemma neg_eq_app s a b : neg_eq s (a ++ b) = (neg_eq s a + neg_eq s b)%nat.
Proof. unfold neg_eq. rewrite filter_app, app_length. reflexivity. Qed.
Lemma pos_eq_app s a b : pos_eq s (a ++ b) = (pos_eq s a + pos_eq s b)%nat.
Proof. unfold pos_eq. rewrite filter_app, app_length. reflexivity. Qed.

(* when every score of [l] is at most s0: negatives split into those below and those at s0 *)
Lemma nneg_split s0 l : (forall q, In q l -> fst q <= s0) -> nneg l = (neg_lt s0 l + neg_eq s0 l)%nat.
Proof.
  unfold nneg, neg_lt, neg_eq. induction l as [|q l IH]; intros H; simpl; auto.
  assert (Hq : fst q <= s0) by (apply H; left; auto).
  specialize (IH (fun q' Hq' => H q' (or_intror Hq'))).
  destruct (snd q); simpl; auto.
  destruct (Rltb (fst q) s0) eqn:E1; destruct (Reqb (fst q) s0) eqn:E2; simpl; try lia.
  - apply Rltb_true in E1. apply Reqb_true in E2. lra.
  - apply Rltb_false in E1. exfalso. assert (fst q = s0) by lra. apply Reqb_true in H0. congruence.
Qed.

(* when every score of [l] is below s: nothing is at s, all negatives are below *)
Lemma counts_below s l : (forall q, In q l -> fst q < s) ->
  neg_lt s l = nneg l /\ neg_eq s l = O /\ pos_eq s l = O.
Proof.
  unfold neg_lt, nneg, neg_eq, pos_eq. induction l as [|q l IH]; intros H; simpl; auto.
  assert (Hq : fst q < s) by (apply H; left; auto).
  destruct (IH (fun q' Hq' => H q' (or_intror Hq'))) as [I1 [I2 I3]].
  replace (Rltb (fst q) s) with true by (symmetry; apply Rltb_true; exact Hq).
  replace (Reqb (fst q) s) with false.
  2:{ symmetry. destruct (Reqb (fst q) s) eqn:E; auto. apply Reqb_true in E. lra. }
  destruct (snd q); simpl; repeat split; auto.
Qed.

Section RocInv.
Variable eps : R.
Hypothesis Heps : 0 <= eps.

Definition pushes (s0 : option R) (s : R) : bool :=
  match s0 with None => true | Some s0 => Rltb eps (Rabs (s - s0)) end.

(* the invariant after the prefix [pre] has been consumed *)
Definition inv (pre : list scored) (st : @roc_state R) : Prop :=
  r_tp st = INR (npos pre) /\ r_fp st = INR (nneg pre) /\
  match r_s0 st with
  | None => pre = [] /\ r_pts st = []
  | Some s0 =>
      (forall q, In q pre -> fst q <= s0) /\ In s0 (map fst pre) /\
      exists pts' tph fph, r_pts st = pts' ++ [(tph, fph)] /\
        fph = INR (neg_lt s0 pre) /\ r_tp st - tph = INR (pos_eq s0 pre) /\
        A2 (r_pts st) + (r_tp st - tph) * (fph + r_fp st) = INR (mw2 R_ops pre)
  end.

Lemma inv_step pre st e :
  inv pre st ->
  (forall q, In q pre -> fst q <= fst e) ->
  (forall x, In x (map fst pre) -> x = fst e \/ eps < Rabs (fst e - x)) ->
  inv (pre ++ [e]) (roc_step R_ops eps st e).
Proof.
  intros [Htp [Hfp Hs]] Hle Hsep. destruct e as [s l]. cbn [fst snd] in *.
  unfold roc_step. cbn [fst snd].
  (* decide the push *)
  destruct (r_s0 st) as [s0|] eqn:Es0.
  - destruct Hs as [Hall [Hin [pts' [tph [fph [Hpts [Hfph [Htph HA]]]]]]]].
    assert (Hs0s : s0 <= s). { apply in_map_iff in Hin. destruct Hin as [q [Hq1 Hq2]]. subst s0. apply Hle; auto. }
    destruct (Hsep s0 Hin) as [Heq | Hgt].
    + (* same group *)
      subst s0. replace (ltb R_ops eps (abs R_ops (sub R_ops s s))) with false.
      2:{ symmetry. simpl. apply Rltb_false. replace (s - s) with 0 by lra. rewrite Rabs_R0. exact Heps. }
      assert (Hsplit := nneg_split s pre Hall).
      destruct l; unfold inv; cbn [r_tp r_fp r_s0 r_pts]; rewrite Es0.
      * rewrite npos_app, nneg_app. cbn [npos nneg filter snd negb length]. rewrite Nat.add_0_r, plus_INR.
        split; [simpl; lra|]. split; [exact Hfp|].
        split. { intros q Hq. apply in_app_or in Hq. destruct Hq as [Hq|[<-|[]]]; simpl; auto; lra. }
        split. { rewrite map_app. apply in_or_app. left; exact Hin. }
        exists pts', tph, fph. split; [exact Hpts|].
        rewrite neg_lt_app, pos_eq_app. unfold neg_lt at 2, pos_eq at 2. cbn [filter snd fst negb andb length].
        replace (Reqb s s) with true by (symmetry; apply Reqb_true; reflexivity). cbn [length].
        rewrite Nat.add_0_r. split; [exact Hfph|]. split; [rewrite plus_INR; simpl; lra|].
        rewrite mw2_snoc. cbn [snd fst]. rewrite inner_neg_counts, plus_INR, plus_INR, mult_INR. rewrite <- HA.
        rewrite Hfp, Hsplit, plus_INR, Hfph. simpl. lra.
      * rewrite npos_app, nneg_app. cbn [npos nneg filter snd negb length]. rewrite Nat.add_0_r, plus_INR.
        split; [exact Htp|]. split; [simpl; lra|].
        split. { intros q Hq. apply in_app_or in Hq. destruct Hq as [Hq|[<-|[]]]; simpl; auto; lra. }
        split. { rewrite map_app. apply in_or_app. left; exact Hin. }
        exists pts', tph, fph. split; [exact Hpts|].
        rewrite neg_lt_app, pos_eq_app. unfold neg_lt at 2, pos_eq at 2. cbn [filter snd fst negb andb length].
        replace (Rltb s s) with false by (symmetry; apply Rltb_false; lra). cbn [length].
        rewrite !Nat.add_0_r. split; [exact Hfph|]. split; [exact Htph|].
        rewrite mw2_snoc. cbn [snd fst]. rewrite inner_pos_counts by exact Hall. rewrite plus_INR, <- HA, <- Htph. simpl. lra.
    + (* a new group: push the current counts *)
      replace (ltb R_ops eps (abs R_ops (sub R_ops s s0))) with true by (symmetry; simpl; apply Rltb_true; exact Hgt).
      assert (Hlt : s0 < s).
      { destruct (Rle_lt_or_eq_dec _ _ Hs0s) as [H|H]; auto. subst. replace (s - s) with 0 in Hgt by lra. rewrite Rabs_R0 in Hgt. lra. }
      assert (Hbelow : forall q, In q pre -> fst q < s) by (intros q Hq; specialize (Hall q Hq); lra).
      destruct (counts_below s pre Hbelow) as [C1 [C2 C3]].
      assert (HA' : A2 (r_pts st ++ [(r_tp st, r_fp st)]) = INR (mw2 R_ops pre)).
      { rewrite Hpts, <- app_assoc. rewrite A2_snoc. rewrite <- Hpts. cbn [fst snd]. exact HA. }
      destruct l; unfold inv; cbn [r_tp r_fp r_s0 r_pts].
      * rewrite npos_app, nneg_app. cbn [npos nneg filter snd negb length]. rewrite Nat.add_0_r, plus_INR.
        split; [simpl; lra|]. split; [exact Hfp|].
        split. { intros q Hq. apply in_app_or in Hq. destruct Hq as [Hq|[<-|[]]]; simpl; [specialize (Hbelow q Hq)|]; lra. }
        split. { rewrite map_app. apply in_or_app. right; left; reflexivity. }
        exists (r_pts st), (r_tp st), (r_fp st). split; [reflexivity|].
        rewrite neg_lt_app, pos_eq_app. unfold neg_lt at 2, pos_eq at 2. cbn [filter snd fst negb andb length].
        replace (Reqb s s) with true by (symmetry; apply Reqb_true; reflexivity). cbn [length].
        rewrite C1, C3, Nat.add_0_r. split; [exact Hfp|]. split; [simpl; lra|].
        rewrite mw2_snoc. cbn [snd fst]. rewrite inner_neg_counts, C1, C2, plus_INR, plus_INR, mult_INR, HA', Hfp. simpl. lra.
      * rewrite npos_app, nneg_app. cbn [npos nneg filter snd negb length]. rewrite Nat.add_0_r, plus_INR.
        split; [exact Htp|]. split; [simpl; lra|].
        split. { intros q Hq. apply in_app_or in Hq. destruct Hq as [Hq|[<-|[]]]; simpl; [specialize (Hbelow q Hq)|]; lra. }
        split. { rewrite map_app. apply in_or_app. right; left; reflexivity. }
        exists (r_pts st), (r_tp st), (r_fp st). split; [reflexivity|].
        rewrite neg_lt_app, pos_eq_app. unfold neg_lt at 2, pos_eq at 2. cbn [filter snd fst negb andb length].
        replace (Rltb s s) with false by (symmetry; apply Rltb_false; lra). cbn [length].
        rewrite C1, C3, !Nat.add_0_r. split; [exact Hfp|]. split; [simpl; lra|].
        rewrite mw2_snoc. cbn [snd fst]. rewrite inner_pos_counts by (intros q Hq; specialize (Hbelow q Hq); lra).
        rewrite C3, plus_INR, HA'. simpl. lra.
  - (* first element *)
    destruct Hs as [Hpre Hpts]. subst pre. rewrite Hpts.
    simpl in Htp, Hfp.
    destruct l; unfold inv; cbn [r_tp r_fp r_s0 r_pts app npos nneg filter snd negb length map fst].
    + split; [simpl; lra|]. split; [simpl; lra|].
      split. { intros q [<-|[]]. simpl. lra. }
      split; [left; reflexivity|].
      exists [], (r_tp st), (r_fp st). split; [reflexivity|].
      unfold neg_lt, pos_eq. cbn [filter snd fst negb andb length].
      replace (Reqb s s) with true by (symmetry; apply Reqb_true; reflexivity).
      rewrite Htp, Hfp. simpl. repeat split; lra.
    + split; [simpl; lra|]. split; [simpl; lra|].
      split. { intros q [<-|[]]. simpl. lra. }
      split; [left; reflexivity|].
      exists [], (r_tp st), (r_fp st). split; [reflexivity|].
      unfold neg_lt, pos_eq. cbn [filter snd fst negb andb length].
      replace (Rltb s s) with false by (symmetry; apply Rltb_false; lra).
      rewrite Htp, Hfp. simpl. repeat split; lra.
Qed.

Definition sorted_sc (l : list scored) : Prop := StronglySorted (fun p q : scored => fst p <= fst q) l.
Definition separated (l : list scored) : Prop :=
  forall x y, In x (map fst l) -> In y (map fst l) -> x = y \/ eps < Rabs (y - x).

Lemma inv_fold l : forall pre st,
  inv pre st -> sorted_sc (pre ++ l) -> separated (pre ++ l) ->
  inv (pre ++ l) (fold_left (roc_step R_ops eps) l st).
Proof.
  induction l as [|e l IH]; intros pre st Hinv Hsorted Hsep.
  - rewrite app_nil_r. exact Hinv.
  - cbn [fold_left]. replace (pre ++ e :: l) with ((pre ++ [e]) ++ l) in * by (rewrite <- app_assoc; reflexivity).
    apply IH; auto. apply inv_step; auto.
    + intros q Hq. clear - Hsorted Hq. rewrite <- app_assoc in Hsorted. simpl in Hsorted.
      induction pre as [|p pre IHp]; [destruct Hq|]. simpl in Hsorted. inversion Hsorted as [|? ? Hs Hf]; subst.
      destruct Hq as [<-|Hq]; [|apply IHp; auto]. rewrite Forall_forall in Hf. apply Hf. apply in_or_app. right; left; reflexivity.
    + intros x Hx. apply Hsep; rewrite !map_app; apply in_or_app; left; [apply in_or_app; left; exact Hx | apply in_or_app; right; left; reflexivity].
Qed.

Lemma inv_init : inv [] (roc_init R_ops).
Proof. unfold inv, roc_init. simpl. repeat split; reflexivity. Qed.

(** twice the area under the unnormalised curve is the Mann-Whitney count *)
Lemma roc_raw_area l : sorted_sc l -> separated l ->
  let st := roc_raw R_ops eps l in
  A2 (r_pts st) = INR (mw2 R_ops l) /\ r_tp st = INR (npos l) /\ r_fp st = INR (nneg l).
Proof.
  intros Hs Hsep. pose proof (inv_fold l [] (roc_init R_ops) inv_init Hs Hsep) as [Htp [Hfp H]].
  simpl app in *. unfold roc_raw. cbn [r_pts r_tp r_fp]. split; [|split; auto].
  destruct (r_s0 (fold_left (roc_step R_ops eps) l (roc_init R_ops))) as [s0|].
  - destruct H as [_ [_ [pts' [tph [fph [Hpts [_ [_ HA]]]]]]]].
    rewrite Hpts, <- app_assoc, A2_snoc, <- Hpts. cbn [fst snd]. exact HA.
  - destruct H as [Hl Hpts]. subst l. rewrite Hpts. simpl. reflexivity.
Qed.

End RocInv.
(* sorting by score *)
Lemma ins_sc_perm p l : Permutation (ins_sc R_ops p l) (p :: l).
Proof.
  induction l as [|q l IH]; simpl; auto.
  destruct (Rltb (fst p) (fst q)); auto.
  eapply perm_trans; [apply perm_skip; exact IH | apply perm_swap].
Qed.

Lemma sort_sc_perm l : Permutation (sort_sc R_ops l) l.
Proof.
  induction l as [|p l IH]; simpl; auto.
  eapply perm_trans; [apply ins_sc_perm | apply perm_skip; exact IH].
Qed.

Lemma ins_sc_sorted p l : sorted_sc l -> sorted_sc (ins_sc R_ops p l).
Proof.
  induction 1 as [|q l Hs IH Hq]; simpl; [repeat constructor|].
  destruct (Rltb (fst p) (fst q)) eqn:E.
  - apply Rltb_true in E. constructor; [constructor; auto|]. constructor; [lra|].
    rewrite Forall_forall in *. intros r Hr. specialize (Hq r Hr). lra.
  - apply Rltb_false in E. constructor; [exact IH|].
    rewrite Forall_forall in *. intros r Hr.
    apply (Permutation_in _ (ins_sc_perm p l)) in Hr. destruct Hr as [<-|Hr]; auto.
Qed.

Lemma sort_sc_sorted l : sorted_sc (sort_sc R_ops l).
Proof. induction l as [|p l IH]; simpl; [constructor | apply ins_sc_sorted; exact IH]. Qed.

(* permutation invariance of the counts *)
Lemma filter_length_perm {A} (f : A -> bool) l l' : Permutation l l' -> length (filter f l) = length (filter f l').
Proof.
  induction 1; simpl; auto.
  - destruct (f x); simpl; auto.
  - destruct (f x), (f y); simpl; auto.
  - congruence.
Qed.

Lemma inner_neg_perm N N' s : Permutation N N' -> inner_neg N s = inner_neg N' s.
Proof.
  induction 1; simpl; auto.
  - destruct (snd x); lia.
  - destruct (snd x), (snd y); lia.
  - congruence.
Qed.

Lemma mwsum_perm_l P P' N : Permutation P P' -> mwsum P N = mwsum P' N.
Proof.
  induction 1; simpl; auto.
  - destruct (snd x); lia.
  - destruct (snd x), (snd y); lia.
  - congruence.
Qed.

Lemma mwsum_perm_r P N N' : Permutation N N' -> mwsum P N = mwsum P N'.
Proof.
  intros H. induction P as [|p P IH]; simpl; auto.
  destruct (snd p); auto. rewrite IH, (inner_neg_perm N N' _ H). reflexivity.
Qed.

Lemma mw2_perm l l' : Permutation l l' -> mw2 R_ops l = mw2 R_ops l'.
Proof. intros H. rewrite !mw2_mwsum. rewrite (mwsum_perm_l l l' l H). apply mwsum_perm_r. exact H. Qed.

Lemma separated_perm eps l l' : Permutation l l' -> separated eps l -> separated eps l'.
Proof.
  intros H Hs x y Hx Hy. apply Hs.
  - apply (Permutation_in _ (Permutation_sym (Permutation_map fst H))). exact Hx.
  - apply (Permutation_in _ (Permutation_sym (Permutation_map fst H))). exact Hy.
Qed.

Definition kept (ps : list scored) : list scored := filter (fun p : scored => Rleb 0 (fst p)) ps.

Lemma roc_raw_facts eps ps : 0 <= eps -> separated eps (kept ps) ->
  let st := roc_raw R_ops eps (roc_prepare R_ops ps) in
  A2 (r_pts st) = INR (mw2 R_ops (kept ps)) /\ r_tp st = INR (npos (kept ps)) /\ r_fp st = INR (nneg (kept ps)).
Proof.
  intros Heps Hsep. change (roc_prepare R_ops ps) with (sort_sc R_ops (kept ps)).
  pose proof (sort_sc_perm (kept ps)) as Hp.
  destruct (roc_raw_area eps Heps (sort_sc R_ops (kept ps)) (sort_sc_sorted _)
              (separated_perm eps _ _ (Permutation_sym Hp) Hsep)) as [H1 [H2 H3]].
  cbv zeta. rewrite H1, H2, H3. rewrite (mw2_perm _ _ Hp).
  unfold Model.npos, Model.nneg. rewrite (filter_length_perm _ _ _ Hp), (filter_length_perm _ _ _ Hp). auto.
Qed.

Lemma auc_mann_whitney eps ps : 0 <= eps -> separated eps (kept ps) ->
  (0 < npos (kept ps))%nat -> (0 < nneg (kept ps))%nat ->
  auc R_ops eps ps = auc_spec R_ops (kept ps).
Proof.
  intros Heps Hsep Hp Hn. destruct (roc_raw_facts eps ps Heps Hsep) as [H1 [H2 H3]].
  unfold auc, roc. cbn [fst]. rewrite trapezoidal_R.
  assert (HP : INR (npos (kept ps)) <> 0) by (apply not_0_INR; lia).
  assert (HN : INR (nneg (kept ps)) <> 0) by (apply not_0_INR; lia).
  rewrite H2, H3. rewrite (A2_scale _ _ _ HP HN). rewrite H1.
  unfold auc_spec. rewrite !ofn_R. unfold two. simpl. field. split; auto.
Qed.

(* end points and monotonicity *)
Lemma step_pts_extend eps st e : exists tail, r_pts (roc_step R_ops eps st e) = r_pts st ++ tail.
Proof.
  unfold roc_step. destruct (match r_s0 st with None => true | Some s0 => ltb R_ops eps (abs R_ops (sub R_ops (fst e) s0)) end);
    destruct (snd e); cbn [r_pts]; eexists; try reflexivity; rewrite app_nil_r; reflexivity.
Qed.

Lemma fold_pts_extend eps l : forall st, exists tail, r_pts (fold_left (roc_step R_ops eps) l st) = r_pts st ++ tail.
Proof.
  induction l as [|e l IH]; intros st; simpl; [exists []; rewrite app_nil_r; reflexivity|].
  destruct (IH (roc_step R_ops eps st e)) as [t1 H1]. destruct (step_pts_extend eps st e) as [t2 H2].
  exists (t2 ++ t1). rewrite H1, H2, app_assoc. reflexivity.
Qed.

Lemma roc_raw_head eps l : exists tail, r_pts (roc_raw R_ops eps l) = (0, 0) :: tail.
Proof.
  unfold roc_raw. cbn [r_pts]. destruct l as [|e l].
  - simpl. exists []. reflexivity.
  - cbn [fold_left]. destruct (fold_pts_extend eps l (roc_step R_ops eps (roc_init R_ops) e)) as [t H].
    rewrite H. unfold roc_step at 1. cbn [roc_init r_s0 r_tp r_fp r_pts app].
    destruct (snd e); cbn [r_pts app]; eexists; reflexivity.
Qed.

Lemma roc_raw_last eps l : exists pts,
  r_pts (roc_raw R_ops eps l) = pts ++ [(r_tp (roc_raw R_ops eps l), r_fp (roc_raw R_ops eps l))].
Proof. unfold roc_raw. cbn [r_pts r_tp r_fp]. eexists. reflexivity. Qed.

Lemma roc_endpoints_raw eps ps : 0 <= eps -> separated eps (kept ps) ->
  (0 < npos (kept ps))%nat -> (0 < nneg (kept ps))%nat ->
  let curve := fst (roc R_ops eps ps) in
  hd (0, 0) curve = (0, 0) /\ last curve (0, 0) = (1, 1).
Proof.
  intros Heps Hsep Hp Hn. destruct (roc_raw_facts eps ps Heps Hsep) as [_ [H2 H3]].
  assert (HP : INR (npos (kept ps)) <> 0) by (apply not_0_INR; lia).
  assert (HN : INR (nneg (kept ps)) <> 0) by (apply not_0_INR; lia).
  unfold roc. cbn [fst]. split.
  - destruct (roc_raw_head eps (roc_prepare R_ops ps)) as [t Ht]. rewrite Ht.
    unfold roc_raw in H2, H3. cbn [r_tp r_fp] in H2, H3. simpl. f_equal; field; rewrite ?H2, ?H3; auto.
  - destruct (roc_raw_last eps (roc_prepare R_ops ps)) as [pts Hl]. rewrite Hl.
    rewrite map_app. cbn [map]. rewrite last_last. cbn [fst snd]. f_equal; cbn [div R_ops]; field; rewrite ?H2, ?H3; auto.
Qed.

Definition le2 (p q : R * R) : Prop := fst p <= fst q /\ snd p <= snd q.
Definition mono (pts : list (R * R)) : Prop := StronglySorted le2 pts.

Lemma mono_snoc pts x : mono pts -> Forall (fun p => le2 p x) pts -> mono (pts ++ [x]).
Proof.
  induction 1 as [|p pts Hs IH Hp]; intros Hf; simpl; [repeat constructor|].
  inversion Hf; subst. constructor; [apply IH; auto|].
  apply Forall_app. split; auto.
Qed.

Definition jnv (st : @roc_state R) : Prop :=
  mono (r_pts st) /\ Forall (fun p => le2 p (r_tp st, r_fp st)) (r_pts st).

Lemma jnv_step eps st e : jnv st -> jnv (roc_step R_ops eps st e).
Proof.
  intros [H1 H2]. unfold roc_step.
  destruct (match r_s0 st with None => true | Some s0 => ltb R_ops eps (abs R_ops (sub R_ops (fst e) s0)) end);
    destruct (snd e); unfold jnv; cbn [r_pts r_tp r_fp]; split;
    try (apply mono_snoc; assumption); try assumption;
    try (apply Forall_app; split; [|constructor; [unfold le2; simpl; lra | constructor]]);
    (eapply Forall_impl; [|exact H2]); intros p [Ha Hb]; unfold le2 in *; simpl in *; lra.
Qed.

Lemma jnv_fold eps l : forall st, jnv st -> jnv (fold_left (roc_step R_ops eps) l st).
Proof. induction l as [|e l IH]; intros st H; simpl; auto. apply IH, jnv_step, H. Qed.

Lemma roc_raw_mono eps l : mono (r_pts (roc_raw R_ops eps l)).
Proof.
  unfold roc_raw. cbn [r_pts].
  assert (H : jnv (fold_left (roc_step R_ops eps) l (roc_init R_ops))).
  { apply jnv_fold. unfold jnv, roc_init. simpl. split; constructor. }
  destruct H as [H1 H2]. apply mono_snoc; assumption.
Qed.

Lemma mono_scale (P N : R) pts : 0 < P -> 0 < N -> mono pts -> mono (map (fun q => (fst q / P, snd q / N)) pts).
Proof.
  intros HP HN. induction 1 as [|p pts Hs IH Hp]; simpl; constructor; auto.
  rewrite Forall_forall in *. intros q Hq. apply in_map_iff in Hq. destruct Hq as [r [<- Hr]].
  destruct (Hp r Hr) as [Ha Hb]. unfold le2; simpl. split; apply Rmult_le_compat_r; auto; left; apply Rinv_0_lt_compat; auto.
Qed.

Lemma roc_monotone_R eps ps : 0 <= eps -> separated eps (kept ps) ->
  (0 < npos (kept ps))%nat -> (0 < nneg (kept ps))%nat ->
  mono (fst (roc R_ops eps ps)).
Proof.
  intros Heps Hsep Hp Hn. destruct (roc_raw_facts eps ps Heps Hsep) as [_ [H2 H3]].
  unfold roc. cbn [fst]. apply mono_scale; [rewrite H2; apply lt_0_INR; lia | rewrite H3; apply lt_0_INR; lia | apply roc_raw_mono].
Qed.
(** * The confusion matrix of two label vectors *)
Section CMTop.
Context {L : Type} (lltb leqb : L -> L -> bool).
Context (Heq : forall x y, leqb x y = true <-> x = y).
Context (Hirr : forall x, lltb x x = false).
Context (Htrans : forall x y z, lltb x y = true -> lltb y z = true -> lltb x z = true).
Context (Htot : forall x y, lltb x y = true \/ x = y \/ lltb y x = true).

Lemma confusion_matrix_some pred truth : length pred = length truth ->
  confusion_matrix R_ops lltb leqb pred truth =
  Some (classes lltb leqb pred truth, cm_count R_ops leqb (classes lltb leqb pred truth) pred truth).
Proof. intros H. unfold confusion_matrix. rewrite H, Nat.eqb_refl. reflexivity. Qed.

Lemma confusion_matrix_none pred truth : length pred <> length truth ->
  confusion_matrix R_ops lltb leqb pred truth = None.
Proof. intros H. unfold confusion_matrix. apply Nat.eqb_neq in H. rewrite H. reflexivity. Qed.

Let cs pred truth := classes lltb leqb pred truth.
Let cm pred truth := cm_count R_ops leqb (cs pred truth) pred truth.

Lemma cm_cells_top pred truth i j d :
  (i < length (cs pred truth))%nat -> (j < length (cs pred truth))%nat ->
  get R_ops (cm pred truth) i j =
  INR (count_pairs leqb (nth i (cs pred truth) d) (nth j (cs pred truth) d) pred truth).
Proof.
  intros Hi Hj. unfold cm. apply (cm_cells_gen leqb Heq); auto.
  apply (classes_nodup lltb leqb Heq Hirr Htrans Htot).
Qed.

Lemma cm_wf_top pred truth : wf (length (cs pred truth)) (cm pred truth).
Proof. apply cm_count_wf. Qed.

Lemma cm_total_top pred truth : length pred = length truth ->
  total_s R_ops (cm pred truth) = INR (length pred).
Proof.
  intros Hlen. rewrite (total_get _ _ (cm_wf_top pred truth)).
  pose proof (classes_nodup lltb leqb Heq Hirr Htrans Htot pred truth) as Hnd.
  destruct (cs pred truth) as [|c0 rest] eqn:Ecs.
  - (* no class at all: both vectors are empty *)
    simpl. destruct pred as [|p pred]; [reflexivity|]. exfalso.
    assert (Hin' : In p (cs (p :: pred) truth)) by (apply (in_classes lltb leqb Heq); left; reflexivity).
    rewrite Ecs in Hin'. destruct Hin'.
  - rewrite <- Ecs.
    rewrite (Rsum_map_ext _ (fun i => Rsum (map (fun j => INR (count_pairs leqb (nth i (cs pred truth) c0) (nth j (cs pred truth) c0) pred truth))
                                                 (seq 0 (length (cs pred truth)))))).
    2:{ intros i Hi. apply in_seq in Hi. apply Rsum_map_ext. intros j Hj. apply in_seq in Hj. apply cm_cells_top; lia. }
    rewrite (Rsum_map_ext _ (fun i => Rsum (map (fun b => INR (count_pairs leqb (nth i (cs pred truth) c0) b pred truth)) (cs pred truth)))).
    2:{ intros i _. rewrite <- (map_seq_nth (fun b => INR (count_pairs leqb (nth i (cs pred truth) c0) b pred truth)) (cs pred truth) c0). reflexivity. }
    rewrite (map_seq_nth (fun a => Rsum (map (fun b => INR (count_pairs leqb a b pred truth)) (cs pred truth))) (cs pred truth) c0).
    apply (count_pairs_total leqb Heq); auto.
    intros x Hx. apply (in_classes lltb leqb Heq). exact Hx.
Qed.

Lemma cm_trace_top pred truth : length pred = length truth ->
  trace_s R_ops (cm pred truth) = INR (count_eq leqb pred truth).
Proof.
  intros Hlen. unfold trace_s. rewrite sum_s_R. rewrite (diag_length _ _ (proj1 (cm_wf_top pred truth))).
  pose proof (classes_nodup lltb leqb Heq Hirr Htrans Htot pred truth) as Hnd.
  destruct (cs pred truth) as [|c0 rest] eqn:Ecs.
  - simpl. destruct pred as [|p pred]; [destruct truth; reflexivity|]. exfalso.
    assert (Hin' : In p (cs (p :: pred) truth)) by (apply (in_classes lltb leqb Heq); left; reflexivity).
    rewrite Ecs in Hin'. destruct Hin'.
  - rewrite <- Ecs.
    rewrite (Rsum_map_ext _ (fun i => INR (count_pairs leqb (nth i (cs pred truth) c0) (nth i (cs pred truth) c0) pred truth))).
    2:{ intros i Hi. apply in_seq in Hi. apply cm_cells_top; lia. }
    rewrite (map_seq_nth (fun a => INR (count_pairs leqb a a pred truth)) (cs pred truth) c0).
    apply (count_pairs_diag leqb Heq); auto.
    intros x Hx. apply (in_classes lltb leqb Heq). exact Hx.
Qed.

Lemma cm_accuracy_top pred truth : length pred = length truth ->
  accuracy R_ops (cm pred truth) = INR (count_eq leqb pred truth) / INR (length pred).
Proof.
  intros Hlen. rewrite accuracy_cells, cm_trace_top, cm_total_top; auto.
Qed.

End CMTop.

(** * Packaging for the property statements *)
Record label_order {L : Type} (lltb leqb : L -> L -> bool) : Prop := {
  lo_eq : forall x y, leqb x y = true <-> x = y;
  lo_irr : forall x, lltb x x = false;
  lo_trans : forall x y z, lltb x y = true -> lltb y z = true -> lltb x z = true;
  lo_tot : forall x y, lltb x y = true \/ x = y \/ lltb y x = true
}.

Lemma N_label_order : label_order N.ltb N.eqb.
Proof.
  constructor.
  - intros x y. apply N.eqb_eq.
  - intros x. apply N.ltb_irrefl.
  - intros x y z H1 H2. apply N.ltb_lt in H1, H2. apply N.ltb_lt. lia.
  - intros x y. destruct (N.lt_trichotomy x y) as [H|[H|H]]; [left; apply N.ltb_lt; auto | right; left; auto | right; right; apply N.ltb_lt; auto].
Qed.

Lemma bool_label_order : label_order (fun a b => negb a && b) Bool.eqb.
Proof.
  constructor.
  - intros x y. apply Bool.eqb_true_iff.
  - intros []; reflexivity.
  - intros [] [] []; simpl; auto.
  - intros [] []; simpl; auto.
Qed.

Lemma kept_all (ps : list (R * bool)) : Forall (fun p => 0 <= fst p) ps -> kept ps = ps.
Proof.
  induction 1 as [|p ps Hp Hf IH]; [reflexivity|]. unfold kept in *. simpl.
  replace (Rleb 0 (fst p)) with true by (symmetry; apply Rleb_true; exact Hp). rewrite IH. reflexivity.
Qed.
(** * Invariance under one permutation applied to both arguments *)
Lemma Rsum_perm l l' : Permutation l l' -> Rsum l = Rsum l'.
Proof. induction 1; simpl; lra. Qed.

Lemma combine_fst_snd {A B} (l : list (A * B)) : combine (map fst l) (map snd l) = l.
Proof. induction l as [|[a b] l IH]; simpl; congruence. Qed.

Lemma sorted_perm_eq {A} (Rel : A -> A -> Prop) (Hanti : forall x y, Rel x y -> Rel y x -> x = y) :
  forall l1 l2, StronglySorted Rel l1 -> StronglySorted Rel l2 -> Permutation l1 l2 -> l1 = l2.
Proof.
  induction l1 as [|a l1 IH]; intros l2 H1 H2 Hp.
  - apply Permutation_nil in Hp. auto.
  - destruct l2 as [|b l2]; [apply Permutation_sym, Permutation_nil in Hp; discriminate|].
    inversion H1 as [|? ? S1 F1]; inversion H2 as [|? ? S2 F2]; subst.
    assert (E : a = b).
    { assert (Ha : In a (b :: l2)) by (apply (Permutation_in _ Hp); left; auto).
      assert (Hb : In b (a :: l1)) by (apply (Permutation_in _ (Permutation_sym Hp)); left; auto).
      destruct Ha as [Ha|Ha]; [auto|]. destruct Hb as [Hb|Hb]; [auto|].
      rewrite Forall_forall in F1, F2. apply Hanti; [apply F1; auto | apply F2; auto]. }
    subst b. f_equal. apply IH; auto. eapply Permutation_cons_inv; eauto.
Qed.

(* pairs view of two vectors of equal length *)
Lemma vsub_pairs (l : list (R * R)) : vsub R_ops (map fst l) (map snd l) = map (fun p => fst p - snd p) l.
Proof. unfold vsub. rewrite combine_fst_snd. reflexivity. Qed.

Lemma mean_map_perm {A} (g : A -> R) ab ab' : Permutation ab ab' -> mean_s R_ops (map g ab) = mean_s R_ops (map g ab').
Proof.
  intros Hp. rewrite !mean_s_R, !map_length, (Permutation_length Hp). f_equal. apply Rsum_perm, Permutation_map, Hp.
Qed.

Lemma sum_map_perm {A} (g : A -> R) ab ab' : Permutation ab ab' -> Rsum (map g ab) = Rsum (map g ab').
Proof. intros Hp. apply Rsum_perm, Permutation_map, Hp. Qed.

Lemma cmean_map_perm {A} (g : A -> R) ab ab' : Permutation ab ab' -> cmean R_ops (map g ab) = cmean R_ops (map g ab').
Proof.
  intros Hp. destruct ab as [|x l].
  - apply Permutation_nil in Hp. subst. reflexivity.
  - destruct ab' as [|x' l']; [apply Permutation_sym, Permutation_nil in Hp; discriminate|].
    rewrite !cmean_R by (simpl; discriminate). f_equal. apply mean_map_perm, Hp.
Qed.

Lemma mae_perm ab ab' : Permutation ab ab' ->
  mean_absolute_error R_ops (map fst ab) (map snd ab) = mean_absolute_error R_ops (map fst ab') (map snd ab').
Proof. intros Hp. unfold mean_absolute_error. rewrite !vsub_pairs, !map_map. apply cmean_map_perm, Hp. Qed.

Lemma mse_perm ab ab' : Permutation ab ab' ->
  mean_squared_error R_ops (map fst ab) (map snd ab) = mean_squared_error R_ops (map fst ab') (map snd ab').
Proof. intros Hp. unfold mean_squared_error. rewrite !vsub_pairs, !map_map. apply cmean_map_perm, Hp. Qed.

Lemma mape_perm ab ab' : Permutation ab ab' ->
  mean_absolute_percentage_error R_ops (map fst ab) (map snd ab) = mean_absolute_percentage_error R_ops (map fst ab') (map snd ab').
Proof. intros Hp. unfold mean_absolute_percentage_error. rewrite !combine_fst_snd. apply cmean_map_perm, Hp. Qed.

Lemma msle_perm ln ab ab' : Permutation ab ab' ->
  mean_squared_log_error R_ops ln (map fst ab) (map snd ab) = mean_squared_log_error R_ops ln (map fst ab') (map snd ab').
Proof.
  intros Hp. unfold mean_squared_log_error, mean_squared_error, vsub. rewrite !map_map.
  assert (G : forall l : list (R * R),
            combine (map (fun x => ln (add R_ops (one R_ops) (fst x))) l) (map (fun x => ln (add R_ops (one R_ops) (snd x))) l)
            = map (fun p => (ln (add R_ops (one R_ops) (fst p)), ln (add R_ops (one R_ops) (snd p)))) l).
  { induction l as [|[x y] l IH]; [reflexivity|]. cbn [map combine fst snd]. rewrite IH. reflexivity. }
  rewrite !G, !map_map. apply cmean_map_perm, Hp.
Qed.

Lemma sse_perm ab ab' : Permutation ab ab' ->
  sse_spec R_ops (map fst ab) (map snd ab) = sse_spec R_ops (map fst ab') (map snd ab').
Proof. intros Hp. unfold sse_spec. rewrite !vsub_pairs, !map_map. apply (sum_map_perm _ _ _ Hp). Qed.

Lemma sst_perm (b b' : list R) : Permutation b b' -> sst_spec R_ops b = sst_spec R_ops b'.
Proof.
  intros Hp. unfold sst_spec. cbv zeta.
  assert (Hm : mean_s R_ops b = mean_s R_ops b').
  { rewrite !mean_s_R, (Permutation_length Hp), (Rsum_perm _ _ Hp). reflexivity. }
  rewrite Hm. apply (sum_map_perm _ _ _ Hp).
Qed.

Lemma r2_perm c s ab ab' : Permutation ab ab' ->
  r2 R_ops c s (map fst ab) (map snd ab) = r2 R_ops c s (map fst ab') (map snd ab').
Proof.
  intros Hp. destruct ab as [|x l].
  - apply Permutation_nil in Hp. subst. reflexivity.
  - destruct ab' as [|x' l']; [apply Permutation_sym, Permutation_nil in Hp; discriminate|].
    rewrite !r2_eq by (simpl; discriminate). f_equal. unfold r2_spec.
    rewrite (sse_perm _ _ Hp), (sst_perm _ _ (Permutation_map snd Hp)). reflexivity.
Qed.

Lemma ev_perm c s ab ab' : Permutation ab ab' ->
  explained_variance R_ops c s (map fst ab) (map snd ab) = explained_variance R_ops c s (map fst ab') (map snd ab').
Proof.
  intros Hp. destruct ab as [|x l].
  - apply Permutation_nil in Hp. subst. reflexivity.
  - destruct ab' as [|x' l']; [apply Permutation_sym, Permutation_nil in Hp; discriminate|].
    rewrite !ev_code_form by (simpl; discriminate). f_equal.
    rewrite (sst_perm _ _ (Permutation_map snd Hp)). rewrite !vsub_pairs, !map_map.
    rewrite (sum_map_perm (fun x => (fst x - snd x) * (fst x - snd x)) _ _ Hp).
    rewrite (mean_map_perm (fun p => fst p - snd p) _ _ Hp). reflexivity.
Qed.

(* maximum and median *)
Lemma fold_fmax_spec t : forall x, let v := fold_left (fmax R_ops) t x in
  In v (x :: t) /\ forall y, In y (x :: t) -> y <= v.
Proof.
  induction t as [|z t IH]; intros x; simpl.
  - split; [left; reflexivity | intros y [<-|[]]; lra].
  - destruct (IH (fmax R_ops x z)) as [H1 H2]. unfold fmax in *. simpl ltb in *.
    destruct (Rltb x z) eqn:E.
    + apply Rltb_true in E. split.
      * destruct H1 as [H1|H1]; [right; left; exact H1 | right; right; exact H1].
      * intros y [<-|[<-|Hy]]; [|apply H2; left; reflexivity | apply H2; right; exact Hy].
        assert (z <= fold_left (fun a0 b0 => if Rltb a0 b0 then b0 else a0) t z) by (apply H2; left; reflexivity). lra.
    + apply Rltb_false in E. split.
      * destruct H1 as [H1|H1]; [left; exact H1 | right; right; exact H1].
      * intros y [<-|[<-|Hy]]; [apply H2; left; reflexivity | | apply H2; right; exact Hy].
        assert (x <= fold_left (fun a0 b0 => if Rltb a0 b0 then b0 else a0) t x) by (apply H2; left; reflexivity). lra.
Qed.

Lemma max_error_spec a b v : max_error R_ops a b = Some v ->
  let e := map Rabs (vsub R_ops a b) in In v e /\ forall y, In y e -> y <= v.
Proof.
  unfold max_error. simpl abs. destruct (map Rabs (vsub R_ops a b)) as [|x t]; [discriminate|].
  intros H. inversion H; subst. apply fold_fmax_spec.
Qed.

Lemma ins_f_perm x l : Permutation (ins_f R_ops x l) (x :: l).
Proof.
  induction l as [|y l IH]; simpl; auto. destruct (Rltb x y); auto.
  eapply perm_trans; [apply perm_skip; exact IH | apply perm_swap].
Qed.
Lemma sort_f_perm l : Permutation (sort_f R_ops l) l.
Proof. induction l as [|x l IH]; simpl; auto. eapply perm_trans; [apply ins_f_perm | apply perm_skip; exact IH]. Qed.
Lemma ins_f_sorted x l : StronglySorted Rle l -> StronglySorted Rle (ins_f R_ops x l).
Proof.
  induction 1 as [|y l Hs IH Hy]; simpl; [repeat constructor|].
  destruct (Rltb x y) eqn:E.
  - apply Rltb_true in E. constructor; [constructor; auto|]. constructor; [lra|].
    rewrite Forall_forall in *. intros r Hr. specialize (Hy r Hr). lra.
  - apply Rltb_false in E. constructor; [exact IH|].
    rewrite Forall_forall in *. intros r Hr. apply (Permutation_in _ (ins_f_perm x l)) in Hr. destruct Hr as [<-|Hr]; auto.
Qed.
Lemma sort_f_sorted l : StronglySorted Rle (sort_f R_ops l).
Proof. induction l as [|x l IH]; simpl; [constructor | apply ins_f_sorted; exact IH]. Qed.

Lemma sort_f_perm_eq l l' : Permutation l l' -> sort_f R_ops l = sort_f R_ops l'.
Proof.
  intros H. apply (sorted_perm_eq Rle); [intros; lra | apply sort_f_sorted | apply sort_f_sorted |].
  eapply perm_trans; [apply sort_f_perm|]. eapply perm_trans; [exact H|]. apply Permutation_sym, sort_f_perm.
Qed.

(** the median is the middle element (mean of the two middle elements) of the sorted absolute errors *)
Lemma median_spec a b v : median_absolute_error R_ops a b = Some v ->
  exists e, Permutation e (map Rabs (vsub R_ops a b)) /\ StronglySorted Rle e /\
    v = if Nat.even (length e) then (nth (Nat.div (length e) 2 - 1) e 0 + nth (Nat.div (length e) 2) e 0) / 2
        else nth (Nat.div (length e) 2) e 0.
Proof.
  unfold median_absolute_error. simpl abs. set (e := sort_f R_ops (map Rabs (vsub R_ops a b))).
  intros H. exists e. split; [apply sort_f_perm|]. split; [apply sort_f_sorted|].
  destruct (length e) eqn:El; [discriminate|]. inversion H. unfold two. simpl. reflexivity.
Qed.

Section PermReg2.
Variables ab ab' : list (R * R).
Hypothesis Hp : Permutation ab ab'.

Lemma abs_err_perm : Permutation (map Rabs (vsub R_ops (map fst ab) (map snd ab))) (map Rabs (vsub R_ops (map fst ab') (map snd ab'))).
Proof. rewrite !vsub_pairs. apply Permutation_map, Permutation_map, Hp. Qed.

Lemma median_perm : median_absolute_error R_ops (map fst ab) (map snd ab) = median_absolute_error R_ops (map fst ab') (map snd ab').
Proof. unfold median_absolute_error. simpl abs. rewrite (sort_f_perm_eq _ _ abs_err_perm). reflexivity. Qed.

Lemma max_error_perm : max_error R_ops (map fst ab) (map snd ab) = max_error R_ops (map fst ab') (map snd ab').
Proof.
  pose proof abs_err_perm as Hq.
  destruct (max_error R_ops (map fst ab) (map snd ab)) as [v|] eqn:E1;
  destruct (max_error R_ops (map fst ab') (map snd ab')) as [v'|] eqn:E2.
  - apply max_error_spec in E1, E2. destruct E1 as [I1 M1], E2 as [I2 M2]. f_equal.
    assert (v <= v') by (apply M2; apply (Permutation_in _ Hq); exact I1).
    assert (v' <= v) by (apply M1; apply (Permutation_in _ (Permutation_sym Hq)); exact I2). lra.
  - exfalso. unfold max_error in E1, E2. simpl abs in *.
    destruct (map Rabs (vsub R_ops (map fst ab) (map snd ab))) as [|x t]; [discriminate|].
    destruct (map Rabs (vsub R_ops (map fst ab') (map snd ab'))); [|discriminate].
    apply Permutation_sym, Permutation_nil in Hq. discriminate.
  - exfalso. unfold max_error in E1, E2. simpl abs in *.
    destruct (map Rabs (vsub R_ops (map fst ab') (map snd ab'))) as [|x t]; [discriminate|].
    destruct (map Rabs (vsub R_ops (map fst ab) (map snd ab))); [|discriminate].
    apply Permutation_nil in Hq. discriminate.
  - reflexivity.
Qed.
End PermReg2.

Lemma filter_perm {A} (f : A -> bool) l l' : Permutation l l' -> Permutation (filter f l) (filter f l').
Proof.
  induction 1; simpl; auto.
  - destruct (f x); auto.
  - destruct (f x), (f y); auto. apply perm_swap.
  - eapply perm_trans; eauto.
Qed.

Lemma log_loss_perm ln feps ps ps' : Permutation ps ps' ->
  log_loss R_ops ln feps ps = log_loss R_ops ln feps ps'.
Proof.
  intros Hp. destruct ps as [|p l].
  - apply Permutation_nil in Hp. subst. reflexivity.
  - destruct ps' as [|p' l']; [apply Permutation_sym, Permutation_nil in Hp; discriminate|].
    unfold log_loss. rewrite !fsum_R. f_equal. rewrite (Permutation_length Hp). f_equal.
    apply Rsum_perm, Permutation_map, Hp.
Qed.

Lemma auc_perm eps ps ps' : Permutation ps ps' ->
  0 <= eps -> separated eps (kept ps) -> (0 < npos (kept ps))%nat -> (0 < nneg (kept ps))%nat ->
  auc R_ops eps ps = auc R_ops eps ps'.
Proof.
  intros Hp Heps Hsep Hpos Hneg.
  assert (Hk : Permutation (kept ps) (kept ps')) by (apply filter_perm, Hp).
  assert (Hpos' : npos (kept ps') = npos (kept ps)) by (symmetry; apply filter_length_perm, Hk).
  assert (Hneg' : nneg (kept ps') = nneg (kept ps)) by (symmetry; apply filter_length_perm, Hk).
  rewrite (auc_mann_whitney eps ps) by auto.
  assert (Hsep' : separated eps (kept ps')) by (eapply separated_perm; eauto).
  assert (Hp2 : (0 < npos (kept ps'))%nat) by (rewrite Hpos'; auto).
  assert (Hn2 : (0 < nneg (kept ps'))%nat) by (rewrite Hneg'; auto).
  rewrite (auc_mann_whitney eps ps' Heps Hsep' Hp2 Hn2).
  unfold auc_spec. rewrite Hpos', Hneg', (mw2_perm _ _ Hk). reflexivity.
Qed.

Section CMPerm.
Context {L : Type} (lltb leqb : L -> L -> bool).
Context (Heq : forall x y, leqb x y = true <-> x = y).
Context (Hirr : forall x, lltb x x = false).
Context (Htrans : forall x y z, lltb x y = true -> lltb y z = true -> lltb x z = true).
Context (Htot : forall x y, lltb x y = true \/ x = y \/ lltb y x = true).

Lemma count_pairs_filter a b (pt : list (L * L)) :
  count_pairs leqb a b (map fst pt) (map snd pt) = length (filter (fun p => leqb (fst p) a && leqb (snd p) b) pt).
Proof. induction pt as [|[p t] pt IH]; simpl; auto. rewrite IH. destruct (leqb p a && leqb t b); reflexivity. Qed.

Lemma count_pairs_perm a b pt pt' : Permutation pt pt' ->
  count_pairs leqb a b (map fst pt) (map snd pt) = count_pairs leqb a b (map fst pt') (map snd pt').
Proof. intros Hp. rewrite !count_pairs_filter. apply filter_length_perm, Hp. Qed.

Lemma sort_set_perm l l' : Permutation l l' -> sort_set lltb leqb l = sort_set lltb leqb l'.
Proof.
  intros Hp. apply (sorted_perm_eq (lt lltb)).
  - intros x y H1 H2. pose proof (Htrans _ _ _ H1 H2) as H. rewrite Hirr in H. discriminate.
  - apply (sort_set_sorted lltb leqb Heq Htrans Htot).
  - apply (sort_set_sorted lltb leqb Heq Htrans Htot).
  - apply NoDup_Permutation.
    + apply (sorted_nodup lltb Hirr), (sort_set_sorted lltb leqb Heq Htrans Htot).
    + apply (sorted_nodup lltb Hirr), (sort_set_sorted lltb leqb Heq Htrans Htot).
    + intros x. rewrite !(in_sort_set lltb leqb Heq). split; apply Permutation_in; [exact Hp | apply Permutation_sym, Hp].
Qed.

Lemma classes_perm pt pt' : Permutation pt pt' ->
  classes lltb leqb (map fst pt) (map snd pt) = classes lltb leqb (map fst pt') (map snd pt').
Proof.
  intros Hp. unfold classes.
  rewrite (sort_set_perm (map fst pt ++ map snd pt) (map fst pt' ++ map snd pt')); [reflexivity|].
  apply Permutation_app; apply Permutation_map; exact Hp.
Qed.

Lemma wf_ext k (m m' : list (list R)) : wf k m -> wf k m' ->
  (forall i j, (i < k)%nat -> (j < k)%nat -> get R_ops m i j = get R_ops m' i j) -> m = m'.
Proof.
  intros [H1 H2] [H1' H2'] Hg. rewrite Forall_forall in H2, H2'.
  apply (nth_ext _ _ [] []); [congruence|]. intros i Hi. rewrite H1 in Hi.
  apply (nth_ext _ _ 0 0).
  - rewrite H2 by (apply nth_In; lia). rewrite H2' by (apply nth_In; lia). reflexivity.
  - intros j Hj. rewrite H2 in Hj by (apply nth_In; lia). apply (Hg i j Hi Hj).
Qed.

Lemma confusion_matrix_perm pt pt' : Permutation pt pt' ->
  confusion_matrix R_ops lltb leqb (map fst pt) (map snd pt) = confusion_matrix R_ops lltb leqb (map fst pt') (map snd pt').
Proof.
  intros Hp. rewrite !confusion_matrix_some by (rewrite !map_length; reflexivity).
  rewrite <- (classes_perm pt pt' Hp). f_equal. f_equal.
  set (cs := classes lltb leqb (map fst pt) (map snd pt)).
  assert (Hnd : NoDup cs) by apply (classes_nodup lltb leqb Heq Hirr Htrans Htot).
  apply (wf_ext (length cs)); try apply cm_count_wf.
  intros i j Hi Hj. destruct cs as [|c0 cs'] eqn:E; [simpl in Hi; lia|]. rewrite <- E in *.
  rewrite (cm_cells_gen leqb Heq cs _ _ i j c0 Hnd Hi Hj), (cm_cells_gen leqb Heq cs _ _ i j c0 Hnd Hi Hj).
  rewrite (count_pairs_perm _ _ pt pt' Hp). reflexivity.
Qed.
End CMPerm.

(** * Non-vacuity: the hypotheses of the property theorems are satisfiable on non-trivial inputs *)
Ltac decide_cmp :=
  repeat match goal with
         | |- context [Rltb ?a ?b] =>
             let E := fresh "E" in destruct (Rltb a b) eqn:E; [apply Rltb_true in E | apply Rltb_false in E]; try lra
         | |- context [Reqb ?a ?b] =>
             let E := fresh "E" in destruct (Reqb a b) eqn:E; [apply Reqb_true in E | assert (a <> b) by (intros C; apply Reqb_true in C; congruence)]; try lra
         end.

Example ex_classes_multi : classes N.ltb N.eqb [1; 0; 1; 2]%N [1; 1; 0; 2]%N = [0; 1; 2]%N.
Proof. reflexivity. Qed.
Example ex_classes_binary_reversed : classes N.ltb N.eqb [0; 1; 1]%N [1; 1; 1]%N = [1; 0]%N.
Proof. reflexivity. Qed.
Example ex_classes_differing_label_sets : classes N.ltb N.eqb [5; 5]%N [3; 9]%N = [3; 5; 9]%N.
Proof. reflexivity. Qed.

Example ex_cm_accuracy :
  accuracy R_ops (cm_count R_ops N.eqb (classes N.ltb N.eqb [1; 0; 1; 2]%N [1; 1; 0; 2]%N) [1; 0; 1; 2]%N [1; 1; 0; 2]%N) = 2 / 4.
Proof.
  destruct N_label_order as [H1 H2 H3 H4].
  rewrite (cm_accuracy_top N.ltb N.eqb H1 H2 H3 H4) by reflexivity. simpl. field.
Qed.

Example ex_wf : wf 3 [[2; 1; 0]; [0; 3; 1]; [1; 0; 4]].
Proof. split; [reflexivity | repeat constructor]. Qed.

Definition ex_ps : list (R * bool) := [(1/4, false); (1/2, true); (1/2, false); (3/4, true)].

Example ex_auc_hypotheses :
  separated 0 (kept ex_ps) /\ (0 < npos (kept ex_ps))%nat /\ (0 < nneg (kept ex_ps))%nat.
Proof.
  assert (Hk : kept ex_ps = ex_ps) by (apply kept_all; unfold ex_ps; repeat constructor; simpl; lra).
  rewrite Hk. split; [|split; unfold ex_ps, Model.npos, Model.nneg; simpl; lia].
  intros x y Hx Hy. simpl in Hx, Hy.
  assert (G : forall u v : R, u = v \/ 0 < Rabs (v - u)).
  { intros u v. destruct (Req_dec u v); [left; auto | right; apply Rabs_pos_lt; lra]. }
  apply G.
Qed.

Example ex_auc_value : auc R_ops 0 ex_ps = 7 / 8.
Proof.
  destruct ex_auc_hypotheses as [H1 [H2 H3]].
  rewrite (auc_mann_whitney 0 ex_ps (Rle_refl 0) H1 H2 H3).
  assert (Hk : kept ex_ps = ex_ps) by (apply kept_all; unfold ex_ps; repeat constructor; simpl; lra).
  rewrite Hk. unfold auc_spec, ex_ps, mw2, mw_pair, npos, nneg, ofn, two. simpl.
  decide_cmp; simpl; lra.
Qed.

Example ex_ev_outside_known :
  explained_variance R_ops 1 false [1; 3] [2; 2] = Some (ev_spec R_ops 1 [1; 3] [2; 2]).
Proof.
  apply (ev_agrees_iff 1 false [1; 3] [2; 2]); try discriminate.
  - unfold sst_spec, mean_s, sum_s, ofn, sq. simpl. lra.
  - left. unfold mean_s, sum_s, ofn. simpl. lra.
Qed.

Example ex_ev_defect : explained_variance R_ops 0 false [1; 2] [0; 1] = Some (-1) /\ ev_spec R_ops 0 [1; 2] [0; 1] = 1.
Proof.
  split.
  - rewrite ev_code_form by discriminate. unfold sst_spec, mean_s, sum_s, ofn, sq. simpl. f_equal. lra.
  - unfold ev_spec, sst_spec, mean_s, sum_s, ofn, sq. simpl. lra.
Qed.


(** * binary32 cells are the integer counts *)
Lemma count_pairs_le {L} (leqb : L -> L -> bool) a b pred truth : (count_pairs leqb a b pred truth <= length pred)%nat.
Proof.
  revert truth; induction pred as [|p pred IH]; intros [|t truth]; simpl; try lia.
  specialize (IH truth). destruct (leqb p a && leqb t b)%bool; lia.
Qed.

Lemma cm_cells_f32 {L} (lltb leqb : L -> L -> bool) (H : label_order lltb leqb) pred truth i j d :
  let cs := classes lltb leqb pred truth in
  (i < length cs)%nat -> (j < length cs)%nat ->
  (N.of_nat (count_pairs leqb (nth i cs d) (nth j cs d) pred truth) <= 16777216)%N ->
  get B32_ops (cm_count B32_ops leqb cs pred truth) i j
  = of_N B32_ops (N.of_nat (count_pairs leqb (nth i cs d) (nth j cs d) pred truth)).
Proof.
  destruct H as [H1 H2 H3 H4]. intros cs Hi Hj Hn.
  rewrite (cm_cells_iter leqb H1 B32_ops cs pred truth i j d (classes_nodup lltb leqb H1 H2 H3 H4 pred truth) Hi Hj).
  apply f32_count_exact. exact Hn.
Qed.

(* the hypothesis is satisfiable, and the bound is sharp (F32Exact.f32_succ_saturates) *)
Example ex_cm_cells_f32 :
  get B32_ops (cm_count B32_ops N.eqb (classes N.ltb N.eqb [1; 0; 1]%N [1; 1; 1]%N) [1; 0; 1]%N [1; 1; 1]%N) 0 0
  = of_N B32_ops 2.
Proof. vm_compute. reflexivity. Qed.

(** * Silhouette *)
Section SilProofs.
Context {L : Type} (leqb : L -> L -> bool).

Lemma fold_cond_add {A} (p : A -> bool) (g : A -> R) l : forall a,
  fold_left (fun acc y => if p y then add R_ops acc (g y) else acc) l a = a + Rsum (map g (filter p l)).
Proof.
  induction l as [|y l IH]; intros a; simpl; [lra|]. rewrite IH. destruct (p y); simpl; lra.
Qed.

Lemma total_to_R X ls x c :
  total_to R_ops leqb X ls x c = Rsum (map (edist R_ops x) (members leqb X ls c)).
Proof.
  unfold total_to, members.
  rewrite (fold_cond_add (fun yl : list R * L => leqb c (snd yl)) (fun yl => edist R_ops x (fst yl))).
  simpl zero. rewrite map_map. lra.
Qed.

Lemma fold_skip (l : L) (h : L -> R) (cs : list L) : forall b0 : option R,
  fold_left (fun b c => if leqb l c then b else min_opt R_ops b (h c)) cs b0
  = fold_left (fun b c => min_opt R_ops b (h c)) (filter (fun c => negb (leqb l c)) cs) b0.
Proof.
  induction cs as [|c cs IH]; intros b0; simpl; auto. destruct (leqb l c); simpl; apply IH.
Qed.

Lemma fold_min_some (h : L -> R) t : forall w,
  fold_left (fun b c => min_opt R_ops b (h c)) t (Some w)
  = Some (fold_left (fun a b => if ltb R_ops b a then b else a) (map h t) w).
Proof.
  induction t as [|c t IH]; intros w; simpl; auto. destruct (Rltb (h c) w); apply IH.
Qed.

Lemma sample_score_R X ls cs x l :
  (exists c, In c cs /\ leqb l c = false) ->
  (count_label leqb l ls = 1%nat -> Rsum (map (edist R_ops x) (members leqb X ls l)) = 0) ->
  sample_score R_ops leqb X ls cs x l = sil_sample_spec R_ops leqb X ls cs x l.
Proof.
  intros [c0 [Hc0 Hl0]] Hone. unfold sample_score, sil_sample_spec, mean_dist_to.
  rewrite fold_skip. rewrite !total_to_R. change (sum_s R_ops) with Rsum.
  (* the other clusters are not empty *)
  destruct (filter (fun c => negb (leqb l c)) cs) as [|c1 t] eqn:Ef.
  { exfalso. assert (Hin : In c0 (filter (fun c => negb (leqb l c)) cs)) by (apply filter_In; split; auto; rewrite Hl0; reflexivity).
    rewrite Ef in Hin. destruct Hin. }
  cbn [fold_left]. unfold min_opt at 2. rewrite fold_min_some. cbn [map min_list].
  rewrite !total_to_R.
  rewrite (map_ext (fun c => div R_ops (total_to R_ops leqb X ls x c) (ofn R_ops (count_label leqb c ls)))
                   (fun c => div R_ops (Rsum (map (edist R_ops x) (members leqb X ls c))) (ofn R_ops (count_label leqb c ls))))
    by (intros; rewrite total_to_R; reflexivity).
  set (b := fold_left (fun a b => if ltb R_ops b a then b else a) _ _).
  assert (Ha : (if Nat.eqb (count_label leqb l ls) 1 then zero R_ops
                else div R_ops (Rsum (map (edist R_ops x) (members leqb X ls l))) (ofn R_ops (count_label leqb l ls - 1)))
               = div R_ops (Rsum (map (edist R_ops x) (members leqb X ls l))) (ofn R_ops (count_label leqb l ls - 1))).
  { destruct (Nat.eqb (count_label leqb l ls) 1) eqn:E; [|reflexivity].
    apply Nat.eqb_eq in E. rewrite (Hone E). simpl. unfold Rdiv. lra. }
  rewrite Ha. set (a := div R_ops _ _).
  cbn [leb ltb R_ops]. destruct (Rleb b a) eqn:E1; destruct (Rltb a b) eqn:E2; try reflexivity.
  - apply Rleb_true in E1. apply Rltb_true in E2. lra.
  - apply Rleb_false in E1. apply Rltb_false in E2. lra.
Qed.

Lemma silhouette_R X ls :
  let cs := distinct leqb ls [] in
  length X = length ls ->
  length cs <> 1%nat ->
  (forall x l, In (x, l) (combine X ls) ->
     (exists c, In c cs /\ leqb l c = false) /\
     (count_label leqb l ls = 1%nat -> Rsum (map (edist R_ops x) (members leqb X ls l)) = 0)) ->
  silhouette R_ops leqb X ls = silhouette_spec R_ops leqb X ls.
Proof.
  intros cs Hlen Hk Hall. unfold silhouette, silhouette_spec. fold cs.
  replace (Nat.eqb (length cs) 1) with false by (symmetry; apply Nat.eqb_neq; exact Hk).
  rewrite fsum_R. unfold mean_s. rewrite map_length. change (sum_s R_ops) with Rsum.
  rewrite combine_length, <- Hlen, Nat.min_id.
  f_equal. apply Rsum_map_ext. intros [x l] Hin. cbn [fst snd]. destruct (Hall x l Hin) as [H1 H2]. apply sample_score_R; auto.
Qed.
End SilProofs.

Section SilTop.
Context {L : Type} (leqb : L -> L -> bool).
Context (Heq : forall x y, leqb x y = true <-> x = y).

Lemma in_distinct x ls : forall seen, In x (distinct leqb ls seen) <-> In x ls \/ In x seen.
Proof.
  induction ls as [|l ls IH]; intros seen; simpl.
  - rewrite <- in_rev. tauto.
  - destruct (existsb (leqb l) seen) eqn:E.
    + rewrite IH. apply existsb_exists in E. destruct E as [y [Hy1 Hy2]]. apply Heq in Hy2. subst y.
      split; [tauto|]. intros [[<-|H]|H]; auto.
    + rewrite IH. simpl. split; [intros [H|[<-|H]]; auto | intros [[<-|H]|H]; auto].
Qed.

Lemma edist_self (x : list R) : edist R_ops x x = 0.
Proof.
  unfold edist. rewrite csum_R.
  assert (H : Rsum (map (sq R_ops) (vsub R_ops x x)) = 0).
  { unfold vsub. induction x as [|v x IH]; [reflexivity|].
    cbn [combine map Rsum fold_right fst snd]. fold (Rsum (map (sq R_ops) (map (fun p : R * R => sub R_ops (fst p) (snd p)) (combine x x)))).
    rewrite IH. unfold sq. simpl. lra. }
  rewrite H. simpl. apply sqrt_0.
Qed.

Lemma members_count (X : list (list R)) ls c : length X = length ls ->
  length (members leqb X ls c) = count_label leqb c ls.
Proof.
  unfold members, count_label. rewrite map_length. revert ls. induction X as [|x X IH]; intros [|l ls] Hlen; simpl in *; try discriminate; auto.
  destruct (leqb c l); simpl; rewrite IH by lia; reflexivity.
Qed.

Lemma in_members (X : list (list R)) ls x l : In (x, l) (combine X ls) -> In x (members leqb X ls l).
Proof.
  intros H. unfold members. apply in_map_iff. exists (x, l). split; auto. apply filter_In. split; auto.
  simpl. apply Heq. reflexivity.
Qed.

Lemma singleton_total X ls x l : length X = length ls -> In (x, l) (combine X ls) ->
  count_label leqb l ls = 1%nat -> Rsum (map (edist R_ops x) (members leqb X ls l)) = 0.
Proof.
  intros Hlen Hin Hc. pose proof (members_count X ls l Hlen) as Hm. rewrite Hc in Hm.
  pose proof (in_members X ls x l Hin) as Hx.
  destruct (members leqb X ls l) as [|y [|z t]]; try discriminate.
  destruct Hx as [->|[]]. cbn [map Rsum fold_right]. rewrite edist_self. lra.
Qed.

Lemma silhouette_top X ls : length X = length ls ->
  (forall l, In l ls -> exists c, In c ls /\ c <> l) ->
  silhouette R_ops leqb X ls = silhouette_spec R_ops leqb X ls.
Proof.
  intros Hlen H2. apply silhouette_R; auto.
  - (* not a single cluster *)
    intros H1. destruct (distinct leqb ls []) as [|c [|c' t]] eqn:E; try discriminate.
    assert (Hc : In c ls). { assert (In c (distinct leqb ls [])) by (rewrite E; left; auto). apply in_distinct in H. destruct H as [H|[]]; auto. }
    destruct (H2 c Hc) as [c2 [Hc2 Hne]].
    assert (In c2 (distinct leqb ls [])) by (apply in_distinct; left; auto). rewrite E in H. destruct H as [H|[]]. congruence.
  - intros x l Hin. split.
    + assert (Hl : In l ls) by (apply in_combine_r in Hin; exact Hin).
      destruct (H2 l Hl) as [c [Hc Hne]]. exists c. split; [apply in_distinct; left; exact Hc|].
      destruct (leqb l c) eqn:E; auto. apply Heq in E. congruence.
    + apply singleton_total; auto.
Qed.
End SilTop.

Example ex_silhouette_hypotheses :
  let X := [[0]; [1]; [5]; [6]] in let ls := [0; 0; 1; 1]%N in
  length X = length ls /\ (forall l, In l ls -> exists c, In c ls /\ c <> l).
Proof.
  split; [reflexivity|]. intros l Hl. simpl in Hl.
  destruct Hl as [<-|[<-|[<-|[<-|[]]]]]; [exists 1%N | exists 1%N | exists 0%N | exists 0%N]; split; simpl; auto; discriminate.
Qed.

Example ex_label_orders : label_order N.ltb N.eqb /\ label_order (fun a b => negb a && b) Bool.eqb.
Proof. split; [exact N_label_order | exact bool_label_order]. Qed.

Example ex_regression_perm :
  Permutation [(1, 2); (3, 5); (0, 0)] [(0, 0); (1, 2); (3, 5)] /\
  mean_absolute_error R_ops [1; 3; 0] [2; 5; 0] = mean_absolute_error R_ops [0; 1; 3] [0; 2; 5].
Proof.
  assert (H : Permutation [(1, 2); (3, 5); (0, 0)] [(0, 0); (1, 2); (3, 5)]).
  { apply Permutation_sym. apply (Permutation_cons_app [(1, 2); (3, 5)] [] (0, 0)). rewrite app_nil_r. apply Permutation_refl. }
  split; [exact H|]. exact (mae_perm _ _ H).
Qed.

(** * Pearson coefficients *)
Definition fmaR (a b c : R) : R := a * b + c.

Lemma welford_inv l : forall mean ssq i pre,
  i = N.of_nat (length pre) ->
  INR (length pre) * mean = Rsum pre ->
  ssq = Rsum (map (fun y => y * y) pre) - mean * Rsum pre ->
  let '(mean', ssq', i') := fold_left (fun st x => let '(mean, ssq, i) := st in
                         let count := of_N R_ops (N.succ i) in
                         let delta := sub R_ops x mean in
                         let mean' := add R_ops mean (div R_ops delta count) in
                         (mean', fmaR (sub R_ops x mean') delta ssq, N.succ i)) l (mean, ssq, i) in
  INR (length (pre ++ l)) * mean' = Rsum (pre ++ l) /\
  ssq' = Rsum (map (fun y => y * y) (pre ++ l)) - mean' * Rsum (pre ++ l).
Proof.
  induction l as [|x l IH]; intros mean ssq i pre Hi Hm Hs.
  - simpl. rewrite app_nil_r. auto.
  - cbn [fold_left]. replace (pre ++ x :: l) with ((pre ++ [x]) ++ l) by (rewrite <- app_assoc; reflexivity).
    apply IH.
    + rewrite app_length. simpl. rewrite Hi. lia.
    + rewrite app_length, plus_INR, Rsum_app. simpl length. simpl INR. subst i. simpl of_N.
      rewrite Nnat.N2Nat.inj_succ, Nnat.Nat2N.id, S_INR. simpl.
      assert (Hk : INR (length pre) + 1 <> 0) by (pose proof (pos_INR (length pre)); lra).
      field_simplify_eq; [|exact Hk]. rewrite <- Hm. ring.
    + subst i. simpl of_N. rewrite Nnat.N2Nat.inj_succ, Nnat.Nat2N.id, S_INR.
      rewrite map_app, !Rsum_app. simpl. unfold fmaR.
      assert (Hk : INR (length pre) + 1 <> 0) by (pose proof (pos_INR (length pre)); lra).
      set (k := INR (length pre)) in *. set (S := Rsum pre) in *. set (Q := Rsum (map (fun y => y * y) pre)) in *.
      set (m' := mean + (x - mean) / (k + 1)).
      assert (E : (k + 1) * m' = S + x). { unfold m'. field_simplify_eq; [|exact Hk]. rewrite <- Hm. ring. }
      rewrite Hs.
      assert (G : m' * (mean + S) = mean * (x + S)). { rewrite <- Hm. replace (mean + k * mean) with ((k + 1) * mean) by ring. replace (m' * ((k + 1) * mean)) with (((k + 1) * m') * mean) by ring. rewrite E. rewrite <- Hm. ring. }
      nra.
Qed.

Lemma welford_R xs : xs <> [] ->
  let '(mean, ssq, _) := welford R_ops fmaR xs in
  INR (length xs) * mean = Rsum xs /\ ssq = Rsum (map (fun y => y * y) xs) - mean * Rsum xs.
Proof.
  intros _. unfold welford.
  pose proof (welford_inv xs (zero R_ops) (zero R_ops) 0%N [] eq_refl) as H. simpl app in H.
  destruct (fold_left _ xs (zero R_ops, zero R_ops, 0%N)) as [[mean ssq] i]. apply H; simpl; lra.
Qed.

(* the variance of a column whose sum is zero *)
Lemma var1_centred d : (2 <= length d)%nat -> Rsum d = 0 ->
  var1 R_ops fmaR d = Rsum (map (fun y => y * y) d) / (INR (length d) - 1).
Proof.
  intros Hn Hz. unfold var1. assert (Hne : d <> []) by (destruct d; simpl in Hn; [lia | discriminate]).
  pose proof (welford_R d Hne) as H. destruct (welford R_ops fmaR d) as [[mean ssq] i]. destruct H as [H1 H2].
  rewrite ofn_R. rewrite H2, Hz. simpl. f_equal. ring.
Qed.

Lemma Rsum_map_sub_const (x : list R) c : Rsum (map (fun v => v - c) x) = Rsum x - INR (length x) * c.
Proof.
  induction x as [|v x IH]; [simpl; lra|]. change (length (v :: x)) with (S (length x)). rewrite S_INR. simpl. rewrite IH. lra.
Qed.

Lemma centred_sum_zero (x : list R) : x <> [] -> Rsum (map (fun v => v - mean_s R_ops x) x) = 0.
Proof.
  intros Hx. rewrite Rsum_map_sub_const, mean_s_R. field. apply INR_length_nonzero. exact Hx.
Qed.

(** one coefficient: covariance / (n-1) divided by both standard deviations is the textbook coefficient *)
Lemma pearson_entry (x y : list R) : length x = length y -> (2 <= length x)%nat ->
  0 < cov_s R_ops x x -> 0 < cov_s R_ops y y ->
  let dx := map (fun v => v - mean_s R_ops x) x in
  let dy := map (fun v => v - mean_s R_ops y) y in
  dotp R_ops dx dy / (INR (length x) - 1) / R_sqrt.sqrt (var1 R_ops fmaR dx) / R_sqrt.sqrt (var1 R_ops fmaR dy)
  = pearson_pair_spec R_ops x y.
Proof.
  intros Hlen Hn Vx Vy dx dy.
  assert (Hx : x <> []) by (destruct x; simpl in Hn; [lia | discriminate]).
  assert (Hy : y <> []) by (destruct y; simpl in Hn, Hlen; [lia | discriminate]).
  assert (N1 : 0 < INR (length x) - 1). { apply le_INR in Hn. simpl in Hn. lra. }
  assert (Cxy' : forall (u w : list R), cov_s R_ops u w
            = dotp R_ops (map (fun v => v - mean_s R_ops u) u) (map (fun v => v - mean_s R_ops w) w)).
  { intros u w. unfold cov_s, dotp. cbv zeta. rewrite seq_sum_R. change (sum_s R_ops) with Rsum. f_equal.
    generalize (mean_s R_ops u) (mean_s R_ops w). intros mu mw. revert w.
    induction u as [|a u IH]; intros [|b w]; simpl; auto. rewrite IH. reflexivity. }
  assert (Dself : forall d : list R, dotp R_ops d d = Rsum (map (fun v => v * v) d)).
  { intros d. unfold dotp. rewrite seq_sum_R. f_equal. induction d as [|a d IH]; [reflexivity|]. cbn [combine map fst snd]. rewrite IH. reflexivity. }
  assert (Cxx : cov_s R_ops x x = Rsum (map (fun v => v * v) dx)) by (rewrite Cxy', Dself; reflexivity).
  assert (Cyy : cov_s R_ops y y = Rsum (map (fun v => v * v) dy)) by (rewrite Cxy', Dself; reflexivity).
  assert (Cxy : cov_s R_ops x y = dotp R_ops dx dy) by (apply Cxy').
  assert (Ldx : length dx = length x) by (unfold dx; apply map_length).
  assert (Ldy : length dy = length x) by (unfold dy; rewrite map_length; auto).
  assert (Zx : Rsum dx = 0) by (apply centred_sum_zero; auto).
  assert (Zy : Rsum dy = 0) by (apply centred_sum_zero; auto).
  rewrite (var1_centred dx) by (try exact Zx; rewrite Ldx; exact Hn).
  rewrite (var1_centred dy) by (try exact Zy; rewrite Ldy; exact Hn).
  rewrite Ldx, Ldy. rewrite <- Cxx, <- Cyy, <- Cxy.
  unfold pearson_pair_spec. simpl sqrt. simpl mul. simpl div.
  rewrite !sqrt_div_alt by exact N1.
  assert (Sx : 0 < R_sqrt.sqrt (cov_s R_ops x x)) by (apply sqrt_lt_R0; exact Vx).
  assert (Sy : 0 < R_sqrt.sqrt (cov_s R_ops y y)) by (apply sqrt_lt_R0; exact Vy).
  assert (Sn : 0 < R_sqrt.sqrt (INR (length x) - 1)) by (apply sqrt_lt_R0; exact N1).
  assert (Sq : R_sqrt.sqrt (INR (length x) - 1) * R_sqrt.sqrt (INR (length x) - 1) = INR (length x) - 1) by (apply sqrt_sqrt; lra).
  field_simplify_eq; try (repeat split; lra).
  replace (R_sqrt.sqrt (INR (length x) - 1) ^ 2) with (R_sqrt.sqrt (INR (length x) - 1) * R_sqrt.sqrt (INR (length x) - 1)) by ring.
  rewrite Sq. ring.
Qed.

Lemma flat_map_ext_in {A B} (f g : A -> list B) l : (forall a, In a l -> f a = g a) -> flat_map f l = flat_map g l.
Proof.
  induction l as [|a l IH]; intros H; simpl; auto. rewrite (H a) by (left; auto). rewrite IH; auto. intros; apply H; right; auto.
Qed.

Lemma nth_map_combine {A B C} (f : A * B -> C) (r : list A) (mu : list B) j da db dc :
  (j < length r)%nat -> (j < length mu)%nat -> nth j (map f (combine r mu)) dc = f (nth j r da, nth j mu db).
Proof.
  revert r mu; induction j as [|j IH]; intros [|a r] [|b mu] H1 H2; simpl in *; try lia; auto. apply IH; lia.
Qed.

Section PearsonTop.
Variable X : list (list R).
Variable p : nat.
Hypothesis Hrect : Forall (fun r => length r = p) X.
Hypothesis Hn : (2 <= length X)%nat.

Lemma ncols_p : ncols X = p.
Proof. destruct X as [|r X']; [simpl in Hn; lia|]. inversion Hrect; subst. reflexivity. Qed.

Lemma xcol_length j : length (xcol R_ops X j) = length X.
Proof. unfold xcol. apply map_length. Qed.

Lemma col_means_nth j : (j < p)%nat -> nth j (col_means R_ops X) 0 = mean_s R_ops (xcol R_ops X j).
Proof.
  intros Hj. unfold col_means. rewrite ncols_p. rewrite nth_map_seq by exact Hj.
  rewrite seq_sum_R, mean_s_R, xcol_length, ofn_R. reflexivity.
Qed.

Lemma col_means_length : length (col_means R_ops X) = p.
Proof. unfold col_means. rewrite map_length, seq_length. apply ncols_p. Qed.

Lemma xcol_denoise j : (j < p)%nat ->
  xcol R_ops (denoise R_ops X) j = map (fun v => v - mean_s R_ops (xcol R_ops X j)) (xcol R_ops X j).
Proof.
  intros Hj. unfold xcol at 1, denoise. rewrite map_map. unfold xcol at 2. rewrite map_map.
  apply map_ext_in. intros r Hr. pose proof (proj1 (Forall_forall _ _) Hrect r Hr) as Hlr.
  rewrite (nth_map_combine _ r (col_means R_ops X) j 0 0 (zero R_ops)); [| rewrite Hlr; exact Hj | rewrite col_means_length; exact Hj].
  cbn [fst snd]. rewrite col_means_nth by exact Hj. reflexivity.
Qed.

Lemma pearson_top :
  (forall j, (j < p)%nat -> 0 < cov_s R_ops (xcol R_ops X j) (xcol R_ops X j)) ->
  pearson R_ops fmaR X =
  flat_map (fun i => map (fun j => pearson_pair_spec R_ops (xcol R_ops X i) (xcol R_ops X j)) (seq (S i) (p - S i))) (seq 0 p).
Proof.
  intros Hv. unfold pearson. rewrite ncols_p.
  apply flat_map_ext_in. intros i Hi. apply in_seq in Hi. apply map_ext_in. intros j Hj. apply in_seq in Hj.
  assert (Hip : (i < p)%nat) by lia. assert (Hjp : (j < p)%nat) by lia.
  rewrite !nth_map_seq by assumption. rewrite !xcol_denoise by assumption.
  rewrite ofn_R, minus_INR by lia. simpl INR.
  rewrite <- (xcol_length i) at 1.
  apply (pearson_entry (xcol R_ops X i) (xcol R_ops X j)).
  - rewrite !xcol_length. reflexivity.
  - rewrite xcol_length. exact Hn.
  - apply Hv; exact Hip.
  - apply Hv; exact Hjp.
Qed.
End PearsonTop.

Example ex_pearson_hypotheses :
  let X := [[0; 0]; [1; 2]; [2; 1]] in
  Forall (fun r => length r = 2%nat) X /\ (2 <= length X)%nat /\
  (forall j, (j < 2)%nat -> 0 < cov_s R_ops (xcol R_ops X j) (xcol R_ops X j)) /\
  pearson R_ops fmaR X = [1 / 2].
Proof.
  cbv zeta.
  assert (H1 : Forall (fun r : list R => length r = 2%nat) [[0; 0]; [1; 2]; [2; 1]]) by (repeat constructor).
  assert (H2 : (2 <= length [[0; 0]; [1; 2]; [2; 1]])%nat) by (simpl; lia).
  assert (C0 : cov_s R_ops (xcol R_ops [[0; 0]; [1; 2]; [2; 1]] 0) (xcol R_ops [[0; 0]; [1; 2]; [2; 1]] 0) = 2).
  { unfold cov_s, mean_s, sum_s, ofn, xcol. simpl. field. }
  assert (C1 : cov_s R_ops (xcol R_ops [[0; 0]; [1; 2]; [2; 1]] 1) (xcol R_ops [[0; 0]; [1; 2]; [2; 1]] 1) = 2).
  { unfold cov_s, mean_s, sum_s, ofn, xcol. simpl. field. }
  assert (C01 : cov_s R_ops (xcol R_ops [[0; 0]; [1; 2]; [2; 1]] 0) (xcol R_ops [[0; 0]; [1; 2]; [2; 1]] 1) = 1).
  { unfold cov_s, mean_s, sum_s, ofn, xcol. simpl. field. }
  assert (H3 : forall j, (j < 2)%nat -> 0 < cov_s R_ops (xcol R_ops [[0; 0]; [1; 2]; [2; 1]] j) (xcol R_ops [[0; 0]; [1; 2]; [2; 1]] j)).
  { intros [|[|j]] Hj; [rewrite C0; lra | rewrite C1; lra | lia]. }
  repeat split; auto.
  rewrite (pearson_top _ 2 H1 H2 H3). cbn [seq flat_map map app Nat.sub]. unfold pearson_pair_spec. rewrite C0, C1, C01.
  f_equal. simpl. rewrite sqrt_sqrt by lra. lra.
Qed.
