(** C05 - relative error of the binary32 Matthews coefficient computed from exact integer parts:
    cov / sqrt(cxx) / sqrt(cyy) with two correctly rounded square roots and two correctly rounded
    divisions is within 5 * 2^-24 (relative) of the real value. *)
From Coq Require Import List NArith ZArith Bool Lia Reals Lra Psatz SpecFloat.
From Flocq Require Import Core.Core IEEE754.BinarySingleNaN.
From Flocq.Prop Require Import Relative.
From LinfaVerif Require Import Common.Num Common.NdSum Common.B32 C05.Model C05.F32Exact C05.Proofs C05.F32Scores C05.F32Fscore C05.F32Mcc.
Import ListNotations.
Local Open Scope R_scope.

Local Existing Instance Hprec32.
Local Existing Instance Hmax32.
Local Notation bf32 := (binary_float p32 e32).
Local Notation fexp32 := (SpecFloat.fexp p32 e32).
Local Notation rnd32 := (round radix2 fexp32 (round_mode mode_NE)).

Lemma SFsqrt_equiv32 (x : bf32) : SFsqrt p32 e32 (B2SF x) = B2SF (Bsqrt mode_NE x).
Proof.
  destruct x as [sx|sx| |sx mx ex Bx]; try (now (trivial || case sx)).
  case sx; [reflexivity|]. simpl. rewrite B2SF_SF2B.
  set (melz := SFsqrt_core_binary _ _ _ _). case melz as [[mz ez] lz]. apply binary_round_aux_equiv32.
Qed.

Lemma rnd32_rel_abs (x : R) : lo32 <= Rabs x -> exists d, Rabs d <= u32 /\ rnd32 x = x * (1 + d).
Proof.
  intros Hx.
  destruct (relative_error_N_FLT_ex radix2 (-149) 24 ltac:(reflexivity) (fun z => negb (Z.even z)) x Hx) as (d & Hd & E).
  exists d. split; [|exact E].
  apply Rle_trans with (1 := Hd). unfold u32. change (/ 2) with (bpow radix2 (-1)). rewrite <- bpow_plus. apply bpow_le. lia.
Qed.

Lemma rnd32_small_abs (x : R) : Rabs x <= hi32 -> Rlt_bool (Rabs (rnd32 x)) (bpow radix2 e32) = true.
Proof.
  intros H. apply Rlt_bool_true. apply Rle_lt_trans with hi32.
  - apply abs_round_le_generic; [apply (fexp_correct p32 e32 Hprec32) | apply valid_rnd_round_mode | | exact H].
    unfold hi32. apply generic_format_bpow. unfold fexp32, SpecFloat.fexp, SpecFloat.emin, p32, e32. lia.
  - unfold hi32. apply bpow_lt. unfold e32. lia.
Qed.

Lemma Bdiv_rel_abs (x y : bf32) : is_finite x = true -> B2R y <> 0 ->
  lo32 <= Rabs (B2R x / B2R y) <= hi32 ->
  is_finite (Bdiv mode_NE x y) = true /\
  exists d, Rabs d <= u32 /\ B2R (Bdiv mode_NE x y) = B2R x / B2R y * (1 + d).
Proof.
  intros Fx Hy [Hlo Hhi].
  generalize (Bdiv_correct p32 e32 Hprec32 Hmax32 mode_NE x y Hy). rewrite (rnd32_small_abs _ Hhi). intros (E & Fin & _).
  split; [rewrite Fin; exact Fx|].
  destruct (rnd32_rel_abs _ Hlo) as (d & Hd & Ed). exists d. split; [exact Hd|]. rewrite E. exact Ed.
Qed.

Lemma Bdiv_zero (x y : bf32) : is_finite x = true -> B2R x = 0 -> B2R y <> 0 ->
  is_finite (Bdiv mode_NE x y) = true /\ B2R (Bdiv mode_NE x y) = 0.
Proof.
  intros Fx Hx Hy.
  generalize (Bdiv_correct p32 e32 Hprec32 Hmax32 mode_NE x y Hy). rewrite Hx. unfold Rdiv. rewrite Rmult_0_l.
  rewrite round_0 by apply valid_rnd_round_mode. rewrite Rabs_R0. rewrite Rlt_bool_true by apply bpow_gt_0.
  intros (E & Fin & _). split; [rewrite Fin; exact Fx | exact E].
Qed.

(** square root of an integer 1 <= k <= 2^24 *)
Lemma sqrt_int_range (k : N) : (1 <= k <= B24)%N -> 1 <= R_sqrt.sqrt (IZR (Z.of_N k)) <= 4096.
Proof.
  unfold B24. intros [H1 H2].
  assert (A : 1 <= IZR (Z.of_N k)) by (apply IZR_le; lia).
  assert (B : IZR (Z.of_N k) <= 16777216) by (apply IZR_le; lia).
  split.
  - rewrite <- sqrt_1. apply sqrt_le_1_alt. exact A.
  - replace 4096 with (R_sqrt.sqrt (4096 * 4096)) by (apply sqrt_square; lra). apply sqrt_le_1_alt. lra.
Qed.

Lemma Bsqrt_rel (k : N) : (1 <= k <= B24)%N ->
  is_finite (Bsqrt mode_NE (Bnat k)) = true /\
  exists d, Rabs d <= u32 /\ B2R (Bsqrt mode_NE (Bnat k)) = R_sqrt.sqrt (IZR (Z.of_N k)) * (1 + d).
Proof.
  intros Hk. destruct (Bnat_correct' k ltac:(lia)) as (K1 & K2 & K3).
  destruct (sqrt_int_range k Hk) as [S1 S2].
  destruct (Bsqrt_correct p32 e32 Hprec32 Hmax32 mode_NE (Bnat k)) as (E & Fin & _). rewrite K1 in E.
  split.
  - rewrite Fin. destruct (Bnat k) as [sx|sx| |sx mx ex Bx]; try discriminate K2; [reflexivity|].
    simpl in K3. subst sx. reflexivity.
  - destruct (rnd32_rel (R_sqrt.sqrt (IZR (Z.of_N k)))) as (d & Hd & Ed).
    + rewrite lo32_val. lra.
    + exists d. split; [exact Hd|]. rewrite E. exact Ed.
Qed.

Lemma poly2_up (u : R) : 0 <= u <= / 100 -> (1 + u) ^ 2 <= (1 + 5 * u) * (1 - u) ^ 2.
Proof.
  intros [H0 H1].
  assert (E : (1 + 5 * u) * (1 - u) ^ 2 - (1 + u) ^ 2 = u * (1 - 10 * u + 5 * u ^ 2)) by ring.
  assert (0 <= u * (1 - 10 * u + 5 * u ^ 2)); [|lra]. apply Rmult_le_pos; [exact H0|]. nra.
Qed.
Lemma poly2_down (u : R) : 0 <= u <= / 100 -> (1 - 5 * u) * (1 + u) ^ 2 <= (1 - u) ^ 2.
Proof.
  intros [H0 H1].
  assert (E : (1 - u) ^ 2 - (1 - 5 * u) * (1 + u) ^ 2 = u * (1 + 10 * u + 5 * u ^ 2)) by ring.
  assert (0 <= u * (1 + 10 * u + 5 * u ^ 2)); [|lra]. apply Rmult_le_pos; [exact H0|]. nra.
Qed.

Lemma four_factors (e1 e2 e3 e4 : R) :
  Rabs e1 <= / 16777216 -> Rabs e2 <= / 16777216 -> Rabs e3 <= / 16777216 -> Rabs e4 <= / 16777216 ->
  Rabs ((1 + e3) * (1 + e4) / ((1 + e1) * (1 + e2)) - 1) <= 5 / 16777216.
Proof.
  intros H1 H2 H3 H4.
  apply Rabs_le_inv in H1. apply Rabs_le_inv in H2. apply Rabs_le_inv in H3. apply Rabs_le_inv in H4.
  set (u := / 16777216) in *.
  assert (Hu : 0 <= u <= / 100) by (unfold u; lra).
  assert (Hlo : 0 < 1 - u) by lra.
  assert (F1 : 1 - u <= 1 + e1 <= 1 + u) by lra. assert (F2 : 1 - u <= 1 + e2 <= 1 + u) by lra.
  assert (F3 : 1 - u <= 1 + e3 <= 1 + u) by lra. assert (F4 : 1 - u <= 1 + e4 <= 1 + u) by lra.
  pose proof (pos_mul_range _ _ _ _ _ _ Hlo Hlo F3 F4) as GN.
  pose proof (pos_mul_range _ _ _ _ _ _ Hlo Hlo F1 F2) as GD.
  set (Nn := (1 + e3) * (1 + e4)) in *. set (Dd := (1 + e1) * (1 + e2)) in *.
  assert (HD : 0 < Dd) by nra.
  pose proof (poly2_up u Hu) as PU. pose proof (poly2_down u Hu) as PD.
  assert (Eu2 : (1 + u) ^ 2 = (1 + u) * (1 + u)) by ring.
  assert (El2 : (1 - u) ^ 2 = (1 - u) * (1 - u)) by ring.
  assert (Up : Nn <= (1 + 5 * u) * Dd).
  { apply Rle_trans with ((1 + u) ^ 2); [rewrite Eu2; lra|].
    apply Rle_trans with (1 := PU). rewrite El2. apply Rmult_le_compat_l; lra. }
  assert (Lo : (1 - 5 * u) * Dd <= Nn).
  { apply Rle_trans with ((1 - u) ^ 2); [|rewrite El2; lra].
    apply Rle_trans with (2 := PD). rewrite Eu2. apply Rmult_le_compat_l; lra. }
  apply Rabs_le. replace (5 / 16777216) with (5 * u) by (unfold u; lra).
  split.
  - apply (Rmult_le_reg_r Dd); [exact HD|]. replace ((Nn / Dd - 1) * Dd) with (Nn - Dd) by (field; lra). lra.
  - apply (Rmult_le_reg_r Dd); [exact HD|]. replace ((Nn / Dd - 1) * Dd) with (Nn - Dd) by (field; lra). lra.
Qed.

Section MccErr.
Variable cov : Z.
Variables cxx cyy : N.
Hypothesis Hcov : (Z.abs cov <= 16777216)%Z.
Hypothesis Hxx : (1 <= cxx <= B24)%N.
Hypothesis Hyy : (1 <= cyy <= B24)%N.

Let sx : R := R_sqrt.sqrt (IZR (Z.of_N cxx)).
Let sy : R := R_sqrt.sqrt (IZR (Z.of_N cyy)).
Let F : R := IZR cov / sx / sy.
Let r : spec_float :=
  div B32_ops (div B32_ops (ofZ cov) (sqrt B32_ops (of_N B32_ops cxx))) (sqrt B32_ops (of_N B32_ops cyy)).

Theorem mcc_parts_bound : is_finite_SF r = true /\ Rabs (R32 r - F) <= 5 * u32 * Rabs F.
Proof.
  destruct (Bz_correct cov Hcov) as (C1 & C2 & _).
  destruct (Bsqrt_rel cxx Hxx) as (Fx & e1 & H1 & E1). destruct (Bsqrt_rel cyy Hyy) as (Fy & e2 & H2 & E2).
  destruct (sqrt_int_range cxx Hxx) as [X1 X2]. destruct (sqrt_int_range cyy Hyy) as [Y1 Y2]. fold sx in X1, X2, E1. fold sy in Y1, Y2, E2.
  rewrite u32_val in *.
  set (bx := Bsqrt mode_NE (Bnat cxx)) in *. set (by_ := Bsqrt mode_NE (Bnat cyy)) in *.
  assert (Bx : 15 / 16 <= B2R bx <= 4352).
  { rewrite E1. pose proof (pos_rel_range 1 4096 sx e1 ltac:(lra) (conj X1 X2) H1). lra. }
  assert (By : 15 / 16 <= B2R by_ <= 4352).
  { rewrite E2. pose proof (pos_rel_range 1 4096 sy e2 ltac:(lra) (conj Y1 Y2) H2). lra. }
  assert (Esf : r = B2SF (Bdiv mode_NE (Bdiv mode_NE (Bz cov) bx) by_)).
  { unfold r. rewrite ofZ_Bz, !of_N_Bnat. change (sqrt B32_ops) with (SFsqrt p32 e32). change (div B32_ops) with (SFdiv p32 e32).
    rewrite !SFsqrt_equiv32. fold bx by_. rewrite !SFdiv_equiv32. reflexivity. }
  rewrite Esf. unfold R32. rewrite SF2R_B2SF, is_finite_SF_B2SF.
  destruct (Z.eq_dec cov 0) as [Z0|NZ].
  - (* zero covariance: the score is exactly 0 *)
    assert (C0 : B2R (Bz cov) = 0) by (rewrite C1, Z0; reflexivity).
    destruct (Bdiv_zero (Bz cov) bx C2 C0 ltac:(lra)) as (G1 & G2).
    destruct (Bdiv_zero _ by_ G1 G2 ltac:(lra)) as (G3 & G4).
    split; [exact G3|]. rewrite G4. unfold F. rewrite Z0. unfold Rdiv. rewrite !Rmult_0_l, Rminus_0_r, Rabs_R0. lra.
  - assert (Ac : 1 <= Rabs (IZR cov) <= 16777216).
    { rewrite <- abs_IZR. split; apply IZR_le; lia. }
    assert (Q1 : lo32 <= Rabs (B2R (Bz cov) / B2R bx) <= hi32).
    { rewrite C1. unfold Rdiv. rewrite Rabs_mult, (Rabs_pos_eq (/ B2R bx)) by (left; apply Rinv_0_lt_compat; lra).
      pose proof (pos_div_range 1 16777216 (15 / 16) 4352 (Rabs (IZR cov)) (B2R bx) ltac:(lra) ltac:(lra) Ac Bx) as Bd.
      unfold Rdiv in Bd. rewrite lo32_val, hi32_val. lra. }
    destruct (Bdiv_rel_abs (Bz cov) bx C2 ltac:(lra) Q1) as (G1 & e3 & H3 & E3). rewrite u32_val in H3. rewrite C1 in E3.
    set (q1 := B2R (Bdiv mode_NE (Bz cov) bx)) in *.
    assert (A1 : / 8192 <= Rabs q1 <= 33554432).
    { rewrite E3, Rabs_mult. unfold Rdiv. rewrite Rabs_mult, (Rabs_pos_eq (/ B2R bx)) by (left; apply Rinv_0_lt_compat; lra).
      pose proof (pos_div_range 1 16777216 (15 / 16) 4352 (Rabs (IZR cov)) (B2R bx) ltac:(lra) ltac:(lra) Ac Bx) as Bd.
      unfold Rdiv in Bd.
      assert (Be : 15 / 16 <= Rabs (1 + e3) <= 17 / 16). { apply Rabs_le_inv in H3. rewrite Rabs_pos_eq by lra. lra. }
      pose proof (pos_mul_range (1 / 4352) (16777216 / (15 / 16)) (15 / 16) (17 / 16) _ _ ltac:(lra) ltac:(lra) Bd Be). lra. }
    assert (Q2 : lo32 <= Rabs (q1 / B2R by_) <= hi32).
    { unfold Rdiv. rewrite Rabs_mult, (Rabs_pos_eq (/ B2R by_)) by (left; apply Rinv_0_lt_compat; lra).
      pose proof (pos_div_range (/ 8192) 33554432 (15 / 16) 4352 (Rabs q1) (B2R by_) ltac:(lra) ltac:(lra) A1 By) as Bd.
      unfold Rdiv in Bd. rewrite lo32_val, hi32_val. lra. }
    destruct (Bdiv_rel_abs _ by_ G1 ltac:(lra) Q2) as (G2 & e4 & H4 & E4). rewrite u32_val in H4. fold q1 in E4.
    split; [exact G2|].
    rewrite E4, E3, E1, E2.
    assert (N1 : 1 + e1 <> 0) by (apply Rabs_le_inv in H1; lra).
    assert (N2 : 1 + e2 <> 0) by (apply Rabs_le_inv in H2; lra).
    replace (IZR cov / (sx * (1 + e1)) * (1 + e3) / (sy * (1 + e2)) * (1 + e4))
      with (F * ((1 + e3) * (1 + e4) / ((1 + e1) * (1 + e2)))) by (unfold F; field; repeat split; lra).
    set (rho := (1 + e3) * (1 + e4) / ((1 + e1) * (1 + e2))).
    replace (F * rho - F) with (F * (rho - 1)) by ring. rewrite Rabs_mult.
    rewrite (Rmult_comm (5 * / 16777216)). apply Rmult_le_compat_l; [apply Rabs_pos|].
    replace (5 * / 16777216) with (5 / 16777216) by lra. apply four_factors; assumption.
Qed.
End MccErr.
