(** C05 - correspondence (model at binary32 / binary64 = implementation, bit for bit) and the
    property oracle (first-principles specification evaluated exactly in Q, or enclosed with the
    verified interval arithmetic of the Interval library where ln is involved) on the
    implementation's outputs.  Does not depend on the proofs. *)
From Coq Require Import List NArith ZArith QArith Bool Floats SpecFloat.
From Bignums Require Import BigZ.
From Interval Require Import Specific_bigint Specific_ops Float_full Xreal Interval.
From LinfaVerif Require Export Common.Num Common.NdSum Common.Run Common.B32 Common.QF C05.Model C05.ModelExt.
Import ListNotations.

Definition o32 := B32_ops.
Definition o64 := B64_ops.

(** * Helpers *)
Definition lor_list (l : list N) : N := fold_left N.lor l 0%N.
Definition f32s (l : list Z) : list spec_float := map b32_of_bits l.
Definition sfs_eqb (a b : list spec_float) : bool := list_eqb sf_eqb a b.
Definition mat_eqb (a b : list (list spec_float)) : bool := list_eqb sfs_eqb a b.
Definition f64s_eqb (a b : list float) : bool := list_eqb f64_biteq a b.
Fixpoint all2 {A B} (f : A -> B -> bool) (a : list A) (b : list B) : bool :=
  match a, b with
  | [], [] => true
  | x :: a', y :: b' => f x y && all2 f a' b'
  | _, _ => false
  end.
Definition is_nan_sf (x : spec_float) : bool := match x with S754_nan => true | _ => false end.

(* exact rationals *)
Definition Q_ops : NumOps Q :=
  {| zero := 0%Q; one := 1%Q;
     add := fun a b => Qred (a + b); sub := fun a b => Qred (a - b);
     mul := fun a b => Qred (a * b); div := fun a b => Qred (a / b);
     opp := Qopp; abs := Qabs'; sqrt := fun x => x;      (* sqrt is never used on this instance *)
     ltb := Qltb; leb := Qleb; eqb := Qeq_bool;
     of_N := fun n => inject_Z (Z.of_N n) |}.
Definition oQ := Q_ops.
Definition qn (n : nat) : Q := inject_Z (Z.of_nat n).
Definition Qabs_ (a : Q) : Q := Qabs' a.

(* NaN-aware expected values: None = the formula divides zero by zero *)
Definition odiv (a b : option Q) : option Q :=
  match a, b with
  | Some x, Some y => if Qeq_bool y 0 then None else Some (Qred (x / y))
  | _, _ => None
  end.
Definition omap2 (f : Q -> Q -> Q) (a b : option Q) : option Q :=
  match a, b with Some x, Some y => Some (Qred (f x y)) | _, _ => None end.
Definition osum (l : list (option Q)) : option Q := fold_left (omap2 Qplus) l (Some 0%Q).

(* |impl - spec| <= rel * |spec| + abs_, impl finite; spec None <-> impl NaN *)
Definition closeQ (rel abs_ : Q) (impl : option Q) (impl_nan : bool) (spec : option Q) : bool :=
  match spec with
  | None => impl_nan
  | Some s => match impl with
              | Some v => Qleb (Qabs_ (v - s)) (rel * Qabs_ s + abs_)
              | None => false
              end
  end.
Definition close32 (rel : Q) (impl : spec_float) (spec : option Q) : bool :=
  closeQ rel (1 # 1000000000000) (SF2Q impl) (is_nan_sf impl) spec.
Definition close64 (rel abs_ : Q) (impl : float) (spec : option Q) : bool :=
  closeQ rel abs_ (f64_to_Q impl) (match Prim2SF impl with S754_nan => true | _ => false end) spec.

Definition tol32 : Q := 1 # 262144.            (* 2^-18: a handful of binary32 roundings *)
Definition tol64 : Q := 1 # 1073741824.        (* 2^-30 on generator-controlled data *)

(** * Confusion matrix *)
Record cmcase := {
  cm_id : N;
  cm_pred : list N; cm_truth : list N;      (* labels as order-preserving codes *)
  cm_betas : list Z;                        (* f32 bit patterns *)
  (* implementation outputs *)
  cm_ok : bool;                             (* false = Err(MismatchedShapes) *)
  cm_members : list N;
  cm_matrix : list (list Z);
  cm_precision : Z; cm_recall : Z; cm_accuracy : Z; cm_f1 : Z;
  cm_fbeta : list Z;
  cm_mcc : Z;
  cm_ova : list (list Z);                   (* tp, fp, fn, tn of each one-vs-all matrix *)
  cm_ovo : list (list Z)
}.

Definition flat4 (m : list (list spec_float)) : list spec_float := concat m.

Definition corr_cm (c : cmcase) : N :=
  match confusion_matrix o32 N.ltb N.eqb (cm_pred c) (cm_truth c) with
  | None => flag (negb (cm_ok c)) 2097152
  | Some (cs, m) =>
      if negb (cm_ok c) then 2097152%N else
      let im := map f32s (cm_matrix c) in
      (flag (list_eqb N.eqb cs (cm_members c)) 1
       + flag (mat_eqb m im) 2
       + flag (sf_eqb (precision o32 m) (b32_of_bits (cm_precision c))) 4
       + flag (sf_eqb (recall o32 m) (b32_of_bits (cm_recall c))) 8
       + flag (sf_eqb (accuracy o32 m) (b32_of_bits (cm_accuracy c))) 16
       + flag (sf_eqb (f_score o32 (one o32) m) (b32_of_bits (cm_f1 c))
               && sfs_eqb (map (fun b => f_score o32 (b32_of_bits b) m) (cm_betas c)) (f32s (cm_fbeta c))) 32
       + flag (sf_eqb (mcc o32 m) (b32_of_bits (cm_mcc c))) 64
       + flag (mat_eqb (map (@flat4) (split_one_vs_all o32 m)) (map f32s (cm_ova c))) 128
       + flag (mat_eqb (map (@flat4) (split_one_vs_one o32 m)) (map f32s (cm_ovo c))) 256)%N
  end.

(* --- oracle: everything recomputed from the label vectors / from the implementation's cells --- *)
Fixpoint strictly_increasing (l : list N) : bool :=
  match l with a :: (b :: _) as t => N.ltb a b && strictly_increasing t | _ => true end.
Definition memN (x : N) (l : list N) : bool := existsb (N.eqb x) l.

Definition members_ok (c : cmcase) : bool :=
  let ms := cm_members c in
  let sorted := match ms with [_; _] => rev ms | _ => ms end in
  let all := cm_pred c ++ cm_truth c in
  strictly_increasing sorted && forallb (fun l => memN l ms) all && forallb (fun m => memN m all) ms.

Definition cellsQ (c : cmcase) : list (list (option Q)) := map (fun r => map (fun z => SF2Q (b32_of_bits z)) r) (cm_matrix c).
Definition getq (m : list (list (option Q))) (i j : nat) : option Q := nth j (nth i m []) None.

Definition cells_ok (c : cmcase) : bool :=
  let ms := cm_members c in
  let k := length ms in
  let m := cellsQ c in
  Nat.eqb (length m) k && forallb (fun r => Nat.eqb (length r) k) m &&
  forallb (fun i => forallb (fun j =>
     match getq m i j with
     | Some q => Qeq_bool q (qn (count_pairs N.eqb (nth i ms 0%N) (nth j ms 0%N) (cm_pred c) (cm_truth c)))
     | None => false
     end) (seq 0 k)) (seq 0 k).

Definition rowsumq (m : list (list (option Q))) (i : nat) : option Q := osum (nth i m []).
Definition colsumq (m : list (list (option Q))) (j : nat) : option Q := osum (map (fun r => nth j r None) m).
Definition totalq (m : list (list (option Q))) : option Q := osum (map osum m).
Definition traceq (m : list (list (option Q))) : option Q := osum (map (fun i => getq m i i) (seq 0 (length m))).

(* the documented scores as functions of the cells: binary -> first label; otherwise macro average *)
Definition precq (m : list (list (option Q))) : option Q :=
  let k := length m in
  if Nat.eqb k 2 then odiv (getq m 0 0) (omap2 Qplus (getq m 0 0) (getq m 1 0))
  else odiv (osum (map (fun i => odiv (getq m i i) (colsumq m i)) (seq 0 k))) (Some (qn k)).
Definition recq (m : list (list (option Q))) : option Q :=
  let k := length m in
  if Nat.eqb k 2 then odiv (getq m 0 0) (omap2 Qplus (getq m 0 0) (getq m 0 1))
  else odiv (osum (map (fun i => odiv (getq m i i) (rowsumq m i)) (seq 0 k))) (Some (qn k)).
Definition fbetaq (beta : option Q) (p r : option Q) : option Q :=
  let sb := omap2 Qmult beta beta in
  odiv (omap2 Qmult (omap2 Qplus (Some 1%Q) sb) (omap2 Qmult p r)) (omap2 Qplus (omap2 Qmult sb p) r).

Definition ssq (x : Q) : Q := x * Qabs_ x.
(* mcc * |mcc| * cxx * cyy = cov * |cov|, up to rounding; NaN exactly when cxx * cyy = 0 *)
Definition mcc_ok (m : list (list (option Q))) (impl : spec_float) : bool :=
  let idx := seq 0 (length m) in
  match totalq m, traceq m,
        osum (map (fun k => omap2 Qmult (rowsumq m k) (colsumq m k)) idx),
        osum (map (fun k => omap2 Qmult (rowsumq m k) (rowsumq m k)) idx),
        osum (map (fun k => omap2 Qmult (colsumq m k) (colsumq m k)) idx) with
  | Some s, Some tr, Some pt, Some rr, Some cc =>
      let cov := (tr * s - pt)%Q in
      let cxx := (s * s - rr)%Q in
      let cyy := (s * s - cc)%Q in
      if Qeq_bool (cxx * cyy) 0 then is_nan_sf impl
      else match SF2Q impl with
           | Some v => Qleb (Qabs_ (ssq v * (cxx * cyy) - ssq cov)) (tol32 * Qabs_ (ssq cov) + (1 # 1000000000000))
           | None => false
           end
  | _, _, _, _, _ => false
  end.

Definition cells4_ok (impl : list Z) (expect : list (option Q)) : bool :=
  Nat.eqb (length impl) 4 &&
  all2 (fun z e => match SF2Q (b32_of_bits z), e with Some a, Some b => Qeq_bool a b | _, _ => false end) impl expect.

Definition ova_ok (c : cmcase) : bool :=
  let m := cellsQ c in
  let k := length m in
  Nat.eqb (length (cm_ova c)) k &&
  forallb (fun i => let tp := getq m i i in
                    let fp := omap2 Qminus (rowsumq m i) tp in
                    let fn := omap2 Qminus (colsumq m i) tp in
                    let tn := omap2 Qminus (omap2 Qminus (omap2 Qminus (totalq m) tp) fp) fn in
                    cells4_ok (nth i (cm_ova c) []) [tp; fp; fn; tn])
          (seq 0 k).
Definition ovo_ok (c : cmcase) : bool :=
  let m := cellsQ c in
  let k := length m in
  let pairs := flat_map (fun i => map (fun j => (i, j)) (seq (S i) (k - S i))) (seq 0 k) in
  Nat.eqb (length (cm_ovo c)) (length pairs) &&
  forallb (fun t => let '(idx, (i, j)) := t in
                    cells4_ok (nth idx (cm_ovo c) []) [getq m i i; getq m i j; getq m j i; getq m j j])
          (combine (seq 0 (length pairs)) pairs).

Definition oracle_cm (c : cmcase) : N :=
  if negb (cm_ok c) then flag (negb (Nat.eqb (length (cm_pred c)) (length (cm_truth c)))) 512 else
  if negb (Nat.eqb (length (cm_pred c)) (length (cm_truth c))) then 512%N else
  let m := cellsQ c in
  let n := length (cm_pred c) in
  let p := precq m in
  let r := recq m in
  (flag (members_ok c) 1
   + flag (cells_ok c) 2
   + flag (match totalq m with Some s => Qeq_bool s (qn n) | None => false end) 4
   + flag (close32 tol32 (b32_of_bits (cm_accuracy c))
             (odiv (Some (qn (count_eq N.eqb (cm_pred c) (cm_truth c)))) (Some (qn n)))) 8
   + flag (close32 tol32 (b32_of_bits (cm_precision c)) p && close32 tol32 (b32_of_bits (cm_recall c)) r) 16
   + flag (close32 tol32 (b32_of_bits (cm_f1 c)) (fbetaq (Some 1%Q) p r)
           && all2 (fun b v => close32 tol32 (b32_of_bits v) (fbetaq (SF2Q (b32_of_bits b)) p r))
                       (cm_betas c) (cm_fbeta c)) 32
   + flag (mcc_ok m (b32_of_bits (cm_mcc c))) 64
   + flag (ova_ok c) 128
   + flag (ovo_ok c) 256)%N.

(** * ROC, AUC, log-loss *)
Record roccase := {
  rc_id : N;
  rc_scores : list Z;                 (* f32 bit patterns of the probabilities *)
  rc_labels : list bool;
  rc_oracle_ll : bool;                (* evaluate the (slow) log-loss enclosure for this case *)
  rc_curve : list (Z * Z); rc_thresholds : list Z; rc_auc : Z;
  rc_ll_ok : bool; rc_ll : Z
}.

Definition eps_roc : spec_float := b32_of_bits 786163455.        (* 1e-10f32 *)
Definition eps_f32 : spec_float := b32_of_bits 872415232.        (* f32::EPSILON = 2^-23 *)

Definition rc_input (c : roccase) : list (spec_float * bool) := combine (f32s (rc_scores c)) (rc_labels c).
Definition pts_eqb (a b : list (spec_float * spec_float)) : bool :=
  list_eqb (fun p q => sf_eqb (fst p) (fst q) && sf_eqb (snd p) (snd q)) a b.

Definition corr_roc (c : roccase) : N :=
  let '(curve, ths) := roc o32 eps_roc (rc_input c) in
  (flag (pts_eqb curve (map (fun p => (b32_of_bits (fst p), b32_of_bits (snd p))) (rc_curve c))) 512
   + flag (sfs_eqb ths (f32s (rc_thresholds c))) 1024
   + flag (sf_eqb (trapezoidal o32 curve) (b32_of_bits (rc_auc c))) 2048)%N.

(* interval arithmetic (Interval library, 80 bits) for the logarithms *)
Module SFBI2 := SpecificFloat BigIntRadix2.
Module I := FloatIntervalFull SFBI2.
Definition iprec := SFBI2.PtoP 80.
Definition ipt (m e : Z) : I.type := I.bnd (Specific_ops.Float (BigZ.of_Z m) (BigZ.of_Z e)) (Specific_ops.Float (BigZ.of_Z m) (BigZ.of_Z e)).
Definition iv_of_sf (x : spec_float) : I.type :=
  match x with
  | S754_zero _ => ipt 0 0
  | S754_finite s m e => ipt (if s then Zneg m else Zpos m) e
  | _ => I.nai
  end.
Definition bndQ (f : SFBI2.type) : option Q :=
  match f with
  | Specific_ops.Float m e => Some (Qred (inject_Z (BigZ.to_Z m) * Qpow2 (BigZ.to_Z e)))
  | _ => None
  end.
Definition iv_bounds (i : I.type) : option (Q * Q) :=
  match i with
  | Float.Ibnd l u => match bndQ l, bndQ u with Some a, Some b => Some (a, b) | _, _ => None end
  | _ => None
  end.
Definition in_encl (tol : Q) (i : I.type) (v : option Q) : bool :=
  match iv_bounds i, v with
  | Some (lo, hi), Some x =>
      let w := Qred (tol * (1 + Qabs_ lo + Qabs_ hi)) in Qleb (lo - w) x && Qleb x (hi + w)
  | _, _ => false
  end.
Definition iv_sum (l : list I.type) : I.type := fold_left (I.add iprec) l (ipt 0 0).
Definition iv_n (n : nat) : I.type := ipt (Z.of_nat n) 0.

(* mean clipped negative log-likelihood: the clip is an exact operation on the float value, the
   complement 1 - a and the logarithm are taken over the reals (enclosed) *)
Definition log_loss_encl (ps : list (spec_float * bool)) : I.type :=
  let terms := map (fun p : spec_float * bool =>
                      let a := clamp o32 eps_f32 (sub o32 (one o32) eps_f32) (fst p) in
                      let arg := if snd p then iv_of_sf a else I.sub iprec (ipt 1 0) (iv_of_sf a) in
                      I.neg (I.ln iprec arg)) ps in
  I.div iprec (iv_sum terms) (iv_n (length ps)).

Fixpoint nondecreasing_pts (l : list (spec_float * spec_float)) : bool :=
  match l with
  | p :: (q :: _) as t => SFleb (fst p) (fst q) && SFleb (snd p) (snd q) && nondecreasing_pts t
  | _ => true
  end.
Fixpoint ths_separated (l : list spec_float) : bool :=
  match l with
  | a :: (b :: _) as t => SFltb eps_roc (SFsub p32 e32 b a) && ths_separated t
  | _ => true
  end.
Definition is_zero_sf (x : spec_float) : bool := match x with S754_zero _ => true | _ => false end.
Definition is_one_sf (x : spec_float) : bool := sf_eqb x (one o32).

(* --- the AUC oracle, in exact rational arithmetic and without a separation hypothesis ---
   The scores are taken as the rationals they denote; the non-negative ones are sorted and grouped
   as the loop groups them (Model.grouped_sc at Q: a score opens a new group when it exceeds the
   group's first score by more than eps); the reported area must be the Mann-Whitney statistic of
   the grouped scores (two scores of one group count as tied).  The loop takes its decisions in
   binary32 (rounded difference); the oracle is evaluated only when every one of those decisions
   agrees with the exact one, which [decisions_agree] checks along the sorted scores. *)
Definition qscores (ps : list (spec_float * bool)) : list (Q * bool) := map (fun p => (SF2Qd (fst p), snd p)) ps.
Definition eps_rocQ : Q := SF2Qd eps_roc.
Fixpoint decisions_agree (a : option spec_float) (l : list (spec_float * bool)) : bool :=
  match l with
  | [] => true
  | p :: t =>
      let s := fst p in
      match a with
      | None => decisions_agree (Some s) t
      | Some a0 =>
          let pf := SFltb eps_roc (SFabs (SFsub p32 e32 s a0)) in
          let pq := Qltb eps_rocQ (Qabs' (SF2Qd s - SF2Qd a0)) in
          Bool.eqb pf pq && decisions_agree (Some (if pf then s else a0)) t
      end
  end.
Definition auc_groups (c : roccase) : list (Q * bool) := grouped_sc oQ eps_rocQ (qscores (rc_input c)).
Definition auc_checked (c : roccase) : bool :=
  let ps := rc_input c in
  let kept := filter (fun p : spec_float * bool => SFleb (S754_zero false) (fst p)) ps in
  forallb (fun p : spec_float * bool => sf_finite (fst p)) ps &&
  Nat.ltb 0 (npos (auc_groups c)) && Nat.ltb 0 (nneg (auc_groups c)) &&
  decisions_agree None (sort_sc o32 kept).
Definition auc_tol (c : roccase) : Q := Z.of_nat (length (rc_input c) + 8) # 16777216.
Definition auc_expected (c : roccase) : Q :=
  let G := auc_groups c in Qred (qn (mw2 oQ G) / (2 * (qn (npos G) * qn (nneg G)))).
Definition auc_ok (c : roccase) : bool :=
  negb (auc_checked c) || close32 (auc_tol c) (b32_of_bits (rc_auc c)) (Some (auc_expected c)).

Definition oracle_roc (c : roccase) : N :=
  let ps := rc_input c in
  let kept := filter (fun p : spec_float * bool => SFleb (S754_zero false) (fst p)) ps in
  let np := npos kept in let nn := nneg kept in
  let curve := map (fun p => (b32_of_bits (fst p), b32_of_bits (snd p))) (rc_curve c) in
  let ths := f32s (rc_thresholds c) in
  let n := length ps in
  let roc_bits :=
    if (Nat.ltb 0 np && Nat.ltb 0 nn)%bool then
      (flag (match curve with
             | p0 :: _ => is_zero_sf (fst p0) && is_zero_sf (snd p0) &&
                          is_one_sf (fst (last curve p0)) && is_one_sf (snd (last curve p0))
             | [] => false
             end) 1024
       + flag (nondecreasing_pts curve) 2048
       + flag (Nat.eqb (length curve) (S (length ths)) && ths_separated ths
               && forallb (fun t => existsb (fun p : spec_float * bool => sf_eqb (fst p) t) kept) ths) 4096)%N
    else 0%N in
  let auc_bit := flag (auc_ok c) 8192 in
  let ll_bits :=
    if rc_oracle_ll c then
      match ps with
      | [] => flag (negb (rc_ll_ok c)) 16384
      | _ => flag (rc_ll_ok c && in_encl (Z.of_nat (n + 8) # 16777216) (log_loss_encl ps) (SF2Q (b32_of_bits (rc_ll c)))) 16384
      end
    else 0%N in
  (roc_bits + auc_bit + ll_bits)%N.

(** * Regression scores (f64) *)
Record regcase := {
  rg_id : N;
  rg_a : list float;            (* the receiver (prediction) *)
  rg_b : list float;            (* compare_to (ground truth) *)
  rg_lay : N;                   (* layout of the compare_to view: 0 = stride 1, 2 = stride -1, 1 = any other
                                   stride (e.g. a column of a row-major matrix with two or more columns) *)
  rg_oracle : bool;             (* data are well conditioned: evaluate the exact specification *)
  rg_msle : bool;               (* all entries > -1: evaluate the msle enclosure *)
  rg_out : list float           (* max, mae, mse, medae, mape, r2, ev, msle *)
}.

Definition c10 : float := 0x1.b7cdfd9d7bdbbp-34%float.      (* 1e-10 as f64 *)

Definition cmp_opt (m : option float) (v : float) : bool :=
  match m with Some x => f64_biteq x v | None => false end.
Definition outn (c : regcase) (k : nat) : float := nth k (rg_out c) nan.

Definition corr_reg (c : regcase) : N :=
  let a := rg_a c in let b := rg_b c in let s := layout_of_N (rg_lay c) in
  (flag (cmp_opt (max_error o64 a b) (outn c 0)) 4096
   + flag (cmp_opt (mean_absolute_error o64 a b) (outn c 1)) 8192
   + flag (cmp_opt (mean_squared_error o64 a b) (outn c 2)) 16384
   + flag (cmp_opt (median_absolute_error o64 a b) (outn c 3)) 32768
   + flag (cmp_opt (mean_absolute_percentage_error o64 a b) (outn c 4)) 65536
   + flag (cmp_opt (r2_l o64 c10 s a b) (outn c 5)) 131072
   + flag (cmp_opt (explained_variance_l o64 c10 s a b) (outn c 6)) 262144)%N.

Definition qs (l : list float) : list Q := map f64_Q l.
Definition c10q : Q := f64_Q c10.
Definition sortedQ (l : list Q) : list Q := sort_f oQ l.
Definition median_spec (l : list Q) : Q :=
  let e := sortedQ l in
  let n := length e in
  if Nat.even n then (nth (Nat.div n 2 - 1) e 0 + nth (Nat.div n 2) e 0) / 2 else nth (Nat.div n 2) e 0.
Definition max_spec (l : list Q) : Q := fold_left (fun a b => if Qltb a b then b else a) l 0.

Definition msle_encl (a b : list float) : I.type :=
  let l1p (x : float) := I.ln iprec (I.add iprec (ipt 1 0) (iv_of_sf (Prim2SF x))) in
  let terms := map (fun p : float * float => I.sqr iprec (I.sub iprec (l1p (fst p)) (l1p (snd p)))) (combine a b) in
  I.div iprec (iv_sum terms) (iv_n (length a)).

(* mean |(a - b) / a| enclosed with 80-bit interval arithmetic (the exact rational has huge denominators) *)
Definition iv64 (x : float) : I.type := iv_of_sf (Prim2SF x).
Definition mape_encl (a b : list float) : I.type :=
  let terms := map (fun p : float * float => I.abs (I.div iprec (I.sub iprec (iv64 (fst p)) (iv64 (snd p))) (iv64 (fst p)))) (combine a b) in
  I.div iprec (iv_sum terms) (iv_n (length a)).

Definition oracle_reg (c : regcase) : N :=
  let a := qs (rg_a c) in let b := qs (rg_b c) in
  let absd := map (abs oQ) (vsub oQ a b) in
  let rtol := if rg_oracle c then Qred (tol64 * (1 + Qabs_ (sse_spec oQ a b / (sst_spec oQ b + c10q)))) else 0%Q in
  let main :=
    if rg_oracle c then
      (flag (close64 tol64 0 (outn c 0) (Some (max_spec absd))) 32768
       + flag (close64 tol64 0 (outn c 1) (Some (mae_spec oQ a b))) 65536
       + flag (close64 tol64 0 (outn c 2) (Some (mse_spec oQ a b))) 131072
       + flag (close64 tol64 0 (outn c 3) (Some (median_spec absd))) 262144
       + flag (existsb (fun x => PrimFloat.eqb x 0) (rg_a c) ||
               in_encl tol64 (mape_encl (rg_a c) (rg_b c)) (f64_to_Q (outn c 4))) 524288
       + flag (close64 0 rtol (outn c 5) (Some (r2_spec oQ c10q a b))) 1048576
       + flag (close64 0 rtol (outn c 6) (Some (ev_spec oQ c10q a b))) 2097152)%N
    else 0%N in
  let ms := if rg_msle c then flag (in_encl (1 # 68719476736) (msle_encl (rg_a c) (rg_b c)) (f64_to_Q (outn c 7))) 4194304
            else 0%N in
  (main + ms)%N.

(** * Multi-target regression scores (f64): the whole matrix call *)
Record mregcase := {
  mg_id : N;
  mg_A : list (list float); mg_qa : N;     (* rows of the receiver and its number of columns *)
  mg_B : list (list float); mg_qb : N;     (* rows of compare_to and its number of columns *)
  mg_lay : N;                              (* layout of the columns of compare_to (as rg_lay) *)
  mg_oracle : list bool;                   (* per column pair: well conditioned, evaluate the specification *)
  mg_ok : list bool;                       (* per score: the call returned Ok *)
  mg_out : list (list float)               (* per score (max, mae, mse, medae, mape, r2, ev, msle): the vector *)
}.

Definition cmp_vec (m : option (list float)) (ok : bool) (v : list float) : N :=
  match m with
  | Some x => if ok then flag (f64s_eqb x v) 4194304 else 8388608%N
  | None => flag (negb ok) 8388608
  end.

(* the first seven scores are compared bit for bit (mean_squared_log_error goes through f64::ln) *)
Definition corr_mreg (c : mregcase) : N :=
  let ms := multi_scores o64 (fun x => x) c10 (layout_of_N (mg_lay c))
                         (N.to_nat (mg_qa c)) (N.to_nat (mg_qb c)) (mg_A c) (mg_B c) in
  lor_list (map (fun k => cmp_vec (nth k ms None) (nth k (mg_ok c) false) (nth k (mg_out c) []))
                (seq 0 7)).

(* the result of every score is a vector with one entry per zipped column pair, and entry j is the
   single-target definition on column j of both matrices (oracle_reg on the column pair; the
   explained_variance bit of finding F2 is left to the single-target cases, where the input class of
   the finding is decidable per case) *)
Definition col64 (M : list (list float)) (j : nat) : list float := map (fun r => nth j r nan) M.
Definition oracle_mreg (c : mregcase) : N :=
  let q := Nat.min (N.to_nat (mg_qa c)) (N.to_nat (mg_qb c)) in
  let shape_ok := Nat.eqb (length (mg_ok c)) 8 && Nat.eqb (length (mg_out c)) 8 &&
                  forallb (fun b : bool => b) (mg_ok c) &&
                  forallb (fun v : list float => Nat.eqb (length v) q) (mg_out c) in
  if negb shape_ok then 134217728%N else
  lor_list (map (fun j =>
     let rc := {| rg_id := mg_id c; rg_a := col64 (mg_A c) j; rg_b := col64 (mg_B c) j; rg_lay := mg_lay c;
                  rg_oracle := nth j (mg_oracle c) false; rg_msle := false;
                  rg_out := map (fun v => nth j v nan) (mg_out c) |} in
     N.ldiff (oracle_reg rc) 2097152) (seq 0 q)).

(** * Silhouette (f64) *)
Record silcase := {
  sl_id : N;
  sl_X : list (list float);
  sl_labels : list N;
  sl_oracle : bool;      (* two or more clusters, each with at least two distinct points *)
  sl_score : float
}.

Definition corr_sil (c : silcase) : N :=
  flag (f64_biteq (silhouette o64 N.eqb (sl_X c) (sl_labels c)) (sl_score c)) 524288.

Definition rows_differ (x y : list float) : bool := negb (list_eqb PrimFloat.eqb x y).
Definition sil_precondition (c : silcase) : bool :=
  let cs := distinct N.eqb (sl_labels c) [] in
  Nat.leb 2 (length cs) &&
  forallb (fun l => match members N.eqb (sl_X c) (sl_labels c) l with
                    | x :: t => existsb (rows_differ x) t
                    | [] => false
                    end) cs.
(* the textbook score evaluated in binary64 (plain sums, max(a, b) in the denominator) *)
Definition oracle_sil (c : silcase) : N :=
  if sl_oracle c then
    let spec := silhouette_spec o64 N.eqb (sl_X c) (sl_labels c) in
    flag (sil_precondition c &&
          PrimFloat.leb (PrimFloat.abs (PrimFloat.sub (sl_score c) spec))
                        (PrimFloat.mul 0x1p-36%float (PrimFloat.add 1 (PrimFloat.abs spec)))) 8388608
  else 0%N.

(** * Pearson coefficients (f64) *)
Record peacase := {
  pe_id : N;
  pe_X : list (list float);
  pe_exact : bool;       (* every partial sum of the matrix product is exact: compare bit for bit *)
  pe_oracle : bool;      (* well conditioned: compare with the exact coefficient *)
  pe_coeffs : list float
}.

Definition fma64 (a b c : float) : float :=
  match Prim2SF a, Prim2SF b, Prim2SF c with
  | S754_finite sa ma ea, S754_finite sb mb eb, S754_finite sc mc ec =>
      SF2Prim (SFadd 53 1024 (S754_finite (xorb sa sb) (ma * mb) (ea + eb)) (S754_finite sc mc ec))
  | _, _, _ => PrimFloat.add (PrimFloat.mul a b) c
  end.

Definition corr_pea (c : peacase) : N :=
  if pe_exact c then flag (f64s_eqb (pearson o64 fma64 (pe_X c)) (pe_coeffs c)) 1048576 else 0%N.

(* r in [rho - tol, rho + tol] with rho = cov / sqrt(vx vy), decided on signed squares *)
Definition pearson_close (tol : Q) (r : Q) (cov vx vy : Q) : bool :=
  let t := ssq cov in
  let d := (vx * vy)%Q in
  Qleb (ssq (r - tol) * d) t && Qleb t (ssq (r + tol) * d).
Definition centered_scaled (x : list Q) : list Q :=
  let n := qn (length x) in let s := sum_s oQ x in map (fun v => Qred (n * v - s)) x.
Definition oracle_pea (c : peacase) : N :=
  if pe_oracle c then
    let X := map qs (pe_X c) in
    let p := ncols X in
    let pairs := flat_map (fun i => map (fun j => (i, j)) (seq (S i) (p - S i))) (seq 0 p) in
    (* columns centred and scaled by n: n * x_i - sum x (the coefficient is invariant under the scaling) *)
    let C := map (fun j => centered_scaled (xcol oQ X j)) (seq 0 p) in
    let V := map (fun x => dotp oQ x x) C in
    flag (Nat.eqb (length (pe_coeffs c)) (length pairs) &&
          forallb (fun t => let '(r, (i, j)) := t in
                            let x := nth i C [] in let y := nth j C [] in
                            (* a column without spread has standard deviation exactly 0 (its centred
                               values are all equal, Welford's sum of squares stays 0): the code divides
                               by it, the coefficient is undefined and must not be a finite number *)
                            if Qeq_bool (nth i V 0) 0 || Qeq_bool (nth j V 0) 0
                            then negb (f64_finite r)
                            else
                            match f64_to_Q r with
                            | Some rq => pearson_close tol64 rq (dotp oQ x y) (nth i V 0) (nth j V 0)
                            | None => false
                            end)
                  (combine (pe_coeffs c) pairs)) 16777216
  else 0%N.

(** * Driver *)
Inductive case :=
| CCm (c : cmcase) | CRoc (c : roccase) | CReg (c : regcase) | CSil (c : silcase) | CPea (c : peacase)
| CMreg (c : mregcase).

Definition run_case (c : case) : verdict :=
  match c with
  | CCm c => (cm_id c, (corr_cm c, oracle_cm c))
  | CRoc c => (rc_id c, (corr_roc c, oracle_roc c))
  | CReg c => (rg_id c, (corr_reg c, oracle_reg c))
  | CSil c => (sl_id c, (corr_sil c, oracle_sil c))
  | CPea c => (pe_id c, (corr_pea c, oracle_pea c))
  | CMreg c => (mg_id c, (corr_mreg c, oracle_mreg c))
  end.
Definition run_cases (cs : list case) : list N := report (map run_case cs).
