(** C05 - what `roc` / `area_under_curve` compute without any separation hypothesis.
    The loop opens a new step whenever the current score is more than eps above the score that
    opened the current step (the last threshold), so the sorted scores fall into groups anchored
    at their first score: a score joins the open group iff it is within eps of the group's anchor
    (NOT of its predecessor).  [snap] replaces every score by the anchor of its group; the curve,
    the thresholds and the area are exactly those of the snapped scores, which are separated, so
    the area is the Mann-Whitney statistic in which two scores of one group count as tied. *)
From Coq Require Import List NArith Bool Reals Lra Lia Permutation Sorted.
From LinfaVerif Require Import Common.Num Common.NdSum C05.Model C05.Proofs.
Import ListNotations.
Local Open Scope R_scope.

Local Notation scored := (@scored R).
Local Notation npos := (@Model.npos R).
Local Notation nneg := (@Model.nneg R).

Section Groups.
Variable eps : R.
Hypothesis Heps : 0 <= eps.

Local Notation anchor := (anchor_sc R_ops eps).
Local Notation snap := (snap_sc R_ops eps).

Lemma roc_step_snap st p :
  roc_step R_ops eps st (anchor (r_s0 st) (fst p), snd p) = roc_step R_ops eps st p /\
  r_s0 (roc_step R_ops eps st p) = Some (anchor (r_s0 st) (fst p)).
Proof.
  destruct p as [s b]. unfold roc_step, anchor_sc. cbn [fst snd].
  destruct (r_s0 st) as [a0|] eqn:E.
  - cbn [ltb abs sub R_ops]. destruct (Rltb eps (Rabs (s - a0))) eqn:Ep.
    + rewrite Ep. destruct b; cbn [r_s0]; split; reflexivity.
    + replace (Rltb eps (Rabs (a0 - a0))) with false.
      2:{ symmetry. apply Rltb_false. replace (a0 - a0) with 0 by lra. rewrite Rabs_R0. exact Heps. }
      destruct b; cbn [r_s0]; rewrite E; split; reflexivity.
  - destruct b; cbn [r_s0]; split; reflexivity.
Qed.

Lemma fold_snap l : forall st,
  fold_left (roc_step R_ops eps) (snap (r_s0 st) l) st = fold_left (roc_step R_ops eps) l st.
Proof.
  induction l as [|p l IH]; intros st; [reflexivity|].
  cbn [snap_sc fold_left]. destruct (roc_step_snap st p) as [H1 H2]. rewrite H1, <- H2. apply IH.
Qed.

Lemma roc_raw_snap l : roc_raw R_ops eps (snap None l) = roc_raw R_ops eps l.
Proof. unfold roc_raw. rewrite <- (fold_snap l (roc_init R_ops)). reflexivity. Qed.

Lemma npos_snap l : forall a, npos (snap a l) = npos l.
Proof. unfold npos. induction l as [|p l IH]; intros a; simpl; auto. destruct (snd p); simpl; rewrite IH; reflexivity. Qed.
Lemma nneg_snap l : forall a, nneg (snap a l) = nneg l.
Proof. unfold nneg. induction l as [|p l IH]; intros a; simpl; auto. destruct (snd p); simpl; rewrite IH; reflexivity. Qed.
Lemma snap_labels l : forall a, map snd (snap a l) = map snd l.
Proof. induction l as [|p l IH]; intros a; simpl; auto. rewrite IH. reflexivity. Qed.

(* from an anchor a0 below a sorted list: the snapped scores are a0 or more than eps above it,
   increasing, and pairwise equal or more than eps apart *)
Lemma snap_props l : forall a0, sorted_sc l -> (forall q, In q l -> a0 <= fst q) ->
  let r := snap (Some a0) l in
  sorted_sc r /\ (forall x, In x (map fst r) -> x = a0 \/ eps < x - a0) /\
  (forall x y, In x (map fst r) -> In y (map fst r) -> x = y \/ eps < Rabs (y - x)).
Proof.
  induction l as [|[s b] l IH]; intros a0 Hs Hge.
  - simpl. split; [constructor|]. split; intros; contradiction.
  - inversion Hs as [|? ? Hs' Hf]; subst. rewrite Forall_forall in Hf.
    assert (Has : a0 <= s) by (apply (Hge (s, b)); left; reflexivity).
    cbn [snap_sc anchor_sc fst snd ltb abs sub R_ops].
    assert (Gap : forall u v, eps < v - u -> eps < Rabs (v - u) /\ eps < Rabs (u - v)).
    { intros u v Huv. split; [rewrite Rabs_right; lra | rewrite Rabs_left; lra]. }
    destruct (Rltb eps (Rabs (s - a0))) eqn:Ep.
    + apply Rltb_true in Ep. rewrite Rabs_right in Ep by lra.
      destruct (IH s Hs' (fun q Hq => Hf q Hq)) as [I1 [I2 I3]]. cbv zeta in *.
      split; [|split].
      * constructor; [exact I1|]. rewrite Forall_forall. intros q Hq. cbn [fst].
        destruct (I2 (fst q) (in_map fst _ _ Hq)) as [->|H]; lra.
      * intros x [<-|Hx]; [right; exact Ep|]. destruct (I2 x Hx) as [->|H]; right; lra.
      * intros x y [<-|Hx] [<-|Hy]; auto.
        -- destruct (I2 y Hy) as [->|H]; [left; auto | right; cbn [fst]; destruct (Gap _ _ H); assumption].
        -- destruct (I2 x Hx) as [->|H]; [left; auto | right; cbn [fst]; destruct (Gap _ _ H); assumption].
    + destruct (IH a0 Hs' (fun q Hq => Hge q (or_intror Hq))) as [I1 [I2 I3]]. cbv zeta in *.
      split; [|split].
      * constructor; [exact I1|]. rewrite Forall_forall. intros q Hq. cbn [fst].
        destruct (I2 (fst q) (in_map fst _ _ Hq)) as [->|H]; lra.
      * intros x [<-|Hx]; [left; reflexivity | apply I2; exact Hx].
      * intros x y [<-|Hx] [<-|Hy]; auto.
        -- destruct (I2 y Hy) as [->|H]; [left; auto | right; cbn [fst]; destruct (Gap _ _ H); assumption].
        -- destruct (I2 x Hx) as [->|H]; [left; auto | right; cbn [fst]; destruct (Gap _ _ H); assumption].
Qed.

Lemma snap_sorted_separated l : sorted_sc l -> sorted_sc (snap None l) /\ separated eps (snap None l).
Proof.
  destruct l as [|[s b] l]; intros Hs.
  - simpl. split; [constructor|]. intros x y [].
  - inversion Hs as [|? ? Hs' Hf]; subst. rewrite Forall_forall in Hf.
    destruct (snap_props l s Hs' (fun q Hq => Hf q Hq)) as [I1 [I2 I3]].
    change (snap None ((s, b) :: l)) with ((s, b) :: snap (Some s) l).
    split.
    + constructor; [exact I1|]. rewrite Forall_forall. intros q Hq. cbn [fst].
      destruct (I2 (fst q) (in_map fst _ _ Hq)) as [->|H]; lra.
    + replace ((s, b) :: snap (Some s) l) with (snap (Some s) ((s, b) :: l)).
      2:{ cbn [snap_sc anchor_sc fst snd ltb abs sub R_ops]. replace (Rltb eps (Rabs (s - s))) with false; [reflexivity|].
          symmetry. apply Rltb_false. replace (s - s) with 0 by lra. rewrite Rabs_R0. exact Heps. }
      assert (Hge : forall q, In q ((s, b) :: l) -> s <= fst q).
      { intros q [<-|Hq]; [simpl; lra | apply Hf; exact Hq]. }
      exact (proj2 (proj2 (snap_props ((s, b) :: l) s Hs Hge))).
Qed.

(* every snapped score is the anchor of its group: at most eps below the original score, same label *)
Definition near (p g : scored) : Prop := fst g <= fst p <= fst g + eps /\ snd g = snd p.
Lemma snap_near l : forall a0, sorted_sc l -> (forall q, In q l -> a0 <= fst q) -> Forall2 near l (snap (Some a0) l).
Proof.
  induction l as [|[s b] l IH]; intros a0 Hs Hge; [constructor|].
  inversion Hs as [|? ? Hs' Hf]; subst. rewrite Forall_forall in Hf.
  assert (Has : a0 <= s) by (apply (Hge (s, b)); left; reflexivity).
  cbn [snap_sc anchor_sc fst snd ltb abs sub R_ops]. destruct (Rltb eps (Rabs (s - a0))) eqn:Ep.
  - constructor; [unfold near; simpl; split; [lra|reflexivity]|]. apply IH; auto.
  - apply Rltb_false in Ep. rewrite Rabs_right in Ep by lra.
    constructor; [unfold near; simpl; split; [lra|reflexivity]|]. apply IH; auto.
    intros q Hq. apply Hge. right; exact Hq.
Qed.
Lemma snap_near_top l : sorted_sc l -> Forall2 near l (snap None l).
Proof.
  destruct l as [|[s b] l]; intros Hs; [constructor|].
  inversion Hs as [|? ? Hs' Hf]; subst. rewrite Forall_forall in Hf.
  change (snap None ((s, b) :: l)) with ((s, b) :: snap (Some s) l).
  constructor; [unfold near; simpl; split; [lra|reflexivity]|]. apply snap_near; auto.
Qed.

(** the curve of any sorted list is the curve of its snapped list, whose doubled area is the
    Mann-Whitney count of the snapped scores *)
Lemma roc_raw_area_grouped l : sorted_sc l ->
  let st := roc_raw R_ops eps l in
  A2 (r_pts st) = INR (mw2 R_ops (snap None l)) /\ r_tp st = INR (npos l) /\ r_fp st = INR (nneg l).
Proof.
  intros Hs. destruct (snap_sorted_separated l Hs) as [S1 S2].
  pose proof (roc_raw_area eps Heps (snap None l) S1 S2) as H. cbv zeta in *.
  rewrite roc_raw_snap, npos_snap, nneg_snap in H. exact H.
Qed.

End Groups.

Lemma npos_perm l l' : Permutation l l' -> npos l = npos l'.
Proof. intros H. unfold npos. apply filter_length_perm, H. Qed.
Lemma nneg_perm l l' : Permutation l l' -> nneg l = nneg l'.
Proof. intros H. unfold nneg. apply filter_length_perm, H. Qed.

(** the grouped scores of an input: non-negative scores, sorted, snapped to the group anchors *)
Definition grouped (eps : R) (ps : list scored) : list scored := grouped_sc R_ops eps ps.
Local Notation snap := (snap_sc R_ops).
Lemma grouped_unfold eps ps : grouped eps ps = snap eps None (sort_sc R_ops (kept ps)).
Proof. reflexivity. Qed.

Lemma auc_grouped eps ps : 0 <= eps -> (0 < npos (kept ps))%nat -> (0 < nneg (kept ps))%nat ->
  auc R_ops eps ps = auc_spec R_ops (grouped eps ps).
Proof.
  intros Heps Hp Hn. change (roc_prepare R_ops ps) with (sort_sc R_ops (kept ps)) in *.
  pose proof (sort_sc_perm (kept ps)) as Hperm.
  destruct (roc_raw_area_grouped eps Heps (sort_sc R_ops (kept ps)) (sort_sc_sorted _)) as [H1 [H2 H3]].
  rewrite (npos_perm _ _ Hperm) in H2. rewrite (nneg_perm _ _ Hperm) in H3.
  unfold auc, roc. cbn [fst]. rewrite trapezoidal_R.
  change (roc_prepare R_ops ps) with (sort_sc R_ops (kept ps)).
  assert (HP : INR (npos (kept ps)) <> 0) by (apply not_0_INR; lia).
  assert (HN : INR (nneg (kept ps)) <> 0) by (apply not_0_INR; lia).
  rewrite H2, H3. rewrite (A2_scale _ _ _ HP HN). rewrite H1.
  unfold auc_spec. rewrite grouped_unfold, npos_snap, nneg_snap.
  rewrite (npos_perm _ _ Hperm), (nneg_perm _ _ Hperm).
  rewrite !ofn_R. unfold two. simpl. field. split; auto.
Qed.

(** on separated scores the grouping is the identity on the multiset of scores *)
Lemma snap_separated_id eps l : 0 <= eps -> sorted_sc l -> separated eps l -> snap eps None l = l.
Proof.
  intros Heps Hs Hsep.
  assert (G : forall l a0, sorted_sc l -> (forall q, In q l -> fst q = a0 \/ eps < fst q - a0) ->
              (forall x y, In x (map fst l) -> In y (map fst l) -> x = y \/ eps < Rabs (y - x)) ->
              snap eps (Some a0) l = l).
  { clear l Hs Hsep. induction l as [|[s b] l IH]; intros a0 Hs Hrel Hsep; [reflexivity|].
    inversion Hs as [|? ? Hs' Hf]; subst. rewrite Forall_forall in Hf.
    cbn [snap_sc anchor_sc fst snd ltb abs sub R_ops]. destruct (Hrel (s, b) (or_introl eq_refl)) as [E|E]; cbn [fst] in E.
    - subst s. replace (Rltb eps (Rabs (a0 - a0))) with false.
      2:{ symmetry. apply Rltb_false. replace (a0 - a0) with 0 by lra. rewrite Rabs_R0. exact Heps. }
      apply f_equal. apply IH; auto.
      + intros q Hq. apply Hrel. right; exact Hq.
      + intros x y Hx Hy. apply Hsep; right; assumption.
    - replace (Rltb eps (Rabs (s - a0))) with true by (symmetry; apply Rltb_true; rewrite Rabs_right; lra).
      apply f_equal. apply IH; auto.
      + intros q Hq. specialize (Hf q Hq). cbn [fst] in Hf.
        destruct (Hsep s (fst q) (or_introl eq_refl) (or_intror (in_map fst _ _ Hq))) as [H|H]; [left; auto|].
        right. rewrite Rabs_right in H by lra. exact H.
      + intros x y Hx Hy. apply Hsep; right; assumption. }
  destruct l as [|[s b] l]; [reflexivity|].
  change (snap eps None ((s, b) :: l)) with ((s, b) :: snap eps (Some s) l). apply f_equal.
  inversion Hs as [|? ? Hs' Hf]; subst. rewrite Forall_forall in Hf.
  apply G; auto.
  - intros q Hq. specialize (Hf q Hq). cbn [fst] in Hf.
    destruct (Hsep s (fst q) (or_introl eq_refl) (or_intror (in_map fst _ _ Hq))) as [H|H]; [left; auto|].
    right. rewrite Rabs_right in H by lra. exact H.
  - intros x y Hx Hy. apply Hsep; right; assumption.
Qed.

(** * Examples: grouping is not exact ties, and groups are anchored (no chaining) *)
Definition ex_close : list scored := [(1/2, false); (11/20, true)].

Lemma kept_ex_close : kept ex_close = ex_close.
Proof. apply kept_all. unfold ex_close. repeat constructor; simpl; lra. Qed.

(* two scores 0.05 apart with eps = 0.1: the code reports 1/2, the exact Mann-Whitney statistic is 1 *)
Example ex_grouping_differs_from_ties :
  auc R_ops (1/10) ex_close = 1 / 2 /\ auc_spec R_ops (kept ex_close) = 1.
Proof.
  split.
  - rewrite auc_grouped; [|lra|rewrite kept_ex_close; unfold ex_close, Model.npos; simpl; lia
                               |rewrite kept_ex_close; unfold ex_close, Model.nneg; simpl; lia].
    rewrite grouped_unfold, kept_ex_close. unfold ex_close. simpl sort_sc.
    decide_cmp. cbn [snap_sc anchor_sc fst snd ltb abs sub R_ops]. decide_cmp.
    + exfalso. rewrite Rabs_right in E0; lra.
    + unfold auc_spec, mw2, mw_pair, Model.npos, Model.nneg, ofn, two. simpl. decide_cmp; simpl; lra.
  - rewrite kept_ex_close. unfold auc_spec, ex_close, mw2, mw_pair, Model.npos, Model.nneg, ofn, two. simpl.
    decide_cmp; simpl; lra.
Qed.

Lemma sort_sc_strict_id (l : list scored) :
  StronglySorted (fun p q : scored => fst p < fst q) l -> sort_sc R_ops l = l.
Proof.
  induction 1 as [|p l Hs IH Hp]; [reflexivity|]. cbn [sort_sc fold_right]. fold (sort_sc R_ops l). rewrite IH.
  destruct l as [|q t]; [reflexivity|]. inversion Hp; subst. cbn [ins_sc ltb R_ops].
  replace (Rltb (fst p) (fst q)) with true by (symmetry; apply Rltb_true; assumption). reflexivity.
Qed.

(* 0, 0.06, 0.12 with eps = 0.1: 0.06 joins the group anchored at 0; 0.12 is within eps of its
   predecessor 0.06 but more than eps above the anchor 0, so it opens a new group *)
Definition ex_chain : list scored := [(0, false); (3/50, false); (3/25, true)].
Example ex_groups_are_anchored :
  grouped (1/10) ex_chain = [(0, false); (0, false); (3/25, true)] /\ Rabs (3/25 - 3/50) <= 1/10.
Proof.
  split; [|rewrite Rabs_right; lra].
  assert (Hk : kept ex_chain = ex_chain) by (apply kept_all; unfold ex_chain; repeat constructor; simpl; lra).
  rewrite grouped_unfold, Hk. rewrite sort_sc_strict_id by (unfold ex_chain; repeat constructor; simpl; lra).
  unfold ex_chain. cbn [snap_sc anchor_sc fst snd ltb abs sub R_ops].
  replace (Rltb (1 / 10) (Rabs (3 / 50 - 0))) with false by (symmetry; apply Rltb_false; rewrite Rabs_right; lra).
  replace (Rltb (1 / 10) (Rabs (3 / 25 - 0))) with true by (symmetry; apply Rltb_true; rewrite Rabs_right; lra).
  reflexivity.
Qed.

(** * End points and monotonicity of the curve need no separation hypothesis either *)
Lemma roc_raw_totals eps ps : 0 <= eps ->
  let st := roc_raw R_ops eps (roc_prepare R_ops ps) in
  r_tp st = INR (npos (kept ps)) /\ r_fp st = INR (nneg (kept ps)).
Proof.
  intros Heps. change (roc_prepare R_ops ps) with (sort_sc R_ops (kept ps)).
  pose proof (sort_sc_perm (kept ps)) as Hperm.
  destruct (roc_raw_area_grouped eps Heps (sort_sc R_ops (kept ps)) (sort_sc_sorted _)) as [_ [H2 H3]].
  cbv zeta. rewrite H2, H3, (npos_perm _ _ Hperm), (nneg_perm _ _ Hperm). split; reflexivity.
Qed.

Lemma roc_endpoints_free eps ps : 0 <= eps -> (0 < npos (kept ps))%nat -> (0 < nneg (kept ps))%nat ->
  let curve := fst (roc R_ops eps ps) in
  hd (0, 0) curve = (0, 0) /\ last curve (0, 0) = (1, 1).
Proof.
  intros Heps Hp Hn. destruct (roc_raw_totals eps ps Heps) as [H2 H3].
  assert (HP : INR (npos (kept ps)) <> 0) by (apply not_0_INR; lia).
  assert (HN : INR (nneg (kept ps)) <> 0) by (apply not_0_INR; lia).
  unfold roc. cbn [fst]. split.
  - destruct (roc_raw_head eps (roc_prepare R_ops ps)) as [t Ht]. rewrite Ht.
    unfold roc_raw in H2, H3. cbn [r_tp r_fp] in H2, H3. simpl. f_equal; field; rewrite ?H2, ?H3; auto.
  - destruct (roc_raw_last eps (roc_prepare R_ops ps)) as [pts Hl]. rewrite Hl.
    rewrite map_app. cbn [map]. rewrite last_last. cbn [fst snd]. f_equal; cbn [div R_ops]; field; rewrite ?H2, ?H3; auto.
Qed.

Lemma roc_monotone_free eps ps : 0 <= eps -> (0 < npos (kept ps))%nat -> (0 < nneg (kept ps))%nat ->
  mono (fst (roc R_ops eps ps)).
Proof.
  intros Heps Hp Hn. destruct (roc_raw_totals eps ps Heps) as [H2 H3].
  unfold roc. cbn [fst]. apply mono_scale; [rewrite H2; apply lt_0_INR; lia | rewrite H3; apply lt_0_INR; lia | apply roc_raw_mono].
Qed.
