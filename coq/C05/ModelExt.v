(** C05 - extension of the executable model (definitions only):
    (1) memory layouts of the one-dimensional view a regression score is compared to.  ndarray's
        `.sum()` / `.mean()` take the unrolled eight-lane fold over the *memory order* of a view
        whose stride is 1 or -1 and a plain sequential fold (started from 0, added to 0) otherwise;
        `mapv` keeps the memory order of such a view.  Only `r2` and `explained_variance` read the
        compared-to view through these functions; every other score first forms `self - other`,
        which is a fresh contiguous array in logical order whatever the layouts of the operands.
    (2) `MultiTargetRegression`: `axis_iter(Axis(1))` over both target matrices, zipped (the shorter
        column count wins), the single-target score on every column pair, collected into a
        `Result<Array1<F>>` (the first failing column makes the whole call fail). *)
From Coq Require Import List NArith Bool.
From LinfaVerif Require Import Common.Num Common.NdSum C05.Model.
Import ListNotations.

Inductive layout := LContig | LStrided | LReversed.
(* the harness reports 0 for stride 1, 2 for stride -1, 1 for every other stride *)
Definition layout_of_N (n : N) : layout :=
  match n with 0%N => LContig | 2%N => LReversed | _ => LStrided end.

Section Num.
Context {F : Type} (o : NumOps F).
Local Notation "a +. b" := (add o a b) (at level 50, left associativity).
Local Notation "a -. b" := (sub o a b) (at level 50, left associativity).
Local Notation "a *. b" := (mul o a b) (at level 40, left associativity).
Local Notation "a /. b" := (div o a b) (at level 40, left associativity).
Local Notation f1 := (one o).

(** `.sum()` of a one-dimensional view with the given layout *)
Definition lsum (lay : layout) (xs : list F) : F :=
  match lay with
  | LContig => csum o xs
  | LStrided => ssum o xs
  | LReversed => csum o (rev xs)
  end.
(** the order in which `mapv` lays out its result (memory order of a contiguous view) *)
Definition lorder (lay : layout) (xs : list F) : list F :=
  match lay with LReversed => rev xs | _ => xs end.
Definition lmean (lay : layout) (xs : list F) : option F :=
  match xs with
  | [] => None
  | _ => Some (lsum lay xs /. ofn o (length xs))
  end.

Definition r2_l (c10 : F) (lay : layout) (a b : list F) : option F :=
  match lmean lay b with
  | None => None
  | Some mean => Some (f1 -. csum o (map (sq o) (vsub o a b)) /. (sst o mean (lorder lay b) +. c10))
  end.
(* as written in the code (finding F2) *)
Definition explained_variance_l (c10 : F) (lay : layout) (a b : list F) : option F :=
  let d := vsub o a b in
  match lmean lay b, cmean o d with
  | Some mean, Some mean_error =>
      Some (f1 -. (csum o (map (sq o) d) -. mean_error) /. (sst o mean (lorder lay b) +. c10))
  | _, _ => None
  end.

(** ** Multi-target application *)
(* `collect::<Result<Array1<F>>>()` *)
Fixpoint collect {A : Type} (l : list (option A)) : option (list A) :=
  match l with
  | [] => Some []
  | None :: _ => None
  | Some x :: t => match collect t with Some r => Some (x :: r) | None => None end
  end.
(* `axis_iter(Axis(1))` of a matrix given by its rows and its number of columns *)
Definition mcols (q : nat) (M : list (list F)) : list (list F) := map (xcol o M) (seq 0 q).
Definition multi_target (metric : list F -> list F -> option F) (qa qb : nat) (A B : list (list F))
  : option (list F) :=
  collect (map (fun ab => metric (fst ab) (snd ab)) (combine (mcols qa A) (mcols qb B))).

(** the eight scores of `MultiTargetRegression` in the order the harness reports them *)
Definition multi_scores (ln : F -> F) (c10 : F) (lay : layout) (qa qb : nat) (A B : list (list F))
  : list (option (list F)) :=
  [ multi_target (max_error o) qa qb A B;
    multi_target (mean_absolute_error o) qa qb A B;
    multi_target (mean_squared_error o) qa qb A B;
    multi_target (median_absolute_error o) qa qb A B;
    multi_target (mean_absolute_percentage_error o) qa qb A B;
    multi_target (r2_l c10 lay) qa qb A B;
    multi_target (explained_variance_l c10 lay) qa qb A B;
    multi_target (mean_squared_log_error o ln) qa qb A B ].
End Num.
