(** C05 - property theorems at the binary32 level (statements; proofs in C05/F32Scores.v).
    `ConfusionMatrix<A>` stores its cells as f32 and computes every score in f32.  These theorems
    are about the model instance that is executed against the Rust code bit for bit
    (Model.v at B32_ops: the standard library's SpecFloat operations at precision 24, related to
    Flocq's BinarySingleNaN operations in C05/F32Exact.v and C05/F32Scores.v).
    [R32 x] is the real value of a binary32 datum, [u32] = 2^-24 the unit round-off. *)
From Coq Require Import List NArith ZArith Reals Lra Lia SpecFloat.
From Flocq Require Import Core.Core IEEE754.BinarySingleNaN.
From LinfaVerif Require Import Common.Num Common.NdSum Common.B32 C05.Model C05.F32Exact C05.Proofs C05.F32Scores C05.F32Fscore C05.F32Mcc C05.F32MccErr.
Import ListNotations.

(** every summation order the code uses (`Iterator::sum` from the left, a strided `.sum()`,
    ndarray's eight-lane unrolled `.sum()`) is exact on non-negative integers whose total is at
    most 2^24: the binary32 result is the binary32 number of the integer sum *)
Theorem f32_integer_sums_exact : forall l : list N, (Nsum l <= 16777216)%N ->
  seq_sum B32_ops (ofNs l) = of_N B32_ops (Nsum l) /\
  ssum B32_ops (ofNs l) = of_N B32_ops (Nsum l) /\
  csum B32_ops (ofNs l) = of_N B32_ops (Nsum l).
Proof. intros l H. split; [|split]; [apply seq_sum_int | apply ssum_int | apply csum_int]; exact H. Qed.

(** with at most 2^24 samples the binary32 confusion matrix of two label vectors *is* the matrix of
    the pair counts (cell (i, j) = number of samples predicted class i with truth class j) *)
Theorem cm_f32_is_count_matrix : forall (L : Type) (lltb leqb : L -> L -> bool), label_order lltb leqb ->
  forall pred truth : list L, (N.of_nat (length pred) <= 16777216)%N ->
  cm_count B32_ops leqb (classes lltb leqb pred truth) pred truth = ofNm (countsN lltb leqb pred truth).
Proof. intros L lltb leqb H pred truth Hn. apply (cm_count_f32_matrix lltb leqb H). exact Hn. Qed.

(** a quotient of two such integers computed in binary32 is the round-to-nearest-even of the real
    quotient, a finite number within 2^-24 (relative) of it *)
Theorem f32_quotient_correctly_rounded : forall a b : N, (a <= 16777216)%N -> (0 < b <= 16777216)%N ->
  let q := (IZR (Z.of_N a) / IZR (Z.of_N b))%R in
  let r := div B32_ops (of_N B32_ops a) (of_N B32_ops b) in
  R32 r = round radix2 (FLT_exp (-149) 24) ZnearestE q /\ (Rabs (R32 r - q) <= u32 * q)%R /\ is_finite_SF r = true.
Proof. intros a b Ha Hb. exact (f32_div_int a b Ha Hb). Qed.

(** accuracy of a matrix of integer counts with total n <= 2^24: trace and total are computed
    exactly, the score is the single division trace / n *)
Theorem accuracy_f32_single_rounding : forall M : list (list N), (totalN M <= 16777216)%N ->
  accuracy B32_ops (ofNm M) = div B32_ops (of_N B32_ops (traceN M)) (of_N B32_ops (totalN M)).
Proof. exact accuracy_ofNm. Qed.

(** binary precision / recall (of the first class, as documented): one exact addition of two cells
    and one division *)
Theorem precision_recall_f32_single_rounding : forall M : list (list N), length M = 2%nat -> (totalN M <= 16777216)%N ->
  precision B32_ops (ofNm M) = div B32_ops (of_N B32_ops (getN M 0 0)) (of_N B32_ops (getN M 0 0 + getN M 1 0)) /\
  recall B32_ops (ofNm M) = div B32_ops (of_N B32_ops (getN M 0 0)) (of_N B32_ops (getN M 0 0 + getN M 0 1)).
Proof. exact precision_recall_ofNm. Qed.

(** the one-vs-all splits of a matrix of integer counts with total <= 2^24 are exact: matrix i is
    [[m_ii, row_i - m_ii], [col_i - m_ii, total - row_i - col_i + m_ii]] as integers (all row / column
    sums and the four subtractions are exact) *)
Theorem one_vs_all_f32_exact : forall M : list (list N), (totalN M <= 16777216)%N ->
  split_one_vs_all B32_ops (ofNm M) = map ofNm (ovaN M).
Proof. exact ova_ofNm. Qed.

(** hence the macro-averaged precision / recall (class count other than two) sum quotients of
    exact integers: m_ii / (column sum i), m_ii / (row sum i) - each summand is one correctly
    rounded division (f32_quotient_correctly_rounded); the k - 1 additions of `Iterator::sum` and the
    final division by k round again (not bounded here) *)
Theorem precision_recall_f32_macro_summands : forall M : list (list N), length M <> 2%nat -> (totalN M <= 16777216)%N ->
  precision B32_ops (ofNm M) =
    div B32_ops (fsum B32_ops (map (fun i => div B32_ops (of_N B32_ops (getN M i i)) (of_N B32_ops (colN M i))) (seq 0 (length M))))
                (of_N B32_ops (N.of_nat (length M))) /\
  recall B32_ops (ofNm M) =
    div B32_ops (fsum B32_ops (map (fun i => div B32_ops (of_N B32_ops (getN M i i)) (of_N B32_ops (rowN M i))) (seq 0 (length M))))
                (of_N B32_ops (N.of_nat (length M))).
Proof. exact precision_recall_macro_ofNm. Qed.

(** f1_score() = f_score(1.0) of a binary matrix [[a, c], [b, _]] of counts with a >= 1 and
    a + b, a + c <= 2^24: the binary32 result of ((1 + 1*1) * (p * r)) / (1*1 * p + r), computed from
    the correctly rounded p = a / (a + b) and r = a / (a + c), is finite and within 8 * 2^-24
    (relative) of the real F1 = 2 P R / (P + R) of the exact quotients P, R - seven roundings, each
    a factor (1 + d), |d| <= 2^-24, no cancellation (Flocq relative_error_N_FLT_ex; the product
    bound is closed by the interval tactic) *)
Theorem f1_f32_binary_within_8_ulps : forall (a b c : N) (x : spec_float),
  (1 <= a)%N -> (a + b <= 16777216)%N -> (a + c <= 16777216)%N ->
  let P := (IZR (Z.of_N a) / IZR (Z.of_N (a + b)))%R in
  let Rc := (IZR (Z.of_N a) / IZR (Z.of_N (a + c)))%R in
  let F := fbeta_spec R_ops 1%R P Rc in
  let r := f_score B32_ops (one B32_ops) [[of_N B32_ops a; of_N B32_ops c]; [of_N B32_ops b; x]] in
  is_finite_SF r = true /\ (Rabs (R32 r - F) <= 8 * u32 * F)%R.
Proof. intros a b c x Ha Hab Hac. exact (f1_binary_bound a b c x Ha Hab Hac). Qed.

(** Matthews coefficient: with at most 4096 samples every product, addition and subtraction of the
    triple covariance loop and of the two variance loops is exact (all partial sums are integers of
    absolute value <= n^2 <= 2^24), so mcc() is cov / sqrt(cxx) / sqrt(cyy) evaluated with four
    correctly rounded binary32 operations on the exact integers
      cov = UN - VN  (= sum_klm m_kk m_lm - sum_klm m_kl m_mk = trace * total - sum_k row_k col_k),
      cxx = sum_k row_k (total - row_k),  cyy = sum_k col_k (total - col_k).
    Beyond 4096 samples the same holds whenever the four integer sums stay <= 2^24 (mcc_f32_exact_parts);
    otherwise products of counts are rounded and the subtraction can cancel: no binary32 theorem. *)
Theorem mcc_f32_exact_parts : forall M : list (list N),
  (totalN M <= 16777216)%N -> (UN M <= 16777216)%N -> (VN M <= 16777216)%N -> (CXX M <= 16777216)%N -> (CYY M <= 16777216)%N ->
  mcc B32_ops (ofNm M) =
  div B32_ops (div B32_ops (ofZ (Z.of_N (UN M) - Z.of_N (VN M))) (sqrt B32_ops (of_N B32_ops (CXX M))))
              (sqrt B32_ops (of_N B32_ops (CYY M))).
Proof. exact mcc_ofNm. Qed.

Theorem mcc_f32_exact_parts_4096 : forall M : list (list N), (totalN M <= 4096)%N ->
  mcc B32_ops (ofNm M) =
  div B32_ops (div B32_ops (ofZ (Z.of_N (UN M) - Z.of_N (VN M))) (sqrt B32_ops (of_N B32_ops (CXX M))))
              (sqrt B32_ops (of_N B32_ops (CYY M))).
Proof. exact mcc_ofNm_small. Qed.

(** hence, for at most 4096 samples and non-degenerate variances (cxx, cyy >= 1: neither the
    predictions nor the truths are all of one class), the binary32 MCC is finite and within 5 * 2^-24
    (relative) of cov / sqrt(cxx) / sqrt(cyy) over the reals - the value mcc_def proves equal to the
    textbook Matthews coefficient of the cells; it is exactly 0 when cov = 0 *)
Theorem mcc_f32_within_5_ulps : forall M : list (list N), (totalN M <= 4096)%N -> (1 <= CXX M)%N -> (1 <= CYY M)%N ->
  let F := (IZR (Z.of_N (UN M) - Z.of_N (VN M)) / R_sqrt.sqrt (IZR (Z.of_N (CXX M))) / R_sqrt.sqrt (IZR (Z.of_N (CYY M))))%R in
  is_finite_SF (mcc B32_ops (ofNm M)) = true /\ (Rabs (R32 (mcc B32_ops (ofNm M)) - F) <= 5 * u32 * Rabs F)%R.
Proof.
  intros M Ht Hx Hy F. rewrite (mcc_ofNm_small M Ht).
  assert (Hs : (totalN M * totalN M <= 16777216)%N) by nia.
  pose proof (UN_le M). pose proof (VN_le M). pose proof (CXX_le M). pose proof (CYY_le M).
  apply mcc_parts_bound; unfold B24; lia.
Qed.

(** binary precision / recall end to end on label vectors with exactly two classes and at most 2^24
    samples: the code returns the single binary32 quotient of the exact pair counts
    c00 / (c00 + c10) and c00 / (c00 + c01), c_ij = #(predicted class i, true class j), class 0 being
    the first class of the (reversed) binary order *)
Theorem precision_recall_f32_labels : forall (L : Type) (lltb leqb : L -> L -> bool), label_order lltb leqb ->
  forall (pred truth : list L) (d : L), (N.of_nat (length pred) <= 16777216)%N -> length pred = length truth ->
  let cs := classes lltb leqb pred truth in
  length cs = 2%nat ->
  let c i j := N.of_nat (count_pairs leqb (nth i cs d) (nth j cs d) pred truth) in
  let m := cm_count B32_ops leqb cs pred truth in
  precision B32_ops m = div B32_ops (of_N B32_ops (c 0%nat 0%nat)) (of_N B32_ops (c 0%nat 0%nat + c 1%nat 0%nat)%N) /\
  recall B32_ops m = div B32_ops (of_N B32_ops (c 0%nat 0%nat)) (of_N B32_ops (c 0%nat 0%nat + c 0%nat 1%nat)%N).
Proof.
  intros L lltb leqb H pred truth d Hn Hlen cs Hk c m.
  unfold m, cs. rewrite (cm_count_f32_matrix lltb leqb H pred truth Hn).
  assert (Hlm : length (countsN lltb leqb pred truth) = 2%nat) by (unfold countsN; rewrite map_length; exact Hk).
  assert (Ht : (totalN (countsN lltb leqb pred truth) <= B24)%N) by (rewrite (totalN_counts lltb leqb H) by exact Hlen; exact Hn).
  destruct (precision_recall_ofNm _ Hlm Ht) as [Ep Er]. rewrite Ep, Er.
  rewrite !(getN_counts lltb leqb pred truth _ _ d) by (fold cs; rewrite Hk; lia).
  split; reflexivity.
Qed.

(** end to end: for label vectors of equal length n, 0 < n <= 2^24, the binary32 accuracy the code
    returns is the correctly rounded fraction of equal labels: round-to-nearest-even of
    (number of equal labels) / n, within 2^-24 relative of it - i.e. of the value the
    real-arithmetic theorem accuracy_is_fraction_equal gives *)
Theorem accuracy_f32_labels : forall (L : Type) (lltb leqb : L -> L -> bool), label_order lltb leqb ->
  forall pred truth : list L, length pred = length truth -> (0 < length pred)%nat ->
  (N.of_nat (length pred) <= 16777216)%N ->
  let acc := accuracy B32_ops (cm_count B32_ops leqb (classes lltb leqb pred truth) pred truth) in
  let q := (INR (count_eq leqb pred truth) / INR (length pred))%R in
  R32 acc = round radix2 (FLT_exp (-149) 24) ZnearestE q /\ (Rabs (R32 acc - q) <= u32 * q)%R /\ is_finite_SF acc = true.
Proof.
  intros L lltb leqb H pred truth Hlen Hpos Hn acc q.
  assert (Ht : totalN (countsN lltb leqb pred truth) = N.of_nat (length pred)) by (apply totalN_counts; auto).
  assert (Hd : traceN (countsN lltb leqb pred truth) = N.of_nat (count_eq leqb pred truth)) by (apply traceN_counts; auto).
  unfold acc. rewrite (cm_count_f32_matrix lltb leqb H pred truth Hn).
  rewrite accuracy_ofNm by (rewrite Ht; exact Hn). rewrite Ht, Hd.
  assert (Eq : q = (IZR (Z.of_N (N.of_nat (count_eq leqb pred truth))) / IZR (Z.of_N (N.of_nat (length pred))))%R).
  { unfold q. rewrite !nat_N_Z, <- !INR_IZR_INZ. reflexivity. }
  rewrite Eq. apply f32_div_int.
  - pose proof (traceN_le_totalN (countsN lltb leqb pred truth)) as Hle. rewrite Ht, Hd in Hle. unfold B24. lia.
  - unfold B24. lia.
Qed.

(** non-vacuity examples: F32Scores.ex_accuracy_f32_labels (2 of 3 labels equal: the binary32 number nearest
    to 2/3), F32Fscore.ex_f1_f32_binary (F1 = 2/3), F32Mcc.ex_mcc_ints (a 3-class matrix, cov = 25, cxx = cyy = 52) *)
