(** C05 - the binary32 Matthews coefficient of a matrix of integer counts: when the two triple
    sums of the covariance loop and the two variance sums stay below 2^24 (in particular for at most
    4096 samples) every product, addition and subtraction of `mcc()` is exact, so the score is
    cov / sqrt(cxx) / sqrt(cyy) evaluated with four correctly rounded operations (two square roots,
    two divisions) on exact integers. *)
From Coq Require Import List NArith ZArith Bool Lia Reals Lra SpecFloat.
From Flocq Require Import Core.Core IEEE754.BinarySingleNaN.
From LinfaVerif Require Import Common.Num Common.NdSum Common.B32 C05.Model C05.F32Exact C05.Proofs C05.F32Scores C05.F32Fscore.
Import ListNotations.

Local Existing Instance Hprec32.
Local Existing Instance Hmax32.
Local Notation bf32 := (binary_float p32 e32).
Local Notation fexp32 := (SpecFloat.fexp p32 e32).
Local Notation rnd32 := (round radix2 fexp32 (round_mode mode_NE)).

(** * Signed integers up to 2^24 in absolute value *)
Definition ofZ (z : Z) : spec_float := b32_of_Z z.
Definition Bz (z : Z) : bf32 := binary_normalize p32 e32 Hprec32 Hmax32 mode_NE z 0 false.

Lemma ofZ_Bz z : ofZ z = B2SF (Bz z).
Proof.
  unfold ofZ, Bz, b32_of_Z. destruct z as [|p|p]; [reflexivity | apply binary_normalize_equiv32 |].
  rewrite binary_normalize_equiv32. reflexivity.
Qed.

Lemma ofZ_of_N (n : N) : of_N B32_ops n = ofZ (Z.of_N n).
Proof. reflexivity. Qed.

Lemma Bz_correct z : (Z.abs z <= 16777216)%Z ->
  B2R (Bz z) = IZR z /\ is_finite (Bz z) = true /\ Bsign (Bz z) = (z <? 0)%Z.
Proof.
  intros Hz.
  generalize (binary_normalize_correct p32 e32 Hprec32 Hmax32 mode_NE z 0 false).
  fold (Bz z). cbv zeta.
  replace (F2R (Float radix2 z 0)) with (IZR z) by (unfold F2R; simpl; lra).
  rewrite (int_round' _ Hz), (int_small' _ Hz). intros (H1 & H2 & H3). repeat split; auto.
  rewrite H3. destruct (Rcompare_spec (IZR z) 0) as [H|H|H].
  - apply lt_IZR in H. symmetry. apply Z.ltb_lt. exact H.
  - apply eq_IZR in H. subst z. reflexivity.
  - apply lt_IZR in H. symmetry. apply Z.ltb_ge. lia.
Qed.

Lemma f32_addZ (x y : Z) : (Z.abs x <= 16777216)%Z -> (Z.abs y <= 16777216)%Z -> (Z.abs (x + y) <= 16777216)%Z ->
  add B32_ops (ofZ x) (ofZ y) = ofZ (x + y).
Proof.
  intros Hx Hy Hs. rewrite !ofZ_Bz. change (add B32_ops) with (SFadd p32 e32). rewrite SFadd_equiv32. f_equal.
  destruct (Bz_correct x Hx) as (X1 & X2 & X3). destruct (Bz_correct y Hy) as (Y1 & Y2 & Y3).
  destruct (Bz_correct (x + y) Hs) as (S1 & S2 & S3).
  generalize (Bplus_correct p32 e32 Hprec32 Hmax32 mode_NE (Bz x) (Bz y) X2 Y2).
  rewrite X1, Y1, <- plus_IZR. rewrite (int_round' _ Hs), (int_small' _ Hs). intros (P1 & P2 & P3).
  apply B2R_Bsign_inj; auto; [congruence|]. rewrite P3, S3, X3, Y3.
  destruct (Rcompare_spec (IZR (x + y)) 0) as [C|C|C].
  - apply lt_IZR in C. symmetry. apply Z.ltb_lt. exact C.
  - apply eq_IZR in C. rewrite C. destruct (x <? 0)%Z eqn:E1, (y <? 0)%Z eqn:E2; try reflexivity.
    apply Z.ltb_lt in E1. apply Z.ltb_lt in E2. lia.
  - apply lt_IZR in C. symmetry. apply Z.ltb_ge. lia.
Qed.

Lemma f32_subZ (x y : Z) : (Z.abs x <= 16777216)%Z -> (Z.abs y <= 16777216)%Z -> (Z.abs (x - y) <= 16777216)%Z ->
  sub B32_ops (ofZ x) (ofZ y) = ofZ (x - y).
Proof.
  intros Hx Hy Hs. rewrite !ofZ_Bz. change (sub B32_ops) with (SFsub p32 e32). rewrite SFsub_equiv32. f_equal.
  destruct (Bz_correct x Hx) as (X1 & X2 & X3). destruct (Bz_correct y Hy) as (Y1 & Y2 & Y3).
  destruct (Bz_correct (x - y) Hs) as (S1 & S2 & S3).
  generalize (Bminus_correct p32 e32 Hprec32 Hmax32 mode_NE (Bz x) (Bz y) X2 Y2).
  rewrite X1, Y1, <- minus_IZR. rewrite (int_round' _ Hs), (int_small' _ Hs). intros (P1 & P2 & P3).
  apply B2R_Bsign_inj; auto; [congruence|]. rewrite P3, S3, X3, Y3.
  destruct (Rcompare_spec (IZR (x - y)) 0) as [C|C|C].
  - apply lt_IZR in C. symmetry. apply Z.ltb_lt. exact C.
  - apply eq_IZR in C. rewrite C. assert (x = y) by lia. subst y. destruct (x <? 0)%Z; reflexivity.
  - apply lt_IZR in C. symmetry. apply Z.ltb_ge. lia.
Qed.

Lemma f32_mulN (a b : N) : (a <= B24)%N -> (b <= B24)%N -> (a * b <= B24)%N ->
  mul B32_ops (of_N B32_ops a) (of_N B32_ops b) = of_N B32_ops (a * b).
Proof.
  unfold B24. intros Ha Hb H.
  rewrite !of_N_Bnat. change (mul B32_ops) with (SFmul p32 e32). rewrite SFmul_equiv32. f_equal.
  destruct (Bnat_correct' a Ha) as (A1 & A2 & A3). destruct (Bnat_correct' b Hb) as (B1 & B2 & B3).
  destruct (Bnat_correct' (a * b) H) as (S1 & S2 & S3).
  generalize (Bmult_correct p32 e32 Hprec32 Hmax32 mode_NE (Bnat a) (Bnat b)).
  rewrite A1, B1, <- mult_IZR. replace (Z.of_N a * Z.of_N b)%Z with (Z.of_N (a * b)) by lia.
  assert (Hz : (Z.abs (Z.of_N (a * b)) <= 16777216)%Z) by lia.
  rewrite (int_round' _ Hz), (int_small' _ Hz). intros (P1 & P2 & P3).
  assert (Fin : is_finite (Bmult mode_NE (Bnat a) (Bnat b)) = true) by (rewrite P2, A2, B2; reflexivity).
  apply B2R_Bsign_inj; auto; [congruence|]. rewrite S3, P3; [rewrite A3, B3; reflexivity|].
  destruct (Bmult mode_NE (Bnat a) (Bnat b)); try reflexivity; discriminate.
Qed.

(** * The covariance loop: acc := (acc + a * b) - c * d over a list of integer quadruples *)
Definition step4 : Type := (N * N * N * N)%type.
Definition st_u (t : step4) : N := let '(a, b, _, _) := t in (a * b)%N.
Definition st_v (t : step4) : N := let '(_, _, c, d) := t in (c * d)%N.
Definition st_ok (t : step4) : Prop := let '(a, b, c, d) := t in (a <= B24 /\ b <= B24 /\ c <= B24 /\ d <= B24)%N.
Definition body (acc : spec_float) (t : step4) : spec_float :=
  let '(a, b, c, d) := t in
  sub B32_ops (add B32_ops acc (mul B32_ops (of_N B32_ops a) (of_N B32_ops b)))
              (mul B32_ops (of_N B32_ops c) (of_N B32_ops d)).

Lemma fold_body (steps : list step4) : Forall st_ok steps -> forall U V : N,
  (U + Nsum (map st_u steps) <= B24)%N -> (V + Nsum (map st_v steps) <= B24)%N ->
  fold_left body steps (ofZ (Z.of_N U - Z.of_N V)) =
  ofZ (Z.of_N (U + Nsum (map st_u steps)) - Z.of_N (V + Nsum (map st_v steps))).
Proof.
  induction steps as [|t steps IH]; intros Hok U V HU HV.
  - simpl. rewrite !N.add_0_r. reflexivity.
  - inversion Hok as [|? ? Ht Hrest]; subst. destruct t as [[[a b] c] d]. destruct Ht as (Ha & Hb & Hc & Hd).
    cbn [map Nsum fold_right st_u st_v] in HU, HV. fold (Nsum (map st_u steps)) in HU. fold (Nsum (map st_v steps)) in HV.
    cbn [fold_left body]. unfold B24 in *.
    rewrite (f32_mulN a b) by (unfold B24; lia). rewrite (f32_mulN c d) by (unfold B24; lia).
    rewrite !ofZ_of_N.
    rewrite f32_addZ by lia. rewrite f32_subZ by lia.
    replace (Z.of_N U - Z.of_N V + Z.of_N (a * b) - Z.of_N (c * d))%Z with (Z.of_N (U + a * b) - Z.of_N (V + c * d))%Z by lia.
    rewrite IH; [| exact Hrest | lia | lia].
    cbn [map Nsum fold_right st_u st_v]. fold (Nsum (map st_u steps)). fold (Nsum (map st_v steps)).
    f_equal. lia.
Qed.

Lemma fold_left_ext {A B} (f g : A -> B -> A) l : (forall a x, In x l -> f a x = g a x) ->
  forall a, fold_left f l a = fold_left g l a.
Proof.
  induction l as [|x l IH]; intros H a; [reflexivity|]. simpl. rewrite H by (left; reflexivity).
  apply IH. intros a' y Hy. apply H. right. exact Hy.
Qed.

Lemma fold_left_flat_map {A B C} (f : A -> C -> A) (g : B -> list C) l : forall a,
  fold_left f (flat_map g l) a = fold_left (fun a x => fold_left f (g x) a) l a.
Proof. induction l as [|x l IH]; intros a; [reflexivity|]. simpl. rewrite fold_left_app. apply IH. Qed.

Lemma fold_left_map {A B C} (f : A -> C -> A) (g : B -> C) l : forall a,
  fold_left f (map g l) a = fold_left (fun a x => f a (g x)) l a.
Proof. induction l as [|x l IH]; intros a; [reflexivity|]. simpl. apply IH. Qed.

Definition stepof (M : list (list N)) (k l mm : nat) : step4 := (getN M k k, getN M l mm, getN M k l, getN M mm k).
Definition steps (M : list (list N)) : list step4 :=
  let idx := seq 0 (length M) in
  flat_map (fun k => flat_map (fun l => map (stepof M k l) idx) idx) idx.
Definition UN (M : list (list N)) : N := Nsum (map st_u (steps M)).
Definition VN (M : list (list N)) : N := Nsum (map st_v (steps M)).

Lemma mcc_cov_xy_steps M : mcc_cov_xy B32_ops (ofNm M) = fold_left body (steps M) (zero B32_ops).
Proof.
  unfold mcc_cov_xy, steps.
  assert (Hl : length (ofNm M) = length M) by (unfold ofNm; apply map_length). rewrite Hl.
  set (idx := seq 0 (length M)).
  rewrite fold_left_flat_map. apply fold_left_ext. intros a k _.
  rewrite fold_left_flat_map. apply fold_left_ext. intros a' l _.
  rewrite fold_left_map. apply fold_left_ext. intros a'' mm _.
  unfold body, stepof. rewrite !get_ofNm. reflexivity.
Qed.

Lemma getN_le_total M i j : (getN M i j <= totalN M)%N.
Proof.
  apply N.le_trans with (rowN M i); [unfold getN, rowN; apply nth_le_Nsum | apply rowN_le_total].
Qed.

Lemma steps_ok M : (totalN M <= B24)%N -> Forall st_ok (steps M).
Proof.
  intros Ht. apply Forall_forall. intros t Hin. unfold steps in Hin.
  apply in_flat_map in Hin. destruct Hin as (k & _ & Hin).
  apply in_flat_map in Hin. destruct Hin as (l & _ & Hin).
  apply in_map_iff in Hin. destruct Hin as (mm & E & _). subst t. unfold stepof, st_ok.
  pose proof (getN_le_total M k k). pose proof (getN_le_total M l mm).
  pose proof (getN_le_total M k l). pose proof (getN_le_total M mm k). lia.
Qed.

Lemma mcc_cov_xy_int M : (totalN M <= B24)%N -> (UN M <= B24)%N -> (VN M <= B24)%N ->
  mcc_cov_xy B32_ops (ofNm M) = ofZ (Z.of_N (UN M) - Z.of_N (VN M)).
Proof.
  intros Ht HU HV. rewrite mcc_cov_xy_steps.
  change (zero B32_ops) with (ofZ (Z.of_N 0 - Z.of_N 0)).
  rewrite (fold_body (steps M) (steps_ok M Ht) 0 0); [reflexivity | exact HU | exact HV].
Qed.

(** * The variance sums: acc := acc + x * (s - x) *)
Definition varN (s : N) (v : list N) : N := Nsum (map (fun x => x * (s - x))%N v).

Lemma mcc_cov_int (s : N) (v : list N) : (s <= B24)%N -> Forall (fun x => (x <= s)%N) v ->
  forall a, (a + varN s v <= B24)%N ->
  fold_left (fun acc x => add B32_ops acc (mul B32_ops x (sub B32_ops (of_N B32_ops s) x))) (ofNs v) (of_N B32_ops a)
  = of_N B32_ops (a + varN s v).
Proof.
  intros Hs. induction v as [|x v IH]; intros Hv a Ha.
  - simpl. unfold varN. simpl. rewrite N.add_0_r. reflexivity.
  - inversion Hv as [|? ? Hx Hrest]; subst.
    unfold varN in Ha. cbn [map Nsum fold_right] in Ha. fold (Nsum (map (fun x => x * (s - x))%N v)) in Ha. fold (varN s v) in Ha.
    cbn [ofNs map fold_left]. fold (ofNs v).
    rewrite f32_sub_int by lia.
    assert (Hq : (s - x <= B24)%N) by lia.
    assert (Ev : varN s (x :: v) = (x * (s - x) + varN s v)%N) by reflexivity. rewrite Ev.
    set (q := (s - x)%N) in *. clearbody q.
    rewrite f32_mulN by lia. rewrite f32_add_int by lia.
    rewrite IH; [| exact Hrest | lia].
    f_equal. lia.
Qed.

Definition CXX (M : list (list N)) : N := varN (totalN M) (map Nsum M).
Definition CYY (M : list (list N)) : N := varN (totalN M) (map (colN M) (seq 0 (length M))).

Lemma In_row_le_total M r : In r M -> (Nsum r <= totalN M)%N.
Proof.
  unfold totalN. induction M as [|r0 M IH]; intros H; [contradiction|].
  simpl. rewrite Nsum_app. destruct H as [->|H]; [lia|]. specialize (IH H). lia.
Qed.

Lemma sum_over_rows_ofNm M : (totalN M <= B24)%N -> sum_over_rows B32_ops (ofNm M) = ofNs (map Nsum M).
Proof.
  intros Ht. unfold sum_over_rows, ofNm, ofNs. rewrite !map_map. apply map_ext_in. intros r Hr.
  apply csum_int. pose proof (In_row_le_total M r Hr). lia.
Qed.

Lemma sum_over_cols_ofNm M : (totalN M <= B24)%N ->
  sum_over_cols B32_ops (ofNm M) = ofNs (map (colN M) (seq 0 (length M))).
Proof.
  intros Ht. unfold sum_over_cols.
  assert (Hl : length (ofNm M) = length M) by (unfold ofNm; apply map_length). rewrite Hl.
  unfold ofNs. rewrite map_map. apply map_ext. intros j. rewrite col_ofNm.
  apply seq_sum_int. pose proof (colN_le_total M j). fold (colN M j). lia.
Qed.

Theorem mcc_ofNm M : (totalN M <= B24)%N -> (UN M <= B24)%N -> (VN M <= B24)%N -> (CXX M <= B24)%N -> (CYY M <= B24)%N ->
  mcc B32_ops (ofNm M) =
  div B32_ops (div B32_ops (ofZ (Z.of_N (UN M) - Z.of_N (VN M))) (sqrt B32_ops (of_N B32_ops (CXX M))))
              (sqrt B32_ops (of_N B32_ops (CYY M))).
Proof.
  intros Ht HU HV HX HY. unfold mcc. rewrite msum_ofNm by exact Ht.
  rewrite mcc_cov_xy_int by assumption.
  rewrite sum_over_rows_ofNm, sum_over_cols_ofNm by exact Ht.
  unfold mcc_cov. change (zero B32_ops) with (of_N B32_ops 0).
  rewrite (mcc_cov_int (totalN M) (map Nsum M) Ht); [| | exact HX].
  - rewrite (mcc_cov_int (totalN M) (map (colN M) (seq 0 (length M))) Ht); [reflexivity | | exact HY].
    apply Forall_forall. intros x Hx. apply in_map_iff in Hx. destruct Hx as (j & <- & _). apply colN_le_total.
  - apply Forall_forall. intros x Hx. apply in_map_iff in Hx. destruct Hx as (r & <- & Hr). apply In_row_le_total. exact Hr.
Qed.

(** * At most 4096 samples: all four integer sums are at most total^2 <= 2^24 *)
Lemma Nsum_flat_map {A B} (g : B -> N) (h : A -> list B) l :
  Nsum (map g (flat_map h l)) = Nsum (map (fun x => Nsum (map g (h x))) l).
Proof. induction l as [|x l IH]; [reflexivity|]. simpl. rewrite map_app, Nsum_app, IH. reflexivity. Qed.

Lemma Nsum_map_mul_l {A} (c : N) (f : A -> N) l : Nsum (map (fun x => c * f x)%N l) = (c * Nsum (map f l))%N.
Proof. induction l as [|x l IH]; simpl; [lia|]. fold (Nsum (map (fun x => c * f x)%N l)). fold (Nsum (map f l)). rewrite IH. lia. Qed.

Lemma Nsum_map_mul_r {A} (c : N) (f : A -> N) l : Nsum (map (fun x => f x * c)%N l) = (Nsum (map f l) * c)%N.
Proof. induction l as [|x l IH]; simpl; [lia|]. fold (Nsum (map (fun x => f x * c)%N l)). fold (Nsum (map f l)). rewrite IH. lia. Qed.

Lemma Nsum_map_ext {A} (f g : A -> N) l : (forall x, In x l -> f x = g x) -> Nsum (map f l) = Nsum (map g l).
Proof. intros H. f_equal. apply map_ext_in. exact H. Qed.

Lemma Nsum_map_add {A} (f g : A -> N) l : Nsum (map (fun x => f x + g x)%N l) = (Nsum (map f l) + Nsum (map g l))%N.
Proof.
  induction l as [|x l IH]; simpl; [lia|].
  fold (Nsum (map (fun x => f x + g x)%N l)). fold (Nsum (map f l)). fold (Nsum (map g l)). rewrite IH. lia.
Qed.

Lemma Nsum_zero {A} (l : list A) : Nsum (map (fun _ => 0%N) l) = 0%N.
Proof. induction l; simpl; auto. Qed.

Lemma Nsum_swap {A B} (f : A -> B -> N) la lb :
  Nsum (map (fun a => Nsum (map (fun b => f a b) lb)) la) = Nsum (map (fun b => Nsum (map (fun a => f a b) la)) lb).
Proof.
  induction la as [|a la IH]; simpl.
  - rewrite Nsum_zero. reflexivity.
  - fold (Nsum (map (fun a0 => Nsum (map (fun b => f a0 b) lb)) la)). rewrite IH.
    rewrite <- Nsum_map_add. apply Nsum_map_ext. intros b _. reflexivity.
Qed.

Lemma prefix_le (r : list N) : forall k, (Nsum (map (fun j => nth j r 0%N) (seq 0 k)) <= Nsum r)%N.
Proof.
  induction r as [|x r IH]; intros k.
  - rewrite (Nsum_map_ext _ (fun _ => 0%N)); [rewrite Nsum_zero; simpl; lia|]. intros [|j] _; reflexivity.
  - destruct k as [|k]; [simpl; lia|].
    cbn [seq map Nsum fold_right nth]. rewrite <- seq_shift, map_map.
    specialize (IH k). cbn [nth]. fold (Nsum (map (fun j => nth j r 0%N) (seq 0 k))). fold (Nsum r). lia.
Qed.

Section Small.
Variable M : list (list N).
Let idx := seq 0 (length M).
Let s := totalN M.

Lemma rows_sum_total : Nsum (map (rowN M) idx) = s.
Proof.
  unfold idx, s, totalN, rowN. rewrite Nsum_concat. f_equal.
  apply (map_seq_nth Nsum M []).
Qed.

Lemma S2_le_total : (Nsum (map (fun l => Nsum (map (fun mm => getN M l mm) idx)) idx) <= s)%N.
Proof.
  rewrite <- rows_sum_total. apply Nsum_map_le. intros l _. unfold getN, rowN. apply prefix_le.
Qed.

Lemma trace_le_total' : (Nsum (map (fun k => getN M k k) idx) <= s)%N.
Proof. exact (traceN_le_totalN M). Qed.

Lemma UN_eq : UN M = (Nsum (map (fun k => getN M k k) idx) * Nsum (map (fun l => Nsum (map (fun mm => getN M l mm) idx)) idx))%N.
Proof.
  unfold UN, steps. fold idx. rewrite Nsum_flat_map.
  rewrite <- Nsum_map_mul_r. apply Nsum_map_ext. intros k _.
  rewrite Nsum_flat_map. rewrite <- Nsum_map_mul_l. apply Nsum_map_ext. intros l _.
  rewrite map_map. rewrite <- Nsum_map_mul_l. apply Nsum_map_ext. intros mm _. reflexivity.
Qed.

Lemma VN_eq : VN M = Nsum (map (fun k => Nsum (map (fun l => getN M k l) idx) * Nsum (map (fun mm => getN M mm k) idx))%N idx).
Proof.
  unfold VN, steps. fold idx. rewrite Nsum_flat_map. apply Nsum_map_ext. intros k _.
  rewrite Nsum_flat_map. rewrite <- Nsum_map_mul_r. apply Nsum_map_ext. intros l _.
  rewrite map_map. rewrite <- Nsum_map_mul_l. apply Nsum_map_ext. intros mm _. reflexivity.
Qed.

Lemma col_prefix k : Nsum (map (fun mm => getN M mm k) idx) = colN M k.
Proof. unfold idx, getN, colN. f_equal. apply (map_seq_nth (fun r => nth k r 0%N) M []). Qed.

Lemma UN_le : (UN M <= s * s)%N.
Proof. rewrite UN_eq. pose proof S2_le_total. pose proof trace_le_total'. nia. Qed.

Lemma VN_le : (VN M <= s * s)%N.
Proof.
  rewrite VN_eq. apply N.le_trans with (Nsum (map (fun k => rowN M k * s)%N idx)).
  - apply Nsum_map_le. intros k _. rewrite col_prefix.
    assert (Nsum (map (fun l => getN M k l) idx) <= rowN M k)%N by (unfold getN, rowN; apply prefix_le).
    pose proof (colN_le_total M k). fold s in H0. nia.
  - rewrite Nsum_map_mul_r, rows_sum_total. lia.
Qed.

Lemma varN_le (v : list N) : (varN s v <= s * Nsum v)%N.
Proof.
  unfold varN. induction v as [|x v IH]; simpl; [lia|].
  fold (Nsum (map (fun x => x * (s - x))%N v)). fold (Nsum v). nia.
Qed.

Lemma CXX_le : (CXX M <= s * s)%N.
Proof.
  unfold CXX. fold s. apply N.le_trans with (1 := varN_le _).
  replace (Nsum (map Nsum M)) with s; [lia|]. unfold s, totalN. apply Nsum_concat.
Qed.

Lemma cols_sum_le : (Nsum (map (colN M) idx) <= s)%N.
Proof.
  unfold colN. rewrite Nsum_swap. unfold s, totalN. rewrite Nsum_concat.
  apply Nsum_map_le. intros r _. apply prefix_le.
Qed.

Lemma CYY_le : (CYY M <= s * s)%N.
Proof.
  unfold CYY. fold s idx. apply N.le_trans with (1 := varN_le _). pose proof cols_sum_le. nia.
Qed.
End Small.

Theorem mcc_ofNm_small M : (totalN M <= 4096)%N ->
  mcc B32_ops (ofNm M) =
  div B32_ops (div B32_ops (ofZ (Z.of_N (UN M) - Z.of_N (VN M))) (sqrt B32_ops (of_N B32_ops (CXX M))))
              (sqrt B32_ops (of_N B32_ops (CYY M))).
Proof.
  intros Ht.
  assert (Hs : (totalN M * totalN M <= B24)%N) by (unfold B24; nia).
  pose proof (UN_le M). pose proof (VN_le M). pose proof (CXX_le M). pose proof (CYY_le M).
  apply mcc_ofNm; unfold B24 in *; lia.
Qed.

(** non-vacuity: a 3-class matrix with 9 samples; the exact integers are cov = 54 - 29 = 25, cxx = cyy = 52 *)
Example ex_mcc_ints :
  let M := [[2; 1; 0]; [0; 3; 1]; [1; 0; 1]]%N in
  (totalN M = 9 /\ UN M = 54 /\ VN M = 29 /\ CXX M = 52 /\ CYY M = 52)%N /\
  mcc B32_ops (ofNm M) = div B32_ops (div B32_ops (ofZ 25) (sqrt B32_ops (of_N B32_ops 52))) (sqrt B32_ops (of_N B32_ops 52)).
Proof. split; [vm_compute; repeat split; reflexivity|]. apply (mcc_ofNm_small [[2; 1; 0]; [0; 3; 1]; [1; 0; 1]]%N). vm_compute. discriminate. Qed.
