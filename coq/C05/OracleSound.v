(** C05 - the property oracle of C05/Corr.v is sound (pattern B on top of pattern A): whenever the
    Coq-evaluated oracle accepts the outputs the implementation produced for an input, those
    outputs satisfy the Prop-level specification over the reals for THAT input -
      - confusion matrix: the members are the classes of the two label vectors, every cell is the
        number of (predicted, true) pairs of its two classes, accuracy is the fraction of equal labels;
      - area under the curve: within (n + 8) * 2^-24 (relative) of the real-arithmetic value of the
        model, which is the Mann-Whitney statistic of the grouped scores (C05/AucGroups.v);
      - regression scores: within the stated tolerances of the textbook formulas over R evaluated
        on the real values of the binary64 inputs.
    The oracle computes in exact rational arithmetic (Q_ops, with Qred normalisation); the first
    part shows that this arithmetic is the real one seen through Q2R. *)
From Coq Require Import List NArith ZArith QArith Qreals Reals Bool Lra Lia Permutation Sorted Floats SpecFloat.
From LinfaVerif Require Import Common.Num Common.NdSum Common.Run Common.B32 Common.QF C05.Model C05.Corr C05.Proofs C05.AucGroups.
Import ListNotations.
Local Open Scope R_scope.

(** * Flags *)
Lemma flag_zero b code : flag b code = 0%N -> code <> 0%N -> b = true.
Proof. destruct b; simpl; congruence. Qed.

(** * Exact rationals and their real values: Q_ops is R_ops seen through Q2R *)
Lemma Q2R_Qred q : Q2R (Qred q) = Q2R q.
Proof. apply Qeq_eqR, Qred_correct. Qed.
Lemma Q2R_inject_Z z : Q2R (inject_Z z) = IZR z.
Proof. unfold Q2R, inject_Z. simpl. field. Qed.
Lemma Q2R_qn n : Q2R (qn n) = INR n.
Proof. unfold qn. rewrite Q2R_inject_Z. symmetry. apply INR_IZR_INZ. Qed.
Lemma Q2R_nonzero q : Q2R q <> 0 -> ~ (q == 0)%Q.
Proof. intros H E. apply H. rewrite (Qeq_eqR _ _ E). apply RMicromega.Q2R_0. Qed.

Lemma Qltb_Rltb a b : Qltb a b = Rltb (Q2R a) (Q2R b).
Proof.
  unfold Qltb. destruct (Qle_bool b a) eqn:E; simpl; symmetry.
  - apply Rltb_false. apply Qle_Rle. apply Qle_bool_iff. exact E.
  - apply Rltb_true. apply Qlt_Rlt. apply Qnot_le_lt. intros C. apply Qle_bool_iff in C. congruence.
Qed.
Lemma Qleb_Rleb a b : Qleb a b = Rleb (Q2R a) (Q2R b).
Proof.
  unfold Qleb. destruct (Qle_bool a b) eqn:E; symmetry.
  - apply Rleb_true. apply Qle_Rle. apply Qle_bool_iff. exact E.
  - apply Rleb_false. apply Qlt_Rlt. apply Qnot_le_lt. intros C. apply Qle_bool_iff in C. congruence.
Qed.
Lemma Qeqb_Reqb a b : Qeq_bool a b = Reqb (Q2R a) (Q2R b).
Proof.
  destruct (Qeq_bool a b) eqn:E; symmetry.
  - apply Reqb_true. apply Qeq_eqR. apply Qeq_bool_iff. exact E.
  - destruct (Reqb (Q2R a) (Q2R b)) eqn:E2; auto. apply Reqb_true in E2. apply eqR_Qeq in E2.
    apply Qeq_bool_iff in E2. congruence.
Qed.

Lemma Q2R_add a b : Q2R (add oQ a b) = Q2R a + Q2R b.
Proof. change (add oQ a b) with (Qred (a + b)). rewrite Q2R_Qred. apply Q2R_plus. Qed.
Lemma Q2R_sub a b : Q2R (sub oQ a b) = Q2R a - Q2R b.
Proof. change (sub oQ a b) with (Qred (a - b)). rewrite Q2R_Qred. apply Q2R_minus. Qed.
Lemma Q2R_mul a b : Q2R (mul oQ a b) = Q2R a * Q2R b.
Proof. change (mul oQ a b) with (Qred (a * b)). rewrite Q2R_Qred. apply Q2R_mult. Qed.
Lemma Q2R_div a b : Q2R b <> 0 -> Q2R (div oQ a b) = Q2R a / Q2R b.
Proof. intros H. change (div oQ a b) with (Qred (a / b)). rewrite Q2R_Qred. apply Q2R_div. apply Q2R_nonzero, H. Qed.
Lemma Q2R_abs a : Q2R (abs oQ a) = Rabs (Q2R a).
Proof. apply Qabs'_R. Qed.
Lemma Q2R_ofn n : Q2R (ofn oQ n) = INR n.
Proof. unfold ofn. change (of_N oQ (N.of_nat n)) with (inject_Z (Z.of_N (N.of_nat n))). rewrite Q2R_inject_Z, nat_N_Z. symmetry. apply INR_IZR_INZ. Qed.
Lemma Q2R_zero : Q2R (zero oQ) = 0.
Proof. apply RMicromega.Q2R_0. Qed.
Lemma Q2R_one : Q2R (one oQ) = 1.
Proof. apply RMicromega.Q2R_1. Qed.

Lemma Q2R_sum_s l : Q2R (sum_s oQ l) = sum_s R_ops (map Q2R l).
Proof. induction l as [|a l IH]; [apply Q2R_zero|]. cbn [sum_s fold_right map]. fold (sum_s oQ l). fold (sum_s R_ops (map Q2R l)). rewrite Q2R_add, IH. reflexivity. Qed.

(** * closeQ *)
Lemma closeQ_sound rel abs_ v nan s : closeQ rel abs_ (Some v) nan (Some s) = true ->
  Rabs (Q2R v - Q2R s) <= Q2R rel * Rabs (Q2R s) + Q2R abs_.
Proof.
  unfold closeQ, Qabs_. intros H. apply Qleb_R in H.
  rewrite Qabs'_R, Q2R_minus, Q2R_plus, Q2R_mult, Qabs'_R in H. exact H.
Qed.
Lemma closeQ_some rel abs_ impl nan s : closeQ rel abs_ impl nan (Some s) = true ->
  exists v, impl = Some v /\ Rabs (Q2R v - Q2R s) <= Q2R rel * Rabs (Q2R s) + Q2R abs_.
Proof.
  destruct impl as [v|]; [|simpl; discriminate]. intros H. exists v. split; [reflexivity|]. eapply closeQ_sound, H.
Qed.

(** * ROC / AUC: the rational computation of the oracle is the real one *)
Local Notation scoredQ := (@scored Q).
Local Notation scoredR := (@scored R).
Definition sR (p : scoredQ) : scoredR := (Q2R (fst p), snd p).
Definition mapR (l : list scoredQ) : list scoredR := map sR l.

Lemma ins_sc_R p l : mapR (ins_sc oQ p l) = ins_sc R_ops (sR p) (mapR l).
Proof.
  induction l as [|q l IH]; [reflexivity|]. cbn [ins_sc mapR map]. cbn [ltb oQ Q_ops R_ops sR fst].
  rewrite Qltb_Rltb. destruct (Rltb (Q2R (fst p)) (Q2R (fst q))); [reflexivity|].
  cbn [map]. fold (mapR (ins_sc oQ p l)). rewrite IH. reflexivity.
Qed.
Lemma sort_sc_R l : mapR (sort_sc oQ l) = sort_sc R_ops (mapR l).
Proof.
  induction l as [|p l IH]; [reflexivity|]. cbn [sort_sc fold_right mapR map].
  fold (sort_sc oQ l). fold (mapR l). fold (sort_sc R_ops (mapR l)). rewrite ins_sc_R, IH. reflexivity.
Qed.
Lemma kept_R l : mapR (filter (fun p : scoredQ => leb oQ (zero oQ) (fst p)) l) = kept (mapR l).
Proof.
  unfold kept. induction l as [|p l IH]; [reflexivity|]. cbn [filter mapR map]. cbn [leb oQ Q_ops sR fst].
  rewrite Qleb_Rleb, Q2R_zero. destruct (Rleb 0 (Q2R (fst p))); cbn [map]; fold (mapR l); rewrite <- IH; reflexivity.
Qed.
Lemma roc_prepare_R l : mapR (roc_prepare oQ l) = sort_sc R_ops (kept (mapR l)).
Proof. unfold roc_prepare. rewrite sort_sc_R, kept_R. reflexivity. Qed.

Lemma anchor_sc_R e a s :
  Q2R (anchor_sc oQ e a s) = anchor_sc R_ops (Q2R e) (option_map Q2R a) (Q2R s).
Proof.
  destruct a as [a0|]; [|reflexivity]. cbn [anchor_sc option_map].
  change (ltb oQ) with Qltb. change (ltb R_ops) with Rltb. change (abs R_ops) with Rabs. change (sub R_ops) with Rminus.
  rewrite Qltb_Rltb, Q2R_abs, Q2R_sub. destruct (Rltb (Q2R e) (Rabs (Q2R s - Q2R a0))); reflexivity.
Qed.
Lemma snap_sc_R e l : forall a,
  mapR (snap_sc oQ e a l) = snap_sc R_ops (Q2R e) (option_map Q2R a) (mapR l).
Proof.
  induction l as [|p l IH]; intros a; [reflexivity|]. cbn [snap_sc mapR map]. fold (mapR l).
  fold (mapR (snap_sc oQ e (Some (anchor_sc oQ e a (fst p))) l)). rewrite IH. cbn [option_map].
  unfold sR at 1. cbn [fst snd]. rewrite anchor_sc_R. reflexivity.
Qed.
Lemma grouped_sc_R e l : mapR (grouped_sc oQ e l) = grouped (Q2R e) (mapR l).
Proof. unfold grouped_sc. rewrite snap_sc_R, roc_prepare_R. reflexivity. Qed.

Lemma npos_R l : npos (mapR l) = npos l.
Proof. unfold npos, mapR. induction l as [|p l IH]; simpl; auto. destruct (snd p); simpl; rewrite IH; reflexivity. Qed.
Lemma nneg_R l : nneg (mapR l) = nneg l.
Proof. unfold nneg, mapR. induction l as [|p l IH]; simpl; auto. destruct (snd p); simpl; rewrite IH; reflexivity. Qed.

Lemma mw_pair_R a b : mw_pair oQ a b = mw_pair R_ops (Q2R a) (Q2R b).
Proof.
  unfold mw_pair. change (ltb oQ) with Qltb. change (eqb oQ) with Qeq_bool.
  rewrite Qltb_Rltb, Qeqb_Reqb. reflexivity.
Qed.
Definition mwsumQ (P N : list scoredQ) : nat :=
  fold_right (fun (p : scoredQ) acc =>
    if snd p then (fold_right (fun (q : scoredQ) acc' => if snd q then acc' else (mw_pair oQ (fst q) (fst p) + acc')%nat) O N + acc)%nat
    else acc) O P.
Lemma mwsumQ_R P N : mwsumQ P N = mwsum (mapR P) (mapR N).
Proof.
  induction P as [|p P IH]; [reflexivity|]. cbn [mwsumQ mwsum fold_right mapR map]. fold (mwsumQ P N). fold (mapR P). fold (mwsum (mapR P) (mapR N)).
  rewrite IH. cbn [sR snd fst]. destruct (snd p); [|reflexivity]. f_equal.
  unfold inner_neg. clear. induction N as [|q N IH]; [reflexivity|]. cbn [fold_right mapR map sR snd fst].
  fold (mapR N). rewrite IH, mw_pair_R. reflexivity.
Qed.
Lemma mw2_R l : mw2 oQ l = mw2 R_ops (mapR l).
Proof. rewrite mw2_mwsum. exact (mwsumQ_R l l). Qed.

(** the scores of a case as real numbers *)
Definition rscores (c : roccase) : list (R * bool) := mapR (qscores (rc_input c)).
Definition eps_rocR : R := Q2R eps_rocQ.
Lemma eps_rocR_nonneg : 0 <= eps_rocR.
Proof.
  unfold eps_rocR. rewrite <- RMicromega.Q2R_0. apply Qle_Rle. apply Qle_bool_iff. vm_compute. reflexivity.
Qed.

Lemma oracle_roc_auc_ok c : oracle_roc c = 0%N -> auc_ok c = true.
Proof.
  unfold oracle_roc. cbv zeta. intros H. apply N.eq_add_0 in H. destruct H as [H _].
  apply N.eq_add_0 in H. destruct H as [_ H]. apply (flag_zero _ _ H). discriminate.
Qed.

Lemma auc_sound c : auc_ok c = true -> auc_checked c = true ->
  let A := auc R_ops eps_rocR (rscores c) in
  A = INR (mw2 R_ops (grouped eps_rocR (rscores c)))
      / (2 * (INR (npos (kept (rscores c))) * INR (nneg (kept (rscores c))))) /\
  exists v, SF2Q (b32_of_bits (rc_auc c)) = Some v /\
    Rabs (Q2R v - A) <= Q2R (auc_tol c) * Rabs A + Q2R (1 # 1000000000000).
Proof.
  intros Hok Hchk. cbv zeta.
  unfold auc_ok in Hok. rewrite Hchk in Hok. cbn [negb orb] in Hok.
  unfold auc_checked in Hchk. cbv zeta in Hchk.
  apply andb_true_iff in Hchk. destruct Hchk as [Hchk _].
  apply andb_true_iff in Hchk. destruct Hchk as [Hchk Hnn].
  apply andb_true_iff in Hchk. destruct Hchk as [_ Hnp].
  apply Nat.ltb_lt in Hnp, Hnn.
  (* the grouped rational scores are the grouped real scores *)
  assert (HG : mapR (auc_groups c) = grouped eps_rocR (rscores c)) by (unfold auc_groups; apply grouped_sc_R).
  pose proof (sort_sc_perm (kept (rscores c))) as Hperm.
  assert (Hnp' : npos (auc_groups c) = npos (kept (rscores c))).
  { rewrite <- npos_R, HG, grouped_unfold, npos_snap. apply npos_perm, Hperm. }
  assert (Hnn' : nneg (auc_groups c) = nneg (kept (rscores c))).
  { rewrite <- nneg_R, HG, grouped_unfold, nneg_snap. apply nneg_perm, Hperm. }
  assert (HA : auc R_ops eps_rocR (rscores c) =
               INR (mw2 R_ops (grouped eps_rocR (rscores c)))
               / (2 * (INR (npos (kept (rscores c))) * INR (nneg (kept (rscores c)))))).
  { rewrite (auc_grouped eps_rocR (rscores c) eps_rocR_nonneg) by lia.
    unfold auc_spec. rewrite !ofn_R. rewrite grouped_unfold at 2 3. rewrite npos_snap, nneg_snap.
    rewrite (npos_perm _ _ Hperm), (nneg_perm _ _ Hperm). unfold two. simpl. reflexivity. }
  split; [exact HA|].
  assert (HP : INR (npos (kept (rscores c))) <> 0) by (apply not_0_INR; lia).
  assert (HN : INR (nneg (kept (rscores c))) <> 0) by (apply not_0_INR; lia).
  assert (HE : Q2R (auc_expected c) = auc R_ops eps_rocR (rscores c)).
  { rewrite HA. unfold auc_expected. cbv zeta. rewrite Q2R_Qred.
    rewrite Qreals.Q2R_div.
    - rewrite !Q2R_mult, !Q2R_qn, mw2_R, HG, Hnp', Hnn'.
      replace (Q2R 2) with 2 by (unfold Q2R; simpl; lra). reflexivity.
    - apply Q2R_nonzero. rewrite !Q2R_mult, !Q2R_qn, Hnp', Hnn'.
      replace (Q2R 2) with 2 by (unfold Q2R; simpl; lra).
      apply Rmult_integral_contrapositive_currified; [lra|]. apply Rmult_integral_contrapositive_currified; auto. }
  unfold close32 in Hok. apply closeQ_some in Hok. destruct Hok as [v [Hv Hb]].
  exists v. split; [exact Hv|]. rewrite HE in Hb. exact Hb.
Qed.

(** * Regression scores: the rational specification values are the real ones *)
Definition within (impl : option Q) (rel abs_ s : R) : Prop :=
  exists v, impl = Some v /\ Rabs (Q2R v - s) <= rel * Rabs s + abs_.

Lemma close64_within rel abs_ x s : close64 rel abs_ x (Some s) = true ->
  within (f64_to_Q x) (Q2R rel) (Q2R abs_) (Q2R s).
Proof. unfold close64. intros H. apply closeQ_some in H. exact H. Qed.

Lemma map_Q2R_map (f : Q -> Q) (g : R -> R) l : (forall x, Q2R (f x) = g (Q2R x)) ->
  map Q2R (map f l) = map g (map Q2R l).
Proof. intros H. rewrite !map_map. apply map_ext. exact H. Qed.

Lemma vsub_R a : forall b, map Q2R (vsub oQ a b) = vsub R_ops (map Q2R a) (map Q2R b).
Proof.
  unfold vsub. induction a as [|x a IH]; intros [|y b]; try reflexivity.
  cbn [combine map fst snd]. rewrite Q2R_sub, IH. reflexivity.
Qed.
Lemma sq_R x : Q2R (sq oQ x) = sq R_ops (Q2R x).
Proof. unfold sq. apply Q2R_mul. Qed.

Lemma mean_s_R_Q l : l <> [] -> Q2R (mean_s oQ l) = mean_s R_ops (map Q2R l).
Proof.
  intros Hl. unfold mean_s. rewrite Q2R_div.
  - rewrite Q2R_sum_s, Q2R_ofn, map_length, ofn_R. reflexivity.
  - rewrite Q2R_ofn. apply INR_length_nonzero, Hl.
Qed.

Lemma vsub_nonemptyQ (a b : list Q) : a <> [] -> b <> [] -> vsub oQ a b <> [].
Proof. destruct a, b; intros; try congruence. unfold vsub. simpl. discriminate. Qed.

Lemma mae_spec_R a b : a <> [] -> b <> [] ->
  Q2R (mae_spec oQ a b) = mae_spec R_ops (map Q2R a) (map Q2R b).
Proof.
  intros Ha Hb. unfold mae_spec. rewrite mean_s_R_Q by (apply map_nonempty, vsub_nonemptyQ; auto).
  rewrite (map_Q2R_map (abs oQ) (abs R_ops)) by apply Q2R_abs. rewrite vsub_R. reflexivity.
Qed.
Lemma mse_spec_R a b : a <> [] -> b <> [] ->
  Q2R (mse_spec oQ a b) = mse_spec R_ops (map Q2R a) (map Q2R b).
Proof.
  intros Ha Hb. unfold mse_spec. rewrite mean_s_R_Q by (apply map_nonempty, vsub_nonemptyQ; auto).
  rewrite (map_Q2R_map (sq oQ) (sq R_ops)) by apply sq_R. rewrite vsub_R. reflexivity.
Qed.
Lemma sse_spec_R a b : Q2R (sse_spec oQ a b) = sse_spec R_ops (map Q2R a) (map Q2R b).
Proof.
  unfold sse_spec. rewrite Q2R_sum_s, (map_Q2R_map (sq oQ) (sq R_ops)) by apply sq_R. rewrite vsub_R. reflexivity.
Qed.
Lemma centred_sq_R (l : list Q) (m : Q) (mr : R) : Q2R m = mr ->
  Q2R (sum_s oQ (map (fun y => sq oQ (sub oQ y m)) l)) = sum_s R_ops (map (fun y => sq R_ops (sub R_ops y mr)) (map Q2R l)).
Proof.
  intros Hm. rewrite Q2R_sum_s. f_equal. rewrite !map_map. apply map_ext. intros y.
  rewrite sq_R, Q2R_sub, Hm. reflexivity.
Qed.
Lemma sst_spec_R b : b <> [] -> Q2R (sst_spec oQ b) = sst_spec R_ops (map Q2R b).
Proof. intros Hb. unfold sst_spec. cbv zeta. apply centred_sq_R. apply mean_s_R_Q, Hb. Qed.

Lemma sum_sq_nonneg (l : list R) (m : R) : 0 <= sum_s R_ops (map (fun y => sq R_ops (sub R_ops y m)) l).
Proof.
  rewrite sum_s_R. induction l as [|y l IH]; [simpl; lra|]. cbn [map Proofs.Rsum fold_right].
  fold (Proofs.Rsum (map (fun y0 : R => sq R_ops (sub R_ops y0 m)) l)).
  assert (H : 0 <= sq R_ops (sub R_ops y m)) by (unfold sq; simpl; apply Rle_0_sqr).
  lra.
Qed.
Lemma sst_spec_nonneg (b : list R) : 0 <= sst_spec R_ops b.
Proof. unfold sst_spec. cbv zeta. apply sum_sq_nonneg. Qed.

Definition c10R : R := Q2R c10q.
Lemma c10R_pos : 0 < c10R.
Proof.
  unfold c10R. rewrite <- RMicromega.Q2R_0. apply Qlt_Rlt.
  assert (H : Qltb 0 c10q = true) by (vm_compute; reflexivity).
  unfold Qltb in H. apply Qnot_le_lt. intros C. apply Qle_bool_iff in C. rewrite C in H. discriminate.
Qed.

Lemma r2_spec_R a b : b <> [] ->
  Q2R (r2_spec oQ c10q a b) = r2_spec R_ops c10R (map Q2R a) (map Q2R b).
Proof.
  intros Hb. unfold r2_spec. rewrite Q2R_sub, Q2R_one, Q2R_div.
  - rewrite sse_spec_R, Q2R_add, sst_spec_R by exact Hb. reflexivity.
  - rewrite Q2R_add, sst_spec_R by exact Hb. pose proof (sst_spec_nonneg (map Q2R b)). pose proof c10R_pos. fold c10R. lra.
Qed.
Lemma ev_spec_R a b : a <> [] -> b <> [] ->
  Q2R (ev_spec oQ c10q a b) = ev_spec R_ops c10R (map Q2R a) (map Q2R b).
Proof.
  intros Ha Hb. unfold ev_spec. cbv zeta. rewrite Q2R_sub, Q2R_one, Q2R_div.
  - rewrite Q2R_add, sst_spec_R by exact Hb.
    rewrite (centred_sq_R (vsub oQ a b) _ (mean_s R_ops (vsub R_ops (map Q2R a) (map Q2R b)))).
    + rewrite vsub_R. reflexivity.
    + rewrite mean_s_R_Q by (apply vsub_nonemptyQ; auto). rewrite vsub_R. reflexivity.
  - rewrite Q2R_add, sst_spec_R by exact Hb. pose proof (sst_spec_nonneg (map Q2R b)). pose proof c10R_pos. fold c10R. lra.
Qed.

(* the tolerance of the r2 / explained-variance comparison *)
Lemma rtol_R a b : b <> [] ->
  Q2R (Qred (tol64 * (1 + Qabs_ (sse_spec oQ a b / (sst_spec oQ b + c10q))))) =
  Q2R tol64 * (1 + Rabs (sse_spec R_ops (map Q2R a) (map Q2R b) / (sst_spec R_ops (map Q2R b) + c10R))).
Proof.
  intros Hb. rewrite Q2R_Qred, Q2R_mult, Q2R_plus. unfold Qabs_. rewrite Qabs'_R.
  rewrite Qreals.Q2R_div.
  - rewrite Q2R_plus, sse_spec_R, sst_spec_R by exact Hb. rewrite RMicromega.Q2R_1. reflexivity.
  - apply Q2R_nonzero. rewrite Q2R_plus, sst_spec_R by exact Hb.
    pose proof (sst_spec_nonneg (map Q2R b)). pose proof c10R_pos. fold c10R. lra.
Qed.

(* largest absolute error *)
Lemma fold_max_R l : forall x,
  Q2R (fold_left (fun a b => if Qltb a b then b else a) l x) = fold_left (fmax R_ops) (map Q2R l) (Q2R x).
Proof.
  induction l as [|y l IH]; intros x; [reflexivity|]. cbn [fold_left map]. rewrite IH. f_equal.
  unfold fmax. change (ltb R_ops) with Rltb. rewrite Qltb_Rltb. destruct (Rltb (Q2R x) (Q2R y)); reflexivity.
Qed.
Lemma max_spec_R a b : a <> [] -> b <> [] ->
  max_error R_ops (map Q2R a) (map Q2R b) = Some (Q2R (max_spec (map (abs oQ) (vsub oQ a b)))).
Proof.
  intros Ha Hb. unfold max_error, max_spec. rewrite fold_max_R.
  rewrite (map_Q2R_map (abs oQ) (abs R_ops)) by apply Q2R_abs. rewrite vsub_R.
  assert (Hne : map (abs R_ops) (vsub R_ops (map Q2R a) (map Q2R b)) <> []).
  { apply map_nonempty, vsub_nonempty; apply map_nonempty; auto. }
  destruct (map (abs R_ops) (vsub R_ops (map Q2R a) (map Q2R b))) as [|x t] eqn:E; [congruence|].
  f_equal. cbn [fold_left]. f_equal. rewrite RMicromega.Q2R_0. unfold fmax. change (ltb R_ops) with Rltb.
  assert (Hx : 0 <= x).
  { assert (Hin : In x (map (abs R_ops) (vsub R_ops (map Q2R a) (map Q2R b)))) by (rewrite E; left; reflexivity).
    apply in_map_iff in Hin. destruct Hin as [y [<- _]]. apply Rabs_pos. }
  destruct (Rltb 0 x) eqn:E0; [reflexivity|]. apply Rltb_false in E0. lra.
Qed.

(* median of the absolute errors *)
Lemma ins_f_R x l : map Q2R (ins_f oQ x l) = ins_f R_ops (Q2R x) (map Q2R l).
Proof.
  induction l as [|y l IH]; [reflexivity|]. cbn [ins_f map]. change (ltb oQ) with Qltb. change (ltb R_ops) with Rltb.
  rewrite Qltb_Rltb. destruct (Rltb (Q2R x) (Q2R y)); [reflexivity|]. cbn [map]. rewrite IH. reflexivity.
Qed.
Lemma sort_f_R l : map Q2R (sort_f oQ l) = sort_f R_ops (map Q2R l).
Proof.
  induction l as [|x l IH]; [reflexivity|]. cbn [sort_f fold_right map]. fold (sort_f oQ l). fold (sort_f R_ops (map Q2R l)).
  rewrite ins_f_R, IH. reflexivity.
Qed.
Lemma nth_R k l : Q2R (nth k l 0%Q) = nth k (map Q2R l) 0.
Proof. rewrite <- RMicromega.Q2R_0. symmetry. apply map_nth. Qed.

Lemma median_spec_R a b : a <> [] -> b <> [] ->
  median_absolute_error R_ops (map Q2R a) (map Q2R b) = Some (Q2R (Corr.median_spec (map (abs oQ) (vsub oQ a b)))).
Proof.
  intros Ha Hb. unfold median_absolute_error, Corr.median_spec, sortedQ. cbv zeta.
  set (l := map (abs oQ) (vsub oQ a b)).
  assert (Hl : map (abs R_ops) (vsub R_ops (map Q2R a) (map Q2R b)) = map Q2R l).
  { unfold l. rewrite (map_Q2R_map (abs oQ) (abs R_ops)) by apply Q2R_abs. rewrite vsub_R. reflexivity. }
  rewrite Hl, <- sort_f_R, map_length.
  assert (Hn : length (sort_f oQ l) <> O).
  { assert (Hp : length (sort_f R_ops (map Q2R l)) = length (map Q2R l)) by (apply Permutation_length, sort_f_perm).
    rewrite <- sort_f_R, !map_length in Hp. rewrite Hp. unfold l. rewrite map_length.
    intros C. apply length_zero_iff_nil in C. revert C. apply vsub_nonemptyQ; auto. }
  destruct (length (sort_f oQ l)) as [|n'] eqn:En; [congruence|]. f_equal.
  destruct (Nat.even (S n')).
  - rewrite Qreals.Q2R_div by (apply Q2R_nonzero; unfold Q2R; simpl; lra).
    rewrite Q2R_plus, !nth_R. unfold two. simpl. replace (Q2R 2) with 2 by (unfold Q2R; simpl; lra). reflexivity.
  - rewrite nth_R. reflexivity.
Qed.

Lemma qs_nonempty l : l <> [] -> qs l <> [].
Proof. unfold qs. apply map_nonempty. Qed.

Lemma reg_sound c : oracle_reg c = 0%N -> rg_oracle c = true -> rg_a c <> [] -> rg_b c <> [] ->
  let a := map Q2R (qs (rg_a c)) in let b := map Q2R (qs (rg_b c)) in
  let rt := Q2R tol64 * (1 + Rabs (sse_spec R_ops a b / (sst_spec R_ops b + c10R))) in
  (exists M, max_error R_ops a b = Some M /\ within (f64_to_Q (outn c 0)) (Q2R tol64) 0 M) /\
  within (f64_to_Q (outn c 1)) (Q2R tol64) 0 (mae_spec R_ops a b) /\
  within (f64_to_Q (outn c 2)) (Q2R tol64) 0 (mse_spec R_ops a b) /\
  (exists M, median_absolute_error R_ops a b = Some M /\ within (f64_to_Q (outn c 3)) (Q2R tol64) 0 M) /\
  within (f64_to_Q (outn c 5)) 0 rt (r2_spec R_ops c10R a b) /\
  within (f64_to_Q (outn c 6)) 0 rt (ev_spec R_ops c10R a b).
Proof.
  intros H Ho Ha Hb. cbv zeta. unfold oracle_reg in H. cbv zeta in H. rewrite Ho in H.
  apply N.eq_add_0 in H. destruct H as [H _].
  apply N.eq_add_0 in H. destruct H as [H H6]. apply N.eq_add_0 in H. destruct H as [H H5].
  apply N.eq_add_0 in H. destruct H as [H _]. apply N.eq_add_0 in H. destruct H as [H H3].
  apply N.eq_add_0 in H. destruct H as [H H2]. apply N.eq_add_0 in H. destruct H as [H0 H1].
  apply flag_zero in H0, H1, H2, H3, H5, H6; try discriminate.
  apply close64_within in H0, H1, H2, H3, H5, H6.
  pose proof (qs_nonempty _ Ha) as Ha'. pose proof (qs_nonempty _ Hb) as Hb'.
  rewrite RMicromega.Q2R_0 in *.
  rewrite (rtol_R _ _ Hb') in H5, H6.
  rewrite (mae_spec_R _ _ Ha' Hb') in H1. rewrite (mse_spec_R _ _ Ha' Hb') in H2.
  rewrite (r2_spec_R _ _ Hb') in H5. rewrite (ev_spec_R _ _ Ha' Hb') in H6.
  repeat split; auto.
  - eexists. split; [apply (max_spec_R _ _ Ha' Hb') | exact H0].
  - eexists. split; [apply (median_spec_R _ _ Ha' Hb') | exact H3].
Qed.

(** * Confusion matrix: members, cells and accuracy *)
Local Notation ltN := (fun a b : N => N.ltb a b = true).

Lemma strictly_increasing_sorted l : strictly_increasing l = true -> StronglySorted ltN l.
Proof.
  induction l as [|a l IH]; intros H; [constructor|].
  destruct l as [|b t]; [repeat constructor|].
  cbn [strictly_increasing] in H. apply andb_true_iff in H. destruct H as [Hab Ht].
  specialize (IH Ht). constructor; [exact IH|].
  inversion IH as [|? ? _ Hf]; subst. constructor; [exact Hab|].
  rewrite Forall_forall in *. intros x Hx. specialize (Hf x Hx). cbv beta in *.
  apply N.ltb_lt in Hab, Hf. apply N.ltb_lt. lia.
Qed.

Lemma memN_In x l : memN x l = true <-> In x l.
Proof.
  unfold memN. rewrite existsb_exists. split.
  - intros [y [Hy E]]. apply N.eqb_eq in E. subst. exact Hy.
  - intros H. exists x. split; [exact H | apply N.eqb_refl].
Qed.

Lemma members_ok_classes c : members_ok c = true ->
  cm_members c = classes N.ltb N.eqb (cm_pred c) (cm_truth c).
Proof.
  unfold members_ok. cbv zeta. intros H.
  apply andb_true_iff in H. destruct H as [H H3]. apply andb_true_iff in H. destruct H as [H1 H2].
  rewrite forallb_forall in H2, H3.
  destruct N_label_order as [Heq Hirr Htrans Htot].
  set (ms := cm_members c) in *. set (all := cm_pred c ++ cm_truth c) in *.
  set (srt := match ms with [_; _] => rev ms | _ => ms end) in *.
  assert (Hin : forall x, In x srt <-> In x ms).
  { intros x. unfold srt. destruct ms as [|a [|b [|d t]]]; try tauto. rewrite <- in_rev. tauto. }
  apply strictly_increasing_sorted in H1.
  pose proof (sort_set_sorted N.ltb N.eqb Heq Htrans Htot all) as Hs.
  assert (E : srt = sort_set N.ltb N.eqb all).
  { apply (sorted_perm_eq ltN); auto.
    - intros x y Hx Hy. apply N.ltb_lt in Hx, Hy. lia.
    - apply NoDup_Permutation.
      + apply (sorted_nodup N.ltb Hirr). exact H1.
      + apply (sorted_nodup N.ltb Hirr). exact Hs.
      + intros x. rewrite Hin, (in_sort_set N.ltb N.eqb Heq). split; intros Hx.
        * apply memN_In. apply H3. exact Hx.
        * apply memN_In. apply H2. exact Hx. }
  unfold classes. fold all. rewrite <- E. unfold srt.
  destruct ms as [|a [|b [|d t]]]; reflexivity.
Qed.

Lemma cells_ok_sound c : cells_ok c = true ->
  let ms := cm_members c in
  length (cellsQ c) = length ms /\ Forall (fun r => length r = length ms) (cellsQ c) /\
  forall i j, (i < length ms)%nat -> (j < length ms)%nat ->
    exists q, getq (cellsQ c) i j = Some q /\
      Q2R q = INR (count_pairs N.eqb (nth i ms 0%N) (nth j ms 0%N) (cm_pred c) (cm_truth c)).
Proof.
  unfold cells_ok. cbv zeta. intros H.
  apply andb_true_iff in H. destruct H as [H H3]. apply andb_true_iff in H. destruct H as [H1 H2].
  apply Nat.eqb_eq in H1. rewrite forallb_forall in H2, H3.
  split; [exact H1|]. split.
  - rewrite Forall_forall. intros r Hr. apply Nat.eqb_eq. apply H2. exact Hr.
  - intros i j Hi Hj.
    assert (Hi' : In i (seq 0 (length (cm_members c)))) by (apply in_seq; lia).
    assert (Hj' : In j (seq 0 (length (cm_members c)))) by (apply in_seq; lia).
    specialize (H3 i Hi'). rewrite forallb_forall in H3. specialize (H3 j Hj').
    destruct (getq (cellsQ c) i j) as [q|]; [|discriminate].
    exists q. split; [reflexivity|]. apply Qeq_bool_R in H3. rewrite H3. apply Q2R_qn.
Qed.

Lemma cm_sound c : oracle_cm c = 0%N -> cm_ok c = true ->
  let ms := cm_members c in
  let n := length (cm_pred c) in
  n = length (cm_truth c) /\
  ms = classes N.ltb N.eqb (cm_pred c) (cm_truth c) /\
  length (cellsQ c) = length ms /\ Forall (fun r => length r = length ms) (cellsQ c) /\
  (forall i j, (i < length ms)%nat -> (j < length ms)%nat ->
     exists q, getq (cellsQ c) i j = Some q /\
       Q2R q = INR (count_pairs N.eqb (nth i ms 0%N) (nth j ms 0%N) (cm_pred c) (cm_truth c))) /\
  (n <> O -> within (SF2Q (b32_of_bits (cm_accuracy c))) (Q2R tol32) (Q2R (1 # 1000000000000))
                    (INR (count_eq N.eqb (cm_pred c) (cm_truth c)) / INR n)).
Proof.
  intros H Hok. cbv zeta. unfold oracle_cm in H. rewrite Hok in H. cbn [negb] in H. cbv iota in H.
  destruct (Nat.eqb (length (cm_pred c)) (length (cm_truth c))) eqn:El; [|discriminate].
  cbn [negb] in H. cbv iota zeta in H. apply Nat.eqb_eq in El.
  repeat (apply N.eq_add_0 in H; destruct H as [H ?]).
  repeat match goal with Hf : flag _ _ = 0%N |- _ => apply flag_zero in Hf; [|discriminate] end.
  split; [exact El|]. split; [apply members_ok_classes; assumption|].
  match goal with Hc : cells_ok c = true |- _ => destruct (cells_ok_sound c Hc) as [C1 [C2 C3]] end.
  split; [exact C1|]. split; [exact C2|]. split; [exact C3|].
  intros Hn.
  match goal with Ha : close32 _ (b32_of_bits (cm_accuracy c)) _ = true |- _ => rename Ha into Hacc end.
  unfold odiv in Hacc.
  assert (Hq : Qeq_bool (qn (length (cm_pred c))) 0 = false).
  { destruct (Qeq_bool (qn (length (cm_pred c))) 0) eqn:E; auto. apply Qeq_bool_R in E.
    rewrite Q2R_qn, RMicromega.Q2R_0 in E. exfalso. revert E. apply not_0_INR. exact Hn. }
  rewrite Hq in Hacc. unfold close32 in Hacc. apply closeQ_some in Hacc.
  destruct Hacc as [v [Hv Hb]]. exists v. split; [exact Hv|].
  rewrite Q2R_Qred, Qreals.Q2R_div, !Q2R_qn in Hb; [exact Hb|].
  apply Q2R_nonzero. rewrite Q2R_qn. apply not_0_INR. exact Hn.
Qed.

(** * The hypotheses are satisfiable: cases taken from a run of the harness *)
Definition ex_roc : roccase :=
  {| rc_id := 1968%N; rc_scores := ([0; 0; 1061158912])%Z; rc_labels := [false; true; true]; rc_oracle_ll := false;
     rc_curve := ([(0, 0); (1056964608, 1065353216); (1065353216, 1065353216)])%Z; rc_thresholds := ([0; 1061158912])%Z;
     rc_auc := (1061158912)%Z; rc_ll_ok := true; rc_ll := (1085087463)%Z |}.
Example ex_roc_accepted : oracle_roc ex_roc = 0%N /\ auc_checked ex_roc = true.
Proof. split; vm_compute; reflexivity. Qed.

Definition ex_cm : cmcase :=
  {| cm_id := 976%N; cm_pred := ([0; 1; 0; 0])%N; cm_truth := ([1; 0; 0; 0])%N; cm_betas := ([1056964608; 1073741824; 1067450368])%Z;
     cm_ok := true; cm_members := ([1; 0])%N; cm_matrix := ([[0; 1065353216]; [1065353216; 1073741824]])%Z;
     cm_precision := (0)%Z; cm_recall := (0)%Z; cm_accuracy := (1056964608)%Z; cm_f1 := (4290772992)%Z;
     cm_fbeta := ([4290772992; 4290772992; 4290772992])%Z; cm_mcc := (3198855850)%Z;
     cm_ova := ([[0; 1065353216; 1065353216; 1073741824]; [1073741824; 1065353216; 1065353216; 0]])%Z;
     cm_ovo := ([[0; 1065353216; 1065353216; 1073741824]])%Z |}.
Example ex_cm_accepted : oracle_cm ex_cm = 0%N /\ cm_ok ex_cm = true.
Proof. split; vm_compute; reflexivity. Qed.

Definition ex_reg : regcase :=
  {| rg_id := 6464%N;
     rg_a := ([(-0x17p-2); (-0x3p-2); 0x5p-2; (-0x15p-2); 0xdp-2; (-0x7p-3); (-0x1p+2); 0x25p-3; 0x15p-3; 0x25p-3; (-0x3p-1); (-0x13p-2); (-0x3p-1); (-0x21p-3)])%float;
     rg_b := ([(-0x7p-1); (-0xbp-2); 0x11p-3; (-0x1p+3); 0x1p+0; (-0xfp-3); (-0x15p-3); 0x3bp-3; 0x9p-1; 0xbp-2; (-0x13p-3); (-0x31p-3); (-0x1p-1); (-0x11p-3)])%float;
     rg_lay := 1%N; rg_oracle := true; rg_msle := false;
     rg_out := ([0xbp-2; 0xddb6db6db6db7p-51; 0x1b324924924925p-51; 0xfp-3; 0xba80654549047p-52; 0xc874c6e9a69bdp-52; 0xc874c6e9a69bdp-52; nan])%float |}.
Example ex_reg_accepted : oracle_reg ex_reg = 0%N /\ rg_oracle ex_reg = true /\ rg_a ex_reg <> [] /\ rg_b ex_reg <> [].
Proof. split; [vm_compute; reflexivity|]. split; [reflexivity|]. split; discriminate. Qed.
