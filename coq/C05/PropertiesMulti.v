(** C05 - property theorems about `MultiTargetRegression` (per-column application) and about
    `SingleTargetRegression` on non-contiguous views (statements; proofs in C05/MultiProofs.v).
    The model functions are C05/ModelExt.v; their binary64 instance is what every run compares
    bit for bit with the Rust code on matrices / views in seven memory layouts. *)
From Coq Require Import List NArith Reals Lra Lia.
From LinfaVerif Require Import Common.Num Common.NdSum C05.Model C05.ModelExt C05.Proofs C05.MultiProofs.
Import ListNotations.
Local Open Scope R_scope.

(** ** Multi-target scores are the single-target score of every column pair.
    For any arithmetic [o] and any single-target score [metric]: the call on two matrices with q
    columns succeeds exactly when the score succeeds on every column pair, and then entry j of the
    returned vector is the score of column j of the receiver against column j of the other matrix. *)
Theorem multi_target_is_columnwise : forall (F : Type) (o : NumOps F) (metric : list F -> list F -> option F)
  (q : nat) (A B : list (list F)) (out : list F) (d : F),
  multi_target o metric q q A B = Some out <->
  (length out = q /\ forall j, (j < q)%nat -> metric (xcol o A j) (xcol o B j) = Some (nth j out d)).
Proof. intros F o metric q A B out d. apply multi_target_columnwise. Qed.

(** the call fails (Err) exactly when the score of some column pair fails *)
Theorem multi_target_fails_iff_a_column_fails : forall (F : Type) (o : NumOps F)
  (metric : list F -> list F -> option F) (q : nat) (A B : list (list F)),
  multi_target o metric q q A B = None <-> exists j, (j < q)%nat /\ metric (xcol o A j) (xcol o B j) = None.
Proof. intros F o metric q A B. apply multi_target_fails_iff. Qed.

(** matrices with different column counts are not rejected: the zip of the two column iterators
    silently stops at the shorter one (recorded behaviour of the code, see the harness stream
    `matrix_column_counts_differ`) *)
Theorem multi_target_zip_truncates : forall (F : Type) (o : NumOps F) (metric : list F -> list F -> option F)
  (qa qb : nat) (A B : list (list F)),
  multi_target o metric qa qb A B = multi_target o metric (Nat.min qa qb) (Nat.min qa qb) A B.
Proof. intros F o metric qa qb A B. apply multi_target_truncates. Qed.

(** over the reals, for matrices with at least one row: the mean-based scores are the vectors of the
    textbook formulas of the column pairs - for r2 whatever the memory layout of the columns *)
Theorem multi_target_scores_def : forall (q : nat) (A B : list (list R)) (ln : R -> R) (c : R) (lay : layout),
  A <> [] -> B <> [] ->
  let cols (f : list R -> list R -> R) := Some (map (fun j => f (xcol R_ops A j) (xcol R_ops B j)) (seq 0 q)) in
  multi_target R_ops (mean_absolute_error R_ops) q q A B = cols (mae_spec R_ops) /\
  multi_target R_ops (mean_squared_error R_ops) q q A B = cols (mse_spec R_ops) /\
  multi_target R_ops (mean_absolute_percentage_error R_ops) q q A B = cols (mape_spec R_ops) /\
  multi_target R_ops (mean_squared_log_error R_ops ln) q q A B = cols (msle_spec R_ops ln) /\
  multi_target R_ops (r2_l R_ops c lay) q q A B = cols (r2_spec R_ops c).
Proof.
  intros q A B ln c lay HA HB cols. unfold cols. repeat split.
  - apply multi_target_total; auto. exact mae_eq.
  - apply multi_target_total; auto. exact mse_eq.
  - apply multi_target_total; auto. exact mape_eq.
  - apply multi_target_total; auto. exact (msle_eq ln).
  - apply multi_target_total; auto. intros a b _ Hb. apply r2_l_eq. exact Hb.
Qed.

(** max_error / median_absolute_error per column: largest / middle absolute error of that column pair *)
Theorem multi_target_max_median_def : forall (q : nat) (A B : list (list R)) (out : list R) (j : nat), (j < q)%nat ->
  let e := map Rabs (vsub R_ops (xcol R_ops A j) (xcol R_ops B j)) in
  (multi_target R_ops (max_error R_ops) q q A B = Some out ->
     In (nth j out 0) e /\ forall y, In y e -> y <= nth j out 0) /\
  (multi_target R_ops (median_absolute_error R_ops) q q A B = Some out ->
     exists s, Permutation.Permutation s e /\ Sorted.StronglySorted Rle s /\
       nth j out 0 = if Nat.even (length s) then (nth (Nat.div (length s) 2 - 1) s 0 + nth (Nat.div (length s) 2) s 0) / 2
                     else nth (Nat.div (length s) 2) s 0).
Proof.
  intros q A B out j Hj e. split; intros H; apply (multi_target_columnwise R_ops _ q A B out 0) in H; destruct H as [_ H].
  - exact (max_error_spec _ _ _ (H j Hj)).
  - exact (Proofs.median_spec _ _ _ (H j Hj)).
Qed.

(** ** Non-contiguous views.  Only r2 and explained_variance read the compared-to view through
    `.mean()` / `mapv(..).sum()`; the model takes its layout (stride 1, stride -1, any other stride). *)

(** the `strided` flag of C05/Model.v (r2_def, explained_variance_known_class) is the two-layout case *)
Theorem layout_flag_cases : forall (F : Type) (o : NumOps F) (c : F) (a b : list F),
  r2_l o c LContig a b = r2 o c false a b /\ r2_l o c LStrided a b = r2 o c true a b /\
  explained_variance_l o c LContig a b = explained_variance o c false a b /\
  explained_variance_l o c LStrided a b = explained_variance o c true a b.
Proof. intros; repeat split. Qed.

(** r2 of a view of any layout is 1 - SSE / (SST + c) *)
Theorem r2_layout_def : forall (c : R) (lay : layout) (a b : list R), b <> [] ->
  r2_l R_ops c lay a b = Some (r2_spec R_ops c a b).
Proof. exact r2_l_eq. Qed.

(** over the reals the layout does not change explained_variance either, so the exact description of
    finding F2 (explained_variance_known_class) holds for every layout *)
Theorem explained_variance_layout_free : forall (c : R) (lay : layout) (a b : list R),
  explained_variance_l R_ops c lay a b = explained_variance R_ops c false a b.
Proof. exact ev_l_layout_free. Qed.

Theorem explained_variance_layout_known_class : forall (c : R) (lay : layout) (a b : list R),
  a <> [] -> b <> [] -> sst_spec R_ops b + c <> 0 ->
  let d := vsub R_ops a b in
  explained_variance_l R_ops c lay a b = Some (ev_spec R_ops c a b)
  <-> (mean_s R_ops d = 0 \/ mean_s R_ops d * INR (length d) = 1).
Proof. intros c lay a b Ha Hb Hc d. rewrite ev_l_layout_free. exact (ev_agrees_iff c false a b Ha Hb Hc). Qed.

(** the hypotheses are satisfiable and the statements have content: a 3 x 2 matrix pair, the
    truncating zip, and a reversed view *)
Example multi_target_examples :
  multi_target R_ops (mean_absolute_error R_ops) 2 2 [[1; 10]; [2; 20]; [4; 40]] [[0; 10]; [4; 10]; [4; 10]] = Some [1; 40 / 3] /\
  multi_target R_ops (max_error R_ops) 2 1 [[1; 10]; [2; 20]] [[0]; [4]] = Some [2] /\
  r2_l R_ops 0 LReversed [1; 2; 4] [1; 2; 3] = Some (1 - 1 / 2).
Proof. exact (conj ex_multi_mae (conj ex_multi_truncates ex_reversed_layout_real)). Qed.
