(** C05 - executable models of linfa's evaluation metrics (src/metrics_classification.rs,
    src/metrics_regression.rs, src/metrics_clustering.rs, src/correlation.rs), transliterated
    operation by operation and polymorphic in NumOps (run at binary32 / binary64 against the
    Rust code, reasoned about at R), followed by the first-principles specifications the
    theorems and the run-time oracle compare them with.  Definitions only. *)
From Coq Require Import List NArith Bool.
From LinfaVerif Require Import Common.Num Common.NdSum.
Import ListNotations.

Fixpoint upd {A} (l : list A) (k : nat) (f : A -> A) : list A :=
  match l, k with
  | [], _ => []
  | a :: t, O => f a :: t
  | a :: t, S k' => a :: upd t k' f
  end.

(** * Labels: `combined_labels` (hash-set union) followed by `sort` and the binary reversal *)
Section Labels.
Context {L : Type} (lltb leqb : L -> L -> bool).

(* insertion into a strictly increasing list; an element already present is dropped (set union) *)
Fixpoint ins (x : L) (l : list L) : list L :=
  match l with
  | [] => [x]
  | y :: t => if leqb x y then l else if lltb x y then x :: l else y :: ins x t
  end.
Definition sort_set (l : list L) : list L := fold_right ins [] l.

Definition classes (pred truth : list L) : list L :=
  let s := sort_set (pred ++ truth) in
  match s with [_; _] => rev s | _ => s end.

(* the class -> index hash map *)
Fixpoint index_of (x : L) (cs : list L) : option nat :=
  match cs with
  | [] => None
  | c :: t => if leqb x c then Some O else option_map S (index_of x t)
  end.

(* specification side: number of samples predicted [a] whose truth is [b] *)
Fixpoint count_pairs (a b : L) (pred truth : list L) : nat :=
  match pred, truth with
  | p :: pred', t :: truth' =>
      ((if leqb p a && leqb t b then 1 else 0) + count_pairs a b pred' truth')%nat
  | _, _ => O
  end.
Fixpoint count_eq (pred truth : list L) : nat :=
  match pred, truth with
  | p :: pred', t :: truth' => ((if leqb p t then 1 else 0) + count_eq pred' truth')%nat
  | _, _ => O
  end.
End Labels.

Section Num.
Context {F : Type} (o : NumOps F).
Local Notation "a +. b" := (add o a b) (at level 50, left associativity).
Local Notation "a -. b" := (sub o a b) (at level 50, left associativity).
Local Notation "a *. b" := (mul o a b) (at level 40, left associativity).
Local Notation "a /. b" := (div o a b) (at level 40, left associativity).
Local Notation f0 := (zero o).
Local Notation f1 := (one o).

Definition ofn (n : nat) : F := of_N o (N.of_nat n).
Definition two : F := f1 +. f1 .
Definition sq (x : F) : F := x *. x.

(** `Iterator::sum::<f32/f64>()`: a sequential fold that starts from -0.0 (core::iter, Rust >= 1.83) *)
Definition fsum (xs : list F) : F := fold_left (add o) xs (opp o f0).
(** `.sum()` of a strided one-dimensional view (matrix column, diagonal): 0 + sequential fold *)
Definition ssum (xs : list F) : F := f0 +. seq_sum o xs.
(** `.sum()` of contiguous data: ndarray's unrolled fold *)
Definition csum (xs : list F) : F := usum o xs.

(** ** Confusion matrix *)
Definition mat := list (list F).
Definition get (m : mat) (i j : nat) : F := nth j (nth i m []) f0 .
Definition col (m : mat) (j : nat) : list F := map (fun r => nth j r f0) m.
Definition diag (m : mat) : list F := map (fun i => get m i i) (seq 0 (length m)).
Definition msum (m : mat) : F := csum (concat m).
Definition zeros (k : nat) : mat := repeat (repeat f0 k) k.

Section CMatrix.
Context {L : Type} (lltb leqb : L -> L -> bool).

(* `confusion_matrix[(i1, i2)] += 1.0` for every (prediction, truth) pair, in sample order *)
Definition cm_count (cs : list L) (pred truth : list L) : mat :=
  fold_left (fun m pt =>
               match index_of leqb (fst pt) cs, index_of leqb (snd pt) cs with
               | Some i, Some j => upd m i (fun r => upd r j (fun v => v +. f1))
               | _, _ => m
               end)
            (combine pred truth) (zeros (length cs)).

(* Err(MismatchedShapes) = None *)
Definition confusion_matrix (pred truth : list L) : option (list L * mat) :=
  if Nat.eqb (length pred) (length truth)
  then let cs := classes lltb leqb pred truth in Some (cs, cm_count cs pred truth)
  else None.
End CMatrix.

Definition bin (tp fp fn tn : F) : mat := [[tp; fp]; [fn; tn]].
Definition is_binary (m : mat) : bool := Nat.eqb (length m) 2.

Definition split_one_vs_all (m : mat) : list mat :=
  let s := msum m in
  map (fun i => let tp := get m i i in
                let fp := csum (nth i m []) -. tp in
                let fn := ssum (col m i) -. tp in
                let tn := s -. tp -. fp -. fn in
                bin tp fp fn tn)
      (seq 0 (length m)).

(* pairs i < j (after the repair of finding F25; the defective loop started at j = i) *)
Definition split_one_vs_one (m : mat) : list mat :=
  let n := length m in
  flat_map (fun i => map (fun j => bin (get m i i) (get m i j) (get m j i) (get m j j))
                         (seq (S i) (n - S i)))
           (seq 0 n).

Definition precision_bin (m : mat) : F := get m 0 0 /. (get m 0 0 +. get m 1 0).
Definition recall_bin (m : mat) : F := get m 0 0 /. (get m 0 0 +. get m 0 1).
Definition precision (m : mat) : F :=
  if is_binary m then precision_bin m
  else fsum (map precision_bin (split_one_vs_all m)) /. ofn (length m).
Definition recall (m : mat) : F :=
  if is_binary m then recall_bin m
  else fsum (map recall_bin (split_one_vs_all m)) /. ofn (length m).
Definition accuracy (m : mat) : F := ssum (diag m) /. msum m.
Definition f_score (beta : F) (m : mat) : F :=
  let sb := beta *. beta in
  let p := precision m in
  let r := recall m in
  ((f1 +. sb) *. (p *. r)) /. (sb *. p +. r).

Definition mcc_cov_xy (m : mat) : F :=
  let idx := seq 0 (length m) in
  fold_left (fun acc k =>
    fold_left (fun acc l =>
      fold_left (fun acc mm =>
                   (acc +. get m k k *. get m l mm) -. get m k l *. get m mm k)
                idx acc)
              idx acc)
            idx f0 .
(* sum_axis(Axis(0)): zeros + row_0 + row_1 + ...; sum_axis(Axis(1)): `.sum()` of every row *)
Definition sum_over_cols (m : mat) : list F := map (fun j => seq_sum o (col m j)) (seq 0 (length m)).
Definition sum_over_rows (m : mat) : list F := map csum m.
Definition mcc_cov (s : F) (v : list F) : F :=
  fold_left (fun acc x => acc +. x *. (s -. x)) v f0 .
Definition mcc (m : mat) : F :=
  let s := msum m in
  mcc_cov_xy m /. sqrt o (mcc_cov s (sum_over_rows m)) /. sqrt o (mcc_cov s (sum_over_cols m)).

(** ** ROC curve, area under the curve, log-loss *)
Definition scored := (F * bool)%type.

(* any sort: the unstable sort of the code can only permute equal scores, which the loop below
   cannot distinguish *)
Fixpoint ins_sc (p : scored) (l : list scored) : list scored :=
  match l with
  | [] => [p]
  | q :: t => if ltb o (fst p) (fst q) then p :: l else q :: ins_sc p t
  end.
Definition sort_sc (l : list scored) : list scored := fold_right ins_sc [] l.

(* state: tp, fp, s0 (None = the initial -infinity), pushed points, thresholds *)
Record roc_state := { r_tp : F; r_fp : F; r_s0 : option F; r_pts : list (F * F); r_ths : list F }.

Definition roc_step (eps : F) (st : roc_state) (p : scored) : roc_state :=
  let s := fst p in
  let push := match r_s0 st with
              | None => true
              | Some s0 => ltb o eps (abs o (s -. s0))
              end in
  let st1 := if push
             then {| r_tp := r_tp st; r_fp := r_fp st; r_s0 := Some s;
                     r_pts := r_pts st ++ [(r_tp st, r_fp st)]; r_ths := r_ths st ++ [s] |}
             else st in
  if snd p
  then {| r_tp := r_tp st1 +. f1; r_fp := r_fp st1; r_s0 := r_s0 st1; r_pts := r_pts st1; r_ths := r_ths st1 |}
  else {| r_tp := r_tp st1; r_fp := r_fp st1 +. f1; r_s0 := r_s0 st1; r_pts := r_pts st1; r_ths := r_ths st1 |}.

Definition roc_init : roc_state := {| r_tp := f0; r_fp := f0; r_s0 := None; r_pts := []; r_ths := [] |}.

(* the unnormalised points (cumulative counts below each threshold, then the totals) *)
Definition roc_raw (eps : F) (sorted : list scored) : roc_state :=
  let st := fold_left (roc_step eps) sorted roc_init in
  {| r_tp := r_tp st; r_fp := r_fp st; r_s0 := r_s0 st;
     r_pts := r_pts st ++ [(r_tp st, r_fp st)]; r_ths := r_ths st |}.

Definition roc_prepare (ps : list scored) : list scored :=
  sort_sc (filter (fun p => leb o f0 (fst p)) ps).

Definition roc (eps : F) (ps : list scored) : list (F * F) * list F :=
  let st := roc_raw eps (roc_prepare ps) in
  (map (fun q => (fst q /. r_tp st, snd q /. r_fp st)) (r_pts st), r_ths st).

Definition trapezoidal (vals : list (F * F)) : F :=
  match vals with
  | [] => f0                      (* the code indexes vals[0]; a curve is never empty *)
  | v0 :: rest =>
      snd (fold_left (fun st v => let '((px, py), integral) := st in
                                  ((fst v, snd v), integral +. ((fst v -. px) *. (py +. snd v)) /. two))
                     rest ((fst v0, snd v0), f0))
  end.
Definition auc (eps : F) (ps : list scored) : F := trapezoidal (fst (roc eps ps)).

Definition clamp (lo hi x : F) : F := if ltb o x lo then lo else if ltb o hi x then hi else x.

Section WithLn.
Context (ln : F -> F).
(* None = Err(NotEnoughSamples) *)
Definition log_loss (feps : F) (ps : list scored) : option F :=
  match ps with
  | [] => None
  | _ => Some (fsum (map (fun p : scored => let a := clamp feps (f1 -. feps) (fst p) in
                                   if snd p then opp o (ln a) else opp o (ln (f1 -. a))) ps)
               /. ofn (length ps))
  end.
End WithLn.

(** ** Regression scores *)
Definition vsub (a b : list F) : list F := map (fun p => fst p -. snd p) (combine a b).
Definition cmean (xs : list F) : option F :=
  match xs with [] => None | _ => Some (csum xs /. ofn (length xs)) end.
(* mean of the compared-to view: contiguous, or a strided column of a multi-target matrix *)
Definition tmean (strided : bool) (xs : list F) : option F :=
  match xs with
  | [] => None
  | _ => Some ((if strided then ssum xs else csum xs) /. ofn (length xs))
  end.
Definition fmax (a b : F) : F := if ltb o a b then b else a.

(* fold(-inf, max) over |d|; on a non-empty vector of numbers this is the fold from the first *)
Definition max_error (a b : list F) : option F :=
  match map (abs o) (vsub a b) with
  | [] => None
  | x :: t => Some (fold_left fmax t x)
  end.
Definition mean_absolute_error (a b : list F) : option F := cmean (map (abs o) (vsub a b)).
Definition mean_squared_error (a b : list F) : option F := cmean (map sq (vsub a b)).

Fixpoint ins_f (x : F) (l : list F) : list F :=
  match l with
  | [] => [x]
  | y :: t => if ltb o x y then x :: l else y :: ins_f x t
  end.
Definition sort_f (l : list F) : list F := fold_right ins_f [] l.
Definition median_absolute_error (a b : list F) : option F :=
  let e := sort_f (map (abs o) (vsub a b)) in
  let n := length e in
  let mid := Nat.div n 2 in
  match n with
  | O => None                           (* the code panics on an empty vector *)
  | _ => Some (if Nat.even n then (nth (mid - 1) e f0 +. nth mid e f0) /. two else nth mid e f0)
  end.
Definition mean_absolute_percentage_error (a b : list F) : option F :=
  cmean (map (fun p => abs o ((fst p -. snd p) /. fst p)) (combine a b)).

Definition sst (mean : F) (b : list F) : F := csum (map (fun x => (x -. mean) *. (x -. mean)) b).
Definition r2 (c10 : F) (strided : bool) (a b : list F) : option F :=
  match tmean strided b with
  | None => None
  | Some mean => Some (f1 -. csum (map sq (vsub a b)) /. (sst mean b +. c10))
  end.
(* as written in the code (finding F2): the mean residual itself is subtracted from the sum of squares *)
Definition explained_variance (c10 : F) (strided : bool) (a b : list F) : option F :=
  let d := vsub a b in
  match tmean strided b, cmean d with
  | Some mean, Some mean_error =>
      Some (f1 -. (csum (map sq d) -. mean_error) /. (sst mean b +. c10))
  | _, _ => None
  end.
Definition mean_squared_log_error (ln : F -> F) (a b : list F) : option F :=
  mean_squared_error (map (fun x => ln (f1 +. x)) a) (map (fun x => ln (f1 +. x)) b).

(** ** Silhouette score *)
Definition edist (x y : list F) : F := sqrt o (csum (map sq (vsub x y))).

Section Silhouette.
Context {L : Type} (leqb : L -> L -> bool).
Fixpoint distinct (ls : list L) (seen : list L) : list L :=
  match ls with
  | [] => rev seen
  | l :: t => if existsb (leqb l) seen then distinct t seen else distinct t (l :: seen)
  end.
Definition count_label (c : L) (ls : list L) : nat := length (filter (leqb c) ls).
(* total distance from [x] to the members of cluster [c], accumulated in sample order from 0 *)
Definition total_to (X : list (list F)) (ls : list L) (x : list F) (c : L) : F :=
  fold_left (fun acc yl => if leqb c (snd yl) then acc +. edist x (fst yl) else acc) (combine X ls) f0 .
Definition min_opt (b : option F) (v : F) : option F :=
  match b with None => Some v | Some w => if ltb o v w then Some v else Some w end.

Definition sample_score (X : list (list F)) (ls cs : list L) (x : list F) (l : L) : F :=
  let cnt := count_label l ls in
  let a := if Nat.eqb cnt 1 then f0 else total_to X ls x l /. ofn (cnt - 1) in
  let b := fold_left (fun b c => if leqb l c then b
                                 else min_opt b (total_to X ls x c /. ofn (count_label c ls)))
                     cs None in
  match b with
  | None => f0                   (* unreachable with two or more clusters (the code unwraps) *)
  | Some b => if leb o b a then (b -. a) /. a else (b -. a) /. b
  end.

Definition silhouette (X : list (list F)) (ls : list L) : F :=
  let cs := distinct ls [] in
  if Nat.eqb (length cs) 1 then f1
  else fsum (map (fun xl => sample_score X ls cs (fst xl) (snd xl)) (combine X ls)) /. ofn (length X).
End Silhouette.

(** ** Pearson correlation coefficients *)
Section Pearson.
Context (fma : F -> F -> F -> F).     (* a * b + c with a single rounding *)
Definition ncols (X : list (list F)) : nat := match X with [] => O | r :: _ => length r end.
Definition xcol (X : list (list F)) (j : nat) : list F := map (fun r => nth j r f0) X.
(* mean_axis(Axis(0)): zeros + row_0 + row_1 + ... , then / n *)
Definition col_means (X : list (list F)) : list F :=
  map (fun j => seq_sum o (xcol X j) /. ofn (length X)) (seq 0 (ncols X)).
Definition denoise (X : list (list F)) : list (list F) :=
  let mu := col_means X in map (fun r => map (fun p => fst p -. snd p) (combine r mu)) X.
(* the matrix product entry; the implementation's summation order is that of the BLAS-like
   kernel and is reproduced only where every partial sum is exact *)
Definition dotp (a b : list F) : F := seq_sum o (map (fun p => fst p *. snd p) (combine a b)).
(* ndarray's var_axis: Welford's recurrence with a fused multiply-add *)
Definition welford (xs : list F) : F * F * N :=
  fold_left (fun st x => let '(mean, ssq, i) := st in
                         let count := of_N o (N.succ i) in
                         let delta := x -. mean in
                         let mean' := mean +. delta /. count in
                         (mean', fma (x -. mean') delta ssq, N.succ i))
            xs (f0, f0, 0%N).
Definition var1 (xs : list F) : F :=
  let '(_, ssq, _) := welford xs in ssq /. (ofn (length xs) -. f1).
Definition pearson (X : list (list F)) : list F :=
  let D := denoise X in
  let p := ncols X in
  let n1 := ofn (length X - 1) in
  let sd := map (fun j => sqrt o (var1 (xcol D j))) (seq 0 p) in
  flat_map (fun i => map (fun j => dotp (xcol D i) (xcol D j) /. n1 /. nth i sd f0 /. nth j sd f0)
                         (seq (S i) (p - S i)))
           (seq 0 p).
End Pearson.

(** * Specifications from first principles (plain sums, textbook formulas) *)
Definition sum_s (xs : list F) : F := fold_right (add o) f0 xs.
Definition mean_s (xs : list F) : F := sum_s xs /. ofn (length xs).

Definition mae_spec (a b : list F) : F := mean_s (map (abs o) (vsub a b)).
Definition mse_spec (a b : list F) : F := mean_s (map sq (vsub a b)).
Definition mape_spec (a b : list F) : F := mean_s (map (fun p => abs o ((fst p -. snd p) /. fst p)) (combine a b)).
Definition sse_spec (a b : list F) : F := sum_s (map sq (vsub a b)).
Definition sst_spec (b : list F) : F := let m := mean_s b in sum_s (map (fun y => sq (y -. m)) b).
Definition r2_spec (c10 : F) (a b : list F) : F := f1 -. sse_spec a b /. (sst_spec b +. c10).
(* explained variance: 1 - Var(y - yhat) / Var(y), both variances as sums of centred squares *)
Definition ev_spec (c10 : F) (a b : list F) : F :=
  let d := vsub a b in
  let m := mean_s d in
  f1 -. sum_s (map (fun e => sq (e -. m)) d) /. (sst_spec b +. c10).
Definition msle_spec (ln : F -> F) (a b : list F) : F :=
  mse_spec (map (fun x => ln (f1 +. x)) a) (map (fun x => ln (f1 +. x)) b).
Definition log_loss_spec (ln : F -> F) (feps : F) (ps : list scored) : F :=
  mean_s (map (fun p : scored => let a := clamp feps (f1 -. feps) (fst p) in
                        opp o (ln (if snd p then a else f1 -. a))) ps).

(* Mann-Whitney: twice the number of (negative, positive) pairs ranked correctly, ties counting once *)
Definition mw_pair (sn sp : F) : nat := if ltb o sn sp then 2 else if eqb o sn sp then 1 else 0.
Definition mw2 (ps : list scored) : nat :=
  fold_right (fun (p : scored) acc => if snd p
                           then (fold_right (fun (q : scored) acc' => if snd q then acc' else (mw_pair (fst q) (fst p) + acc')%nat) O ps + acc)%nat
                           else acc) O ps.
Definition npos (ps : list scored) : nat := length (filter (fun p : scored => snd p) ps).
Definition nneg (ps : list scored) : nat := length (filter (fun p : scored => negb (snd p)) ps).
Definition auc_spec (ps : list scored) : F := ofn (mw2 ps) /. (two *. (ofn (npos ps) *. ofn (nneg ps))).

(* the grouping the ROC loop performs on sorted scores: a score opens a new group when it is more
   than eps away from the score that opened the current group (the anchor, i.e. the last
   threshold); [snap_sc] replaces every score by the anchor of its group *)
Definition anchor_sc (eps : F) (a : option F) (s : F) : F :=
  match a with
  | None => s
  | Some a0 => if ltb o eps (abs o (s -. a0)) then s else a0
  end.
Fixpoint snap_sc (eps : F) (a : option F) (l : list scored) : list scored :=
  match l with
  | [] => []
  | p :: t => let a' := anchor_sc eps a (fst p) in (a', snd p) :: snap_sc eps (Some a') t
  end.
Definition grouped_sc (eps : F) (ps : list scored) : list scored := snap_sc eps None (roc_prepare ps).

(* confusion-matrix scores as functions of integer cells c[i][j] (given as a matrix over F) *)
Definition rowsum_s (m : mat) (i : nat) : F := sum_s (nth i m []).
Definition colsum_s (m : mat) (j : nat) : F := sum_s (col m j).
Definition total_s (m : mat) : F := sum_s (map sum_s m).
Definition trace_s (m : mat) : F := sum_s (diag m).
Definition mcc_spec (m : mat) : F :=
  let idx := seq 0 (length m) in
  let s := total_s m in
  (trace_s m *. s -. sum_s (map (fun k => rowsum_s m k *. colsum_s m k) idx))
  /. sqrt o (s *. s -. sum_s (map (fun k => sq (rowsum_s m k)) idx))
  /. sqrt o (s *. s -. sum_s (map (fun k => sq (colsum_s m k)) idx)).
Definition fbeta_spec (beta p r : F) : F := ((f1 +. beta *. beta) *. (p *. r)) /. (beta *. beta *. p +. r).

(* textbook silhouette: a = mean distance to the other members of the own cluster,
   b = smallest mean distance to another cluster, s = (b - a) / max(a, b) *)
Section SilSpec.
Context {L : Type} (leqb : L -> L -> bool).
Definition members (X : list (list F)) (ls : list L) (c : L) : list (list F) :=
  map fst (filter (fun yl => leqb c (snd yl)) (combine X ls)).
Definition mean_dist_to (X : list (list F)) (ls : list L) (x : list F) (c : L) (denom : nat) : F :=
  sum_s (map (edist x) (members X ls c)) /. ofn denom.
Definition min_list (d : F) (xs : list F) : F :=
  match xs with [] => d | x :: t => fold_left (fun a b => if ltb o b a then b else a) t x end.
Definition sil_sample_spec (X : list (list F)) (ls cs : list L) (x : list F) (l : L) : F :=
  let a := mean_dist_to X ls x l (count_label leqb l ls - 1) in
  let b := min_list f0 (map (fun c => mean_dist_to X ls x c (count_label leqb c ls))
                            (filter (fun c => negb (leqb l c)) cs)) in
  (b -. a) /. (if ltb o a b then b else a).
Definition silhouette_spec (X : list (list F)) (ls : list L) : F :=
  let cs := distinct leqb ls [] in
  mean_s (map (fun xl => sil_sample_spec X ls cs (fst xl) (snd xl)) (combine X ls)).
End SilSpec.

(* textbook Pearson coefficient of two columns *)
Definition cov_s (x y : list F) : F :=
  let mx := mean_s x in let my := mean_s y in
  sum_s (map (fun p => (fst p -. mx) *. (snd p -. my)) (combine x y)).
Definition pearson_pair_spec (x y : list F) : F :=
  cov_s x y /. (sqrt o (cov_s x x) *. sqrt o (cov_s y y)).

End Num.
