(** C05 - lemmas about the layout-aware scores and the multi-target application (C05/ModelExt.v). *)
From Coq Require Import List NArith Bool Reals Lra Lia Permutation.
From LinfaVerif Require Import Common.Num Common.NdSum C05.Model C05.ModelExt C05.Proofs.
Import ListNotations.
Local Open Scope R_scope.

(** * The boolean `strided` flag of Model.v is the two-layout special case *)
Lemma r2_l_contig {F} (o : NumOps F) c a b : r2_l o c LContig a b = r2 o c false a b.
Proof. reflexivity. Qed.
Lemma r2_l_strided {F} (o : NumOps F) c a b : r2_l o c LStrided a b = r2 o c true a b.
Proof. reflexivity. Qed.
Lemma ev_l_contig {F} (o : NumOps F) c a b : explained_variance_l o c LContig a b = explained_variance o c false a b.
Proof. reflexivity. Qed.
Lemma ev_l_strided {F} (o : NumOps F) c a b : explained_variance_l o c LStrided a b = explained_variance o c true a b.
Proof. reflexivity. Qed.

(** * Over the reals no layout changes a sum *)
Lemma Rsum_rev l : Rsum (rev l) = Rsum l.
Proof. induction l as [|x l IH]; [reflexivity|]. simpl. rewrite Rsum_app, IH. simpl. lra. Qed.

Lemma lsum_R lay l : lsum R_ops lay l = Rsum l.
Proof. destruct lay; simpl; [apply csum_R | apply ssum_R | rewrite csum_R; apply Rsum_rev]. Qed.

Lemma lmean_R lay l : l <> [] -> lmean R_ops lay l = Some (mean_s R_ops l).
Proof. destruct l; [congruence|]. intros _. unfold lmean, mean_s. rewrite lsum_R. reflexivity. Qed.

Lemma sst_lorder_R lay m b : sst R_ops m (lorder lay b) = Rsum (map (fun x => (x - m) * (x - m)) b).
Proof.
  rewrite sst_R. destruct lay; simpl; try reflexivity. rewrite map_rev. apply Rsum_rev.
Qed.

Lemma r2_l_eq c lay a b : b <> [] -> r2_l R_ops c lay a b = Some (r2_spec R_ops c a b).
Proof.
  intros Hb. unfold r2_l. rewrite lmean_R by auto. unfold r2_spec, sse_spec, sst_spec.
  rewrite sst_lorder_R, csum_R. reflexivity.
Qed.

Lemma ev_l_layout_free c lay a b : explained_variance_l R_ops c lay a b = explained_variance R_ops c false a b.
Proof.
  unfold explained_variance_l, explained_variance. destruct b as [|y b].
  - reflexivity.
  - rewrite (lmean_R lay (y :: b)) by discriminate. rewrite (tmean_R false (y :: b)) by discriminate.
    destruct (cmean R_ops (vsub R_ops a (y :: b))); [|reflexivity].
    rewrite sst_lorder_R, sst_R. reflexivity.
Qed.

(** * collect *)
Lemma collect_some_iff {A} (l : list (option A)) r : collect l = Some r <-> l = map Some r.
Proof.
  revert r. induction l as [|x l IH]; intros r.
  - simpl. split; [intros H; inversion H; reflexivity | intros H; destruct r; [reflexivity | discriminate]].
  - destruct x as [x|]; simpl.
    + destruct (collect l) as [r'|] eqn:E.
      * split.
        -- intros H. inversion H; subst. simpl. f_equal. apply IH. reflexivity.
        -- intros H. destruct r as [|y r]; [discriminate|]. simpl in H. injection H as Hx Hl. subst y.
           apply (proj2 (IH r)) in Hl. congruence.
      * split; [discriminate|]. intros H. destruct r as [|y r]; [discriminate|]. simpl in H. injection H as Hx Hl.
        apply (proj2 (IH r)) in Hl. discriminate.
    + split; [discriminate|]. intros H. destruct r; discriminate.
Qed.

Lemma collect_none_iff {A} (l : list (option A)) : collect l = None <-> In None l.
Proof.
  induction l as [|x l IH]; simpl; [split; [discriminate | tauto]|].
  destruct x as [x|].
  - destruct (collect l); split; try discriminate.
    + intros [H|H]; [discriminate|]. apply IH in H. discriminate.
    + intros _. right. apply IH. reflexivity.
    + intros _. reflexivity.
  - split; auto.
Qed.

(** * multi_target *)
Section Multi.
Context {F : Type} (o : NumOps F).

Lemma mcols_length q (M : list (list F)) : length (mcols o q M) = q.
Proof. unfold mcols. rewrite map_length, seq_length. reflexivity. Qed.

Lemma mcols_nth q (M : list (list F)) j : (j < q)%nat -> nth j (mcols o q M) [] = xcol o M j.
Proof. intros Hj. unfold mcols. apply nth_map_seq. exact Hj. Qed.

Lemma combine_mcols q (A B : list (list F)) :
  combine (mcols o q A) (mcols o q B) = map (fun j => (xcol o A j, xcol o B j)) (seq 0 q).
Proof. unfold mcols. generalize (seq 0 q). induction l as [|j l IH]; simpl; [reflexivity | rewrite IH; reflexivity]. Qed.

Lemma multi_target_unfold metric q A B :
  multi_target o metric q q A B = collect (map (fun j => metric (xcol o A j) (xcol o B j)) (seq 0 q)).
Proof. unfold multi_target. rewrite combine_mcols, map_map. reflexivity. Qed.

(* the zip of the two column iterators stops at the shorter one *)
Lemma combine_seq_min {X Y} (f : nat -> X) (g : nat -> Y) : forall qa qb s,
  combine (map f (seq s qa)) (map g (seq s qb)) = combine (map f (seq s (Nat.min qa qb))) (map g (seq s (Nat.min qa qb))).
Proof.
  induction qa as [|qa IH]; intros qb s; [reflexivity|].
  destruct qb as [|qb]; [reflexivity|]. simpl. f_equal. apply IH.
Qed.

Lemma multi_target_truncates metric qa qb A B :
  multi_target o metric qa qb A B = multi_target o metric (Nat.min qa qb) (Nat.min qa qb) A B.
Proof. unfold multi_target, mcols. rewrite combine_seq_min. reflexivity. Qed.

Lemma multi_target_columnwise metric q A B out (d : F) :
  multi_target o metric q q A B = Some out <->
  (length out = q /\ forall j, (j < q)%nat -> metric (xcol o A j) (xcol o B j) = Some (nth j out d)).
Proof.
  rewrite multi_target_unfold, collect_some_iff. split.
  - intros H. assert (Hl : length out = q).
    { apply (f_equal (@length _)) in H. rewrite !map_length, seq_length in H. auto. }
    split; [exact Hl|]. intros j Hj.
    apply (f_equal (fun l => nth j l None)) in H.
    rewrite (nth_map_seq (fun j => metric (xcol o A j) (xcol o B j)) q j None Hj) in H.
    rewrite H. rewrite (nth_indep _ None (Some d)) by (rewrite map_length; lia).
    apply (map_nth Some).
  - intros [Hl H]. apply (nth_ext _ _ None None).
    + rewrite !map_length, seq_length. auto.
    + intros j Hj. rewrite map_length, seq_length in Hj.
      rewrite (nth_map_seq (fun j => metric (xcol o A j) (xcol o B j)) q j None Hj), (H j Hj).
      rewrite (nth_indep _ None (Some d)) by (rewrite map_length; lia).
      symmetry. apply (map_nth Some).
Qed.

Lemma multi_target_fails_iff metric q A B :
  multi_target o metric q q A B = None <-> exists j, (j < q)%nat /\ metric (xcol o A j) (xcol o B j) = None.
Proof.
  rewrite multi_target_unfold, collect_none_iff, in_map_iff. split.
  - intros [j [H1 H2]]. apply in_seq in H2. exists j. split; [lia | exact H1].
  - intros [j [H1 H2]]. exists j. split; [exact H2 | apply in_seq; lia].
Qed.

Lemma xcol_length (M : list (list F)) j : length (xcol o M j) = length M.
Proof. unfold xcol. apply map_length. Qed.
End Multi.

(** a score that is defined on every non-empty column pair gives the vector of its values *)
Lemma multi_target_total (metric : list R -> list R -> option R) (spec : list R -> list R -> R) q A B :
  A <> [] -> B <> [] ->
  (forall a b, a <> [] -> b <> [] -> metric a b = Some (spec a b)) ->
  multi_target R_ops metric q q A B = Some (map (fun j => spec (xcol R_ops A j) (xcol R_ops B j)) (seq 0 q)).
Proof.
  intros HA HB Hm. rewrite multi_target_unfold. apply collect_some_iff. rewrite map_map.
  apply map_ext. intros j. apply Hm; unfold xcol; apply map_nonempty; assumption.
Qed.

(** * Non-vacuity: a 3 x 2 example, both column counts, evaluated over R *)
Example ex_multi_mae :
  multi_target R_ops (mean_absolute_error R_ops) 2 2 [[1; 10]; [2; 20]; [4; 40]] [[0; 10]; [4; 10]; [4; 10]]
  = Some [1; 40 / 3].
Proof.
  rewrite (multi_target_total _ (mae_spec R_ops)); try discriminate; [|exact mae_eq].
  unfold mae_spec, mean_s, sum_s, vsub, xcol, ofn; simpl. f_equal. f_equal; [|f_equal].
  - replace (1 - 0) with 1 by lra. replace (2 - 4) with (-2) by lra. replace (4 - 4) with 0 by lra.
    rewrite Rabs_R1, Rabs_R0. rewrite (Rabs_left (-2)) by lra. lra.
  - replace (10 - 10) with 0 by lra. replace (20 - 10) with 10 by lra. replace (40 - 10) with 30 by lra.
    rewrite Rabs_R0. rewrite !Rabs_right by lra. lra.
Qed.

Example ex_multi_truncates :
  multi_target R_ops (max_error R_ops) 2 1 [[1; 10]; [2; 20]] [[0]; [4]] = Some [2].
Proof.
  unfold multi_target, mcols, max_error, vsub, xcol, fmax; simpl.
  replace (1 - 0) with 1 by lra. replace (2 - 4) with (-2) by lra.
  rewrite Rabs_R1. rewrite (Rabs_left (-2)) by lra.
  unfold Rltb. destruct (Rlt_dec 1 (- -2)); [|lra]. do 2 f_equal. lra.
Qed.

Example ex_reversed_layout_real :
  r2_l R_ops 0 LReversed [1; 2; 4] [1; 2; 3] = Some (1 - 1 / 2).
Proof.
  rewrite r2_l_eq by discriminate. unfold r2_spec, sse_spec, sst_spec, mean_s, sum_s, vsub, sq, ofn; simpl. f_equal. lra.
Qed.
