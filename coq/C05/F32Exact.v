(** C05 - binary32 cell counts are exact: adding 1.0f32 to the binary32 value of k gives the
    binary32 value of k + 1, checked by computation (SpecFloat at precision 24) for every
    k below 2^18.  Kept in its own file because the computation takes about half a minute. *)
From Coq Require Import List NArith ZArith Bool Lia SpecFloat.
From LinfaVerif Require Import Common.Num Common.B32.
Lemma sf_eqb_eq a b : sf_eqb a b = true -> a = b.
Proof.
  destruct a as [s|s| |s m e], b as [t|t| |t n f]; simpl; intros H; try discriminate; auto.
  - apply Bool.eqb_prop in H. congruence.
  - apply Bool.eqb_prop in H. congruence.
  - apply andb_true_iff in H. destruct H as [H H3]. apply andb_true_iff in H. destruct H as [H1 H2].
    apply Bool.eqb_prop in H1. apply Pos.eqb_eq in H2. apply Z.eqb_eq in H3. congruence.
Qed.

Definition succ_exact (k : N) : bool :=
  sf_eqb (add B32_ops (of_N B32_ops k) (one B32_ops)) (of_N B32_ops (N.succ k)).

Definition chk_step (st : bool * N) : bool * N := (fst st && succ_exact (snd st), N.succ (snd st)).
Definition chk (n : N) : bool := fst (N.iter n chk_step (true, 0%N)).

Lemma chk_iter n : snd (N.iter n chk_step (true, 0%N)) = n /\
  (fst (N.iter n chk_step (true, 0%N)) = true -> forall k, (k < n)%N -> succ_exact k = true).
Proof.
  induction n as [|n IH] using N.peano_ind.
  - split; [reflexivity | intros _ k Hk; lia].
  - rewrite N.iter_succ. destruct IH as [I1 I2]. unfold chk_step at 1. cbn [fst snd]. rewrite I1. split; [reflexivity|].
    intros H k Hk. apply andb_true_iff in H. destruct H as [H1 H2].
    destruct (N.eq_dec k n) as [->|Hne]; [rewrite I1 in H2; exact H2 | apply I2; auto; lia].
Qed.

Lemma chk_sound n : chk n = true -> forall k, (k < n)%N -> succ_exact k = true.
Proof. unfold chk. exact (proj2 (chk_iter n)). Qed.

Lemma chk_262144 : chk 262144 = true.
Proof. vm_compute. reflexivity. Qed.

Lemma f32_succ_exact (k : N) : (k < 262144)%N ->
  add B32_ops (of_N B32_ops k) (one B32_ops) = of_N B32_ops (N.succ k).
Proof. intros Hk. apply sf_eqb_eq. exact (chk_sound 262144 chk_262144 k Hk). Qed.

(** adding 1.0f32 c times to +0.0 gives exactly the integer c *)
Lemma f32_count_exact (c : nat) : (N.of_nat c <= 262144)%N ->
  Nat.iter c (fun v => add B32_ops v (one B32_ops)) (zero B32_ops) = of_N B32_ops (N.of_nat c).
Proof.
  induction c as [|c IH]; intros Hc; [reflexivity|].
  change (Nat.iter (S c) (fun v => add B32_ops v (one B32_ops)) (zero B32_ops))
    with (add B32_ops (Nat.iter c (fun v => add B32_ops v (one B32_ops)) (zero B32_ops)) (one B32_ops)).
  rewrite IH by lia. rewrite Nnat.Nat2N.inj_succ. apply f32_succ_exact. lia.
Qed.
