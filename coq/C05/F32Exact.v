(** C05 - binary32 cell counts are exact: adding 1.0f32 to the binary32 value of k gives the
    binary32 value of k + 1 for every k below 2^24.  The standard library's executable SpecFloat
    functions at precision 24 / emax 128 (Common/B32.v) are related to Flocq's BinarySingleNaN
    operations (same argument as Flocq's IEEE754/PrimFloat.v gives for binary64), whose correctness
    theorems (Bplus_correct, binary_normalize_correct) say the result is the rounding of the exact
    sum; an integer below 2^24 is in the format (24-bit significand, exponent 0), so nothing is
    rounded. *)
From Coq Require Import List NArith ZArith Bool Lia Reals Lra SpecFloat.
From Flocq Require Import Core.Core IEEE754.BinarySingleNaN.
From LinfaVerif Require Import Common.Num Common.B32.

Lemma sf_eqb_eq a b : sf_eqb a b = true -> a = b.
Proof.
  destruct a as [s|s| |s m e], b as [t|t| |t n f]; simpl; intros H; try discriminate; auto.
  - apply Bool.eqb_prop in H. congruence.
  - apply Bool.eqb_prop in H. congruence.
  - apply andb_true_iff in H. destruct H as [H H3]. apply andb_true_iff in H. destruct H as [H1 H2].
    apply Bool.eqb_prop in H1. apply Pos.eqb_eq in H2. apply Z.eqb_eq in H3. congruence.
Qed.

(** * SpecFloat at (24, 128) = Flocq's binary32 with round-to-nearest-even *)
Local Instance Hprec32 : FLX.Prec_gt_0 p32 := eq_refl _.
Local Instance Hmax32 : Prec_lt_emax p32 e32 := eq_refl _.
Local Notation bf32 := (binary_float p32 e32).
Local Notation fexp32 := (SpecFloat.fexp p32 e32).

Lemma rne_equiv32 s m l : SpecFloat.round_nearest_even m l = choice_mode mode_NE s m l.
Proof.
  case l; [reflexivity|intro c]. case c; [ | reflexivity..].
  now simpl; unfold Round.cond_incr; case Z.even.
Qed.

Lemma binary_round_aux_equiv32 sx mx ex lx :
  SpecFloat.binary_round_aux p32 e32 sx mx ex lx = binary_round_aux p32 e32 mode_NE sx mx ex lx.
Proof.
  unfold SpecFloat.binary_round_aux, binary_round_aux.
  set (mrse' := shr_fexp _ _ _ _ _). case mrse'; intros mrs' e'; simpl.
  now rewrite (rne_equiv32 sx).
Qed.

Lemma binary_round_equiv32 s m e :
  SpecFloat.binary_round p32 e32 s m e = binary_round p32 e32 mode_NE s m e.
Proof.
  unfold SpecFloat.binary_round, binary_round, shl_align_fexp.
  set (mez := shl_align _ _ _); case mez as [mz ez]. apply binary_round_aux_equiv32.
Qed.

Lemma binary_normalize_equiv32 m e szero :
  SpecFloat.binary_normalize p32 e32 m e szero = B2SF (binary_normalize p32 e32 Hprec32 Hmax32 mode_NE m e szero).
Proof.
  case m as [ | p | p]; [now simpl | |]; simpl; rewrite B2SF_SF2B; apply binary_round_equiv32.
Qed.

Lemma SFadd_equiv32 (x y : bf32) : SFadd p32 e32 (B2SF x) (B2SF y) = B2SF (Bplus mode_NE x y).
Proof.
  destruct x as [sx|sx| |sx mx ex Bx], y as [sy|sy| |sy my ey By];
    try (now (trivial || simpl; case Bool.eqb)).
  apply binary_normalize_equiv32.
Qed.

(** * Integers below 2^24 are binary32 numbers; adding one is exact *)

Definition Bnat (k : N) : bf32 := binary_normalize p32 e32 Hprec32 Hmax32 mode_NE (Z.of_N k) 0 false.
Definition Bone : bf32 := @B754_finite p32 e32 false 8388608 (-23) (eq_refl true).

Lemma of_N_Bnat k : of_N B32_ops k = B2SF (Bnat k).
Proof.
  unfold Bnat. simpl. destruct k as [|p]; [reflexivity|]. simpl Z.of_N. unfold b32_of_Z.
  apply binary_normalize_equiv32.
Qed.
Lemma one_Bone : one B32_ops = B2SF Bone.
Proof. reflexivity. Qed.
Lemma B2R_Bone : B2R Bone = 1%R.
Proof. unfold Bone, B2R, F2R. simpl. lra. Qed.

Lemma int_format (z : Z) : (Z.abs z < 16777216)%Z -> generic_format radix2 fexp32 (IZR z).
Proof.
  intros Hz. apply generic_format_FLT. apply FLT_spec with (f := Float radix2 z 0).
  - unfold F2R; simpl. lra.
  - simpl. exact Hz.
  - simpl. unfold emin, e32, p32. lia.
Qed.

Lemma int_round (z : Z) : (Z.abs z < 16777216)%Z -> round radix2 fexp32 (round_mode mode_NE) (IZR z) = IZR z.
Proof. intros Hz. apply round_generic; [apply valid_rnd_round_mode | apply int_format; exact Hz]. Qed.

Lemma int_small (z : Z) : (Z.abs z < 16777216)%Z -> Rlt_bool (Rabs (IZR z)) (bpow radix2 e32) = true.
Proof.
  intros Hz. apply Rlt_bool_true. rewrite <- abs_IZR. change (bpow radix2 e32) with (IZR (2 ^ 128)).
  apply IZR_lt. assert (16777216 < 2 ^ 128)%Z by reflexivity. lia.
Qed.

Lemma Bnat_correct k : (k < 16777216)%N ->
  B2R (Bnat k) = IZR (Z.of_N k) /\ is_finite (Bnat k) = true /\ Bsign (Bnat k) = false.
Proof.
  intros Hk. assert (Hz : (Z.abs (Z.of_N k) < 16777216)%Z) by lia.
  generalize (binary_normalize_correct p32 e32 Hprec32 Hmax32 mode_NE (Z.of_N k) 0 false).
  fold (Bnat k). cbv zeta.
  replace (F2R (Float radix2 (Z.of_N k) 0)) with (IZR (Z.of_N k)) by (unfold F2R; simpl; lra).
  rewrite (int_round _ Hz), (int_small _ Hz). intros (H1 & H2 & H3). repeat split; auto.
  rewrite H3. destruct (Rcompare_spec (IZR (Z.of_N k)) 0) as [H|H|H]; auto.
  apply lt_IZR in H. lia.
Qed.

Lemma f32_succ_exact_lt (k : N) : (N.succ k < 16777216)%N ->
  add B32_ops (of_N B32_ops k) (one B32_ops) = of_N B32_ops (N.succ k).
Proof.
  intros Hk. rewrite !of_N_Bnat, one_Bone. change (add B32_ops) with (SFadd p32 e32).
  rewrite SFadd_equiv32. f_equal.
  destruct (Bnat_correct k ltac:(lia)) as (K1 & K2 & K3).
  destruct (Bnat_correct (N.succ k) Hk) as (S1 & S2 & S3).
  generalize (Bplus_correct p32 e32 Hprec32 Hmax32 mode_NE (Bnat k) Bone K2 (eq_refl true)).
  rewrite K1, B2R_Bone. rewrite <- (plus_IZR _ 1).
  replace (Z.of_N k + 1)%Z with (Z.of_N (N.succ k)) by lia.
  assert (Hz : (Z.abs (Z.of_N (N.succ k)) < 16777216)%Z) by lia.
  rewrite (int_round _ Hz), (int_small _ Hz). intros (P1 & P2 & P3).
  apply B2R_Bsign_inj; auto; [congruence|]. rewrite P3, S3.
  destruct (Rcompare_spec (IZR (Z.of_N (N.succ k))) 0) as [H|H|H]; auto.
  - apply lt_IZR in H. lia.
  - apply eq_IZR in H. lia.
Qed.

Lemma f32_succ_exact (k : N) : (k < 16777216)%N ->
  add B32_ops (of_N B32_ops k) (one B32_ops) = of_N B32_ops (N.succ k).
Proof.
  intros Hk. destruct (N.eq_dec k 16777215) as [->|Hne]; [vm_compute; reflexivity|].
  apply f32_succ_exact_lt. lia.
Qed.

(** adding 1.0f32 c times to +0.0 gives exactly the integer c *)
Lemma f32_count_exact (c : nat) : (N.of_nat c <= 16777216)%N ->
  Nat.iter c (fun v => add B32_ops v (one B32_ops)) (zero B32_ops) = of_N B32_ops (N.of_nat c).
Proof.
  induction c as [|c IH]; intros Hc; [reflexivity|].
  change (Nat.iter (S c) (fun v => add B32_ops v (one B32_ops)) (zero B32_ops))
    with (add B32_ops (Nat.iter c (fun v => add B32_ops v (one B32_ops)) (zero B32_ops)) (one B32_ops)).
  rewrite IH by lia. rewrite Nnat.Nat2N.inj_succ. apply f32_succ_exact. lia.
Qed.

(** the bound is sharp: 2^24 + 1 is not a binary32 number, the count stops growing *)
Lemma f32_succ_saturates : add B32_ops (of_N B32_ops 16777216) (one B32_ops) = of_N B32_ops 16777216.
Proof. vm_compute. reflexivity. Qed.
