(** C05 - the binary32 scores derived from a confusion matrix of integer counts.
    With at most 2^24 samples every cell, every row / column sum, the trace and the total are
    integers up to 2^24, hence binary32 numbers, and every addition / subtraction the code performs
    on them - in whatever order (`Iterator::sum`, ndarray's eight-lane `.sum()`) - is exact.
    `accuracy` and the binary `precision` / `recall` are therefore a *single* correctly rounded
    division of two exact integers: they equal round-to-nearest-even of the real quotient and are
    within 2^-24 (relative) of it.  Flocq's Bplus / Bminus / Bdiv correctness theorems are used
    through the SpecFloat = BinarySingleNaN equivalence of C05/F32Exact.v. *)
From Coq Require Import List NArith ZArith Bool Lia Reals Lra SpecFloat.
From Flocq Require Import Core.Core IEEE754.BinarySingleNaN.
From Flocq.Prop Require Import Relative.
From LinfaVerif Require Import Common.Num Common.NdSum Common.B32 C05.Model C05.F32Exact C05.Proofs.
Import ListNotations.

Local Existing Instance Hprec32.
Local Existing Instance Hmax32.
Local Notation bf32 := (binary_float p32 e32).
Local Notation fexp32 := (SpecFloat.fexp p32 e32).
Local Notation rnd32 := (round radix2 fexp32 (round_mode mode_NE)).

(** * More SpecFloat = Flocq equivalences at (24, 128) *)
Lemma SFsub_equiv32 (x y : bf32) : SFsub p32 e32 (B2SF x) (B2SF y) = B2SF (Bminus mode_NE x y).
Proof.
  destruct x as [sx|sx| |sx mx ex Bx], y as [sy|sy| |sy my ey By];
    try (now (trivial || simpl; case Bool.eqb)).
  simpl. unfold Zminus. rewrite <- cond_Zopp_negb. apply binary_normalize_equiv32.
Qed.

Lemma SFdiv_equiv32 (x y : bf32) : SFdiv p32 e32 (B2SF x) (B2SF y) = B2SF (Bdiv mode_NE x y).
Proof.
  destruct x as [sx|sx| |sx mx ex Bx], y as [sy|sy| |sy my ey By];
    try (now (trivial || simpl; case Bool.eqb)).
  simpl. rewrite B2SF_SF2B.
  set (melz := SFdiv_core_binary _ _ _ _ _ _). case melz as [[mz ez] lz].
  apply binary_round_aux_equiv32.
Qed.

(** * Integers up to 2^24 (inclusive) *)
Definition B24 : N := 16777216.

Lemma int_format' (z : Z) : (Z.abs z <= 16777216)%Z -> generic_format radix2 fexp32 (IZR z).
Proof.
  intros Hz. destruct (Z.eq_dec (Z.abs z) 16777216) as [E|E].
  - apply generic_format_FLT. apply FLT_spec with (f := Float radix2 (Z.sgn z) 24).
    + unfold F2R; simpl. rewrite <- mult_IZR. f_equal. lia.
    + simpl. lia.
    + simpl. unfold emin, e32, p32. lia.
  - apply int_format. lia.
Qed.

Lemma int_round' (z : Z) : (Z.abs z <= 16777216)%Z -> rnd32 (IZR z) = IZR z.
Proof. intros Hz. apply round_generic; [apply valid_rnd_round_mode | apply int_format'; exact Hz]. Qed.

Lemma int_small' (z : Z) : (Z.abs z <= 16777216)%Z -> Rlt_bool (Rabs (IZR z)) (bpow radix2 e32) = true.
Proof.
  intros Hz. apply Rlt_bool_true. rewrite <- abs_IZR. change (bpow radix2 e32) with (IZR (2 ^ 128)).
  apply IZR_lt. assert (16777216 < 2 ^ 128)%Z by reflexivity. lia.
Qed.

Lemma Bnat_correct' k : (k <= B24)%N ->
  B2R (Bnat k) = IZR (Z.of_N k) /\ is_finite (Bnat k) = true /\ Bsign (Bnat k) = false.
Proof.
  unfold B24. intros Hk. assert (Hz : (Z.abs (Z.of_N k) <= 16777216)%Z) by lia.
  generalize (binary_normalize_correct p32 e32 Hprec32 Hmax32 mode_NE (Z.of_N k) 0 false).
  fold (Bnat k). cbv zeta.
  replace (F2R (Float radix2 (Z.of_N k) 0)) with (IZR (Z.of_N k)) by (unfold F2R; simpl; lra).
  rewrite (int_round' _ Hz), (int_small' _ Hz). intros (H1 & H2 & H3). repeat split; auto.
  rewrite H3. destruct (Rcompare_spec (IZR (Z.of_N k)) 0) as [H|H|H]; auto.
  apply lt_IZR in H. lia.
Qed.

Lemma f32_add_int (a b : N) : (a + b <= B24)%N ->
  add B32_ops (of_N B32_ops a) (of_N B32_ops b) = of_N B32_ops (a + b).
Proof.
  unfold B24. intros H. rewrite !of_N_Bnat. change (add B32_ops) with (SFadd p32 e32).
  rewrite SFadd_equiv32. f_equal.
  destruct (Bnat_correct' a ltac:(unfold B24; lia)) as (A1 & A2 & A3).
  destruct (Bnat_correct' b ltac:(unfold B24; lia)) as (B1 & B2 & B3).
  destruct (Bnat_correct' (a + b) H) as (S1 & S2 & S3).
  generalize (Bplus_correct p32 e32 Hprec32 Hmax32 mode_NE (Bnat a) (Bnat b) A2 B2).
  rewrite A1, B1, <- plus_IZR.
  replace (Z.of_N a + Z.of_N b)%Z with (Z.of_N (a + b)) by lia.
  assert (Hz : (Z.abs (Z.of_N (a + b)) <= 16777216)%Z) by lia.
  rewrite (int_round' _ Hz), (int_small' _ Hz). intros (P1 & P2 & P3).
  apply B2R_Bsign_inj; auto; [congruence|]. rewrite P3, S3, A3, B3.
  destruct (Rcompare_spec (IZR (Z.of_N (a + b))) 0) as [C|C|C]; auto.
  apply lt_IZR in C. lia.
Qed.

Lemma f32_sub_int (a b : N) : (b <= a)%N -> (a <= B24)%N ->
  sub B32_ops (of_N B32_ops a) (of_N B32_ops b) = of_N B32_ops (a - b).
Proof.
  unfold B24. intros Hba Ha. rewrite !of_N_Bnat. change (sub B32_ops) with (SFsub p32 e32).
  rewrite SFsub_equiv32. f_equal.
  destruct (Bnat_correct' a Ha) as (A1 & A2 & A3).
  destruct (Bnat_correct' b ltac:(unfold B24; lia)) as (B1 & B2 & B3).
  destruct (Bnat_correct' (a - b) ltac:(unfold B24; lia)) as (S1 & S2 & S3).
  generalize (Bminus_correct p32 e32 Hprec32 Hmax32 mode_NE (Bnat a) (Bnat b) A2 B2).
  rewrite A1, B1, <- minus_IZR.
  replace (Z.of_N a - Z.of_N b)%Z with (Z.of_N (a - b)) by lia.
  assert (Hz : (Z.abs (Z.of_N (a - b)) <= 16777216)%Z) by lia.
  rewrite (int_round' _ Hz), (int_small' _ Hz). intros (P1 & P2 & P3).
  apply B2R_Bsign_inj; auto; [congruence|]. rewrite P3, S3, A3, B3.
  destruct (Rcompare_spec (IZR (Z.of_N (a - b))) 0) as [C|C|C]; auto.
  apply lt_IZR in C. lia.
Qed.

(** * Every summation order of the code is exact on such integers *)
Definition Nsum (l : list N) : N := fold_right N.add 0%N l.
Definition ofNs (l : list N) : list spec_float := map (of_N B32_ops) l.

Lemma Nsum_app a b : Nsum (a ++ b) = (Nsum a + Nsum b)%N.
Proof. induction a as [|x a IH]; simpl; [reflexivity | rewrite IH; lia]. Qed.

Lemma fold_left_int (r : list N) : forall a, (a + Nsum r <= B24)%N ->
  fold_left (add B32_ops) (ofNs r) (of_N B32_ops a) = of_N B32_ops (a + Nsum r).
Proof.
  induction r as [|x r IH]; intros a H; cbn [ofNs map fold_left Nsum fold_right] in *.
  - f_equal. lia.
  - fold (Nsum r) in *. fold (ofNs r). rewrite f32_add_int by lia. rewrite IH by lia. f_equal. lia.
Qed.

Lemma seq_sum_int l : (Nsum l <= B24)%N -> seq_sum B32_ops (ofNs l) = of_N B32_ops (Nsum l).
Proof. intros H. unfold seq_sum. change (zero B32_ops) with (of_N B32_ops 0). rewrite fold_left_int by lia. reflexivity. Qed.

Lemma ssum_int l : (Nsum l <= B24)%N -> ssum B32_ops (ofNs l) = of_N B32_ops (Nsum l).
Proof.
  intros H. unfold ssum. rewrite seq_sum_int by exact H.
  change (zero B32_ops) with (of_N B32_ops 0). rewrite f32_add_int by lia. reflexivity.
Qed.

Lemma chunks8_int : forall n xs pn, (length xs <= n)%nat -> length pn = 8%nat ->
  (Nsum pn + Nsum xs <= B24)%N ->
  exists pn' rn, chunks8 B32_ops (ofNs xs) (ofNs pn) = (ofNs pn', ofNs rn) /\ length pn' = 8%nat /\
                 (Nsum pn' + Nsum rn = Nsum pn + Nsum xs)%N.
Proof.
  induction n as [|n IH]; intros xs pn Hn Hp Hs.
  - destruct xs; [|simpl in Hn; lia]. exists pn, []. simpl. repeat split; auto.
  - destruct xs as [|x0 [|x1 [|x2 [|x3 [|x4 [|x5 [|x6 [|x7 t]]]]]]]];
      try (eexists pn, _; cbn [chunks8 ofNs map]; repeat split; [reflexivity | exact Hp]).
    destruct pn as [|p0 [|p1 [|p2 [|p3 [|p4 [|p5 [|p6 [|p7 [|p8 pn]]]]]]]]]; try discriminate Hp.
    cbn [ofNs map chunks8 combine fst snd].
    cbn [Nsum fold_right] in Hs.
    rewrite (f32_add_int p0 x0), (f32_add_int p1 x1), (f32_add_int p2 x2), (f32_add_int p3 x3),
      (f32_add_int p4 x4), (f32_add_int p5 x5), (f32_add_int p6 x6), (f32_add_int p7 x7) by lia.
    destruct (IH t [p0 + x0; p1 + x1; p2 + x2; p3 + x3; p4 + x4; p5 + x5; p6 + x6; p7 + x7]%N) as (pn' & rn & E & L & S).
    + simpl in Hn. lia.
    + reflexivity.
    + unfold Nsum in *. cbn [fold_right] in *. lia.
    + exists pn', rn. split; [exact E|]. split; [exact L|]. rewrite S. unfold Nsum. cbn [fold_right]. lia.
Qed.

Lemma usum_int l : (Nsum l <= B24)%N -> usum B32_ops (ofNs l) = of_N B32_ops (Nsum l).
Proof.
  intros H. unfold usum. change (zero B32_ops) with (of_N B32_ops 0).
  destruct (chunks8_int (length l) l [0; 0; 0; 0; 0; 0; 0; 0]%N) as (pn & rn & E & L & S); [lia | reflexivity | simpl; lia |].
  change [of_N B32_ops 0; of_N B32_ops 0; of_N B32_ops 0; of_N B32_ops 0; of_N B32_ops 0; of_N B32_ops 0; of_N B32_ops 0; of_N B32_ops 0]
    with (ofNs [0; 0; 0; 0; 0; 0; 0; 0]%N).
  rewrite E.
  destruct pn as [|p0 [|p1 [|p2 [|p3 [|p4 [|p5 [|p6 [|p7 [|p8 pn]]]]]]]]]; try discriminate L.
  cbn [ofNs map]. cbn [Nsum fold_right] in S. fold (Nsum rn) in S. simpl (Nsum [0;0;0;0;0;0;0;0]%N) in S.
  rewrite !f32_add_int by lia. fold (ofNs rn). rewrite fold_left_int by lia. f_equal. lia.
Qed.

Lemma csum_int l : (Nsum l <= B24)%N -> csum B32_ops (ofNs l) = of_N B32_ops (Nsum l).
Proof. apply usum_int. Qed.

(** * A correctly rounded quotient of two such integers *)
Definition R32 (x : spec_float) : R := SF2R radix2 x.
Definition u32 : R := bpow radix2 (-24).

Lemma rnd32_FLT x : rnd32 x = round radix2 (FLT_exp (-149) 24) ZnearestE x.
Proof. reflexivity. Qed.

Lemma f32_div_int (a b : N) : (a <= B24)%N -> (0 < b <= B24)%N ->
  let q := (IZR (Z.of_N a) / IZR (Z.of_N b))%R in
  let r := div B32_ops (of_N B32_ops a) (of_N B32_ops b) in
  R32 r = rnd32 q /\ (Rabs (R32 r - q) <= u32 * q)%R /\ is_finite_SF r = true.
Proof.
  intros Ha Hb q r.
  destruct (Bnat_correct' a Ha) as (A1 & A2 & A3).
  destruct (Bnat_correct' b ltac:(lia)) as (B1 & B2 & B3).
  assert (Hbpos : (0 < IZR (Z.of_N b))%R) by (apply IZR_lt; lia).
  assert (Hapos : (0 <= IZR (Z.of_N a))%R) by (apply IZR_le; lia).
  assert (Hq0 : (0 <= q)%R).
  { unfold q, Rdiv. apply Rmult_le_pos; [exact Hapos | left; apply Rinv_0_lt_compat; exact Hbpos]. }
  assert (Hqle : (q <= IZR 16777216)%R).
  { unfold q. apply (Rmult_le_reg_r (IZR (Z.of_N b))); [exact Hbpos|].
    unfold Rdiv. rewrite Rmult_assoc, Rinv_l, Rmult_1_r by lra.
    assert (IZR (Z.of_N a) <= IZR 16777216)%R by (apply IZR_le; unfold B24 in Ha; lia).
    assert (1 <= IZR (Z.of_N b))%R by (apply IZR_le; lia). nra. }
  assert (Hr0 : (0 <= rnd32 q)%R).
  { rewrite <- (round_0 radix2 fexp32 (round_mode mode_NE)).
    apply round_le; [apply (fexp_correct p32 e32 Hprec32) | apply valid_rnd_round_mode | exact Hq0]. }
  assert (Hrle : (rnd32 q <= IZR 16777216)%R).
  { rewrite <- (int_round' 16777216) by lia.
    apply round_le; [apply (fexp_correct p32 e32 Hprec32) | apply valid_rnd_round_mode | exact Hqle]. }
  assert (Hsmall : Rlt_bool (Rabs (rnd32 q)) (bpow radix2 e32) = true).
  { apply Rlt_bool_true. rewrite Rabs_pos_eq by exact Hr0.
    apply Rle_lt_trans with (1 := Hrle). change (bpow radix2 e32) with (IZR (2 ^ 128)). apply IZR_lt. reflexivity. }
  assert (Hnz : B2R (Bnat b) <> 0%R) by (rewrite B1; lra).
  generalize (Bdiv_correct p32 e32 Hprec32 Hmax32 mode_NE (Bnat a) (Bnat b) Hnz).
  rewrite A1, B1. fold q. rewrite Hsmall. intros (D1 & D2 & _).
  assert (Er : r = B2SF (Bdiv mode_NE (Bnat a) (Bnat b))).
  { unfold r. rewrite !of_N_Bnat. change (div B32_ops) with (SFdiv p32 e32). apply SFdiv_equiv32. }
  assert (ER : R32 r = rnd32 q). { rewrite Er. unfold R32. rewrite SF2R_B2SF. exact D1. }
  split; [exact ER|]. split.
  - rewrite ER. destruct (Req_dec q 0) as [Z|NZ].
    + rewrite Z, round_0 by (apply valid_rnd_round_mode). rewrite Rminus_0_r, Rabs_R0. lra.
    + assert (Hqlow : (bpow radix2 (-24) <= q)%R).
      { assert (Ha1 : (1 <= IZR (Z.of_N a))%R).
        { apply IZR_le. assert (Z.of_N a <> 0)%Z; [|lia]. intros E. apply NZ. unfold q. rewrite E. unfold Rdiv. lra. }
        assert (Hb24 : (IZR (Z.of_N b) <= IZR 16777216)%R) by (apply IZR_le; unfold B24 in Hb; lia).
        change (bpow radix2 (-24)) with (/ IZR 16777216)%R.
        unfold q, Rdiv. apply Rle_trans with (1 * / IZR (Z.of_N b))%R.
        - rewrite Rmult_1_l. apply Rinv_le_contravar; [exact Hbpos | exact Hb24].
        - apply Rmult_le_compat_r; [left; apply Rinv_0_lt_compat; exact Hbpos | exact Ha1]. }
      rewrite rnd32_FLT.
      generalize (relative_error_N_FLT radix2 (-149) 24 ltac:(reflexivity) (fun x => negb (Z.even x)) q).
      rewrite (Rabs_pos_eq q) by exact Hq0.
      intros HH. apply Rle_trans with (/ 2 * bpow radix2 (- (24) + 1) * q)%R.
      * apply HH. apply Rle_trans with (2 := Hqlow). apply bpow_le. lia.
      * apply Rmult_le_compat_r; [exact Hq0|]. unfold u32.
        change (/ 2)%R with (bpow radix2 (-1)). rewrite <- bpow_plus. apply bpow_le. lia.
  - rewrite Er. rewrite is_finite_SF_B2SF. rewrite D2. exact A2.
Qed.

(** * Matrices of integer counts *)
Definition ofNm (M : list (list N)) : list (list spec_float) := map ofNs M.
Definition getN (M : list (list N)) (i j : nat) : N := nth j (nth i M []) 0%N.
Definition totalN (M : list (list N)) : N := Nsum (concat M).
Definition traceN (M : list (list N)) : N := Nsum (map (fun i => getN M i i) (seq 0 (length M))).

Lemma get_ofNm M i j : get B32_ops (ofNm M) i j = of_N B32_ops (getN M i j).
Proof.
  unfold get, ofNm, getN. change (@nil spec_float) with (ofNs []). rewrite map_nth.
  unfold ofNs. change (zero B32_ops) with (of_N B32_ops 0). rewrite map_nth. reflexivity.
Qed.

Lemma msum_ofNm M : (totalN M <= B24)%N -> msum B32_ops (ofNm M) = of_N B32_ops (totalN M).
Proof. intros H. unfold msum, ofNm. unfold ofNs at 1. rewrite <- concat_map. apply csum_int. exact H. Qed.

Lemma diag_ofNm M : diag B32_ops (ofNm M) = ofNs (map (fun i => getN M i i) (seq 0 (length M))).
Proof.
  unfold diag, ofNs. rewrite map_map. unfold ofNm at 2. rewrite map_length.
  apply map_ext. intros i. apply get_ofNm.
Qed.

Lemma nth_le_Nsum l j : (nth j l 0 <= Nsum l)%N.
Proof.
  revert j. induction l as [|x l IH]; intros [|j]; simpl; try lia. specialize (IH j). lia.
Qed.

Lemma Nsum_concat M : Nsum (concat M) = Nsum (map Nsum M).
Proof. induction M as [|r M IH]; simpl; [reflexivity | rewrite Nsum_app, IH; reflexivity]. Qed.

Lemma Nsum_map_le {A} (f g : A -> N) l : (forall x, In x l -> (f x <= g x)%N) -> (Nsum (map f l) <= Nsum (map g l))%N.
Proof.
  induction l as [|x l IH]; intros H; simpl; [lia|].
  assert (f x <= g x)%N by (apply H; left; reflexivity).
  assert (Nsum (map f l) <= Nsum (map g l))%N by (apply IH; intros y Hy; apply H; right; exact Hy). lia.
Qed.

Lemma traceN_le_totalN M : (traceN M <= totalN M)%N.
Proof.
  unfold traceN, totalN. rewrite Nsum_concat.
  assert (E : map Nsum M = map (fun i => Nsum (nth i M [])) (seq 0 (length M))).
  { rewrite <- (map_map (fun i => nth i M []) Nsum). rewrite map_nth_seq. reflexivity. }
  rewrite E. apply Nsum_map_le. intros i _. apply nth_le_Nsum.
Qed.

Lemma accuracy_ofNm M : (totalN M <= B24)%N ->
  accuracy B32_ops (ofNm M) = div B32_ops (of_N B32_ops (traceN M)) (of_N B32_ops (totalN M)).
Proof.
  intros H. pose proof (traceN_le_totalN M) as Ht. unfold accuracy.
  rewrite diag_ofNm, ssum_int, msum_ofNm; [reflexivity | exact H | fold (traceN M); lia].
Qed.

(** the binary scores of the first class: one addition of two cells, one division *)
Lemma binary_cells_le (M : list (list N)) : length M = 2%nat ->
  (getN M 0 0 + getN M 1 0 <= totalN M)%N /\ (getN M 0 0 + getN M 0 1 <= totalN M)%N.
Proof.
  destruct M as [|r0 [|r1 [|r2 M]]]; try discriminate. intros _.
  unfold getN, totalN. cbn [nth concat]. rewrite !Nsum_app. simpl (Nsum []).
  pose proof (nth_le_Nsum r0 0) as H00. pose proof (nth_le_Nsum r1 0) as H10.
  split; [lia|].
  destruct r0 as [|x [|y r0]]; simpl; lia.
Qed.

Lemma precision_recall_ofNm (M : list (list N)) : length M = 2%nat -> (totalN M <= B24)%N ->
  precision B32_ops (ofNm M) = div B32_ops (of_N B32_ops (getN M 0 0)) (of_N B32_ops (getN M 0 0 + getN M 1 0)) /\
  recall B32_ops (ofNm M) = div B32_ops (of_N B32_ops (getN M 0 0)) (of_N B32_ops (getN M 0 0 + getN M 0 1)).
Proof.
  intros Hk Ht. destruct (binary_cells_le M Hk) as [H1 H2].
  assert (Hl : length (ofNm M) = 2%nat) by (unfold ofNm; rewrite map_length; exact Hk).
  unfold precision, recall, is_binary. rewrite Hl. cbn [Nat.eqb].
  unfold precision_bin, recall_bin. rewrite !get_ofNm. rewrite !f32_add_int by lia. split; reflexivity.
Qed.

(** * The binary32 confusion matrix of two label vectors is the matrix of the pair counts *)
Section Labels.
Context {L : Type} (lltb leqb : L -> L -> bool) (HL : label_order lltb leqb).

Definition countsN (pred truth : list L) : list (list N) :=
  let cs := classes lltb leqb pred truth in
  map (fun a => map (fun b => N.of_nat (count_pairs leqb a b pred truth)) cs) cs.

Lemma cm_count_f32_matrix pred truth : (N.of_nat (length pred) <= B24)%N ->
  cm_count B32_ops leqb (classes lltb leqb pred truth) pred truth = ofNm (countsN pred truth).
Proof.
  intros Hn. set (cs := classes lltb leqb pred truth).
  destruct (cm_count_wf leqb B32_ops cs pred truth) as [W1 W2].
  assert (Hc : length (countsN pred truth) = length cs) by (unfold countsN; fold cs; rewrite map_length; reflexivity).
  apply (nth_ext _ _ [] []).
  - rewrite W1. unfold ofNm. rewrite map_length. symmetry. exact Hc.
  - intros i Hi. rewrite W1 in Hi.
    assert (Hri : length (nth i (cm_count B32_ops leqb cs pred truth) []) = length cs).
    { rewrite Forall_forall in W2. apply W2. apply nth_In. rewrite W1. exact Hi. }
    destruct cs as [|d0 cs0] eqn:Ecs; [simpl in Hi; lia|]. rewrite <- Ecs in *.
    assert (Hrow : nth i (countsN pred truth) [] = map (fun b => N.of_nat (count_pairs leqb (nth i cs d0) b pred truth)) cs).
    { unfold countsN. fold cs.
      rewrite (nth_indep _ [] ((fun a => map (fun b => N.of_nat (count_pairs leqb a b pred truth)) cs) d0)) by (rewrite map_length; exact Hi).
      apply (map_nth (fun a => map (fun b => N.of_nat (count_pairs leqb a b pred truth)) cs)). }
    apply (nth_ext _ _ (zero B32_ops) (zero B32_ops)).
    + rewrite Hri. unfold ofNm. change (@nil spec_float) with (ofNs []). rewrite map_nth, Hrow.
      unfold ofNs. rewrite !map_length. reflexivity.
    + intros j Hj. rewrite Hri in Hj.
      change (nth j (nth i (cm_count B32_ops leqb cs pred truth) []) (zero B32_ops))
        with (get B32_ops (cm_count B32_ops leqb cs pred truth) i j).
      change (nth j (nth i (ofNm (countsN pred truth)) []) (zero B32_ops)) with (get B32_ops (ofNm (countsN pred truth)) i j).
      rewrite get_ofNm. unfold getN. rewrite Hrow.
      rewrite (nth_indep _ 0%N ((fun b => N.of_nat (count_pairs leqb (nth i cs d0) b pred truth)) d0)) by (rewrite map_length; exact Hj).
      rewrite (map_nth (fun b => N.of_nat (count_pairs leqb (nth i cs d0) b pred truth))).
      assert (Hle : forall a b, (N.of_nat (count_pairs leqb a b pred truth) <= 16777216)%N).
      { intros a b. pose proof (count_pairs_le leqb a b pred truth). unfold B24 in Hn. lia. }
      apply (cm_cells_f32 lltb leqb HL pred truth i j d0 Hi Hj). apply Hle.
Qed.

Lemma getN_counts pred truth i j d0 :
  let cs := classes lltb leqb pred truth in
  (i < length cs)%nat -> (j < length cs)%nat ->
  getN (countsN pred truth) i j = N.of_nat (count_pairs leqb (nth i cs d0) (nth j cs d0) pred truth).
Proof.
  intros cs Hi Hj. unfold getN, countsN. fold cs.
  rewrite (nth_indep _ [] ((fun a => map (fun b => N.of_nat (count_pairs leqb a b pred truth)) cs) d0)) by (rewrite map_length; exact Hi).
  rewrite (map_nth (fun a => map (fun b => N.of_nat (count_pairs leqb a b pred truth)) cs)).
  rewrite (nth_indep _ 0%N ((fun b => N.of_nat (count_pairs leqb (nth i cs d0) b pred truth)) d0)) by (rewrite map_length; exact Hj).
  apply (map_nth (fun b => N.of_nat (count_pairs leqb (nth i cs d0) b pred truth))).
Qed.

(* sums of natural-number counts, transported to R *)
Lemma INR_Nsum (l : list N) : INR (N.to_nat (Nsum l)) = Rsum (map (fun x => INR (N.to_nat x)) l).
Proof.
  induction l as [|x l IH]; [reflexivity|]. cbn [Nsum fold_right map Rsum]. fold (Nsum l).
  rewrite Nnat.N2Nat.inj_add, plus_INR, IH. reflexivity.
Qed.

Lemma totalN_counts pred truth : length pred = length truth ->
  totalN (countsN pred truth) = N.of_nat (length pred).
Proof.
  intros Hlen. destruct HL as [H1 H2 H3 H4].
  apply Nnat.N2Nat.inj. rewrite Nnat.Nat2N.id. apply INR_eq.
  unfold totalN. rewrite Nsum_concat, INR_Nsum. unfold countsN. rewrite !map_map.
  rewrite <- (count_pairs_total leqb H1 (classes lltb leqb pred truth) pred truth); auto.
  - apply Rsum_map_ext. intros a _. rewrite INR_Nsum, map_map.
    apply Rsum_map_ext. intros b _. rewrite Nnat.Nat2N.id. reflexivity.
  - apply (classes_nodup lltb leqb H1 H2 H3 H4).
  - intros x Hx. apply (in_classes lltb leqb H1). exact Hx.
Qed.

Lemma traceN_counts pred truth : length pred = length truth ->
  traceN (countsN pred truth) = N.of_nat (count_eq leqb pred truth).
Proof.
  intros Hlen. destruct HL as [H1 H2 H3 H4].
  apply Nnat.N2Nat.inj. rewrite Nnat.Nat2N.id. apply INR_eq.
  unfold traceN. rewrite INR_Nsum, map_map.
  set (cs := classes lltb leqb pred truth).
  assert (Hc : length (countsN pred truth) = length cs) by (unfold countsN; fold cs; rewrite map_length; reflexivity).
  rewrite Hc.
  rewrite <- (count_pairs_diag leqb H1 cs pred truth); auto.
  - destruct cs as [|d0 cs0] eqn:Ecs; [reflexivity|]. rewrite <- Ecs in *.
    rewrite <- (map_seq_nth (fun a => INR (count_pairs leqb a a pred truth)) cs d0).
    apply Rsum_map_ext. intros i Hi. apply in_seq in Hi.
    rewrite (getN_counts pred truth i i d0) by (fold cs; lia). rewrite Nnat.Nat2N.id. reflexivity.
  - apply (classes_nodup lltb leqb H1 H2 H3 H4).
  - intros x Hx. apply (in_classes lltb leqb H1). exact Hx.
Qed.
End Labels.

(** * One-vs-all splits of a matrix of integer counts are exact *)
Definition rowN (M : list (list N)) (i : nat) : N := Nsum (nth i M []).
Definition colN (M : list (list N)) (j : nat) : N := Nsum (map (fun r => nth j r 0%N) M).
Definition ovaN (M : list (list N)) : list (list (list N)) :=
  map (fun i => let tp := getN M i i in
                [[tp; rowN M i - tp]; [colN M i - tp; totalN M - tp - (rowN M i - tp) - (colN M i - tp)]]%N)
      (seq 0 (length M)).

Lemma col_ofNm M j : col B32_ops (ofNm M) j = ofNs (map (fun r => nth j r 0%N) M).
Proof.
  unfold col, ofNm, ofNs. rewrite !map_map. apply map_ext. intros r.
  change (zero B32_ops) with (of_N B32_ops 0). apply map_nth.
Qed.

Lemma row_ofNm M i : nth i (ofNm M) [] = ofNs (nth i M []).
Proof. unfold ofNm. change (@nil spec_float) with (ofNs []). apply map_nth. Qed.

Lemma colN_le_total M j : (colN M j <= totalN M)%N.
Proof.
  unfold colN, totalN. rewrite Nsum_concat. apply Nsum_map_le. intros r _. apply nth_le_Nsum.
Qed.

Lemma rowN_nth M i : rowN M i = nth i (map Nsum M) 0%N.
Proof. unfold rowN. change 0%N with (Nsum []). symmetry. apply map_nth. Qed.

Lemma getN_col M i j : getN M i j = nth i (map (fun r => nth j r 0%N) M) 0%N.
Proof.
  unfold getN. replace 0%N with ((fun r => nth j r 0%N) []) at 2 by (destruct j; reflexivity).
  symmetry. apply (map_nth (fun r => nth j r 0%N)).
Qed.

Lemma getN_le_col M i : (getN M i i <= colN M i)%N.
Proof. rewrite getN_col. unfold colN. apply nth_le_Nsum. Qed.

Lemma rowN_le_total M i : (rowN M i <= totalN M)%N.
Proof. rewrite rowN_nth. unfold totalN. rewrite Nsum_concat. apply nth_le_Nsum. Qed.

(* the cells outside row i and column i: row i + column i - m_ii <= total *)
Lemma cross_le_total M i : (i < length M)%nat -> (rowN M i + colN M i <= totalN M + getN M i i)%N.
Proof.
  intros Hi. destruct (nth_split M [] Hi) as (M1 & M2 & E & L1).
  unfold rowN, colN, totalN, getN. set (r := nth i M []) in *. clearbody r.
  rewrite E. rewrite concat_app, map_app. cbn [concat map]. rewrite !Nsum_app. cbn [Nsum fold_right].
  fold (Nsum (map (fun r0 => nth i r0 0%N) M2)).
  assert (H1 : (Nsum (map (fun r0 => nth i r0 0%N) M1) <= Nsum (concat M1))%N).
  { rewrite Nsum_concat. apply Nsum_map_le. intros x _. apply nth_le_Nsum. }
  assert (H2 : (Nsum (map (fun r0 => nth i r0 0%N) M2) <= Nsum (concat M2))%N).
  { rewrite Nsum_concat. apply Nsum_map_le. intros x _. apply nth_le_Nsum. }
  lia.
Qed.

Lemma ova_ofNm M : (totalN M <= B24)%N ->
  split_one_vs_all B32_ops (ofNm M) = map ofNm (ovaN M).
Proof.
  intros Ht. unfold split_one_vs_all, ovaN. rewrite msum_ofNm by exact Ht.
  assert (Hl : length (ofNm M) = length M) by (unfold ofNm; apply map_length).
  rewrite Hl. rewrite map_map. apply map_ext_in. intros i Hi. apply in_seq in Hi.
  pose proof (rowN_le_total M i) as HR. pose proof (colN_le_total M i) as HC.
  pose proof (cross_le_total M i ltac:(lia)) as HX.
  assert (Htr : (getN M i i <= rowN M i)%N) by (unfold getN, rowN; apply nth_le_Nsum).
  pose proof (getN_le_col M i) as Htc.
  rewrite get_ofNm, row_ofNm, col_ofNm.
  rewrite csum_int by (fold (rowN M i); lia). rewrite ssum_int by (fold (colN M i); lia).
  fold (rowN M i) (colN M i).
  rewrite (f32_sub_int (rowN M i)) by lia. rewrite (f32_sub_int (colN M i)) by lia.
  rewrite (f32_sub_int (totalN M)) by lia.
  rewrite (f32_sub_int (totalN M - getN M i i)) by lia.
  rewrite (f32_sub_int (totalN M - getN M i i - (rowN M i - getN M i i))) by lia.
  reflexivity.
Qed.

Lemma getN_bin00 (a b c d : N) : getN [[a; b]; [c; d]] 0 0 = a. Proof. reflexivity. Qed.
Lemma getN_bin10 (a b c d : N) : getN [[a; b]; [c; d]] 1 0 = c. Proof. reflexivity. Qed.
Lemma getN_bin01 (a b c d : N) : getN [[a; b]; [c; d]] 0 1 = b. Proof. reflexivity. Qed.

(** macro-averaged precision / recall (three or more classes, or one): every summand is a quotient
    of two exact integers, m_ii / column sum and m_ii / row sum *)
Lemma precision_recall_macro_ofNm M : length M <> 2%nat -> (totalN M <= B24)%N ->
  precision B32_ops (ofNm M) =
    div B32_ops (fsum B32_ops (map (fun i => div B32_ops (of_N B32_ops (getN M i i)) (of_N B32_ops (colN M i))) (seq 0 (length M))))
                (of_N B32_ops (N.of_nat (length M))) /\
  recall B32_ops (ofNm M) =
    div B32_ops (fsum B32_ops (map (fun i => div B32_ops (of_N B32_ops (getN M i i)) (of_N B32_ops (rowN M i))) (seq 0 (length M))))
                (of_N B32_ops (N.of_nat (length M))).
Proof.
  intros Hk Ht.
  assert (Hl : length (ofNm M) = length M) by (unfold ofNm; apply map_length).
  unfold precision, recall, is_binary. rewrite Hl.
  destruct (Nat.eqb_spec (length M) 2) as [E|_]; [contradiction|].
  rewrite (ova_ofNm M Ht). unfold ovaN. rewrite !map_map. unfold ofn.
  split; f_equal; f_equal; apply map_ext_in; intros i Hi; apply in_seq in Hi.
  - unfold precision_bin. rewrite !get_ofNm, getN_bin00, getN_bin10.
    pose proof (colN_le_total M i) as HC.
    pose proof (getN_le_col M i) as Htc.
    rewrite f32_add_int by lia. do 2 f_equal. lia.
  - unfold recall_bin. rewrite !get_ofNm, getN_bin00, getN_bin01.
    pose proof (rowN_le_total M i) as HR.
    assert (Htr : (getN M i i <= rowN M i)%N) by (unfold getN, rowN; apply nth_le_Nsum).
    rewrite f32_add_int by lia. do 2 f_equal. lia.
Qed.

(** non-vacuity: three samples, two equal labels - the binary32 accuracy is the binary32 number nearest to 2/3 *)
Example ex_accuracy_f32_labels :
  accuracy B32_ops (cm_count B32_ops N.eqb (classes N.ltb N.eqb [1; 0; 1]%N [1; 1; 1]%N) [1; 0; 1]%N [1; 1; 1]%N)
  = S754_finite false 11184811 (-24) /\
  totalN (countsN N.ltb N.eqb [1; 0; 1]%N [1; 1; 1]%N) = 3%N /\ traceN (countsN N.ltb N.eqb [1; 0; 1]%N [1; 1; 1]%N) = 2%N.
Proof. vm_compute. repeat split; reflexivity. Qed.
