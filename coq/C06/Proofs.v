(** C06 - lemmas about the kernel / adjacency / view / replay model.  Structural facts hold for every
    NumOps instance; arithmetic facts are proved for the real-number instance R_ops. *)
From Coq Require Import List NArith Bool Arith Reals Lra Lia Permutation Sorted Floats.
From LinfaVerif Require Import Common.Num Common.NdSum C06.Model.
Import ListNotations.

(** * generic list facts *)
Lemma nth_map_lt {A B} (f : A -> B) l i d d' : i < length l -> nth i (map f l) d = f (nth i l d').
Proof. revert i; induction l as [|a l IH]; intros [|i] H; simpl in *; try lia; auto. apply IH; lia. Qed.

Lemma map_nth_seq {A B} (f : A -> B) (l : list A) d :
  map (fun j => f (nth j l d)) (seq 0 (length l)) = map f l.
Proof.
  induction l as [|a l IH]; simpl; auto. f_equal.
  rewrite <- seq_shift, map_map. exact IH.
Qed.

Lemma map2_length {A B C} (f : A -> B -> C) a : forall b, length (map2 f a b) = Nat.min (length a) (length b).
Proof. induction a as [|x a IH]; intros [|y b]; simpl; auto. Qed.

Lemma map2_nth {A B C} (f : A -> B -> C) a : forall b i d da db,
  i < length a -> i < length b -> nth i (map2 f a b) d = f (nth i a da) (nth i b db).
Proof.
  induction a as [|x a IH]; intros [|y b] [|i] d da db Ha Hb; simpl in *; try lia; auto.
  apply IH; lia.
Qed.

Lemma skipn_seq_nth {A} (l : list A) d : forall k,
  skipn k l = map (fun j => nth j l d) (seq k (length l - k)).
Proof.
  induction l as [|a l IH]; intros k.
  - destruct k; reflexivity.
  - destruct k as [|k].
    + simpl. f_equal. rewrite <- seq_shift, map_map. simpl.
      specialize (IH 0). simpl in IH. rewrite Nat.sub_0_r in IH. exact IH.
    + simpl. rewrite (IH k). rewrite <- seq_shift, map_map. reflexivity.
Qed.

(** * kernel entries *)
Section Entries.
Context {F : Type} (o : NumOps F) (tr : F -> F).

Lemma dense_length m (X : list (list F)) : length (dense o tr m X) = length X.
Proof. unfold dense. apply map_length. Qed.

Lemma dense_row_length m (X : list (list F)) i : i < length X -> length (nth i (dense o tr m X) []) = length X.
Proof. intros H. unfold dense. rewrite (nth_map_lt _ _ _ _ []); auto. apply map_length. Qed.

(** entry (i,j) of the dense kernel matrix is the kernel function of rows i and j *)
Lemma dense_entry_l m (X : list (list F)) i j d : i < length X -> j < length X ->
  nth j (nth i (dense o tr m X) []) d = kernel_entry o tr m (nth i X []) (nth j X []).
Proof.
  intros Hi Hj. unfold dense. rewrite (nth_map_lt _ _ _ _ []); auto.
  rewrite (nth_map_lt _ _ _ _ []); auto.
Qed.

(** the stored values of the sparse kernel are the kernel entries of their positions *)
Lemma sparse_rows_spec m (X : list (list F)) pat i : i < length X -> i < length pat ->
  nth i (sparse_rows o tr m X pat) [] =
  map (fun j => (j, kernel_entry o tr m (nth i X []) (nth j X []))) (nth i pat []).
Proof. intros Hi Hp. unfold sparse_rows. rewrite (map2_nth _ _ _ _ _ [] []); auto. Qed.

Lemma sparse_rows_length m (X : list (list F)) pat : length pat = length X -> length (sparse_rows o tr m X pat) = length X.
Proof. intros H. unfold sparse_rows. rewrite map2_length, H. apply Nat.min_id. Qed.
End Entries.

(** ** real arithmetic: symmetry and the unit diagonal *)
Local Open Scope R_scope.

Lemma map2_comm_R (f : R -> R -> R) : (forall x y, f x y = f y x) -> forall a b, map2 f a b = map2 f b a.
Proof. intros H a; induction a as [|x a IH]; intros [|y b]; simpl; auto. rewrite H, IH. reflexivity. Qed.

Lemma kernel_entry_sym_R tr m (a b : list R) : kernel_entry R_ops tr m a b = kernel_entry R_ops tr m b a.
Proof.
  assert (L : lin R_ops a b = lin R_ops b a).
  { unfold lin. f_equal. apply map2_comm_R. intros; simpl; ring. }
  destruct m as [|eps|c d]; simpl; auto.
  - f_equal. f_equal. f_equal. f_equal. apply map2_comm_R. intros; simpl; ring.
  - unfold kernel_arg. simpl. f_equal. f_equal. exact L.
Qed.

Lemma fold_zero_R (f : R -> R -> R) : (forall x, f x x = 0) -> forall a acc, fold_left Rplus (map2 f a a) acc = acc.
Proof. intros H a; induction a as [|x a IH]; intros acc; simpl; auto. rewrite H, Rplus_0_r. apply IH. Qed.

Lemma gaussian_self_R tr eps (a : list R) : tr 0 = 1 -> kernel_entry R_ops tr (KGauss eps) a a = 1.
Proof.
  intros H. simpl. unfold kernel_arg, nsum. simpl.
  rewrite (fold_zero_R (fun x y => (x - y) * (x - y))); [|intros; ring].
  replace (- - 0 / eps) with 0 by (unfold Rdiv; ring). exact H.
Qed.
Local Close Scope R_scope.

(** * adjacency *)
Lemma insert_In x y l : In x (insert y l) <-> x = y \/ In x l.
Proof.
  induction l as [|z l IH]; simpl.
  - intuition.
  - destruct (y <=? z); simpl; [intuition|]. rewrite IH. intuition.
Qed.

Lemma isort_In x l : In x (isort l) <-> In x l.
Proof.
  induction l as [|y l IH]; simpl; [tauto|]. rewrite insert_In, IH. intuition.
Qed.

Lemma memb_In x l : memb x l = true <-> In x l.
Proof.
  unfold memb. rewrite existsb_exists. split.
  - intros [y [H1 H2]]. apply Nat.eqb_eq in H2. subst; auto.
  - intros H. exists x. split; auto. apply Nat.eqb_refl.
Qed.

Lemma adj_row_In j m nb : In j (adj_row m nb) <-> j = m \/ In j nb.
Proof.
  unfold adj_row. rewrite isort_In. simpl. rewrite filter_In, isort_In. split.
  - intros [H|[H _]]; auto.
  - intros [H|H]; auto. destruct (Nat.eq_dec j m) as [E|E]; auto.
    right. split; auto. apply negb_true_iff, Nat.eqb_neq. exact E.
Qed.

Lemma adj_rows_length nbrs : length (adj_rows nbrs) = length nbrs.
Proof. unfold adj_rows. rewrite map_length, seq_length. reflexivity. Qed.

Lemma adj_rows_nth nbrs i : i < length nbrs -> nth i (adj_rows nbrs) [] = adj_row i (nth i nbrs []).
Proof.
  intros H. unfold adj_rows. rewrite (nth_map_lt _ _ _ _ 0) by (rewrite seq_length; auto).
  rewrite seq_nth; auto.
Qed.

Lemma transpose_pat_length n A : length (transpose_pat n A) = n.
Proof. unfold transpose_pat. rewrite map_length, seq_length. reflexivity. Qed.

Lemma transpose_pat_In n A i j : j < n ->
  (In i (nth j (transpose_pat n A) []) <-> i < n /\ In j (nth i A [])).
Proof.
  intros H. unfold transpose_pat. rewrite (nth_map_lt _ _ _ _ 0) by (rewrite seq_length; auto).
  rewrite seq_nth by auto. simpl. rewrite filter_In, in_seq, memb_In. intuition lia.
Qed.

Lemma merge_In x a : forall b, In x (merge a b) <-> In x a \/ In x b.
Proof.
  induction a as [|y a IHa]; intros b.
  - destruct b; simpl; tauto.
  - induction b as [|z b IHb].
    + simpl. tauto.
    + simpl. destruct (y <? z) eqn:E1.
      * simpl. rewrite IHa. simpl. tauto.
      * destruct (z <? y) eqn:E2.
        -- simpl. simpl in IHb. rewrite IHb. tauto.
        -- simpl. rewrite IHa.
           assert (y = z) by (apply Nat.ltb_ge in E1, E2; lia). subst. tauto.
Qed.

Lemma adjacency_length nbrs : length (adjacency nbrs) = length nbrs.
Proof. unfold adjacency. rewrite map2_length, adj_rows_length, transpose_pat_length. apply Nat.min_id. Qed.

(** the stored positions of the adjacency matrix: the diagonal, and every pair in which one point is
    among the neighbours returned for the other *)
Lemma adjacency_In nbrs i j : i < length nbrs -> j < length nbrs ->
  (In j (nth i (adjacency nbrs) []) <-> i = j \/ In j (nth i nbrs []) \/ In i (nth j nbrs [])).
Proof.
  intros Hi Hj. unfold adjacency.
  rewrite (map2_nth _ _ _ _ _ [] []) by (rewrite ?adj_rows_length, ?transpose_pat_length; auto).
  rewrite merge_In, transpose_pat_In by auto.
  rewrite !adj_rows_nth by auto. rewrite !adj_row_In. intuition.
Qed.

(** * views *)
Definition upper_pairs (n : nat) : list (nat * nat) :=
  concat (map (fun i => map (fun j => (i, j)) (seq (S i) (n - S i))) (seq 0 n)).

(** the upper triangle lists the entries (i,j), i < j, row by row *)
Lemma d_upper_order {F} (M : list (list F)) d :
  (forall i, i < length M -> length (nth i M []) = length M) ->
  d_upper M = map (fun p => nth (snd p) (nth (fst p) M []) d) (upper_pairs (length M)).
Proof.
  intros H. unfold d_upper, upper_pairs. rewrite concat_map, map_map. f_equal.
  apply map_ext_in. intros i Hi. apply in_seq in Hi. rewrite map_map. cbn [fst snd].
  rewrite (skipn_seq_nth _ d). rewrite H by lia. reflexivity.
Qed.

Lemma upper_pairs_spec n i j : In (i, j) (upper_pairs n) <-> i < j /\ j < n.
Proof.
  unfold upper_pairs. rewrite in_concat. split.
  - intros [l [Hl Hp]]. apply in_map_iff in Hl as [i' [El Hi']]. subst l.
    apply in_map_iff in Hp as [j' [Ep Hj']]. inversion Ep; subst. apply in_seq in Hi', Hj'. lia.
  - intros [H1 H2]. exists (map (fun j => (i, j)) (seq (S i) (n - S i))). split.
    + apply in_map_iff. exists i. split; auto. apply in_seq. lia.
    + apply in_map_iff. exists j. split; auto. apply in_seq. lia.
Qed.

Section Views.
Context {F : Type} (o : NumOps F).

Lemma s_to_dense_length n (rows : list (@srow F)) : length (s_to_dense o n rows) = length rows.
Proof. unfold s_to_dense. apply map_length. Qed.

Lemma s_to_dense_nth n (rows : list (@srow F)) i j : i < length rows -> j < n ->
  nth j (nth i (s_to_dense o n rows) []) (zero o) =
  match s_lookup j (nth i rows []) with Some v => v | None => zero o end.
Proof.
  intros Hi Hj. unfold s_to_dense. rewrite (nth_map_lt _ rows i [] []) by auto. cbv beta.
  rewrite (nth_map_lt _ _ _ _ 0) by (rewrite seq_length; auto). rewrite seq_nth by auto. reflexivity.
Qed.

Lemma s_to_dense_row_length n (rows : list (@srow F)) i : i < length rows -> length (nth i (s_to_dense o n rows) []) = n.
Proof.
  intros Hi. unfold s_to_dense. rewrite (nth_map_lt _ rows i [] []) by auto. cbv beta. rewrite map_length, seq_length. reflexivity.
Qed.

(** the diagonal reported for a CSR kernel is the diagonal of its dense form *)
Lemma s_diag_dense n (rows : list (@srow F)) : length rows = n -> s_diag o n rows = d_diag o (s_to_dense o n rows).
Proof.
  intros H. unfold s_diag, d_diag. rewrite s_to_dense_length, H. apply map_ext_in.
  intros i Hi. apply in_seq in Hi. rewrite s_to_dense_nth by lia. reflexivity.
Qed.

Lemma s_upper_dense n (rows : list (@srow F)) : s_upper o n rows = d_upper (s_to_dense o n rows).
Proof. reflexivity. Qed.
End Views.

(** over the reals the column view (which fills absent entries with -0) is the dense column *)
Lemma s_column_dense_R n (rows : list (@srow R)) i : length rows = n -> i < n ->
  s_column R_ops n rows i = d_column R_ops (s_to_dense R_ops n rows) i.
Proof.
  intros H Hi. unfold s_column, d_column, s_to_dense. rewrite map_map. rewrite <- H.
  rewrite (map_nth_seq (fun row => match s_lookup i row with Some v => v | None => opp R_ops (zero R_ops) end) rows []).
  apply map_ext. intros row. rewrite (nth_map_lt _ _ _ _ 0) by (rewrite seq_length; lia).
  rewrite seq_nth by lia. simpl. destruct (s_lookup i row); auto. apply Ropp_0.
Qed.

(** * merge replay *)
Section Replay.
Context {F : Type} (o : NumOps F).

(** with a distance criterion exactly the leading steps below the threshold are performed *)
Lemma replay_threshold_prefix d (steps : list (@step F)) : forall cl ct,
  replay o (CDist d) steps cl ct = merge_all (take_while (fun s => negb (leb o d (s_d s))) steps) cl ct.
Proof.
  induction steps as [|s r IH]; intros cl ct; simpl; auto.
  destruct (leb o d (s_d s)); simpl; auto. destruct (merge_step cl ct s); auto.
Qed.

Lemma remove_key_length k : forall (cl : clusters) m cl', remove_key k cl = Some (m, cl') -> length cl = S (length cl').
Proof.
  induction cl as [|[k' m'] t IH]; intros m cl' H; simpl in H; [discriminate|].
  destruct (k' =? k).
  - inversion H; subst; reflexivity.
  - destruct (remove_key k t) as [[m2 t2]|] eqn:E; [|discriminate]. inversion H; subst. simpl. f_equal. eapply IH; eauto.
Qed.

Lemma remove_key_perm k : forall (cl : clusters) m cl', remove_key k cl = Some (m, cl') ->
  Permutation (concat (map snd cl)) (m ++ concat (map snd cl')).
Proof.
  induction cl as [|[k' m'] t IH]; intros m cl' H; simpl in H; [discriminate|].
  destruct (k' =? k).
  - inversion H; subst; simpl. apply Permutation_refl.
  - destruct (remove_key k t) as [[m2 t2]|] eqn:E; [|discriminate]. inversion H; subst. simpl.
    specialize (IH _ _ eq_refl). rewrite IH. rewrite !app_assoc. apply Permutation_app_tail. apply Permutation_app_comm.
Qed.

Lemma remove_key_forall (P : nat * list nat -> Prop) k : forall (cl : clusters) m cl',
  remove_key k cl = Some (m, cl') -> Forall P cl -> (exists k', P (k', m)) /\ Forall P cl'.
Proof.
  induction cl as [|[k' m'] t IH]; intros m cl' H HP; simpl in H; [discriminate|].
  inversion HP as [|? ? P1 P2]; subst. destruct (k' =? k).
  - inversion H; subst. split; eauto.
  - destruct (remove_key k t) as [[m2 t2]|] eqn:E; [|discriminate]. inversion H; subst.
    destruct (IH _ _ eq_refl P2) as [Q1 Q2]. split; auto.
Qed.

Lemma remove_key_keys k : forall (cl : clusters) m cl', remove_key k cl = Some (m, cl') ->
  NoDup (map fst cl) -> map fst cl' = filter (fun a => negb (a =? k)) (map fst cl).
Proof.
  induction cl as [|[k' m'] t IH]; intros m cl' H ND; simpl in H; [discriminate|].
  simpl in ND. inversion ND as [|? ? N1 N2]; subst. simpl. destruct (k' =? k) eqn:E.
  - inversion H; subst. simpl. apply Nat.eqb_eq in E. subst k'.
    symmetry. rewrite (proj2 (filter_ext_in_iff _ (fun _ => true) (map fst cl'))).
    + clear. induction (map fst cl'); simpl; auto. f_equal; auto.
    + intros a Ha. apply negb_true_iff, Nat.eqb_neq. intro; subst. contradiction.
  - destruct (remove_key k t) as [[m2 t2]|] eqn:E2; [|discriminate]. inversion H; subst. simpl.
    f_equal. eapply IH; eauto.
Qed.

Lemma remove_key_some k : forall (cl : clusters), In k (map fst cl) -> exists m cl', remove_key k cl = Some (m, cl').
Proof.
  induction cl as [|[k' m'] t IH]; intros H; simpl in *; [tauto|].
  destruct (k' =? k) eqn:E; eauto. destruct H as [H|H]; [apply Nat.eqb_neq in E; congruence|].
  destruct (IH H) as [m [cl' E2]]. rewrite E2. eauto.
Qed.

Lemma merge_step_length (cl : clusters) ct (s : @step F) cl' : merge_step cl ct s = Some cl' -> length cl = S (length cl').
Proof.
  unfold merge_step. destruct (remove_key (s_c1 s) cl) as [[m1 cl1]|] eqn:E1; [|discriminate].
  destruct (remove_key (s_c2 s) cl1) as [[m2 cl2]|] eqn:E2; [|discriminate].
  intros H; inversion H; subst. apply remove_key_length in E1, E2. rewrite app_length. simpl. lia.
Qed.

(** number of clusters left by the cluster-count criterion *)
Lemma replay_num_length k (steps : list (@step F)) : forall cl ct cl',
  replay o (CNum k) steps cl ct = Some cl' ->
  length cl' = Nat.max (Nat.min k (length cl)) (length cl - length steps).
Proof.
  induction steps as [|s r IH]; intros cl ct cl' H; simpl in H.
  - inversion H; subst. simpl. lia.
  - destruct (length cl <=? k) eqn:E.
    + inversion H; subst. apply Nat.leb_le in E. simpl. lia.
    + apply Nat.leb_gt in E. destruct (merge_step cl ct s) as [cl1|] eqn:M; [|discriminate].
      apply merge_step_length in M. apply IH in H. simpl. lia.
Qed.

(** invariant of the cluster map: the member lists partition 0..n-1 and none is empty *)
Definition good (n : nat) (cl : clusters) : Prop :=
  Permutation (concat (map snd cl)) (seq 0 n) /\ Forall (fun p => snd p <> []) cl.

Lemma init_good n : good n (init_clusters n).
Proof.
  unfold good, init_clusters. split.
  - rewrite map_map. simpl. induction (seq 0 n); simpl; auto.
  - apply Forall_forall. intros p Hp. apply in_map_iff in Hp as [i [E _]]. subst. simpl. discriminate.
Qed.

Lemma merge_step_good n (cl : clusters) ct (s : @step F) cl' : merge_step cl ct s = Some cl' -> good n cl -> good n cl'.
Proof.
  unfold merge_step. destruct (remove_key (s_c1 s) cl) as [[m1 cl1]|] eqn:E1; [|discriminate].
  destruct (remove_key (s_c2 s) cl1) as [[m2 cl2]|] eqn:E2; [|discriminate].
  intros H [G1 G2]; inversion H; subst. split.
  - rewrite map_app, concat_app. simpl. rewrite app_nil_r.
    rewrite <- G1. rewrite (remove_key_perm _ _ _ _ E1). rewrite (remove_key_perm _ _ _ _ E2).
    rewrite Permutation_app_comm. rewrite app_assoc. reflexivity.
  - destruct (remove_key_forall _ _ _ _ _ E1 G2) as [[k1 P1] Q1].
    destruct (remove_key_forall _ _ _ _ _ E2 Q1) as [[k2 P2] Q2].
    apply Forall_app. split; auto. constructor; auto. simpl in *. destruct m1; simpl; [congruence|discriminate].
Qed.

Lemma replay_good n c (steps : list (@step F)) : forall cl ct cl', replay o c steps cl ct = Some cl' -> good n cl -> good n cl'.
Proof.
  induction steps as [|s r IH]; intros cl ct cl' H G; simpl in H.
  - inversion H; subst; auto.
  - destruct (should_stop o c cl s); [inversion H; subst; auto|].
    destruct (merge_step cl ct s) as [cl1|] eqn:M; [|discriminate].
    eapply IH; eauto. eapply merge_step_good; eauto.
Qed.

Lemma NoDup_snoc {A} (l : list A) x : NoDup l -> ~ In x l -> NoDup (l ++ [x]).
Proof. intros H1 H2. apply (Permutation_NoDup (Permutation_cons_append l x)). constructor; auto. Qed.

Lemma filter_filter {A} (f g : A -> bool) l : filter f (filter g l) = filter (fun a => g a && f a) l.
Proof.
  induction l as [|a l IH]; simpl; auto. destruct (g a); simpl; [destruct (f a)|]; simpl; rewrite IH; auto.
Qed.

(** a well-formed dendrogram never makes the replay look up a missing cluster id *)
Lemma wf_replay_some c (steps : list (@step F)) : forall (cl : clusters) ct,
  wf_steps (map fst cl) ct steps = true -> NoDup (map fst cl) -> (forall a, In a (map fst cl) -> a < ct) ->
  replay o c steps cl ct <> None.
Proof.
  induction steps as [|s r IH]; intros cl ct W ND LT; simpl; [discriminate|].
  destruct (should_stop o c cl s); [discriminate|].
  simpl in W. apply andb_true_iff in W as [W W4]. apply andb_true_iff in W as [W W3].
  apply andb_true_iff in W as [W1 W2]. apply negb_true_iff, Nat.eqb_neq in W1.
  apply memb_In in W2, W3.
  unfold merge_step.
  destruct (remove_key_some _ _ W2) as [m1 [cl1 E1]]. rewrite E1.
  pose proof (remove_key_keys _ _ _ _ E1 ND) as K1.
  assert (W3' : In (s_c2 s) (map fst cl1)).
  { rewrite K1. apply filter_In. split; auto. apply negb_true_iff, Nat.eqb_neq. congruence. }
  destruct (remove_key_some _ _ W3') as [m2 [cl2 E2]]. rewrite E2.
  assert (ND1 : NoDup (map fst cl1)) by (rewrite K1; apply NoDup_filter; auto).
  pose proof (remove_key_keys _ _ _ _ E2 ND1) as K2.
  assert (K : map fst (cl2 ++ [(ct, m1 ++ m2)]) =
              filter (fun a => negb (a =? s_c1 s) && negb (a =? s_c2 s)) (map fst cl) ++ [ct]).
  { rewrite map_app. simpl. rewrite K2, K1, filter_filter. reflexivity. }
  apply IH.
  - rewrite K. exact W4.
  - rewrite K. apply NoDup_snoc; [apply NoDup_filter; auto|].
    intros Hc. apply filter_In in Hc as [Hc _]. specialize (LT _ Hc). lia.
  - rewrite K. intros a Ha. apply in_app_iff in Ha as [Ha|[Ha|[]]]; [|lia].
    apply filter_In in Ha as [Ha _]. specialize (LT _ Ha). lia.
Qed.
End Replay.

(** * final numbering *)
Lemma set_nth_length l : forall k v, length (set_nth l k v) = length l.
Proof. induction l as [|a l IH]; intros [|k] v; simpl; auto. Qed.

Lemma nth_set_nth_eq l : forall k v d, k < length l -> nth k (set_nth l k v) d = v.
Proof. induction l as [|a l IH]; intros [|k] v d H; simpl in *; try lia; auto. apply IH; lia. Qed.

Lemma nth_set_nth_neq l : forall k k' v d, k <> k' -> nth k' (set_nth l k v) d = nth k' l d.
Proof.
  induction l as [|a l IH]; intros [|k] [|k'] v d H; simpl; auto; try congruence.
Qed.

Definition set_all (ps : list (nat * nat)) (t : list nat) : list nat :=
  fold_left (fun tmp p => set_nth tmp (fst p) (snd p)) ps t.

Lemma set_all_length ps : forall t, length (set_all ps t) = length t.
Proof. induction ps as [|p ps IH]; intros t; simpl; auto. unfold set_all in *. simpl. rewrite IH, set_nth_length. reflexivity. Qed.

Lemma set_all_untouched ps : forall t id d, ~ In id (map fst ps) -> nth id (set_all ps t) d = nth id t d.
Proof.
  induction ps as [|p ps IH]; intros t id d H; simpl; auto. unfold set_all in *. simpl.
  simpl in H. rewrite IH by tauto. apply nth_set_nth_neq. tauto.
Qed.

Lemma set_all_spec ps : forall t id i d, NoDup (map fst ps) -> (forall p, In p ps -> fst p < length t) ->
  In (id, i) ps -> nth id (set_all ps t) d = i.
Proof.
  induction ps as [|p ps IH]; intros t id i d ND LT H; simpl in H; [tauto|].
  unfold set_all in *. simpl. simpl in ND. inversion ND as [|? ? N1 N2]; subst.
  destruct H as [H|H].
  - subst p. simpl in *. fold (set_all ps (set_nth t id i)).
    rewrite set_all_untouched by auto. apply nth_set_nth_eq. apply (LT (id, i)). auto.
  - apply IH; [exact N2| |exact H]. intros q Hq. rewrite set_nth_length. apply LT. right; exact Hq.
Qed.

Lemma assignments_fst (cl : clusters) : forall k, map fst (assignments cl k) = concat (map snd cl).
Proof.
  induction cl as [|[key ids] t IH]; intros k; simpl; auto.
  rewrite map_app, map_map, IH. simpl. rewrite map_id. reflexivity.
Qed.

Lemma assignments_In (cl : clusters) : forall k j id, j < length cl -> In id (snd (nth j cl (0, []))) ->
  In (id, k + j) (assignments cl k).
Proof.
  induction cl as [|[key ids] t IH]; intros k j id Hj H; simpl in *; [lia|].
  apply in_app_iff. destruct j as [|j].
  - left. simpl in H. apply in_map_iff. exists id. split; [f_equal; lia|exact H].
  - right. replace (k + S j) with (S k + j) by lia. apply IH; auto. lia.
Qed.

Lemma labels_of_length n cl : length (labels_of n cl) = n.
Proof. unfold labels_of. fold (set_all (assignments cl 0) (repeat 0 n)). rewrite set_all_length, repeat_length. reflexivity. Qed.

(** every sample carries the position (in key order) of the cluster that contains it *)
Lemma labels_of_spec n (cl : clusters) j id :
  Permutation (concat (map snd cl)) (seq 0 n) -> j < length cl -> In id (snd (nth j cl (0, []))) ->
  nth id (labels_of n cl) 0 = j.
Proof.
  intros P Hj H. unfold labels_of. fold (set_all (assignments cl 0) (repeat 0 n)).
  apply set_all_spec.
  - rewrite assignments_fst. apply (Permutation_NoDup (Permutation_sym P)). apply seq_NoDup.
  - intros p Hp. rewrite repeat_length.
    assert (In (fst p) (map fst (assignments cl 0))) by (apply in_map; auto).
    rewrite assignments_fst in H0. apply (Permutation_in _ P) in H0. apply in_seq in H0. lia.
  - apply (assignments_In cl 0 j id); auto.
Qed.

Lemma in_concat_clusters (cl : clusters) x : In x (concat (map snd cl)) ->
  exists j, j < length cl /\ In x (snd (nth j cl (0, []))).
Proof.
  intros H. apply in_concat in H as [l [Hl Hx]]. apply in_map_iff in Hl as [p [E Hp]]. subst l.
  destruct (In_nth _ _ (0, []) Hp) as [j [Hj E]]. exists j. rewrite E. auto.
Qed.

(** a labelling of n samples by exactly the numbers 0..c-1 *)
Definition is_clustering (n c : nat) (L : list nat) : Prop :=
  length L = n /\ (forall i, i < n -> nth i L 0 < c) /\ (forall l, l < c -> exists i, i < n /\ nth i L 0 = l).

Lemma labels_of_clustering n (cl : clusters) : good n cl ->
  is_clustering n (length cl) (labels_of n cl) /\
  (forall i j, i < n -> j < n ->
     (nth i (labels_of n cl) 0 = nth j (labels_of n cl) 0 <-> exists p, In p cl /\ In i (snd p) /\ In j (snd p))).
Proof.
  intros [P NE].
  assert (C : forall i, i < n -> exists a, a < length cl /\ In i (snd (nth a cl (0, []))) /\ nth i (labels_of n cl) 0 = a).
  { intros i Hi. assert (Hin : In i (concat (map snd cl))).
    { apply (Permutation_in _ (Permutation_sym P)). apply in_seq. lia. }
    destruct (in_concat_clusters _ _ Hin) as [a [Ha Hia]]. exists a. repeat split; auto.
    apply labels_of_spec; auto. }
  split; [split; [apply labels_of_length|split]|].
  - intros i Hi. destruct (C i Hi) as [a [Ha [_ E]]]. lia.
  - intros l Hl. pose proof (proj1 (Forall_forall _ _) NE (nth l cl (0, [])) (nth_In _ _ Hl)) as Hne.
    destruct (snd (nth l cl (0, []))) as [|x xs] eqn:E; [congruence|].
    assert (Hx : In x (snd (nth l cl (0, [])))) by (rewrite E; simpl; auto).
    assert (Hxn : x < n).
    { assert (In x (concat (map snd cl))).
      { apply in_concat. exists (snd (nth l cl (0, []))). split; auto. apply in_map. apply nth_In; auto. }
      apply (Permutation_in _ P) in H. apply in_seq in H. lia. }
    exists x. split; auto. apply labels_of_spec; auto.
  - intros i j Hi Hj. destruct (C i Hi) as [a [Ha [Hia Ea]]]. destruct (C j Hj) as [b [Hb [Hjb Eb]]]. split.
    + intros E. exists (nth a cl (0, [])). split; [apply nth_In; auto|]. split; auto.
      assert (a = b) by congruence. rewrite H. exact Hjb.
    + intros [p [Hp [Hip Hjp]]]. destruct (In_nth _ _ (0, []) Hp) as [k [Hk Ek]]. subst p.
      rewrite (labels_of_spec n cl k i), (labels_of_spec n cl k j); auto.
Qed.

(** * the whole post-processing *)
Lemma init_keys n : map fst (init_clusters n) = seq 0 n.
Proof. unfold init_clusters. rewrite map_map. simpl. apply map_id. Qed.

Lemma init_length n : length (init_clusters n) = n.
Proof. unfold init_clusters. rewrite map_length, seq_length. reflexivity. Qed.

Lemma hier_inv {F} (o : NumOps F) c (steps : list (@step F)) n L : hier o c steps n = Some L ->
  exists cl, replay o c steps (init_clusters n) n = Some cl /\ good n cl /\ L = labels_of n cl.
Proof.
  unfold hier. destruct (replay o c steps (init_clusters n) n) as [cl|] eqn:E; [|discriminate].
  intros H; inversion H; subst. exists cl. repeat split; auto.
  - eapply replay_good; eauto. apply init_good.
  - eapply replay_good; eauto. apply init_good.
Qed.

Lemma hier_partition {F} (o : NumOps F) c (steps : list (@step F)) n L : hier o c steps n = Some L ->
  exists cl, replay o c steps (init_clusters n) n = Some cl /\
    is_clustering n (length cl) L /\
    (forall i j, i < n -> j < n -> (nth i L 0 = nth j L 0 <-> exists p, In p cl /\ In i (snd p) /\ In j (snd p))) /\
    Permutation (concat (map snd cl)) (seq 0 n).
Proof.
  intros H. destruct (hier_inv o c steps n L H) as [cl [E [G EL]]]. subst L.
  exists cl. destruct (labels_of_clustering n cl G) as [C1 C2].
  split; [exact E|]. split; [exact C1|]. split; [exact C2|]. apply G.
Qed.

Lemma wf_hier_some {F} (o : NumOps F) c (steps : list (@step F)) n :
  wf_steps (seq 0 n) n steps = true -> exists L, hier o c steps n = Some L.
Proof.
  intros W. unfold hier.
  assert (N : replay o c steps (init_clusters n) n <> None).
  { apply wf_replay_some; rewrite ?init_keys; auto.
    - apply seq_NoDup.
    - intros a Ha. apply in_seq in Ha. lia. }
  destruct (replay o c steps (init_clusters n) n) as [cl|]; [eauto|congruence].
Qed.

Lemma hier_count {F} (o : NumOps F) (steps : list (@step F)) n k :
  wf_steps (seq 0 n) n steps = true -> length steps = n - 1 -> 1 <= k ->
  exists L, hier o (CNum k) steps n = Some L /\ is_clustering n (Nat.min k n) L.
Proof.
  intros W Len Hk. destruct (wf_hier_some o (CNum k) steps n W) as [L HL]. exists L. split; auto.
  destruct (hier_partition o _ _ _ _ HL) as [cl [E [C _]]].
  apply replay_num_length in E. rewrite init_length, Len in E.
  replace (Nat.min k n) with (length cl) by lia. exact C.
Qed.

(** ** thresholds over the reals: for a sorted dendrogram the leading steps below the threshold are all
    the steps below it *)
Local Open Scope R_scope.
Lemma below_R d x : negb (Rleb d x) = Rltb x d.
Proof.
  destruct (Rleb d x) eqn:E1; destruct (Rltb x d) eqn:E2; auto; simpl.
  - apply Rleb_true in E1. apply Rltb_true in E2. lra.
  - apply Rleb_false in E1. apply Rltb_false in E2. lra.
Qed.

Definition steps_sorted (steps : list (@step R)) : Prop := StronglySorted (fun a b => s_d a <= s_d b) steps.

Lemma take_while_filter_sorted d (steps : list (@step R)) : steps_sorted steps ->
  take_while (fun s => negb (Rleb d (s_d s))) steps = filter (fun s => Rltb (s_d s) d) steps.
Proof.
  induction steps as [|s r IH]; intros S; simpl; auto. inversion S as [|? ? S1 S2]; subst.
  rewrite below_R. destruct (Rltb (s_d s) d) eqn:E.
  - f_equal. apply IH; auto.
  - symmetry. apply Rltb_false in E. clear IH S S1. induction r as [|b r IH]; simpl; auto.
    inversion S2 as [|? ? B1 B2]; subst. replace (Rltb (s_d b) d) with false; auto.
    symmetry. apply Rltb_false. lra.
Qed.

Lemma replay_threshold_sorted d (steps : list (@step R)) cl ct : steps_sorted steps ->
  replay R_ops (CDist d) steps cl ct = merge_all (filter (fun s => Rltb (s_d s) d) steps) cl ct.
Proof. intros S. rewrite replay_threshold_prefix. simpl. rewrite take_while_filter_sorted; auto. Qed.
Local Close Scope R_scope.

(** * non-vacuity: the hypotheses above are satisfiable on small concrete inputs *)
Example adjacency_ex : adjacency [[0; 1]; [1; 0]; [2; 1]] = [[0; 1]; [0; 1; 2]; [1; 2]].
Proof. reflexivity. Qed.

Example wf_ex : wf_steps (seq 0 3) 3 [mkstep 0 1 0x1p-1%float 2; mkstep 2 3 0x1.8p+0%float 3] = true.
Proof. reflexivity. Qed.

Example hier_ex :
  hier B64_ops (CNum 2) [mkstep 0 1 0x1p-1%float 2; mkstep 2 3 0x1.8p+0%float 3] 3 = Some [1; 1; 0] /\
  hier B64_ops (CDist 0x1p+0%float) [mkstep 0 1 0x1p-1%float 2; mkstep 2 3 0x1.8p+0%float 3] 3 = Some [1; 1; 0] /\
  hier B64_ops (CDist 0x1p-1%float) [mkstep 0 1 0x1p-1%float 2; mkstep 2 3 0x1.8p+0%float 3] 3 = Some [0; 1; 2] /\
  hier B64_ops (CNum 1) [mkstep 0 1 0x1p-1%float 2; mkstep 2 3 0x1.8p+0%float 3] 3 = Some [0; 0; 0].
Proof. repeat split; vm_compute; reflexivity. Qed.

Example sorted_ex : steps_sorted [mkstep 0 1 (1/2)%R 2; mkstep 2 3 (3/2)%R 3].
Proof. repeat constructor; simpl; lra. Qed.

Example gaussian_tr_ex : exp 0 = 1%R.
Proof. exact exp_0. Qed.

Example upper_pairs_ex : upper_pairs 3 = [(0, 1); (0, 2); (1, 2)].
Proof. reflexivity. Qed.
