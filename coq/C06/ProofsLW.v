(** C06 - lemmas about the Lance-Williams model (C06/ModelLW.v): the recurrence keeps the closed forms
    of single / complete / average linkage, and a dendrogram accepted by [lw_valid] is well formed,
    (single linkage) valid in the sense of C06/ProofsSingle.v, (complete linkage) bounds diameters. *)
From Coq Require Import List NArith Bool Arith Reals Lra Lia Permutation Sorted Floats.
From LinfaVerif Require Import Common.Num C06.Model C06.ModelLW C06.Proofs C06.ProofsSingle.
Import ListNotations.

(** * the table of pairwise cluster dissimilarities *)
Section Table.
Context {F : Type} (o : NumOps F).

Lemma tget_sym (T : tbl) x y : tget o T x y = tget o T y x.
Proof.
  unfold tget. destruct (y <? x) eqn:E1; destruct (x <? y) eqn:E2; auto.
  - apply Nat.ltb_lt in E1, E2. lia.
  - apply Nat.ltb_ge in E1, E2. assert (x = y) by lia. subst. reflexivity.
Qed.

Lemma tget_app_old (T : tbl) row x y : x < length T -> y < length T -> tget o (T ++ [row]) x y = tget o T x y.
Proof. intros Hx Hy. unfold tget. rewrite !app_nth1 by assumption. reflexivity. Qed.

Lemma tget_app_new (T : tbl) row y : y < length T -> tget o (T ++ [row]) (length T) y = nth y row (zero o).
Proof.
  intros Hy. unfold tget. apply Nat.ltb_lt in Hy. rewrite Hy.
  rewrite app_nth2 by lia. rewrite Nat.sub_diag. reflexivity.
Qed.

Lemma tinit_length (D : nat -> nat -> F) n : length (tinit D n) = n.
Proof. unfold tinit. rewrite map_length, seq_length. reflexivity. Qed.

Lemma tinit_get (D : nat -> nat -> F) n x y : x < n -> y < x -> tget o (tinit D n) x y = D x y.
Proof.
  intros Hx Hy. unfold tget. apply Nat.ltb_lt in Hy as Hy'. rewrite Hy'. unfold tinit.
  rewrite (nth_map_lt _ _ _ _ 0) by (rewrite seq_length; auto). rewrite seq_nth by auto. simpl.
  rewrite (nth_map_lt _ _ _ _ 0) by (rewrite seq_length; auto). rewrite seq_nth by auto. reflexivity.
Qed.
End Table.

(** * the cluster map *)
Lemma remove_key_spec k : forall (cl : clusters) m cl', remove_key k cl = Some (m, cl') -> NoDup (map fst cl) ->
  In (k, m) cl /\ (forall q, In q cl' -> In q cl /\ fst q <> k) /\ NoDup (map fst cl').
Proof.
  induction cl as [|[k' m'] t IH]; intros m cl' H ND; simpl in H; [discriminate|].
  simpl in ND. inversion ND as [|? ? N1 N2]; subst. destruct (k' =? k) eqn:E.
  - inversion H; subst. apply Nat.eqb_eq in E. subst k'. split; [left; reflexivity|]. split; [|exact N2].
    intros q Hq. split; [right; exact Hq|]. intros Eq. apply N1. rewrite <- Eq. apply in_map. exact Hq.
  - destruct (remove_key k t) as [[m2 t2]|] eqn:E2; [|discriminate]. inversion H; subst.
    destruct (IH _ _ eq_refl N2) as [I1 [I2 I3]]. apply Nat.eqb_neq in E. split; [right; exact I1|]. split.
    + intros q [Hq|Hq]; [subst q; split; [left; reflexivity|exact E]|]. destruct (I2 q Hq) as [A B]. split; [right; exact A|exact B].
    + simpl. constructor; [|exact I3]. intros Hc. apply N1. apply in_map_iff in Hc as [q [Eq Hq]].
      apply in_map_iff. exists q. split; [exact Eq|]. apply (I2 q Hq).
Qed.

Lemma lookup_In (cl : clusters) y my : NoDup (map fst cl) -> In (y, my) cl -> lookup cl y = Some my.
Proof.
  unfold lookup. induction cl as [|[k m] t IH]; intros ND H; simpl in *; [tauto|].
  inversion ND as [|? ? N1 N2]; subst. destruct H as [H|H].
  - inversion H; subst. rewrite Nat.eqb_refl. reflexivity.
  - destruct (k =? y) eqn:E.
    + apply Nat.eqb_eq in E. subst k. exfalso. apply N1. apply in_map_iff. exists (y, my). split; auto.
    + apply IH; auto.
Qed.

Lemma NoDup_keys_eq (cl : clusters) p q : NoDup (map fst cl) -> In p cl -> In q cl -> fst p = fst q -> p = q.
Proof.
  induction cl as [|a t IH]; intros ND Hp Hq E; simpl in *; [tauto|].
  inversion ND as [|? ? N1 N2]; subst. destruct Hp as [Hp|Hp]; destruct Hq as [Hq|Hq].
  - congruence.
  - subst a. exfalso. apply N1. rewrite E. apply in_map. exact Hq.
  - subst a. exfalso. apply N1. rewrite <- E. apply in_map. exact Hp.
  - apply IH; auto.
Qed.

(** * what one merge does to the cluster map, for every arithmetic *)
Section MergeShape.
Context {F : Type} (o : NumOps F).

Lemma lw_merge_shape m (T : tbl) (cl : clusters) ct c1 c2 T' cl' :
  lw_merge o m T cl ct c1 c2 = Some (T', cl') ->
  exists m1 cl1 m2 cl2, remove_key c1 cl = Some (m1, cl1) /\ remove_key c2 cl1 = Some (m2, cl2) /\
    T' = T ++ [lw_row o m T cl2 c1 c2 (length m1) (length m2) ct] /\ cl' = cl2 ++ [(ct, m1 ++ m2)].
Proof.
  unfold lw_merge. destruct (remove_key c1 cl) as [[m1 cl1]|] eqn:E1; [|discriminate].
  destruct (remove_key c2 cl1) as [[m2 cl2]|] eqn:E2; [|discriminate].
  intros H. inversion H; subst. exists m1, cl1, m2, cl2. auto.
Qed.

Lemma lw_merge_step m (T : tbl) (cl : clusters) ct (s : @step F) T' cl' :
  lw_merge o m T cl ct (s_c1 s) (s_c2 s) = Some (T', cl') -> merge_step cl ct s = Some cl'.
Proof.
  intros H. destruct (lw_merge_shape _ _ _ _ _ _ _ _ H) as [m1 [cl1 [m2 [cl2 [E1 [E2 [_ E]]]]]]].
  unfold merge_step. rewrite E1, E2, E. reflexivity.
Qed.

Lemma remove_key_in_keys k : forall (cl : clusters) m cl', remove_key k cl = Some (m, cl') -> In k (map fst cl).
Proof.
  induction cl as [|[k' m'] t IH]; intros m cl' H; simpl in H; [discriminate|].
  destruct (k' =? k) eqn:E; [apply Nat.eqb_eq in E; left; exact E|].
  destruct (remove_key k t) as [[m2 t2]|] eqn:E2; [|discriminate]. right. eapply IH; eauto.
Qed.

(** a chain of successful merges is a well-formed dendrogram *)
Lemma merge_step_wf (cl : clusters) ct (s : @step F) cl' : merge_step cl ct s = Some cl' ->
  NoDup (map fst cl) -> (forall a, In a (map fst cl) -> a < ct) ->
  negb (s_c1 s =? s_c2 s) && memb (s_c1 s) (map fst cl) && memb (s_c2 s) (map fst cl) = true /\
  map fst cl' = filter (fun a => negb (a =? s_c1 s) && negb (a =? s_c2 s)) (map fst cl) ++ [ct] /\
  NoDup (map fst cl') /\ (forall a, In a (map fst cl') -> a < S ct).
Proof.
  unfold merge_step. destruct (remove_key (s_c1 s) cl) as [[m1 cl1]|] eqn:E1; [|discriminate].
  destruct (remove_key (s_c2 s) cl1) as [[m2 cl2]|] eqn:E2; [|discriminate].
  intros H ND LT. inversion H; subst cl'. clear H.
  pose proof (remove_key_keys _ _ _ _ E1 ND) as K1.
  assert (ND1 : NoDup (map fst cl1)) by (rewrite K1; apply NoDup_filter; auto).
  pose proof (remove_key_keys _ _ _ _ E2 ND1) as K2.
  pose proof (remove_key_in_keys _ _ _ _ E1) as I1. pose proof (remove_key_in_keys _ _ _ _ E2) as I2.
  rewrite K1 in I2. apply filter_In in I2 as [I2 N2]. apply negb_true_iff, Nat.eqb_neq in N2.
  assert (K : map fst (cl2 ++ [(ct, m1 ++ m2)]) =
              filter (fun a => negb (a =? s_c1 s) && negb (a =? s_c2 s)) (map fst cl) ++ [ct]).
  { rewrite map_app. simpl. rewrite K2, K1, filter_filter. reflexivity. }
  split; [|split; [exact K|split]].
  - apply andb_true_iff. split; [apply andb_true_iff; split|].
    + apply negb_true_iff, Nat.eqb_neq. congruence.
    + apply memb_In. exact I1.
    + apply memb_In. exact I2.
  - rewrite K. apply NoDup_snoc; [apply NoDup_filter; auto|].
    intros Hc. apply filter_In in Hc as [Hc _]. specialize (LT _ Hc). lia.
  - rewrite K. intros a Ha. apply in_app_iff in Ha as [Ha|[Ha|[]]]; [|lia].
    apply filter_In in Ha as [Ha _]. specialize (LT _ Ha). lia.
Qed.

Lemma lw_valid_wf close le pre m : forall (steps : list (@step F)) (T : tbl) (cl : clusters) ct,
  lw_valid o close le pre m T cl ct steps = true ->
  NoDup (map fst cl) -> (forall a, In a (map fst cl) -> a < ct) ->
  wf_steps (map fst cl) ct steps = true.
Proof.
  induction steps as [|s r IH]; intros T cl ct V ND LT; simpl; auto.
  simpl in V. destruct (lw_merge o m T cl ct (s_c1 s) (s_c2 s)) as [[T' cl']|] eqn:M; [|discriminate].
  apply andb_true_iff in V as [_ V].
  destruct (merge_step_wf _ _ _ _ (lw_merge_step _ _ _ _ _ _ _ M) ND LT) as [W1 [K [ND' LT']]].
  rewrite W1. simpl. rewrite <- K. eapply IH; eauto.
Qed.

Lemma lw_valid_length close le pre m : forall (steps : list (@step F)) (T : tbl) (cl : clusters) ct,
  lw_valid o close le pre m T cl ct steps = true -> length steps < length cl \/ steps = [].
Proof.
  induction steps as [|s r IH]; intros T cl ct V; [right; reflexivity|left].
  simpl in V. destruct (lw_merge o m T cl ct (s_c1 s) (s_c2 s)) as [[T' cl']|] eqn:M; [|discriminate].
  apply andb_true_iff in V as [_ V].
  assert (L1 : 1 <= length cl').
  { destruct (lw_merge_shape _ _ _ _ _ _ _ _ M) as [m1 [cl1 [m2 [cl2 [_ [_ [_ E]]]]]]]. subst cl'. rewrite app_length. simpl. lia. }
  apply lw_merge_step in M. apply merge_step_length in M.
  destruct (IH _ _ _ V) as [H|H]; simpl; [lia|subst r; simpl; lia].
Qed.
End MergeShape.

(** * invariants of the recurrence over the reals *)
Local Open Scope R_scope.

Section Invariant.
(* P A B v: "v is the dissimilarity between the member lists A and B" in some closed form *)
Variable P : list nat -> list nat -> R -> Prop.
Variable m : lmethod.
Hypothesis P_sym : forall A B v, P A B v -> P B A v.
Hypothesis P_join : forall A1 A2 X v1 v2 dab, P A1 X v1 -> P A2 X v2 ->
  P (A1 ++ A2) X (lw_new R_ops m v1 v2 dab (length A1) (length A2) (length X)).

Definition lw_inv (T : tbl) (cl : clusters) (ct : nat) : Prop :=
  length T = ct /\ NoDup (map fst cl) /\ (forall p, In p cl -> (fst p < ct)%nat) /\
  forall p q, In p cl -> In q cl -> fst p <> fst q -> P (snd p) (snd q) (tget R_ops T (fst p) (fst q)).

Lemma lw_merge_inv T cl ct c1 c2 T' cl' :
  lw_inv T cl ct -> lw_merge R_ops m T cl ct c1 c2 = Some (T', cl') -> lw_inv T' cl' (S ct).
Proof.
  intros [L [ND [LT I]]] M.
  destruct (lw_merge_shape _ _ _ _ _ _ _ _ _ M) as [m1 [cl1 [m2 [cl2 [E1 [E2 [ET EC]]]]]]]. subst T' cl'.
  destruct (remove_key_spec _ _ _ _ E1 ND) as [In1 [Sub1 ND1]].
  destruct (remove_key_spec _ _ _ _ E2 ND1) as [In2 [Sub2 ND2]].
  assert (Sub : forall q, In q cl2 -> In q cl /\ fst q <> c1 /\ fst q <> c2).
  { intros q Hq. destruct (Sub2 q Hq) as [A B]. destruct (Sub1 q A) as [C D]. auto. }
  assert (In2' : In (c2, m2) cl /\ c2 <> c1) by (destruct (Sub1 _ In2); auto). destruct In2' as [In2' Ne].
  assert (NEW : forall q, In q cl2 ->
            P (m1 ++ m2) (snd q) (tget R_ops (T ++ [lw_row R_ops m T cl2 c1 c2 (length m1) (length m2) ct]) ct (fst q))).
  { intros q Hq. destruct (Sub q Hq) as [Hc [N1 N2]]. pose proof (LT q Hc) as Hlt.
    rewrite <- L. rewrite tget_app_new by lia. unfold lw_row.
    rewrite (nth_map_lt _ _ _ _ 0%nat) by (rewrite seq_length; lia). rewrite seq_nth by lia. simpl.
    rewrite (lookup_In cl2 (fst q) (snd q) ND2) by (destruct q; exact Hq).
    apply P_join.
    - apply (I (c1, m1) q In1 Hc). simpl. auto.
    - apply (I (c2, m2) q In2' Hc). simpl. auto. }
  split; [rewrite app_length; simpl; lia|]. split; [|split].
  - rewrite map_app. simpl. apply NoDup_snoc; [exact ND2|].
    intros Hc. apply in_map_iff in Hc as [q [Eq Hq]]. destruct (Sub q Hq) as [Hc _]. specialize (LT q Hc). lia.
  - intros p Hp. apply in_app_iff in Hp as [Hp|[Hp|[]]]; [destruct (Sub p Hp) as [Hc _]; specialize (LT p Hc); lia|subst p; simpl; lia].
  - intros p q Hp Hq Npq. apply in_app_iff in Hp, Hq.
    destruct Hp as [Hp|[Hp|[]]]; destruct Hq as [Hq|[Hq|[]]].
    + destruct (Sub p Hp) as [Hpc _]. destruct (Sub q Hq) as [Hqc _].
      rewrite tget_app_old by (rewrite L; auto). apply I; auto.
    + subst q. simpl. rewrite tget_sym. apply P_sym. apply NEW. exact Hp.
    + subst p. simpl. apply NEW. exact Hq.
    + subst p q. simpl in Npq. congruence.
Qed.
End Invariant.

Lemma lw_run_inv (P : list nat -> list nat -> R -> Prop) m
  (P_sym : forall A B v, P A B v -> P B A v)
  (P_join : forall A1 A2 X v1 v2 dab, P A1 X v1 -> P A2 X v2 ->
            P (A1 ++ A2) X (lw_new R_ops m v1 v2 dab (length A1) (length A2) (length X))) :
  forall ms T cl ct T' cl', lw_inv P T cl ct -> lw_run R_ops m T cl ct ms = Some (T', cl') ->
  lw_inv P T' cl' (ct + length ms).
Proof.
  induction ms as [|[c1 c2] r IH]; intros T cl ct T' cl' I H; simpl in H.
  - inversion H; subst. simpl. rewrite Nat.add_0_r. exact I.
  - destruct (lw_merge R_ops m T cl ct c1 c2) as [[T1 cl1]|] eqn:M; [|discriminate].
    simpl. rewrite Nat.add_succ_r. apply (IH T1 cl1 (S ct)); auto.
    eapply lw_merge_inv; eauto.
Qed.

(** ** the closed forms of three methods *)
Section Closed.
Variable D : nat -> nat -> R.          (* pairwise dissimilarities of the samples *)
Hypothesis D_sym : forall a b, D a b = D b a.

Lemma lw_inv_init (P : list nat -> list nat -> R -> Prop) n : (forall i j, (i < n)%nat -> (j < n)%nat -> i <> j -> P [i] [j] (D i j)) ->
  lw_inv P (tinit D n) (init_clusters n) n.
Proof.
  intros H. split; [apply tinit_length|]. split; [rewrite init_keys; apply seq_NoDup|]. split.
  - intros p Hp. apply (in_map fst) in Hp. rewrite init_keys in Hp. apply in_seq in Hp. lia.
  - intros p q Hp Hq Ne. unfold init_clusters in Hp, Hq.
    apply in_map_iff in Hp as [i [Ep Hi]]. apply in_map_iff in Hq as [j [Eq Hj]]. subst p q. simpl in *.
    apply in_seq in Hi, Hj.
    destruct (Nat.lt_ge_cases j i) as [Hlt|Hge].
    + rewrite tinit_get by lia. apply H; lia.
    + rewrite tget_sym, tinit_get by lia. rewrite D_sym. apply H; lia.
Qed.

(** single linkage: the smallest dissimilarity between a member of A and a member of B *)
Definition is_min_over (A B : list nat) (v : R) : Prop :=
  (exists a b, In a A /\ In b B /\ D a b = v) /\ forall a b, In a A -> In b B -> v <= D a b.
(** complete linkage: the largest one *)
Definition is_max_over (A B : list nat) (v : R) : Prop :=
  (exists a b, In a A /\ In b B /\ D a b = v) /\ forall a b, In a A -> In b B -> D a b <= v.

Lemma min_sym A B v : is_min_over A B v -> is_min_over B A v.
Proof.
  intros [[a [b [Ha [Hb E]]]] H]. split.
  - exists b, a. rewrite D_sym. auto.
  - intros x y Hx Hy. rewrite D_sym. auto.
Qed.
Lemma max_sym A B v : is_max_over A B v -> is_max_over B A v.
Proof.
  intros [[a [b [Ha [Hb E]]]] H]. split.
  - exists b, a. rewrite D_sym. auto.
  - intros x y Hx Hy. rewrite D_sym. auto.
Qed.

Lemma min_join A1 A2 X v1 v2 dab : is_min_over A1 X v1 -> is_min_over A2 X v2 ->
  is_min_over (A1 ++ A2) X (lw_new R_ops LSingle v1 v2 dab (length A1) (length A2) (length X)).
Proof.
  intros [[a1 [b1 [Ha1 [Hb1 E1]]]] H1] [[a2 [b2 [Ha2 [Hb2 E2]]]] H2]. simpl.
  destruct (Rltb v1 v2) eqn:E.
  - apply Rltb_true in E. split.
    + exists a1, b1. rewrite in_app_iff. auto.
    + intros a b Ha Hb. apply in_app_iff in Ha as [Ha|Ha]; [auto|]. specialize (H2 a b Ha Hb). lra.
  - apply Rltb_false in E. split.
    + exists a2, b2. rewrite in_app_iff. auto.
    + intros a b Ha Hb. apply in_app_iff in Ha as [Ha|Ha]; [|auto]. specialize (H1 a b Ha Hb). lra.
Qed.

Lemma max_join A1 A2 X v1 v2 dab : is_max_over A1 X v1 -> is_max_over A2 X v2 ->
  is_max_over (A1 ++ A2) X (lw_new R_ops LComplete v1 v2 dab (length A1) (length A2) (length X)).
Proof.
  intros [[a1 [b1 [Ha1 [Hb1 E1]]]] H1] [[a2 [b2 [Ha2 [Hb2 E2]]]] H2]. simpl.
  destruct (Rltb v2 v1) eqn:E.
  - apply Rltb_true in E. split.
    + exists a1, b1. rewrite in_app_iff. auto.
    + intros a b Ha Hb. apply in_app_iff in Ha as [Ha|Ha]; [auto|]. specialize (H2 a b Ha Hb). lra.
  - apply Rltb_false in E. split.
    + exists a2, b2. rewrite in_app_iff. auto.
    + intros a b Ha Hb. apply in_app_iff in Ha as [Ha|Ha]; [|auto]. specialize (H1 a b Ha Hb). lra.
Qed.

(** average linkage: the mean of all dissimilarities between a member of A and a member of B *)
Definition rsum (a : nat) (B : list nat) : R := fold_right (fun b acc => D a b + acc) 0 B.
Definition psum (A B : list nat) : R := fold_right (fun a acc => rsum a B + acc) 0 A.
Definition is_mean_over (A B : list nat) (v : R) : Prop :=
  A <> [] /\ B <> [] /\ v * INR (length A) * INR (length B) = psum A B.

Lemma psum_app_l A1 A2 B : psum (A1 ++ A2) B = psum A1 B + psum A2 B.
Proof. induction A1 as [|a A1 IH]; simpl; [lra|]. rewrite IH. lra. Qed.

Lemma psum_cons_r A b B : psum A (b :: B) = fold_right (fun a acc => D a b + acc) 0 A + psum A B.
Proof. induction A as [|a A IH]; simpl; [lra|]. rewrite IH. lra. Qed.

Lemma psum_sym A B : psum A B = psum B A.
Proof.
  induction A as [|a A IH]; simpl.
  - induction B as [|b B IHB]; simpl; [reflexivity|]. rewrite <- IHB. lra.
  - rewrite psum_cons_r, IH. f_equal. clear IH. induction B as [|b B IHB]; simpl; [reflexivity|].
    rewrite IHB, D_sym. reflexivity.
Qed.

Lemma mean_sym A B v : is_mean_over A B v -> is_mean_over B A v.
Proof. intros [HA [HB E]]. split; [exact HB|split; [exact HA|]]. rewrite psum_sym, <- E. ring. Qed.

Lemma fnat_R k : fnat R_ops k = INR k.
Proof. unfold fnat. simpl. rewrite Nat2N.id. reflexivity. Qed.

Lemma mean_join A1 A2 X v1 v2 dab : is_mean_over A1 X v1 -> is_mean_over A2 X v2 ->
  is_mean_over (A1 ++ A2) X (lw_new R_ops LAverage v1 v2 dab (length A1) (length A2) (length X)).
Proof.
  intros [N1 [NX E1]] [N2 [_ E2]]. split; [destruct A1; simpl; congruence|]. split; [exact NX|].
  cbn [lw_new]. rewrite !fnat_R. cbn [add mul div R_ops]. rewrite psum_app_l, <- E1, <- E2, app_length, plus_INR.
  assert (0 < INR (length A1)) by (apply lt_0_INR; destruct A1; simpl; [congruence|lia]).
  assert (0 < INR (length A2)) by (apply lt_0_INR; destruct A2; simpl; [congruence|lia]).
  field. lra.
Qed.

Lemma mean_single i j : is_mean_over [i] [j] (D i j).
Proof. split; [discriminate|]. split; [discriminate|]. simpl. lra. Qed.
Lemma min_single i j : is_min_over [i] [j] (D i j).
Proof.
  split; [exists i, j; simpl; auto|]. intros a b [<-|[]] [<-|[]]. lra.
Qed.
Lemma max_single i j : is_max_over [i] [j] (D i j).
Proof.
  split; [exists i, j; simpl; auto|]. intros a b [<-|[]] [<-|[]]. lra.
Qed.

(** whatever clusters have been merged so far (in any order), the table of the recurrence holds the
    closed form for every pair of live clusters *)
Lemma lw_single_is_min n ms T cl :
  lw_run R_ops LSingle (tinit D n) (init_clusters n) n ms = Some (T, cl) ->
  forall x mx y my, In (x, mx) cl -> In (y, my) cl -> x <> y -> is_min_over mx my (tget R_ops T x y).
Proof.
  intros H x mx y my Hx Hy Ne.
  pose proof (lw_run_inv is_min_over LSingle min_sym min_join ms _ _ _ _ _
                (lw_inv_init is_min_over n (fun i j _ _ _ => min_single i j)) H) as [_ [_ [_ I]]].
  apply (I (x, mx) (y, my)); auto.
Qed.

Lemma lw_complete_is_max n ms T cl :
  lw_run R_ops LComplete (tinit D n) (init_clusters n) n ms = Some (T, cl) ->
  forall x mx y my, In (x, mx) cl -> In (y, my) cl -> x <> y -> is_max_over mx my (tget R_ops T x y).
Proof.
  intros H x mx y my Hx Hy Ne.
  pose proof (lw_run_inv is_max_over LComplete max_sym max_join ms _ _ _ _ _
                (lw_inv_init is_max_over n (fun i j _ _ _ => max_single i j)) H) as [_ [_ [_ I]]].
  apply (I (x, mx) (y, my)); auto.
Qed.

Lemma lw_average_is_mean n ms T cl :
  lw_run R_ops LAverage (tinit D n) (init_clusters n) n ms = Some (T, cl) ->
  forall x mx y my, In (x, mx) cl -> In (y, my) cl -> x <> y -> is_mean_over mx my (tget R_ops T x y).
Proof.
  intros H x mx y my Hx Hy Ne.
  pose proof (lw_run_inv is_mean_over LAverage mean_sym mean_join ms _ _ _ _ _
                (lw_inv_init is_mean_over n (fun i j _ _ _ => mean_single i j)) H) as [_ [_ [_ I]]].
  apply (I (x, mx) (y, my)); auto.
Qed.

(** ** dendrograms accepted by the exact check *)
Definition idf (x : R) : R := x.

(* what the check establishes about one step, under the invariant for a closed form P *)
Lemma lw_valid_step (P : list nat -> list nat -> R -> Prop) m T cl ct (s : @step R) r :
  lw_inv P T cl ct ->
  lw_valid R_ops Reqb Rleb idf m T cl ct (s :: r) = true ->
  exists m1 cl1 m2 cl2 T' cl',
    remove_key (s_c1 s) cl = Some (m1, cl1) /\ remove_key (s_c2 s) cl1 = Some (m2, cl2) /\
    In (s_c1 s, m1) cl /\ In (s_c2 s, m2) cl /\ s_c1 s <> s_c2 s /\
    lw_merge R_ops m T cl ct (s_c1 s) (s_c2 s) = Some (T', cl') /\ cl' = cl2 ++ [(ct, m1 ++ m2)] /\
    tget R_ops T (s_c1 s) (s_c2 s) = s_d s /\
    (forall p q, In p cl -> In q cl -> fst p <> fst q -> s_d s <= tget R_ops T (fst p) (fst q)) /\
    lw_valid R_ops Reqb Rleb idf m T' cl' (S ct) r = true.
Proof.
  intros [L [ND [LT I]]] V. simpl in V.
  destruct (lw_merge R_ops m T cl ct (s_c1 s) (s_c2 s)) as [[T' cl']|] eqn:M; [|discriminate].
  apply andb_true_iff in V as [V V4]. apply andb_true_iff in V as [V _]. apply andb_true_iff in V as [V1 V2].
  apply Reqb_true in V1. unfold idf in V1.
  destruct (lw_merge_shape _ _ _ _ _ _ _ _ _ M) as [m1 [cl1 [m2 [cl2 [E1 [E2 [ET EC]]]]]]].
  destruct (remove_key_spec _ _ _ _ E1 ND) as [In1 [Sub1 ND1]].
  destruct (remove_key_spec _ _ _ _ E2 ND1) as [In2 _]. destruct (Sub1 _ In2) as [In2' Ne]. simpl in Ne.
  exists m1, cl1, m2, cl2, T', cl'. repeat (split; [solve [auto]|]). split; [|exact V4].
  intros p q Hp Hq Npq. rewrite forallb_forall in V2.
  destruct (Nat.lt_ge_cases (fst p) (fst q)) as [Hlt|Hge].
  - specialize (V2 p Hp). rewrite forallb_forall in V2. specialize (V2 q Hq).
    apply orb_true_iff in V2 as [V2|V2]; [apply Nat.leb_le in V2; lia|]. apply Rleb_true in V2. rewrite <- V1. exact V2.
  - specialize (V2 q Hq). rewrite forallb_forall in V2. specialize (V2 p Hp).
    apply orb_true_iff in V2 as [V2|V2]; [apply Nat.leb_le in V2; lia|]. apply Rleb_true in V2.
    rewrite <- V1. rewrite (tget_sym R_ops T (fst p) (fst q)). exact V2.
Qed.

(** single linkage: an accepted dendrogram is valid in the sense of C06/ProofsSingle.v *)
Lemma lw_valid_single : forall steps T cl ct, lw_inv is_min_over T cl ct ->
  lw_valid R_ops Reqb Rleb idf LSingle T cl ct steps = true -> valid_single D cl ct steps.
Proof.
  induction steps as [|s r IH]; intros T cl ct I V; [constructor|].
  destruct (lw_valid_step _ _ _ _ _ _ _ I V) as [m1 [cl1 [m2 [cl2 [T' [cl' [E1 [E2 [In1 [In2 [Ne [M [EC [Hd [Hmin V']]]]]]]]]]]]]]].
  pose proof I as [L [ND [LT II]]].
  apply vs_cons with cl'.
  - exists m1, cl1, m2, cl2. split; [exact E1|]. split; [exact E2|].
    destruct (II (s_c1 s, m1) (s_c2 s, m2) In1 In2 Ne) as [[a [b [Ha [Hb E]]]] _]. simpl in *.
    exists a, b. rewrite E. auto.
  - intros i1 i2 H1 H2 Ne12 a b Ha Hb.
    set (p := nth i1 cl (0%nat, [])) in *. set (q := nth i2 cl (0%nat, [])) in *.
    assert (Hp : In p cl) by (apply nth_In; exact H1). assert (Hq : In q cl) by (apply nth_In; exact H2).
    assert (Npq : fst p <> fst q).
    { intros Eq. apply Ne12. apply (proj1 (NoDup_nth (map fst cl) 0%nat) ND); rewrite ?map_length; auto.
      change 0%nat with (fst (0%nat, @nil nat)). rewrite !map_nth. exact Eq. }
    destruct (II p q Hp Hq Npq) as [_ Hle]. specialize (Hmin p q Hp Hq Npq). specialize (Hle a b Ha Hb). lra.
  - eapply lw_merge_step; eauto.
  - apply (IH T'); [|exact V']. eapply (lw_merge_inv is_min_over LSingle min_sym min_join); eauto.
Qed.

(** complete linkage: the clusters of a threshold clustering have all pairwise dissimilarities below
    the threshold *)
Definition intra_lt (d : R) (cl : clusters) : Prop :=
  forall p, In p cl -> forall a b, In a (snd p) -> In b (snd p) -> a <> b -> D a b < d.

Lemma lw_valid_complete_intra d : forall steps T cl ct clf, lw_inv is_max_over T cl ct ->
  lw_valid R_ops Reqb Rleb idf LComplete T cl ct steps = true -> intra_lt d cl ->
  replay R_ops (CDist d) steps cl ct = Some clf -> intra_lt d clf.
Proof.
  induction steps as [|s r IH]; intros T cl ct clf I V A R; simpl in R; [inversion R; subst; exact A|].
  destruct (Rleb d (s_d s)) eqn:E; [inversion R; subst; exact A|]. apply Rleb_false in E.
  destruct (lw_valid_step _ _ _ _ _ _ _ I V) as [m1 [cl1 [m2 [cl2 [T' [cl' [E1 [E2 [In1 [In2 [Ne [M [EC [Hd [_ V']]]]]]]]]]]]]]].
  pose proof I as [L [ND [LT II]]].
  rewrite (lw_merge_step _ _ _ _ _ _ _ _ M) in R.
  apply (IH T' cl' (S ct) clf); auto.
  - eapply (lw_merge_inv is_max_over LComplete max_sym max_join); eauto.
  - destruct (remove_key_spec _ _ _ _ E1 ND) as [_ [Sub1 ND1]]. destruct (remove_key_spec _ _ _ _ E2 ND1) as [_ [Sub2 _]].
    subst cl'. intros p Hp a b Ha Hb Nab. apply in_app_iff in Hp as [Hp|[Hp|[]]].
    + apply (A p); auto. apply Sub1. apply Sub2. exact Hp.
    + subst p. simpl in Ha, Hb. apply in_app_iff in Ha, Hb.
      destruct (II (s_c1 s, m1) (s_c2 s, m2) In1 In2 Ne) as [_ H12]. simpl in H12.
      destruct Ha as [Ha|Ha]; destruct Hb as [Hb|Hb].
      * apply (A (s_c1 s, m1)); auto.
      * specialize (H12 a b Ha Hb). lra.
      * specialize (H12 b a Hb Ha). rewrite D_sym. lra.
      * apply (A (s_c2 s, m2)); auto.
Qed.
End Closed.
Local Close Scope R_scope.

(** * consequences for the clustering returned by the replay *)

(** single linkage: the threshold clustering of an accepted dendrogram is the set of connected
    components of the below-threshold graph *)
Lemma lw_single_components n (D : nat -> nat -> R) d (steps : list (@step R)) L :
  (forall a b, D a b = D b a) ->
  lw_valid R_ops Reqb Rleb idf LSingle (tinit D n) (init_clusters n) n steps = true ->
  length steps = n - 1 -> 1 <= n ->
  hier R_ops (CDist d) steps n = Some L ->
  forall i j, i < n -> j < n -> (nth i L 0 = nth j L 0 <-> connected n D d i j).
Proof.
  intros S V Len Hn H. apply (single_components n D d steps L); auto.
  apply (lw_valid_single D S steps (tinit D n)); [|exact V].
  apply lw_inv_init; [exact S|]. intros. apply min_single.
Qed.

(** complete linkage: two different samples that share a cluster of the threshold clustering are closer
    than the threshold *)
Lemma lw_complete_diameter n (D : nat -> nat -> R) d (steps : list (@step R)) L :
  (forall a b, D a b = D b a) ->
  lw_valid R_ops Reqb Rleb idf LComplete (tinit D n) (init_clusters n) n steps = true ->
  hier R_ops (CDist d) steps n = Some L ->
  forall i j, i < n -> j < n -> i <> j -> nth i L 0 = nth j L 0 -> (D i j < d)%R.
Proof.
  intros S V H i j Hi Hj Ne E.
  destruct (hier_partition R_ops _ _ _ _ H) as [cl [R [_ [Same _]]]].
  destruct (proj1 (Same i j Hi Hj) E) as [p [Hp [Hip Hjp]]].
  assert (A : intra_lt D d cl).
  { apply (lw_valid_complete_intra D S d steps (tinit D n) (init_clusters n) n cl); auto.
    - apply lw_inv_init; [exact S|]. intros. apply max_single.
    - intros q Hq a b Ha Hb Nab. unfold init_clusters in Hq. apply in_map_iff in Hq as [k [Eq _]]. subst q.
      simpl in Ha, Hb. destruct Ha as [<-|[]]. destruct Hb as [<-|[]]. congruence. }
  apply (A p Hp); auto.
Qed.

(** every method, every arithmetic, every tolerance: an accepted dendrogram of n-1 steps is well formed, so
    the replay never panics, returns a partition, and a requested count k gives min(k, n) clusters *)
Lemma lw_valid_wf_init {F} (o : NumOps F) close le pre m (T : tbl) n (steps : list (@step F)) :
  lw_valid o close le pre m T (init_clusters n) n steps = true -> wf_steps (seq 0 n) n steps = true.
Proof.
  intros V. rewrite <- (init_keys n). eapply lw_valid_wf; eauto.
  - rewrite init_keys. apply seq_NoDup.
  - intros a Ha. rewrite init_keys in Ha. apply in_seq in Ha. lia.
Qed.

Lemma lw_valid_replay {F} (o : NumOps F) close le pre m (T : tbl) n (steps : list (@step F)) :
  lw_valid o close le pre m T (init_clusters n) n steps = true -> length steps = n - 1 ->
  (forall c, exists L, hier o c steps n = Some L) /\
  (forall k, 1 <= k -> exists L, hier o (CNum k) steps n = Some L /\ is_clustering n (Nat.min k n) L).
Proof.
  intros V Len. pose proof (lw_valid_wf_init o _ _ _ _ _ _ _ V) as W. split.
  - intros c. apply wf_hier_some. exact W.
  - intros k Hk. apply hier_count; auto.
Qed.

(** the model's own agglomeration: whenever [prim_linkage] returns a dendrogram, it is well formed *)
Lemma relabel_wf {F} (o : NumOps F) : forall (rs : list (@rawstep F)) (cl : clusters) ct ss,
  relabel rs cl ct = Some ss -> NoDup (map fst cl) -> (forall a, In a (map fst cl) -> a < ct) ->
  wf_steps (map fst cl) ct ss = true /\ length ss = length rs.
Proof.
  induction rs as [|r t IH]; intros cl ct ss H ND LT; simpl in H.
  - inversion H; subst. simpl. auto.
  - destruct (find_cluster cl (r_a r)) as [c1|]; [|discriminate].
    destruct (find_cluster cl (r_b r)) as [c2|]; [|discriminate].
    destruct (c1 =? c2); [discriminate|].
    destruct (remove_key (Nat.min c1 c2) cl) as [[m1 cl1]|] eqn:E1; [|discriminate].
    destruct (remove_key (Nat.max c1 c2) cl1) as [[m2 cl2]|] eqn:E2; [|discriminate].
    destruct (relabel t (cl2 ++ [(ct, m1 ++ m2)]) (S ct)) as [ss'|] eqn:R; [|discriminate].
    inversion H; subst ss. clear H.
    set (s := mkstep (Nat.min c1 c2) (Nat.max c1 c2) (r_d r) (length m1 + length m2)).
    assert (M : merge_step cl ct s = Some (cl2 ++ [(ct, m1 ++ m2)])).
    { unfold merge_step. simpl. rewrite E1, E2. reflexivity. }
    destruct (merge_step_wf _ _ _ _ M ND LT) as [W1 [K [ND' LT']]].
    destruct (IH _ _ _ R ND' LT') as [W L]. split; [|simpl; rewrite L; reflexivity].
    cbn [wf_steps]. rewrite W1. cbn [andb]. rewrite <- K. exact W.
Qed.

Lemma ins_stable_length {F} (o : NumOps F) (x : @rawstep F) l : length (ins_stable o x l) = S (length l).
Proof. induction l as [|y t IH]; simpl; auto. destruct (ltb o (r_d x) (r_d y)); simpl; auto. Qed.

Lemma sort_stable_length {F} (o : NumOps F) (l : list (@rawstep F)) : length (sort_stable o l) = length l.
Proof.
  unfold sort_stable. assert (G : forall l acc, length (fold_left (fun acc x => ins_stable o x acc) l acc) = length l + length acc).
  { clear. induction l as [|x l IH]; intros acc; simpl; auto. rewrite IH, ins_stable_length. lia. }
  rewrite G. simpl. lia.
Qed.

Lemma prim_rounds_length {F} (o : NumOps F) m : forall fuel st (rs : list (@rawstep F)),
  prim_rounds o m fuel st = Some rs -> length rs = fuel.
Proof.
  induction fuel as [|f IH]; intros st rs H; simpl in H; [inversion H; reflexivity|].
  destruct (prim_round o m st) as [[r st']|]; [|discriminate].
  destruct (prim_rounds o m f st') as [rs'|] eqn:E; [|discriminate]. inversion H; subst. simpl. f_equal. eapply IH; eauto.
Qed.

Lemma prim_linkage_wf {F} (o : NumOps F) m n (cond : list F) (ss : list (@step F)) :
  prim_linkage o m n cond = Some ss -> wf_steps (seq 0 n) n ss = true /\ length ss = n - 1.
Proof.
  unfold prim_linkage.
  destruct (prim_rounds o m (n - 1) _) as [raw|] eqn:PR; [|discriminate].
  apply prim_rounds_length in PR.
  set (sorted := if requires_sorting m then _ else _). destruct sorted as [rs|] eqn:ES; [|discriminate].
  assert (Lrs : length rs = n - 1).
  { subst sorted. destruct (requires_sorting m); [|inversion ES; subst; exact PR].
    destruct (_ && _); [discriminate|]. inversion ES; subst. rewrite sort_stable_length. exact PR. }
  destruct (relabel rs (init_clusters n) n) as [ss0|] eqn:R; [|discriminate].
  intros H. apply (relabel_wf o) in R; [| rewrite init_keys; apply seq_NoDup | intros a Ha; rewrite init_keys in Ha; apply in_seq in Ha; lia].
  destruct R as [W L]. rewrite init_keys in W.
  assert (G : forall (f : F -> F) (l : list (@step F)) alive ct,
             wf_steps alive ct (map (fun s => mkstep (s_c1 s) (s_c2 s) (f (s_d s)) (s_size s)) l) = wf_steps alive ct l).
  { clear. induction l as [|s l IH]; intros alive ct; simpl; auto. rewrite IH. reflexivity. }
  destruct (on_squares m); inversion H; subst ss; [rewrite G, map_length|]; split; auto; lia.
Qed.

Local Open Scope R_scope.
(** * monotone methods: accepted dendrograms are sorted by dissimilarity *)
Definition above (h : R) (A B : list nat) (v : R) : Prop := A <> [] /\ B <> [] /\ h <= v.

Definition lw_monotone (m : lmethod) : Prop :=
  forall h v1 v2 dab sa sb sx, (0 < sa)%nat -> (0 < sb)%nat -> h <= v1 -> h <= v2 -> h <= lw_new R_ops m v1 v2 dab sa sb sx.

Lemma above_sym h A B v : above h A B v -> above h B A v.
Proof. intros [H1 [H2 H3]]. repeat split; auto. Qed.

Lemma above_join m h : lw_monotone m -> forall A1 A2 X v1 v2 dab, above h A1 X v1 -> above h A2 X v2 ->
  above h (A1 ++ A2) X (lw_new R_ops m v1 v2 dab (length A1) (length A2) (length X)).
Proof.
  intros Mo A1 A2 X v1 v2 dab [N1 [NX H1]] [N2 [_ H2]]. split; [destruct A1; simpl; congruence|]. split; [exact NX|].
  apply Mo; auto; [destruct A1|destruct A2]; simpl; try congruence; lia.
Qed.

Lemma mono_single : lw_monotone LSingle.
Proof. intros h v1 v2 dab sa sb sx _ _ H1 H2. simpl. destruct (Rltb v1 v2); auto. Qed.
Lemma mono_complete : lw_monotone LComplete.
Proof. intros h v1 v2 dab sa sb sx _ _ H1 H2. simpl. destruct (Rltb v2 v1); auto. Qed.
Lemma mono_weighted : lw_monotone LWeighted.
Proof.
  intros h v1 v2 dab sa sb sx _ _ H1 H2. cbn [lw_new]. unfold half. cbn [add mul div one R_ops]. 
  replace (1 / (1 + 1) * (v1 + v2)) with ((v1 + v2) / 2) by field. lra.
Qed.
Lemma mono_average : lw_monotone LAverage.
Proof.
  intros h v1 v2 dab sa sb sx Ha Hb H1 H2. cbn [lw_new]. rewrite !fnat_R. cbn [add mul div R_ops].
  assert (0 < INR sa) by (apply lt_0_INR; exact Ha). assert (0 < INR sb) by (apply lt_0_INR; exact Hb).
  apply Rmult_le_reg_r with (INR sa + INR sb); [lra|].
  replace ((INR sa * v1 + INR sb * v2) / (INR sa + INR sb) * (INR sa + INR sb)) with (INR sa * v1 + INR sb * v2) by (field; lra).
  nra.
Qed.

Lemma lw_valid_sorted_aux m (Mo : lw_monotone m) : forall steps h T cl ct,
  lw_inv (above h) T cl ct -> lw_valid R_ops Reqb Rleb idf m T cl ct steps = true ->
  Forall (fun s => h <= s_d s) steps /\ steps_sorted steps.
Proof.
  induction steps as [|s r IH]; intros h T cl ct I V; [split; constructor|].
  destruct (lw_valid_step _ _ _ _ _ _ _ I V) as [m1 [cl1 [m2 [cl2 [T' [cl' [E1 [E2 [In1 [In2 [Ne [M [EC [Hd [Hmin V']]]]]]]]]]]]]]].
  pose proof I as [L [ND [LT II]]].
  assert (Hh : h <= s_d s).
  { destruct (II (s_c1 s, m1) (s_c2 s, m2) In1 In2 Ne) as [_ [_ H]]. simpl in H. lra. }
  assert (I' : lw_inv (above (s_d s)) T cl ct).
  { split; [exact L|]. split; [exact ND|]. split; [exact LT|]. intros p q Hp Hq Npq.
    destruct (II p q Hp Hq Npq) as [A [B _]]. split; [exact A|]. split; [exact B|]. apply Hmin; auto. }
  pose proof (lw_merge_inv (above (s_d s)) m (above_sym (s_d s)) (above_join m (s_d s) Mo) _ _ _ _ _ _ _ I' M) as I2.
  destruct (IH _ _ _ _ I2 V') as [F S]. split.
  - constructor; [exact Hh|]. eapply Forall_impl; [|exact F]. intros a Ha. simpl in Ha. lra.
  - constructor; [exact S|exact F].
Qed.

Lemma lw_valid_sorted m n (D : nat -> nat -> R) (steps : list (@step R)) :
  lw_monotone m -> (forall a b, D a b = D b a) ->
  lw_valid R_ops Reqb Rleb idf m (tinit D n) (init_clusters n) n steps = true -> steps_sorted steps.
Proof.
  intros Mo S V. destruct steps as [|s r]; [constructor|].
  set (P0 := fun (A B : list nat) (v : R) => A <> [] /\ B <> []).
  assert (I0 : lw_inv P0 (tinit D n) (init_clusters n) n).
  { apply (lw_inv_init D S). intros i j _ _ _. split; discriminate. }
  destruct (lw_valid_step _ _ _ _ _ _ _ I0 V) as [m1 [cl1 [m2 [cl2 [T' [cl' [_ [_ [_ [_ [_ [_ [_ [_ [Hmin _]]]]]]]]]]]]]]].
  destruct I0 as [L [ND [LT II]]].
  assert (I : lw_inv (above (s_d s)) (tinit D n) (init_clusters n) n).
  { split; [exact L|]. split; [exact ND|]. split; [exact LT|]. intros p q Hp Hq Npq.
    destruct (II p q Hp Hq Npq) as [A B]. split; [exact A|]. split; [exact B|]. apply Hmin; auto. }
  apply (lw_valid_sorted_aux m Mo (s :: r) (s_d s) _ _ _ I V).
Qed.

(** hence with a threshold exactly the merges below it are performed *)
Lemma lw_valid_threshold m n (D : nat -> nat -> R) d (steps : list (@step R)) :
  lw_monotone m -> (forall a b, D a b = D b a) ->
  lw_valid R_ops Reqb Rleb idf m (tinit D n) (init_clusters n) n steps = true ->
  replay R_ops (CDist d) steps (init_clusters n) n = merge_all (filter (fun s => Rltb (s_d s) d) steps) (init_clusters n) n.
Proof. intros Mo S V. apply replay_threshold_sorted. eapply lw_valid_sorted; eauto. Qed.
Local Close Scope R_scope.

(** * non-vacuity *)
(* three samples with D(0,1) = 1, D(1,2) = 2, D(0,2) = 3: the single-linkage dendrogram is accepted by the
   exact check over the reals ... *)
Example lw_valid_single_ex :
  lw_valid R_ops Reqb Rleb idf LSingle (tinit D_ex 3) (init_clusters 3) 3 [mkstep 0 1 1%R 2; mkstep 2 3 2%R 3] = true.
Proof.
  assert (Q : forall a b, a = b -> Reqb a b = true) by (intros; apply Reqb_true; auto).
  assert (L : forall a b, (a <= b)%R -> Rleb a b = true) by (intros; apply Rleb_true; auto).
  assert (R31 : Rltb 3 2 = false) by (apply Rltb_false; lra).
  cbn. unfold idf. rewrite R31. rewrite !Q by reflexivity. rewrite !L by lra. reflexivity.
Qed.

(* ... and in binary64 the model's own agglomeration of the condensed matrix [1; 3; 2] is that dendrogram,
   which the check accepts for every method *)
Example prim_linkage_ex :
  prim_linkage B64_ops LSingle 3 [1; 3; 2]%float = Some [mkstep 0 1 1%float 2; mkstep 2 3 2%float 3] /\
  prim_linkage B64_ops LComplete 3 [1; 3; 2]%float = Some [mkstep 0 1 1%float 2; mkstep 2 3 3%float 3] /\
  prim_linkage B64_ops LAverage 3 [1; 3; 2]%float = Some [mkstep 0 1 1%float 2; mkstep 2 3 0x1.4p+1%float 3] /\
  forallb (fun m => match prim_linkage B64_ops m 3 [1; 3; 2]%float with
                    | Some ss => lw_valid B64_ops PrimFloat.eqb PrimFloat.leb (fun x => if on_squares m then PrimFloat.mul x x else x) m
                                          (tinit_cond B64_ops m 3 [1; 3; 2]%float) (init_clusters 3) 3 ss
                    | None => false
                    end) [LSingle; LComplete; LAverage; LWeighted; LCentroid; LMedian] = true.
Proof. repeat split; vm_compute; reflexivity. Qed.
