(** C06 (T2) - the dense kernel matrix is symmetric bit for bit in binary64: x*y = y*x and
    (x-y)*(x-y) = (y-x)*(y-x) hold for IEEE operations (through the SpecFloat specification of Coq's
    primitive floats). *)
From Coq Require Import List ZArith Bool Arith Floats SpecFloat Lia.
From LinfaVerif Require Import Common.Num Common.NdSum C06.Model C06.Proofs.
Import ListNotations.

Section Spec.
Variables prec emax : Z.

Lemma SFmul_comm x y : SFmul prec emax x y = SFmul prec emax y x.
Proof.
  destruct x as [sx|sx| |sx mx ex], y as [sy|sy| |sy my ey]; simpl; try reflexivity;
    try (rewrite (xorb_comm sx sy); reflexivity).
  rewrite (xorb_comm sx sy), (Pos.mul_comm mx my), (Z.add_comm ex ey). reflexivity.
Qed.

Lemma SFmul_opp_opp u : SFmul prec emax (SFopp u) (SFopp u) = SFmul prec emax u u.
Proof. destruct u as [s|s| |s m e]; simpl; try reflexivity; destruct s; reflexivity. Qed.

Lemma binary_round_aux_neg s m e l :
  binary_round_aux prec emax (negb s) m e l = SFopp (binary_round_aux prec emax s m e l).
Proof.
  unfold binary_round_aux. destruct (shr_fexp prec emax m e l) as [r1 e1].
  destruct (shr_fexp prec emax _ e1 loc_Exact) as [r2 e2].
  destruct (shr_m r2); try reflexivity. destruct (e2 <=? emax - prec)%Z; reflexivity.
Qed.

Lemma binary_round_neg s m e : binary_round prec emax (negb s) m e = SFopp (binary_round prec emax s m e).
Proof. unfold binary_round. destruct (shl_align m e _). apply binary_round_aux_neg. Qed.

Lemma binary_normalize_opp m e : binary_normalize prec emax (- m) e false = SFopp (binary_normalize prec emax m e false)
                                \/ binary_normalize prec emax (- m) e false = binary_normalize prec emax m e false.
Proof.
  destruct m as [|p|p]; simpl.
  - right. reflexivity.
  - left. apply (binary_round_neg false).
  - left. rewrite (binary_round_neg false). destruct (binary_round prec emax false p e) as [s|s| |s mm ee]; simpl; try reflexivity;
      rewrite negb_involutive; reflexivity.
Qed.

Lemma SFsub_swap x y : SFsub prec emax y x = SFopp (SFsub prec emax x y) \/ SFsub prec emax y x = SFsub prec emax x y.
Proof.
  destruct x as [sx|sx| |sx mx ex], y as [sy|sy| |sy my ey]; simpl;
    try (left; reflexivity); try (right; reflexivity);
    try (destruct sx, sy; simpl; (left; reflexivity) || (right; reflexivity)).
  rewrite (Z.min_comm ey ex).
  set (A := cond_Zopp sx (Z.pos (fst (shl_align mx ex (Z.min ex ey))))).
  set (B := cond_Zopp sy (Z.pos (fst (shl_align my ey (Z.min ex ey))))).
  replace (B - A)%Z with (- (A - B))%Z by lia. apply binary_normalize_opp.
Qed.

Lemma SF_sq_diff x y :
  SFmul prec emax (SFsub prec emax x y) (SFsub prec emax x y) = SFmul prec emax (SFsub prec emax y x) (SFsub prec emax y x).
Proof. destruct (SFsub_swap x y) as [E|E]; rewrite E; [rewrite SFmul_opp_opp|]; reflexivity. Qed.
End Spec.

(** binary64 *)
Lemma mul_comm_b64 (x y : float) : PrimFloat.mul x y = PrimFloat.mul y x.
Proof. apply Prim2SF_inj. rewrite !mul_spec. apply SFmul_comm. Qed.

Lemma sq_diff_b64 (x y : float) :
  PrimFloat.mul (PrimFloat.sub x y) (PrimFloat.sub x y) = PrimFloat.mul (PrimFloat.sub y x) (PrimFloat.sub y x).
Proof. apply Prim2SF_inj. rewrite !mul_spec, !sub_spec. apply SF_sq_diff. Qed.

Lemma map2_comm_gen {A B} (f : A -> A -> B) : (forall x y, f x y = f y x) -> forall a b, map2 f a b = map2 f b a.
Proof. intros H a; induction a as [|x a IH]; intros [|y b]; simpl; auto. rewrite H, IH. reflexivity. Qed.

Lemma kernel_entry_sym_b64 tr m (a b : list float) : kernel_entry B64_ops tr m a b = kernel_entry B64_ops tr m b a.
Proof.
  assert (L : lin B64_ops a b = lin B64_ops b a).
  { unfold lin. f_equal. apply map2_comm_gen. intros; simpl; apply mul_comm_b64. }
  destruct m as [|eps|c d]; simpl; auto.
  - f_equal. unfold kernel_arg. f_equal. f_equal. f_equal. apply map2_comm_gen. intros; simpl; apply sq_diff_b64.
  - unfold kernel_arg. f_equal. f_equal. exact L.
Qed.
