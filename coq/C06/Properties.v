(** C06 - property theorems (statements only; proofs are in C06/Proofs*.v).
    [o] ranges over every arithmetic (NumOps instance, including binary64) unless R_ops is named;
    [tr] is the transcendental function of the kernel (exp, or powf(., degree)). *)
From Coq Require Import List NArith Reals Permutation Floats.
From Flocq Require Import Core BinarySingleNaN.
From LinfaVerif Require Import Common.Num Common.NdSum C06.Model C06.ModelLW C06.ModelKnn C06.Dy C06.Proofs C06.ProofsViews C06.ProofsPsd C06.ProofsSingle C06.ProofsB64 C06.ProofsSparse C06.ProofsLW C06.ProofsKnn.
Import ListNotations.

(** ** kernel matrices *)

(** entry (i,j) of a dense kernel matrix is the kernel function of records i and j *)
Theorem dense_entry : forall F (o : NumOps F) tr m (X : list (list F)) i j,
  i < length X -> j < length X ->
  length (dense o tr m X) = length X /\ length (nth i (dense o tr m X) []) = length X /\
  nth j (nth i (dense o tr m X) []) (zero o) = kernel_entry o tr m (nth i X []) (nth j X []).
Proof.
  intros F o tr m X i j Hi Hj.
  split; [apply dense_length|]. split; [apply dense_row_length; exact Hi|]. apply dense_entry_l; assumption.
Qed.

(** hence it is symmetric (exact arithmetic; linear, Gaussian and polynomial kernels alike) *)
Theorem dense_symmetric : forall tr m (X : list (list R)) i j,
  i < length X -> j < length X ->
  nth j (nth i (dense R_ops tr m X) []) 0%R = nth i (nth j (dense R_ops tr m X) []) 0%R.
Proof.
  intros tr m X i j Hi Hj. rewrite !dense_entry_l by assumption. apply kernel_entry_sym_R.
Qed.

(** (T2) in binary64 the symmetry holds bit for bit: x*y = y*x and (x-y)*(x-y) = (y-x)*(y-x) for the IEEE
    operations, so the matrix built by the implementation's arithmetic is exactly symmetric *)
Theorem dense_symmetric_b64 : forall tr m (X : list (list PrimFloat.float)) i j,
  i < length X -> j < length X ->
  nth j (nth i (dense B64_ops tr m X) []) 0%float = nth i (nth j (dense B64_ops tr m X) []) 0%float.
Proof.
  intros tr m X i j Hi Hj. rewrite !dense_entry_l by assumption. apply kernel_entry_sym_b64.
Qed.

(** and a Gaussian kernel has unit diagonal *)
Theorem gaussian_diag_one : forall (tr : R -> R) eps (X : list (list R)) i,
  tr 0%R = 1%R -> eps <> 0%R -> i < length X ->
  nth i (nth i (dense R_ops tr (KGauss eps) X) []) 0%R = 1%R.
Proof.
  intros tr eps X i H _ Hi. rewrite dense_entry_l by assumption. apply gaussian_self_R. exact H.
Qed.

(** the sparse variant stores the diagonal and exactly the pairs in which one point is among the
    neighbours the index returned for the other - whichever index produced the lists *)
Theorem adjacency_iff : forall (nbrs : list (list nat)) i j,
  i < length nbrs -> j < length nbrs ->
  (In j (nth i (adjacency nbrs) []) <-> i = j \/ In j (nth i nbrs []) \/ In i (nth j nbrs [])).
Proof. exact adjacency_In. Qed.

Theorem adjacency_symmetric : forall (nbrs : list (list nat)) i j,
  i < length nbrs -> j < length nbrs ->
  (In j (nth i (adjacency nbrs) []) <-> In i (nth j (adjacency nbrs) [])).
Proof. intros nbrs i j Hi Hj. rewrite !adjacency_In by assumption. intuition. Qed.

Theorem adjacency_has_diagonal : forall (nbrs : list (list nat)) i,
  i < length nbrs -> In i (nth i (adjacency nbrs) []).
Proof. intros nbrs i Hi. apply adjacency_In; auto. Qed.

(** ... up to ties: the sparse pattern P accepted by the certificate check of the run (the oracle of bit 8)
    is exactly what equidistant neighbours allow - there are answers to "the k+1 nearest records of record
    i" (k+1 different records, none outside the list strictly closer than one inside it; [dd] is the
    distance the index compares) whose symmetrised union plus the diagonal is P - and nothing more: every
    such pattern is accepted *)
Theorem adjacency_iff_up_to_ties : forall F (o : NumOps F) n (dd : nat -> nat -> F) k nbrs P,
  pattern_cert_ok o n dd k nbrs P = true ->
  length nbrs = n /\
  (forall i, i < n -> is_knn_answer o n dd i (S k) (nth i nbrs [])) /\
  (forall i j, i < n -> j < n -> (In j (nth i P []) <-> i = j \/ In j (nth i nbrs []) \/ In i (nth j nbrs []))).
Proof. exact (@pattern_cert_sound). Qed.

Theorem adjacency_up_to_ties_complete : forall F (o : NumOps F) n (dd : nat -> nat -> F) k nbrs,
  length nbrs = n -> (forall i, i < n -> is_knn_answer o n dd i (S k) (nth i nbrs [])) ->
  pattern_cert_ok o n dd k nbrs (adjacency nbrs) = true.
Proof. exact (@pattern_cert_complete). Qed.

(** the values stored by the sparse kernel are the kernel entries of their positions *)
Theorem sparse_values : forall F (o : NumOps F) tr m (X : list (list F)) (nbrs : list (list nat)) i,
  length nbrs = length X -> i < length X ->
  nth i (sparse_rows o tr m X (adjacency nbrs)) [] =
  map (fun j => (j, kernel_entry o tr m (nth i X []) (nth j X []))) (nth i (adjacency nbrs) []).
Proof.
  intros F o tr m X nbrs i H Hi. apply sparse_rows_spec; [exact Hi|]. rewrite adjacency_length, H. exact Hi.
Qed.

(** positive semidefiniteness, certified per run (pattern B): whenever the exact checker accepts a
    matrix K of dyadic values (with any hint L), then x^T K x >= - delta |x|^2 for every vector x; the run
    evaluates it on every dense Gaussian kernel matrix with delta = n^2 2^-48 *)
Theorem gaussian_psd_certificate : forall n K L delta,
  psd_cert_ok n K L delta = true ->
  forall x : nat -> R,
  (- dyR delta * sumn (fun i => x i * x i) n <= qf n (fun i j => dyR (ent K i j)) x)%R.
Proof. exact psd_cert_sound'. Qed.

(** the dyadic pair the checker reads off a float is the float's real value *)
Theorem dyadic_value_of_float : forall x : PrimFloat.float, dyR (dy_of x) = SF2R radix2 (Prim2SF x).
Proof. exact dy_of_value. Qed.

(** ** views *)

(** the upper triangle lists the entries (i,j), i < j < n, row by row *)
Theorem upper_triangle_order : forall F (M : list (list F)) d,
  (forall i, i < length M -> length (nth i M []) = length M) ->
  d_upper M = map (fun p => nth (snd p) (nth (fst p) M []) d) (upper_pairs (length M)) /\
  (forall i j, In (i, j) (upper_pairs (length M)) <-> i < j /\ j < length M).
Proof. intros F M d H. split; [apply d_upper_order; exact H|intros; apply upper_pairs_spec]. Qed.

(** the diagonal, upper triangle and (over the reals) columns reported for a CSR kernel are those of
    its dense form *)
Theorem views_agree : forall n (rows : list (@srow R)) i,
  length rows = n -> i < n ->
  s_diag R_ops n rows = d_diag R_ops (s_to_dense R_ops n rows) /\
  s_upper R_ops n rows = d_upper (s_to_dense R_ops n rows) /\
  s_column R_ops n rows i = d_column R_ops (s_to_dense R_ops n rows) i.
Proof.
  intros n rows i H Hi. split; [apply s_diag_dense; exact H|]. split; [reflexivity|].
  apply s_column_dense_R; assumption.
Qed.

(** the sums reported for a dense kernel are its row sums (ndarray's unrolled summation is a sum), and
    for a well-formed symmetric CSR kernel the reported sums (column sums accumulated over the stored
    entries) and matrix products are those of its dense form *)
Theorem views_agree_sum_dot : forall n (rows : list (@srow R)) (B : list (list R)) nc,
  srows_ok n rows ->
  (forall i j, i < n -> j < n -> sval j (nth i rows []) = sval i (nth j rows [])) ->
  length B = n ->
  (forall M : list (list R), d_sum R_ops M = map Rsum M) /\
  s_sum R_ops n rows = d_sum R_ops (s_to_dense R_ops n rows) /\
  s_dot R_ops rows B nc = d_dot R_ops (s_to_dense R_ops n rows) B nc.
Proof.
  intros n rows B nc OK SYM LB. split; [|split].
  - intros M. unfold d_sum. apply map_ext. exact usum_R.
  - apply s_sum_dense; assumption.
  - apply s_dot_dense; assumption.
Qed.

(** the sparse kernel built by the model from duplicate-free in-range neighbour lists is such a
    well-formed symmetric CSR matrix: rows strictly sorted, indices below n, value (i,j) = value (j,i);
    so its reported sums and products are those of its dense form *)
Theorem sparse_kernel_views : forall tr m (X : list (list R)) nbrs (B : list (list R)) nc,
  length nbrs = length X -> nbrs_ok nbrs -> length B = length X ->
  let n := length X in
  let rows := sparse_rows R_ops tr m X (adjacency nbrs) in
  (forall i, i < n -> ssorted (nth i (adjacency nbrs) [])) /\
  s_sum R_ops n rows = d_sum R_ops (s_to_dense R_ops n rows) /\
  s_dot R_ops rows B nc = d_dot R_ops (s_to_dense R_ops n rows) B nc.
Proof.
  intros tr m X nbrs B nc L OK LB n rows.
  destruct (sparse_rows_wellformed tr m X nbrs L OK) as [W S]. split; [|split].
  - intros i Hi. apply adjacency_row_ok; [exact OK|]. rewrite L. exact Hi.
  - apply s_sum_dense; assumption.
  - apply s_dot_dense; assumption.
Qed.

(** ** agglomerative clustering: replay of the dendrogram *)

(** whatever the criterion and the steps, a labelling that is returned numbers all n samples with
    exactly the numbers 0..c-1 of the c clusters left, two samples share a number iff they lie in the
    same cluster, and the clusters partition the samples *)
Theorem replay_partition : forall F (o : NumOps F) c (steps : list (@step F)) n L,
  hier o c steps n = Some L ->
  exists cl, replay o c steps (init_clusters n) n = Some cl /\
    is_clustering n (length cl) L /\
    (forall i j, i < n -> j < n -> (nth i L 0 = nth j L 0 <-> exists p, In p cl /\ In i (snd p) /\ In j (snd p))) /\
    Permutation (concat (map snd cl)) (seq 0 n).
Proof. exact (@hier_partition). Qed.

(** on a well-formed dendrogram the replay never looks up a missing cluster (no panic), whatever the criterion *)
Theorem replay_total : forall F (o : NumOps F) c (steps : list (@step F)) n,
  wf_steps (seq 0 n) n steps = true -> exists L, hier o c steps n = Some L.
Proof. exact (@wf_hier_some). Qed.

(** on a complete well-formed dendrogram (n-1 steps) a requested count k >= 1 yields exactly min(k, n) clusters *)
Theorem replay_count : forall F (o : NumOps F) (steps : list (@step F)) n k,
  wf_steps (seq 0 n) n steps = true -> length steps = n - 1 -> 1 <= k ->
  exists L, hier o (CNum k) steps n = Some L /\ is_clustering n (Nat.min k n) L.
Proof. exact (@hier_count). Qed.

(** with a distance threshold the merges performed are the leading steps below the threshold ... *)
Theorem replay_threshold_prefix : forall F (o : NumOps F) d (steps : list (@step F)) cl ct,
  replay o (CDist d) steps cl ct = merge_all (take_while (fun s => negb (leb o d (s_d s))) steps) cl ct.
Proof. exact (@Proofs.replay_threshold_prefix). Qed.

(** ... which for a dendrogram sorted by dissimilarity (every monotone linkage) are exactly all the
    merges whose dissimilarity is below the threshold *)
Theorem replay_threshold : forall d (steps : list (@step R)) cl ct,
  steps_sorted steps ->
  replay R_ops (CDist d) steps cl ct = merge_all (filter (fun s => Rltb (s_d s) d) steps) cl ct.
Proof. exact replay_threshold_sorted. Qed.

(** (T2) single linkage: if every step of the dendrogram joins two live clusters at a dissimilarity that
    is attained between them and is minimal among all pairs of live clusters, the threshold clustering
    puts two samples together iff they are connected in the graph { (a,b) | D a b < d } *)
Theorem single_linkage_components : forall n (D : nat -> nat -> R) d (steps : list (@step R)) L,
  valid_single D (init_clusters n) n steps -> length steps = n - 1 -> 1 <= n ->
  hier R_ops (CDist d) steps n = Some L ->
  forall i j, i < n -> j < n -> (nth i L 0 = nth j L 0 <-> connected n D d i j).
Proof. exact single_components. Qed.

(** ** agglomerative clustering: the Lance-Williams recurrence (C06/ModelLW.v)

    [lw_run m (tinit D n) (init_clusters n) n ms] merges the pairs [ms] of live cluster ids one after the
    other (in any order, not only closest pairs) and updates the dissimilarities by kodama's recurrence. *)

(** single linkage: the recurrence holds the smallest dissimilarity between the two member lists *)
Theorem lance_williams_single_is_min : forall (D : nat -> nat -> R) n ms T cl,
  (forall a b, D a b = D b a) ->
  lw_run R_ops LSingle (tinit D n) (init_clusters n) n ms = Some (T, cl) ->
  forall x mx y my, In (x, mx) cl -> In (y, my) cl -> x <> y ->
  (exists a b, In a mx /\ In b my /\ D a b = tget R_ops T x y) /\
  (forall a b, In a mx -> In b my -> (tget R_ops T x y <= D a b)%R).
Proof. intros D n ms T cl S H. exact (lw_single_is_min D S n ms T cl H). Qed.

(** complete linkage: the largest one *)
Theorem lance_williams_complete_is_max : forall (D : nat -> nat -> R) n ms T cl,
  (forall a b, D a b = D b a) ->
  lw_run R_ops LComplete (tinit D n) (init_clusters n) n ms = Some (T, cl) ->
  forall x mx y my, In (x, mx) cl -> In (y, my) cl -> x <> y ->
  (exists a b, In a mx /\ In b my /\ D a b = tget R_ops T x y) /\
  (forall a b, In a mx -> In b my -> (D a b <= tget R_ops T x y)%R).
Proof. intros D n ms T cl S H. exact (lw_complete_is_max D S n ms T cl H). Qed.

(** average linkage: the mean of all dissimilarities between a member of one and a member of the other *)
Theorem lance_williams_average_is_mean : forall (D : nat -> nat -> R) n ms T cl,
  (forall a b, D a b = D b a) ->
  lw_run R_ops LAverage (tinit D n) (init_clusters n) n ms = Some (T, cl) ->
  forall x mx y my, In (x, mx) cl -> In (y, my) cl -> x <> y ->
  mx <> [] /\ my <> [] /\
  (tget R_ops T x y * INR (length mx) * INR (length my) = psum D mx my)%R.
Proof. intros D n ms T cl S H. exact (lw_average_is_mean D S n ms T cl H). Qed.

(** every linkage method, every arithmetic (binary64 included), every tolerance of the comparison: a
    dendrogram of n-1 steps that the run's check [lw_valid] accepts is well formed, so the replay of
    linfa-hierarchical never looks up a missing cluster, returns a labelling for every criterion, and a
    requested count k >= 1 yields exactly min(k, n) clusters (replay_partition describes the labelling) *)
Theorem linkage_replay_partition : forall F (o : NumOps F) close le pre m (T : tbl) n (steps : list (@step F)),
  lw_valid o close le pre m T (init_clusters n) n steps = true -> length steps = n - 1 ->
  wf_steps (seq 0 n) n steps = true /\
  (forall c, exists L, hier o c steps n = Some L) /\
  (forall k, 1 <= k -> exists L, hier o (CNum k) steps n = Some L /\ is_clustering n (Nat.min k n) L).
Proof.
  intros F o close le pre m T n steps V Len. split; [eapply lw_valid_wf_init; eauto|].
  eapply lw_valid_replay; eauto.
Qed.

(** single linkage, end to end over the reals: a dendrogram accepted by the exact check (reported heights
    equal the recurrence, no live pair closer) cut at a threshold gives the connected components of the
    below-threshold graph - the validity hypothesis of single_linkage_components is what the check decides *)
Theorem single_linkage_lw_components : forall n (D : nat -> nat -> R) d (steps : list (@step R)) L,
  (forall a b, D a b = D b a) ->
  lw_valid R_ops Reqb Rleb idf LSingle (tinit D n) (init_clusters n) n steps = true ->
  length steps = n - 1 -> 1 <= n ->
  hier R_ops (CDist d) steps n = Some L ->
  forall i j, i < n -> j < n -> (nth i L 0 = nth j L 0 <-> connected n D d i j).
Proof. exact lw_single_components. Qed.

(** complete linkage: in the threshold clustering of an accepted dendrogram any two different samples of
    one cluster are closer than the threshold (cluster diameters stay below it) *)
Theorem complete_linkage_diameter : forall n (D : nat -> nat -> R) d (steps : list (@step R)) L,
  (forall a b, D a b = D b a) ->
  lw_valid R_ops Reqb Rleb idf LComplete (tinit D n) (init_clusters n) n steps = true ->
  hier R_ops (CDist d) steps n = Some L ->
  forall i j, i < n -> j < n -> i <> j -> nth i L 0 = nth j L 0 -> (D i j < d)%R.
Proof. exact lw_complete_diameter. Qed.

(** single, complete, average and weighted linkage never lower a dissimilarity below the height of the merge
    (the recurrence is monotone) ... *)
Theorem lance_williams_monotone :
  lw_monotone LSingle /\ lw_monotone LComplete /\ lw_monotone LAverage /\ lw_monotone LWeighted.
Proof. exact (conj mono_single (conj mono_complete (conj mono_average mono_weighted))). Qed.

(** ... so a dendrogram of such a method accepted by the exact check is sorted by dissimilarity, and cutting it
    at a threshold performs exactly the merges whose dissimilarity is below the threshold (replay_threshold
    without a separate sortedness hypothesis) *)
Theorem linkage_threshold_all_merges : forall m n (D : nat -> nat -> R) d (steps : list (@step R)),
  lw_monotone m -> (forall a b, D a b = D b a) ->
  lw_valid R_ops Reqb Rleb idf m (tinit D n) (init_clusters n) n steps = true ->
  steps_sorted steps /\
  replay R_ops (CDist d) steps (init_clusters n) n =
  merge_all (filter (fun s => Rltb (s_d s) d) steps) (init_clusters n) n.
Proof.
  intros m n D d steps Mo S V. split; [eapply lw_valid_sorted; eauto|eapply lw_valid_threshold; eauto].
Qed.

(** the model's own agglomeration (the transliteration of kodama::primitive that the run compares with
    kodama bit for bit): whenever it returns a dendrogram, for any of the seven methods, that dendrogram
    has n-1 well-formed steps - so replay_total / replay_count / replay_partition apply to it *)
Theorem prim_linkage_wellformed : forall F (o : NumOps F) m n (cond : list F) (ss : list (@step F)),
  prim_linkage o m n cond = Some ss -> wf_steps (seq 0 n) n ss = true /\ length ss = n - 1.
Proof. exact (@prim_linkage_wf). Qed.
