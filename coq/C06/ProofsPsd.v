(** C06 - soundness of the positive-semidefiniteness certificate of C06/Dy.v. *)
From Coq Require Import List ZArith Bool Arith Reals Lra Lia Floats.
From Flocq Require Import Core BinarySingleNaN.
From LinfaVerif Require Import C06.Dy.
Import ListNotations.
Local Open Scope R_scope.

(** * finite sums and quadratic forms *)
Fixpoint sumn (f : nat -> R) (n : nat) : R := match n with O => 0 | S k => sumn f k + f k end.

Lemma sumn_ext f g n : (forall i, (i < n)%nat -> f i = g i) -> sumn f n = sumn g n.
Proof. induction n as [|n IH]; intros H; simpl; auto. rewrite IH, H; auto. Qed.
Lemma sumn_plus f g n : sumn (fun i => f i + g i) n = sumn f n + sumn g n.
Proof. induction n as [|n IH]; simpl; [lra|]. rewrite IH. lra. Qed.
Lemma sumn_scal c f n : sumn (fun i => c * f i) n = c * sumn f n.
Proof. induction n as [|n IH]; simpl; [lra|]. rewrite IH. lra. Qed.
Lemma sumn_scal_r c f n : sumn (fun i => f i * c) n = sumn f n * c.
Proof. induction n as [|n IH]; simpl; [lra|]. rewrite IH. lra. Qed.
Lemma sumn_le f g n : (forall i, (i < n)%nat -> f i <= g i) -> sumn f n <= sumn g n.
Proof. induction n as [|n IH]; intros H; simpl; [lra|]. assert (f n <= g n) by auto. assert (sumn f n <= sumn g n) by auto. lra. Qed.
Lemma sumn_nonneg f n : (forall i, (i < n)%nat -> 0 <= f i) -> 0 <= sumn f n.
Proof. induction n as [|n IH]; intros H; simpl; [lra|]. assert (0 <= f n) by auto. assert (0 <= sumn f n) by auto. lra. Qed.
Lemma sumn_zero n : sumn (fun _ => 0) n = 0.
Proof. induction n as [|n IH]; simpl; lra. Qed.
Lemma sumn_swap (f : nat -> nat -> R) n m :
  sumn (fun i => sumn (fun j => f i j) m) n = sumn (fun j => sumn (fun i => f i j) n) m.
Proof.
  induction n as [|n IH]; simpl.
  - symmetry. apply sumn_zero.
  - rewrite IH. rewrite <- sumn_plus. reflexivity.
Qed.

Definition qf (n : nat) (M : nat -> nat -> R) (x : nat -> R) : R :=
  sumn (fun i => sumn (fun j => M i j * x i * x j) n) n.

Lemma qf_plus n A B x : qf n (fun i j => A i j + B i j) x = qf n A x + qf n B x.
Proof.
  unfold qf. rewrite <- sumn_plus. apply sumn_ext. intros i _. rewrite <- sumn_plus. apply sumn_ext. intros j _. lra.
Qed.

Lemma qf_ext n A B x : (forall i j, (i < n)%nat -> (j < n)%nat -> A i j = B i j) -> qf n A x = qf n B x.
Proof. intros H. unfold qf. apply sumn_ext. intros i Hi. apply sumn_ext. intros j Hj. rewrite H; auto. Qed.

(** a Gram matrix is positive semidefinite *)
Lemma qf_gram n m (L : nat -> nat -> R) x :
  0 <= qf n (fun i j => sumn (fun k => L i k * L j k) m) x.
Proof.
  unfold qf.
  assert (E : sumn (fun i => sumn (fun j => sumn (fun k => L i k * L j k) m * x i * x j) n) n
              = sumn (fun k => sumn (fun i => L i k * x i) n * sumn (fun i => L i k * x i) n) m).
  { transitivity (sumn (fun i => sumn (fun k => (L i k * x i) * sumn (fun j => L j k * x j) n) m) n).
    - apply sumn_ext. intros i _.
      transitivity (sumn (fun j => sumn (fun k => (L i k * x i) * (L j k * x j)) m) n).
      + apply sumn_ext. intros j _. rewrite <- sumn_scal_r, <- sumn_scal_r. apply sumn_ext. intros k _. lra.
      + rewrite sumn_swap. apply sumn_ext. intros k _. rewrite sumn_scal. reflexivity.
    - rewrite sumn_swap. apply sumn_ext. intros k _. rewrite <- sumn_scal_r. reflexivity. }
  rewrite E. apply sumn_nonneg. intros k _. apply Rle_0_sqr.
Qed.

(** a symmetric diagonally dominant matrix with non-negative diagonal is positive semidefinite *)
Lemma qf_dd n (E : nat -> nat -> R) x :
  (forall i j, (i < n)%nat -> (j < n)%nat -> E i j = E j i) ->
  (forall i, (i < n)%nat -> sumn (fun j => if (i =? j)%nat then 0 else Rabs (E i j)) n <= E i i) ->
  0 <= qf n E x.
Proof.
  intros SYM DD.
  set (a := fun i j => if (i =? j)%nat then 0 else Rabs (E i j)).
  (* term-wise lower bound *)
  assert (T : forall i j, (i < n)%nat -> (j < n)%nat ->
     (if (i =? j)%nat then E i i * (x i * x i) else 0) - a i j * (x i * x i) / 2 - a i j * (x j * x j) / 2 <= E i j * x i * x j).
  { intros i j Hi Hj. unfold a. destruct (i =? j)%nat eqn:Eq.
    - apply Nat.eqb_eq in Eq. subst j. lra.
    - assert (H1 : - Rabs (E i j) <= E i j) by (pose proof (Rle_abs (- E i j)); rewrite Rabs_Ropp in H; lra).
      assert (H2 : E i j <= Rabs (E i j)) by apply Rle_abs.
      assert (H3 : 0 <= Rabs (E i j)) by apply Rabs_pos.
      assert (P : 0 <= (x i + x j) * (x i + x j)) by apply Rle_0_sqr.
      assert (M : 0 <= (x i - x j) * (x i - x j)) by apply Rle_0_sqr.
      nra. }
  unfold qf.
  apply Rle_trans with (sumn (fun i => sumn (fun j =>
       (if (i =? j)%nat then E i i * (x i * x i) else 0) - a i j * (x i * x i) / 2 - a i j * (x j * x j) / 2) n) n).
  2:{ apply sumn_le. intros i Hi. apply sumn_le. intros j Hj. apply T; auto. }
  (* split the three parts *)
  assert (P1 : forall i, (i < n)%nat -> sumn (fun j => if (i =? j)%nat then E i i * (x i * x i) else 0) n = E i i * (x i * x i)).
  { intros i Hi. clear -Hi. induction n as [|n IH]; [lia|]. simpl. destruct (Nat.eq_dec i n) as [->|Ne].
    - rewrite Nat.eqb_refl. rewrite (sumn_ext _ (fun _ => 0)); [rewrite sumn_zero; lra|].
      intros j Hj. destruct (n =? j)%nat eqn:Eq; auto. apply Nat.eqb_eq in Eq. lia.
    - rewrite IH by lia. destruct (i =? n)%nat eqn:Eq; [apply Nat.eqb_eq in Eq; lia|lra]. }
  assert (S3 : sumn (fun i => sumn (fun j => a i j * (x j * x j) / 2) n) n = sumn (fun i => sumn (fun j => a i j * (x i * x i) / 2) n) n).
  { rewrite sumn_swap. apply sumn_ext. intros i Hi. apply sumn_ext. intros j Hj. unfold a.
    rewrite (Nat.eqb_sym j i). destruct (i =? j)%nat; auto. rewrite (SYM j i) by auto. reflexivity. }
  assert (EQ : sumn (fun i => sumn (fun j =>
       (if (i =? j)%nat then E i i * (x i * x i) else 0) - a i j * (x i * x i) / 2 - a i j * (x j * x j) / 2) n) n
       = sumn (fun i => (E i i - sumn (fun j => a i j) n) * (x i * x i)) n).
  { transitivity (sumn (fun i => E i i * (x i * x i)) n - sumn (fun i => sumn (fun j => a i j * (x i * x i) / 2) n) n
                  - sumn (fun i => sumn (fun j => a i j * (x j * x j) / 2) n) n).
    - rewrite <- (sumn_ext _ _ n P1).
      assert (Q : forall f g h : nat -> R, sumn (fun i => f i - g i - h i) n = sumn f n - sumn g n - sumn h n).
      { intros f g h. clear. induction n as [|n IH]; simpl; [lra|]. rewrite IH. lra. }
      rewrite <- Q. apply sumn_ext. intros i Hi. clear - i. 
      assert (Q : forall f g h : nat -> R, sumn (fun j => f j - g j - h j) n = sumn f n - sumn g n - sumn h n).
      { intros f g h. induction n as [|n IH]; simpl; [lra|]. rewrite IH. lra. }
      apply Q.
    - rewrite S3.
      assert (Q : forall f g : nat -> R, sumn f n - sumn g n - sumn g n = sumn (fun i => f i - 2 * g i) n).
      { intros f g. clear. induction n as [|n IH]; simpl; [lra|]. rewrite <- IH. lra. }
      rewrite Q. apply sumn_ext. intros i Hi.
      rewrite (sumn_ext (fun j => a i j * (x i * x i) / 2) (fun j => a i j * ((x i * x i) / 2))) by (intros; lra).
      rewrite sumn_scal_r. change (sumn (fun j : nat => a i j) n) with (sumn (a i) n). field. }
  rewrite EQ. apply sumn_nonneg. intros i Hi. apply Rmult_le_pos; [|apply Rle_0_sqr].
  specialize (DD i Hi). fold (a i) in DD. unfold a in *. lra.
Qed.

(** * dyadic values *)
Definition dyR (a : dy) : R := IZR (fst a) * powerRZ 2 (snd a).

Lemma two_neq : (2 <> 0)%R. Proof. lra. Qed.

Lemma IZR_pow2 k : (0 <= k)%Z -> IZR (2 ^ k) = powerRZ 2 k.
Proof.
  intros H. destruct k as [|p|p]; simpl; [reflexivity| |lia].
  rewrite Zpower_pos_powerRZ. reflexivity.
Qed.

Lemma dyR_shift m e k : (0 <= k)%Z -> IZR (Z.shiftl m k) * powerRZ 2 e = IZR m * powerRZ 2 (e + k).
Proof.
  intros H. rewrite Z.shiftl_mul_pow2 by auto. rewrite mult_IZR, IZR_pow2 by auto.
  rewrite powerRZ_add by apply two_neq. ring.
Qed.

Lemma dyR_add a b : dyR (dy_add a b) = dyR a + dyR b.
Proof.
  unfold dy_add, dyR. destruct a as [m1 e1], b as [m2 e2]. simpl.
  destruct (e1 <=? e2)%Z eqn:E; simpl.
  - apply Z.leb_le in E. rewrite plus_IZR, Rmult_plus_distr_r. rewrite dyR_shift by lia.
    replace (e1 + (e2 - e1))%Z with e2 by lia. reflexivity.
  - apply Z.leb_gt in E. rewrite plus_IZR, Rmult_plus_distr_r. rewrite dyR_shift by lia.
    replace (e2 + (e1 - e2))%Z with e1 by lia. reflexivity.
Qed.

Lemma dyR_mul a b : dyR (dy_mul a b) = dyR a * dyR b.
Proof. unfold dy_mul, dyR. simpl. rewrite mult_IZR, powerRZ_add by apply two_neq. ring. Qed.

Lemma dyR_opp a : dyR (dy_opp a) = - dyR a.
Proof. unfold dy_opp, dyR. simpl. rewrite opp_IZR. ring. Qed.

Lemma dyR_sub a b : dyR (dy_sub a b) = dyR a - dyR b.
Proof. unfold dy_sub. rewrite dyR_add, dyR_opp. ring. Qed.

Lemma pow2_pos e : 0 < powerRZ 2 e.
Proof. apply powerRZ_lt. lra. Qed.

Lemma dyR_abs a : dyR (dy_abs a) = Rabs (dyR a).
Proof.
  unfold dy_abs, dyR. simpl. rewrite abs_IZR, Rabs_mult. rewrite (Rabs_pos_eq (powerRZ 2 (snd a))); auto.
  apply Rlt_le, pow2_pos.
Qed.

Lemma dyR_0 : dyR dy0 = 0.
Proof. unfold dyR, dy0. simpl. lra. Qed.

Lemma dy_leb_R a b : dy_leb a b = true -> dyR a <= dyR b.
Proof.
  unfold dy_leb. intros H. apply Z.leb_le in H.
  assert (dyR (dy_sub a b) <= 0).
  { unfold dyR. apply IZR_le in H. pose proof (pow2_pos (snd (dy_sub a b))). nra. }
  rewrite dyR_sub in H0. lra.
Qed.

Lemma dy_eqb_R a b : dy_eqb a b = true -> dyR a = dyR b.
Proof.
  unfold dy_eqb. intros H. apply Z.eqb_eq in H.
  assert (dyR (dy_sub a b) = 0) by (unfold dyR; rewrite H; simpl; lra).
  rewrite dyR_sub in H0. lra.
Qed.

Lemma dyR_dsumn f n : dyR (dsumn f n) = sumn (fun k => dyR (f k)) n.
Proof. induction n as [|n IH]; simpl; [apply dyR_0|]. rewrite dyR_add, IH. reflexivity. Qed.

(** * the certificate is sound *)
Lemma psd_cert_sound n K L delta : psd_cert_ok n K L delta = true ->
  forall x : nat -> R,
  0 <= qf n (fun i j => dyR (ent K i j) + (if (i =? j)%nat then dyR delta else 0)) x.
Proof.
  intros H x. unfold psd_cert_ok in H. cbv zeta in H. rewrite forallb_forall in H.
  set (G := fun i j => sumn (fun k => dyR (ent L i k) * dyR (ent L j k)) n).
  set (A := fun i j => dyR (ent K i j) + (if (i =? j)%nat then dyR delta else 0)).
  set (E := fun i j => A i j - G i j).
  assert (HS : forall i j, (i < n)%nat -> (j < n)%nat -> dyR (ent K i j) = dyR (ent K j i)).
  { intros i j Hi Hj. specialize (H i (proj2 (in_seq _ _ _) (conj (Nat.le_0_l _) Hi))).
    apply andb_true_iff in H as [H _]. rewrite forallb_forall in H. apply dy_eqb_R. apply H. apply in_seq. lia. }
  assert (HE : forall i j, dyR (dy_sub (dy_add (ent K i j) (if (i =? j)%nat then delta else dy0))
                                 (dsumn (fun k => dy_mul (ent L i k) (ent L j k)) n)) = E i j).
  { intros i j. rewrite dyR_sub, dyR_add, dyR_dsumn. unfold E, A, G.
    rewrite (sumn_ext _ (fun k => dyR (ent L i k) * dyR (ent L j k))) by (intros; apply dyR_mul).
    destruct (i =? j)%nat; [reflexivity|rewrite dyR_0; reflexivity]. }
  rewrite (qf_ext n _ (fun i j => G i j + E i j)) by (intros; unfold E, A; lra).
  rewrite qf_plus.
  assert (0 <= qf n G x) by apply qf_gram.
  assert (0 <= qf n E x).
  { apply qf_dd.
    - intros i j Hi Hj. unfold E, A, G. rewrite (HS i j), (Nat.eqb_sym i j) by auto.
      f_equal. apply sumn_ext. intros; lra.
    - intros i Hi. specialize (H i (proj2 (in_seq _ _ _) (conj (Nat.le_0_l _) Hi))).
      apply andb_true_iff in H as [_ H]. apply dy_leb_R in H. rewrite HE, dyR_dsumn in H.
      rewrite (sumn_ext _ (fun j => if (i =? j)%nat then 0 else Rabs (E i j))) in H; [exact H|].
      intros j _. rewrite <- (HE i j). destruct (i =? j)%nat; [apply dyR_0|apply dyR_abs]. }
  lra.
Qed.

(** non-vacuity: the certificate accepts the 2x2 matrix [[1, 1/2], [1/2, 1]] with L = [[1, 0], [1/2, 27/32]] *)
Example psd_cert_ex :
  psd_cert_ok 2 [[(1, 0); (1, -1)]; [(1, -1); (1, 0)]]%Z [[(1, 0); (0, 0)]; [(1, -1); (27, -5)]]%Z (psd_delta 2) = true.
Proof. vm_compute. reflexivity. Qed.

(** the same statement with the slack on the right: x^T K x >= - delta * |x|^2 *)
Lemma sumn_diag n (c : nat -> R) i : (i < n)%nat -> sumn (fun j => if (i =? j)%nat then c j else 0) n = c i.
Proof.
  induction n as [|n IH]; intros Hi; [lia|]. simpl. destruct (Nat.eq_dec i n) as [->|Ne].
  - rewrite Nat.eqb_refl. rewrite (sumn_ext _ (fun _ => 0)); [rewrite sumn_zero; lra|].
    intros j Hj. destruct (n =? j)%nat eqn:Eq; auto. apply Nat.eqb_eq in Eq. lia.
  - rewrite IH by lia. destruct (i =? n)%nat eqn:Eq; [apply Nat.eqb_eq in Eq; lia|lra].
Qed.

Lemma psd_cert_sound' n K L delta : psd_cert_ok n K L delta = true ->
  forall x : nat -> R, - dyR delta * sumn (fun i => x i * x i) n <= qf n (fun i j => dyR (ent K i j)) x.
Proof.
  intros H x. pose proof (psd_cert_sound n K L delta H x) as P. rewrite qf_plus in P.
  assert (D : qf n (fun i j => if (i =? j)%nat then dyR delta else 0) x = dyR delta * sumn (fun i => x i * x i) n).
  { unfold qf. rewrite <- sumn_scal. apply sumn_ext. intros i Hi.
    rewrite (sumn_ext _ (fun j => if (i =? j)%nat then dyR delta * (x j * x j) else 0)).
    - apply (sumn_diag n (fun j => dyR delta * (x j * x j))). exact Hi.
    - intros j _. destruct (i =? j)%nat eqn:Eq; [apply Nat.eqb_eq in Eq; subst; lra|lra]. }
  rewrite D in P. lra.
Qed.

(** the dyadic pair read off a finite float is its real value (Flocq's SF2R of the SpecFloat image) *)
Lemma dy_of_value x : dyR (dy_of x) = SF2R radix2 (Prim2SF x).
Proof.
  unfold dy_of. destruct (Prim2SF x) as [s|s| |s m e]; simpl; try (unfold dyR; simpl; lra).
  unfold dyR, F2R. simpl. rewrite bpow_powerRZ. simpl. destruct s; reflexivity.
Qed.
