(** C06 - correspondence (binary64 instance of the model against the implementation's outputs) and
    the property oracle, both evaluated by vm_compute on generated cases. *)
From Coq Require Import List NArith ZArith QArith Bool Arith Floats.
From Interval Require Specific_bigint Specific_ops Float_full Xreal Interval.
From Bignums Require BigZ.
From LinfaVerif Require Export Common.Num Common.NdSum Common.Run Common.QF C06.Model C06.ModelLW C06.ModelKnn C06.Dy.
Import ListNotations.
Local Open Scope nat_scope.

Definition o64 := B64_ops.

(** * cases *)
Record hcase := {
  h_method : N;                       (* 0 single 1 complete 2 average 3 weighted 4 ward 5 centroid 6 median *)
  h_dist : list float;                (* harness: -ln transform of the implementation's upper triangle *)
  h_steps : list (@step float);       (* harness: kodama::linkage on h_dist *)
  h_prim : option (list (@step float));  (* harness: kodama::primitive on h_dist (None: it panicked) *)
  h_runs : list (@crit float * list N)  (* criterion, labels returned by the implementation *)
}.

Record case := {
  c_id : N;
  c_X : list (list float);
  c_method : @kmethod float;
  c_tr : list (float * float);        (* argument -> Rust's exp / powf value *)
  c_sparse : option (N * list (list N));   (* k, neighbour lists returned by the index for k_nearest(row, k+1) *)
  (* implementation outputs *)
  c_dense : list (list float);
  c_indptr : list N; c_indices : list N; c_data : list float;
  c_size : N;
  c_sum : list float;
  c_cols : list (list float);
  c_upper : list float;
  c_diag : list float;
  c_rhs : list (list float);
  c_dot : list (list float);
  c_lnt : list (float * float);       (* x -> Rust's ln x *)
  c_chol : list (list float);         (* harness: floating-point Cholesky factor of K + delta/2 I (Gaussian dense kernels), else [] *)
  c_h : list hcase
}.

(** * helpers *)
Definition is_nan (x : float) : bool := negb (PrimFloat.eqb x x).
(* key equality of the oracle tables: same bits up to the NaN payload *)
Definition keyeq (a b : float) : bool :=
  if PrimFloat.eqb a b then
    (if PrimFloat.eqb a 0 then Bool.eqb (PrimFloat.get_sign a) (PrimFloat.get_sign b) else true)
  else is_nan a && is_nan b.
Definition sentinel : float := 0x1.23456789abcdp-1000%float.
Definition tab_find (t : list (float * float)) (a : float) : option float :=
  match find (fun p => keyeq (fst p) a) t with Some p => Some (snd p) | None => None end.
Definition tab (t : list (float * float)) (a : float) : float :=
  match tab_find t a with Some v => v | None => sentinel end.

(* numeric equality that also accepts two NaNs; -0 = +0 *)
Definition feq (a b : float) : bool := PrimFloat.eqb a b || (is_nan a && is_nan b).
Definition vec_biteq := list_eqb f64_biteq.
Definition mat_biteq := list_eqb (list_eqb f64_biteq).
Definition vec_feq := list_eqb feq.
Definition nats (l : list N) : list nat := map N.to_nat l.
Definition natlist_eqb := list_eqb Nat.eqb.
Definition lor_list (l : list N) : N := fold_left N.lor l 0%N.
Definition thr64 : float := 0x1.0c6f7a0b5ed8dp-20%float.     (* 1e-6 *)

(* rows of a CSR triple; None when the triple is inconsistent *)
Fixpoint split_rows {A} (ptr : list nat) (entries : list A) : list (list A) :=
  match ptr with
  | a :: ((b :: _) as r) => firstn (b - a) (skipn a entries) :: split_rows r entries
  | _ => []
  end.
Fixpoint nondecreasing (l : list nat) : bool :=
  match l with a :: ((b :: _) as r) => (a <=? b) && nondecreasing r | _ => true end.
Definition csr_ok (n : nat) (ptr ind : list nat) (data : list float) : bool :=
  Nat.eqb (length ptr) (S n) && Nat.eqb (hd 1 ptr) 0 && nondecreasing ptr
  && Nat.eqb (last ptr 0) (length ind) && Nat.eqb (length ind) (length data).
Definition impl_rows (c : case) : list (@srow float) :=
  split_rows (nats (c_indptr c)) (combine (nats (c_indices c)) (c_data c)).

(* the matrix the implementation holds, densified *)
Definition impl_matrix (c : case) : list (list float) :=
  match c_sparse c with
  | None => c_dense c
  | Some _ => s_to_dense o64 (length (c_X c)) (impl_rows c)
  end.

(** * exact arithmetic and verified enclosures used by the checks *)
(* exact dyadic values m * 2^e of finite floats come from C06/Dy.v (non-finite floats map to 0 and are
   excluded by the finiteness guards of the checks that use them) *)
Definition all_finite (l : list float) : bool := forallb f64_finite l.
(* |x - exact| <= terms * 2^-52 * mag : any summation order of [terms] products/sums stays inside *)
Definition within (x : float) (exact mag : dy) (terms : nat) : bool :=
  f64_finite x
  && dy_leb (dy_abs (dy_sub (dy_of x) exact)) ((fst mag * Z.of_nat terms)%Z, (snd mag - 52)%Z).

(** verified interval enclosures (Coq Interval library, 64 bits) of exp / ln / powers: what a correctly
    working binary64 evaluation may return, independently of Rust's libm and of the tables *)
Module IF := Specific_ops.SpecificFloat Specific_bigint.BigIntRadix2.
Module II := Float_full.FloatIntervalFull IF.
Definition iprec := IF.PtoP 64.
Definition fz (m e : Z) : IF.type := @Specific_ops.Float _ _ (BigZ.BigZ.of_Z m) (BigZ.BigZ.of_Z e).
Definition ivz (a : dy) : II.type := II.bnd (fz (fst a) (snd a)) (fz (fst a) (snd a)).
Definition iv_pm (m e : Z) : II.type := II.bnd (fz (- m) e) (fz m e).              (* [-m 2^e, m 2^e] *)
Definition iv_rel (m e : Z) : II.type := II.add iprec (ivz (1%Z, 0%Z)) (iv_pm m e).   (* [1 - m 2^e, 1 + m 2^e] *)
Definition le_x (c : Xreal.Xcomparison) : bool := match c with Xreal.Xlt | Xreal.Xeq => true | _ => false end.
Definition iv_has (i : II.type) (v : float) : bool :=
  f64_finite v &&
  match i with
  | Interval.Float.Ibnd lo hi => let x := fz (fst (dy_of v)) (snd (dy_of v)) in le_x (IF.cmp lo x) && le_x (IF.cmp x hi)
  | _ => false
  end.
(* result r of a faithful libm call: relative 2^-51 plus an absolute allowance for the subnormal range *)
Definition iv_libm (r : II.type) : II.type := II.add iprec (II.mul iprec r (iv_rel 1 (-51))) (iv_pm 1 (-1070)).
(* exp(-q/eps) where q is a sum of d squares accumulated in binary64 *)
Definition gauss_iv (q eps : dy) (d : nat) : II.type :=
  let a := II.neg (II.div iprec (ivz q) (ivz eps)) in
  iv_libm (II.exp iprec (II.mul iprec a (iv_rel (Z.of_nat d + 4) (-52)))).
Definition exp_iv (a : dy) : II.type := iv_libm (II.exp iprec (ivz a)).
Definition ln_iv (a : dy) : II.type := iv_libm (II.ln iprec (ivz a)).
(* a^p for a > 0 *)
Definition pow_iv (a p : dy) : II.type :=
  iv_libm (II.exp iprec (II.mul iprec (II.mul iprec (ivz p) (II.ln iprec (ivz a))) (iv_rel 1 (-50)))).
Definition dy_pos (a : dy) : bool := (0 <? fst a)%Z.

(* integrality / parity of a dyadic value m * 2^e *)
Definition dy_is_int (a : dy) : bool :=
  (0 <=? snd a)%Z || (Z.eqb (Z.land (Z.abs (fst a)) (Z.ones (- snd a))) 0).
Definition dy_is_odd (a : dy) : bool :=
  if (0 <? snd a)%Z then false
  else if (snd a =? 0)%Z then Z.odd (fst a)
  else dy_is_int a && Z.odd (Z.shiftr (Z.abs (fst a)) (- snd a)).
(* v is powf(a, p) as IEEE 754 pow defines it, for finite a and p: 1 for p = 0; zero bases give 0 / inf with
   the sign rule of odd integer exponents; negative bases give NaN unless p is an integer, else +-|a|^p;
   positive bases the verified enclosure of exp(p ln a) (an infinite or zero result must be an overflow /
   underflow: the enclosure then reaches beyond 2^1023 / below 2^-1022) *)
Definition pow_entry_ok (a p v : float) : bool :=
  if negb (f64_finite a && f64_finite p) then true else
  if PrimFloat.eqb p 0 then f64_biteq v 1%float else
  let pd := dy_of p in
  let odd := dy_is_odd pd in
  let mag_ok (x w : float) :=       (* w = x^p for x > 0 *)
    let iv := pow_iv (dy_of x) pd in
    if f64_finite w && PrimFloat.ltb 0 w then iv_has iv w
    else match iv with
         | Interval.Float.Ibnd lo hi =>
             if PrimFloat.eqb w 0 then le_x (IF.cmp lo (fz 1 (-1022)))
             else if PrimFloat.eqb w infinity then le_x (IF.cmp (fz 1 1023) hi)
             else false
         | _ => false
         end in
  if PrimFloat.eqb a 0 then
    let neg := PrimFloat.get_sign a && odd in
    if PrimFloat.ltb 0 p then f64_biteq v (if neg then (-0)%float else 0%float)
    else f64_biteq v (if neg then neg_infinity else infinity)
  else if PrimFloat.ltb 0 a then mag_ok a v
  else if dy_is_int pd then
    (if odd then mag_ok (PrimFloat.opp a) (PrimFloat.opp v) else mag_ok (PrimFloat.opp a) v)
  else is_nan v.

(* the tables sent by the harness hold values of the right functions *)
Definition table_ok (m : @kmethod float) (t : list (float * float)) : bool :=
  forallb (fun p =>
    let a := fst p in
    if negb (f64_finite a) then true else
    match m with
    | KLinear => true
    | KGauss _ => iv_has (exp_iv (dy_of a)) (snd p)
    | KPoly _ dg => pow_entry_ok a dg (snd p)
    end) t.
(* l is ln x up to 2^-51 (relative and absolute): checked through exp, which is the cheaper enclosure *)
Definition ln_entry_ok (x l : float) : bool :=
  f64_finite l &&
  iv_has (II.mul iprec (II.exp iprec (II.add iprec (II.mul iprec (ivz (dy_of l)) (iv_rel 1 (-51))) (iv_pm 1 (-51))))
                 (iv_rel 1 (-51))) x.
Definition ln_table_ok (t : list (float * float)) : bool :=
  forallb (fun p => if f64_finite (fst p) && PrimFloat.ltb 0 (fst p) then ln_entry_ok (fst p) (snd p) else true) t.

(** * correspondence: model = implementation, bit for bit *)
Definition corr_kernel (c : case) : N :=
  let X := c_X c in
  let n := length X in
  let m := c_method c in
  let tr := tab (c_tr c) in
  let args_found :=
    match m with
    | KLinear => true
    | _ => forallb (fun a => forallb (fun b => match tab_find (c_tr c) (kernel_arg o64 m a b) with Some _ => true | None => false end) X) X
    end in
  match c_sparse c with
  | None =>
      let M := c_dense c in
      (flag (mat_biteq (dense o64 tr m X) M) 1
       + flag (Nat.eqb (d_size M) (N.to_nat (c_size c)) && vec_biteq (d_sum o64 M) (c_sum c)) 4
       + flag (mat_biteq (map (d_column o64 M) (seq 0 n)) (c_cols c)) 8
       + flag (vec_biteq (d_upper M) (c_upper c) && vec_biteq (d_diag o64 M) (c_diag c)) 16
       + flag args_found 256 + flag (table_ok m (c_tr c)) 1024)%N
  | Some (k, nbrs) =>
      let pat := adjacency (map nats nbrs) in
      let rows := sparse_rows o64 tr m X pat in
      let R := impl_rows c in
      let nc := match c_rhs c with [] => 0%nat | r :: _ => length r end in
      (flag (vec_biteq (csr_data rows) (c_data c)) 1
       + flag (natlist_eqb (csr_indptr rows) (nats (c_indptr c)) && natlist_eqb (csr_indices rows) (nats (c_indices c))) 2
       + flag (Nat.eqb n (N.to_nat (c_size c)) && vec_biteq (s_sum o64 n R) (c_sum c)) 4
       + flag (mat_biteq (map (s_column o64 n R) (seq 0 n)) (c_cols c)) 8
       + flag (vec_biteq (s_upper o64 n R) (c_upper c) && vec_biteq (s_diag o64 n R) (c_diag c)) 16
       + flag (mat_biteq (s_dot o64 R (c_rhs c) nc) (c_dot c)) 32
       + flag args_found 256
       (* the same table accompanies the dense case and every sparse case of a data set: it is checked with
          the dense case and with the sparse cases that carry a clustering *)
       + flag (match c_h c with [] => true | _ => table_ok m (c_tr c) end) 1024
       + flag (csr_ok n (nats (c_indptr c)) (nats (c_indices c)) (c_data c)) 512)%N
  end.

Definition lm_of (m : N) : lmethod :=
  match m with
  | 0%N => LSingle | 1%N => LComplete | 2%N => LAverage | 3%N => LWeighted | 4%N => LWard | 5%N => LCentroid | _ => LMedian
  end.
Definition step_biteq (a b : @step float) : bool :=
  Nat.eqb (s_c1 a) (s_c1 b) && Nat.eqb (s_c2 a) (s_c2 b) && f64_biteq (s_d a) (s_d b) && Nat.eqb (s_size a) (s_size b).

Definition corr_hier (c : case) (h : hcase) : N :=
  let n := length (c_X c) in
  let lnf := tab (c_lnt c) in
  (flag (vec_biteq (map (to_dist o64 lnf thr64) (c_upper c)) (h_dist h)) 64
   (* the Lance-Williams model of the agglomerative procedure against kodama::primitive, bit for bit *)
   + flag (match prim_linkage o64 (lm_of (h_method h)) n (h_dist h), h_prim h with
           | Some ms, Some ps => list_eqb step_biteq ms ps
           | None, None => true
           | _, _ => false
           end) 4096
   + flag (forallb (fun r => match hier o64 (fst r) (h_steps h) n with
                             | Some l => natlist_eqb l (nats (snd r))
                             | None => false
                             end) (h_runs h)) 128)%N.

(** * property oracle on the implementation's output *)

(* small non-negative integer degree of a polynomial kernel *)
Definition small_degree (d : float) : option nat :=
  if PrimFloat.eqb d 0 then Some 0%nat else if PrimFloat.eqb d 1 then Some 1%nat
  else if PrimFloat.eqb d 2 then Some 2%nat else if PrimFloat.eqb d 3 then Some 3%nat else None.

(* is v the kernel function of rows a b (independently of the summation order)? *)
Definition entry_ok (m : @kmethod float) (tr : float -> float) (a b : list float) (v : float) : bool :=
  if negb (all_finite a && all_finite b) then true else
  let prods := map2 dy_mul (map dy_of a) (map dy_of b) in
  let dot := dy_sum prods in
  let mag := dy_abs_sum prods in
  let d := length a in
  match m with
  | KLinear => within v dot mag (S d)
  | KPoly c dg =>
      match small_degree dg with
      | Some k =>
          if f64_finite c then
            let S0 := dy_add mag (dy_abs (dy_of c)) in
            within v (dy_pow (dy_add dot (dy_of c)) k) (dy_pow S0 k) ((S k) * (d + 3))
          else true
      | None => f64_biteq v (tr (kernel_arg o64 m a b))
      end
  | KGauss eps =>
      if f64_finite eps && PrimFloat.ltb 0 eps then
        let q := dy_sum (map2 (fun x y => let t := dy_sub x y in dy_mul t t) (map dy_of a) (map dy_of b)) in
        iv_has (gauss_iv q (dy_of eps) d) v
      else f64_biteq v (tr (kernel_arg o64 m a b))
  end.

Definition sq_l2 (a b : list float) : float :=
  fold_left PrimFloat.add (map2 (fun x y => PrimFloat.mul (PrimFloat.sub x y) (PrimFloat.sub x y)) a b) 0%float.

(* k-neighbour rule with ties: a stored off-diagonal pair must be admissible from one side, a pair
   that is forced from either side must be stored *)
Definition count (f : nat -> bool) (n : nat) : nat := length (filter f (seq 0 n)).
Definition knn_pattern_ok (X : list (list float)) (k : nat) (stored : nat -> nat -> bool) : bool :=
  let n := length X in
  let D := map (fun a => map (fun b => sq_l2 a b) X) X in
  let dd i j := nth j (nth i D []) nan in
  let others i j l := negb (l =? i) && negb (l =? j) in
  let admissible i j := count (fun l => others i j l && PrimFloat.ltb (dd i l) (dd i j)) n <? k in
  let forced i j := count (fun l => others i j l && PrimFloat.leb (dd i l) (dd i j)) n <? k in
  forallb (fun i => forallb (fun j =>
      if i =? j then stored i j
      else if stored i j then admissible i j || admissible j i
      else negb (forced i j) && negb (forced j i)) (seq 0 n)) (seq 0 n).

Fixpoint strictly_increasing (l : list nat) : bool :=
  match l with a :: ((b :: _) as r) => (a <? b) && strictly_increasing r | _ => true end.

Definition oracle_kernel (c : case) : N :=
  let X := c_X c in
  let n := length X in
  let m := c_method c in
  let tr := tab (c_tr c) in
  let M := impl_matrix c in
  let at_ i j := nth j (nth i M []) nan in
  let idx := seq 0 n in
  let gaussian := match m with KGauss _ => true | _ => false end in
  let eps_pos := match m with KGauss e => PrimFloat.ltb 0 e | _ => false end in
  let shape_ok := Nat.eqb (length M) n && forallb (fun r => Nat.eqb (length r) n) M in
  (* 1: stored entries are the kernel function *)
  let entries_ok :=
    match c_sparse c with
    | None => forallb (fun i => forallb (fun j => (j <? i) || entry_ok m tr (nth i X []) (nth j X []) (at_ i j)) idx) idx
    | Some _ => forallb (fun ir => forallb (fun p => entry_ok m tr (nth (fst ir) X []) (nth (fst p) X []) (snd p)) (snd ir))
                        (combine idx (impl_rows c))
    end in
  (* 2: symmetric (bitwise; NaN = NaN) *)
  let sym_ok := forallb (fun i => forallb (fun j => f64_biteq (at_ i j) (at_ j i)) idx) idx
                && match c_sparse c with
                   | None => true
                   | Some _ => let R := impl_rows c in
                       forallb (fun ir => forallb (fun p => match s_lookup (fst ir) (nth (fst p) R []) with
                                                            | Some v => f64_biteq v (snd p) | None => false end) (snd ir))
                               (combine idx R)
                   end in
  (* 4: Gaussian: unit diagonal, entries in [0,1] *)
  let gauss_ok := negb (gaussian && eps_pos)
                  || (forallb (fun i => f64_biteq (at_ i i) 1%float) idx
                      && forallb (forallb (fun v => PrimFloat.leb 0 v && PrimFloat.leb v 1)) M) in
  (* 8: sparse pattern obeys the k-neighbour rule, has the diagonal, rows sorted without repetition *)
  let pattern_ok :=
    match c_sparse c with
    | None => true
    | Some (k, nbrs) =>
        let R := impl_rows c in
        let stored i j := match s_lookup j (nth i R []) with Some _ => true | None => false end in
        let D := map (fun a => map (fun b => sq_l2 a b) X) X in
        Nat.eqb (length R) n
        && forallb (fun r => strictly_increasing (map fst r) && forallb (fun p => fst p <? n) r) R
        && knn_pattern_ok X (N.to_nat k) stored
        (* exactly the freedom ties leave: the pattern is the adjacency of correct k+1-nearest answers, the
           lists the index returned being the witness (C06/ModelKnn.v, sound and complete by C06/ProofsKnn.v) *)
        && pattern_cert_ok o64 n (fun i j => nth j (nth i D []) nan) (N.to_nat k) (map nats nbrs) (map (map fst) R)
    end in
  (* 16: the reported views agree with the matrix *)
  let finite_M := forallb all_finite M in
  let Mq := map (map dy_of) M in
  let views_ok :=
    Nat.eqb (N.to_nat (c_size c)) n
    && list_eqb vec_feq (c_cols c) (map (fun j => map (fun i => at_ i j) idx) idx)
    && vec_feq (c_upper c) (concat (map (fun i => map (fun j => at_ i j) (seq (S i) (n - S i))) idx))
    && vec_feq (c_diag c) (map (fun i => at_ i i) idx)
    && Nat.eqb (length (c_sum c)) n
    && (negb finite_M
        || forallb (fun ir => within (snd ir) (dy_sum (snd (fst ir))) (dy_abs_sum (snd (fst ir))) (S n))
                   (combine (combine idx Mq) (c_sum c))) in
  (* 32: the reported product is the matrix product *)
  let B := c_rhs c in
  let nc := match B with [] => 0%nat | r :: _ => length r end in
  let dot_ok :=
    Nat.eqb (length (c_dot c)) n
    && forallb (fun r => Nat.eqb (length r) nc) (c_dot c)
    && (negb finite_M
        || (let Bq := map (fun cc => map (fun r => dy_of (nth cc r 0%float)) B) (seq 0 nc) in
            forallb (fun ir =>
             forallb (fun cv =>
                let prods := map2 dy_mul (fst ir) (fst cv) in
                within (snd cv) (dy_sum prods) (dy_abs_sum prods) (S (S n)))
               (combine Bq (snd ir)))
             (combine Mq (c_dot c)))) in
  (* 64: Gaussian dense kernel matrix is positive semidefinite up to n^2 2^-48 (certificate of C06/Dy.v) *)
  let psd_ok :=
    match c_sparse c with
    | None => negb (gaussian && eps_pos && finite_M)
              || psd_cert_ok n Mq (map (map dy_of) (c_chol c)) (psd_delta n)
    | Some _ => true
    end in
  (flag (shape_ok && entries_ok) 1 + flag sym_ok 2 + flag gauss_ok 4 + flag pattern_ok 8
   + flag views_ok 16 + flag dot_ok 32 + flag psd_ok 64)%N.

(** ** hierarchical clustering *)

(* full symmetric dissimilarity matrix from the condensed upper triangle *)
Fixpoint chunks (lens : list nat) (l : list float) : list (list float) :=
  match lens with
  | [] => []
  | k :: r => firstn k l :: chunks r (skipn k l)
  end.
Definition full_matrix (n : nat) (cond : list float) : list (list float) :=
  let U := chunks (map (fun i => n - S i) (seq 0 n)) cond in
  map (fun i => map (fun j =>
        if i <? j then nth (j - i - 1) (nth i U []) nan
        else if j <? i then nth (i - j - 1) (nth j U []) nan
        else 0%float) (seq 0 n)) (seq 0 n).

(* members of a dendrogram node, by recursion on the node id (fuel = number of steps) *)
Fixpoint members (n : nat) (steps : list (@step float)) (fuel : nat) (id : nat) : list nat :=
  if id <? n then [id] else
  match fuel with
  | O => []
  | S f =>
      match nth_error steps (id - n) with
      | Some s => members n steps f (s_c1 s) ++ members n steps f (s_c2 s)
      | None => []
      end
  end.

Definition distinct_count (l : list nat) : nat := length (nodup Nat.eq_dec l).

(* labels are a labelling of all n samples by 0..c-1 with every number used *)
Definition labelling_ok (n : nat) (L : list nat) : bool :=
  let c := distinct_count L in
  Nat.eqb (length L) n && forallb (fun l => l <? c) L.

(* same-cluster relation of L equals the one generated by the first p steps *)
Definition partition_matches (n : nat) (steps : list (@step float)) (p : nat) (L : list nat) : bool :=
  let groups := map (fun t => members n steps (length steps) (n + t)) (seq 0 p) in
  forallb (fun i => forallb (fun j =>
      Bool.eqb (Nat.eqb (nth i L 0%nat) (nth j L 0%nat))
               ((i =? j) || existsb (fun g => memb i g && memb j g) groups)) (seq 0 n)) (seq 0 n).

(* connected components of the graph { (i,j) | D i j < t } by label propagation *)
Definition propagate (n : nat) (adj : nat -> nat -> bool) (lab : list nat) : list nat :=
  map (fun i => fold_left (fun best j => if adj i j then Nat.min best (nth j lab 0%nat) else best) (seq 0 n) (nth i lab 0%nat)) (seq 0 n).
Fixpoint iterate {A} (f : A -> A) (k : nat) (x : A) : A := match k with O => x | S k' => iterate f k' (f x) end.
Definition components (n : nat) (adj : nat -> nat -> bool) : list nat := iterate (propagate n adj) n (seq 0 n).
Definition same_partition (n : nat) (L1 L2 : list nat) : bool :=
  forallb (fun i => forallb (fun j =>
     Bool.eqb (Nat.eqb (nth i L1 0%nat) (nth j L1 0%nat)) (Nat.eqb (nth i L2 0%nat) (nth j L2 0%nat))) (seq 0 n)) (seq 0 n).

(* validation of kodama's dendrogram *)
Fixpoint sorted_steps (l : list (@step float)) : bool :=
  match l with a :: ((b :: _) as r) => PrimFloat.leb (s_d a) (s_d b) && sorted_steps r | _ => true end.

(* single (sel = min) / complete (sel = max) linkage: every step joins two live clusters at their
   exact linkage distance, which is minimal among all live pairs *)
Definition link (sel : float -> float -> float) (D : list (list float)) (A B : list nat) : float :=
  let ds := flat_map (fun a => map (fun b => nth b (nth a D []) nan) B) A in
  match ds with [] => nan | x :: r => fold_left sel r x end.
Definition fmin (a b : float) : float := if PrimFloat.ltb b a then b else a.
Definition fmax (a b : float) : float := if PrimFloat.ltb a b then b else a.

Fixpoint valid_link (sel : float -> float -> float) (D : list (list float)) (n : nat) (all : list (@step float))
         (alive : list nat) (ct : nat) (steps : list (@step float)) : bool :=
  match steps with
  | [] => true
  | s :: r =>
      let mem id := members n all (length all) id in
      let h := link sel D (mem (s_c1 s)) (mem (s_c2 s)) in
      feq h (s_d s)
      && forallb (fun a => forallb (fun b => (b <=? a) || PrimFloat.leb (s_d s) (link sel D (mem a) (mem b))) alive) alive
      && valid_link sel D n all (filter (fun a => negb (a =? s_c1 s) && negb (a =? s_c2 s)) alive ++ [ct]) (S ct) r
  end.

(* kodama's dendrogram against the Lance-Williams recurrence: exact for single / complete linkage (minima and
   maxima are not rounded), up to 2^-40 of the largest (squared) dissimilarity for the methods whose
   recurrence is rounded (kodama evaluates it in merge order, the check in dendrogram order) *)
Definition lw_dendrogram_ok (m : lmethod) (n : nat) (cond : list float) (steps : list (@step float)) : bool :=
  if negb (all_finite cond) then true else
  let T := tinit_cond o64 m n cond in
  let scale := fold_left (fun acc r => fold_left (fun a x => fmax a (PrimFloat.abs x)) r acc) T 0%float in
  let tol := match m with LSingle | LComplete => 0%float | _ => PrimFloat.mul scale 0x1p-40%float end in
  let close x y := PrimFloat.eqb x y || PrimFloat.leb (PrimFloat.abs (PrimFloat.sub x y)) tol in
  let le x y := PrimFloat.leb x (PrimFloat.add y tol) in
  let pre x := if on_squares m then PrimFloat.mul x x else x in
  lw_valid o64 close le pre m T (init_clusters n) n steps.

Definition oracle_hier (c : case) (h : hcase) : N :=
  let n := length (c_X c) in
  let steps := h_steps h in
  let D := full_matrix n (h_dist h) in
  let monotone := N.leb (h_method h) 4 in
  let dendro_ok :=
    Nat.eqb (length steps) (n - 1) && wf_steps (seq 0 n) n steps
    && (negb monotone || sorted_steps steps)
    && match h_method h with
       | 0%N => valid_link fmin D n steps (seq 0 n) n steps
       | 1%N => valid_link fmax D n steps (seq 0 n) n steps
       | _ => true
       end in
  let run_ok (r : @crit float * list N) : N :=
    let L := nats (snd r) in
    let c0 := distinct_count L in
    (flag (labelling_ok n L) 128
     + match fst r with
       | CNum k => flag (Nat.eqb c0 (Nat.min k n)) 256
       | CDist t =>
           let below s := negb (PrimFloat.leb t (s_d s)) in
           let p := length (take_while below steps) in
           (flag (partition_matches n steps p L
                  && (negb monotone || Nat.eqb p (length (filter below steps)))) 512
            + match h_method h with
              | 0%N => flag (same_partition n L (components n (fun i j => PrimFloat.ltb (nth j (nth i D []) nan) t))) 1024
              | _ => 0
              end)%N
       end)%N in
  N.lor (N.lor (flag dendro_ok 2048) (flag (lw_dendrogram_ok (lm_of (h_method h)) n (h_dist h) steps) 32768))
        (lor_list (map run_ok (h_runs h))).

Definition run_case (c : case) : verdict :=
  (c_id c,
   (N.lor (N.lor (corr_kernel c) (lor_list (map (corr_hier c) (c_h c))))
          (match c_h c with [] => 0%N | _ => flag (ln_table_ok (c_lnt c)) 2048 end),
    N.lor (oracle_kernel c) (lor_list (map (oracle_hier c) (c_h c))))).

Definition run_cases (cs : list case) : list N := report (map run_case cs).
