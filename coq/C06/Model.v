(** C06 - executable model of linfa-kernel (KernelMethod::distance, dense_from_fn, sparse_from_fn over
    sparse::adjacency_matrix, the [Inner] views of a dense matrix and of a CSR matrix) and of the merge
    replay of linfa-hierarchical (ValidHierarchicalCluster::transform).
    Polymorphic in NumOps; [tr] stands for the transcendental function of the kernel (exp, or
    powf(., degree)), [lnf] for ln - they are not IEEE operations and enter as functions. *)
From Coq Require Import List NArith Bool Arith.
From LinfaVerif Require Import Common.Num Common.NdSum.
Import ListNotations.

Fixpoint map2 {A B C} (f : A -> B -> C) (a : list A) (b : list B) : list C :=
  match a, b with
  | x :: a', y :: b' => f x y :: map2 f a' b'
  | _, _ => []
  end.

Fixpoint upd {A} (l : list A) (k : nat) (f : A -> A) : list A :=
  match l, k with
  | [], _ => []
  | a :: t, O => f a :: t
  | a :: t, S k' => a :: upd t k' f
  end.

(** * sparse::adjacency_matrix on index lists *)

Fixpoint insert (x : nat) (l : list nat) : list nat :=
  match l with
  | [] => [x]
  | y :: t => if x <=? y then x :: l else y :: insert x t
  end.
Definition isort (l : list nat) : list nat := fold_right insert [] l.

Definition memb (x : nat) (l : list nat) : bool := existsb (Nat.eqb x) l.

(* one row of the matrix handed to CsMatBase::new_from_unsorted: the neighbours returned by
   k_nearest(row m, k+1) sorted by index, the row itself first and dropped from the neighbours;
   new_from_unsorted then sorts the column indices of the row *)
Definition adj_row (m : nat) (nb : list nat) : list nat :=
  isort (m :: filter (fun i => negb (i =? m)) (isort nb)).

Definition adj_rows (nbrs : list (list nat)) : list (list nat) :=
  map (fun m => adj_row m (nth m nbrs [])) (seq 0 (length nbrs)).

(* transpose_view().to_other_storage(): row j of the transpose lists the rows i that store j, ascending *)
Definition transpose_pat (n : nat) (A : list (list nat)) : list (list nat) :=
  map (fun j => filter (fun i => memb j (nth i A [])) (seq 0 n)) (seq 0 n).

(* csmat_binop over two CSR matrices: union of the sorted index rows (values 1+1, 1+0, 0+1 are never 0) *)
Fixpoint merge (a : list nat) : list nat -> list nat :=
  fix aux (b : list nat) : list nat :=
    match a, b with
    | [], _ => b
    | _, [] => a
    | x :: a', y :: b' =>
        if x <? y then x :: merge a' b
        else if y <? x then y :: aux b'
        else x :: merge a' b'
    end.

Definition adjacency (nbrs : list (list nat)) : list (list nat) :=
  let n := length nbrs in
  let A := adj_rows nbrs in
  map2 merge A (transpose_pat n A).

Section Kernel.
Context {F : Type} (o : NumOps F).
Variable tr : F -> F.
Notation "a + b" := (add o a b).
Notation "a - b" := (sub o a b).
Notation "a * b" := (mul o a b).
Notation "a / b" := (div o a b).

Inductive kmethod := KLinear | KGauss (eps : F) | KPoly (c d : F).

(* Iterator::sum::<f64>() of Rust >= 1.83 folds from -0.0 *)
Definition nsum (xs : list F) : F := fold_left (add o) xs (opp o (zero o)).

(* (a * b).sum(): element-wise product into a fresh contiguous array, then ndarray's unrolled sum *)
Definition lin (a b : list F) : F := usum o (map2 (mul o) a b).

(* the argument handed to exp / powf *)
Definition kernel_arg (m : kmethod) (a b : list F) : F :=
  match m with
  | KLinear => lin a b
  | KGauss eps => opp o (nsum (map2 (fun x y => (x - y) * (x - y)) a b)) / eps
  | KPoly c _ => lin a b + c
  end.

(* KernelMethod::distance *)
Definition kernel_entry (m : kmethod) (a b : list F) : F :=
  match m with
  | KLinear => lin a b
  | _ => tr (kernel_arg m a b)
  end.

(* dense_from_fn *)
Definition dense (m : kmethod) (X : list (list F)) : list (list F) :=
  map (fun a => map (fun b => kernel_entry m a b) X) X.

(* sparse_from_fn: every stored (i, j) of the adjacency pattern is overwritten by distance(row i, row j) *)
Definition srow := list (nat * F).
Definition sparse_rows (m : kmethod) (X : list (list F)) (pat : list (list nat)) : list srow :=
  map2 (fun a row => map (fun j => (j, kernel_entry m a (nth j X []))) row) X pat.

(* CSR triple of a list of rows *)
Fixpoint indptr_of (rows : list srow) (acc : nat) : list nat :=
  match rows with
  | [] => [acc]
  | r :: t => acc :: indptr_of t (acc + length r)
  end.
Definition csr_indptr (rows : list srow) : list nat := indptr_of rows 0.
Definition csr_indices (rows : list srow) : list nat := map fst (concat rows).
Definition csr_data (rows : list srow) : list F := map snd (concat rows).

(** ** Inner for a dense matrix (list of rows) *)
Definition d_size (M : list (list F)) : nat := match M with [] => 0 | r :: _ => length r end.
Definition d_sum (M : list (list F)) : list F := map (usum o) M.                      (* sum_axis(Axis(1)) *)
Definition d_column (M : list (list F)) (i : nat) : list F := map (fun r => nth i r (zero o)) M.
Definition d_upper (M : list (list F)) : list F :=
  concat (map (fun i => skipn (S i) (nth i M [])) (seq 0 (length M))).                  (* row-major, col > row *)
Definition d_diag (M : list (list F)) : list F :=
  map (fun i => nth i (nth i M []) (zero o)) (seq 0 (length M)).
Definition col_of (B : list (list F)) (c : nat) : list F := map (fun r => nth c r (zero o)) B.
(* reference matrix product (the order of matrixmultiply's kernels is not modelled) *)
Definition d_dot (M B : list (list F)) (nc : nat) : list (list F) :=
  map (fun r => map (fun c => seq_sum o (map2 (mul o) r (col_of B c))) (seq 0 nc)) M.

(** ** Inner for a CSR matrix with n columns *)
Definition s_lookup (j : nat) (row : srow) : option F :=
  match find (fun p => fst p =? j) row with Some p => Some (snd p) | None => None end.
Definition s_to_dense (n : nat) (rows : list srow) : list (list F) :=
  map (fun row => map (fun j => match s_lookup j row with Some v => v | None => zero o end) (seq 0 n)) rows.
(* sprs csr * dense: out[i][c] += val * rhs[col][c] over the stored entries of row i in order *)
Definition s_dot (rows : list srow) (B : list (list F)) (nc : nat) : list (list F) :=
  map (fun row => map (fun c => fold_left (fun acc p => acc + snd p * nth c (nth (fst p) B []) (zero o)) row (zero o))
                      (seq 0 nc)) rows.
(* Inner::sum of a CsMat: sum[col] += val over all stored entries in row-major order *)
Definition s_sum (n : nat) (rows : list srow) : list F :=
  fold_left (fun s p => upd s (fst p) (fun x => x + snd p)) (concat rows) (repeat (zero o) n).
(* column(i) = (0..n).map(|j| get(j, i).unwrap_or(neg_zero)) *)
Definition s_column (n : nat) (rows : list srow) (i : nat) : list F :=
  map (fun j => match s_lookup i (nth j rows []) with Some v => v | None => opp o (zero o) end) (seq 0 n).
Definition s_upper (n : nat) (rows : list srow) : list F := d_upper (s_to_dense n rows).
Definition s_diag (n : nat) (rows : list srow) : list F :=
  map (fun i => match s_lookup i (nth i rows []) with Some v => v | None => zero o end) (seq 0 n).

(** * linfa-hierarchical *)
Variable lnf : F -> F.
Variable thr : F.        (* F::cast(1e-6) *)

(* similarity -> dissimilarity *)
Definition to_dist (x : F) : F := if ltb o thr x then opp o (lnf x) else opp o (lnf thr).

Record step := mkstep { s_c1 : nat; s_c2 : nat; s_d : F; s_size : nat }.
Inductive crit := CNum (k : nat) | CDist (d : F).

(* the HashMap id -> members, kept as an association list in insertion order: the initial keys
   0..n-1 ascend and every new key exceeds all earlier ones, so this list is the map sorted by key
   (the order in which the final cluster numbers are handed out) *)
Definition clusters := list (nat * list nat).

Fixpoint remove_key (k : nat) (cl : clusters) : option (list nat * clusters) :=
  match cl with
  | [] => None
  | (k', m) :: t =>
      if k' =? k then Some (m, t)
      else match remove_key k t with
           | Some (m', t') => Some (m', (k', m) :: t')
           | None => None
           end
  end.

(* one merge; None = the `unwrap` on a missing cluster id panics *)
Definition merge_step (cl : clusters) (ct : nat) (s : step) : option clusters :=
  match remove_key (s_c1 s) cl with
  | None => None
  | Some (m1, cl1) =>
      match remove_key (s_c2 s) cl1 with
      | None => None
      | Some (m2, cl2) => Some (cl2 ++ [(ct, m1 ++ m2)])
      end
  end.

Definition should_stop (c : crit) (cl : clusters) (s : step) : bool :=
  match c with
  | CNum k => length cl <=? k
  | CDist d => leb o d (s_d s)          (* step.dissimilarity >= dis *)
  end.

Fixpoint replay (c : crit) (steps : list step) (cl : clusters) (ct : nat) : option clusters :=
  match steps with
  | [] => Some cl
  | s :: r =>
      if should_stop c cl s then Some cl
      else match merge_step cl ct s with
           | None => None
           | Some cl' => replay c r cl' (S ct)
           end
  end.

Definition init_clusters (n : nat) : clusters := map (fun i => (i, [i])) (seq 0 n).

End Kernel.

Arguments KLinear {F}.
Arguments KGauss {F}.
Arguments KPoly {F}.
Arguments mkstep {F}.
Arguments s_c1 {F}.
Arguments s_c2 {F}.
Arguments s_d {F}.
Arguments s_size {F}.
Arguments CNum {F}.
Arguments CDist {F}.

(** final numbering: tmp[id] = i for the i-th cluster in key order *)
Fixpoint set_nth (l : list nat) (k : nat) (v : nat) : list nat :=
  match l, k with
  | [], _ => []
  | _ :: t, O => v :: t
  | a :: t, S k' => a :: set_nth t k' v
  end.

Fixpoint assignments (cl : clusters) (i : nat) : list (nat * nat) :=
  match cl with
  | [] => []
  | (_, ids) :: t => map (fun id => (id, i)) ids ++ assignments t (S i)
  end.

Definition labels_of (n : nat) (cl : clusters) : list nat :=
  fold_left (fun tmp p => set_nth tmp (fst p) (snd p)) (assignments cl 0) (repeat 0 n).

(** the whole post-processing of ValidHierarchicalCluster::transform, given kodama's steps *)
Definition hier {F} (o : NumOps F) (c : @crit F) (steps : list (@step F)) (n : nat) : option (list nat) :=
  match replay o c steps (init_clusters n) n with
  | Some cl => Some (labels_of n cl)
  | None => None
  end.

Fixpoint take_while {A} (f : A -> bool) (l : list A) : list A :=
  match l with [] => [] | a :: t => if f a then a :: take_while f t else [] end.

(** a step list is a well-formed dendrogram over the live ids [alive] when every step joins two
    different live ids and the new id [ct], [ct+1], ... replaces them (kodama's relabelled output) *)
Fixpoint wf_steps {F} (alive : list nat) (ct : nat) (steps : list (@step F)) : bool :=
  match steps with
  | [] => true
  | s :: r =>
      negb (s_c1 s =? s_c2 s) && memb (s_c1 s) alive && memb (s_c2 s) alive
      && wf_steps (filter (fun a => negb (a =? s_c1 s) && negb (a =? s_c2 s)) alive ++ [ct]) (S ct) r
  end.

(** performing all merges of a list (no stopping) *)
Fixpoint merge_all {F} (steps : list (@step F)) (cl : clusters) (ct : nat) : option clusters :=
  match steps with
  | [] => Some cl
  | s :: r => match merge_step cl ct s with
              | None => None
              | Some cl' => merge_all r cl' (S ct)
              end
  end.
