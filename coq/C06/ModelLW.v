(** C06 - executable Lance-Williams model of agglomerative clustering (definitions only).

    linfa-hierarchical hands the -ln dissimilarities to kodama::linkage and replays the returned steps
    (C06/Model.v: replay).  This file models the clustering itself, polymorphic in NumOps:

    - [lw_new]: the seven update formulas of kodama/src/method.rs, operation for operation;
    - [prim_linkage]: the agglomerative procedure on a dissimilarity matrix ("primitive" algorithm:
      repeatedly merge the first closest pair of live clusters, update the matrix by the recurrence,
      then sort the steps stably by dissimilarity and relabel them through a union-find) - a
      transliteration of kodama::primitive, which the harness runs next to kodama::linkage;
    - [lw_merge] / [lw_run] / [lw_valid]: the recurrence replayed along a *given* labelled dendrogram
      (cluster ids as in Model.replay) and the decidable predicate "every step joins two live clusters
      whose current Lance-Williams dissimilarity is the reported one and is minimal among all live
      pairs" - the freedom kodama's algorithms have when several pairs tie. *)
From Coq Require Import List NArith Bool Arith.
From LinfaVerif Require Import Common.Num C06.Model.
Import ListNotations.

Inductive lmethod := LSingle | LComplete | LAverage | LWeighted | LWard | LCentroid | LMedian.

(* Method::on_squares / Method::requires_sorting *)
Definition on_squares (m : lmethod) : bool := match m with LWard | LCentroid | LMedian => true | _ => false end.
Definition requires_sorting (m : lmethod) : bool := match m with LCentroid | LMedian => false | _ => true end.

Section LW.
Context {F : Type} (o : NumOps F).
Notation "a + b" := (add o a b).
Notation "a - b" := (sub o a b).
Notation "a * b" := (mul o a b).
Notation "a / b" := (div o a b).

Definition fnat (k : nat) : F := of_N o (N.of_nat k).          (* T::from(usize) *)
Definition half : F := one o / (one o + one o).                  (* T::from(0.5): exact in binary arithmetic *)
Definition quarter : F := half * half.                          (* T::from(0.25) *)

(** kodama::method::{single, complete, average, weighted, ward, centroid, median}: the new
    dissimilarity between the union of a and b and another cluster x, from da = d(a,x), db = d(b,x),
    dab = d(a,b) and the three sizes *)
Definition lw_new (m : lmethod) (da db dab : F) (sa sb sx : nat) : F :=
  match m with
  | LSingle => if ltb o da db then da else db
  | LComplete => if ltb o db da then da else db
  | LAverage => (fnat sa * da + fnat sb * db) / (fnat sa + fnat sb)
  | LWeighted => half * (da + db)
  | LWard => (((fnat sx + fnat sa) * da) + ((fnat sx + fnat sb) * db) - (fnat sx * dab)) / (fnat sa + fnat sb + fnat sx)
  | LCentroid => let sab := fnat sa + fnat sb in
                 ((fnat sa * da + fnat sb * db) / sab) - ((fnat sa * fnat sb * dab) / (sab * sab))
  | LMedian => (half * (da + db)) - (dab * quarter)
  end.

(** * condensed matrix: the upper triangle row by row, as Kernel::to_upper_triangle lists it *)
Fixpoint cchunks (lens : list nat) (l : list F) : list (list F) :=
  match lens with
  | [] => []
  | k :: r => firstn k l :: cchunks r (skipn k l)
  end.
Definition cond_rows (n : nat) (cond : list F) : list (list F) := cchunks (map (fun i => Nat.sub n (S i)) (seq 0 n)) cond.
(* entry (i, j) of the symmetric matrix with zero diagonal *)
Definition cond_get (U : list (list F)) (i j : nat) : F :=
  if i <? j then nth (Nat.sub (Nat.sub j i) 1) (nth i U []) (zero o)
  else if j <? i then nth (Nat.sub (Nat.sub i j) 1) (nth j U []) (zero o)
  else zero o.

(** * the agglomerative procedure (kodama::primitive) *)
(* full n x n matrix; like kodama's CondensedMatrix only the cells [min, max] are read and written *)
Definition dget (D : list (list F)) (i j : nat) : F := nth (Nat.max i j) (nth (Nat.min i j) D []) (zero o).
Definition dset (D : list (list F)) (i j : nat) (v : F) : list (list F) :=
  upd D (Nat.min i j) (fun row => upd row (Nat.max i j) (fun _ => v)).

Fixpoint pairs_of (act : list nat) : list (nat * nat) :=
  match act with
  | [] => []
  | r :: t => map (fun c => (r, c)) t ++ pairs_of t
  end.

(* primitive::argmin: row-major scan over the live pairs, strict "<" keeps the first minimum *)
Definition argmin (D : list (list F)) (act : list nat) : option (nat * nat * F) :=
  match pairs_of act with
  | [] => None
  | (r, c) :: rest =>
      Some (fold_left (fun best p => let v := dget D (fst p) (snd p) in
                                     if ltb o v (snd best) then (p, v) else best)
                      rest ((r, c), dget D r c))
  end.

Record rawstep := mkraw { r_a : nat; r_b : nat; r_d : F }.

(* one round: merge the closest pair (a < b), b keeps the union *)
Definition prim_round (m : lmethod) (st : list (list F) * list nat * list nat) : option (rawstep * (list (list F) * list nat * list nat)) :=
  let '(D, sizes, act) := st in
  match argmin D act with
  | None => None
  | Some ((a, b), dist) =>
      let sa := nth a sizes 0 in
      let sb := nth b sizes 0 in
      let D' := fold_left (fun D1 x =>
                   if (x =? a) || (x =? b) then D1
                   else dset D1 x b (lw_new m (dget D a x) (dget D x b) dist sa sb (nth x sizes 0)))
                 act D in
      Some (mkraw a b dist, (D', upd sizes b (fun _ => Nat.add sa sb), filter (fun x => negb (x =? a)) act))
  end.

Fixpoint prim_rounds (m : lmethod) (fuel : nat) (st : list (list F) * list nat * list nat) : option (list rawstep) :=
  match fuel with
  | O => Some []
  | S f => match prim_round m st with
           | None => None
           | Some (r, st') => match prim_rounds m f st' with
                              | Some rs => Some (r :: rs)
                              | None => None
                              end
           end
  end.

(* slice::sort_by(partial_cmp) is a stable sort; it panics ("NaNs not allowed in dendrogram") when a NaN
   is compared, which happens as soon as two steps are sorted and one carries a NaN *)
Fixpoint ins_stable (x : rawstep) (l : list rawstep) : list rawstep :=
  match l with
  | [] => [x]
  | y :: t => if ltb o (r_d x) (r_d y) then x :: l else y :: ins_stable x t
  end.
Definition sort_stable (l : list rawstep) : list rawstep := fold_left (fun acc x => ins_stable x acc) l [].
Definition is_nan_f (x : F) : bool := negb (eqb o x x).

(* LinkageUnionFind::relabel: the live cluster of an observation is the one whose member list holds it *)
Definition find_cluster (cl : clusters) (x : nat) : option nat :=
  match find (fun p => memb x (snd p)) cl with Some p => Some (fst p) | None => None end.

Fixpoint relabel (rs : list rawstep) (cl : clusters) (ct : nat) : option (list (@step F)) :=
  match rs with
  | [] => Some []
  | r :: t =>
      match find_cluster cl (r_a r), find_cluster cl (r_b r) with
      | Some c1, Some c2 =>
          if c1 =? c2 then None else
          match remove_key (Nat.min c1 c2) cl with
          | None => None
          | Some (m1, cl1) =>
              match remove_key (Nat.max c1 c2) cl1 with
              | None => None
              | Some (m2, cl2) =>
                  match relabel t (cl2 ++ [(ct, m1 ++ m2)]) (S ct) with
                  | Some ss => Some (mkstep (Nat.min c1 c2) (Nat.max c1 c2) (r_d r) (Nat.add (length m1) (length m2)) :: ss)
                  | None => None
                  end
              end
          end
      | _, _ => None
      end
  end.

(** kodama::primitive(condensed, n, method); None stands for a panic *)
Definition prim_linkage (m : lmethod) (n : nat) (cond : list F) : option (list (@step F)) :=
  let cond1 := if on_squares m then map (fun x => x * x) cond else cond in
  let U := cond_rows n cond1 in
  let D := map (fun i => map (fun j => cond_get U i j) (seq 0 n)) (seq 0 n) in
  match prim_rounds m (Nat.sub n 1) (D, repeat 1 n, seq 0 n) with
  | None => None
  | Some raw =>
      let sorted := if requires_sorting m then
                      (if (2 <=? length raw) && existsb (fun r => is_nan_f (r_d r)) raw then None else Some (sort_stable raw))
                    else Some raw in
      match sorted with
      | None => None
      | Some rs =>
          match relabel rs (init_clusters n) n with
          | None => None
          | Some ss => Some (if on_squares m then map (fun s => mkstep (s_c1 s) (s_c2 s) (sqrt o (s_d s)) (s_size s)) ss else ss)
          end
      end
  end.

(** * the recurrence along a labelled dendrogram *)
(* dissimilarities between cluster ids: row x lists the values against the ids below x; a merge appends
   the row of the new id and never changes an older cell *)
Definition tbl := list (list F).
Definition tget (T : tbl) (x y : nat) : F :=
  if y <? x then nth y (nth x T []) (zero o) else nth x (nth y T []) (zero o).
Definition tinit (D : nat -> nat -> F) (n : nat) : tbl := map (fun x => map (fun y => D x y) (seq 0 x)) (seq 0 n).

Definition lookup (cl : clusters) (y : nat) : option (list nat) :=
  match find (fun p => fst p =? y) cl with Some p => Some (snd p) | None => None end.

Definition lw_row (m : lmethod) (T : tbl) (cl2 : clusters) (a b sa sb ct : nat) : list F :=
  let dab := tget T a b in
  map (fun y => match lookup cl2 y with
                | Some my => lw_new m (tget T a y) (tget T b y) dab sa sb (length my)
                | None => zero o
                end) (seq 0 ct).

(* merge the live clusters c1 and c2 into the new id ct (the cluster map changes as in Model.merge_step) *)
Definition lw_merge (m : lmethod) (T : tbl) (cl : clusters) (ct c1 c2 : nat) : option (tbl * clusters) :=
  match remove_key c1 cl with
  | None => None
  | Some (m1, cl1) =>
      match remove_key c2 cl1 with
      | None => None
      | Some (m2, cl2) => Some (T ++ [lw_row m T cl2 c1 c2 (length m1) (length m2) ct], cl2 ++ [(ct, m1 ++ m2)])
      end
  end.

Fixpoint lw_run (m : lmethod) (T : tbl) (cl : clusters) (ct : nat) (ms : list (nat * nat)) : option (tbl * clusters) :=
  match ms with
  | [] => Some (T, cl)
  | (c1, c2) :: r => match lw_merge m T cl ct c1 c2 with
                     | None => None
                     | Some (T', cl') => lw_run m T' cl' (S ct) r
                     end
  end.

(** a labelled dendrogram is a Lance-Williams agglomeration of the table T: every step joins two live
    clusters, reports their current dissimilarity up to [close] (the reported value goes through [pre]
    first: the square for the methods that work on squares), no other live pair is closer up to [le],
    and the size field is the size of the union *)
Fixpoint lw_valid (close le : F -> F -> bool) (pre : F -> F) (m : lmethod)
         (T : tbl) (cl : clusters) (ct : nat) (steps : list (@step F)) : bool :=
  match steps with
  | [] => true
  | s :: r =>
      match lw_merge m T cl ct (s_c1 s) (s_c2 s) with
      | None => false
      | Some (T', cl') =>
          let h := tget T (s_c1 s) (s_c2 s) in
          close h (pre (s_d s))
          && forallb (fun p => forallb (fun q => (fst q <=? fst p) || le h (tget T (fst p) (fst q))) cl) cl
          && (s_size s =? length (snd (last cl' (0, []))))
          && lw_valid close le pre m T' cl' (S ct) r
      end
  end.

(* the table of a condensed matrix (squared for the methods that work on squares) *)
Definition tinit_cond (m : lmethod) (n : nat) (cond : list F) : tbl :=
  let cond1 := if on_squares m then map (fun x => x * x) cond else cond in
  let U := cond_rows n cond1 in
  tinit (cond_get U) n.

End LW.

Arguments mkraw {F}.
Arguments r_a {F}.
Arguments r_b {F}.
Arguments r_d {F}.
