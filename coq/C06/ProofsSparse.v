(** C06 - the CSR kernel produced by the model is well formed (rows strictly sorted, indices in range)
    and symmetric, so the view theorems of ProofsViews apply to it. *)
From Coq Require Import List NArith Bool Arith Reals Lra Lia Permutation Sorted.
From LinfaVerif Require Import Common.Num Common.NdSum C06.Model C06.Proofs C06.ProofsViews.
Import ListNotations.

Definition ssorted (l : list nat) : Prop := StronglySorted lt l.

Lemma ssorted_NoDup l : ssorted l -> NoDup l.
Proof.
  induction 1 as [|a l S IH F]; constructor; auto.
  intro H. apply (proj1 (Forall_forall _ _) F) in H. lia.
Qed.

Lemma insert_perm x l : Permutation (insert x l) (x :: l).
Proof.
  induction l as [|y l IH]; simpl; auto. destruct (x <=? y); auto.
  rewrite IH. apply perm_swap.
Qed.

Lemma isort_perm l : Permutation (isort l) l.
Proof. induction l as [|x l IH]; simpl; auto. rewrite insert_perm. auto. Qed.

Lemma insert_sorted x l : StronglySorted le l -> StronglySorted le (insert x l).
Proof.
  induction 1 as [|y l S IH F]; simpl.
  - constructor; constructor.
  - destruct (x <=? y) eqn:E.
    + apply Nat.leb_le in E. constructor; [constructor; auto|]. constructor; auto.
      apply Forall_forall. intros z Hz. apply (proj1 (Forall_forall _ _) F) in Hz. lia.
    + apply Nat.leb_gt in E. constructor; auto. apply Forall_forall. intros z Hz.
      apply insert_In in Hz as [->|Hz]; [lia|]. apply (proj1 (Forall_forall _ _) F) in Hz. exact Hz.
Qed.

Lemma isort_sorted l : StronglySorted le (isort l).
Proof. induction l as [|x l IH]; simpl; [constructor|apply insert_sorted; auto]. Qed.

Lemma le_sorted_nodup l : StronglySorted le l -> NoDup l -> ssorted l.
Proof.
  induction 1 as [|a l S IH F]; intros ND; [constructor|]. inversion ND as [|? ? N1 N2]; subst.
  constructor; [apply IH; auto|]. apply Forall_forall. intros z Hz.
  pose proof (proj1 (Forall_forall _ _) F z Hz). assert (z <> a) by (intro; subst; contradiction). lia.
Qed.

Lemma adj_row_sorted m nb : NoDup nb -> ssorted (adj_row m nb).
Proof.
  intros ND. unfold adj_row. apply le_sorted_nodup; [apply isort_sorted|].
  apply (Permutation_NoDup (Permutation_sym (isort_perm _))). constructor.
  - rewrite filter_In. intros [_ H]. rewrite Nat.eqb_refl in H. discriminate.
  - apply NoDup_filter. apply (Permutation_NoDup (Permutation_sym (isort_perm _))). exact ND.
Qed.

Lemma filter_ssorted f l : ssorted l -> ssorted (filter f l).
Proof.
  induction 1 as [|a l S IH F]; simpl; [constructor|]. destruct (f a); auto.
  constructor; auto. apply Forall_forall. intros z Hz. apply filter_In in Hz as [Hz _].
  apply (proj1 (Forall_forall _ _) F z Hz).
Qed.

Lemma seq_ssorted k n : ssorted (seq k n).
Proof.
  revert k; induction n as [|n IH]; intros k; simpl; [constructor|]. constructor; [apply IH|].
  apply Forall_forall. intros z Hz. apply in_seq in Hz. lia.
Qed.

Lemma merge_ssorted a : forall b, ssorted a -> ssorted b -> ssorted (merge a b).
Proof.
  induction a as [|x a IHa]; intros b Sa Sb.
  - destruct b; simpl; auto.
  - induction b as [|y b IHb]; [simpl; auto|].
    inversion Sa as [|? ? Sa' Fa]; subst. inversion Sb as [|? ? Sb' Fb]; subst.
    simpl. destruct (x <? y) eqn:E1.
    + apply Nat.ltb_lt in E1. constructor; [apply IHa; auto|].
      apply Forall_forall. intros z Hz. apply merge_In in Hz as [Hz|Hz].
      * apply (proj1 (Forall_forall _ _) Fa z Hz).
      * destruct Hz as [->|Hz]; auto. pose proof (proj1 (Forall_forall _ _) Fb z Hz). lia.
    + destruct (y <? x) eqn:E2.
      * apply Nat.ltb_lt in E2. constructor; [apply IHb; auto|].
        apply Forall_forall. intros z Hz.
        change (In z (merge (x :: a) b)) in Hz. apply merge_In in Hz as [Hz|Hz].
        -- destruct Hz as [->|Hz]; auto. pose proof (proj1 (Forall_forall _ _) Fa z Hz). lia.
        -- apply (proj1 (Forall_forall _ _) Fb z Hz).
      * apply Nat.ltb_ge in E1, E2. assert (x = y) by lia. subst y.
        constructor; [apply IHa; auto|]. apply Forall_forall. intros z Hz. apply merge_In in Hz as [Hz|Hz].
        -- apply (proj1 (Forall_forall _ _) Fa z Hz).
        -- apply (proj1 (Forall_forall _ _) Fb z Hz).
Qed.

(** neighbour lists as an index returns them: no repetition, indices of existing points *)
Definition nbrs_ok (nbrs : list (list nat)) : Prop :=
  forall i, i < length nbrs -> NoDup (nth i nbrs []) /\ forall j, In j (nth i nbrs []) -> j < length nbrs.

Lemma adjacency_row_ok nbrs i : nbrs_ok nbrs -> i < length nbrs ->
  ssorted (nth i (adjacency nbrs) []) /\ forall j, In j (nth i (adjacency nbrs) []) -> j < length nbrs.
Proof.
  intros OK Hi. unfold adjacency.
  rewrite (map2_nth _ _ _ _ _ [] []) by (rewrite ?adj_rows_length, ?transpose_pat_length; auto).
  rewrite adj_rows_nth by auto.
  assert (T : nth i (transpose_pat (length nbrs) (adj_rows nbrs)) [] =
              filter (fun i0 => memb i (nth i0 (adj_rows nbrs) [])) (seq 0 (length nbrs))).
  { unfold transpose_pat. rewrite (nth_map_lt _ _ _ _ 0) by (rewrite seq_length; auto). rewrite seq_nth by auto. reflexivity. }
  rewrite T. split.
  - apply merge_ssorted; [apply adj_row_sorted; apply OK; auto|apply filter_ssorted, seq_ssorted].
  - intros j Hj. apply merge_In in Hj as [Hj|Hj].
    + apply adj_row_In in Hj as [->|Hj]; auto. apply (proj2 (OK i Hi)). exact Hj.
    + apply filter_In in Hj as [Hj _]. apply in_seq in Hj. lia.
Qed.

(** lookup in a row built over a pattern *)
Lemma s_lookup_map {F} (g : nat -> F) (l : list nat) j :
  s_lookup j (map (fun j' => (j', g j')) l) = if memb j l then Some (g j) else None.
Proof.
  unfold s_lookup. induction l as [|a l IH]; simpl; auto.
  rewrite (Nat.eqb_sym j a). destruct (a =? j) eqn:E; simpl; auto. apply Nat.eqb_eq in E. subst. reflexivity.
Qed.

Local Open Scope R_scope.
(** the sparse kernel of the model (real arithmetic) is a well-formed symmetric CSR matrix *)
Lemma sparse_rows_wellformed tr m (X : list (list R)) nbrs : length nbrs = length X -> nbrs_ok nbrs ->
  let rows := sparse_rows R_ops tr m X (adjacency nbrs) in
  srows_ok (length X) rows /\
  (forall i j, (i < length X)%nat -> (j < length X)%nat -> sval j (nth i rows []) = sval i (nth j rows [])).
Proof.
  intros L OK rows. subst rows.
  assert (Row : forall i, (i < length X)%nat -> nth i (sparse_rows R_ops tr m X (adjacency nbrs)) [] =
            map (fun j => (j, kernel_entry R_ops tr m (nth i X []) (nth j X []))) (nth i (adjacency nbrs) [])).
  { intros i Hi. apply sparse_rows_spec; auto. rewrite adjacency_length, L. exact Hi. }
  split; [split|].
  - apply sparse_rows_length. rewrite adjacency_length. exact L.
  - intros row Hr. destruct (In_nth _ _ [] Hr) as [i [Hi E]]. pose proof (sparse_rows_length R_ops tr m X (adjacency nbrs) (eq_trans (adjacency_length nbrs) L)) as SL.
    assert (Hi2 : (i < length X)%nat) by (rewrite <- SL; exact Hi). clear Hi. rename Hi2 into Hi.
    subst row. rewrite Row by auto. rewrite map_map. simpl. rewrite map_id.
    destruct (adjacency_row_ok nbrs i OK) as [S B]; [lia|]. split.
    + apply ssorted_NoDup. exact S.
    + intros p Hp. apply in_map_iff in Hp as [j [Ep Hj]]. subst p. simpl. rewrite <- L. apply B. exact Hj.
  - intros i j Hi Hj. rewrite !Row by auto. unfold sval. rewrite !s_lookup_map.
    destruct (memb j (nth i (adjacency nbrs) [])) eqn:E1; destruct (memb i (nth j (adjacency nbrs) [])) eqn:E2.
    + apply kernel_entry_sym_R.
    + exfalso. apply memb_In in E1. apply adjacency_In in E1; try lia.
      assert (In i (nth j (adjacency nbrs) [])) by (apply adjacency_In; try lia; intuition).
      apply memb_In in H. congruence.
    + exfalso. apply memb_In in E2. apply adjacency_In in E2; try lia.
      assert (In j (nth i (adjacency nbrs) [])) by (apply adjacency_In; try lia; intuition).
      apply memb_In in H. congruence.
    + reflexivity.
Qed.
Local Close Scope R_scope.

Example nbrs_ok_ex : nbrs_ok [[0; 1]; [1; 0]; [2; 1]].
Proof.
  intros i Hi. simpl in Hi. destruct i as [|[|[|i]]]; try lia; simpl; (split; [repeat constructor; simpl; intuition lia|]);
    intros j Hj; simpl in Hj; intuition lia.
Qed.
