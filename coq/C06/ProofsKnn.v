(** C06 - soundness of the pattern certificate of C06/ModelKnn.v: an accepted pattern is the diagonal
    plus the symmetrised union of correct k+1-nearest-neighbour answers ("adjacency_iff up to ties"). *)
From Coq Require Import List NArith ZArith Bool Arith Lia Floats.
From LinfaVerif Require Import Common.Num C06.Model C06.ModelKnn C06.Proofs.
Import ListNotations.

Lemma nodupb_NoDup l : nodupb l = true -> NoDup l.
Proof.
  induction l as [|a t IH]; simpl; intros H; constructor; apply andb_true_iff in H as [H1 H2]; auto.
  intros Hin. apply memb_In in Hin. rewrite Hin in H1. discriminate.
Qed.

Lemma NoDup_nodupb l : NoDup l -> nodupb l = true.
Proof.
  induction 1 as [|a t N _ IH]; simpl; auto. rewrite IH, andb_true_r. apply negb_true_iff.
  destruct (memb a t) eqn:E; auto. apply memb_In in E. contradiction.
Qed.

Lemma nat_list_eqb_eq (a b : list nat) : list_eqb Nat.eqb a b = true -> a = b.
Proof. apply list_eqb_eq. intros x y H. apply Nat.eqb_eq. exact H. Qed.

Lemma nat_mat_eqb_eq (a b : list (list nat)) : list_eqb (list_eqb Nat.eqb) a b = true -> a = b.
Proof. apply list_eqb_eq. exact nat_list_eqb_eq. Qed.

Section Knn.
Context {F : Type} (o : NumOps F).
Variable n : nat.
Variable dd : nat -> nat -> F.

(** lst is a set of K nearest records of record i: K different records, and no record outside the list is
    strictly closer to i than a record inside it (with ties at the K-th distance several lists qualify) *)
Definition is_knn_answer (i K : nat) (lst : list nat) : Prop :=
  length lst = K /\ NoDup lst /\ (forall a, In a lst -> a < n) /\
  forall a b, In a lst -> b < n -> ~ In b lst -> ltb o (dd i b) (dd i a) = false.

Lemma knn_answer_ok_iff i K lst : knn_answer_ok o n dd i K lst = true <-> is_knn_answer i K lst.
Proof.
  unfold knn_answer_ok, is_knn_answer. rewrite !andb_true_iff, Nat.eqb_eq, !forallb_forall. split.
  - intros [[[H1 H2] H3] H4]. split; [exact H1|]. split; [apply nodupb_NoDup; exact H2|]. split.
    + intros a Ha. apply Nat.ltb_lt. apply H3. exact Ha.
    + intros a b Ha Hb Nb. specialize (H4 a Ha). rewrite forallb_forall in H4.
      assert (Hs : In b (seq 0 n)) by (apply in_seq; lia). specialize (H4 b Hs).
      apply orb_true_iff in H4 as [H4|H4]; [apply memb_In in H4; contradiction|]. apply negb_true_iff. exact H4.
  - intros [H1 [H2 [H3 H4]]]. split; [split; [split|]|]; auto.
    + apply NoDup_nodupb. exact H2.
    + intros a Ha. apply Nat.ltb_lt. auto.
    + intros a Ha. apply forallb_forall. intros b Hb. apply in_seq in Hb.
      destruct (memb b lst) eqn:E; [reflexivity|]. simpl. apply negb_true_iff. apply H4; [exact Ha|lia|].
      intros Hin. apply memb_In in Hin. congruence.
Qed.

(** an accepted pattern is the adjacency of correct answers: it stores (i, j) iff i = j or one of the two
    records is among the returned k+1 nearest records of the other *)
Lemma pattern_cert_sound k nbrs P : pattern_cert_ok o n dd k nbrs P = true ->
  length nbrs = n /\
  (forall i, i < n -> is_knn_answer i (S k) (nth i nbrs [])) /\
  (forall i j, i < n -> j < n -> (In j (nth i P []) <-> i = j \/ In j (nth i nbrs []) \/ In i (nth j nbrs []))).
Proof.
  unfold pattern_cert_ok. rewrite !andb_true_iff, Nat.eqb_eq, forallb_forall. intros [[H1 H2] H3].
  apply nat_mat_eqb_eq in H3. subst P. split; [exact H1|]. split.
  - intros i Hi. apply knn_answer_ok_iff. apply H2. apply in_seq. lia.
  - intros i j Hi Hj. apply adjacency_In; rewrite H1; assumption.
Qed.

(** the check is also complete: the adjacency of any correct answers is accepted *)
Lemma pattern_cert_complete k nbrs : length nbrs = n ->
  (forall i, i < n -> is_knn_answer i (S k) (nth i nbrs [])) -> pattern_cert_ok o n dd k nbrs (adjacency nbrs) = true.
Proof.
  intros H1 H2. unfold pattern_cert_ok. rewrite !andb_true_iff, Nat.eqb_eq, forallb_forall. split; [split|]; auto.
  - intros i Hi. apply in_seq in Hi. apply knn_answer_ok_iff. apply H2. lia.
  - clear. induction (adjacency nbrs) as [|r t IH]; simpl; auto. rewrite IH, andb_true_r.
    induction r as [|x r IHr]; simpl; auto. rewrite Nat.eqb_refl. exact IHr.
Qed.
End Knn.

(** non-vacuity: records 0, 1, 2 on a line (squared distances), one neighbour: for the middle record both
    [1; 0] and [1; 2] are correct answers, and each choice gives an accepted (different) pattern *)
Definition dd_line (i j : nat) : float := PrimFloat.of_uint63 (Uint63.of_Z (Z.of_nat ((i - j) * (i - j) + (j - i) * (j - i)))).
Example pattern_cert_ex :
  pattern_cert_ok B64_ops 3 dd_line 1 [[0; 1]; [1; 0]; [2; 1]] [[0; 1]; [0; 1; 2]; [1; 2]] = true /\
  pattern_cert_ok B64_ops 3 dd_line 1 [[0; 1]; [1; 2]; [2; 1]] [[0; 1]; [0; 1; 2]; [1; 2]] = true /\
  pattern_cert_ok B64_ops 3 dd_line 1 [[0; 1]; [1; 0]; [2; 0]] (adjacency [[0; 1]; [1; 0]; [2; 0]]) = false.
Proof. repeat split; vm_compute; reflexivity. Qed.
