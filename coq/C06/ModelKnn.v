(** C06 - the freedom of the sparse pattern under ties, as a decidable certificate check (definitions only).

    sparse::adjacency_matrix asks the neighbour index for the k+1 nearest records of every record.  When
    several records are equally far, any choice among them is a correct answer, and the three indices
    (linear scan, k-d tree, ball tree) do choose differently.  [knn_answer_ok] decides whether a list is
    *a* correct answer - nothing outside the list is strictly closer than something inside - and
    [pattern_cert_ok] accepts a stored pattern exactly when it is the adjacency (C06/Model.v) of
    correct answers; the neighbour lists the index returned serve as the witness. *)
From Coq Require Import List NArith Bool Arith.
From LinfaVerif Require Import Common.Num C06.Model.
Import ListNotations.

Fixpoint nodupb (l : list nat) : bool :=
  match l with
  | [] => true
  | a :: t => negb (memb a t) && nodupb t
  end.

Section Knn.
Context {F : Type} (o : NumOps F).
Variable n : nat.                    (* number of records *)
Variable dd : nat -> nat -> F.       (* dd i j: the (reduced) distance between records i and j the index compares *)

(* lst is a correct answer to "the K nearest records of record i" *)
Definition knn_answer_ok (i K : nat) (lst : list nat) : bool :=
  Nat.eqb (length lst) K && nodupb lst && forallb (fun a => a <? n) lst
  && forallb (fun a => forallb (fun b => memb b lst || negb (ltb o (dd i b) (dd i a))) (seq 0 n)) lst.

(* P is the stored pattern of a sparse kernel with k neighbours, certified by the neighbour lists nbrs *)
Definition pattern_cert_ok (k : nat) (nbrs : list (list nat)) (P : list (list nat)) : bool :=
  Nat.eqb (length nbrs) n
  && forallb (fun i => knn_answer_ok i (S k) (nth i nbrs [])) (seq 0 n)
  && list_eqb (list_eqb Nat.eqb) P (adjacency nbrs).
End Knn.
