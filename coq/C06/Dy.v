(** C06 - exact dyadic arithmetic on (mantissa, exponent) pairs and the positive-semidefiniteness
    certificate checker built on it (definitions only; soundness is proved in C06/ProofsPsd.v). *)
From Coq Require Import List ZArith Bool Arith Floats.
Import ListNotations.

Definition dy := (Z * Z)%type.          (* (m, e) stands for m * 2^e *)
Definition dy0 : dy := (0%Z, 0%Z).
Definition dy_of (x : float) : dy :=
  match Prim2SF x with
  | S754_finite s m e => ((if s then Zneg m else Zpos m), e)
  | _ => dy0
  end.
Definition dy_mul (a b : dy) : dy := (fst a * fst b, snd a + snd b)%Z.
Definition dy_add (a b : dy) : dy :=
  if (snd a <=? snd b)%Z then (fst a + Z.shiftl (fst b) (snd b - snd a), snd a)%Z
  else (Z.shiftl (fst a) (snd a - snd b) + fst b, snd b)%Z.
Definition dy_opp (a : dy) : dy := (- fst a, snd a)%Z.
Definition dy_sub (a b : dy) : dy := dy_add a (dy_opp b).
Definition dy_abs (a : dy) : dy := (Z.abs (fst a), snd a).
Definition dy_leb (a b : dy) : bool := (fst (dy_sub a b) <=? 0)%Z.
Definition dy_eqb (a b : dy) : bool := (fst (dy_sub a b) =? 0)%Z.
Definition dy_sum (l : list dy) : dy := fold_left dy_add l dy0.
Definition dy_abs_sum (l : list dy) : dy := dy_sum (map dy_abs l).
Fixpoint dy_pow (b : dy) (k : nat) : dy := match k with O => (1%Z, 0%Z) | S k' => dy_mul b (dy_pow b k') end.

(** sum of f 0 .. f (n-1) *)
Fixpoint dsumn (f : nat -> dy) (n : nat) : dy :=
  match n with O => dy0 | S k => dy_add (dsumn f k) (f k) end.

Definition ent (M : list (list dy)) (i j : nat) : dy := nth j (nth i M []) dy0.

(** a-posteriori certificate: given any matrix L (the harness sends a floating-point Cholesky factor),
    K + delta*I - L L^T is computed exactly and must be symmetric-by-K and diagonally dominant with a
    non-negative diagonal; then K + delta*I = L L^T + (a diagonally dominant matrix) is positive semidefinite *)
Definition psd_cert_ok (n : nat) (K L : list (list dy)) (delta : dy) : bool :=
  let G i j := dsumn (fun k => dy_mul (ent L i k) (ent L j k)) n in
  let E i j := dy_sub (dy_add (ent K i j) (if i =? j then delta else dy0)) (G i j) in
  forallb (fun i =>
     forallb (fun j => dy_eqb (ent K i j) (ent K j i)) (seq 0 n)
     && dy_leb (dsumn (fun j => if i =? j then dy0 else dy_abs (E i j)) n) (E i i)) (seq 0 n).

(* the slack used for binary64 Gaussian kernels: n^2 * 2^-48 *)
Definition psd_delta (n : nat) : dy := (Z.of_nat (n * n), (-48)%Z).
