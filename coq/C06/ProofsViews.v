(** C06 - the row-sum and matrix-product views of a CSR kernel agree with its dense form (real arithmetic). *)
From Coq Require Import List NArith Bool Arith Reals Lra Lia Permutation.
From LinfaVerif Require Import Common.Num Common.NdSum C06.Model C06.Proofs.
Import ListNotations.
Local Open Scope R_scope.

Definition Rsum (l : list R) : R := fold_right Rplus 0 l.

Lemma fold_left_Rplus l : forall acc, fold_left Rplus l acc = acc + Rsum l.
Proof. induction l as [|a l IH]; intros acc; simpl; [lra|]. rewrite IH. lra. Qed.

Lemma Rsum_app a b : Rsum (a ++ b) = Rsum a + Rsum b.
Proof. induction a as [|x a IH]; simpl; [lra|]. rewrite IH. lra. Qed.

(** ndarray's eight-lane unrolled sum is the plain sum over the reals *)
Lemma chunks8_sum : forall k (xs p : list R), (length xs <= k)%nat -> length p = 8%nat ->
  length (fst (chunks8 R_ops xs p)) = 8%nat /\
  Rsum (fst (chunks8 R_ops xs p)) + Rsum (snd (chunks8 R_ops xs p)) = Rsum p + Rsum xs.
Proof.
  induction k as [|k IH]; intros xs p Hk Hp.
  - destruct xs; simpl in *; [split; auto; lra|lia].
  - destruct xs as [|x0 [|x1 [|x2 [|x3 [|x4 [|x5 [|x6 [|x7 t]]]]]]]]; try (simpl; split; auto; lra).
    destruct p as [|p0 [|p1 [|p2 [|p3 [|p4 [|p5 [|p6 [|p7 [|p8 p]]]]]]]]]; simpl in Hp; try lia.
    cbn [chunks8 combine map fst snd].
    destruct (IH t [add R_ops p0 x0; add R_ops p1 x1; add R_ops p2 x2; add R_ops p3 x3;
                    add R_ops p4 x4; add R_ops p5 x5; add R_ops p6 x6; add R_ops p7 x7]) as [L S].
    + simpl in Hk. lia.
    + reflexivity.
    + split; [exact L|]. rewrite S. simpl. lra.
Qed.

Lemma usum_R (xs : list R) : usum R_ops xs = Rsum xs.
Proof.
  unfold usum. destruct (chunks8_sum (length xs) xs [0; 0; 0; 0; 0; 0; 0; 0] (le_n _) eq_refl) as [L S].
  simpl zero. destruct (chunks8 R_ops xs [0; 0; 0; 0; 0; 0; 0; 0]) as [p rest]. simpl in L, S.
  destruct p as [|p0 [|p1 [|p2 [|p3 [|p4 [|p5 [|p6 [|p7 [|p8 p]]]]]]]]]; simpl in L; try lia.
  rewrite fold_left_Rplus. simpl in *. lra.
Qed.

Lemma seq_sum_R (xs : list R) : seq_sum R_ops xs = Rsum xs.
Proof. unfold seq_sum. rewrite fold_left_Rplus. simpl. lra. Qed.

(** sums over index ranges *)
Lemma Rsum_map_ext {A} (f g : A -> R) l : (forall x, In x l -> f x = g x) -> Rsum (map f l) = Rsum (map g l).
Proof. intros H. f_equal. apply map_ext_in. exact H. Qed.

Lemma Rsum_map_plus {A} (f g : A -> R) l : Rsum (map (fun x => f x + g x) l) = Rsum (map f l) + Rsum (map g l).
Proof. induction l as [|a l IH]; simpl; [lra|]. rewrite IH. lra. Qed.

Lemma Rsum_point (k : nat) (x : R) (l : list nat) : NoDup l -> In k l ->
  Rsum (map (fun j => if k =? j then x else 0) l) = x.
Proof.
  induction l as [|a l IH]; intros ND H; simpl in *; [tauto|]. inversion ND as [|? ? N1 N2]; subst.
  destruct (k =? a) eqn:E.
  - apply Nat.eqb_eq in E. subst a.
    assert (Z : Rsum (map (fun j => if k =? j then x else 0) l) = 0).
    { clear IH H ND N2. induction l as [|b l IH]; simpl; auto. simpl in N1.
      destruct (k =? b) eqn:E; [apply Nat.eqb_eq in E; subst; tauto|]. rewrite IH; [lra|tauto]. }
    rewrite Z. lra.
  - destruct H as [H|H]; [apply Nat.eqb_neq in E; congruence|]. rewrite IH; auto. lra.
Qed.

(** value of a CSR row at a column, as the dense form shows it *)
Definition sval (j : nat) (row : @srow R) : R := match s_lookup j row with Some v => v | None => 0 end.

Lemma sval_cons p (t : @srow R) j : sval j (p :: t) = if fst p =? j then snd p else sval j t.
Proof. unfold sval, s_lookup. simpl. destruct (fst p =? j); reflexivity. Qed.

Lemma sval_absent j (row : @srow R) : ~ In j (map fst row) -> sval j row = 0.
Proof.
  induction row as [|p t IH]; intros H; [reflexivity|]. rewrite sval_cons. simpl in H.
  destruct (fst p =? j) eqn:E; [apply Nat.eqb_eq in E; tauto|]. apply IH. tauto.
Qed.

(** sum over the stored entries = sum over all columns of the dense row *)
Lemma stored_sum (b : nat -> R) n (row : @srow R) : NoDup (map fst row) -> (forall p, In p row -> (fst p < n)%nat) ->
  Rsum (map (fun p => snd p * b (fst p)) row) = Rsum (map (fun j => sval j row * b j) (seq 0 n)).
Proof.
  induction row as [|p t IH]; intros ND LT.
  - simpl. induction (seq 0 n); simpl; auto. unfold sval at 1. simpl. lra.
  - simpl in ND. inversion ND as [|? ? N1 N2]; subst. simpl.
    rewrite IH by (auto; intros q Hq; apply LT; right; exact Hq).
    rewrite (Rsum_map_ext (fun j => sval j (p :: t) * b j)
                          (fun j => (if fst p =? j then snd p * b (fst p) else 0) + sval j t * b j)).
    + rewrite Rsum_map_plus. rewrite Rsum_point; [lra|apply seq_NoDup|]. apply in_seq. specialize (LT p (or_introl eq_refl)). lia.
    + intros j _. rewrite sval_cons. destruct (fst p =? j) eqn:E; [|lra].
      apply Nat.eqb_eq in E. subst j. rewrite (sval_absent _ _ N1). lra.
Qed.

(** ** column sums accumulated over the stored entries *)
Lemma upd_length {A} (l : list A) : forall k f, length (upd l k f) = length l.
Proof. induction l as [|a l IH]; intros [|k] f; simpl; auto. Qed.

Lemma nth_upd (l : list R) : forall k f c, (c < length l)%nat ->
  nth c (upd l k f) 0 = if k =? c then f (nth c l 0) else nth c l 0.
Proof.
  induction l as [|a l IH]; intros [|k] f [|c] H; simpl in *; try lia; auto.
  apply IH. lia.
Qed.

Definition sumif (c : nat) (ps : @srow R) : R := Rsum (map (fun p => if fst p =? c then snd p else 0) ps).

Lemma fold_upd_sum (ps : @srow R) : forall (s : list R) c, (c < length s)%nat ->
  nth c (fold_left (fun s p => upd s (fst p) (fun x => x + snd p)) ps s) 0 = nth c s 0 + sumif c ps.
Proof.
  induction ps as [|p ps IH]; intros s c H; simpl; [unfold sumif; simpl; lra|].
  rewrite IH by (rewrite upd_length; exact H). rewrite nth_upd by exact H.
  unfold sumif. simpl. destruct (fst p =? c); lra.
Qed.

Lemma sumif_concat c (rows : list (@srow R)) : sumif c (concat rows) = Rsum (map (sumif c) rows).
Proof.
  induction rows as [|r rows IH]; simpl; [reflexivity|].
  unfold sumif in *. rewrite map_app, Rsum_app, IH. reflexivity.
Qed.

Lemma sumif_sval c (row : @srow R) : NoDup (map fst row) -> sumif c row = sval c row.
Proof.
  induction row as [|p t IH]; intros ND; [reflexivity|]. simpl in ND. inversion ND as [|? ? N1 N2]; subst.
  rewrite sval_cons. unfold sumif in *. simpl. destruct (fst p =? c) eqn:E.
  - apply Nat.eqb_eq in E. subst c. rewrite IH by auto. rewrite (sval_absent _ _ N1). lra.
  - rewrite IH by auto. lra.
Qed.

Definition srows_ok (n : nat) (rows : list (@srow R)) : Prop :=
  length rows = n /\ forall row, In row rows -> NoDup (map fst row) /\ forall p, In p row -> (fst p < n)%nat.

Lemma nth_s_sum n (rows : list (@srow R)) c : srows_ok n rows -> (c < n)%nat ->
  nth c (s_sum R_ops n rows) 0 = Rsum (map (fun i => sval c (nth i rows [])) (seq 0 n)).
Proof.
  intros [L OK] Hc. unfold s_sum. simpl.
  rewrite (fold_upd_sum (concat rows) (repeat 0 n) c) by (rewrite repeat_length; exact Hc).
  rewrite nth_repeat. rewrite sumif_concat, Rplus_0_l.
  rewrite <- L. rewrite (map_nth_seq (sval c) rows []).
  apply Rsum_map_ext. intros row Hr. apply sumif_sval. apply OK. exact Hr.
Qed.

Lemma nth_d_sum_dense n (rows : list (@srow R)) c : length rows = n -> (c < n)%nat ->
  nth c (d_sum R_ops (s_to_dense R_ops n rows)) 0 = Rsum (map (fun j => sval j (nth c rows [])) (seq 0 n)).
Proof.
  intros L Hc. unfold d_sum. rewrite (nth_map_lt _ (s_to_dense R_ops n rows) c 0 []) by (rewrite s_to_dense_length; lia).
  rewrite usum_R. unfold s_to_dense. rewrite (nth_map_lt _ rows c [] []) by lia. reflexivity.
Qed.

(** for a symmetric CSR kernel the reported sums (column sums over the stored entries) are the row
    sums of its dense form *)
Lemma s_sum_dense n (rows : list (@srow R)) : srows_ok n rows ->
  (forall i j, (i < n)%nat -> (j < n)%nat -> sval j (nth i rows []) = sval i (nth j rows [])) ->
  s_sum R_ops n rows = d_sum R_ops (s_to_dense R_ops n rows).
Proof.
  intros OK SYM. apply (nth_ext _ _ 0 0).
  - unfold s_sum, d_sum. rewrite map_length, s_to_dense_length. destruct OK as [L _]. rewrite L.
    assert (G : forall ps (s : list R), length (fold_left (fun s p => upd s (fst p) (fun x => x + snd p)) ps s) = length s).
    { induction ps as [|p ps IH]; intros s; simpl; auto. rewrite IH, upd_length. reflexivity. }
    rewrite G, repeat_length. reflexivity.
  - intros c Hc.
    assert (Hn : (c < n)%nat).
    { unfold s_sum in Hc.
      assert (G : forall ps (s : list R), length (fold_left (fun s p => upd s (fst p) (fun x => x + snd p)) ps s) = length s).
      { induction ps as [|p ps IH]; intros s; simpl; auto. rewrite IH, upd_length. reflexivity. }
      rewrite G, repeat_length in Hc. exact Hc. }
    rewrite nth_s_sum by auto. rewrite nth_d_sum_dense by (destruct OK; auto).
    apply Rsum_map_ext. intros i Hi. apply in_seq in Hi. apply SYM; lia.
Qed.

(** ** matrix product *)
Lemma s_dot_dense n (rows : list (@srow R)) (B : list (list R)) nc : srows_ok n rows -> length B = n ->
  s_dot R_ops rows B nc = d_dot R_ops (s_to_dense R_ops n rows) B nc.
Proof.
  intros [L OK] LB. unfold s_dot, d_dot, s_to_dense. rewrite map_map. apply map_ext_in. intros row Hr.
  apply map_ext. intros c. rewrite seq_sum_R.
  assert (E : forall (l : @srow R) acc, fold_left (fun a p => add R_ops a (mul R_ops (snd p) (nth c (nth (fst p) B []) 0))) l acc
              = acc + Rsum (map (fun p => snd p * nth c (nth (fst p) B []) 0) l)).
  { induction l as [|p l IH]; intros acc; simpl; [lra|]. rewrite IH. lra. }
  transitivity (Rsum (map (fun p => snd p * nth c (nth (fst p) B []) 0) row)).
  - specialize (E row 0). simpl in E. rewrite Rplus_0_l in E. exact E.
  - destruct (OK row Hr) as [ND LT].
    rewrite (stored_sum (fun j => nth c (nth j B []) 0) n row ND LT). f_equal.
    (* map2 over the dense row and the column of B *)
    unfold col_of. rewrite <- LB.
    assert (M : forall (f : nat -> R) (Bl : list (list R)) k,
               map2 (mul R_ops) (map f (seq k (length Bl))) (map (fun r => nth c r (zero R_ops)) Bl)
               = map (fun j => f j * nth c (nth (j - k) Bl []) 0) (seq k (length Bl))).
    { intros f Bl. induction Bl as [|r Bl IH]; intros k; simpl; auto. rewrite Nat.sub_diag. f_equal.
      rewrite IH. apply map_ext_in. intros j Hj. apply in_seq in Hj. replace (j - k)%nat with (S (j - S k)) by lia. reflexivity. }
    rewrite (M (fun j => match s_lookup j row with Some v => v | None => zero R_ops end) B 0%nat).
    apply map_ext. intros j. rewrite Nat.sub_0_r. reflexivity.
Qed.

(** non-vacuity: a well-formed symmetric CSR matrix *)
Example srows_ok_ex : srows_ok 2 [[(0%nat, 1); (1%nat, 2)]; [(0%nat, 2); (1%nat, 3)]] /\
  (forall i j, (i < 2)%nat -> (j < 2)%nat ->
     sval j (nth i [[(0%nat, 1); (1%nat, 2)]; [(0%nat, 2); (1%nat, 3)]] []) =
     sval i (nth j [[(0%nat, 1); (1%nat, 2)]; [(0%nat, 2); (1%nat, 3)]] [])).
Proof.
  split.
  - split; [reflexivity|]. intros row [H|[H|[]]]; subst; (split; [repeat constructor; simpl; intuition congruence|]);
      intros p [H|[H|[]]]; subst; simpl; lia.
  - intros i j Hi Hj. destruct i as [|[|i]]; destruct j as [|[|j]]; try lia; reflexivity.
Qed.
