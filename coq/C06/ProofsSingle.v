(** C06 (T2) - for a valid single-linkage dendrogram the threshold clustering is the set of connected
    components of the graph whose edges are the pairs with dissimilarity below the threshold. *)
From Coq Require Import List NArith Bool Arith Reals Lra Lia Permutation Relations.
From LinfaVerif Require Import Common.Num Common.NdSum C06.Model C06.Proofs.
Import ListNotations.
Local Open Scope R_scope.

Section Single.
Variable n : nat.
Variable D : nat -> nat -> R.          (* pairwise dissimilarities of the samples 0..n-1 *)

(** validity of one step against the cluster map it is applied to: the reported dissimilarity is
    attained between the two merged clusters and no two different live clusters are closer *)
Definition attained (cl : clusters) (s : @step R) : Prop :=
  exists m1 cl1 m2 cl2, remove_key (s_c1 s) cl = Some (m1, cl1) /\ remove_key (s_c2 s) cl1 = Some (m2, cl2) /\
    exists a b, In a m1 /\ In b m2 /\ D a b = s_d s.
Definition minimal (cl : clusters) (s : @step R) : Prop :=
  forall i1 i2, (i1 < length cl)%nat -> (i2 < length cl)%nat -> i1 <> i2 ->
    forall a b, In a (snd (nth i1 cl (0%nat, []))) -> In b (snd (nth i2 cl (0%nat, []))) -> s_d s <= D a b.

Inductive valid_single : clusters -> nat -> list (@step R) -> Prop :=
| vs_nil cl ct : valid_single cl ct []
| vs_cons cl ct s r cl' : attained cl s -> minimal cl s -> merge_step cl ct s = Some cl' ->
    valid_single cl' (S ct) r -> valid_single cl ct (s :: r).

Variable d : R.                        (* the threshold *)
Definition edge (a b : nat) : Prop := (a < n)%nat /\ (b < n)%nat /\ D a b < d.
Definition connected : nat -> nat -> Prop := clos_refl_sym_trans nat edge.

Definition same_cluster (cl : clusters) (a b : nat) : Prop := exists p, In p cl /\ In a (snd p) /\ In b (snd p).
Definition conn_inv (cl : clusters) : Prop := Forall (fun p => forall a b, In a (snd p) -> In b (snd p) -> connected a b) cl.

Lemma init_conn : conn_inv (init_clusters n).
Proof.
  apply Forall_forall. intros p Hp. unfold init_clusters in Hp. apply in_map_iff in Hp as [i [E _]]. subst p. simpl.
  intros a b [Ha|[]] [Hb|[]]. subst. apply rst_refl.
Qed.

Lemma merge_conn cl ct (s : @step R) cl' : attained cl s -> s_d s < d -> good n cl ->
  merge_step cl ct s = Some cl' -> conn_inv cl -> conn_inv cl'.
Proof.
  intros [m1 [cl1 [m2 [cl2 [E1 [E2 [a0 [b0 [Ha0 [Hb0 HD]]]]]]]]]] Hd [P _] M C.
  unfold merge_step in M. rewrite E1, E2 in M. inversion M; subst cl'. clear M.
  destruct (remove_key_forall _ _ _ _ _ E1 C) as [[k1 C1] Q1]. destruct (remove_key_forall _ _ _ _ _ E2 Q1) as [[k2 C2] Q2].
  simpl in C1, C2. apply Forall_app. split; [exact Q2|]. constructor; [|constructor]. simpl.
  assert (Hn : forall x, In x m1 \/ In x m2 -> (x < n)%nat).
  { intros x Hx. assert (In x (concat (map snd cl))).
    { pose proof (remove_key_perm _ _ _ _ E1) as P1. pose proof (remove_key_perm _ _ _ _ E2) as P2.
      apply (Permutation_in _ (Permutation_sym P1)). apply in_or_app. destruct Hx as [Hx|Hx]; [left; exact Hx|].
      right. apply (Permutation_in _ (Permutation_sym P2)). apply in_or_app. left. exact Hx. }
    apply (Permutation_in _ P) in H. apply in_seq in H. lia. }
  assert (Eab : connected a0 b0).
  { apply rst_step. unfold edge. repeat split; [apply Hn; auto|apply Hn; auto|lra]. }
  intros a b Ha Hb. apply in_app_iff in Ha, Hb.
  destruct Ha as [Ha|Ha]; destruct Hb as [Hb|Hb].
  - apply C1; auto.
  - apply rst_trans with a0; [apply C1; auto|]. apply rst_trans with b0; [exact Eab|apply C2; auto].
  - apply rst_sym. apply rst_trans with a0; [apply C1; auto|]. apply rst_trans with b0; [exact Eab|apply C2; auto].
  - apply C2; auto.
Qed.

(** every sample lies in some cluster position *)
Lemma good_covers cl a : good n cl -> (a < n)%nat -> exists i, (i < length cl)%nat /\ In a (snd (nth i cl (0%nat, []))).
Proof.
  intros [P _] Ha. apply in_concat_clusters. apply (Permutation_in _ (Permutation_sym P)). apply in_seq. lia.
Qed.

Lemma no_cross_edges cl (s : @step R) : good n cl -> minimal cl s -> d <= s_d s ->
  forall a b, edge a b -> same_cluster cl a b.
Proof.
  intros G M Hd a b [Ha [Hb Hab]].
  destruct (good_covers cl a G Ha) as [i1 [H1 I1]]. destruct (good_covers cl b G Hb) as [i2 [H2 I2]].
  destruct (Nat.eq_dec i1 i2) as [->|Ne].
  - exists (nth i2 cl (0%nat, [])). split; [apply nth_In; auto|auto].
  - specialize (M i1 i2 H1 H2 Ne a b I1 I2). lra.
Qed.

Lemma single_cluster_all cl : good n cl -> length cl = 1%nat -> forall a b, (a < n)%nat -> (b < n)%nat -> same_cluster cl a b.
Proof.
  intros G L a b Ha Hb.
  destruct (good_covers cl a G Ha) as [i1 [H1 I1]]. destruct (good_covers cl b G Hb) as [i2 [H2 I2]].
  assert (i1 = 0%nat) by lia. assert (i2 = 0%nat) by lia. subst.
  exists (nth 0 cl (0%nat, [])). split; [apply nth_In; lia|auto].
Qed.

(** the replay of a valid single-linkage dendrogram keeps clusters connected and stops only when no
    below-threshold pair is split *)
Lemma replay_components : forall steps cl ct, valid_single cl ct steps -> good n cl -> conn_inv cl ->
  length cl = S (length steps) ->
  forall cl', replay R_ops (CDist d) steps cl ct = Some cl' ->
  good n cl' /\ conn_inv cl' /\ forall a b, edge a b -> same_cluster cl' a b.
Proof.
  intros steps cl ct V. induction V as [cl ct|cl ct s r cl1 At Mi Me V IH]; intros G C L cl' R.
  - simpl in R. inversion R; subst. split; [exact G|]. split; [exact C|].
    intros a b [Ha [Hb _]]. apply single_cluster_all; auto.
  - simpl in R. destruct (Rleb d (s_d s)) eqn:E.
    + inversion R; subst. split; [exact G|]. split; [exact C|]. apply Rleb_true in E.
      eapply no_cross_edges; eauto.
    + apply Rleb_false in E. rewrite Me in R.
      assert (G1 : good n cl1) by (eapply merge_step_good; eauto).
      apply (IH G1); auto.
      * eapply merge_conn; eauto.
      * apply merge_step_length in Me. simpl in L. lia.
Qed.
End Single.

(** the labels of the threshold clustering identify exactly the connected components *)
Lemma single_components n (D : nat -> nat -> R) d (steps : list (@step R)) L :
  valid_single D (init_clusters n) n steps -> length steps = (n - 1)%nat -> (1 <= n)%nat ->
  hier R_ops (CDist d) steps n = Some L ->
  forall i j, (i < n)%nat -> (j < n)%nat -> (nth i L 0%nat = nth j L 0%nat <-> connected n D d i j).
Proof.
  intros V Len Hn H i j Hi Hj.
  destruct (hier_partition R_ops _ _ _ _ H) as [cl [E [_ [S _]]]].
  destruct (replay_components n D d steps (init_clusters n) n V (init_good n) (init_conn n D d)) with (cl' := cl) as [G [C X]]; auto.
  { rewrite init_length, Len. lia. }
  rewrite (S i j Hi Hj). split.
  - intros [p [Hp [Hip Hjp]]]. apply (proj1 (Forall_forall _ _) C p Hp); auto.
  - intros Hc. 
    assert (T : forall a b, connected n D d a b -> (a < n)%nat -> (b < n)%nat -> nth a L 0%nat = nth b L 0%nat).
    { intros a b Hab. induction Hab as [a b Ed|a|a b Hab IH|a b c H1 IH1 H2 IH2]; intros Ha Hb.
      - apply (S a b Ha Hb). apply X. exact Ed.
      - reflexivity.
      - symmetry. apply IH; auto.
      - (* the middle vertex is a sample too *)
        assert (Hbn : (b < n)%nat).
        { clear - H1 Ha. induction H1 as [a b [_ [Hb _]]|a|a b H IH|a b c H1 IH1 H2 IH2]; auto.
          - clear - H Ha. assert (Q : forall u v, clos_refl_sym_trans nat (edge n D d) u v -> ((u < n)%nat <-> (v < n)%nat)).
            { intros u v Huv. induction Huv as [u v [Hu [Hv _]]|u|u v _ IH|u v w _ IH1 _ IH2]; tauto. }
            apply (Q _ _ H). exact Ha. }
        rewrite IH1, IH2; auto. }
    apply (S i j Hi Hj). apply T; auto.
Qed.

(** non-vacuity: a valid single-linkage dendrogram of three samples with D(0,1)=1, D(1,2)=2, D(0,2)=3 *)
Definition D_ex (a b : nat) : R :=
  match a, b with
  | 0%nat, 1%nat | 1%nat, 0%nat => 1
  | 1%nat, 2%nat | 2%nat, 1%nat => 2
  | 0%nat, 2%nat | 2%nat, 0%nat => 3
  | _, _ => 0
  end.

Example valid_single_ex : valid_single D_ex (init_clusters 3) 3 [mkstep 0 1 1 2; mkstep 2 3 2 3].
Proof.
  eapply vs_cons.
  - unfold attained. simpl. do 4 eexists. split; [reflexivity|]. split; [reflexivity|].
    exists 0%nat, 1%nat. simpl. repeat split; auto.
  - unfold minimal. simpl. intros i1 i2 H1 H2 Ne a b Ha Hb.
    destruct i1 as [|[|[|i1]]]; try lia; destruct i2 as [|[|[|i2]]]; try lia; simpl in Ha, Hb;
      destruct Ha as [<-|[]]; destruct Hb as [<-|[]]; simpl; lra.
  - reflexivity.
  - eapply vs_cons.
    + unfold attained. simpl. do 4 eexists. split; [reflexivity|]. split; [reflexivity|].
      exists 2%nat, 1%nat. simpl. repeat split; auto.
    + unfold minimal. simpl. intros i1 i2 H1 H2 Ne a b Ha Hb.
      destruct i1 as [|[|i1]]; try lia; destruct i2 as [|[|i2]]; try lia; simpl in Ha, Hb;
        repeat (destruct Ha as [<-|Ha]); try tauto; repeat (destruct Hb as [<-|Hb]); try tauto; simpl; lra.
    + reflexivity.
    + apply vs_nil.
Qed.
