(** C09 - correspondence and property oracle.  One generic evaluator, instantiated with the
    binary64 arithmetic (PrimFloat, against `KMeans<f64>`) and with the binary32 arithmetic
    (SpecFloat at precision 24, against `KMeans<f32>`). *)
From Coq Require Import List NArith ZArith Bool Floats SpecFloat.
From LinfaVerif Require Export Common.Num Common.NdSum Common.Run Common.B32 C09.Model C09.ModelExt.
Import ListNotations.

(** what the evaluator needs beyond NumOps *)
Record xops (T : Type) := mkX {
  x_o : NumOps T;
  x_fmt : sample_fmt T;
  x_eq : T -> T -> bool;      (* bit equality *)
  x_fin : T -> bool;
  x_nan : T;
  x_slack : T                 (* relative rounding slack of the float-evaluated order oracles *)
}.
Arguments x_o {T}. Arguments x_fmt {T}. Arguments x_eq {T}. Arguments x_fin {T}.
Arguments x_nan {T}. Arguments x_slack {T}.

Definition sf_finite (x : spec_float) : bool :=
  match x with S754_finite _ _ _ | S754_zero _ => true | _ => false end.

Definition x64 : xops float :=
  {| x_o := B64_ops; x_fmt := {| sf_mant := 52; sf_pred := PrimFloat.next_down |};
     x_eq := f64_biteq; x_fin := fun v => sf_finite (Prim2SF v); x_nan := nan;
     x_slack := 0x1p-40%float |}.

(** `L2Dist::distance` at f32 is `F::from(a.l2_dist(&b).unwrap())`: ndarray-stats widens the f32
    squared distance to f64 (exact), takes the f64 square root and linfa-nn rounds the result back
    to f32.  All other operations are plain f32 operations. *)
Definition sqrt32_via64 (v : spec_float) : spec_float := b32_of_b64 (SFsqrt 53 1024 v).

Definition B32km_ops : NumOps spec_float :=
  {| zero := zero B32_ops; one := one B32_ops;
     add := add B32_ops; sub := sub B32_ops; mul := mul B32_ops; div := div B32_ops;
     opp := opp B32_ops; abs := abs B32_ops; sqrt := sqrt32_via64;
     ltb := ltb B32_ops; leb := leb B32_ops; eqb := eqb B32_ops; of_N := of_N B32_ops |}.

Definition x32 : xops spec_float :=
  {| x_o := B32km_ops; x_fmt := {| sf_mant := 23; sf_pred := SFpred p32 e32 |};
     x_eq := b32_biteq; x_fin := sf_finite; x_nan := S754_nan;
     x_slack := S754_finite false 8388608 (-37) (* 2^-14 *) |}.

(** f32 values cross as IEEE bit patterns *)
Definition b32 (z : Z) : spec_float := b32_of_bits z.

Inductive initspec (T : Type) :=
| InitGiven (inits : list (list (list T)))    (* Precomputed: the initial centroids are an input *)
| InitRandom (inits : list (list (list T)))   (* Random: rows selected by index samples the harness replayed *)
| InitPlusPlus (runs : N) (words : list N)    (* KMeansPlusPlus: the generator's raw next_u64 words *)
| InitPara1 (runs : N) (words : list N)       (* KMeansPara fitted inside a one-thread rayon pool: the
                                                 parameter generator's raw next_u64 words *)
| InitHidden.                                 (* KMeansPara in a multi-thread pool: the task split is
                                                 not a function of the input, property oracle only *)
Arguments InitGiven {T}. Arguments InitRandom {T}. Arguments InitPlusPlus {T}. Arguments InitPara1 {T}. Arguments InitHidden {T}.

Record fitcase (T : Type) := {
  fc_fuel : N;                       (* max_n_iterations *)
  fc_tol : T;
  fc_init : initspec T;
  fc_k : N;
  (* implementation outputs *)
  fc_centroids : list (list T);
  fc_counts : list T;
  fc_inertia : T;
  fc_query : list (list T);
  fc_predict : list N;             (* predict on the query matrix *)
  fc_predict1 : list N;            (* predict on every query row separately (the Ix1 form) *)
  fc_transform : list T
}.
Arguments fc_fuel {T}. Arguments fc_tol {T}. Arguments fc_init {T}. Arguments fc_k {T}.
Arguments fc_centroids {T}. Arguments fc_counts {T}. Arguments fc_inertia {T}.
Arguments fc_query {T}. Arguments fc_predict {T}. Arguments fc_predict1 {T}. Arguments fc_transform {T}.

Record gcase (T : Type) := {
  c_id : N;
  c_metric : metric;
  c_X : list (list T);
  c_bbox : bool;          (* initial centroids are taken from / inside the data: check the bounding box *)
  c_series : N;           (* 0 none; 1 = budgets grow (cost must not increase, L2 only);
                             2 = restarts grow (reported inertia must not increase) *)
  c_fits : list (fitcase T)
}.
Arguments c_id {T}. Arguments c_metric {T}. Arguments c_X {T}. Arguments c_bbox {T}.
Arguments c_series {T}. Arguments c_fits {T}.

Inductive case := Case64 (c : gcase float) | Case32 (c : gcase spec_float).

Fixpoint zip3 {A B C} (a : list A) (b : list B) (c : list C) : list (A * B * C) :=
  match a, b, c with
  | x :: a', y :: b', z :: c' => (x, y, z) :: zip3 a' b' c'
  | _, _, _ => []
  end.

Definition lor_list (l : list N) : N := fold_left N.lor l 0%N.

Section Eval.
Context {T : Type} (x : xops T).
Let o := x_o x.

Definition rows_eqb (a b : list (list T)) : bool := list_eqb (list_eqb (x_eq x)) a b.

Definition inits_of (m : metric) (X : list (list T)) (fc : fitcase T) : option (list (list (list T))) :=
  match fc_init fc with
  | InitGiven l => Some l
  | InitRandom l => Some l
  | InitPlusPlus runs words =>
      Some (plusplus_inits o (x_fmt x) m X (N.to_nat (fc_k fc)) (N.to_nat runs) words)
  | InitPara1 runs words =>
      Some (para_inits1 o (x_fmt x) m X (N.to_nat (fc_k fc)) (N.to_nat runs) words)
  | InitHidden => None
  end.

(* ---- correspondence: model = implementation, bit for bit; iteration budget ---- *)

(* the least j >= 1 with step^j(init_r) = target, for the first restart r that has one within the
   budget: which restart the returned centroids come from and how many Lloyd iterations it performed,
   as far as the returned centroids show it *)
Fixpoint find_iter (target : list (list T)) (its : list (list (list T))) (j : N) : option N :=
  match its with
  | [] => None
  | c :: r => if rows_eqb c target then Some j else find_iter target r (N.succ j)
  end.
Fixpoint find_restart (target : list (list T)) (its_all : list (list (list (list T)))) (r : N)
  : option (N * N) :=
  match its_all with
  | [] => None
  | its :: rest =>
      match find_iter target its 1 with
      | Some j => Some (r, j)
      | None => find_restart target rest (N.succ r)
      end
  end.
Definition opt_eqb (a b : option (N * N)) : bool :=
  match a, b with
  | None, None => true
  | Some (r, j), Some (r', j') => N.eqb r r' && N.eqb j j'
  | _, _ => false
  end.

(* (correspondence bits of the fit, oracle bit 2048).  The model is the literal two-loop model
   [fit_whole] (equal to [fit] by C09/Properties.v fit_whole_is_fit).  Oracle 2048: the returned
   centroids must be the result of at least one and at most max_n_iterations m_k-means steps from the
   initialisation of one of the restarts (Properties.v fit_run_uses_own_budget,
   fit_returns_iterate_within_budget) - judged on the implementation's output alone, and only where
   the initial centroids are an input of the fit (Precomputed); where the model derives them from
   replayed random draws the same comparison is part of the correspondence (bit 32) only. *)
Definition fit_codes (m : metric) (X : list (list T)) (fc : fitcase T) : N * N :=
  match inits_of m X fc with
  | None => (0%N, 0%N)
  | Some inits =>
      let its_all := map (fun i => iterates o (N.to_nat (fc_fuel fc)) m i X) inits in
      let seen := find_restart (fc_centroids fc) its_all 0 in
      let orc := match fc_init fc, seen with InitGiven _, None => 2048%N | _, _ => 0%N end in
      match fst (fit_whole o m (fc_tol fc) (fc_fuel fc) (N.to_nat (fc_k fc)) inits X) with
      | None => (1%N, orc)
      | Some f =>
          ((flag (rows_eqb (f_centroids f) (fc_centroids fc)) 1
            + flag (list_eqb (x_eq x) (f_counts f) (fc_counts fc)) 2
            + flag (x_eq x (f_inertia f) (fc_inertia fc)) 4
            + flag (opt_eqb seen (find_restart (f_centroids f) its_all 0)) 32)%N, orc)
      end
  end.

Definition corr_query (m : metric) (fc : fitcase T) : N :=
  let p := map N.of_nat (predict o m (fc_centroids fc) (fc_query fc)) in
  (flag (list_eqb N.eqb p (fc_predict fc)) 8
   + flag (list_eqb (x_eq x) (transform o m (fc_centroids fc) (fc_query fc)) (fc_transform fc)) 16
   + flag (list_eqb N.eqb p (fc_predict1 fc)) 64)%N.

(* ---- property oracle on the implementation's output ---- *)
Definition col_minmax (rows : list (list T)) (j : nat) : T * T :=
  match rows with
  | [] => (x_nan x, x_nan x)
  | r0 :: _ =>
      fold_left (fun mm r => let v := nth j r (x_nan x) in
                             ((if ltb o v (fst mm) then v else fst mm),
                              (if ltb o (snd mm) v then v else snd mm)))
                rows (nth j r0 (x_nan x), nth j r0 (x_nan x))
  end.

Definition in_bbox (pts : list (list T)) (c : list T) : bool :=
  forallb (fun j => let '(lo, hi) := col_minmax pts j in
                    (* rounding slack: relative to the box width and to the magnitude of its ends
                       (the float mean of equal values may differ from them in the last bits) *)
                    let mag := if ltb o (abs o lo) (abs o hi) then abs o hi else abs o lo in
                    let w := add o (mul o (sub o hi lo) (x_slack x)) (mul o mag (x_slack x)) in
                    let v := nth j c (x_nan x) in
                    leb o (sub o lo w) v && leb o v (add o hi w))
          (seq 0 (length c)).

(* the returned index attains the minimal reduced distance and the returned distance is that one *)
Definition argmin_ok (m : metric) (cs : list (list T)) (q : list T) (p : N) (d : T) : bool :=
  match nth_error cs (N.to_nat p) with
  | None => false
  | Some c =>
      let dp := rdist o m c q in
      x_eq x dp d && forallb (fun c' => leb o dp (rdist o m c' q)) cs
  end.

Definition oracle_fit (m : metric) (bbox : bool) (X : list (list T)) (fc : fitcase T) : N :=
  let cs := fc_centroids fc in
  let d := match X with [] => 0%nat | r :: _ => length r end in
  let k := N.to_nat (fc_k fc) in
  let n := length X in
  let a := assign o m cs X in
  let allpts := X ++ match fc_init fc with InitGiven l => concat l | _ => [] end in
  (flag (Nat.eqb (length cs) k && forallb (fun c => Nat.eqb (length c) d) cs) 1
   + flag (forallb (forallb (x_fin x)) cs) 2
   + flag (negb bbox || forallb (in_bbox allpts) cs) 4
   + flag (list_eqb (x_eq x) (count_members o k (map fst a)) (fc_counts fc)) 8
   + flag (x_eq x (seq_sum o (fc_counts fc)) (of_N o (N.of_nat n))) 16
   + flag (x_eq x (div o (usum o (map snd a)) (of_N o (N.of_nat n))) (fc_inertia fc)) 32
   + flag (Nat.eqb (length (fc_predict fc)) (length (fc_query fc))
           && Nat.eqb (length (fc_transform fc)) (length (fc_query fc))
           && Nat.eqb (length (fc_predict1 fc)) (length (fc_query fc))
           && forallb (fun t => let '(q, p, dd) := t in argmin_ok m cs q p dd)
                      (zip3 (fc_query fc) (fc_predict fc) (fc_transform fc))
           && forallb (fun t => let '(q, p, dd) := t in argmin_ok m cs q p dd)
                      (zip3 (fc_query fc) (fc_predict1 fc) (fc_transform fc))) 64)%N.

Definition cost_of (m : metric) (X : list (list T)) (fc : fitcase T) : T :=
  cost o m (fc_centroids fc) X.

(* rounding slack of the float-evaluated cost comparison: relative to the cost itself and to the
   squared magnitude of the data (a centroid that is off by a few ulps of its coordinates moves the
   cost by about that much; e.g. the float mean of seven equal values need not be that value) *)
Fixpoint nonincreasing (slk ref : T) (xs : list T) : bool :=
  match xs with
  | a :: (b :: _) as r =>
      leb o b (add o a (mul o (add o (abs o a) ref) slk)) && nonincreasing slk ref r
  | _ => true
  end.

Definition sq_magnitude (X : list (list T)) : T :=
  seq_sum o (map (fun r => seq_sum o (map (fun v => mul o v v) r)) X).

Definition oracle_series (c : gcase T) : N :=
  match c_series c with
  | 1%N => flag (nonincreasing (x_slack x) (sq_magnitude (c_X c))
                               (map (cost_of (c_metric c) (c_X c)) (c_fits c))) 256
  | 2%N => flag (nonincreasing (zero o) (zero o) (map fc_inertia (c_fits c))) 512
  | _ => 0%N
  end.

Definition run_gcase (c : gcase T) : verdict :=
   let codes := map (fit_codes (c_metric c) (c_X c)) (c_fits c) in
   (c_id c,
    (N.lor (lor_list (map fst codes)) (lor_list (map (corr_query (c_metric c)) (c_fits c))),
     N.lor (N.lor (lor_list (map snd codes)) (lor_list (map (oracle_fit (c_metric c) (c_bbox c) (c_X c)) (c_fits c))))
           (oracle_series c))).

End Eval.

Definition run_case (c : case) : verdict :=
  match c with
  | Case64 g => run_gcase x64 g
  | Case32 g => run_gcase x32 g
  end.

Definition run_cases (cs : list case) : list N := report (map run_case cs).
