(** C09 - correspondence and property oracle, evaluated with the binary64 instance. *)
From Coq Require Import List NArith ZArith Bool Floats.
From LinfaVerif Require Export Common.Num Common.NdSum Common.Run C09.Model.
Import ListNotations.

Definition o64 := B64_ops.

Record fitcase := {
  fc_fuel : N;                       (* max_n_iterations *)
  fc_tol : float;
  fc_inits : list (list (list float));   (* one initial centroid matrix per run; [] = not observable *)
  fc_k : N;
  (* implementation outputs *)
  fc_centroids : list (list float);
  fc_counts : list float;
  fc_inertia : float;
  fc_query : list (list float);
  fc_predict : list N;
  fc_transform : list float
}.

Record case := {
  c_id : N;
  c_metric : metric;
  c_X : list (list float);
  c_bbox : bool;          (* initial centroids are taken from / inside the data: check the bounding box *)
  c_series : N;           (* 0 none; 1 = budgets grow (cost must not increase, L2 only);
                             2 = restarts grow (reported inertia must not increase) *)
  c_fits : list fitcase
}.

Definition rows_eqb (a b : list (list float)) : bool := list_eqb (list_eqb f64_biteq) a b.
Definition nat_N_eqb (a : nat) (b : N) : bool := N.eqb (N.of_nat a) b.

(* ---- correspondence: model = implementation, bit for bit ---- *)
Definition corr_fit (m : metric) (X : list (list float)) (fc : fitcase) : N :=
  match fc_inits fc with
  | [] => 0%N
  | inits =>
      match fit o64 m (fc_tol fc) (N.to_nat (fc_fuel fc)) (N.to_nat (fc_k fc)) inits X with
      | None => 1%N
      | Some f =>
          (flag (rows_eqb (f_centroids f) (fc_centroids fc)) 1
           + flag (list_eqb f64_biteq (f_counts f) (fc_counts fc)) 2
           + flag (f64_biteq (f_inertia f) (fc_inertia fc)) 4)%N
      end
  end.

Definition corr_query (m : metric) (fc : fitcase) : N :=
  (flag (list_eqb N.eqb (map N.of_nat (predict o64 m (fc_centroids fc) (fc_query fc))) (fc_predict fc)) 8
   + flag (list_eqb f64_biteq (transform o64 m (fc_centroids fc) (fc_query fc)) (fc_transform fc)) 16)%N.

(* ---- property oracle on the implementation's output ---- *)
Definition is_finite (x : float) : bool :=
  match Prim2SF x with S754_finite _ _ _ | S754_zero _ => true | _ => false end.

Definition col_minmax (rows : list (list float)) (j : nat) : float * float :=
  fold_left (fun mm r => let v := nth j r nan in
                         ((if PrimFloat.ltb v (fst mm) then v else fst mm),
                          (if PrimFloat.ltb (snd mm) v then v else snd mm)))
            rows (infinity, neg_infinity).

Definition slack : float := 0x1p-40%float.

Definition in_bbox (pts : list (list float)) (c : list float) : bool :=
  forallb (fun j => let '(lo, hi) := col_minmax pts j in
                    (* rounding slack: relative to the box width and to the magnitude of its ends
                       (the float mean of equal values may differ from them in the last bits) *)
                    let mag := if PrimFloat.ltb (PrimFloat.abs lo) (PrimFloat.abs hi) then PrimFloat.abs hi else PrimFloat.abs lo in
                    let w := PrimFloat.add (PrimFloat.mul (PrimFloat.sub hi lo) slack) (PrimFloat.mul mag slack) in
                    let v := nth j c nan in
                    PrimFloat.leb (PrimFloat.sub lo w) v && PrimFloat.leb v (PrimFloat.add hi w))
          (seq 0 (length c)).

(* the returned index attains the minimal reduced distance and the returned distance is that one *)
Definition argmin_ok (m : metric) (cs : list (list float)) (x : list float) (p : N) (d : float) : bool :=
  match nth_error cs (N.to_nat p) with
  | None => false
  | Some c =>
      let dp := rdist o64 m c x in
      f64_biteq dp d && forallb (fun c' => PrimFloat.leb dp (rdist o64 m c' x)) cs
  end.

Fixpoint zip3 {A B C} (a : list A) (b : list B) (c : list C) : list (A * B * C) :=
  match a, b, c with
  | x :: a', y :: b', z :: c' => (x, y, z) :: zip3 a' b' c'
  | _, _, _ => []
  end.

Definition oracle_fit (m : metric) (bbox : bool) (X : list (list float)) (fc : fitcase) : N :=
  let cs := fc_centroids fc in
  let d := match X with [] => 0%nat | x :: _ => length x end in
  let k := N.to_nat (fc_k fc) in
  let n := length X in
  let a := assign o64 m cs X in
  let allpts := X ++ concat (fc_inits fc) in
  (flag (Nat.eqb (length cs) k && forallb (fun c => Nat.eqb (length c) d) cs) 1
   + flag (forallb (forallb is_finite) cs) 2
   + flag (negb bbox || forallb (in_bbox allpts) cs) 4
   + flag (list_eqb f64_biteq (count_members o64 k (map fst a)) (fc_counts fc)) 8
   + flag (f64_biteq (seq_sum o64 (fc_counts fc)) (of_N o64 (N.of_nat n))) 16
   + flag (f64_biteq (PrimFloat.div (usum o64 (map snd a)) (of_N o64 (N.of_nat n))) (fc_inertia fc)) 32
   + flag (Nat.eqb (length (fc_predict fc)) (length (fc_query fc))
           && Nat.eqb (length (fc_transform fc)) (length (fc_query fc))
           && forallb (fun t => let '(x, p, dd) := t in argmin_ok m cs x p dd)
                      (zip3 (fc_query fc) (fc_predict fc) (fc_transform fc))) 64)%N.

Definition cost_of (m : metric) (X : list (list float)) (fc : fitcase) : float :=
  cost o64 m (fc_centroids fc) X.

Fixpoint nonincreasing (slk : float) (xs : list float) : bool :=
  match xs with
  | a :: (b :: _) as r =>
      PrimFloat.leb b (PrimFloat.add a (PrimFloat.mul (PrimFloat.abs a) slk)) && nonincreasing slk r
  | _ => true
  end.

Definition oracle_series (c : case) : N :=
  match c_series c with
  | 1%N => flag (nonincreasing slack (map (cost_of (c_metric c) (c_X c)) (c_fits c))) 256
  | 2%N => flag (nonincreasing 0%float (map fc_inertia (c_fits c))) 512
  | _ => 0%N
  end.

Definition lor_list (l : list N) : N := fold_left N.lor l 0%N.

Definition run_case (c : case) : verdict :=
  (c_id c,
   (lor_list (map (fun fc => N.lor (corr_fit (c_metric c) (c_X c) fc) (corr_query (c_metric c) fc)) (c_fits c)),
    N.lor (lor_list (map (oracle_fit (c_metric c) (c_bbox c) (c_X c)) (c_fits c))) (oracle_series c))).

Definition run_cases (cs : list case) : list N := report (map run_case cs).
