(** C09 - lemmas about the second part of the model (C09/ModelExt.v): the whole fit as two nested
    loops with a per-restart iteration counter, and the k-means|| initialiser. *)
From Coq Require Import List NArith Bool Reals Lra Lia Arith Floats.
From LinfaVerif Require Import Common.Num Common.NdSum C09.Model C09.ModelExt C09.Proofs C09.Cost
  C09.Fixed C09.InitProofs.
Import ListNotations.

(** * The whole fit (any arithmetic) *)
Section WholeFacts.
Context {F : Type} (o : NumOps F).

(** the counter loop started [gas >= 1] iterations below the budget is the fuel-bounded loop of
    C09/Model.v, and it stops with the counter strictly above its start and at most at the budget *)
Lemma lloyd_loop_spec m tol X : forall gas n_iter cs, (1 <= gas)%nat ->
  fst (lloyd_loop o gas m tol (n_iter + N.of_nat gas) n_iter cs X) = lloyd o m tol gas cs X /\
  (n_iter < snd (lloyd_loop o gas m tol (n_iter + N.of_nat gas) n_iter cs X) <= n_iter + N.of_nat gas)%N.
Proof.
  induction gas as [|g IH]; intros n_iter cs Hg; [lia|].
  cbn [lloyd_loop lloyd]. destruct g as [|g'].
  - replace (N.eqb (N.succ n_iter) (n_iter + N.of_nat 1)) with true by (symmetry; apply N.eqb_eq; lia).
    rewrite orb_true_r. cbn [fst snd lloyd]. split; [destruct (ltb o _ tol); reflexivity | lia].
  - replace (N.eqb (N.succ n_iter) (n_iter + N.of_nat (S (S g')))) with false
      by (symmetry; apply N.eqb_neq; lia).
    rewrite orb_false_r. destruct (ltb o _ tol); cbn [fst snd]; [split; [reflexivity | lia]|].
    replace (n_iter + N.of_nat (S (S g')))%N with (N.succ n_iter + N.of_nat (S g'))%N by lia.
    destruct (IH (N.succ n_iter) (step o m cs X)) as [H1 H2]; [lia|]. split; [exact H1 | lia].
Qed.

Lemma lloyd_loop_from_zero m tol max cs X : (1 <= max)%N ->
  fst (lloyd_loop o (N.to_nat max) m tol max 0 cs X) = lloyd o m tol (N.to_nat max) cs X /\
  (1 <= snd (lloyd_loop o (N.to_nat max) m tol max 0 cs X) <= max)%N.
Proof.
  intros H. pose proof (lloyd_loop_spec m tol X (N.to_nat max) 0%N cs) as G.
  rewrite N2Nat.id, N.add_0_l in G. destruct G as [G1 G2]; [lia|]. split; [exact G1 | lia].
Qed.

Lemma iters_alone_bounds m tol max init X : (1 <= max)%N ->
  (1 <= iters_alone o m tol max init X <= max)%N.
Proof. intros H. apply (lloyd_loop_from_zero m tol max init X H). Qed.

(** one pass through the body of the restart loop *)
Lemma restart_body_true m tol max X best n its init : (1 <= max)%N ->
  restart_body o true (N.to_nat max) m tol max X (best, (n, its)) init =
  (better o best (one_run o m tol (N.to_nat max) init X),
   (iters_alone o m tol max init X, its ++ [iters_alone o m tol max init X])).
Proof.
  intros H. unfold restart_body, iters_alone.
  pose proof (proj1 (lloyd_loop_from_zero m tol max init X H)) as E.
  destruct (lloyd_loop o (N.to_nat max) m tol max 0 init X) as [cs n']. cbn [fst snd] in *.
  rewrite N.sub_0_r. subst cs. reflexivity.
Qed.

Lemma restart_loop_true m tol max X : (1 <= max)%N -> forall inits best n its, exists n',
  fold_left (restart_body o true (N.to_nat max) m tol max X) inits (best, (n, its)) =
  (fold_left (fun b init => better o b (one_run o m tol (N.to_nat max) init X)) inits best,
   (n', its ++ map (fun init => iters_alone o m tol max init X) inits)).
Proof.
  intros H. induction inits as [|i inits IH]; intros best n its.
  - exists n. cbn [fold_left map]. rewrite app_nil_r. reflexivity.
  - cbn [fold_left]. rewrite (restart_body_true m tol max X best n its i H).
    destruct (IH (better o best (one_run o m tol (N.to_nat max) i X)) (iters_alone o m tol max i X)
                 (its ++ [iters_alone o m tol max i X])) as [n' E].
    exists n'. rewrite E. cbn [map]. rewrite <- app_assoc. reflexivity.
Qed.

(** the two-loop model computes what [fit] computes ... *)
Lemma fit_whole_fit m tol max k inits X : (1 <= max)%N ->
  fst (fit_whole o m tol max k inits X) = fit o m tol (N.to_nat max) k inits X.
Proof.
  intros H. unfold fit_whole, restart_loop.
  destruct (restart_loop_true m tol max X H inits None 0%N []) as [n' ->].
  cbn [fst snd]. unfold fit, restarts, finish. reflexivity.
Qed.

(** ... and every restart performs the iterations it would perform alone *)
Lemma fit_whole_iters m tol max k inits X : (1 <= max)%N ->
  snd (fit_whole o m tol max k inits X) = map (fun init => iters_alone o m tol max init X) inits.
Proof.
  intros H. unfold fit_whole, restart_loop.
  destruct (restart_loop_true m tol max X H inits None 0%N []) as [n' ->]. reflexivity.
Qed.

(** iterates *)
Lemma iterates_length m X : forall n cs, length (iterates o n m cs X) = n.
Proof. induction n as [|n IH]; intros cs; cbn [iterates length]; [reflexivity | rewrite IH; reflexivity]. Qed.

Lemma iter_shift {A} (f : A -> A) : forall n x, Nat.iter n f (f x) = f (Nat.iter n f x).
Proof. induction n as [|n IH]; intros x; [reflexivity|]. change (f (Nat.iter n f (f x)) = f (f (Nat.iter n f x))). rewrite IH. reflexivity. Qed.

Lemma iterates_nth m X : forall n j cs, (j < n)%nat ->
  nth_error (iterates o n m cs X) j = Some (Nat.iter (S j) (fun c => step o m c X) cs).
Proof.
  induction n as [|n IH]; intros j cs Hj; [lia|]. cbn [iterates]. destruct j as [|j].
  - reflexivity.
  - cbn [nth_error]. rewrite IH by lia. f_equal.
    rewrite (iter_shift (fun c => step o m c X) (S j) cs). reflexivity.
Qed.

Lemma lloyd_in_iterates m tol X : forall fuel cs, (1 <= fuel)%nat ->
  In (lloyd o m tol fuel cs X) (iterates o fuel m cs X).
Proof.
  induction fuel as [|f IH]; intros cs Hf; [lia|]. cbn [lloyd iterates].
  destruct (ltb o _ tol); [left; reflexivity|].
  destruct f as [|f']; [left; reflexivity|]. right. apply IH. lia.
Qed.

(** the run that wins is the run of one of the initialisations *)
Lemma restarts_from m tol fuel X : forall inits best r,
  fold_left (fun b init => better o b (one_run o m tol fuel init X)) inits best = Some r ->
  best = Some r \/ exists init, In init inits /\ r = one_run o m tol fuel init X.
Proof.
  induction inits as [|i inits IH]; intros best r H; cbn [fold_left] in H; [left; exact H|].
  destruct (IH _ _ H) as [E|[init [Hi E]]].
  - destruct best as [b|]; cbn [better] in E.
    + destruct (ltb o _ _); [right; exists i; split; [left; reflexivity | congruence] | left; exact E].
    + right; exists i; split; [left; reflexivity | congruence].
  - right; exists init; split; [right; exact Hi | exact E].
Qed.

Lemma fit_from m tol fuel k inits X f : fit o m tol fuel k inits X = Some f ->
  exists init, In init inits /\ f_centroids f = lloyd o m tol fuel init X.
Proof.
  unfold fit, restarts. destruct (fold_left _ inits None) as [r|] eqn:E; [|discriminate].
  intros H; inversion H; subst; clear H. cbn [f_centroids].
  destruct (restarts_from m tol fuel X inits None r E) as [E'|[init [Hi ->]]]; [discriminate|].
  exists init; split; [exact Hi | reflexivity].
Qed.

Lemma fit_iterate_within_budget m tol fuel k inits X f : (1 <= fuel)%nat ->
  fit o m tol fuel k inits X = Some f ->
  exists init, In init inits /\ In (f_centroids f) (iterates o fuel m init X).
Proof.
  intros Hf H. destruct (fit_from m tol fuel k inits X f H) as [init [Hi ->]].
  exists init; split; [exact Hi | apply lloyd_in_iterates; exact Hf].
Qed.

(** restarts that all start from the same centroids: the first one is kept (Precomputed + n_runs) *)
Lemma restarts_one_init m tol fuel init X n :
  restarts o m tol fuel (repeat init (S n)) X = Some (one_run o m tol fuel init X).
Proof.
  unfold restarts. cbn [repeat fold_left better].
  induction n as [|n IH]; cbn [repeat fold_left]; [reflexivity|].
  cbn [better]. destruct (ltb o _ _); exact IH.
Qed.

Lemma fit_one_init m tol fuel k init X n :
  fit o m tol fuel k (repeat init (S n)) X = fit o m tol fuel k [init] X.
Proof.
  unfold fit. change [init] with (repeat init 1).
  rewrite (restarts_one_init m tol fuel init X n), (restarts_one_init m tol fuel init X 0). reflexivity.
Qed.

End WholeFacts.

(** * Restarts and the budget over the reals *)
Local Open Scope R_scope.
Local Notation len d := (fun x : list R => length x = d).

Lemma one_run_inertia_cost m tol fuel init (X : list (list R)) :
  r_inertia (one_run oR m tol fuel init X) = cost oR m (lloyd oR m tol fuel init X) X.
Proof.
  cbn [one_run r_inertia]. rewrite usum_seq_sum. unfold cost, transform, assign. rewrite map_map. reflexivity.
Qed.

Lemma restarts_le_all m tol fuel (X : list (list R)) : forall inits best r,
  fold_left (fun b init => better oR b (one_run oR m tol fuel init X)) inits best = Some r ->
  (forall b, best = Some b -> r_inertia r <= r_inertia b) /\
  (forall init, In init inits -> r_inertia r <= r_inertia (one_run oR m tol fuel init X)).
Proof.
  induction inits as [|i inits IH]; intros best r H; cbn [fold_left] in H.
  - split; [intros b Hb; rewrite Hb in H; inversion H; lra | intros init []].
  - destruct (IH _ _ H) as [H1 H2].
    destruct (better_some oR best (one_run oR m tol fuel i X)) as [r0 E0].
    destruct (better_le best _ r0 E0) as [G1 G2]. specialize (H1 r0 E0).
    split.
    + intros b Hb. specialize (G2 b Hb). lra.
    + intros init [<-|Hin]; [lra | apply H2; exact Hin].
Qed.

(** a fixed sequence of initialisations, a larger budget for every restart: the kept inertia - which is
    the L2 cost of the returned centroids - does not increase *)
Lemma restarts_budget_R tol fuel fuel' (inits : list (list (list R))) (X : list (list R)) d r r' :
  (fuel <= fuel')%nat -> Forall (len d) X ->
  (forall i, In i inits -> i <> [] /\ Forall (len d) i) ->
  restarts oR L2 tol fuel inits X = Some r -> restarts oR L2 tol fuel' inits X = Some r' ->
  r_inertia r' <= r_inertia r /\
  cost oR L2 (r_centroids r') X <= cost oR L2 (r_centroids r) X.
Proof.
  intros Hf HX Hi E E'. unfold restarts in E, E'.
  assert (C : forall fl rr, fold_left (fun b init => better oR b (one_run oR L2 tol fl init X)) inits None = Some rr ->
              r_inertia rr = cost oR L2 (r_centroids rr) X).
  { intros fl rr Err. destruct (restarts_describes oR L2 tol fl X inits None rr) as [_ G]; [discriminate | exact Err|].
    rewrite G, usum_seq_sum. unfold cost, transform, assign. rewrite map_map. reflexivity. }
  assert (G : r_inertia r' <= r_inertia r).
  { destruct (restarts_from oR L2 tol fuel X inits None r E) as [E0|[init [Hin ->]]]; [discriminate|].
    destruct (restarts_le_all L2 tol fuel' X inits None r' E') as [_ H2]. specialize (H2 init Hin).
    rewrite one_run_inertia_cost in *. eapply Rle_trans; [exact H2|].
    destruct (Hi init Hin) as [Hne Hd]. apply (lloyd_budget_R tol X d HX fuel fuel' init Hf Hne Hd). }
  split; [exact G|]. rewrite <- (C fuel' r' E'), <- (C fuel r E). exact G.
Qed.

(** * k-means|| *)
Section ParaFacts.
Context {F : Type} (o : NumOps F) (fmt : sample_fmt F).
Context (first_of : list N -> nat -> nat * list N).
Context (round_of : list N -> nat -> list F * list N).

Lemma para_select_rows X : forall probs us c, In c (para_select o X probs us) -> In c X.
Proof.
  induction X as [|x X IH]; intros probs us c H; cbn [para_select] in H; [contradiction|].
  destruct probs as [|p ps]; [contradiction|]. destruct us as [|u us']; [contradiction|].
  destruct (ltb o u p); [destruct H as [<-|H]; [left; reflexivity | right; eapply IH; exact H]
                        | right; eapply IH; exact H].
Qed.

Lemma para_append_rows (P : list F -> Prop) cap : forall new cands,
  (forall c, In c cands -> P c) -> (forall c, In c new -> P c) ->
  forall c, In c (fst (para_append cap cands new)) -> P c.
Proof.
  induction new as [|x new IH]; intros cands Hc Hn c H; cbn [para_append fst] in H; [auto|].
  assert (Hc' : forall c0, In c0 (cands ++ [x]) -> P c0).
  { intros c0 H0. apply in_app_or in H0 as [H0|[<-|[]]]; [auto | apply Hn; left; reflexivity]. }
  destruct (Nat.leb cap (length (cands ++ [x]))); cbn [fst] in H; [auto|].
  eapply IH; [exact Hc' | intros; apply Hn; right; assumption | exact H].
Qed.

Lemma para_append_nonempty cap : forall (new cands : list (list F)), cands <> [] -> fst (para_append cap cands new) <> [].
Proof.
  induction new as [|x new IH]; intros cands H; cbn [para_append fst]; [exact H|].
  assert (H' : cands ++ [x] <> []) by (destruct cands; discriminate).
  destruct (Nat.leb cap (length (cands ++ [x]))); cbn [fst]; [exact H' | apply IH; exact H'].
Qed.

Lemma para_rounds_rows m X k cap : forall rounds cands words,
  (forall c, In c cands -> In c X) ->
  forall c, In c (fst (para_rounds o round_of rounds m X k cap cands words)) -> In c X.
Proof.
  induction rounds as [|r IH]; intros cands words Hc c H; cbn [para_rounds] in H; [auto|].
  destruct (round_of words (length X)) as [us words'].
  pose proof (para_append_rows (fun c => In c X) cap
    (para_select o X (para_probs o k (transform o m cands X)) us) cands Hc
    (para_select_rows X _ us)) as Ha.
  destruct (para_append cap cands _) as [cands' full]. cbn [fst] in Ha.
  destruct full; [apply Ha; exact H | eapply IH; [exact Ha | exact H]].
Qed.

Lemma para_rounds_nonempty m X k cap : forall rounds cands words, cands <> [] ->
  fst (para_rounds o round_of rounds m X k cap cands words) <> [].
Proof.
  induction rounds as [|r IH]; intros cands words Hc; cbn [para_rounds]; [exact Hc|].
  destruct (round_of words (length X)) as [us words'].
  pose proof (para_append_nonempty cap
    (para_select o X (para_probs o k (transform o m cands X)) us) cands Hc) as Ha.
  destruct (para_append cap cands _) as [cands' full]. cbn [fst] in Ha.
  destruct full; [exact Ha | apply IH; exact Ha].
Qed.

(** every candidate is a row of the data as soon as the first index addresses a row *)
Lemma para_candidates_rows m X k words :
  (fst (first_of words (length X)) < length X)%nat ->
  fst (para_candidates o first_of round_of m X k words) <> [] /\
  forall c, In c (fst (para_candidates o first_of round_of m X k words)) -> In c X.
Proof.
  intros H0. unfold para_candidates. destruct (first_of words (length X)) as [i0 words0]. cbn [fst] in H0.
  split; [apply para_rounds_nonempty; discriminate|].
  apply para_rounds_rows. intros c [<-|[]]. apply nth_In. exact H0.
Qed.

Lemma count_members_length k ms : length (count_members o k ms) = k.
Proof.
  unfold count_members.
  assert (G : forall l cnt, length (fold_left (fun cnt c => upd cnt c (fun v => add o v (one o))) l cnt) = length cnt).
  { induction l as [|a l IH]; intros cnt; cbn [fold_left]; [reflexivity|]. rewrite IH, upd_length. reflexivity. }
  rewrite G. apply repeat_length.
Qed.

(** k-means|| returns exactly k centroids, each a row of the data *)
Lemma para_init_rows m X k words : (1 <= k)%nat ->
  (fst (first_of words (length X)) < length X)%nat ->
  length (fst (para_init o fmt first_of round_of m X k words)) = k /\
  forall c, In c (fst (para_init o fmt first_of round_of m X k words)) -> In c X.
Proof.
  intros Hk H0. unfold para_init.
  destruct (para_candidates_rows m X k words H0) as [Hne Hrows].
  destruct (para_candidates o first_of round_of m X k words) as [cands words1]. cbn [fst] in Hne, Hrows.
  split; [apply weighted_plusplus_length; exact Hk|].
  intros c Hc. apply Hrows.
  apply (weighted_plusplus_rows o fmt m cands (count_members o (length cands) (predict o m cands X)) k words1 c Hne);
    [|exact Hc].
  rewrite count_members_length. lia.
Qed.

Lemma para_inits_spec m X k : (1 <= k)%nat ->
  (forall words, fst (first_of words (length X)) < length X)%nat ->
  forall runs words i, In i (para_inits o fmt first_of round_of m X k runs words) ->
    length i = k /\ forall c, In c i -> In c X.
Proof.
  intros Hk H0. induction runs as [|r IH]; intros words i Hi; cbn [para_inits] in Hi; [contradiction|].
  pose proof (para_init_rows m X k words Hk (H0 words)) as Hr.
  destruct (para_init o fmt first_of round_of m X k words) as [cs words']. cbn [fst] in Hr.
  destruct Hi as [<-|Hi]; [exact Hr | eapply IH; exact Hi].
Qed.

Lemma para_inits_length m X k : forall runs words,
  length (para_inits o fmt first_of round_of m X k runs words) = runs.
Proof.
  induction runs as [|r IH]; intros words; cbn [para_inits]; [reflexivity|].
  destruct (para_init o fmt first_of round_of m X k words) as [cs words']. cbn [length]. f_equal. apply IH.
Qed.

End ParaFacts.

(** * the draws as rand 0.8 makes them *)
Local Close Scope R_scope.

Lemma w64_lt x : (w64 x < 18446744073709551616)%N.
Proof.
  unfold w64, m64. change 18446744073709551615%N with (N.ones 64). rewrite N.land_ones.
  apply N.mod_lt. discriminate.
Qed.

(** `gen_range(0..range)` returns a value below range, whatever the generator produces *)
Lemma gen_below_lt range : (0 < range)%N -> forall words, (fst (gen_below range words) < range)%N.
Proof.
  intros Hr. induction words as [|w ws IH]; cbn [gen_below fst]; [exact Hr|].
  destruct (N.leb _ _); cbn [fst]; [|exact IH].
  rewrite N.shiftr_div_pow2. apply N.div_lt_upper_bound; [discriminate|].
  pose proof (w64_lt w) as Hw. change (2 ^ 64)%N with 18446744073709551616%N. nia.
Qed.

Lemma rand_first_lt words n : (0 < n)%nat -> (fst (rand_first words n) < n)%nat.
Proof.
  intros Hn. unfold rand_first. pose proof (gen_below_lt (N.of_nat n) ltac:(lia) words) as H.
  destruct (gen_below (N.of_nat n) words) as [i ws]. cbn [fst] in *. lia.
Qed.

(** * Instances (binary64, evaluated) *)

(** the restart counter.  Initial centroid 10, observations 0 and 2, max_n_iterations = 1, two
    restarts from the same centroid.  The code ([reset = true]): each restart performs one iteration and
    the result is (0 + 2 + 10) / 3 = 4.  The variant with one counter for all restarts ([reset = false]):
    the second restart starts with the counter at 1, the test `n_iter == 1` can no longer fire and it
    runs until the movement test stops it (8 iterations here), ending close to the mean 1. *)
Example counter_instance :
  let run reset := restart_loop B64_ops reset 40 L2 0x1p-7%float 1 [[[10%float]]; [[10%float]]] [[0%float]; [2%float]] in
  snd (snd (run true)) = [1%N; 1%N] /\
  option_map (fun r => r_centroids r) (fst (run true)) = Some [[4%float]] /\
  snd (snd (run false)) = [1%N; 8%N] /\
  option_map (fun r => Nat.eqb (length (r_centroids r)) 1) (fst (run false)) = Some true /\
  option_map (fun r => existsb (fun c => existsb (fun v => PrimFloat.ltb v 1.125%float) c) (r_centroids r)) (fst (run false)) = Some true.
Proof. cbv zeta. repeat split; vm_compute; reflexivity. Qed.

(** k-means|| at binary64 as it runs in a one-thread pool: 6 observations on a line, k = 2, a fixed
    word stream; all six observations become candidates within the 8 rounds, the
    weighted re-clustering picks the two extreme rows, and the result has 2 rows of the data *)
Definition para_ex_X : list (list float) := [[0%float]; [1%float]; [2%float]; [10%float]; [11%float]; [12%float]].
Definition para_ex_words : list N :=
  [7%N; 1234567%N; 99%N; 3%N; 18446744073709551557%N; 5%N; 6%N; 77%N; 8%N; 9%N; 10%N; 11%N; 12%N; 13%N].
Definition fmt64 : sample_fmt float := {| sf_mant := 52%N; sf_pred := PrimFloat.next_down |}.

Example para_instance :
  length (fst (para_candidates B64_ops rand_first (rayon1_round B64_ops) L2 para_ex_X 2 para_ex_words)) = 6%nat /\
  fst (para_init B64_ops fmt64 rand_first (rayon1_round B64_ops) L2 para_ex_X 2 para_ex_words) = [[0%float]; [12%float]] /\
  length (fst (para_init B64_ops fmt64 rand_first (rayon1_round B64_ops) L2 para_ex_X 2 para_ex_words)) = 2%nat /\
  forallb (fun c => existsb (fun x => list_eqb f64_biteq c x) para_ex_X)
          (fst (para_init B64_ops fmt64 rand_first (rayon1_round B64_ops) L2 para_ex_X 2 para_ex_words)) = true.
Proof. repeat split; vm_compute; reflexivity. Qed.
