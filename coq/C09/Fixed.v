(** C09 - (1) ndarray's unrolled `sum()` is the plain sum over the reals, hence the reported inertia is
    the mean cost of the returned centroids; (2) what a fixed point of the m_k-means update is: every
    centroid with a non-empty cluster is the exact mean of its cluster (the extra "+ old centroid,
    / (count + 1)" term cancels), centroids of empty clusters are arbitrary; (3) at such a fixed point
    no single centroid can be moved anywhere so that the cost under the current assignment drops. *)
From Coq Require Import List NArith Bool Reals Lra Lia Arith.
From LinfaVerif Require Import Common.Num Common.NdSum C09.Model C09.Proofs C09.Cost.
Import ListNotations.
Local Open Scope R_scope.
Local Notation len d := (fun x : list R => length x = d).

(** * usum over the reals *)
Lemma fold_plus_rsum l a : fold_left Rplus l a = a + rsum l.
Proof. rewrite seq_sum_acc. f_equal. apply (seq_sum_rsum l). Qed.

Lemma chunks8_sum : forall n xs p, (length xs <= n)%nat -> length p = 8%nat ->
  length (fst (chunks8 oR xs p)) = 8%nat /\
  rsum (fst (chunks8 oR xs p)) + rsum (snd (chunks8 oR xs p)) = rsum p + rsum xs.
Proof.
  induction n as [|n IH]; intros xs p Hn Hp.
  - destruct xs; [simpl; split; [exact Hp | lra] | simpl in Hn; lia].
  - destruct xs as [|x0 [|x1 [|x2 [|x3 [|x4 [|x5 [|x6 [|x7 t]]]]]]]];
      try (cbn [chunks8 fst snd]; split; [exact Hp | lra]).
    destruct p as [|p0 [|p1 [|p2 [|p3 [|p4 [|p5 [|p6 [|p7 [|p8 p']]]]]]]]]; simpl in Hp; try lia.
    cbn [chunks8 map combine fst snd add oR].
    match goal with |- context [chunks8 oR t ?q] => destruct (IH t q) as [H1 H2] end;
      [simpl in Hn; lia | reflexivity |].
    split; [exact H1|]. rewrite H2. cbn [rsum]. lra.
Qed.

Lemma usum_R xs : usum oR xs = rsum xs.
Proof.
  unfold usum. cbn [zero oR].
  destruct (chunks8_sum (length xs) xs [0; 0; 0; 0; 0; 0; 0; 0] (le_n _) eq_refl) as [H1 H2].
  destruct (chunks8 oR xs [0; 0; 0; 0; 0; 0; 0; 0]) as [p rest]. cbn [fst snd] in H1, H2.
  destruct p as [|p0 [|p1 [|p2 [|p3 [|p4 [|p5 [|p6 [|p7 [|p8 p']]]]]]]]]; simpl in H1; try lia.
  cbn [add oR]. rewrite fold_plus_rsum. cbn [rsum] in H2. lra.
Qed.

Lemma usum_seq_sum xs : usum oR xs = seq_sum oR xs.
Proof. rewrite usum_R, seq_sum_rsum. reflexivity. Qed.

(** the inertia `fit` reports is the cost of the centroids it returns divided by n *)
Lemma inertia_mean_cost_R m tol fuel k inits (X : list (list R)) f :
  fit oR m tol fuel k inits X = Some f ->
  f_inertia f = cost oR m (f_centroids f) X / INR (length X).
Proof.
  intros H. destruct (fit_describes oR m tol fuel k inits X f H) as [_ E].
  rewrite E, usum_seq_sum. unfold cost. cbn [div of_N oR]. rewrite Nat2N.id. reflexivity.
Qed.

(** * Clusters *)
(** the observations that the centroids cs assign to centroid j, in observation order *)
Definition cluster (m : metric) (j : nat) (cs X : list (list R)) : list (list R) :=
  filter (fun x => Nat.eqb (fst (closest oR m cs x)) j) X.

Lemma ptsof_cluster m j cs X : ptsof j (combine X (map fst (assign oR m cs X))) = cluster m j cs X.
Proof.
  unfold ptsof, cluster, assign. rewrite map_map, combine_map_self.
  induction X as [|x X IH]; [reflexivity|]. cbn [map filter snd].
  destruct (Nat.eqb (fst (closest oR m cs x)) j); cbn [map fst]; rewrite IH; reflexivity.
Qed.

Lemma cluster_rows m j cs X d : Forall (len d) X -> Forall (len d) (cluster m j cs X).
Proof.
  intros H. rewrite Forall_forall in *. intros x Hx. apply H. apply filter_In in Hx. tauto.
Qed.

Lemma step_nth m cs X d j : X <> [] -> Forall (len d) X -> (j < length cs)%nat ->
  nth j (step oR m cs X) [] = shifted d (cluster m j cs X) (nth j cs []).
Proof.
  intros Hne HX Hj. unfold step. rewrite (cc_nth cs X _ j Hj), (dim_of_rows X d Hne HX), ptsof_cluster.
  reflexivity.
Qed.

(** a centroid is left alone by the update exactly when count * centroid = sum of its cluster *)
Lemma shifted_fixed_iff d P c : Forall (len d) P -> length c = d ->
  (shifted d P c = c <->
   forall t, (t < d)%nat -> INR (length P) * nth t c 0 = rsum (map (fun x => nth t x 0) P)).
Proof.
  intros HP Hc. assert (Hr : 0 <= INR (length P)) by apply pos_INR. split.
  - intros E t Ht. pose proof (shifted_nth d P c t HP Hc Ht) as H. rewrite E, map_length in H.
    apply (f_equal (fun v => v * (INR (length P) + 1))) in H.
    unfold Rdiv in H. rewrite Rmult_assoc, Rinv_l, Rmult_1_r in H by lra. lra.
  - intros H. apply (nth_ext _ _ 0 0); [rewrite shifted_length; auto|].
    intros t Ht. rewrite shifted_length in Ht by auto.
    rewrite (shifted_nth d P c t HP Hc Ht), map_length, <- (H t Ht). field. lra.
Qed.

(** fixed points of one Lloyd step of m_k-means (any of the three metrics) *)
Lemma step_fixed_iff m cs X d : X <> [] -> Forall (len d) X -> Forall (len d) cs ->
  (step oR m cs X = cs <->
   forall j t, (j < length cs)%nat -> (t < d)%nat ->
     INR (length (cluster m j cs X)) * nth t (nth j cs []) 0 =
     rsum (map (fun x => nth t x 0) (cluster m j cs X))).
Proof.
  intros Hne HX Hcs. rewrite Forall_forall in Hcs.
  assert (Hc : forall j, (j < length cs)%nat -> length (nth j cs []) = d)
    by (intros j Hj; apply Hcs, nth_In, Hj).
  split.
  - intros E j t Hj Ht. pose proof (step_nth m cs X d j Hne HX Hj) as H. rewrite E in H.
    symmetry in H.
    exact (proj1 (shifted_fixed_iff d _ _ (cluster_rows m j cs X d HX) (Hc j Hj)) H t Ht).
  - intros H. apply (nth_ext _ _ [] []); [apply step_length|].
    intros j Hj. rewrite step_length in Hj.
    etransitivity; [exact (step_nth m cs X d j Hne HX Hj)|].
    apply (proj2 (shifted_fixed_iff d _ _ (cluster_rows m j cs X d HX) (Hc j Hj))).
    intros t Ht. apply H; assumption.
Qed.

(** * Optimality of the mean *)
Lemma scalar_mean_opt xs c c' : INR (length xs) * c = rsum xs ->
  rsum (map (fun x => (c - x) * (c - x)) xs) <= rsum (map (fun x => (c' - x) * (c' - x)) xs).
Proof.
  intros H. rewrite !sum_sq_expand, <- H. set (r := INR (length xs)).
  assert (Hr : 0 <= r) by apply pos_INR.
  assert (D : (r * (c' * c') - 2 * c' * (r * c)) - (r * (c * c) - 2 * c * (r * c)) =
              r * ((c' - c) * (c' - c))) by ring.
  assert (P : 0 <= r * ((c' - c) * (c' - c))) by (apply Rmult_le_pos; [exact Hr | apply Rle_0_sqr]).
  lra.
Qed.

Lemma cluster_sq_at_mean d P c c' : Forall (len d) P -> length c = d -> length c' = d ->
  (forall t, (t < d)%nat -> INR (length P) * nth t c 0 = rsum (map (fun x => nth t x 0) P)) ->
  rsum (map (fun x => sq_l2 oR c x) P) <= rsum (map (fun x => sq_l2 oR c' x) P).
Proof.
  intros HP Hc Hc' Hm. rewrite Forall_forall in HP.
  rewrite (rsum_map_ext (fun x => sq_l2 oR c x)
     (fun x => rsum (map (fun t => (nth t c 0 - nth t x 0) * (nth t c 0 - nth t x 0)) (seq 0 d))))
    by (intros x Hx; apply sq_l2_coords; auto).
  rewrite (rsum_map_ext (fun x => sq_l2 oR c' x)
     (fun x => rsum (map (fun t => (nth t c' 0 - nth t x 0) * (nth t c' 0 - nth t x 0)) (seq 0 d))))
    by (intros x Hx; apply sq_l2_coords; auto).
  rewrite (rsum_swap (fun x t => (nth t c 0 - nth t x 0) * (nth t c 0 - nth t x 0))).
  rewrite (rsum_swap (fun x t => (nth t c' 0 - nth t x 0) * (nth t c' 0 - nth t x 0))).
  apply rsum_map_le. intros t Ht. apply in_seq in Ht.
  pose proof (scalar_mean_opt (map (fun x => nth t x 0) P) (nth t c 0) (nth t c' 0)) as H.
  rewrite !map_map, map_length in H. apply H. apply Hm. lia.
Qed.

(** cost of the centroids cs' when every observation stays in the cluster cs assigns it to *)
Definition fixed_assign_cost (cs cs' X : list (list R)) : R :=
  seq_sum oR (map (fun x => sq_l2 oR (nth (fst (closest oR L2 cs x)) cs' []) x) X).

Lemma fac_acost cs cs' X :
  fixed_assign_cost cs cs' X = acost cs' (combine X (map fst (assign oR L2 cs X))).
Proof.
  unfold fixed_assign_cost, acost, assign. rewrite seq_sum_rsum, map_map, combine_map_self, map_map.
  reflexivity.
Qed.

Lemma fac_self cs X : cs <> [] -> fixed_assign_cost cs cs X = cost oR L2 cs X.
Proof. intros H. rewrite fac_acost. symmetry. apply cost_as_acost. exact H. Qed.

Lemma fixed_point_single_move cs X d j c' :
  X <> [] -> Forall (len d) X -> Forall (len d) cs -> step oR L2 cs X = cs ->
  (j < length cs)%nat -> length c' = d ->
  fixed_assign_cost cs cs X <= fixed_assign_cost cs (upd cs j (fun _ => c')) X.
Proof.
  intros Hne HX Hcs E Hj Hc'.
  assert (Hcne : cs <> []) by (destruct cs; [simpl in Hj; lia | discriminate]).
  pose proof (proj1 (step_fixed_iff L2 cs X d Hne HX Hcs) E) as Hm.
  rewrite !fac_acost. set (ms := map fst (assign oR L2 cs X)).
  assert (Hl : Forall (fun xm : list R * nat => (snd xm < length cs)%nat) (combine X ms)).
  { pose proof (assign_in_range L2 cs X Hcne) as Hr. fold ms in Hr. rewrite Forall_forall in *.
    intros [x m0] Hin. apply in_combine_r in Hin. simpl. auto. }
  rewrite (acost_regroup cs (length cs) _ Hl), (acost_regroup (upd cs j (fun _ => c')) (length cs) _ Hl).
  apply rsum_map_le. intros j0 Hj0. apply in_seq in Hj0.
  rewrite (nth_upd cs j (fun _ => c') j0 []) by lia.
  destruct (Nat.eqb_spec j j0) as [<-|Hne0]; [|apply Rle_refl].
  unfold ms. rewrite ptsof_cluster.
  apply (cluster_sq_at_mean d); [apply cluster_rows; exact HX | | exact Hc' |].
  - rewrite Forall_forall in Hcs. apply Hcs, nth_In, Hj.
  - intros t Ht. apply Hm; assumption.
Qed.

(** * Initialised from rows of the data, the returned centroids lie in the data's bounding box *)
Lemma fit_data_rows_in_bbox_R m tol fuel k (inits : list (list (list R))) (X : list (list R)) d lo hi f :
  X <> [] -> Forall (len d) X ->
  (forall i c, In i inits -> In c i -> In c X) ->
  (forall x t, In x X -> (t < d)%nat -> nth t lo 0 <= nth t x 0 <= nth t hi 0) ->
  fit oR m tol fuel k inits X = Some f ->
  forall c t, In c (f_centroids f) -> (t < d)%nat -> nth t lo 0 <= nth t c 0 <= nth t hi 0.
Proof.
  intros Hne HX Hrows BX Hf.
  apply (fit_in_bbox_R m tol fuel k inits X d lo hi f Hne HX); [| exact BX | | exact Hf].
  - intros i Hi. apply Forall_forall. intros c Hc. rewrite Forall_forall in HX. apply HX.
    apply (Hrows i c Hi Hc).
  - intros i c t Hi Hc Ht. apply BX; [apply (Hrows i c Hi Hc) | exact Ht].
Qed.

(** * Satisfiable hypotheses: data 1, 3, 9 with centroids 2 and 9 is a fixed point (cluster means),
      and so is the same data with a far-away third centroid 100 whose cluster is empty *)
Example ex_fixed : step oR L2 [[2]; [9]] [[1]; [3]; [9]] = [[2]; [9]].
Proof.
  unfold step.
  assert (A : map fst (assign oR L2 [[2]; [9]] [[1]; [3]; [9]]) = [0; 0; 1]%nat).
  { cbv - [Rplus Rminus Rmult Rdiv Rltb IZR INR Rlt Rle]. decide_ltb. reflexivity. }
  rewrite A. cbv - [Rplus Rminus Rmult Rdiv Rltb IZR INR Rlt Rle]. cbn [INR]. repeat f_equal; field.
Qed.

Example ex_fixed_empty_cluster : step oR L2 [[2]; [9]; [100]] [[1]; [3]; [9]] = [[2]; [9]; [100]].
Proof.
  unfold step.
  assert (A : map fst (assign oR L2 [[2]; [9]; [100]] [[1]; [3]; [9]]) = [0; 0; 1]%nat).
  { cbv - [Rplus Rminus Rmult Rdiv Rltb IZR INR Rlt Rle]. decide_ltb. reflexivity. }
  rewrite A. cbv - [Rplus Rminus Rmult Rdiv Rltb IZR INR Rlt Rle]. cbn [INR]. repeat f_equal; field.
Qed.
