(** C09 - the initialisers only ever return rows of the data (any arithmetic): random_init by
    construction, k-means++ because every index the weighted sampler can return - including the
    fallback index 0 - is below the number of observations. *)
From Coq Require Import List NArith Bool Lia.
From LinfaVerif Require Import Common.Num C09.Model.
Import ListNotations.

Section InitFacts.
Context {F : Type} (o : NumOps F) (fmt : sample_fmt F).

Lemma first_above_le cum u : forall i, (first_above o cum u i <= i + length cum)%nat.
Proof.
  induction cum as [|c cum IH]; intros i; simpl; [lia|].
  destruct (leb o c u); [specialize (IH (S i)); lia | lia].
Qed.

Lemma wi_cum_length ws : forall total c t, wi_cum o ws total = Some (c, t) -> length c = length ws.
Proof.
  induction ws as [|w ws IH]; intros total c t H; simpl in H.
  - inversion H; reflexivity.
  - destruct (leb o (zero o) w); [|discriminate].
    destruct (wi_cum o ws (add o total w)) as [[c' t']|] eqn:E; [|discriminate].
    inversion H; subst. simpl. f_equal. eapply IH; exact E.
Qed.

Lemma wi_new_length ws c t : wi_new o ws = Some (c, t) -> S (length c) = length ws.
Proof.
  destruct ws as [|w0 ws]; simpl; [discriminate|].
  destruct (leb o (zero o) w0); [|discriminate].
  destruct (wi_cum o ws w0) as [[c' t']|] eqn:E; [|discriminate].
  destruct (eqb o t' (zero o)); [discriminate|]. intros H; inversion H; subst.
  f_equal. eapply wi_cum_length; exact E.
Qed.

(** every index the sampler returns addresses one of the weights; with no usable weights it is 0 *)
Lemma wi_draw_lt ws words n : (length ws <= n)%nat -> (0 < n)%nat -> (fst (wi_draw o fmt ws words) < n)%nat.
Proof.
  intros Hl Hn. unfold wi_draw. destruct (wi_new o ws) as [[cum total]|] eqn:E; [|simpl; lia].
  apply wi_new_length in E. destruct words as [|w words']; simpl; [lia|].
  unfold wi_sample. pose proof (first_above_le cum
    (add o (mul o (unit01 o fmt w) (uniform_scale o fmt 64 total (sub o total (zero o)))) (zero o)) 0). lia.
Qed.

Lemma pp_loop_rows m X wts steps : X <> [] -> forall cs words,
  (forall c, In c cs -> In c X) ->
  forall c, In c (fst (pp_loop o fmt m X wts steps cs words)) -> In c X.
Proof.
  intros HX. induction steps as [|s IH]; intros cs words Hcs c Hc; simpl in Hc; [auto|].
  match type of Hc with context [wi_draw o fmt ?d words] =>
    pose proof (wi_draw_lt d words (length X)) as Hi; destruct (wi_draw o fmt d words) as [i words'] eqn:E end.
  eapply IH; [|exact Hc]. intros c0 H0. apply in_app_or in H0 as [H0|[<-|[]]]; [auto|].
  apply nth_In. simpl in Hi. apply Hi.
  - rewrite map_length, combine_length. lia.
  - destruct X; [congruence | simpl; lia].
Qed.

Lemma pp_loop_length m X wts steps : forall cs words,
  length (fst (pp_loop o fmt m X wts steps cs words)) = (length cs + steps)%nat.
Proof.
  induction steps as [|s IH]; intros cs words; simpl; [lia|].
  destruct (wi_draw o fmt _ words) as [i words']. rewrite IH, app_length. simpl. lia.
Qed.

Lemma weighted_plusplus_rows m X wts k words c : X <> [] -> (length wts <= length X)%nat ->
  In c (fst (weighted_plusplus o fmt m X wts k words)) -> In c X.
Proof.
  intros HX Hw. unfold weighted_plusplus.
  pose proof (wi_draw_lt wts words (length X) Hw) as Hi.
  destruct (wi_draw o fmt wts words) as [i0 words0]. apply pp_loop_rows; [exact HX|].
  intros c0 [<-|[]]. apply nth_In. apply Hi. destruct X; [congruence | simpl; lia].
Qed.

Lemma weighted_plusplus_length m X wts k words : (1 <= k)%nat ->
  length (fst (weighted_plusplus o fmt m X wts k words)) = k.
Proof.
  intros Hk. unfold weighted_plusplus. destruct (wi_draw o fmt wts words) as [i0 words0].
  rewrite pp_loop_length. simpl. lia.
Qed.

Lemma plusplus_rows m X k words c : X <> [] -> In c (fst (plusplus o fmt m X k words)) -> In c X.
Proof. intros HX. apply weighted_plusplus_rows; [exact HX | rewrite repeat_length; lia]. Qed.

Lemma plusplus_length m X k words : (1 <= k)%nat -> length (fst (plusplus o fmt m X k words)) = k.
Proof. apply weighted_plusplus_length. Qed.

Lemma plusplus_inits_spec m X k runs : X <> [] -> (1 <= k)%nat -> forall words i,
  In i (plusplus_inits o fmt m X k runs words) -> length i = k /\ forall c, In c i -> In c X.
Proof.
  intros HX Hk. induction runs as [|r IH]; intros words i Hi; simpl in Hi; [contradiction|].
  pose proof (plusplus_length m X k words Hk) as Hl.
  pose proof (fun c => plusplus_rows m X k words c HX) as Hr.
  destruct (plusplus o fmt m X k words) as [cs words']. simpl in Hl, Hr.
  destruct Hi as [<-|Hi]; [split; assumption | eapply IH; exact Hi].
Qed.

Lemma plusplus_inits_length m X k runs : forall words, length (plusplus_inits o fmt m X k runs words) = runs.
Proof.
  induction runs as [|r IH]; intros words; simpl; [reflexivity|].
  destruct (plusplus o fmt m X k words) as [cs words']. simpl. f_equal. apply IH.
Qed.

Lemma random_init_rows (X : list (list F)) idx c :
  Forall (fun i => (i < length X)%nat) idx -> In c (random_init X idx) -> In c X.
Proof.
  intros H Hc. unfold random_init in Hc. apply in_map_iff in Hc as [i [<- Hi]].
  apply nth_In. rewrite Forall_forall in H. apply H. exact Hi.
Qed.

End InitFacts.

(** the hypotheses are satisfiable and the fallback is reachable: three equal observations have all
    distances zero after the first pick, so the second centroid is observation 0 and only one
    generator word is consumed (binary64 arithmetic, evaluated) *)
From Coq Require Import Floats.
Example plusplus_instance :
  let X := [[1%float]; [1%float]; [1%float]] in
  let fmt := {| sf_mant := 52%N; sf_pred := PrimFloat.next_down |} in
  X <> [] /\ length (fst (plusplus B64_ops fmt L2 X 2 [18446744073709551615%N; 7%N])) = 2%nat /\
  snd (plusplus B64_ops fmt L2 X 2 [18446744073709551615%N; 7%N]) = [7%N].
Proof. cbv zeta. split; [discriminate|]. split; vm_compute; reflexivity. Qed.
