(** C09 - executable model, second part (definitions only; C09/Model.v is left untouched because
    other properties import it):

    1. the WHOLE of `KMeans::fit` as the two nested loops the code has - the restart loop and, inside
       its body, the Lloyd loop with its own counter `n_iter` (declared in the body of the restart loop,
       so it starts at 0 in every restart) - together with the number of Lloyd iterations every
       restart performed;
    2. the k-means|| initialiser `k_means_para` (init.rs) including the arithmetic of everything it
       draws: rand 0.8 `gen_range` on integers (widening multiply + rejection zone) and on
       `0.0..1.0`, `Xoshiro256Plus::seed_from_u64` (SplitMix64) and `next_u64` of the per-task
       generators `sample_subsequent_candidates` creates, and the final weighted k-means++
       re-clustering of the candidates (C09/Model.v `weighted_plusplus`).  The only thing the code
       does not determine is how rayon splits the observations into tasks (each task seeds its own
       generator from a shared atomic counter): the model takes the draws of one round from a
       function [round_of]; [rayon1_round] is that function for a one-thread pool. *)
From Coq Require Import List NArith Bool.
From LinfaVerif Require Import Common.Num Common.NdSum C09.Model.
Import ListNotations.

(** * 1. the whole fit *)
Section Whole.
Context {F : Type} (o : NumOps F).

(* loop { assign; new = compute_centroids; distance; centroids = new; n_iter += 1;
          if distance < tolerance || n_iter == max_n_iterations { break } }
   [gas] only bounds the recursion: the Rust loop has no other bound than the two tests.  Returns the
   final centroids and the final value of the counter. *)
Fixpoint lloyd_loop (gas : nat) (m : metric) (tol : F) (max n_iter : N) (cs X : list (list F))
  : list (list F) * N :=
  match gas with
  | O => (cs, n_iter)
  | S g =>
      let new := step o m cs X in
      let n' := N.succ n_iter in
      if ltb o (dist o m (concat cs) (concat new)) tol || N.eqb n' max then (new, n')
      else lloyd_loop g m tol max n' new X
  end.

(* state of the restart loop: the best run so far (`min_inertia` = +infinity and `best_centroids` =
   None are [None]), the counter as the previous restart left it, and the number of iterations each
   restart performed so far (a ghost: the code does not store it).  The buffers `memberships` and
   `dists`, which the code reuses across restarts, are overwritten completely by
   `update_memberships_and_dists` before they are read and are therefore not part of the state.
   [reset = true] is the code: `let mut n_iter = 0;` is the first statement of the restart body.
   [reset = false] is NOT the code: it is the variant in which the counter is declared once next to
   the reused buffers; it exists only so that [fit_run_uses_own_budget] can be shown to exclude it. *)
Definition restart_state : Type := option (run_result (F := F)) * (N * list N).

Definition restart_body (reset : bool) (gas : nat) (m : metric) (tol : F) (max : N) (X : list (list F))
    (st : restart_state) (init : list (list F)) : restart_state :=
  let '(best, (n_iter, iters)) := st in
  let start := if reset then 0%N else n_iter in
  let '(cs, n) := lloyd_loop gas m tol max start init X in
  let a := assign o m cs X in
  let r := {| r_centroids := cs; r_members := map fst a; r_inertia := usum o (map snd a) |} in
  (better o best r, (n, iters ++ [(n - start)%N])).

Definition restart_loop (reset : bool) (gas : nat) (m : metric) (tol : F) (max : N)
    (inits : list (list (list F))) (X : list (list F)) : restart_state :=
  fold_left (restart_body reset gas m tol max X) inits (None, (0%N, [])).

Definition finish (k : nat) (X : list (list F)) (best : option (run_result (F := F))) : option (fitted (F := F)) :=
  match best with
  | None => None
  | Some r => Some {| f_centroids := r_centroids r;
                      f_counts := count_members o k (r_members r);
                      f_inertia := div o (r_inertia r) (of_N o (N.of_nat (length X))) |}
  end.

(* the fit as the code performs it (gas = max_n_iterations is enough, see C09/ExtProofs.v) and the
   iterations each restart performed *)
Definition fit_whole (m : metric) (tol : F) (max : N) (k : nat) (inits : list (list (list F)))
    (X : list (list F)) : option (fitted (F := F)) * list N :=
  let st := restart_loop true (N.to_nat max) m tol max inits X in
  (finish k X (fst st), snd (snd st)).

(* the iterations one restart performs when it is the only one *)
Definition iters_alone (m : metric) (tol : F) (max : N) (init X : list (list F)) : N :=
  snd (lloyd_loop (N.to_nat max) m tol max 0 init X).

(* [step^1 init; ...; step^n init] *)
Fixpoint iterates (n : nat) (m : metric) (cs X : list (list F)) : list (list (list F)) :=
  match n with
  | O => []
  | S n' => let new := step o m cs X in new :: iterates n' m new X
  end.

End Whole.

(** * 2. generator arithmetic used by init.rs *)
Definition m64 : N := 18446744073709551615.
Definition w64 (x : N) : N := N.land x m64.
Definition rotl64 (x k : N) : N := w64 (N.lor (N.shiftl x k) (N.shiftr x (64 - k))).

(* rand_xoshiro::SplitMix64::next_u64: (new state, output) *)
Definition splitmix (x : N) : N * N :=
  let x' := w64 (x + 0x9e3779b97f4a7c15) in
  let z := w64 (N.lxor x' (N.shiftr x' 30) * 0xbf58476d1ce4e5b9) in
  let z := w64 (N.lxor z (N.shiftr z 27) * 0x94d049bb133111eb) in
  (x', N.lxor z (N.shiftr z 31)).

Definition xo_state : Type := (N * N) * (N * N).

(* Xoshiro256Plus::seed_from_u64 = from_rng(SplitMix64::seed_from_u64(seed)): the four state words
   are four consecutive SplitMix64 outputs (they cannot all be zero: the output function is a
   bijection of the counter) *)
Definition xo_seed (seed : N) : xo_state :=
  let '(x1, a) := splitmix (w64 seed) in
  let '(x2, b) := splitmix x1 in
  let '(x3, c) := splitmix x2 in
  let '(_, d) := splitmix x3 in
  ((a, b), (c, d)).

(* Xoshiro256Plus::next_u64 *)
Definition xo_next (s : xo_state) : N * xo_state :=
  let '((s0, s1), (s2, s3)) := s in
  let r := w64 (s0 + s3) in
  let t := w64 (N.shiftl s1 17) in
  let s2 := N.lxor s2 s0 in
  let s3 := N.lxor s3 s1 in
  let s1 := N.lxor s1 s2 in
  let s0 := N.lxor s0 s3 in
  let s2 := N.lxor s2 t in
  let s3 := rotl64 s3 45 in
  (r, ((s0, s1), (s2, s3))).

Fixpoint xo_words (s : xo_state) (cnt : nat) : list N :=
  match cnt with
  | O => []
  | S c => let '(w, s') := xo_next s in w :: xo_words s' c
  end.

(* rand 0.8 UniformInt::<u64 / usize>::sample_single_inclusive(0, range - 1):
   zone = (range << range.leading_zeros()) - 1; loop { v = next_u64; (hi, lo) = v.wmul(range);
   if lo <= zone { return hi } }.  One word per attempt; 0 when the recorded words run out. *)
Definition zone_of (range : N) : N := w64 (N.shiftl range (64 - N.size range)) - 1.

Fixpoint gen_below (range : N) (words : list N) : N * list N :=
  match words with
  | [] => (0%N, [])
  | w :: ws =>
      let p := (w64 w * range)%N in
      if N.leb (w64 p) (zone_of range) then (N.shiftr p 64, ws) else gen_below range ws
  end.

(* rayon-core 1.13 / rayon 1.12 `bridge_producer_consumer` in a pool of ONE thread: the splitter
   starts with splits = current_num_threads() = 1, so the index range is split once at len / 2
   (if len / 2 >= 1) and neither half is split again (nothing is ever stolen); `join_context` runs
   the left half first, so the tasks call `seed.fetch_add(1)` in index order *)
Definition leaf_sizes1 (n : nat) : list nat :=
  if Nat.ltb n 2 then [n] else [Nat.div n 2; (n - Nat.div n 2)%nat].

Section ParaDraws.
Context {F : Type} (o : NumOps F).

(* `F::cast(rng.gen_range(0.0..1.0))`: the f64 value (next_u64 >> 12) * 2^-52 (scale 1, offset 0,
   never rejected), converted to F - an exact conversion for f64, one rounding for f32 ([of_N]
   rounds the 52-bit integer once and the division by 2^52 is exact) *)
Definition unit52 (w : N) : F := div o (of_N o (N.shiftr (w64 w) 12)) (of_N o 4503599627370496).

(* one generator per task, seeded seed, seed + 1, ... (wrapping), drawing one number per observation *)
Fixpoint task_uniforms (seed : N) (leaves : list nat) : list F :=
  match leaves with
  | [] => []
  | len :: rest => map unit52 (xo_words (xo_seed (w64 seed)) len) ++ task_uniforms (seed + 1) rest
  end.

(* `rng.gen_range(0..n_samples)` *)
Definition rand_first (words : list N) (n : nat) : nat * list N :=
  let '(i, ws) := gen_below (N.of_nat n) words in (N.to_nat i, ws).

(* `rng.gen_range(0..u64::MAX)` followed by `sample_subsequent_candidates`' draws in a one-thread pool *)
Definition rayon1_round (words : list N) (n : nat) : list F * list N :=
  let '(seed, ws) := gen_below m64 words in (task_uniforms seed (leaf_sizes1 n), ws).

End ParaDraws.

(** * 3. k_means_para *)
Section Para.
Context {F : Type} (o : NumOps F) (fmt : sample_fmt F).
(* the draws, as functions of the parameter generator's remaining raw words and the number of
   observations: the index of the first candidate, and the numbers in [0, 1) one round compares the
   selection probabilities with (one per observation) *)
Context (first_of : list N -> nat -> nat * list N).
Context (round_of : list N -> nat -> list F * list N).

(* prob = multiplier * d / cost with cost = dists.sum() and multiplier = n_clusters *)
Definition para_probs (k : nat) (dists : list F) : list F :=
  let cost := usum o dists in
  map (fun d => div o (mul o (of_N o (N.of_nat k)) d) cost) dists.

(* filter_map(rand < prob), collected in observation order *)
Fixpoint para_select (X : list (list F)) (probs us : list F) : list (list F) :=
  match X, probs, us with
  | x :: X', p :: ps, u :: us' =>
      if ltb o u p then x :: para_select X' ps us' else para_select X' ps us'
  | _, _, _ => []
  end.

(* append to the candidate buffer of [cap] rows; true = the buffer is full (`break 'outer`) *)
Fixpoint para_append (cap : nat) (cands new : list (list F)) : list (list F) * bool :=
  match new with
  | [] => (cands, false)
  | x :: new' =>
      let cands' := cands ++ [x] in
      if Nat.leb cap (length cands') then (cands', true) else para_append cap cands' new'
  end.

Fixpoint para_rounds (rounds : nat) (m : metric) (X : list (list F)) (k cap : nat)
    (cands : list (list F)) (words : list N) : list (list F) * list N :=
  match rounds with
  | O => (cands, words)
  | S r =>
      let dists := transform o m cands X in                      (* update_min_dists *)
      let '(us, words') := round_of words (length X) in
      let '(cands', full) := para_append cap cands (para_select X (para_probs k dists) us) in
      if full then (cands', words') else para_rounds r m X k cap cands' words'
  end.

(* the candidates after the (at most) 8 rounds *)
Definition para_candidates (m : metric) (X : list (list F)) (k : nat) (words : list N)
  : list (list F) * list N :=
  let '(i0, words0) := first_of words (length X) in
  para_rounds 8 m X k (k * 8) [nth i0 X []] words0.

(* cluster_membership_counts, then weighted k-means++ over the candidates *)
Definition para_init (m : metric) (X : list (list F)) (k : nat) (words : list N)
  : list (list F) * list N :=
  let '(cands, words1) := para_candidates m X k words in
  let wts := count_members o (length cands) (predict o m cands X) in
  weighted_plusplus o fmt m cands wts k words1.

(* one initialisation per restart, all drawn from one parameter-generator stream *)
Fixpoint para_inits (m : metric) (X : list (list F)) (k runs : nat) (words : list N)
  : list (list (list F)) :=
  match runs with
  | O => []
  | S r => let '(cs, words') := para_init m X k words in cs :: para_inits m X k r words'
  end.

End Para.

(* k-means|| as it runs inside a one-thread rayon pool *)
Definition para_inits1 {F : Type} (o : NumOps F) (fmt : sample_fmt F) :=
  para_inits o fmt rand_first (rayon1_round o).
