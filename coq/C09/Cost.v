(** C09 - the Lloyd step never increases the k-means cost (L2 metric, exact real arithmetic), the
    cost is monotone in the iteration budget, and updated centroids stay inside the bounding box of
    the data and the previous centroids.

    Structure of the cost proof (cs' = step cs X, ms = memberships computed for cs):
      cost cs' X <= acost cs' ms X        re-assignment picks a closest centroid   (reassign_noninc)
                 <= acost cs  ms X        mean shift, cluster by cluster           (mean_shift_noninc)
                  = cost cs X             closest returns the distance of its index (cost_as_acost) *)
From Coq Require Import List NArith Bool Reals Lra Lia Arith.
From LinfaVerif Require Import Common.Num Common.NdSum C09.Model C09.Proofs.
Import ListNotations.
Local Open Scope R_scope.

(** * Sums of reals *)
Fixpoint rsum (l : list R) : R := match l with [] => 0 | x :: t => x + rsum t end.

Lemma seq_sum_rsum l : seq_sum oR l = rsum l.
Proof.
  unfold seq_sum; cbn [add zero oR]. induction l as [|x l IH]; simpl; [reflexivity|].
  rewrite seq_sum_acc, IH. lra.
Qed.

Lemma rsum_map_add {A} (f g : A -> R) l :
  rsum (map (fun a => f a + g a) l) = rsum (map f l) + rsum (map g l).
Proof. induction l as [|a l IH]; simpl; [lra | rewrite IH; lra]. Qed.

Lemma rsum_map_le {A} (f g : A -> R) l :
  (forall a, In a l -> f a <= g a) -> rsum (map f l) <= rsum (map g l).
Proof.
  induction l as [|a l IH]; intros H; simpl; [lra|].
  assert (H1 : f a <= g a) by (apply H; left; reflexivity).
  assert (H2 : rsum (map f l) <= rsum (map g l)) by (apply IH; intros b Hb; apply H; right; exact Hb).
  lra.
Qed.

Lemma rsum_map_ext {A} (f g : A -> R) l :
  (forall a, In a l -> f a = g a) -> rsum (map f l) = rsum (map g l).
Proof.
  induction l as [|a l IH]; intros H; simpl; [reflexivity|].
  rewrite (H a) by (left; reflexivity). rewrite IH; [reflexivity|]. intros b Hb; apply H; right; exact Hb.
Qed.

Lemma rsum_map_zero {A} (l : list A) : rsum (map (fun _ => 0) l) = 0.
Proof. induction l as [|a l IH]; simpl; [reflexivity | rewrite IH; lra]. Qed.

Lemma rsum_swap {A B} (f : A -> B -> R) la lb :
  rsum (map (fun a => rsum (map (fun b => f a b) lb)) la) =
  rsum (map (fun b => rsum (map (fun a => f a b) la)) lb).
Proof.
  induction la as [|a la IH]; simpl.
  - rewrite rsum_map_zero. reflexivity.
  - rewrite IH. symmetry.
    apply (rsum_map_add (fun b => f a b) (fun b => rsum (map (fun a0 => f a0 b) la))).
Qed.

(** indicator of one index summed over a range that contains it *)
Lemma rsum_indicator_out j0 v : forall k a, (j0 < a)%nat ->
  rsum (map (fun j => if Nat.eqb j0 j then v else 0) (seq a k)) = 0.
Proof.
  induction k as [|k IH]; intros a Ha; simpl; [reflexivity|].
  destruct (Nat.eqb_spec j0 a) as [E|E]; [lia|]. rewrite IH by lia. lra.
Qed.

Lemma rsum_indicator j0 v : forall k a, (a <= j0 < a + k)%nat ->
  rsum (map (fun j => if Nat.eqb j0 j then v else 0) (seq a k)) = v.
Proof.
  induction k as [|k IH]; intros a Ha; simpl; [lia|].
  destruct (Nat.eqb_spec j0 a) as [E|E].
  - rewrite rsum_indicator_out by lia. lra.
  - rewrite IH by lia. lra.
Qed.

(** a sum regrouped by a key with values below k *)
Lemma regroup {A} (key : A -> nat) (f : A -> R) k l :
  Forall (fun a => (key a < k)%nat) l ->
  rsum (map f l) =
  rsum (map (fun j => rsum (map f (filter (fun a => Nat.eqb (key a) j) l))) (seq 0 k)).
Proof.
  induction l as [|a l IH]; intros H.
  - simpl. rewrite rsum_map_zero. reflexivity.
  - inversion H as [|a' l' Ha Hl]; subst.
    cbn [map rsum]. rewrite (IH Hl).
    rewrite (rsum_map_ext
      (fun j => rsum (map f (filter (fun a0 => Nat.eqb (key a0) j) (a :: l))))
      (fun j => (if Nat.eqb (key a) j then f a else 0) +
                rsum (map f (filter (fun a0 => Nat.eqb (key a0) j) l)))).
    + rewrite rsum_map_add. rewrite rsum_indicator by lia. reflexivity.
    + intros j _. cbn [filter]. destruct (Nat.eqb (key a) j); simpl; lra.
Qed.

(** * Scalar facts *)
Lemma sum_sq_expand xs c :
  rsum (map (fun x => (c - x) * (c - x)) xs) =
  INR (length xs) * (c * c) - 2 * c * rsum xs + rsum (map (fun x => x * x) xs).
Proof.
  induction xs as [|x xs IH]; cbn [map rsum length].
  - simpl. lra.
  - rewrite S_INR, IH. ring.
Qed.

(** moving c to the mean of the points and c itself does not increase the sum of squares:
    the difference is (n + 2) (c - c')^2 *)
Lemma scalar_mean_shift xs c :
  let c' := (rsum xs + c) / (INR (length xs) + 1) in
  rsum (map (fun x => (c' - x) * (c' - x)) xs) <= rsum (map (fun x => (c - x) * (c - x)) xs).
Proof.
  intros c'. rewrite !sum_sq_expand.
  set (r := INR (length xs)). set (s := rsum xs).
  assert (Hr : 0 <= r) by apply pos_INR.
  assert (Es : s = (r + 1) * c' - c).
  { unfold c'. fold r s. field. lra. }
  assert (D : (r * (c * c) - 2 * c * s) - (r * (c' * c') - 2 * c' * s) = (r + 2) * ((c - c') * (c - c'))).
  { rewrite Es. ring. }
  assert (P : 0 <= (r + 2) * ((c - c') * (c - c'))).
  { apply Rmult_le_pos; [lra|]. apply Rle_0_sqr. }
  lra.
Qed.

Lemma rsum_bounds xs lo hi : (forall x, In x xs -> lo <= x <= hi) ->
  INR (length xs) * lo <= rsum xs <= INR (length xs) * hi.
Proof.
  induction xs as [|x xs IH]; intros H; cbn [rsum length].
  - simpl. lra.
  - rewrite S_INR. assert (Hx : lo <= x <= hi) by (apply H; left; reflexivity).
    assert (Ht : INR (length xs) * lo <= rsum xs <= INR (length xs) * hi).
    { apply IH. intros y Hy. apply H. right. exact Hy. }
    lra.
Qed.

(** the mean of points and c (a convex combination) stays between common bounds *)
Lemma scalar_mean_bbox xs c lo hi : (forall x, In x xs -> lo <= x <= hi) -> lo <= c <= hi ->
  lo <= (rsum xs + c) / (INR (length xs) + 1) <= hi.
Proof.
  intros Hx Hc. pose proof (rsum_bounds xs lo hi Hx) as Hs.
  set (r := INR (length xs)) in *. assert (Hr : 0 <= r) by apply pos_INR.
  set (q := (rsum xs + c) / (r + 1)).
  assert (E : q * (r + 1) = rsum xs + c) by (unfold q; field; lra).
  split; apply (Rmult_le_reg_r (r + 1)); try lra.
Qed.

(** * Rows: coordinates of sums and of the squared distance *)
Local Notation len d := (fun x : list R => length x = d).

Lemma fold2_sq_acc a : forall b acc,
  fold2 (fun acc x y => add oR acc (mul oR (sub oR x y) (sub oR x y))) a b acc =
  acc + rsum (map (fun p => (fst p - snd p) * (fst p - snd p)) (combine a b)).
Proof.
  induction a as [|x a IH]; intros [|y b] acc; simpl; try lra.
  rewrite IH. lra.
Qed.

Lemma rsum_combine_nth a : forall b, length a = length b ->
  rsum (map (fun p => (fst p - snd p) * (fst p - snd p)) (combine a b)) =
  rsum (map (fun t => (nth t a 0 - nth t b 0) * (nth t a 0 - nth t b 0)) (seq 0 (length a))).
Proof.
  induction a as [|x a IH]; intros [|y b] H; simpl in H; try discriminate; [reflexivity|].
  cbn [length seq map rsum combine fst snd nth]. rewrite <- seq_shift, map_map.
  rewrite (IH b) by lia. reflexivity.
Qed.

(** the squared distance as a sum over coordinates *)
Lemma sq_l2_coords a b d : length a = d -> length b = d ->
  sq_l2 oR a b = rsum (map (fun t => (nth t a 0 - nth t b 0) * (nth t a 0 - nth t b 0)) (seq 0 d)).
Proof.
  intros Ha Hb. unfold sq_l2. rewrite fold2_sq_acc. cbn [zero oR].
  rewrite rsum_combine_nth by lia. rewrite Ha. lra.
Qed.

Lemma vadd_length a b : length (vadd oR a b) = Nat.min (length a) (length b).
Proof. unfold vadd. rewrite map_length, combine_length. reflexivity. Qed.

Lemma vadd_nth a : forall b t, (t < length a)%nat -> (t < length b)%nat ->
  nth t (vadd oR a b) 0 = nth t a 0 + nth t b 0.
Proof.
  induction a as [|x a IH]; intros [|y b] [|t] Ha Hb; simpl in Ha, Hb; try lia.
  - reflexivity.
  - apply (IH b t); lia.
Qed.

Lemma fold_vadd_length P d : forall a, length a = d -> Forall (len d) P ->
  length (fold_left (vadd oR) P a) = d.
Proof.
  induction P as [|x P IH]; intros a Ha HP; simpl; [exact Ha|].
  inversion HP as [|x' P' Hx HP']; subst. apply IH; [|exact HP'].
  rewrite vadd_length, Hx. lia.
Qed.

Lemma fold_vadd_nth P d t : forall a, length a = d -> Forall (len d) P -> (t < d)%nat ->
  nth t (fold_left (vadd oR) P a) 0 = nth t a 0 + rsum (map (fun x => nth t x 0) P).
Proof.
  induction P as [|x P IH]; intros a Ha HP Ht; simpl; [lra|].
  inversion HP as [|x' P' Hx HP']; subst.
  rewrite IH; [| rewrite vadd_length, Hx; lia | exact HP' | exact Ht].
  rewrite vadd_nth by lia. lra.
Qed.

Lemma nth_repeat0 t d : nth t (repeat 0 d) 0 = 0.
Proof. revert t; induction d as [|d IH]; intros [|t]; simpl; auto. Qed.

Lemma nth_map0 (f : R -> R) l t : (t < length l)%nat -> nth t (map f l) 0 = f (nth t l 0).
Proof. intros H. rewrite (nth_indep _ 0 (f 0)) by (rewrite map_length; exact H). apply map_nth. Qed.

(** the updated centroid of one cluster: P = its points, c = its previous centroid *)
Definition shifted (d : nat) (P : list (list R)) (c : list R) : list R :=
  map (fun v => v / INR (S (length P))) (vadd oR (fold_left (vadd oR) P (repeat 0 d)) c).

Lemma shifted_length d P c : Forall (len d) P -> length c = d -> length (shifted d P c) = d.
Proof.
  intros HP Hc. unfold shifted. rewrite map_length, vadd_length.
  rewrite (fold_vadd_length P d) by (auto using repeat_length). lia.
Qed.

Lemma shifted_nth d P c t : Forall (len d) P -> length c = d -> (t < d)%nat ->
  nth t (shifted d P c) 0 =
  (rsum (map (fun x => nth t x 0) P) + nth t c 0) / (INR (length (map (fun x => nth t x 0) P)) + 1).
Proof.
  intros HP Hc Ht. unfold shifted.
  assert (Hl : length (fold_left (vadd oR) P (repeat 0 d)) = d)
    by (apply fold_vadd_length; auto using repeat_length).
  rewrite nth_map0 by (rewrite vadd_length; lia).
  rewrite vadd_nth by lia.
  rewrite (fold_vadd_nth P d t) by (auto using repeat_length).
  rewrite nth_repeat0, map_length, S_INR. f_equal. lra.
Qed.

(** mean shift for one cluster *)
Lemma cluster_mean_shift d P c : Forall (len d) P -> length c = d ->
  rsum (map (fun x => sq_l2 oR (shifted d P c) x) P) <= rsum (map (fun x => sq_l2 oR c x) P).
Proof.
  intros HP Hc. pose proof (shifted_length d P c HP Hc) as Hc'.
  rewrite Forall_forall in HP.
  rewrite (rsum_map_ext (fun x => sq_l2 oR (shifted d P c) x)
     (fun x => rsum (map (fun t => (nth t (shifted d P c) 0 - nth t x 0) * (nth t (shifted d P c) 0 - nth t x 0)) (seq 0 d))))
    by (intros x Hx; apply sq_l2_coords; auto).
  rewrite (rsum_map_ext (fun x => sq_l2 oR c x)
     (fun x => rsum (map (fun t => (nth t c 0 - nth t x 0) * (nth t c 0 - nth t x 0)) (seq 0 d))))
    by (intros x Hx; apply sq_l2_coords; auto).
  rewrite (rsum_swap (fun x t => (nth t (shifted d P c) 0 - nth t x 0) * (nth t (shifted d P c) 0 - nth t x 0))).
  rewrite (rsum_swap (fun x t => (nth t c 0 - nth t x 0) * (nth t c 0 - nth t x 0))).
  apply rsum_map_le. intros t Ht. apply in_seq in Ht.
  rewrite shifted_nth by (try rewrite Forall_forall; auto; lia).
  pose proof (scalar_mean_shift (map (fun x => nth t x 0) P) (nth t c 0)) as H.
  cbv zeta in H. rewrite !map_map in H. exact H.
Qed.

(** bounding box for one cluster *)
Lemma cluster_bbox d P c t lo hi : Forall (len d) P -> length c = d -> (t < d)%nat ->
  (forall x, In x P -> lo <= nth t x 0 <= hi) -> lo <= nth t c 0 <= hi ->
  lo <= nth t (shifted d P c) 0 <= hi.
Proof.
  intros HP Hc Ht Hx Hb. rewrite shifted_nth by auto.
  apply scalar_mean_bbox; [|exact Hb].
  intros v Hv. apply in_map_iff in Hv as [x [<- Hin]]. apply Hx. exact Hin.
Qed.

(** * The accumulator of compute_centroids *)
Lemma nth_upd {A} (l : list A) : forall k f j d, (j < length l)%nat ->
  nth j (upd l k f) d = if Nat.eqb k j then f (nth j l d) else nth j l d.
Proof.
  induction l as [|a l IH]; intros [|k] f [|j] d H; simpl in H |- *; try lia; try reflexivity.
  apply IH. lia.
Qed.

Lemma nth_map_const {A B} (v : B) (l : list A) j : nth j (map (fun _ => v) l) v = v.
Proof. revert j; induction l as [|a l IH]; intros [|j]; simpl; auto. Qed.

Lemma nth_map_combine {A B C} (g : A * B -> C) la lb j da db dc :
  length la = length lb -> (j < length lb)%nat ->
  nth j (map g (combine la lb)) dc = g (nth j la da, nth j lb db).
Proof.
  intros Hl Hj. rewrite (nth_indep _ dc (g (da, db))) by (rewrite map_length, combine_length; lia).
  rewrite map_nth, combine_nth by assumption. reflexivity.
Qed.

(** the points with membership j, in observation order *)
Definition ptsof (j : nat) (l : list (list R * nat)) : list (list R) :=
  map fst (filter (fun xm => Nat.eqb (snd xm) j) l).

Lemma ptsof_in (X : list (list R)) ms j x : In x (ptsof j (combine X ms)) -> In x X.
Proof.
  unfold ptsof. intros Hx. apply in_map_iff in Hx as [[x' m] [E Hin]].
  apply filter_In in Hin as [Hin _]. simpl in E; subst. apply in_combine_l in Hin. exact Hin.
Qed.

Lemma ptsof_rows d X ms j : Forall (len d) X -> Forall (len d) (ptsof j (combine X ms)).
Proof.
  intros H. rewrite Forall_forall in *. intros x Hx. apply H. apply (ptsof_in X ms j x Hx).
Qed.

(** entry j of the accumulator: running sum of the points of cluster j and a counter *)
Lemma acc_nth l : forall (st : list (list R * N)) j dflt, (j < length st)%nat ->
  let st' := fold_left (fun st xm => upd st (snd xm)
               (fun sc => (vadd oR (fst sc) (fst xm), N.succ (snd sc)))) l st in
  fst (nth j st' dflt) = fold_left (vadd oR) (ptsof j l) (fst (nth j st dflt)) /\
  N.to_nat (snd (nth j st' dflt)) = (length (ptsof j l) + N.to_nat (snd (nth j st dflt)))%nat.
Proof.
  induction l as [|[x m] l IH]; intros st j dflt Hj; [simpl; auto|].
  cbn zeta. cbn [fold_left fst snd].
  specialize (IH (upd st m (fun sc => (vadd oR (fst sc) x, N.succ (snd sc)))) j dflt).
  rewrite upd_length in IH. specialize (IH Hj). cbn zeta in IH. destruct IH as [H1 H2].
  split.
  - etransitivity; [exact H1|]. rewrite nth_upd by exact Hj.
    unfold ptsof. cbn [filter snd]. destruct (Nat.eqb m j); reflexivity.
  - etransitivity; [exact H2|]. rewrite nth_upd by exact Hj.
    unfold ptsof. cbn [filter snd]. destruct (Nat.eqb m j); cbn [map fst snd length]; [|reflexivity].
    rewrite N2Nat.inj_succ. lia.
Qed.

Definition dim_of (X : list (list R)) : nat := match X with [] => 0%nat | x :: _ => length x end.

Lemma dim_of_rows X d : X <> [] -> Forall (len d) X -> dim_of X = d.
Proof. destruct X as [|x X]; [congruence|]. intros _ H. inversion H; subst. reflexivity. Qed.

(** every updated centroid is the shifted mean of its cluster *)
Lemma cc_nth_gen d (old X : list (list R)) ms j : (j < length old)%nat ->
  @nth (list R) j (map (fun p : (list R * N) * list R =>
                let '((s, cnt), oldc) := p in map (fun v => div oR v (of_N oR cnt)) (vadd oR s oldc))
             (combine (accumulate oR d old X ms) old)) [] =
  shifted d (ptsof j (combine X ms)) (nth j old []).
Proof.
  intros Hj. unfold row.
  rewrite (nth_map_combine _ _ _ j (repeat (zero oR) d, 1%N) []) by (try apply accumulate_length; exact Hj).
  unfold accumulate.
  destruct (acc_nth (combine X ms) (map (fun _ => (repeat (zero oR) d, 1%N)) old) j (repeat (zero oR) d, 1%N))
    as [H1 H2]; [rewrite map_length; exact Hj|].
  rewrite nth_map_const in H1, H2. cbn [fst snd] in H1, H2.
  unfold row in *. revert H1 H2.
  match goal with |- context [nth j ?a (repeat (zero oR) d, 1%N)] =>
    destruct (nth j a (repeat (zero oR) d, 1%N)) as [s cnt] end.
  cbn [fst snd]. intros H1 H2. subst s. unfold shifted. cbn [div of_N zero oR]. rewrite H2.
  change (N.to_nat 1) with 1%nat. rewrite Nat.add_1_r. reflexivity.
Qed.

Lemma cc_nth (old X : list (list R)) ms j : (j < length old)%nat ->
  @nth (list R) j (compute_centroids oR old X ms) [] = shifted (dim_of X) (ptsof j (combine X ms)) (nth j old []).
Proof. intros Hj. unfold compute_centroids. apply (cc_nth_gen (dim_of X) old X ms j Hj). Qed.

(** * Cost under a fixed assignment *)
Definition acost (cs : list (list R)) (l : list (list R * nat)) : R :=
  rsum (map (fun xm => sq_l2 oR (nth (snd xm) cs []) (fst xm)) l).

Lemma acost_regroup cs k l : Forall (fun xm => (snd xm < k)%nat) l ->
  acost cs l = rsum (map (fun j => rsum (map (fun x => sq_l2 oR (nth j cs []) x) (ptsof j l))) (seq 0 k)).
Proof.
  intros H. unfold acost. rewrite (regroup snd _ k l H). apply rsum_map_ext. intros j _.
  unfold ptsof. rewrite map_map. apply rsum_map_ext. intros xm Hin.
  apply filter_In in Hin as [_ E]. apply Nat.eqb_eq in E. cbv beta. subst j. reflexivity.
Qed.

(** (c) mean shift: with the memberships fixed, the updated centroids have no higher cost *)
Lemma mean_shift_noninc cs X ms d :
  Forall (len d) X -> Forall (len d) cs -> Forall (fun m => (m < length cs)%nat) ms ->
  acost (compute_centroids oR cs X ms) (combine X ms) <= acost cs (combine X ms).
Proof.
  intros HX Hcs Hms.
  destruct X as [|x0 X'] eqn:EX; [unfold acost; simpl; lra|]. rewrite <- EX in *.
  assert (Hne : X <> []) by (rewrite EX; discriminate). clear EX.
  assert (Hl : Forall (fun xm => (snd xm < length cs)%nat) (combine X ms)).
  { rewrite Forall_forall in *. intros [x m] Hin. apply in_combine_r in Hin. simpl. auto. }
  rewrite (acost_regroup (compute_centroids oR cs X ms) (length cs) _ Hl).
  rewrite (acost_regroup cs (length cs) _ Hl).
  apply rsum_map_le. intros j Hj. apply in_seq in Hj.
  assert (Hj' : (j < length cs)%nat) by lia.
  unfold row in *. rewrite (cc_nth cs X ms j Hj'). rewrite (dim_of_rows X d Hne HX).
  apply cluster_mean_shift; [apply ptsof_rows; exact HX|].
  rewrite Forall_forall in Hcs. apply Hcs. apply nth_In. exact Hj'.
Qed.

Lemma cost_rsum m (cs X : list (list R)) : cost oR m cs X = rsum (map (fun x => snd (closest oR m cs x)) X).
Proof. unfold cost, transform. apply seq_sum_rsum. Qed.

Lemma cost_nil m (cs : list (list R)) : cost oR m cs [] = 0.
Proof. rewrite cost_rsum. reflexivity. Qed.

Lemma combine_map_self {A B} (g : A -> B) X : combine X (map g X) = map (fun x => (x, g x)) X.
Proof. induction X as [|x X IH]; simpl; [reflexivity | rewrite IH; reflexivity]. Qed.

Lemma map_combine_fst {A B C} (h : A -> C) (X : list A) : forall (ms : list B),
  length ms = length X -> map (fun xm => h (fst xm)) (combine X ms) = map h X.
Proof.
  induction X as [|x X IH]; intros [|m ms] H; simpl in H |- *; try discriminate; [reflexivity|].
  rewrite IH by lia. reflexivity.
Qed.

(** (a) the cost is the cost under the memberships that `assign` computes *)
Lemma cost_as_acost (cs X : list (list R)) : cs <> [] ->
  cost oR L2 cs X = acost cs (combine X (map fst (assign oR L2 cs X))).
Proof.
  intros H. rewrite cost_rsum. unfold acost, assign. rewrite map_map, combine_map_self, map_map.
  apply rsum_map_ext. intros x _. cbn [fst snd].
  destruct (closest_index oR L2 cs x H) as [_ E]. exact E.
Qed.

(** (b) re-assignment: the cost is at most the cost under any assignment to valid indices *)
Lemma reassign_noninc (cs X : list (list R)) ms : length ms = length X -> Forall (fun m => (m < length cs)%nat) ms ->
  cost oR L2 cs X <= acost cs (combine X ms).
Proof.
  intros Hl Hms. rewrite cost_rsum.
  rewrite <- (map_combine_fst (fun x => snd (closest oR L2 cs x)) X ms Hl).
  unfold acost. apply rsum_map_le. intros [x m] Hin. cbn [fst snd].
  apply in_combine_r in Hin. rewrite Forall_forall in Hms.
  apply (closest_min L2 cs x (nth m cs [])). apply nth_In. apply Hms. exact Hin.
Qed.

Lemma assign_in_range m (cs X : list (list R)) : cs <> [] ->
  Forall (fun i => (i < length cs)%nat) (map fst (assign oR m cs X)).
Proof.
  intros Hne. unfold assign. rewrite map_map. apply Forall_forall. intros i Hi.
  apply in_map_iff in Hi as [x [<- _]]. apply (closest_index oR m cs x Hne).
Qed.

(** one Lloyd step never increases the cost *)
Lemma step_cost_noninc_R cs X d : cs <> [] -> Forall (len d) X -> Forall (len d) cs ->
  cost oR L2 (step oR L2 cs X) X <= cost oR L2 cs X.
Proof.
  intros Hne HX Hcs. pose proof (assign_in_range L2 cs X Hne) as Hms.
  rewrite (cost_as_acost cs X Hne). unfold step.
  set (ms := map fst (assign oR L2 cs X)) in *.
  assert (Hlen : length ms = length X) by (unfold ms, assign; rewrite !map_length; reflexivity).
  eapply Rle_trans; [apply (reassign_noninc _ X ms Hlen) | apply (mean_shift_noninc cs X ms d HX Hcs Hms)].
  rewrite compute_centroids_length. exact Hms.
Qed.

(** * Invariants of the iteration: k non-empty, rows of dimension d *)
Lemma cc_rows cs X ms d : X <> [] -> Forall (len d) X -> Forall (len d) cs ->
  Forall (len d) (compute_centroids oR cs X ms).
Proof.
  intros Hne HX Hcs. apply Forall_forall. intros c Hc.
  destruct (In_nth _ _ [] Hc) as [j [Hj E]]. rewrite compute_centroids_length in Hj.
  rewrite cc_nth in E by exact Hj. rewrite (dim_of_rows X d Hne HX) in E. subst c.
  apply shifted_length; [apply ptsof_rows; exact HX|].
  rewrite Forall_forall in Hcs. apply Hcs, nth_In, Hj.
Qed.

Lemma step_nonempty m (cs X : list (list R)) : cs <> [] -> step oR m cs X <> [].
Proof.
  intros H E. apply (f_equal (@length _)) in E. rewrite step_length in E.
  destruct cs; simpl in E; congruence.
Qed.

Lemma lloyd_rows m tol fuel X d : X <> [] -> Forall (len d) X -> forall cs,
  Forall (len d) cs -> Forall (len d) (lloyd oR m tol fuel cs X).
Proof.
  intros Hne HX. induction fuel as [|f IH]; intros cs Hcs; cbn [lloyd]; [exact Hcs|].
  pose proof (cc_rows cs X (map fst (assign oR m cs X)) d Hne HX Hcs) as Hs. fold (step oR m cs X) in Hs.
  destruct (ltb oR _ tol); [exact Hs | apply IH; exact Hs].
Qed.

(** the whole loop never increases the cost ... *)
Lemma lloyd_cost_noninc_R tol fuel X d : Forall (len d) X -> forall cs,
  cs <> [] -> Forall (len d) cs ->
  cost oR L2 (lloyd oR L2 tol fuel cs X) X <= cost oR L2 cs X.
Proof.
  intros HX. destruct X as [|x0 X'] eqn:EX; [intros; rewrite !cost_nil; lra|]. rewrite <- EX in *.
  assert (Hne : X <> []) by (rewrite EX; discriminate). clear EX.
  induction fuel as [|f IH]; intros cs Hcne Hcs; cbn [lloyd]; [lra|].
  pose proof (step_cost_noninc_R cs X d Hcne HX Hcs) as Hstep.
  pose proof (cc_rows cs X (map fst (assign oR L2 cs X)) d Hne HX Hcs) as Hs. fold (step oR L2 cs X) in Hs.
  destruct (ltb oR _ tol); [exact Hstep|].
  eapply Rle_trans; [apply IH; [apply step_nonempty; exact Hcne | exact Hs] | exact Hstep].
Qed.

(** ... and a larger iteration budget never yields a higher cost (same start, same tolerance):
    the two runs coincide until the smaller budget is used up or the movement test stops both *)
Lemma lloyd_budget_R tol X d : Forall (len d) X -> forall m m' cs, (m <= m')%nat ->
  cs <> [] -> Forall (len d) cs ->
  cost oR L2 (lloyd oR L2 tol m' cs X) X <= cost oR L2 (lloyd oR L2 tol m cs X) X.
Proof.
  intros HX. destruct X as [|x0 X'] eqn:EX; [intros; rewrite !cost_nil; lra|]. rewrite <- EX in *.
  assert (Hne : X <> []) by (rewrite EX; discriminate). clear EX.
  induction m as [|m IH]; intros m' cs Hm Hcne Hcs.
  - cbn [lloyd]. apply (lloyd_cost_noninc_R tol m' X d HX cs Hcne Hcs).
  - destruct m' as [|m']; [lia|]. cbn [lloyd].
    pose proof (cc_rows cs X (map fst (assign oR L2 cs X)) d Hne HX Hcs) as Hs. fold (step oR L2 cs X) in Hs.
    destruct (ltb oR _ tol); [lra|].
    apply IH; [lia | apply step_nonempty; exact Hcne | exact Hs].
Qed.

(** * Bounding box *)
Definition in_box (d : nat) (lo hi c : list R) : Prop :=
  forall t, (t < d)%nat -> nth t lo 0 <= nth t c 0 <= nth t hi 0.

Lemma cc_bbox cs X ms d lo hi : X <> [] -> Forall (len d) X -> Forall (len d) cs ->
  Forall (in_box d lo hi) X -> Forall (in_box d lo hi) cs ->
  Forall (in_box d lo hi) (compute_centroids oR cs X ms).
Proof.
  intros Hne HX Hcs BX Bcs. apply Forall_forall. intros c Hc t Ht.
  destruct (In_nth _ _ [] Hc) as [j [Hj E]]. rewrite compute_centroids_length in Hj.
  rewrite cc_nth in E by exact Hj. rewrite (dim_of_rows X d Hne HX) in E. subst c.
  rewrite Forall_forall in Hcs, BX, Bcs.
  apply cluster_bbox.
  - apply ptsof_rows; exact HX.
  - apply Hcs, nth_In, Hj.
  - exact Ht.
  - intros x Hx. apply (BX x (ptsof_in X ms j x Hx) t Ht).
  - apply (Bcs _ (nth_In cs [] Hj) t Ht).
Qed.

Lemma lloyd_bbox m tol fuel X d lo hi : X <> [] -> Forall (len d) X -> Forall (in_box d lo hi) X ->
  forall cs, Forall (len d) cs -> Forall (in_box d lo hi) cs ->
  Forall (in_box d lo hi) (lloyd oR m tol fuel cs X).
Proof.
  intros Hne HX BX. induction fuel as [|f IH]; intros cs Hcs Bcs; cbn [lloyd]; [exact Bcs|].
  pose proof (cc_rows cs X (map fst (assign oR m cs X)) d Hne HX Hcs) as Hs.
  pose proof (cc_bbox cs X (map fst (assign oR m cs X)) d lo hi Hne HX Hcs BX Bcs) as Bs.
  fold (step oR m cs X) in Hs, Bs.
  destruct (ltb oR _ tol); [exact Bs | apply IH; [exact Hs | exact Bs]].
Qed.

(** the centroids a fit returns are those of one of its runs *)
Lemma restarts_centroids_P (P : list (list R) -> Prop) m tol fuel (X : list (list R)) :
  forall (inits : list (list (list R))) best r,
  (forall b, best = Some b -> P (r_centroids b)) ->
  (forall i, In i inits -> P (lloyd oR m tol fuel i X)) ->
  fold_left (fun best init => better oR best (one_run oR m tol fuel init X)) inits best = Some r ->
  P (r_centroids r).
Proof.
  induction inits as [|i inits IH]; intros best r Hb Hi H; simpl in H; [auto|].
  eapply IH; [| |exact H]; [|intros; apply Hi; right; auto].
  intros b Eb. assert (Li : P (r_centroids (one_run oR m tol fuel i X))) by (simpl; apply Hi; left; auto).
  destruct best as [b0|]; simpl in Eb.
  - destruct (Rltb _ _); inversion Eb; subst; auto.
  - inversion Eb; subst; auto.
Qed.

Lemma fit_centroids_P (P : list (list R) -> Prop) m tol fuel k (inits : list (list (list R))) (X : list (list R)) f :
  (forall i, In i inits -> P (lloyd oR m tol fuel i X)) ->
  fit oR m tol fuel k inits X = Some f -> P (f_centroids f).
Proof.
  unfold fit, restarts.
  match goal with |- context [fold_left ?g inits None] =>
    destruct (fold_left g inits None) as [r|] eqn:E end; [|discriminate].
  intros Hi H; inversion H; subst; simpl.
  eapply restarts_centroids_P; [| exact Hi | exact E]. discriminate.
Qed.

(** * Statements in the explicit form used by C09/Properties.v *)
Lemma box_forall d lo hi (L : list (list R)) :
  (forall x t, In x L -> (t < d)%nat -> nth t lo 0 <= nth t x 0 <= nth t hi 0) <->
  Forall (in_box d lo hi) L.
Proof.
  rewrite Forall_forall. unfold in_box. split; intros H; [intros x Hx t Ht | intros x t Hx Ht]; apply H; auto.
Qed.

Lemma step_in_bbox_R m (cs X : list (list R)) d lo hi :
  X <> [] -> Forall (len d) X -> Forall (len d) cs ->
  (forall x t, In x X -> (t < d)%nat -> nth t lo 0 <= nth t x 0 <= nth t hi 0) ->
  (forall c t, In c cs -> (t < d)%nat -> nth t lo 0 <= nth t c 0 <= nth t hi 0) ->
  forall c' t, In c' (step oR m cs X) -> (t < d)%nat -> nth t lo 0 <= nth t c' 0 <= nth t hi 0.
Proof.
  intros Hne HX Hcs BX Bcs. apply box_forall. unfold step.
  apply cc_bbox; auto; apply box_forall; assumption.
Qed.

Lemma lloyd_in_bbox_R m tol fuel (cs X : list (list R)) d lo hi :
  X <> [] -> Forall (len d) X -> Forall (len d) cs ->
  (forall x t, In x X -> (t < d)%nat -> nth t lo 0 <= nth t x 0 <= nth t hi 0) ->
  (forall c t, In c cs -> (t < d)%nat -> nth t lo 0 <= nth t c 0 <= nth t hi 0) ->
  forall c' t, In c' (lloyd oR m tol fuel cs X) -> (t < d)%nat -> nth t lo 0 <= nth t c' 0 <= nth t hi 0.
Proof.
  intros Hne HX Hcs BX Bcs. apply box_forall.
  apply lloyd_bbox; auto; apply box_forall; assumption.
Qed.

Lemma fit_in_bbox_R m tol fuel k (inits : list (list (list R))) (X : list (list R)) d lo hi f :
  X <> [] -> Forall (len d) X ->
  (forall i, In i inits -> Forall (len d) i) ->
  (forall x t, In x X -> (t < d)%nat -> nth t lo 0 <= nth t x 0 <= nth t hi 0) ->
  (forall i c t, In i inits -> In c i -> (t < d)%nat -> nth t lo 0 <= nth t c 0 <= nth t hi 0) ->
  fit oR m tol fuel k inits X = Some f ->
  forall c t, In c (f_centroids f) -> (t < d)%nat -> nth t lo 0 <= nth t c 0 <= nth t hi 0.
Proof.
  intros Hne HX Hi BX Bi Hf. apply box_forall.
  apply (fit_centroids_P (Forall (in_box d lo hi)) m tol fuel k inits X f); [|exact Hf].
  intros i Hin. apply lloyd_bbox; auto; [apply box_forall; assumption|].
  apply box_forall. intros c t Hc Ht. apply (Bi i c t Hin Hc Ht).
Qed.

(** * The hypotheses are satisfiable: a concrete 1-D instance with a strict decrease *)
Definition ex_cs : list (list R) := [[0]; [10]].
Definition ex_X : list (list R) := [[1]; [2]; [9]].

Example ex_hypotheses :
  ex_cs <> [] /\ ex_X <> [] /\ Forall (len 1%nat) ex_X /\ Forall (len 1%nat) ex_cs /\
  Forall (in_box 1 [0] [10]) ex_X /\ Forall (in_box 1 [0] [10]) ex_cs.
Proof.
  unfold ex_cs, ex_X, in_box.
  split; [discriminate|]. split; [discriminate|].
  split; [repeat constructor|]. split; [repeat constructor|].
  split; repeat (apply Forall_cons; [intros [|t] Ht; [simpl; lra | lia]|]); apply Forall_nil.
Qed.

Ltac decide_ltb :=
  repeat match goal with
  | |- context [Rltb ?a ?b] =>
      first [ rewrite (proj2 (Rltb_true a b)) by lra | rewrite (proj2 (Rltb_false a b)) by lra ]
  end.

Example ex_cost_before : cost oR L2 ex_cs ex_X = 6.
Proof.
  cbv - [Rplus Rminus Rmult Rdiv Rltb IZR INR Rlt Rle]. decide_ltb. cbv iota. lra.
Qed.

Example ex_assign : map fst (assign oR L2 ex_cs ex_X) = [0; 0; 1]%nat.
Proof. cbv - [Rplus Rminus Rmult Rdiv Rltb IZR INR Rlt Rle]. decide_ltb. reflexivity. Qed.

Example ex_step : step oR L2 ex_cs ex_X = [[1]; [19 / 2]].
Proof.
  unfold step. rewrite ex_assign. cbv - [Rplus Rminus Rmult Rdiv Rltb IZR INR Rlt Rle].
  cbn [INR]. repeat f_equal; field.
Qed.

Example ex_cost_after : cost oR L2 (step oR L2 ex_cs ex_X) ex_X = 5 / 4.
Proof.
  rewrite ex_step. cbv - [Rplus Rminus Rmult Rdiv Rltb IZR INR Rlt Rle]. decide_ltb. cbv iota. lra.
Qed.

(** on this instance the step lowers the cost strictly, from 6 to 5/4, and the new centroids
    1 and 19/2 lie in the bounding box [0, 10] *)
Example ex_strict_decrease : cost oR L2 (step oR L2 ex_cs ex_X) ex_X < cost oR L2 ex_cs ex_X.
Proof. rewrite ex_cost_after, ex_cost_before. lra. Qed.
