(** C09 - lemmas about the k-means model.  Structural facts hold for every NumOps instance;
    order / arithmetic facts are proved for the real-number instance R_ops. *)
From Coq Require Import List NArith Bool Reals Lra Lia.
From LinfaVerif Require Import Common.Num Common.NdSum C09.Model.
Import ListNotations.

(** * Structural facts (any arithmetic) *)
Section Structural.
Context {F : Type} (o : NumOps F).

Lemma upd_length {A} (l : list A) k f : length (upd l k f) = length l.
Proof. revert k; induction l as [|a l IH]; intros [|k]; simpl; auto. Qed.

Lemma scan_index m cs x : forall i best bd,
  (fst (scan o m cs x i best bd) = best /\ snd (scan o m cs x i best bd) = bd) \/
  (exists j, (j < length cs)%nat /\ fst (scan o m cs x i best bd) = (i + j)%nat /\
             snd (scan o m cs x i best bd) = rdist o m (nth j cs []) x).
Proof.
  induction cs as [|c cs IH]; intros i best bd; cbn [scan].
  - left; auto.
  - destruct (ltb o (rdist o m c x) bd).
    + destruct (IH (S i) i (rdist o m c x)) as [[H1 H2]|[j [Hj [H1 H2]]]].
      * right; exists 0%nat; simpl; rewrite H1, H2; repeat split; auto; lia.
      * right; exists (S j); simpl; rewrite H1, H2; repeat split; auto; lia.
    + destruct (IH (S i) best bd) as [[H1 H2]|[j [Hj [H1 H2]]]].
      * left; auto.
      * right; exists (S j); simpl; rewrite H1, H2; repeat split; auto; lia.
Qed.

(** the returned index is a valid centroid index and the returned value is its reduced distance *)
Lemma closest_index m cs x : cs <> [] ->
  (fst (closest o m cs x) < length cs)%nat /\
  snd (closest o m cs x) = rdist o m (nth (fst (closest o m cs x)) cs []) x.
Proof.
  destruct cs as [|c0 cs]; [congruence|]; intros _. unfold closest.
  destruct (scan_index m (c0 :: cs) x 0 0%nat (rdist o m c0 x)) as [[H1 H2]|[j [Hj [H1 H2]]]].
  - rewrite H1, H2; simpl; split; auto; lia.
  - rewrite H1, H2; simpl Nat.add; split; auto.
Qed.

Lemma accumulate_length d old X ms : length (accumulate o d old X ms) = length old.
Proof.
  unfold accumulate.
  assert (G : forall l st, length (fold_left (fun st xm => upd st (snd xm)
             (fun sc => (vadd o (fst sc) (fst xm), N.succ (snd sc)))) l st) = length st).
  { induction l as [|a l IH]; intros st; simpl; auto. rewrite IH, upd_length; auto. }
  rewrite G, map_length; auto.
Qed.

(** exactly k centroids come out of every update, whatever the memberships *)
Lemma compute_centroids_length old X ms : length (compute_centroids o old X ms) = length old.
Proof. unfold compute_centroids. rewrite map_length, combine_length, accumulate_length. lia. Qed.

Lemma step_length m cs X : length (step o m cs X) = length cs.
Proof. apply compute_centroids_length. Qed.

Lemma lloyd_length m tol fuel : forall cs X, length (lloyd o m tol fuel cs X) = length cs.
Proof.
  induction fuel as [|f IH]; intros cs X; cbn [lloyd]; auto.
  destruct (ltb o _ tol); [apply step_length|]. rewrite IH. apply step_length.
Qed.

Lemma better_some best r : exists r', better o best r = Some r'.
Proof. destruct best as [b|]; simpl; [destruct (ltb o _ _)|]; eauto. Qed.

(** what `fit` reports describes the centroids it returns (finding F5 once repaired) *)
Lemma restarts_describes m tol fuel X : forall inits best r,
  (forall b, best = Some b ->
      r_members b = map fst (assign o m (r_centroids b) X) /\
      r_inertia b = usum o (map snd (assign o m (r_centroids b) X))) ->
  fold_left (fun best init => better o best (one_run o m tol fuel init X)) inits best = Some r ->
  r_members r = map fst (assign o m (r_centroids r) X) /\
  r_inertia r = usum o (map snd (assign o m (r_centroids r) X)).
Proof.
  induction inits as [|i inits IH]; intros best r Hb H; simpl in H; [auto|].
  eapply IH; [|exact H]. intros b Eb.
  destruct best as [b0|]; simpl in Eb.
  - destruct (ltb o _ _); inversion Eb; subst; [simpl; auto|auto].
  - inversion Eb; subst; simpl; auto.
Qed.

Lemma fit_describes m tol fuel k inits X f :
  fit o m tol fuel k inits X = Some f ->
  f_counts f = count_members o k (predict o m (f_centroids f) X) /\
  f_inertia f = div o (usum o (transform o m (f_centroids f) X)) (of_N o (N.of_nat (length X))).
Proof.
  unfold fit, restarts. destruct (fold_left _ inits None) as [r|] eqn:E; [|discriminate].
  intros H; inversion H; subst; clear H; simpl.
  destruct (restarts_describes m tol fuel X inits None r) as [H1 H2]; [discriminate|exact E|].
  unfold predict, transform. rewrite H1, H2. unfold assign. rewrite !map_map. auto.
Qed.

Lemma restarts_centroids_length m tol fuel X k : forall inits best r,
  (forall b, best = Some b -> length (r_centroids b) = k) ->
  (forall i, In i inits -> length i = k) ->
  fold_left (fun best init => better o best (one_run o m tol fuel init X)) inits best = Some r ->
  length (r_centroids r) = k.
Proof.
  induction inits as [|i inits IH]; intros best r Hb Hi H; simpl in H; [auto|].
  eapply IH; [| |exact H]; [|intros; apply Hi; right; auto].
  intros b Eb. assert (Li : length (r_centroids (one_run o m tol fuel i X)) = k).
  { simpl. rewrite lloyd_length. apply Hi; left; auto. }
  destruct best as [b0|]; simpl in Eb.
  - destruct (ltb o _ _); inversion Eb; subst; auto.
  - inversion Eb; subst; auto.
Qed.

Lemma fit_k_centroids m tol fuel k inits X f :
  (forall i, In i inits -> length i = k) ->
  fit o m tol fuel k inits X = Some f -> length (f_centroids f) = k.
Proof.
  unfold fit, restarts. destruct (fold_left _ inits None) as [r|] eqn:E; [|discriminate].
  intros Hi H; inversion H; subst; simpl.
  eapply restarts_centroids_length; [| exact Hi | exact E]. discriminate.
Qed.

Lemma fit_succeeds m tol fuel k inits X : inits <> [] -> exists f, fit o m tol fuel k inits X = Some f.
Proof.
  unfold fit, restarts. destruct inits as [|i inits]; [congruence|]; intros _. simpl.
  assert (G : forall l b, exists r, fold_left (fun best init => better o best (one_run o m tol fuel init X)) l (Some b) = Some r).
  { induction l as [|a l IH]; intros b; simpl; eauto. destruct (ltb o _ _); apply IH. }
  destruct (G inits (one_run o m tol fuel i X)) as [r ->]. eauto.
Qed.

End Structural.

(** * Order facts over the reals *)
Local Open Scope R_scope.
Notation oR := R_ops.

Lemma scan_le m cs : forall x i best bd,
  snd (scan oR m cs x i best bd) <= bd /\
  (forall c, In c cs -> snd (scan oR m cs x i best bd) <= rdist oR m c x).
Proof.
  induction cs as [|c cs IH]; intros x i best bd; cbn [scan].
  - cbn [snd]. split; [lra | intros c []].
  - destruct (ltb oR (rdist oR m c x) bd) eqn:E; cbn [ltb oR] in E.
    + apply Rltb_true in E. destruct (IH x (S i) i (rdist oR m c x)) as [H1 H2].
      split; [lra|]. intros c' [->|Hin]; auto.
    + apply Rltb_false in E. destruct (IH x (S i) best bd) as [H1 H2].
      split; [lra|]. intros c' [->|Hin]; [lra | auto].
Qed.

(** the reported distance is minimal over all centroids, for each of the three metrics *)
Lemma closest_min m cs x c : In c cs -> snd (closest oR m cs x) <= rdist oR m c x.
Proof. destruct cs as [|c0 cs]; [intros []|]. intros H. unfold closest. apply scan_le. exact H. Qed.

(** restarts: the kept inertia never increases when one more initialisation is appended *)
Lemma better_le best r r' : better oR best r = Some r' ->
  r_inertia r' <= r_inertia r /\ (forall b, best = Some b -> r_inertia r' <= r_inertia b).
Proof.
  destruct best as [b|]; simpl.
  - destruct (Rltb (r_inertia r) (r_inertia b)) eqn:E; intros H; inversion H; subst.
    + apply Rltb_true in E. split; [lra|]. intros b0 Hb; inversion Hb; subst; lra.
    + apply Rltb_false in E. split; [lra|]. intros b0 Hb; inversion Hb; subst; lra.
  - intros H; inversion H; subst. split; [lra | discriminate].
Qed.

Lemma restarts_app m tol fuel inits i X :
  restarts oR m tol fuel (inits ++ [i]) X =
  better oR (restarts oR m tol fuel inits X) (one_run oR m tol fuel i X).
Proof. unfold restarts. rewrite fold_left_app. reflexivity. Qed.

Lemma restarts_noninc m tol fuel inits i X r r' :
  restarts oR m tol fuel inits X = Some r ->
  restarts oR m tol fuel (inits ++ [i]) X = Some r' ->
  r_inertia r' <= r_inertia r.
Proof.
  intros H H'. rewrite restarts_app, H in H'. apply better_le in H' as [_ H']. apply H'; auto.
Qed.

(** counts: one unit per membership, hence they sum to the number of observations *)
Lemma seq_sum_acc (l : list R) a : fold_left Rplus l a = a + fold_left Rplus l 0.
Proof.
  revert a; induction l as [|x l IH]; intros a; simpl; [lra|].
  rewrite IH. rewrite (IH (0 + x)). lra.
Qed.

Lemma seq_sum_upd (l : list R) c : (c < length l)%nat ->
  seq_sum oR (upd l c (fun v => v + 1)) = seq_sum oR l + 1.
Proof.
  unfold seq_sum; cbn [add zero oR]. revert c; induction l as [|a l IH]; intros c Hc; simpl in Hc; [lia|].
  destruct c as [|c]; simpl.
  - rewrite (seq_sum_acc l (0 + (a + 1))), (seq_sum_acc l (0 + a)). lra.
  - rewrite (seq_sum_acc _ (0 + a)), (seq_sum_acc l (0 + a)).
    assert (Hc' : (c < length l)%nat) by lia. specialize (IH c Hc'). lra.
Qed.

Lemma seq_sum_repeat0 k : seq_sum oR (repeat 0 k) = 0.
Proof.
  unfold seq_sum; cbn [add zero oR]. induction k as [|k IH]; simpl; auto.
  rewrite seq_sum_acc, IH. lra.
Qed.

Lemma counts_sum k ms : Forall (fun c => (c < k)%nat) ms ->
  seq_sum oR (count_members oR k ms) = INR (length ms).
Proof.
  unfold count_members; cbn [add zero one oR].
  assert (G : forall ms cnt, length cnt = k -> Forall (fun c => (c < k)%nat) ms ->
     seq_sum oR (fold_left (fun cnt c => upd cnt c (fun v => v + 1)) ms cnt) = seq_sum oR cnt + INR (length ms)).
  { induction ms0 as [|c ms0 IH]; intros cnt Hl Hf; cbn [fold_left length].
    - simpl; lra.
    - inversion Hf; subst. rewrite IH; [| rewrite upd_length; auto | auto].
      rewrite seq_sum_upd by lia. rewrite S_INR. lra. }
  intros Hf. rewrite G; [| apply repeat_length | auto]. rewrite seq_sum_repeat0. lra.
Qed.

Lemma predict_in_range m cs X : cs <> [] -> Forall (fun c => (c < length cs)%nat) (predict oR m cs X).
Proof.
  intros Hcs. unfold predict. apply Forall_forall. intros c Hc. apply in_map_iff in Hc as [x [<- _]].
  apply (closest_index oR m cs x Hcs).
Qed.
