(** C09 - property theorems (statements only; proofs are in C09/Proofs.v, C09/Cost.v, C09/Fixed.v,
    C09/InitProofs.v and C09/ExtProofs.v). *)
From Coq Require Import List NArith Reals Floats.
From LinfaVerif Require Import Common.Num Common.NdSum C09.Model C09.ModelExt C09.Proofs C09.Cost C09.Fixed
  C09.InitProofs C09.ExtProofs.
Import ListNotations.
Local Open Scope R_scope.

(** every observation (training or new) is assigned to a centroid at minimal reduced distance, and
    `transform` reports exactly that distance - for the L1, L2 and L-infinity metrics *)
Theorem predict_is_argmin : forall (m : metric) (cs : list (list R)) (x : list R),
  cs <> [] ->
  let p := fst (closest R_ops m cs x) in
  (p < length cs)%nat /\
  snd (closest R_ops m cs x) = rdist R_ops m (nth p cs []) x /\
  forall c, In c cs -> snd (closest R_ops m cs x) <= rdist R_ops m c x.
Proof.
  intros m cs x H p. destruct (closest_index R_ops m cs x H) as [H1 H2].
  repeat split; [exact H1 | exact H2 | intros c Hc; exact (closest_min m cs x c Hc)].
Qed.

(** a fit from r >= 1 initialisations of k centroids each returns exactly k centroids *)
Theorem fit_returns_k_centroids : forall F (o : NumOps F) m tol fuel k inits X,
  inits <> [] -> (forall i, In i inits -> length i = k) ->
  exists f, fit o m tol fuel k inits X = Some f /\ length (f_centroids f) = k.
Proof.
  intros F o m tol fuel k inits X H1 H2. destruct (fit_succeeds o m tol fuel k inits X H1) as [f Hf].
  exists f; split; [exact Hf | exact (fit_k_centroids o m tol fuel k inits X f H2 Hf)].
Qed.

(** the reported per-cluster counts and inertia are those of the returned centroids, in every arithmetic *)
Theorem reported_describes_returned : forall F (o : NumOps F) m tol fuel k inits X f,
  fit o m tol fuel k inits X = Some f ->
  f_counts f = count_members o k (predict o m (f_centroids f) X) /\
  f_inertia f = div o (usum o (transform o m (f_centroids f) X)) (of_N o (N.of_nat (length X))).
Proof. exact (@fit_describes). Qed.

(** the counts sum to the number of observations *)
Theorem counts_sum_to_n : forall m (cs X : list (list R)),
  cs <> [] -> seq_sum R_ops (count_members R_ops (length cs) (predict R_ops m cs X)) = INR (length X).
Proof.
  intros m cs X H. rewrite (counts_sum (length cs) _ (predict_in_range m cs X H)).
  unfold predict. rewrite map_length. reflexivity.
Qed.

(** allowing one more restart (same stream of initialisations) never yields a higher inertia *)
Theorem restarts_never_increase_inertia : forall m tol fuel inits i X r r',
  restarts R_ops m tol fuel inits X = Some r ->
  restarts R_ops m tol fuel (inits ++ [i]) X = Some r' ->
  r_inertia r' <= r_inertia r.
Proof. exact restarts_noninc. Qed.

(** one Lloyd step (re-assignment to the closest centroid, then the centroid update
    (sum of the cluster's points + old centroid) / (count + 1)) never increases the L2 cost, i.e. the
    sum over the observations of the squared distance to the closest centroid *)
Theorem step_cost_noninc : forall (cs X : list (list R)) (d : nat),
  cs <> [] -> Forall (fun x => length x = d) X -> Forall (fun c => length c = d) cs ->
  cost R_ops L2 (step R_ops L2 cs X) X <= cost R_ops L2 cs X.
Proof. exact step_cost_noninc_R. Qed.

(** the hypotheses are satisfiable and the decrease can be strict: centroids 0, 10 and data 1, 2, 9 *)
Example step_cost_noninc_instance :
  ([[0]; [10]] : list (list R)) <> [] /\
  Forall (fun x => length x = 1%nat) [[1]; [2]; [9]] /\
  Forall (fun c => length c = 1%nat) [[0]; [10]] /\
  cost R_ops L2 (step R_ops L2 [[0]; [10]] [[1]; [2]; [9]]) [[1]; [2]; [9]] = 5 / 4 /\
  cost R_ops L2 [[0]; [10]] [[1]; [2]; [9]] = 6.
Proof.
  destruct ex_hypotheses as [H1 [_ [H2 [H3 _]]]].
  exact (conj H1 (conj H2 (conj H3 (conj ex_cost_after ex_cost_before)))).
Qed.

(** the whole loop (any tolerance, any iteration budget, early stop included) never ends with a
    higher cost than it started with *)
Theorem lloyd_cost_noninc : forall (tol : R) (fuel : nat) (cs X : list (list R)) (d : nat),
  cs <> [] -> Forall (fun x => length x = d) X -> Forall (fun c => length c = d) cs ->
  cost R_ops L2 (lloyd R_ops L2 tol fuel cs X) X <= cost R_ops L2 cs X.
Proof. intros tol fuel cs X d H1 H2 H3. exact (lloyd_cost_noninc_R tol fuel X d H2 cs H1 H3). Qed.

(** from a fixed initialisation and tolerance, a larger iteration budget never gives a higher cost *)
Theorem lloyd_cost_monotone_in_budget : forall (tol : R) (m m' : nat) (cs X : list (list R)) (d : nat),
  (m <= m')%nat ->
  cs <> [] -> Forall (fun x => length x = d) X -> Forall (fun c => length c = d) cs ->
  cost R_ops L2 (lloyd R_ops L2 tol m' cs X) X <= cost R_ops L2 (lloyd R_ops L2 tol m cs X) X.
Proof. intros tol m m' cs X d Hm H1 H2 H3. exact (lloyd_budget_R tol X d H2 m m' cs Hm H1 H3). Qed.

(** bounding box, one step (every metric): if coordinate t of every observation and of every previous
    centroid lies in [lo_t, hi_t], so does coordinate t of every updated centroid *)
Theorem centroids_in_bbox : forall (m : metric) (cs X : list (list R)) (d : nat) (lo hi : list R),
  X <> [] -> Forall (fun x => length x = d) X -> Forall (fun c => length c = d) cs ->
  (forall x t, In x X -> (t < d)%nat -> nth t lo 0 <= nth t x 0 <= nth t hi 0) ->
  (forall c t, In c cs -> (t < d)%nat -> nth t lo 0 <= nth t c 0 <= nth t hi 0) ->
  forall c' t, In c' (step R_ops m cs X) -> (t < d)%nat -> nth t lo 0 <= nth t c' 0 <= nth t hi 0.
Proof. exact step_in_bbox_R. Qed.

(** ... hence for the centroids at the end of the loop ... *)
Theorem lloyd_centroids_in_bbox : forall (m : metric) (tol : R) (fuel : nat) (cs X : list (list R))
    (d : nat) (lo hi : list R),
  X <> [] -> Forall (fun x => length x = d) X -> Forall (fun c => length c = d) cs ->
  (forall x t, In x X -> (t < d)%nat -> nth t lo 0 <= nth t x 0 <= nth t hi 0) ->
  (forall c t, In c cs -> (t < d)%nat -> nth t lo 0 <= nth t c 0 <= nth t hi 0) ->
  forall c' t, In c' (lloyd R_ops m tol fuel cs X) -> (t < d)%nat ->
    nth t lo 0 <= nth t c' 0 <= nth t hi 0.
Proof. exact lloyd_in_bbox_R. Qed.

(** ... and for the centroids `fit` returns, whichever restart wins: inside the box of the data and
    of all initial centroids (inside the data's box when initialised from the data) *)
Theorem fit_centroids_in_bbox : forall (m : metric) (tol : R) (fuel k : nat)
    (inits : list (list (list R))) (X : list (list R)) (d : nat) (lo hi : list R) (f : fitted),
  X <> [] -> Forall (fun x => length x = d) X ->
  (forall i, In i inits -> Forall (fun c => length c = d) i) ->
  (forall x t, In x X -> (t < d)%nat -> nth t lo 0 <= nth t x 0 <= nth t hi 0) ->
  (forall i c t, In i inits -> In c i -> (t < d)%nat -> nth t lo 0 <= nth t c 0 <= nth t hi 0) ->
  fit R_ops m tol fuel k inits X = Some f ->
  forall c t, In c (f_centroids f) -> (t < d)%nat -> nth t lo 0 <= nth t c 0 <= nth t hi 0.
Proof. exact fit_in_bbox_R. Qed.

(** the box hypotheses are satisfiable (data 1, 2, 9; centroids 0, 10; box [0, 10]) and the updated
    centroids of that instance are 1 and 19/2 *)
Example centroids_in_bbox_instance :
  Forall (in_box 1 [0] [10]) [[1]; [2]; [9]] /\ Forall (in_box 1 [0] [10]) [[0]; [10]] /\
  step R_ops L2 [[0]; [10]] [[1]; [2]; [9]] = [[1]; [19 / 2]].
Proof.
  destruct ex_hypotheses as [_ [_ [_ [_ [H1 H2]]]]]. exact (conj H1 (conj H2 ex_step)).
Qed.

(** ---- initialisers ---- *)

(** `KMeansInit::Random` returns rows of the data (the indices come from `rand::seq::index::sample`,
    which only yields indices below the number of observations) *)
Theorem random_centroids_are_data_rows : forall F (X : list (list F)) (idx : list nat) (c : list F),
  Forall (fun i => (i < length X)%nat) idx -> In c (random_init X idx) -> In c X.
Proof. exact (@random_init_rows). Qed.

(** k-means++ (init.rs on top of rand's WeightedIndex / UniformFloat, as a function of the generator's
    raw 64-bit words) returns exactly k centroids and every one of them is a row of the data - in every
    arithmetic, for every metric, whatever the generator produces, including the fallback to
    observation 0 when all remaining distances are zero *)
Theorem plusplus_centroids_are_data_rows : forall F (o : NumOps F) (fmt : sample_fmt F) (m : metric)
    (X : list (list F)) (k : nat) (words : list N),
  X <> [] -> (1 <= k)%nat ->
  length (fst (plusplus o fmt m X k words)) = k /\
  forall c, In c (fst (plusplus o fmt m X k words)) -> In c X.
Proof.
  intros F o fmt m X k words HX Hk.
  exact (conj (plusplus_length o fmt m X k words Hk) (fun c => plusplus_rows o fmt m X k words c HX)).
Qed.

(** ... the same for the initialisations of all restarts of one fit (one generator stream) *)
Theorem plusplus_inits_are_data_rows : forall F (o : NumOps F) (fmt : sample_fmt F) (m : metric)
    (X : list (list F)) (k runs : nat) (words : list N),
  X <> [] -> (1 <= k)%nat ->
  length (plusplus_inits o fmt m X k runs words) = runs /\
  forall i, In i (plusplus_inits o fmt m X k runs words) ->
    length i = k /\ forall c, In c i -> In c X.
Proof.
  intros F o fmt m X k runs words HX Hk.
  exact (conj (plusplus_inits_length o fmt m X k runs words)
              (plusplus_inits_spec o fmt m X k runs HX Hk words)).
Qed.

(** the executable model at binary64: three equal observations, k = 2: the second pick is the fallback
    (all distances zero), it is observation 0 and consumes no generator word *)
Example plusplus_centroids_instance :
  let X := [[1%float]; [1%float]; [1%float]] in
  let fmt := {| sf_mant := 52%N; sf_pred := PrimFloat.next_down |} in
  X <> [] /\ length (fst (plusplus B64_ops fmt L2 X 2 [18446744073709551615%N; 7%N])) = 2%nat /\
  snd (plusplus B64_ops fmt L2 X 2 [18446744073709551615%N; 7%N]) = [7%N].
Proof. exact plusplus_instance. Qed.

(** a fit whose initial centroids are rows of the data (Random, k-means++, or Precomputed that way)
    returns centroids inside the bounding box of the data alone *)
Theorem fit_from_data_rows_in_bbox : forall (m : metric) (tol : R) (fuel k : nat)
    (inits : list (list (list R))) (X : list (list R)) (d : nat) (lo hi : list R) (f : fitted),
  X <> [] -> Forall (fun x => length x = d) X ->
  (forall i c, In i inits -> In c i -> In c X) ->
  (forall x t, In x X -> (t < d)%nat -> nth t lo 0 <= nth t x 0 <= nth t hi 0) ->
  fit R_ops m tol fuel k inits X = Some f ->
  forall c t, In c (f_centroids f) -> (t < d)%nat -> nth t lo 0 <= nth t c 0 <= nth t hi 0.
Proof. exact fit_data_rows_in_bbox_R. Qed.

(** in particular a k-means++ fit, for every generator stream and number of restarts *)
Theorem plusplus_fit_in_bbox : forall (fmt : sample_fmt R) (m : metric) (tol : R) (fuel k runs : nat)
    (words : list N) (X : list (list R)) (d : nat) (lo hi : list R) (f : fitted),
  X <> [] -> (1 <= k)%nat -> Forall (fun x => length x = d) X ->
  (forall x t, In x X -> (t < d)%nat -> nth t lo 0 <= nth t x 0 <= nth t hi 0) ->
  fit R_ops m tol fuel k (plusplus_inits R_ops fmt m X k runs words) X = Some f ->
  forall c t, In c (f_centroids f) -> (t < d)%nat -> nth t lo 0 <= nth t c 0 <= nth t hi 0.
Proof.
  intros fmt m tol fuel k runs words X d lo hi f HX Hk Hd HB Hf.
  apply (fit_data_rows_in_bbox_R m tol fuel k (plusplus_inits R_ops fmt m X k runs words) X d lo hi f HX Hd);
    [| exact HB | exact Hf].
  intros i c Hi Hc. exact (proj2 (plusplus_inits_spec R_ops fmt m X k runs HX Hk words i Hi) c Hc).
Qed.

(** ---- fixed points and the reported inertia ---- *)

(** what a fixed point of the m_k-means step is (any of the three metrics): `step cs X = cs` holds
    exactly when, for every centroid j, (size of its cluster) * c_j = (sum of its cluster), coordinate
    by coordinate - i.e. every centroid that owns at least one observation is the exact mean of its
    cluster (the "+ old centroid, / (count + 1)" of m_k-means cancels at a fixed point, so these are
    the fixed points of the classical Lloyd step too), and a centroid with an empty cluster is
    unconstrained. [cluster m j cs X] = the observations whose closest centroid is j. *)
Theorem lloyd_fixed_point_characterisation : forall (m : metric) (cs X : list (list R)) (d : nat),
  X <> [] -> Forall (fun x => length x = d) X -> Forall (fun c => length c = d) cs ->
  (step R_ops m cs X = cs <->
   forall j t, (j < length cs)%nat -> (t < d)%nat ->
     INR (length (cluster m j cs X)) * nth t (nth j cs []) 0 =
     seq_sum R_ops (map (fun x => nth t x 0) (cluster m j cs X))).
Proof.
  intros m cs X d H1 H2 H3. rewrite (step_fixed_iff m cs X d H1 H2 H3).
  split; intros H j t Hj Ht; [rewrite seq_sum_rsum | rewrite <- seq_sum_rsum]; apply H; assumption.
Qed.

(** at a fixed point (L2) the cost cannot be lowered by moving any single centroid j to any position c'
    while the observations stay in their clusters - in particular not by the m_k-means move to
    (sum of the cluster + c_j) / (count + 1), which is a no-op there.  [fixed_assign_cost cs cs' X] is
    the sum over the observations x of the squared distance between x and cs'[closest index of x
    among cs]; for cs' = cs it is the k-means cost. *)
Theorem lloyd_fixed_point : forall (cs X : list (list R)) (d j : nat) (c' : list R),
  X <> [] -> Forall (fun x => length x = d) X -> Forall (fun c => length c = d) cs ->
  step R_ops L2 cs X = cs -> (j < length cs)%nat -> length c' = d ->
  fixed_assign_cost cs cs X = cost R_ops L2 cs X /\
  cost R_ops L2 cs X <= fixed_assign_cost cs (upd cs j (fun _ => c')) X.
Proof.
  intros cs X d j c' H1 H2 H3 H4 H5 H6.
  assert (Hne : cs <> []) by (intros E; rewrite E in H5; inversion H5).
  split; [exact (fac_self cs X Hne)|]. rewrite <- (fac_self cs X Hne).
  exact (fixed_point_single_move cs X d j c' H1 H2 H3 H4 H5 H6).
Qed.

(** the hypotheses are satisfiable: data 1, 3, 9 with centroids 2, 9 is a fixed point, and it stays
    one when a far centroid 100 with an empty cluster is added *)
Example lloyd_fixed_point_instance :
  step R_ops L2 [[2]; [9]] [[1]; [3]; [9]] = [[2]; [9]] /\
  step R_ops L2 [[2]; [9]; [100]] [[1]; [3]; [9]] = [[2]; [9]; [100]].
Proof. exact (conj ex_fixed ex_fixed_empty_cluster). Qed.

(** the inertia `fit` reports is the k-means cost of the centroids it returns divided by the number of
    observations (over the reals ndarray's 8-lane unrolled `sum()` is the plain sum; `cost` is the
    sequential sum of the distances to the closest centroid), for every metric *)
Theorem inertia_is_mean_cost : forall (m : metric) (tol : R) (fuel k : nat)
    (inits : list (list (list R))) (X : list (list R)) (f : fitted),
  fit R_ops m tol fuel k inits X = Some f ->
  f_inertia f = cost R_ops m (f_centroids f) X / INR (length X).
Proof. exact inertia_mean_cost_R. Qed.

(** ---- the whole fit: restart loop, iteration budget ---- *)

(** the literal model of `KMeans::fit` - restart loop around the Lloyd loop, the counter `n_iter` a
    local of the restart body, stop on `distance < tolerance || n_iter == max_n_iterations` - returns
    what the structured model [fit] (used by all theorems above) returns, in every arithmetic
    (max_n_iterations >= 1 is what the parameter guard admits) *)
Theorem fit_whole_is_fit : forall F (o : NumOps F) m tol (max : N) k inits X,
  (1 <= max)%N -> fst (fit_whole o m tol max k inits X) = fit o m tol (N.to_nat max) k inits X.
Proof. exact (@fit_whole_fit). Qed.

(** every restart uses its own budget: the number of Lloyd iterations restart i performs is the number
    it performs when it is the only restart (a function of its own initialisation, not of what the
    earlier restarts did), it is at least 1 and at most max_n_iterations - in every arithmetic *)
Theorem fit_run_uses_own_budget : forall F (o : NumOps F) m tol (max : N) k inits X,
  (1 <= max)%N ->
  snd (fit_whole o m tol max k inits X) = map (fun init => iters_alone o m tol max init X) inits /\
  (forall init, snd (fit_whole o m tol max k [init] X) = [iters_alone o m tol max init X]) /\
  Forall (fun n => 1 <= n <= max)%N (snd (fit_whole o m tol max k inits X)).
Proof.
  intros F o m tol max k inits X H. rewrite (fit_whole_iters o m tol max k inits X H).
  split; [reflexivity|]. split; [intros init; exact (fit_whole_iters o m tol max k [init] X H)|].
  apply Forall_forall. intros n Hn. apply in_map_iff in Hn as [init [<- _]].
  exact (iters_alone_bounds o m tol max init X H).
Qed.

(** the observable form of the budget (oracle bit 2048 of C09/Corr.v): the returned centroids are
    step^j(init) for the initialisation of one of the restarts and some 1 <= j <= max_n_iterations;
    [iterates o n m init X] is the list [step^1 init; ...; step^n init] *)
Theorem fit_returns_iterate_within_budget : forall F (o : NumOps F) m tol fuel k inits X f,
  (1 <= fuel)%nat -> fit o m tol fuel k inits X = Some f ->
  exists init, In init inits /\ In (f_centroids f) (iterates o fuel m init X).
Proof. exact (@fit_iterate_within_budget). Qed.

Theorem iterates_are_step_powers : forall F (o : NumOps F) m X n j cs,
  length (iterates o n m cs X) = n /\
  ((j < n)%nat -> nth_error (iterates o n m cs X) j = Some (Nat.iter (S j) (fun c => step o m c X) cs)).
Proof. intros F o m X n j cs. exact (conj (iterates_length o m X n cs) (iterates_nth o m X n j cs)). Qed.

(** restarts that all start from the same centroids (`Precomputed` with n_runs > 1) return what one
    run returns: the number of restarts is irrelevant - in every arithmetic *)
Theorem restarts_of_one_init : forall F (o : NumOps F) m tol fuel k init X n,
  fit o m tol fuel k (repeat init (S n)) X = fit o m tol fuel k [init] X.
Proof. exact (@fit_one_init). Qed.

(** a fixed sequence of initialisations (n_runs restarts), a larger iteration budget: the kept inertia
    and the L2 cost of the returned centroids do not increase *)
Theorem restarts_cost_monotone_in_budget : forall (tol : R) (fuel fuel' : nat)
    (inits : list (list (list R))) (X : list (list R)) (d : nat) r r',
  (fuel <= fuel')%nat -> Forall (fun x => length x = d) X ->
  (forall i, In i inits -> i <> [] /\ Forall (fun c => length c = d) i) ->
  restarts R_ops L2 tol fuel inits X = Some r -> restarts R_ops L2 tol fuel' inits X = Some r' ->
  r_inertia r' <= r_inertia r /\
  cost R_ops L2 (r_centroids r') X <= cost R_ops L2 (r_centroids r) X.
Proof. exact restarts_budget_R. Qed.

(** the hypotheses are satisfiable and the budget theorem separates the code from the variant with one
    counter for all restarts (binary64, evaluated): initial centroid 10, observations 0 and 2,
    max_n_iterations = 1, two restarts.  The code: iterations [1; 1], result 4 = (0 + 2 + 10) / 3.
    One shared counter: iterations [1; 8] - the second restart exceeds the budget - and a result below
    1.125 that is not reachable within one step. *)
Example fit_run_uses_own_budget_instance :
  let run reset := restart_loop B64_ops reset 40 L2 0x1p-7%float 1 [[[10%float]]; [[10%float]]] [[0%float]; [2%float]] in
  snd (snd (run true)) = [1%N; 1%N] /\
  option_map (fun r => r_centroids r) (fst (run true)) = Some [[4%float]] /\
  snd (snd (run false)) = [1%N; 8%N] /\
  option_map (fun r => Nat.eqb (length (r_centroids r)) 1) (fst (run false)) = Some true /\
  option_map (fun r => existsb (fun c => existsb (fun v => PrimFloat.ltb v 1.125%float) c) (r_centroids r)) (fst (run false)) = Some true.
Proof. exact counter_instance. Qed.

(** ---- k-means|| ---- *)

(** rand's `gen_range(0..range)` on u64 / usize (widening multiply, rejection zone) returns a value
    below range for every word stream (0 when the recorded words run out) *)
Theorem gen_range_below : forall (range : N) (words : list N),
  (0 < range)%N -> (fst (gen_below range words) < range)%N.
Proof. intros range words H. exact (gen_below_lt range H words). Qed.

(** k-means|| (init.rs k_means_para: first candidate, at most 8 rounds of independent selection with
    probability k * d / cost against whatever numbers the per-task generators produce, candidate
    buffer of 8 k rows, membership counts as weights, weighted k-means++ over the candidates) returns
    exactly k centroids and each is a row of the data - in every arithmetic, for every metric, for
    every way [round_of] of producing the per-round numbers (i.e. every task split / thread count) and
    every first index below n *)
Theorem para_centroids_are_data_rows : forall F (o : NumOps F) (fmt : sample_fmt F)
    (first_of : list N -> nat -> nat * list N) (round_of : list N -> nat -> list F * list N)
    (m : metric) (X : list (list F)) (k : nat) (words : list N),
  (1 <= k)%nat -> (fst (first_of words (length X)) < length X)%nat ->
  length (fst (para_init o fmt first_of round_of m X k words)) = k /\
  forall c, In c (fst (para_init o fmt first_of round_of m X k words)) -> In c X.
Proof. exact (@para_init_rows). Qed.

(** ... with the first index drawn as rand draws it, no hypothesis on the generator is left; the same
    for the initialisations of all restarts of one fit *)
Theorem para_inits_are_data_rows : forall F (o : NumOps F) (fmt : sample_fmt F)
    (round_of : list N -> nat -> list F * list N) (m : metric) (X : list (list F)) (k runs : nat) (words : list N),
  X <> [] -> (1 <= k)%nat ->
  length (para_inits o fmt rand_first round_of m X k runs words) = runs /\
  forall i, In i (para_inits o fmt rand_first round_of m X k runs words) ->
    length i = k /\ forall c, In c i -> In c X.
Proof.
  intros F o fmt round_of m X k runs words HX Hk.
  split; [exact (para_inits_length o fmt rand_first round_of m X k runs words)|].
  apply (para_inits_spec o fmt rand_first round_of m X k Hk).
  intros w. apply rand_first_lt. destruct X; [congruence | simpl; apply Nat.lt_0_succ].
Qed.

(** a k-means|| fit returns centroids inside the bounding box of the data, for every generator
    stream, task split and number of restarts *)
Theorem para_fit_in_bbox : forall (fmt : sample_fmt R) (round_of : list N -> nat -> list R * list N)
    (m : metric) (tol : R) (fuel k runs : nat) (words : list N) (X : list (list R)) (d : nat)
    (lo hi : list R) (f : fitted),
  X <> [] -> (1 <= k)%nat -> Forall (fun x => length x = d) X ->
  (forall x t, In x X -> (t < d)%nat -> nth t lo 0 <= nth t x 0 <= nth t hi 0) ->
  fit R_ops m tol fuel k (para_inits R_ops fmt rand_first round_of m X k runs words) X = Some f ->
  forall c t, In c (f_centroids f) -> (t < d)%nat -> nth t lo 0 <= nth t c 0 <= nth t hi 0.
Proof.
  intros fmt round_of m tol fuel k runs words X d lo hi f HX Hk Hd HB Hf.
  apply (fit_data_rows_in_bbox_R m tol fuel k (para_inits R_ops fmt rand_first round_of m X k runs words) X d lo hi f HX Hd);
    [| exact HB | exact Hf].
  intros i c Hi Hc.
  exact (proj2 (proj2 (para_inits_are_data_rows R R_ops fmt round_of m X k runs words HX Hk) i Hi) c Hc).
Qed.

(** the executable model at binary64 with the draws of a one-thread pool: six observations on a line,
    k = 2: all six become candidates within the rounds and the re-clustering returns rows 0 and 12 *)
Example para_centroids_instance :
  length (fst (para_candidates B64_ops rand_first (rayon1_round B64_ops) L2 para_ex_X 2 para_ex_words)) = 6%nat /\
  fst (para_init B64_ops fmt64 rand_first (rayon1_round B64_ops) L2 para_ex_X 2 para_ex_words) = [[0%float]; [12%float]] /\
  length (fst (para_init B64_ops fmt64 rand_first (rayon1_round B64_ops) L2 para_ex_X 2 para_ex_words)) = 2%nat /\
  forallb (fun c => existsb (fun x => list_eqb f64_biteq c x) para_ex_X)
          (fst (para_init B64_ops fmt64 rand_first (rayon1_round B64_ops) L2 para_ex_X 2 para_ex_words)) = true.
Proof. exact para_instance. Qed.
