(** C09 - property theorems (statements only; proofs are in C09/Proofs.v). *)
From Coq Require Import List NArith Reals.
From LinfaVerif Require Import Common.Num Common.NdSum C09.Model C09.Proofs.
Import ListNotations.
Local Open Scope R_scope.

(** every observation (training or new) is assigned to a centroid at minimal reduced distance, and
    `transform` reports exactly that distance - for the L1, L2 and L-infinity metrics *)
Theorem predict_is_argmin : forall (m : metric) (cs : list (list R)) (x : list R),
  cs <> [] ->
  let p := fst (closest R_ops m cs x) in
  (p < length cs)%nat /\
  snd (closest R_ops m cs x) = rdist R_ops m (nth p cs []) x /\
  forall c, In c cs -> snd (closest R_ops m cs x) <= rdist R_ops m c x.
Proof.
  intros m cs x H p. destruct (closest_index R_ops m cs x H) as [H1 H2].
  repeat split; [exact H1 | exact H2 | intros c Hc; exact (closest_min m cs x c Hc)].
Qed.

(** a fit from r >= 1 initialisations of k centroids each returns exactly k centroids *)
Theorem fit_returns_k_centroids : forall F (o : NumOps F) m tol fuel k inits X,
  inits <> [] -> (forall i, In i inits -> length i = k) ->
  exists f, fit o m tol fuel k inits X = Some f /\ length (f_centroids f) = k.
Proof.
  intros F o m tol fuel k inits X H1 H2. destruct (fit_succeeds o m tol fuel k inits X H1) as [f Hf].
  exists f; split; [exact Hf | exact (fit_k_centroids o m tol fuel k inits X f H2 Hf)].
Qed.

(** the reported per-cluster counts and inertia are those of the returned centroids, in every arithmetic *)
Theorem reported_describes_returned : forall F (o : NumOps F) m tol fuel k inits X f,
  fit o m tol fuel k inits X = Some f ->
  f_counts f = count_members o k (predict o m (f_centroids f) X) /\
  f_inertia f = div o (usum o (transform o m (f_centroids f) X)) (of_N o (N.of_nat (length X))).
Proof. exact (@fit_describes). Qed.

(** the counts sum to the number of observations *)
Theorem counts_sum_to_n : forall m (cs X : list (list R)),
  cs <> [] -> seq_sum R_ops (count_members R_ops (length cs) (predict R_ops m cs X)) = INR (length X).
Proof.
  intros m cs X H. rewrite (counts_sum (length cs) _ (predict_in_range m cs X H)).
  unfold predict. rewrite map_length. reflexivity.
Qed.

(** allowing one more restart (same stream of initialisations) never yields a higher inertia *)
Theorem restarts_never_increase_inertia : forall m tol fuel inits i X r r',
  restarts R_ops m tol fuel inits X = Some r ->
  restarts R_ops m tol fuel (inits ++ [i]) X = Some r' ->
  r_inertia r' <= r_inertia r.
Proof. exact restarts_noninc. Qed.
