(** C09 - property theorems (statements only; proofs are in C09/Proofs.v and C09/Cost.v). *)
From Coq Require Import List NArith Reals.
From LinfaVerif Require Import Common.Num Common.NdSum C09.Model C09.Proofs C09.Cost.
Import ListNotations.
Local Open Scope R_scope.

(** every observation (training or new) is assigned to a centroid at minimal reduced distance, and
    `transform` reports exactly that distance - for the L1, L2 and L-infinity metrics *)
Theorem predict_is_argmin : forall (m : metric) (cs : list (list R)) (x : list R),
  cs <> [] ->
  let p := fst (closest R_ops m cs x) in
  (p < length cs)%nat /\
  snd (closest R_ops m cs x) = rdist R_ops m (nth p cs []) x /\
  forall c, In c cs -> snd (closest R_ops m cs x) <= rdist R_ops m c x.
Proof.
  intros m cs x H p. destruct (closest_index R_ops m cs x H) as [H1 H2].
  repeat split; [exact H1 | exact H2 | intros c Hc; exact (closest_min m cs x c Hc)].
Qed.

(** a fit from r >= 1 initialisations of k centroids each returns exactly k centroids *)
Theorem fit_returns_k_centroids : forall F (o : NumOps F) m tol fuel k inits X,
  inits <> [] -> (forall i, In i inits -> length i = k) ->
  exists f, fit o m tol fuel k inits X = Some f /\ length (f_centroids f) = k.
Proof.
  intros F o m tol fuel k inits X H1 H2. destruct (fit_succeeds o m tol fuel k inits X H1) as [f Hf].
  exists f; split; [exact Hf | exact (fit_k_centroids o m tol fuel k inits X f H2 Hf)].
Qed.

(** the reported per-cluster counts and inertia are those of the returned centroids, in every arithmetic *)
Theorem reported_describes_returned : forall F (o : NumOps F) m tol fuel k inits X f,
  fit o m tol fuel k inits X = Some f ->
  f_counts f = count_members o k (predict o m (f_centroids f) X) /\
  f_inertia f = div o (usum o (transform o m (f_centroids f) X)) (of_N o (N.of_nat (length X))).
Proof. exact (@fit_describes). Qed.

(** the counts sum to the number of observations *)
Theorem counts_sum_to_n : forall m (cs X : list (list R)),
  cs <> [] -> seq_sum R_ops (count_members R_ops (length cs) (predict R_ops m cs X)) = INR (length X).
Proof.
  intros m cs X H. rewrite (counts_sum (length cs) _ (predict_in_range m cs X H)).
  unfold predict. rewrite map_length. reflexivity.
Qed.

(** allowing one more restart (same stream of initialisations) never yields a higher inertia *)
Theorem restarts_never_increase_inertia : forall m tol fuel inits i X r r',
  restarts R_ops m tol fuel inits X = Some r ->
  restarts R_ops m tol fuel (inits ++ [i]) X = Some r' ->
  r_inertia r' <= r_inertia r.
Proof. exact restarts_noninc. Qed.

(** one Lloyd step (re-assignment to the closest centroid, then the centroid update
    (sum of the cluster's points + old centroid) / (count + 1)) never increases the L2 cost, i.e. the
    sum over the observations of the squared distance to the closest centroid *)
Theorem step_cost_noninc : forall (cs X : list (list R)) (d : nat),
  cs <> [] -> Forall (fun x => length x = d) X -> Forall (fun c => length c = d) cs ->
  cost R_ops L2 (step R_ops L2 cs X) X <= cost R_ops L2 cs X.
Proof. exact step_cost_noninc_R. Qed.

(** the hypotheses are satisfiable and the decrease can be strict: centroids 0, 10 and data 1, 2, 9 *)
Example step_cost_noninc_instance :
  ([[0]; [10]] : list (list R)) <> [] /\
  Forall (fun x => length x = 1%nat) [[1]; [2]; [9]] /\
  Forall (fun c => length c = 1%nat) [[0]; [10]] /\
  cost R_ops L2 (step R_ops L2 [[0]; [10]] [[1]; [2]; [9]]) [[1]; [2]; [9]] = 5 / 4 /\
  cost R_ops L2 [[0]; [10]] [[1]; [2]; [9]] = 6.
Proof.
  destruct ex_hypotheses as [H1 [_ [H2 [H3 _]]]].
  exact (conj H1 (conj H2 (conj H3 (conj ex_cost_after ex_cost_before)))).
Qed.

(** the whole loop (any tolerance, any iteration budget, early stop included) never ends with a
    higher cost than it started with *)
Theorem lloyd_cost_noninc : forall (tol : R) (fuel : nat) (cs X : list (list R)) (d : nat),
  cs <> [] -> Forall (fun x => length x = d) X -> Forall (fun c => length c = d) cs ->
  cost R_ops L2 (lloyd R_ops L2 tol fuel cs X) X <= cost R_ops L2 cs X.
Proof. intros tol fuel cs X d H1 H2 H3. exact (lloyd_cost_noninc_R tol fuel X d H2 cs H1 H3). Qed.

(** from a fixed initialisation and tolerance, a larger iteration budget never gives a higher cost *)
Theorem lloyd_cost_monotone_in_budget : forall (tol : R) (m m' : nat) (cs X : list (list R)) (d : nat),
  (m <= m')%nat ->
  cs <> [] -> Forall (fun x => length x = d) X -> Forall (fun c => length c = d) cs ->
  cost R_ops L2 (lloyd R_ops L2 tol m' cs X) X <= cost R_ops L2 (lloyd R_ops L2 tol m cs X) X.
Proof. intros tol m m' cs X d Hm H1 H2 H3. exact (lloyd_budget_R tol X d H2 m m' cs Hm H1 H3). Qed.

(** bounding box, one step (every metric): if coordinate t of every observation and of every previous
    centroid lies in [lo_t, hi_t], so does coordinate t of every updated centroid *)
Theorem centroids_in_bbox : forall (m : metric) (cs X : list (list R)) (d : nat) (lo hi : list R),
  X <> [] -> Forall (fun x => length x = d) X -> Forall (fun c => length c = d) cs ->
  (forall x t, In x X -> (t < d)%nat -> nth t lo 0 <= nth t x 0 <= nth t hi 0) ->
  (forall c t, In c cs -> (t < d)%nat -> nth t lo 0 <= nth t c 0 <= nth t hi 0) ->
  forall c' t, In c' (step R_ops m cs X) -> (t < d)%nat -> nth t lo 0 <= nth t c' 0 <= nth t hi 0.
Proof. exact step_in_bbox_R. Qed.

(** ... hence for the centroids at the end of the loop ... *)
Theorem lloyd_centroids_in_bbox : forall (m : metric) (tol : R) (fuel : nat) (cs X : list (list R))
    (d : nat) (lo hi : list R),
  X <> [] -> Forall (fun x => length x = d) X -> Forall (fun c => length c = d) cs ->
  (forall x t, In x X -> (t < d)%nat -> nth t lo 0 <= nth t x 0 <= nth t hi 0) ->
  (forall c t, In c cs -> (t < d)%nat -> nth t lo 0 <= nth t c 0 <= nth t hi 0) ->
  forall c' t, In c' (lloyd R_ops m tol fuel cs X) -> (t < d)%nat ->
    nth t lo 0 <= nth t c' 0 <= nth t hi 0.
Proof. exact lloyd_in_bbox_R. Qed.

(** ... and for the centroids `fit` returns, whichever restart wins: inside the box of the data and
    of all initial centroids (inside the data's box when initialised from the data) *)
Theorem fit_centroids_in_bbox : forall (m : metric) (tol : R) (fuel k : nat)
    (inits : list (list (list R))) (X : list (list R)) (d : nat) (lo hi : list R) (f : fitted),
  X <> [] -> Forall (fun x => length x = d) X ->
  (forall i, In i inits -> Forall (fun c => length c = d) i) ->
  (forall x t, In x X -> (t < d)%nat -> nth t lo 0 <= nth t x 0 <= nth t hi 0) ->
  (forall i c t, In i inits -> In c i -> (t < d)%nat -> nth t lo 0 <= nth t c 0 <= nth t hi 0) ->
  fit R_ops m tol fuel k inits X = Some f ->
  forall c t, In c (f_centroids f) -> (t < d)%nat -> nth t lo 0 <= nth t c 0 <= nth t hi 0.
Proof. exact fit_in_bbox_R. Qed.

(** the box hypotheses are satisfiable (data 1, 2, 9; centroids 0, 10; box [0, 10]) and the updated
    centroids of that instance are 1 and 19/2 *)
Example centroids_in_bbox_instance :
  Forall (in_box 1 [0] [10]) [[1]; [2]; [9]] /\ Forall (in_box 1 [0] [10]) [[0]; [10]] /\
  step R_ops L2 [[0]; [10]] [[1]; [2]; [9]] = [[1]; [19 / 2]].
Proof.
  destruct ex_hypotheses as [_ [_ [_ [_ [H1 H2]]]]]. exact (conj H1 (conj H2 ex_step)).
Qed.
