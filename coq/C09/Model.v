(** C09 - executable model of linfa-clustering k-means (algorithm.rs: closest_centroid,
    update_memberships_and_dists, compute_centroids, the Lloyd loop and the restart loop of
    `KMeans::fit`, `predict`, `transform`; init.rs: random_init, weighted_k_means_plusplus on top of
    rand's WeightedIndex / UniformFloat).  Polymorphic in NumOps: run with B64_ops against the Rust
    f64 implementation and with the binary32 instance against f32, bit for bit; reasoned about with
    R_ops. *)
From Coq Require Import List NArith Bool.
From LinfaVerif Require Import Common.Num Common.NdSum.
Import ListNotations.

Inductive metric := L1 | L2 | Linf.

Section KM.
Context {F : Type} (o : NumOps F).
Notation "a + b" := (add o a b).
Notation "a - b" := (sub o a b).
Notation "a * b" := (mul o a b).
Notation "a / b" := (div o a b).

Definition row := list F.

(* ndarray-stats: sequential Zip folds *)
Fixpoint fold2 (f : F -> F -> F -> F) (a b : row) (acc : F) : F :=
  match a, b with
  | x :: a', y :: b' => fold2 f a' b' (f acc x y)
  | _, _ => acc
  end.

Definition sq_l2 (a b : row) : F := fold2 (fun acc x y => acc + (x - y) * (x - y)) a b (zero o).
Definition l1d (a b : row) : F := fold2 (fun acc x y => acc + abs o (x - y)) a b (zero o).
Definition linfd (a b : row) : F :=
  fold2 (fun acc x y => let d := abs o (x - y) in if ltb o acc d then d else acc) a b (zero o).

Definition rdist (m : metric) (a b : row) : F :=
  match m with L1 => l1d a b | L2 => sq_l2 a b | Linf => linfd a b end.
Definition dist (m : metric) (a b : row) : F :=
  match m with L1 => l1d a b | L2 => sqrt o (sq_l2 a b) | Linf => linfd a b end.

(* closest_centroid: strict < scan starting from centroid 0 *)
Fixpoint scan (m : metric) (cs : list row) (x : row) (i best : nat) (bd : F) : nat * F :=
  match cs with
  | [] => (best, bd)
  | c :: cs' =>
      let d := rdist m c x in
      if ltb o d bd then scan m cs' x (S i) i d else scan m cs' x (S i) best bd
  end.
Definition closest (m : metric) (cs : list row) (x : row) : nat * F :=
  match cs with
  | [] => (0%nat, zero o)           (* Rust panics on an empty centroid matrix; excluded by k >= 1 *)
  | c0 :: _ => scan m cs x 0 0%nat (rdist m c0 x)
  end.

Definition assign (m : metric) (cs X : list row) : list (nat * F) := map (closest m cs) X.

Definition vadd (a b : row) : row := map (fun p => fst p + snd p) (combine a b).

Fixpoint upd {A} (l : list A) (k : nat) (f : A -> A) : list A :=
  match l, k with
  | [], _ => []
  | a :: t, O => f a :: t
  | a :: t, S k' => a :: upd t k' f
  end.

(* compute_centroids: sums in observation order, + old centroid, / (count + 1) *)
Definition accumulate (d : nat) (old X : list row) (ms : list nat) : list (row * N) :=
  fold_left (fun st xm => upd st (snd xm) (fun sc => (vadd (fst sc) (fst xm), N.succ (snd sc))))
            (combine X ms) (map (fun _ => (repeat (zero o) d, 1%N)) old).

Definition compute_centroids (old X : list row) (ms : list nat) : list row :=
  let d := match X with [] => 0%nat | x :: _ => length x end in
  map (fun p => let '((s, cnt), oldc) := p in map (fun v => v / of_N o cnt) (vadd s oldc))
      (combine (accumulate d old X ms) old).

Definition step (m : metric) (cs X : list row) : list row :=
  compute_centroids cs X (map fst (assign m cs X)).

(* the `loop` of one run: at most [fuel] = max_n_iterations updates *)
Fixpoint lloyd (m : metric) (tol : F) (fuel : nat) (cs X : list row) : list row :=
  match fuel with
  | O => cs
  | S f =>
      let new := step m cs X in
      if ltb o (dist m (concat cs) (concat new)) tol then new else lloyd m tol f new X
  end.

Record run_result := { r_centroids : list row; r_members : list nat; r_inertia : F }.

(* one restart (after the fix of finding F5): the assignment is recomputed for the final centroids *)
Definition one_run (m : metric) (tol : F) (fuel : nat) (init X : list row) : run_result :=
  let cs := lloyd m tol fuel init X in
  let a := assign m cs X in
  {| r_centroids := cs; r_members := map fst a; r_inertia := usum o (map snd a) |}.

(* restart loop: keep the run with strictly smaller inertia; None plays the role of +infinity *)
Definition better (best : option run_result) (r : run_result) : option run_result :=
  match best with
  | None => Some r
  | Some b => if ltb o (r_inertia r) (r_inertia b) then Some r else Some b
  end.
Definition restarts (m : metric) (tol : F) (fuel : nat) (inits : list (list row)) (X : list row)
  : option run_result :=
  fold_left (fun best init => better best (one_run m tol fuel init X)) inits None.

Definition count_members (k : nat) (ms : list nat) : list F :=
  fold_left (fun cnt c => upd cnt c (fun v => v + one o)) ms (repeat (zero o) k).

Record fitted := { f_centroids : list row; f_counts : list F; f_inertia : F }.

Definition fit (m : metric) (tol : F) (fuel : nat) (k : nat) (inits : list (list row)) (X : list row)
  : option fitted :=
  match restarts m tol fuel inits X with
  | None => None
  | Some r => Some {| f_centroids := r_centroids r;
                      f_counts := count_members k (r_members r);
                      f_inertia := r_inertia r / of_N o (N.of_nat (length X)) |}
  end.

Definition predict (m : metric) (cs X : list row) : list nat := map (fun x => fst (closest m cs x)) X.
Definition transform (m : metric) (cs X : list row) : list F := map (fun x => snd (closest m cs x)) X.

(* total reduced cost of an assignment-free centroid set *)
Definition cost (m : metric) (cs X : list row) : F := seq_sum o (transform m cs X).

End KM.

(** * Initialisers (init.rs)

    `random_init` selects the rows whose indices `rand::seq::index::sample` returned (the harness
    replays that call on a clone of the generator).

    `weighted_k_means_plusplus` is modelled down to the raw 64-bit words of the generator: the
    harness only records `next_u64()` of a clone of the parameter RNG; everything rand 0.8 does with
    a word is part of the model:
      WeightedIndex::new      cumulative sums `total += w` in order, Err on a weight that is not
                              >= 0 and on total == 0 (the caller maps every Err to index 0 with
                              `unwrap_or(0)` and then draws nothing),
      UniformFloat::new(0,t)  scale = t - 0, decreased by one ulp while scale * max_rand + 0 >= t,
      UniformFloat::sample    value0_1 = (word >> (64 - p)) * 2^-p  (p = 52 for f64; for f32 the
                              generator's next_u32 is the upper half of next_u64 and p = 23),
                              chosen = value0_1 * scale + 0,
      WeightedIndex::sample   the first index whose cumulative weight is > chosen (binary search on
                              the non-decreasing cumulative weights). *)
Record sample_fmt (F : Type) := mkFmt {
  sf_mant : N;          (* explicit mantissa bits p of the float type *)
  sf_pred : F -> F      (* from_bits(to_bits(x) - 1) on positive finite x *)
}.
Arguments sf_mant {F}. Arguments sf_pred {F}.

Section Init.
Context {F : Type} (o : NumOps F) (fmt : sample_fmt F).

Definition random_init (X : list (list F)) (idx : list nat) : list (list F) :=
  map (fun i => nth i X []) idx.

Definition two_p : N := N.shiftl 1 (sf_mant fmt).
Definition unit01 (w : N) : F := div o (of_N o (N.shiftr w (64 - sf_mant fmt))) (of_N o two_p).
Definition max_rand : F := div o (of_N o (two_p - 1)) (of_N o two_p).

Fixpoint uniform_scale (fuel : nat) (high scale : F) : F :=
  match fuel with
  | O => scale
  | S f => if leb o high (add o (mul o scale max_rand) (zero o))
           then uniform_scale f high (sf_pred fmt scale) else scale
  end.

(* cumulative weights seen before each item after the first one, and the total *)
Fixpoint wi_cum (ws : list F) (total : F) : option (list F * F) :=
  match ws with
  | [] => Some ([], total)
  | w :: ws' =>
      if leb o (zero o) w then
        match wi_cum ws' (add o total w) with
        | Some (c, t) => Some (total :: c, t)
        | None => None
        end
      else None
  end.

Definition wi_new (ws : list F) : option (list F * F) :=
  match ws with
  | [] => None
  | w0 :: ws' =>
      if leb o (zero o) w0 then
        match wi_cum ws' w0 with
        | Some (c, t) => if eqb o t (zero o) then None else Some (c, t)
        | None => None
        end
      else None
  end.

Fixpoint first_above (cum : list F) (u : F) (i : nat) : nat :=
  match cum with
  | [] => i
  | c :: cum' => if leb o c u then first_above cum' u (S i) else i
  end.

Definition wi_sample (cum : list F) (total : F) (w : N) : nat :=
  let scale := uniform_scale 64 total (sub o total (zero o)) in
  first_above cum (add o (mul o (unit01 w) scale) (zero o)) 0.

(* `WeightedIndex::new(ws).map(|d| d.sample(rng)).unwrap_or(0)`: a generator word is consumed only
   when the distribution could be built.  (The first draw of k-means++ uses `.expect` instead of
   `unwrap_or(0)`: it panics where this returns 0 - excluded by weights = ones, n >= 1.) *)
Definition wi_draw (ws : list F) (words : list N) : nat * list N :=
  match wi_new ws with
  | None => (0%nat, words)
  | Some (cum, total) =>
      match words with
      | w :: words' => (wi_sample cum total w, words')
      | [] => (0%nat, [])
      end
  end.

Fixpoint pp_loop (m : metric) (X : list (list F)) (wts : list F) (steps : nat)
    (cs : list (list F)) (words : list N) : list (list F) * list N :=
  match steps with
  | O => (cs, words)
  | S s =>
      (* update_min_dists against the centroids chosen so far, then `dists *= weights` *)
      let dists := map (fun xw => mul o (snd (closest o m cs (fst xw))) (snd xw)) (combine X wts) in
      let '(i, words') := wi_draw dists words in
      pp_loop m X wts s (cs ++ [nth i X []]) words'
  end.

Definition weighted_plusplus (m : metric) (X : list (list F)) (wts : list F) (k : nat) (words : list N)
  : list (list F) * list N :=
  let '(i0, words0) := wi_draw wts words in
  pp_loop m X wts (k - 1) [nth i0 X []] words0.

Definition plusplus (m : metric) (X : list (list F)) (k : nat) (words : list N) :=
  weighted_plusplus m X (repeat (one o) (length X)) k words.

(* one initialisation per restart, all drawn from one generator stream (the Lloyd loop draws nothing) *)
Fixpoint plusplus_inits (m : metric) (X : list (list F)) (k runs : nat) (words : list N)
  : list (list (list F)) :=
  match runs with
  | O => []
  | S r => let '(cs, words') := plusplus m X k words in cs :: plusplus_inits m X k r words'
  end.

End Init.
