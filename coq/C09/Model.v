(** C09 - executable model of linfa-clustering k-means (algorithm.rs: closest_centroid,
    update_memberships_and_dists, compute_centroids, the Lloyd loop and the restart loop of
    `KMeans::fit`, `predict`, `transform`).  Polymorphic in NumOps: run with B64_ops against the
    Rust f64 implementation bit for bit, reasoned about with R_ops. *)
From Coq Require Import List NArith Bool.
From LinfaVerif Require Import Common.Num Common.NdSum.
Import ListNotations.

Inductive metric := L1 | L2 | Linf.

Section KM.
Context {F : Type} (o : NumOps F).
Notation "a + b" := (add o a b).
Notation "a - b" := (sub o a b).
Notation "a * b" := (mul o a b).
Notation "a / b" := (div o a b).

Definition row := list F.

(* ndarray-stats: sequential Zip folds *)
Fixpoint fold2 (f : F -> F -> F -> F) (a b : row) (acc : F) : F :=
  match a, b with
  | x :: a', y :: b' => fold2 f a' b' (f acc x y)
  | _, _ => acc
  end.

Definition sq_l2 (a b : row) : F := fold2 (fun acc x y => acc + (x - y) * (x - y)) a b (zero o).
Definition l1d (a b : row) : F := fold2 (fun acc x y => acc + abs o (x - y)) a b (zero o).
Definition linfd (a b : row) : F :=
  fold2 (fun acc x y => let d := abs o (x - y) in if ltb o acc d then d else acc) a b (zero o).

Definition rdist (m : metric) (a b : row) : F :=
  match m with L1 => l1d a b | L2 => sq_l2 a b | Linf => linfd a b end.
Definition dist (m : metric) (a b : row) : F :=
  match m with L1 => l1d a b | L2 => sqrt o (sq_l2 a b) | Linf => linfd a b end.

(* closest_centroid: strict < scan starting from centroid 0 *)
Fixpoint scan (m : metric) (cs : list row) (x : row) (i best : nat) (bd : F) : nat * F :=
  match cs with
  | [] => (best, bd)
  | c :: cs' =>
      let d := rdist m c x in
      if ltb o d bd then scan m cs' x (S i) i d else scan m cs' x (S i) best bd
  end.
Definition closest (m : metric) (cs : list row) (x : row) : nat * F :=
  match cs with
  | [] => (0%nat, zero o)           (* Rust panics on an empty centroid matrix; excluded by k >= 1 *)
  | c0 :: _ => scan m cs x 0 0%nat (rdist m c0 x)
  end.

Definition assign (m : metric) (cs X : list row) : list (nat * F) := map (closest m cs) X.

Definition vadd (a b : row) : row := map (fun p => fst p + snd p) (combine a b).

Fixpoint upd {A} (l : list A) (k : nat) (f : A -> A) : list A :=
  match l, k with
  | [], _ => []
  | a :: t, O => f a :: t
  | a :: t, S k' => a :: upd t k' f
  end.

(* compute_centroids: sums in observation order, + old centroid, / (count + 1) *)
Definition accumulate (d : nat) (old X : list row) (ms : list nat) : list (row * N) :=
  fold_left (fun st xm => upd st (snd xm) (fun sc => (vadd (fst sc) (fst xm), N.succ (snd sc))))
            (combine X ms) (map (fun _ => (repeat (zero o) d, 1%N)) old).

Definition compute_centroids (old X : list row) (ms : list nat) : list row :=
  let d := match X with [] => 0%nat | x :: _ => length x end in
  map (fun p => let '((s, cnt), oldc) := p in map (fun v => v / of_N o cnt) (vadd s oldc))
      (combine (accumulate d old X ms) old).

Definition step (m : metric) (cs X : list row) : list row :=
  compute_centroids cs X (map fst (assign m cs X)).

(* the `loop` of one run: at most [fuel] = max_n_iterations updates *)
Fixpoint lloyd (m : metric) (tol : F) (fuel : nat) (cs X : list row) : list row :=
  match fuel with
  | O => cs
  | S f =>
      let new := step m cs X in
      if ltb o (dist m (concat cs) (concat new)) tol then new else lloyd m tol f new X
  end.

Record run_result := { r_centroids : list row; r_members : list nat; r_inertia : F }.

(* one restart (after the fix of finding F5): the assignment is recomputed for the final centroids *)
Definition one_run (m : metric) (tol : F) (fuel : nat) (init X : list row) : run_result :=
  let cs := lloyd m tol fuel init X in
  let a := assign m cs X in
  {| r_centroids := cs; r_members := map fst a; r_inertia := usum o (map snd a) |}.

(* restart loop: keep the run with strictly smaller inertia; None plays the role of +infinity *)
Definition better (best : option run_result) (r : run_result) : option run_result :=
  match best with
  | None => Some r
  | Some b => if ltb o (r_inertia r) (r_inertia b) then Some r else Some b
  end.
Definition restarts (m : metric) (tol : F) (fuel : nat) (inits : list (list row)) (X : list row)
  : option run_result :=
  fold_left (fun best init => better best (one_run m tol fuel init X)) inits None.

Definition count_members (k : nat) (ms : list nat) : list F :=
  fold_left (fun cnt c => upd cnt c (fun v => v + one o)) ms (repeat (zero o) k).

Record fitted := { f_centroids : list row; f_counts : list F; f_inertia : F }.

Definition fit (m : metric) (tol : F) (fuel : nat) (k : nat) (inits : list (list row)) (X : list row)
  : option fitted :=
  match restarts m tol fuel inits X with
  | None => None
  | Some r => Some {| f_centroids := r_centroids r;
                      f_counts := count_members k (r_members r);
                      f_inertia := r_inertia r / of_N o (N.of_nat (length X)) |}
  end.

Definition predict (m : metric) (cs X : list row) : list nat := map (fun x => fst (closest m cs x)) X.
Definition transform (m : metric) (cs X : list row) : list F := map (fun x => snd (closest m cs x)) X.

(* total reduced cost of an assignment-free centroid set *)
Definition cost (m : metric) (cs X : list row) : F := seq_sum o (transform m cs X).

End KM.
