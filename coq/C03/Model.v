(** C03 - executable model of linfa's prediction glue.

    * the four blanket [Predict] forms of src/dataset/impl_dataset.rs (every form is
      [default_target] followed by [predict_inplace]);
    * a generic row-wise predictor ([assert_eq!(x.nrows(), y.len())], then one output per row);
    * the composing wrappers, literally: MultiTargetModel ([flat_map], [into_shape((models, n))],
      [reversed_axes]), MultiClassModel (running arg-max with strict [>]), [platt_predict]
      (stable sigmoid of [a*x+b], cast to f32, wrapped in [Pr::new]);
    * the row functions of the predictors whose arithmetic is reproducible bit for bit:
      k-means arg-min scan, [x.dot(w) + b] (ndarray's [unrolled_dot]), decision-tree descent,
      isotonic interpolation.
    Numeric code is polymorphic in NumOps: R_ops for the theorems, B64_ops / B32_ops to run
    against the Rust implementation.  Definitions only. *)
From Coq Require Import List NArith ZArith Bool.
From LinfaVerif Require Import Common.Num Common.NdSum.
Import ListNotations.

(** * 1. Calling forms (src/dataset/impl_dataset.rs, the four impl blocks at the end) *)
Section Forms.
Context {Rec Tgt Tgt0 : Type}.
(* [predict_inplace x y] returns the content of [y] after the call; [None] is a panic *)
Context (default_target : Rec -> Tgt) (predict_inplace : Rec -> Tgt -> option Tgt).

(* impl Predict<&ArrayBase<D, DM>, T> *)
Definition predict_ref (x : Rec) : option Tgt := predict_inplace x (default_target x).
(* impl Predict<ArrayBase<D, Ix2>, DatasetBase<ArrayBase<D, Ix2>, T>>: DatasetBase::new(records, targets) *)
Definition predict_owned (x : Rec) : option (Rec * Tgt) :=
  option_map (fun t => (x, t)) (predict_inplace x (default_target x)).
(* impl Predict<&DatasetBase<R, T>, S>: the old targets of the dataset are not looked at *)
Definition predict_ds_ref (ds : Rec * Tgt0) : option Tgt :=
  predict_inplace (fst ds) (default_target (fst ds)).
(* impl Predict<DatasetBase<R, T>, DatasetBase<R, S>>: DatasetBase::new(ds.records, targets) *)
Definition predict_ds (ds : Rec * Tgt0) : option (Rec * Tgt) :=
  option_map (fun t => (fst ds, t)) (predict_inplace (fst ds) (default_target (fst ds))).
End Forms.

(** * 2. Row-wise predictors and batches *)
Section Rowwise.
Context {Row L : Type}.
Definition rowwise (f : Row -> L) (X : list Row) : list L := map f X.
(* rows picked by index (permutation, duplication, sub-batch): ndarray's select(Axis(0), idx) *)
Definition select {A} (d : A) (idx : list nat) (X : list A) : list A := map (fun i => nth i X d) idx.

(* the shape every PredictInplace impl of the workspace has: the length assertion, then every
   element of the target is overwritten with a function of the corresponding row alone *)
Definition rw_default (d : L) (X : list Row) : list L := repeat d (length X).
Definition rw_inplace (f : Row -> L) (X : list Row) (y : list L) : option (list L) :=
  if Nat.eqb (length X) (length y) then Some (rowwise f X) else None.
End Rowwise.

(** * 3. MultiTargetModel (src/composing/multi_target_model.rs) *)
Section MultiTarget.
Context {Row L : Type}.

(* a two-dimensional ndarray: shape, strides and the flat buffer *)
Record arr2 := { a_rows : nat; a_cols : nat; a_srow : nat; a_scol : nat; a_data : list L }.

(* Array1::into_shape((r, c)): row-major view of the buffer; Err when the sizes differ *)
Definition into_shape (r c : nat) (flat : list L) : option arr2 :=
  if Nat.eqb (length flat) (r * c)
  then Some {| a_rows := r; a_cols := c; a_srow := c; a_scol := 1; a_data := flat |}
  else None.
(* reversed_axes: swap shape and strides, the buffer stays *)
Definition reversed_axes (a : arr2) : arr2 :=
  {| a_rows := a_cols a; a_cols := a_rows a; a_srow := a_scol a; a_scol := a_srow a; a_data := a_data a |}.
Definition get (d : L) (a : arr2) (i j : nat) : L := nth (i * a_srow a + j * a_scol a) (a_data a) d.
Definition to_rows (d : L) (a : arr2) : list (list L) :=
  map (fun i => map (fun j => get d a i j) (seq 0 (a_cols a))) (seq 0 (a_rows a)).

(* a member model is its predict_inplace on a fresh default target: batch -> vector *)
Definition mt_flat (ms : list (list Row -> list L)) (X : list Row) : list L := flat_map (fun m => m X) ms.
(* predict_inplace: None is the panic of [unwrap] (a member returned a vector of the wrong length)
   or of the shape assertion; [tshape] is the shape of the target passed in *)
Definition mt_predict_inplace (ms : list (list Row -> list L)) (X : list Row) (tshape : nat * nat) : option arr2 :=
  if (Nat.eqb (fst tshape) (length X) && Nat.eqb (snd tshape) (length ms))%bool
  then option_map reversed_axes (into_shape (length ms) (length X) (mt_flat ms X))
  else None.
Definition mt_default_shape (ms : list (list Row -> list L)) (X : list Row) : nat * nat := (length X, length ms).
Definition mt_predict (ms : list (list Row -> list L)) (X : list Row) : option arr2 :=
  mt_predict_inplace ms X (mt_default_shape ms X).
End MultiTarget.
Arguments arr2 : clear implicits.

(** * 4. MultiClassModel (src/composing/multi_class_model.rs) *)
Section MultiClass.
Context {Row L P : Type} (gtb : P -> P -> bool).   (* gtb d c  =  d.1 > c.1 *)

(* one iteration of the [for pairs in ...] loop *)
Definition mc_step (res pairs : list (L * P)) : list (L * P) :=
  match res with
  | [] => pairs                                   (* res.is_empty(): guess of the first model *)
  | _ => map (fun cd => if gtb (snd (snd cd)) (snd (fst cd)) then snd cd else fst cd) (combine res pairs)
  end.
Definition mc_pairs (ms : list (L * (list Row -> list P))) (X : list Row) : list (list (L * P)) :=
  map (fun lm => map (fun p => (fst lm, p)) (snd lm X)) ms.
Definition mc_res (ms : list (L * (list Row -> list P))) (X : list Row) : list (L * P) :=
  fold_left mc_step (mc_pairs ms X) [].
(* for (r, target) in res.into_iter().zip(y.iter_mut()) { *target = r.0 } *)
Fixpoint overwrite (res : list (L * P)) (y : list L) : list L :=
  match res, y with
  | r :: res', _ :: y' => fst r :: overwrite res' y'
  | _, _ => y
  end.
Definition mc_predict_inplace (ms : list (L * (list Row -> list P))) (X : list Row) (y : list L) : option (list L) :=
  if Nat.eqb (length X) (length y) then Some (overwrite (mc_res ms X) y) else None.
Definition mc_predict (dflt : L) (ms : list (L * (list Row -> list P))) (X : list Row) : option (list L) :=
  mc_predict_inplace ms X (repeat dflt (length X)).
End MultiClass.

(** * 5. Platt scaling (src/composing/platt_scaling.rs: platt_predict, Pr::new) *)
Section Platt.
Context {F : Type} (o : NumOps F) (expf : F -> F).
(* the two branches after [f_apb] has been cast to f32 *)
Definition platt_sig (f : F) : F :=
  if leb o (zero o) f
  then div o (expf (opp o f)) (add o (one o) (expf (opp o f)))
  else div o (one o) (add o (one o) (expf f)).
Definition platt_lin (x a b : F) : F := add o (mul o a x) b.
(* Pr::new: (0. ..=1.).contains(&prob), otherwise unwrap panics *)
Definition pr_new (p : F) : option F := if (leb o (zero o) p && leb o p (one o))%bool then Some p else None.
End Platt.
(* [cast] is `to_f32().unwrap()`: the identity in exact arithmetic, rounding for an f64 model *)
Definition platt_predict {F G} (oF : NumOps F) (oG : NumOps G) (cast : F -> G) (expf : G -> G)
  (x a b : F) : option G := pr_new oG (platt_sig oG expf (cast (platt_lin oF x a b))).
(* Platt::predict_inplace: the inner model's batch prediction, then platt_predict per element *)
Definition platt_model {F G Row} (oF : NumOps F) (oG : NumOps G) (cast : F -> G) (expf : G -> G)
  (inner : list Row -> list F) (a b : F) (X : list Row) : list (option G) :=
  map (fun v => platt_predict oF oG cast expf v a b) (inner X).

(** * 6. Row functions of concrete predictors *)
Section RowFns.
Context {F : Type} (o : NumOps F).
Definition frow := list F.

Fixpoint map2 {A B C} (f : A -> B -> C) (a : list A) (b : list B) : list C :=
  match a, b with x :: a', y :: b' => f x y :: map2 f a' b' | _, _ => [] end.

(** ndarray 1-D dot product: [unrolled_dot] when both operands are contiguous slices (eight
    partial sums of products, combined like [unrolled_fold]), a sequential loop otherwise *)
Definition udot (x w : frow) : F := usum o (map2 (mul o) x w).
Definition sdot (x w : frow) : F := seq_sum o (map2 (mul o) x w).
(** general_mat_vec_mul_impl with beta = 0: [row.dot(x) * alpha], alpha = 1; then [+ intercept]
    (OLS, elastic net, GLM with identity link, the decision value of logistic regression) *)
Definition linear_predict (contig : bool) (w : frow) (b : F) (x : frow) : F :=
  add o (mul o (if contig then udot x w else sdot x w) (one o)) b.

(** k-means (linfa-clustering closest_centroid with L2Dist: ndarray-stats sq_l2_dist is a
    sequential Zip fold; strict [<] scan that starts from centroid 0) *)
Fixpoint fold2 (f : F -> F -> F -> F) (a b : frow) (acc : F) : F :=
  match a, b with x :: a', y :: b' => fold2 f a' b' (f acc x y) | _, _ => acc end.
Definition sq_l2 (a b : frow) : F :=
  fold2 (fun acc x y => add o acc (mul o (sub o x y) (sub o x y))) a b (zero o).
Fixpoint km_scan (cs : list frow) (x : frow) (i best : nat) (bd : F) : nat * F :=
  match cs with
  | [] => (best, bd)
  | c :: cs' => let d := sq_l2 c x in
                if ltb o d bd then km_scan cs' x (S i) i d else km_scan cs' x (S i) best bd
  end.
Definition km_predict (cs : list frow) (x : frow) : nat :=
  match cs with
  | [] => 0%nat
  | c0 :: _ => fst (km_scan cs x 0 0%nat (sq_l2 c0 x))
  end.

(** decision tree (linfa-trees make_prediction): [x[feature] <= split_value] goes left (the same
    routing as fitting) *)
Inductive tree (L : Type) := Leaf (l : L) | Node (feat : nat) (thr : F) (lo hi : tree L).
Arguments Leaf {L}. Arguments Node {L}.
Fixpoint tree_predict {L} (t : tree L) (x : frow) : L :=
  match t with
  | Leaf l => l
  | Node f thr lo hi => if leb o (nth f x (zero o)) thr then tree_predict lo x else tree_predict hi x
  end.

(** isotonic regression (linfa-linear isotonic.rs predict_inplace); [y0] is the content of the
    target element before the call: it survives when no knot satisfies [knot >= val] *)
Fixpoint position (p : F -> bool) (l : frow) (i : nat) : option nat :=
  match l with [] => None | a :: l' => if p a then Some i else position p l' (S i) end.
(* what one iteration of the loop writes into y[i]; None = the element is left untouched *)
Definition iso_value (reg resp : frow) (v : F) : option F :=
  let z := zero o in
  let n := length reg in
  let x_min := nth 0 reg z in
  let x_max := nth (n - 1) reg z in
  let y_min := nth 0 resp z in
  let y_max := nth (n - 1) resp z in
  if leb o x_max v then Some y_max
  else if leb o v x_min then Some y_min
  else match position (fun x => leb o v x) reg 0 with
       | Some j =>
           if (leb o v (nth j reg z) && Nat.ltb j n)%bool
           then let x_scale := div o (sub o v (nth (j - 1) reg z)) (sub o (nth j reg z) (nth (j - 1) reg z)) in
                Some (add o (nth (j - 1) resp z) (mul o x_scale (sub o (nth j resp z) (nth (j - 1) resp z))))
           else Some y_min
       | None => None
       end.
Definition iso_predict (reg resp : frow) (y0 v : F) : F :=
  match iso_value reg resp v with Some r => r | None => y0 end.
End RowFns.
Arguments Leaf {F L}. Arguments Node {F L}.
