(** C03 - enclosure-based tests for the libm values that enter the binary64 models as table inputs
    ([exp] for the GLM log / logit links, logistic regression and FTRL; [ln] for naive Bayes):
    "e is exp z" / "l is ln x" up to a relative 2^-50, by the verified interval arithmetic of the
    Interval library (I.exp, I.ln at 60 bits).  Used only by the run-time correspondence
    (C03/CorrMat.v); no theorem of the Properties files depends on it. *)
From Coq Require Import ZArith SpecFloat Floats Bool.
Open Scope bool_scope.
From LinfaVerif Require Import C03.Sigmoid.

Definition iv_of_f64 (x : float) : IV.type := iv_point (Prim2SF x).
(* [1 - 2^-50, 1 + 2^-50] *)
Definition iv_rel50 : IV.type :=
  IV.bnd (SFBI2.scale (SFBI2.fromZ (2 ^ 50 - 1)) (SFBI2.ZtoS (-50)))
         (SFBI2.scale (SFBI2.fromZ (2 ^ 50 + 1)) (SFBI2.ZtoS (-50))).
Definition f64_is_nan (x : float) : bool := match Prim2SF x with S754_nan => true | _ => false end.

(* e = exp z: relative 2^-50 between -700 and 709; beyond, where the result is subnormal, zero or
   infinite, only the order of magnitude is tested (exp(-700) < 2^-1000, exp(709) > 2^1022) *)
Definition exp_ok (z e : float) : bool :=
  if f64_is_nan z then f64_is_nan e
  else if PrimFloat.ltb 709 z then PrimFloat.leb 0x1p1022 e
  else if PrimFloat.ltb z (-700) then PrimFloat.leb 0 e && PrimFloat.leb e 0x1p-1000
  else IV.subset (iv_of_f64 e) (IV.mul iv_prec (IV.exp iv_prec (iv_of_f64 z)) iv_rel50).

(* l = ln x for a finite x > 0: absolute 2^-50 (1 + |l|) *)
Definition ln_ok (x l : float) : bool :=
  if PrimFloat.ltb 0 x && PrimFloat.ltb x infinity then
    let s := PrimFloat.mul 0x1p-50 (PrimFloat.add 1 (PrimFloat.abs l)) in
    IV.subset (iv_of_f64 l)
              (IV.add iv_prec (IV.ln iv_prec (iv_of_f64 x))
                      (IV.bnd (iv_of_sf (Prim2SF (PrimFloat.opp s))) (iv_of_sf (Prim2SF s))))
  else if PrimFloat.eqb x 0 then PrimFloat.eqb l neg_infinity
  else false.
