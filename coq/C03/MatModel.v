(** C03 - array-level models of the [predict_inplace] bodies that are written with whole-array
    operations (broadcast arithmetic, matrix-vector and matrix-matrix products, [mapv], [Zip]
    loops), transliterated statement by statement, and the row functions they amount to.

    A two-dimensional array is the list of its rows; [p] is its number of columns ([x.ncols()],
    which an empty list of rows cannot carry).  The only thing that stays a parameter is the order
    in which a float dot product is summed: [dot] for ndarray's 1-D [row.dot(w)] (instantiated
    with [udot] / [sdot] of Model.v), [mdot] for one entry of a matrixmultiply product (never
    reproduced bit for bit).  [None] is a panic (shape assertion, [dot_shape_error], [unwrap]).
    Definitions only; the theorems are in MatProofs.v. *)
From Coq Require Import List NArith ZArith Bool.
From LinfaVerif Require Import Common.Num Common.NdSum C03.Model.
Import ListNotations.

Definition guard {A} (b : bool) (v : option A) : option A := if b then v else None.
(* all rows succeed, or the first panic aborts the call *)
Fixpoint sequence {A} (l : list (option A)) : option (list A) :=
  match l with
  | [] => Some []
  | None :: _ => None
  | Some a :: l' => option_map (cons a) (sequence l')
  end.

(** * 1. The loops that write the target *)
Section Loops.
Context {Row L : Type}.
(* Zip::from(rows).and(y).for_each(|row, out| *out = f(row)),
   for (row, out) in x.outer_iter().zip(y.iter_mut()) { *out = f(row) } *)
Fixpoint loop_zip (f : Row -> L) (X : list Row) (y : list L) : list L :=
  match X, y with
  | x :: X', _ :: y' => f x :: loop_zip f X' y'
  | _, _ => y
  end.
(* the same with a closure that may panic ([unwrap]) *)
Fixpoint loop_zip_opt (f : Row -> option L) (X : list Row) (y : list L) : option (list L) :=
  match X, y with
  | x :: X', _ :: y' =>
      match f x with
      | None => None
      | Some v => option_map (cons v) (loop_zip_opt f X' y')
      end
  | _, _ => Some y
  end.
(* for (i, row) in x.rows().into_iter().enumerate() { if let Some(v) = f(row) { y[i] = v } } *)
Fixpoint set_nth (i : nat) (v : L) (y : list L) : list L :=
  match y, i with
  | [], _ => []
  | _ :: y', O => v :: y'
  | a :: y', S i' => a :: set_nth i' v y'
  end.
Definition loop_indexed (f : Row -> option L) (X : list Row) (y : list L) : list L :=
  fold_left (fun y ix => match f (snd ix) with Some v => set_nth (fst ix) v y | None => y end)
            (combine (seq 0 (length X)) X) y.
End Loops.

(** * 2. Whole-array operations *)
Section ArrayOps.
Context {F : Type} (o : NumOps F).
Definition mat := list (list F).
Definition rect (p : nat) (X : mat) : bool := forallb (fun r => Nat.eqb (length r) p) X.
(* &v broadcast to shape (n, p): n copies of the row *)
Definition bcast (n : nat) (v : list F) : mat := repeat v n.
(* element-wise binary operation on two arrays of the same shape *)
Definition mat_zip (f : F -> F -> F) (A B : mat) : mat := map2 (map2 f) A B.
(* A op &v  (x - &mean, x /= &std, product + &intercept) *)
Definition mat_op_row (f : F -> F -> F) (A : mat) (v : list F) : mat := mat_zip f A (bcast (length A) v).
(* a op s for a scalar s *)
Definition vec_op_scalar (f : F -> F -> F) (a : list F) (s : F) : list F := map (fun x => f x s) a.
Definition mapv (g : F -> F) (a : list F) : list F := map g a.
Definition mat_mapv (g : F -> F) (A : mat) : mat := map (map g) A.
(* the k columns of an array *)
Definition columns (k : nat) (W : mat) : mat := map (fun j => map (fun r => nth j r (zero o)) W) (seq 0 k).

(* Ix2.dot(Ix1): general_mat_vec_mul_impl with alpha = 1, beta = 0 writes [row.dot(w) * alpha] into
   every element of the uninitialised result [c0] *)
Definition matvec (dot : list F -> list F -> F) (A : mat) (w : list F) (c0 : list F) : list F :=
  loop_zip (fun r => mul o (dot r w) (one o)) A c0.
Definition uninit (n : nat) : list F := repeat (zero o) n.
(* Ix2.dot(Ix2) through matrixmultiply: entry (i, j) is the kernel's dot product of row i and column j *)
Definition matmul (mdot : list F -> list F -> F) (A : mat) (k : nat) (B : mat) : mat :=
  map (fun r => map (fun c => mdot r c) (columns k B)) A.
(* A.dot(&E.t()): the columns of the transposed view are the rows of E *)
Definition matmul_t (mdot : list F -> list F -> F) (A : mat) (E : mat) : mat :=
  map (fun r => map (fun e => mdot r e) E) A.

(* sum_axis(Axis(1)) of an (n, p) array: the lanes are summed with [unrolled_fold] when axis 1 has
   the smallest stride (row-major data); otherwise [res = zeros(n); for col { res = res + &col }] *)
Definition sum_axis1 (lanes : bool) (p : nat) (A : mat) : list F :=
  if lanes then map (usum o) A
  else fold_left (fun res col => map2 (add o) res col) (columns p A) (repeat (zero o) (length A)).

(* ndarray-stats argmax on a lane: first maximum; Err(UndefinedOrder) on an unordered pair (NaN),
   Err(EmptyInput) on an empty lane - both panic in [unwrap] *)
Definition pcmp (a b : F) : option comparison :=
  if ltb o a b then Some Lt else if eqb o a b then Some Eq else if ltb o b a then Some Gt else None.
Fixpoint argmax_from (l : list F) (i best : nat) (cur : F) : option nat :=
  match l with
  | [] => Some best
  | e :: l' =>
      match pcmp e cur with
      | None => None
      | Some Gt => argmax_from l' (S i) i e
      | Some _ => argmax_from l' (S i) best cur
      end
  end.
Definition argmax (l : list F) : option nat :=
  match l with [] => None | a :: _ => argmax_from l 0 0 a end.
End ArrayOps.
Arguments mat : clear implicits.

(** * 3. The predictors *)
Section Predictors.
Context {F : Type} (o : NumOps F).
Context (dot mdot : list F -> list F -> F).

(** ** OLS, elastic net: [*y = x.dot(&w) + b] *)
Definition lin_row (w : list F) (b : F) (x : list F) : F := add o (mul o (dot x w) (one o)) b.
Definition lin_default (X : mat F) : list F := repeat (zero o) (length X).
Definition lin_inplace (p : nat) (w : list F) (b : F) (X : mat F) (y : list F) : option (list F) :=
  guard (Nat.eqb (length X) (length y))                                  (* assert_eq!(x.nrows(), y.len()) *)
  (guard (rect p X && Nat.eqb p (length w))                               (* dot_shape_error *)
         (Some (vec_op_scalar (add o) (matvec o dot X w (uninit o (length X))) b))).

(** ** Tweedie GLM: [ypred = x.dot(&coef) + intercept; *y = link.inverse(&ypred)] with
    [inverse = mapv inv] (identity: clone; log: exp; logit: 1/(1+exp(-x))) *)
Definition glm_row (inv : F -> F) (w : list F) (b : F) (x : list F) : F := inv (lin_row w b x).
Definition glm_inplace (inv : F -> F) (p : nat) (w : list F) (b : F) (X : mat F) (y : list F) : option (list F) :=
  guard (Nat.eqb (length X) (length y))
  (guard (rect p X && Nat.eqb p (length w))
         (Some (mapv inv (vec_op_scalar (add o) (matvec o dot X w (uninit o (length X))) b)))).

(** ** binary logistic regression: probabilities [mapv_inplace(logistic)] of [x.dot(&w) + b], then a
    Zip loop that compares with the threshold *)
Definition logistic_fn (expf : F -> F) (z : F) : F := div o (one o) (add o (one o) (expf (opp o z))).
Definition logit_prob (expf : F -> F) (w : list F) (b : F) (x : list F) : F := logistic_fn expf (lin_row w b x).
Definition logit_row {C} (expf : F -> F) (w : list F) (b thr : F) (pos neg : C) (x : list F) : C :=
  if leb o thr (logit_prob expf w b x) then pos else neg.                 (* *prob >= self.threshold *)
Definition logit_inplace {C} (expf : F -> F) (p : nat) (w : list F) (b thr : F) (pos neg : C)
    (X : mat F) (y : list C) : option (list C) :=
  guard (Nat.eqb (length X) (length y))
  (guard (Nat.eqb p (length w))                                           (* assert_eq!(x.ncols(), params.len()) *)
  (guard (rect p X)
     (let probs := mapv (logistic_fn expf) (vec_op_scalar (add o) (matvec o dot X w (uninit o (length X))) b) in
      Some (loop_zip (fun prob => if leb o thr prob then pos else neg) probs y)))).

(** ** multinomial logistic regression: [probs = x.dot(&W) + &b]; per row [classes[argmax]] *)
Definition scores_row (k : nat) (W : mat F) (b : list F) (x : list F) : list F :=
  map2 (add o) (map (fun c => mdot x c) (columns o k W)) b.
Definition mlogit_row {C} (k : nat) (W : mat F) (b : list F) (classes : list C) (dflt : C) (x : list F) : option C :=
  option_map (fun i => nth i classes dflt) (argmax o (scores_row k W b x)).
Definition mlogit_inplace {C} (p k : nat) (W : mat F) (b : list F) (classes : list C) (dflt : C)
    (X : mat F) (y : list C) : option (list C) :=
  guard (Nat.eqb (length X) (length y))
  (guard (Nat.eqb p (length W))                                           (* assert_eq!(x.ncols(), params.nrows()) *)
  (guard (rect p X && rect k W && Nat.eqb k (length b))                   (* array shapes / broadcast *)
     (let probs := mat_op_row (add o) (matmul o mdot X k W) b in
      loop_zip_opt (fun prow => option_map (fun i => nth i classes dflt) (argmax o prow)) probs y))).

(** ** multi-task elastic net: [*y = x.dot(&W) + &b]; only the number of rows of the target is asserted *)
Definition mtl_inplace {T} (p k : nat) (W : mat F) (b : list F) (X : mat F) (y : list T) : option (mat F) :=
  guard (Nat.eqb (length X) (length y))
  (guard (rect p X && Nat.eqb p (length W) && rect k W && Nat.eqb k (length b))
         (Some (mat_op_row (add o) (matmul o mdot X k W) b))).

(** ** PCA: [*targets = (records - &mean).dot(&embedding.t())]; the target shape is asserted *)
Definition pca_row (mean : list F) (E : mat F) (x : list F) : list F := map (fun e => mdot (map2 (sub o) x mean) e) E.
Definition pca_default (E : mat F) (X : mat F) : mat F := repeat (repeat (zero o) (length E)) (length X).
Definition pca_inplace (p : nat) (mean : list F) (E : mat F) (X : mat F) (Y : mat F) : option (mat F) :=
  guard (Nat.eqb (length Y) (length X) && rect (length E) Y)             (* assert_eq!(targets.shape(), [n, k]) *)
  (guard (rect p X && Nat.eqb p (length mean) && rect p E)
         (Some (matmul_t mdot (mat_op_row (sub o) X mean) E))).

(** ** PLS: [x = x - &x_mean; x /= &x_std; *y = x.dot(&coefficients) + &y_mean] *)
Definition pls_row (k : nat) (xm xs : list F) (Cf : mat F) (ym : list F) (x : list F) : list F :=
  map2 (add o) (map (fun c => mdot (map2 (div o) (map2 (sub o) x xm) xs) c) (columns o k Cf)) ym.
Definition pls_default (k : nat) (X : mat F) : mat F := repeat (repeat (zero o) k) (length X).
Definition pls_inplace (p k : nat) (xm xs : list F) (Cf : mat F) (ym : list F) (X : mat F) (Y : mat F) : option (mat F) :=
  guard (Nat.eqb (length Y) (length X) && rect k Y)                       (* assert_eq!(y.shape(), [n, coefficients.ncols()]) *)
  (guard (rect p X && Nat.eqb p (length xm) && Nat.eqb p (length xs) && Nat.eqb p (length Cf) && rect k Cf
          && Nat.eqb k (length ym))
         (let X1 := mat_op_row (sub o) X xm in
          let X2 := mat_op_row (div o) X1 xs in
          Some (mat_op_row (add o) (matmul o mdot X2 k Cf) ym))).

(** ** naive Bayes (base_nb.rs): one joint-log-likelihood vector per class (classes enumerated in
    sorted order), stacked as the rows of an (nclasses, n) array; [map_axis(Axis(0))] takes the
    arg-max of every column.  [jll c X] is the vector of class [c] over the whole batch. *)
Definition nb_inplace {L Cls} (jll : Cls -> mat F -> list F) (dflt : L) (classes : list (L * Cls))
    (X : mat F) (y : list L) : option (list L) :=
  guard (Nat.eqb (length X) (length y))
    (let likelihood := map (fun c => jll (snd c) X) classes in
     sequence (map (fun col => option_map (fun i => nth i (map fst classes) dflt) (argmax o col))
                   (columns o (length X) likelihood))).
Definition nb_row {L Cls} (score : Cls -> list F -> F) (dflt : L) (classes : list (L * Cls)) (x : list F) : option L :=
  option_map (fun i => nth i (map fst classes) dflt) (argmax o (map (fun c => score (snd c) x) classes)).

(* multinomial: [x.dot(&info.feature_log_prob) + info.prior.ln()]; class data = (ln prior, feature_log_prob) *)
Definition mnb_jll (c : F * list F) (X : mat F) : list F :=
  vec_op_scalar (add o) (matvec o dot X (snd c) (uninit o (length X))) (fst c).
Definition mnb_score (c : F * list F) (x : list F) : F := lin_row (snd c) (fst c) x.

(* Gaussian: class data = (ln prior, (theta, sigma)); [lnf] is ln, the constants are F::cast(2 pi),
   F::cast(-0.5), F::cast(0.5); [lanes] says whether [x.to_owned()] is row-major *)
Context (lnf : F -> F) (twopi mhalf half : F).
Definition gnb_nij (sigma : list F) : F :=
  mul o mhalf (usum o (mapv lnf (mapv (fun s => mul o twopi s) sigma))).
Definition gnb_jll (lanes : bool) (p : nat) (c : F * (list F * list F)) (X : mat F) : list F :=
  let theta := fst (snd c) in
  let sigma := snd (snd c) in
  let nij := gnb_nij sigma in
  let S := sum_axis1 o lanes p (mat_op_row (div o) (mat_mapv (fun d => mul o d d) (mat_op_row (sub o) X theta)) sigma) in
  vec_op_scalar (add o) (mapv (fun s => sub o nij s) (mapv (fun s => mul o s half) S)) (fst c).
Definition gnb_score (lanes : bool) (c : F * (list F * list F)) (x : list F) : F :=
  let theta := fst (snd c) in
  let sigma := snd (snd c) in
  let q := map2 (div o) (map (fun d => mul o d d) (map2 (sub o) x theta)) sigma in
  add o (sub o (gnb_nij sigma) (mul o (if lanes then usum o q else seq_sum o q) half)) (fst c).

(** ** FTRL: [x.dot(&weights)], [mapv_inplace(stable_sigmoid)], [mapv(|v| Pr::new(to_f32(v)))], Zip copy *)
Definition fmin (a b : F) : F := if ltb o b a then b else if eqb o a a then a else b.   (* a.min(b) *)
Definition fmax (a b : F) : F := if ltb o a b then b else if eqb o a a then a else b.   (* a.max(b) *)
Definition stable_sigmoid (expf : F -> F) (signneg : F -> bool) (c35 : F) (z : F) : F :=
  let v := fmax (fmin z c35) (opp o c35) in
  if signneg v then let e := expf v in div o e (add o e (one o))
  else div o (one o) (add o (one o) (expf (opp o v))).
Definition ftrl_prob (expf : F -> F) (signneg : F -> bool) (c35 : F) (w x : list F) : F :=
  stable_sigmoid expf signneg c35 (mul o (dot x w) (one o)).
End Predictors.

Section Ftrl.
Context {F G : Type} (oF : NumOps F) (oG : NumOps G) (dot : list F -> list F -> F).
Context (expf : F -> F) (signneg : F -> bool) (c35 : F) (cast : F -> G).
Definition ftrl_row (w x : list F) : option G := pr_new oG (cast (ftrl_prob oF dot expf signneg c35 w x)).
Definition ftrl_inplace (p : nat) (w : list F) (X : mat F) (y : list G) : option (list G) :=
  guard (Nat.eqb (length X) (length y))
  (guard (Nat.eqb p (length w))                                           (* assert_eq!(x.ncols(), self.z.len()) *)
  (guard (rect p X)
     (let z := matvec oF dot X w (uninit oF (length X)) in
      let s := mapv (stable_sigmoid oF expf signneg c35) z in
      match sequence (map (fun v => pr_new oG (cast v)) s) with
      | None => None
      | Some probabilities => Some (loop_zip (fun pr => pr) probabilities y)
      end))).
End Ftrl.

(** ** SVM: [for (row, target) in data.outer_iter().zip(targets.iter_mut())] with the decision value
    [weighted_sum(row) - rho]; k-means, decision tree: the same loop shape with their row function *)
Section LoopPredictors.
Context {Row L : Type}.
Definition zip_inplace (f : Row -> L) (X : list Row) (y : list L) : option (list L) :=
  guard (Nat.eqb (length X) (length y)) (Some (loop_zip f X y)).
Definition zip_inplace_opt (f : Row -> option L) (X : list Row) (y : list L) : option (list L) :=
  guard (Nat.eqb (length X) (length y)) (loop_zip_opt f X y).
End LoopPredictors.

Section Svm.
Context {F : Type} (o : NumOps F).
(* SeparatingHyperplane::Linear(w): [w.mul(sample).sum()] - an element-wise product collected into a
   fresh contiguous array, summed by [unrolled_fold] whatever the layout of the sample *)
Definition svm_linear_wsum (w x : list F) : F := usum o (map2 (mul o) w x).
Definition svm_value (wsum : list F -> F) (rho : F) (x : list F) : F := sub o (wsum x) rho.
Definition svm_label (wsum : list F -> F) (rho : F) (x : list F) : bool := leb o (zero o) (svm_value wsum rho x).
End Svm.

(** ** isotonic regression: [assert_eq!(dim, 1)], the length assertion, then the indexed loop in
    which an iteration may leave [y[i]] untouched *)
Section Iso.
Context {F : Type} (o : NumOps F).
Definition iso_inplace (reg resp : list F) (X : mat F) (y : list F) : option (list F) :=
  guard (rect 1 X)
  (guard (Nat.eqb (length X) (length y))
     (Some (loop_indexed (fun row => iso_value o reg resp (nth 0 row (zero o))) X y))).
End Iso.
