(** C03 - array-level models of the [predict_inplace] bodies that are written with whole-array
    operations (broadcast arithmetic, matrix-vector and matrix-matrix products, [mapv], [Zip]
    loops), transliterated statement by statement, and the row functions they amount to.

    A two-dimensional array is the list of its rows; [p] is its number of columns ([x.ncols()],
    which an empty list of rows cannot carry).  The only thing that stays a parameter is the order
    in which a float dot product is summed: [dot] for ndarray's 1-D [row.dot(w)] (instantiated
    with [udot] / [sdot] of Model.v), [mdot] for one entry of a matrixmultiply product (never
    reproduced bit for bit).  [None] is a panic (shape assertion, [dot_shape_error], [unwrap]).
    Definitions only; the theorems are in MatProofs.v. *)
From Coq Require Import List NArith ZArith Bool.
From LinfaVerif Require Import Common.Num Common.NdSum C03.Model.
Import ListNotations.

Definition guard {A} (b : bool) (v : option A) : option A := if b then v else None.
(* all rows succeed, or the first panic aborts the call *)
Fixpoint sequence {A} (l : list (option A)) : option (list A) :=
  match l with
  | [] => Some []
  | None :: _ => None
  | Some a :: l' => option_map (cons a) (sequence l')
  end.

(** * 1. The loops that write the target *)
Section Loops.
Context {Row L : Type}.
(* Zip::from(rows).and(y).for_each(|row, out| *out = f(row)),
   for (row, out) in x.outer_iter().zip(y.iter_mut()) { *out = f(row) } *)
Fixpoint loop_zip (f : Row -> L) (X : list Row) (y : list L) : list L :=
  match X, y with
  | x :: X', _ :: y' => f x :: loop_zip f X' y'
  | _, _ => y
  end.
(* the same with a closure that may panic ([unwrap]) *)
Fixpoint loop_zip_opt (f : Row -> option L) (X : list Row) (y : list L) : option (list L) :=
  match X, y with
  | x :: X', _ :: y' =>
      match f x with
      | None => None
      | Some v => option_map (cons v) (loop_zip_opt f X' y')
      end
  | _, _ => Some y
  end.
(* for (i, row) in x.rows().into_iter().enumerate() { if let Some(v) = f(row) { y[i] = v } } *)
Fixpoint set_nth (i : nat) (v : L) (y : list L) : list L :=
  match y, i with
  | [], _ => []
  | _ :: y', O => v :: y'
  | a :: y', S i' => a :: set_nth i' v y'
  end.
Definition loop_indexed (f : Row -> option L) (X : list Row) (y : list L) : list L :=
  fold_left (fun y ix => match f (snd ix) with Some v => set_nth (fst ix) v y | None => y end)
            (combine (seq 0 (length X)) X) y.
End Loops.

(** * 2. Whole-array operations *)
Section ArrayOps.
Context {F : Type} (o : NumOps F).
Definition mat := list (list F).
Definition rect (p : nat) (X : mat) : bool := forallb (fun r => Nat.eqb (length r) p) X.
(* &v broadcast to shape (n, p): n copies of the row *)
Definition bcast (n : nat) (v : list F) : mat := repeat v n.
(* element-wise binary operation on two arrays of the same shape *)
Definition mat_zip (f : F -> F -> F) (A B : mat) : mat := map2 (map2 f) A B.
(* A op &v  (x - &mean, x /= &std, product + &intercept) *)
Definition mat_op_row (f : F -> F -> F) (A : mat) (v : list F) : mat := mat_zip f A (bcast (length A) v).
(* a op s for a scalar s *)
Definition vec_op_scalar (f : F -> F -> F) (a : list F) (s : F) : list F := map (fun x => f x s) a.
Definition mapv (g : F -> F) (a : list F) : list F := map g a.
Definition mat_mapv (g : F -> F) (A : mat) : mat := map (map g) A.
(* the k columns of an array *)
Definition columns (k : nat) (W : mat) : mat := map (fun j => map (fun r => nth j r (zero o)) W) (seq 0 k).

(* Ix2.dot(Ix1): general_mat_vec_mul_impl with alpha = 1, beta = 0 writes [row.dot(w) * alpha] into
   every element of the uninitialised result [c0] *)
Definition matvec (dot : list F -> list F -> F) (A : mat) (w : list F) (c0 : list F) : list F :=
  loop_zip (fun r => mul o (dot r w) (one o)) A c0.
Definition uninit (n : nat) : list F := repeat (zero o) n.
(* Ix2.dot(Ix2) through matrixmultiply: entry (i, j) is the kernel's dot product of row i and column j *)
Definition matmul (mdot : list F -> list F -> F) (A : mat) (k : nat) (B : mat) : mat :=
  map (fun r => map (fun c => mdot r c) (columns k B)) A.
(* A.dot(&E.t()): the columns of the transposed view are the rows of E *)
Definition matmul_t (mdot : list F -> list F -> F) (A : mat) (E : mat) : mat :=
  map (fun r => map (fun e => mdot r e) E) A.

(* sum_axis(Axis(1)) of an (n, p) array: the lanes are summed with [unrolled_fold] when axis 1 has
   the smallest stride (row-major data); otherwise [res = zeros(n); for col { res = res + &col }] *)
Definition sum_axis1 (lanes : bool) (p : nat) (A : mat) : list F :=
  if lanes then map (usum o) A
  else fold_left (fun res col => map2 (add o) res col) (columns p A) (repeat (zero o) (length A)).

(* ndarray-stats argmax on a lane: first maximum; Err(UndefinedOrder) on an unordered pair (NaN),
   Err(EmptyInput) on an empty lane - both panic in [unwrap] *)
Definition pcmp (a b : F) : option comparison :=
  if ltb o a b then Some Lt else if eqb o a b then Some Eq else if ltb o b a then Some Gt else None.
Fixpoint argmax_from (l : list F) (i best : nat) (cur : F) : option nat :=
  match l with
  | [] => Some best
  | e :: l' =>
      match pcmp e cur with
      | None => None
      | Some Gt => argmax_from l' (S i) i e
      | Some _ => argmax_from l' (S i) best cur
      end
  end.
Definition argmax (l : list F) : option nat :=
  match l with [] => None | a :: _ => argmax_from l 0 0 a end.
End ArrayOps.

(** * 3. The predictors *)
Section Predictors.
Context {F : Type} (o : NumOps F).
Context (dot mdot : list F -> list F -> F).

(** ** OLS, elastic net: [*y = x.dot(&w) + b] *)
Definition lin_row (w : list F) (b : F) (x : list F) : F := add o (mul o (dot x w) (one o)) b.
Definition lin_default (X : mat (F := F)) : list F := repeat (zero o) (length X).
Definition lin_inplace (p : nat) (w : list F) (b : F) (X : mat) (y : list F) : option (list F) :=
  guard (Nat.eqb (length X) (length y))                                  (* assert_eq!(x.nrows(), y.len()) *)
  (guard (rect p X && Nat.eqb p (length w))                               (* dot_shape_error *)
         (Some (vec_op_scalar (add o) (matvec o dot X w (uninit o (length X))) b))).

(** ** Tweedie GLM: [ypred = x.dot(&coef) + intercept; *y = link.inverse(&ypred)] with
    [inverse = mapv inv] (identity: clone; log: exp; logit: 1/(1+exp(-x))) *)
Definition glm_row (inv : F -> F) (w : list F) (b : F) (x : list F) : F := inv (lin_row w b x).
Definition glm_inplace (inv : F -> F) (p : nat) (w : list F) (b : F) (X : mat) (y : list F) : option (list F) :=
  guard (Nat.eqb (length X) (length y))
  (guard (rect p X && Nat.eqb p (length w))
         (Some (mapv inv (vec_op_scalar (add o) (matvec o dot X w (uninit o (length X))) b)))).

(** ** binary logistic regression: probabilities [mapv_inplace(logistic)] of [x.dot(&w) + b], then a
    Zip loop that compares with the threshold *)
Definition logistic_fn (expf : F -> F) (z : F) : F := div o (one o) (add o (one o) (expf (opp o z))).
Definition logit_prob (expf : F -> F) (w : list F) (b : F) (x : list F) : F := logistic_fn expf (lin_row w b x).
Definition logit_row {C} (expf : F -> F) (w : list F) (b thr : F) (pos neg : C) (x : list F) : C :=
  if leb o thr (logit_prob expf w b x) then pos else neg.                 (* *prob >= self.threshold *)
Definition logit_inplace {C} (expf : F -> F) (p : nat) (w : list F) (b thr : F) (pos neg : C)
    (X : mat) (y : list C) : option (list C) :=
  guard (Nat.eqb (length X) (length y))
  (guard (Nat.eqb p (length w))                                           (* assert_eq!(x.ncols(), params.len()) *)
  (guard (rect p X)
     (let probs := mapv (logistic_fn expf) (vec_op_scalar (add o) (matvec o dot X w (uninit o (length X))) b) in
      Some (loop_zip (fun prob => if leb o thr prob then pos else neg) probs y)))).

(** ** multinomial logistic regression: [probs = x.dot(&W) + &b]; per row [classes[argmax]] *)
Definition scores_row (k : nat) (W : mat) (b : list F) (x : list F) : list F :=
  map2 (add o) (map (fun c => mdot x c) (columns o k W)) b.
Definition mlogit_row {C} (k : nat) (W : mat) (b : list F) (classes : list C) (dflt : C) (x : list F) : option C :=
  option_map (fun i => nth i classes dflt) (argmax o (scores_row k W b x)).
Definition mlogit_inplace {C} (p k : nat) (W : mat) (b : list F) (classes : list C) (dflt : C)
    (X : mat) (y : list C) : option (list C) :=
  guard (Nat.eqb (length X) (length y))
  (guard (Nat.eqb p (length W))                                           (* assert_eq!(x.ncols(), params.nrows()) *)
  (guard (rect p X && rect k W && Nat.eqb k (length b))                   (* array shapes / broadcast *)
     (let probs := mat_op_row (add o) (matmul o mdot X k W) b in
      loop_zip_opt (fun prow => option_map (fun i => nth i classes dflt) (argmax o prow)) probs y))).

(** ** multi-task elastic net: [*y = x.dot(&W) + &b]; only the number of rows of the target is asserted *)
Definition mtl_inplace {T} (p k : nat) (W : mat) (b : list F) (X : mat) (y : list T) : option mat :=
  guard (Nat.eqb (length X) (length y))
  (guard (rect p X && Nat.eqb p (length W) && rect k W && Nat.eqb k (length b))
         (Some (mat_op_row (add o) (matmul o mdot X k W) b))).

(** ** PCA: [*targets = (records - &mean).dot(&embedding.t())]; the target shape is asserted *)
Definition pca_row (mean : list F) (E : mat) (x : list F) : list F := map (fun e => mdot (map2 (sub o) x mean) e) E.
Definition pca_default (E : mat (F := F)) (X : mat (F := F)) : mat := repeat (repeat (zero o) (length E)) (length X).
Definition pca_inplace (p : nat) (mean : list F) (E : mat) (X : mat) (Y : mat) : option mat :=
  guard (Nat.eqb (length Y) (length X) && rect (length E) Y)             (* assert_eq!(targets.shape(), [n, k]) *)
  (guard (rect p X && Nat.eqb p (length mean) && rect p E)
         (Some (matmul_t mdot (mat_op_row (sub o) X mean) E))).

(** ** PLS: [x = x - &x_mean; x /= &x_std; *y = x.dot(&coefficients) + &y_mean] *)
Definition pls_row (k : nat) (xm xs : list F) (Cf : mat) (ym : list F) (x : list F) : list F :=
  map2 (add o) (map (fun c => mdot (map2 (div o) (map2 (sub o) x xm) xs) c) (columns o k Cf)) ym.
Definition pls_default (k : nat) (X : mat (F := F)) : mat := repeat (repeat (zero o) k) (length X).
Definition pls_inplace (p k : nat) (xm xs : list F) (Cf : mat) (ym : list F) (X : mat) (Y : mat) : option mat :=
  guard (Nat.eqb (length Y) (length X) && rect k Y)                       (* assert_eq!(y.shape(), [n, coefficients.ncols()]) *)
  (guard (rect p X && Nat.eqb p (length xm) && Nat.eqb p (length xs) && Nat.eqb p (length Cf) && rect k Cf
          && Nat.eqb k (length ym))
         (let X1 := mat_op_row (sub o) X xm in
          let X2 := mat_op_row (div o) X1 xs in
          Some (mat_op_row (add o) (matmul o mdot X2 k Cf) ym))).

(** ** naive Bayes (base_nb.rs): one joint-log-likelihood vector per class (classes in sorted
    order), stacked as the rows of an (nclasses, n) array; [map_axis(Axis(0))] takes the arg-max of
    every column.  [jll c X] is the class's vector over the batch. *)
Definition nb_inplace {L Cls} (jll : Cls -> mat -> list F) (label : Cls -> L) (dflt : L) (classes : list Cls)
    (X : mat) (y : list L) : option (list L) :=
  guard (Nat.eqb (length X) (length y))
    (let likelihood := map (fun c => jll c X) classes in
     sequence (map (fun col => option_map (fun i => label (nth i classes (nth 0 classes (* never used *) (hd_error_default classes)) )) (argmax o col))
                   (columns o (length X) likelihood))).
End Predictors.
