(** C03, round 5 - prediction of a support vector machine with a NON-LINEAR kernel
    (algorithms/linfa-svm/src/{lib,classification,regression}.rs, algorithms/linfa-kernel/src/lib.rs),
    transliterated statement by statement.

    [Svm::weighted_sum] on [SeparatingHyperplane::WeightedCombination(supp_vecs)]:

        supp_vecs.outer_iter()
            .zip(self.alpha.iter().filter(|a| a.abs() > F::cast(100.) * F::epsilon()))
            .map(|(x, a)| self.kernel_method.distance(x, sample.view()) * *a)
            .sum()

    and [KernelMethod::distance]:

        Gaussian(eps)    => (-(a.iter().zip(b.iter()).map(|(x, y)| (x - y) * (x - y)).sum::<F>()) / eps).exp()
        Linear           => a.mul(&b).sum()
        Polynomial(c, d) => (a.mul(&b).sum() + c).powf(d)

    The transcendental functions [exp] / [powf] are arguments of the model (tables on the float side, the real
    functions in the theorems).  [Iterator::sum] of floats folds from -0.0 (core::iter::Sum for
    f64): [opp (zero)].  [&a * &b] co-broadcasts its operands (a length-1 operand is repeated) and
    panics on any other length mismatch: [None].  The iterator [zip] of the Gaussian kernel
    silently truncates to the shorter operand.  Definitions only; theorems in ProofsR5.v. *)
From Coq Require Import List NArith ZArith Bool.
From LinfaVerif Require Import Common.Num Common.NdSum C03.Model C03.MatModel.
Import ListNotations.

Section SvmKernel.
Context {F : Type} (o : NumOps F).

(* Iterator::sum::<F>() : fold(-0.0, |a, b| a + b) *)
Definition isum (xs : list F) : F := fold_left (add o) xs (opp o (zero o)).

(* &a * &b on one-dimensional operands: co-broadcast, fresh contiguous result *)
Definition bmul (a b : list F) : option (list F) :=
  if Nat.eqb (length a) (length b) then Some (map2 (mul o) a b)
  else match a, b with
       | [a0], _ => Some (map (fun y => mul o a0 y) b)
       | _, [b0] => Some (map (fun x => mul o x b0) a)
       | _, _ => None
       end.
(* a.mul(&b).sum(): [unrolled_fold] over the fresh contiguous product *)
Definition bdot (a b : list F) : option F := option_map (usum o) (bmul a b).

(* the three kernel methods; [a] is the support vector, [b] the sample *)
Definition sqdist (a b : list F) : F :=
  isum (map2 (fun x y => mul o (sub o x y) (sub o x y)) a b).
Definition kern_gaussian (expf : F -> F) (eps : F) (a b : list F) : option F :=
  Some (expf (div o (opp o (sqdist a b)) eps)).
Definition kern_linear (a b : list F) : option F := bdot a b.
Definition kern_polynomial (powf : F -> F -> F) (c d : F) (a b : list F) : option F :=
  option_map (fun s => powf (add o s c) d) (bdot a b).

(* self.alpha.iter().filter(|a| a.abs() > F::cast(100.) * F::epsilon()); [thr] is 100 * epsilon *)
Definition alpha_big (thr : F) (a : F) : bool := ltb o thr (abs o a).

(* the terms of the sum, in iteration order; a panicking kernel evaluation aborts *)
Definition wsum_terms (kern : list F -> list F -> option F) (thr : F) (svs : list (list F)) (alpha : list F)
    (x : list F) : option (list F) :=
  sequence (map (fun sa => option_map (fun k => mul o k (snd sa)) (kern (fst sa) x))
                (combine svs (filter (alpha_big thr) alpha))).
Definition svm_kernel_wsum (kern : list F -> list F -> option F) (thr : F) (svs : list (list F)) (alpha : list F)
    (x : list F) : option F :=
  option_map isum (wsum_terms kern thr svs alpha x).

(* how the fit stores the support vectors: dataset.select(Axis(0), indices of the big alphas) *)
Definition support_vectors (thr : F) (D : list (list F)) (alpha : list F) : list (list F) :=
  map fst (filter (fun da => alpha_big thr (snd da)) (combine D alpha)).

(* the row function: [post (self.weighted_sum(&row) - self.rho)] with
   post = identity (regression), [val >= 0] (classification, one-class), [platt_predict(val, a, b)] (Pr) *)
Definition svm_kernel_row {L} (kern : list F -> list F -> option F) (thr : F) (svs : list (list F)) (alpha : list F)
    (rho : F) (post : F -> L) (x : list F) : option L :=
  option_map (fun s => post (sub o s rho)) (svm_kernel_wsum kern thr svs alpha x).
Definition post_label (v : F) : bool := leb o (zero o) v.

(* predict_inplace: assert_eq!(data.nrows(), targets.len()); then
   for (data, target) in data.outer_iter().zip(targets.iter_mut()) { *target = row function } *)
Definition svm_kernel_inplace {L} (kern : list F -> list F -> option F) (thr : F) (svs : list (list F)) (alpha : list F)
    (rho : F) (post : F -> L) (X : list (list F)) (y : list L) : option (list L) :=
  zip_inplace_opt (svm_kernel_row kern thr svs alpha rho post) X y.
End SvmKernel.
