(** C03 - lemmas about the array-level predictor models of C03/MatModel.v: every one of them is
    [rowwise] of an explicit row function, in every arithmetic. *)
From Coq Require Import List NArith ZArith Bool Arith Lia Reals Lra.
From LinfaVerif Require Import Common.Num Common.NdSum C03.Model C03.MatModel.
Import ListNotations.

(** * 0. Lists *)
Lemma map2_length {A B C} (f : A -> B -> C) : forall a b, length (map2 f a b) = Nat.min (length a) (length b).
Proof. induction a as [|x a IH]; intros [|y b]; simpl; auto. Qed.

Lemma map2_repeat {A B C} (f : A -> B -> C) (v : B) : forall a, map2 f a (repeat v (length a)) = map (fun r => f r v) a.
Proof. induction a as [|x a IH]; simpl; congruence. Qed.

Lemma map2_repeat_l {A B C} (f : A -> B -> C) (v : A) : forall b, map2 f (repeat v (length b)) b = map (fun r => f v r) b.
Proof. induction b as [|x b IH]; simpl; congruence. Qed.

Lemma map2_map_l {A A' B C} (f : A' -> B -> C) (g : A -> A') : forall a b, map2 f (map g a) b = map2 (fun x y => f (g x) y) a b.
Proof. induction a as [|x a IH]; intros [|y b]; simpl; auto. f_equal. apply IH. Qed.

Lemma map_map2 {A B C D} (f : A -> B -> C) (g : C -> D) : forall a b, map g (map2 f a b) = map2 (fun x y => g (f x y)) a b.
Proof. induction a as [|x a IH]; intros [|y b]; simpl; auto. f_equal. apply IH. Qed.

Lemma map2_ext {A B C} (f g : A -> B -> C) : (forall x y, f x y = g x y) -> forall a b, map2 f a b = map2 g a b.
Proof. intros H. induction a as [|x a IH]; intros [|y b]; simpl; auto. rewrite H, IH. reflexivity. Qed.

Lemma map2_fst {A B} : forall (a : list A) (b : list B), length a = length b -> map2 (fun x _ => x) a b = a.
Proof. induction a as [|x a IH]; intros [|y b] H; simpl in *; try discriminate; auto. f_equal. apply IH. lia. Qed.

(* map2 against the same list that a map runs over *)
Lemma map2_map_same {A B C} (f : B -> A -> C) (g : A -> B) : forall a, map2 f (map g a) a = map (fun x => f (g x) x) a.
Proof. induction a as [|x a IH]; simpl; congruence. Qed.

Lemma map_nth_seq {A B} (h : A -> B) (d : A) : forall X, map (fun j => h (nth j X d)) (seq 0 (length X)) = map h X.
Proof.
  induction X as [|x X IH]; simpl; auto. f_equal.
  rewrite <- seq_shift, map_map. exact IH.
Qed.

Lemma nth_seq_id {A} (d : A) (r : list A) : map (fun j => nth j r d) (seq 0 (length r)) = r.
Proof. rewrite (map_nth_seq (fun x => x) d r). apply map_id. Qed.

Lemma sequence_map_some {A B} (f : A -> B) : forall l, sequence (map (fun x => Some (f x)) l) = Some (map f l).
Proof. induction l as [|a l IH]; simpl; auto. rewrite IH. reflexivity. Qed.

Lemma sequence_length {A} : forall (l : list (option A)) r, sequence l = Some r -> length r = length l.
Proof.
  induction l as [|[a|] l IH]; simpl; intros r H; try discriminate.
  - inversion H. reflexivity.
  - destruct (sequence l) as [r'|]; simpl in H; inversion H. simpl. rewrite (IH r' eq_refl). reflexivity.
Qed.

(** * 1. The loops write exactly one function value per row *)
Section LoopsP.
Context {Row L : Type}.

Lemma loop_zip_map (f : Row -> L) : forall X y, length y = length X -> loop_zip f X y = map f X.
Proof. induction X as [|x X IH]; intros [|a y] H; simpl in *; try discriminate; auto. f_equal. apply IH. lia. Qed.

Lemma loop_zip_opt_sequence (f : Row -> option L) : forall X y, length y = length X ->
  loop_zip_opt f X y = sequence (map f X).
Proof.
  induction X as [|x X IH]; intros [|a y] H; simpl in *; try discriminate; auto.
  destruct (f x); auto. rewrite IH by lia. reflexivity.
Qed.

Lemma set_nth_app (pre : list L) (a v : L) (y : list L) : set_nth (length pre) v (pre ++ a :: y) = pre ++ v :: y.
Proof. induction pre as [|b pre IH]; simpl; congruence. Qed.

Definition keep (f : Row -> option L) (x : Row) (y0 : L) : L := match f x with Some v => v | None => y0 end.

Lemma loop_indexed_gen (f : Row -> option L) : forall X y pre, length y = length X ->
  fold_left (fun y ix => match f (snd ix) with Some v => set_nth (fst ix) v y | None => y end)
            (combine (seq (length pre) (length X)) X) (pre ++ y)
  = pre ++ map2 (keep f) X y.
Proof.
  induction X as [|x X IH]; intros [|a y] pre H; simpl in *; try discriminate; auto.
  assert (E : (match f x with Some v => set_nth (length pre) v (pre ++ a :: y) | None => pre ++ a :: y end)
              = (pre ++ [keep f x a]) ++ y).
  { unfold keep. destruct (f x); [rewrite set_nth_app|]; rewrite <- app_assoc; reflexivity. }
  rewrite E. replace (S (length pre)) with (length (pre ++ [keep f x a])) by (rewrite app_length; simpl; lia).
  rewrite IH by lia. rewrite <- app_assoc. reflexivity.
Qed.

(* element i of the result depends on row i and on what the target held at position i, nothing else *)
Lemma loop_indexed_map2 (f : Row -> option L) X y : length y = length X ->
  loop_indexed f X y = map2 (keep f) X y.
Proof. intros H. unfold loop_indexed. apply (loop_indexed_gen f X y [] H). Qed.

Lemma loop_indexed_total (f : Row -> option L) (g : Row -> L) X y : length y = length X ->
  (forall x, In x X -> f x = Some (g x)) -> loop_indexed f X y = map g X.
Proof.
  intros H Hf. rewrite loop_indexed_map2 by exact H. revert y H.
  induction X as [|x X IH]; intros [|a y] H; simpl in *; try discriminate; auto.
  unfold keep at 1. rewrite (Hf x) by auto. f_equal. apply IH; [intros; apply Hf; right; assumption | lia].
Qed.
End LoopsP.

(** * 2. Whole-array operations are row operations *)
Section ArrayOpsP.
Context {F : Type} (o : NumOps F).

Lemma mat_op_row_rowwise (f : F -> F -> F) (A : mat F) (v : list F) :
  mat_op_row f A v = map (fun r => map2 f r v) A.
Proof. unfold mat_op_row, mat_zip, bcast. apply map2_repeat. Qed.

Lemma matvec_rowwise (dot : list F -> list F -> F) (A : mat F) (w c0 : list F) : length c0 = length A ->
  matvec o dot A w c0 = map (fun r => mul o (dot r w) (one o)) A.
Proof. intros H. unfold matvec. apply loop_zip_map. exact H. Qed.

Lemma uninit_length n : length (uninit o n) = n.
Proof. apply repeat_length. Qed.

Lemma columns_of_maps {Cls} (g : Cls -> list F -> F) (cs : list Cls) (X : mat F) :
  columns o (length X) (map (fun c => map (g c) X) cs) = map (fun x => map (fun c => g c x) cs) X.
Proof.
  unfold columns.
  rewrite <- (map_nth_seq (fun x => map (fun c => g c x) cs) [] X).
  apply map_ext_in. intros j Hj. apply in_seq in Hj.
  rewrite map_map. apply map_ext. intros c.
  rewrite (nth_indep _ (zero o) (g c [])) by (rewrite map_length; lia).
  apply map_nth.
Qed.

(* the column-by-column accumulation of sum_axis on column-major data is, row by row, the
   sequential sum *)
Lemma fold_columns_gen (A : mat F) : forall (js : list nat) (acc : list F), length acc = length A ->
  fold_left (fun res col => map2 (add o) res col) (map (fun j => map (fun r => nth j r (zero o)) A) js) acc
  = map2 (fun a r => fold_left (add o) (map (fun j => nth j r (zero o)) js) a) acc A.
Proof.
  induction js as [|j js IH]; intros acc H; simpl.
  - symmetry. apply map2_fst. exact H.
  - rewrite IH by (rewrite map2_length, map_length; lia).
    clear IH. revert acc H. induction A as [|r A IHA]; intros [|a acc] H; simpl in *; try discriminate; auto.
    f_equal. apply IHA. lia.
Qed.

Lemma sum_axis1_columns (p : nat) (A : mat F) : rect p A = true ->
  sum_axis1 o false p A = map (seq_sum o) A.
Proof.
  intros Hr. unfold sum_axis1, columns.
  rewrite fold_columns_gen by apply repeat_length.
  rewrite map2_repeat_l. apply map_ext_in. intros r Hin.
  unfold rect in Hr. rewrite forallb_forall in Hr. specialize (Hr r Hin). apply Nat.eqb_eq in Hr.
  rewrite <- Hr, nth_seq_id. reflexivity.
Qed.

Lemma sum_axis1_lanes (p : nat) (A : mat F) : sum_axis1 o true p A = map (usum o) A.
Proof. reflexivity. Qed.
End ArrayOpsP.

(** * 3. The predictors *)
Section PredictorsP.
Context {F : Type} (o : NumOps F) (dot mdot : list F -> list F -> F).

Lemma lin_vector (w : list F) (b : F) (X : mat F) :
  vec_op_scalar (add o) (matvec o dot X w (uninit o (length X))) b = rowwise (lin_row o dot w b) X.
Proof.
  rewrite matvec_rowwise by apply uninit_length. unfold vec_op_scalar, rowwise, lin_row.
  rewrite map_map. reflexivity.
Qed.

Lemma lin_inplace_rowwise p w b X y :
  lin_inplace o dot p w b X y =
  guard (Nat.eqb (length X) (length y)) (guard (rect p X && Nat.eqb p (length w)) (Some (rowwise (lin_row o dot w b) X))).
Proof. unfold lin_inplace. rewrite lin_vector. reflexivity. Qed.

Lemma glm_inplace_rowwise inv p w b X y :
  glm_inplace o dot inv p w b X y =
  guard (Nat.eqb (length X) (length y)) (guard (rect p X && Nat.eqb p (length w)) (Some (rowwise (glm_row o dot inv w b) X))).
Proof. unfold glm_inplace. rewrite lin_vector. unfold mapv, rowwise, glm_row. rewrite map_map. reflexivity. Qed.

Lemma logit_inplace_rowwise {C} expf p w b thr (pos neg : C) X y :
  logit_inplace o dot expf p w b thr pos neg X y =
  guard (Nat.eqb (length X) (length y)) (guard (Nat.eqb p (length w)) (guard (rect p X)
    (Some (rowwise (logit_row o dot expf w b thr pos neg) X)))).
Proof.
  unfold logit_inplace. destruct (Nat.eqb (length X) (length y)) eqn:E; [|reflexivity].
  apply Nat.eqb_eq in E. cbn [guard]. do 2 f_equal. f_equal.
  rewrite lin_vector. unfold mapv, rowwise. rewrite map_map.
  rewrite loop_zip_map by (rewrite map_length; auto). rewrite map_map. reflexivity.
Qed.

Lemma scores_matrix k W b X :
  mat_op_row (add o) (matmul o mdot X k W) b = rowwise (scores_row o mdot k W b) X.
Proof. rewrite mat_op_row_rowwise. unfold matmul, rowwise, scores_row. rewrite map_map. reflexivity. Qed.

Lemma mlogit_inplace_rowwise {C} p k W b (classes : list C) dflt X y :
  mlogit_inplace o mdot p k W b classes dflt X y =
  guard (Nat.eqb (length X) (length y)) (guard (Nat.eqb p (length W)) (guard (rect p X && rect k W && Nat.eqb k (length b))
    (sequence (map (mlogit_row o mdot k W b classes dflt) X)))).
Proof.
  unfold mlogit_inplace. destruct (Nat.eqb (length X) (length y)) eqn:E; [|reflexivity].
  apply Nat.eqb_eq in E. cbn [guard]. do 2 f_equal.
  rewrite scores_matrix. unfold rowwise.
  rewrite loop_zip_opt_sequence by (rewrite map_length; auto). rewrite map_map. reflexivity.
Qed.

Lemma mtl_inplace_rowwise {T} p k W b X (y : list T) :
  mtl_inplace o mdot p k W b X y =
  guard (Nat.eqb (length X) (length y)) (guard (rect p X && Nat.eqb p (length W) && rect k W && Nat.eqb k (length b))
    (Some (rowwise (scores_row o mdot k W b) X))).
Proof. unfold mtl_inplace. rewrite scores_matrix. reflexivity. Qed.

Lemma pca_inplace_rowwise p mean E X Y :
  pca_inplace o mdot p mean E X Y =
  guard (Nat.eqb (length Y) (length X) && rect (length E) Y) (guard (rect p X && Nat.eqb p (length mean) && rect p E)
    (Some (rowwise (pca_row o mdot mean E) X))).
Proof.
  unfold pca_inplace. rewrite mat_op_row_rowwise. unfold matmul_t, rowwise, pca_row. rewrite map_map. reflexivity.
Qed.

Lemma pls_inplace_rowwise p k xm xs Cf ym X Y :
  pls_inplace o mdot p k xm xs Cf ym X Y =
  guard (Nat.eqb (length Y) (length X) && rect k Y)
  (guard (rect p X && Nat.eqb p (length xm) && Nat.eqb p (length xs) && Nat.eqb p (length Cf) && rect k Cf && Nat.eqb k (length ym))
    (Some (rowwise (pls_row o mdot k xm xs Cf ym) X))).
Proof.
  unfold pls_inplace. cbv zeta. rewrite !mat_op_row_rowwise. unfold matmul, rowwise, pls_row.
  rewrite !map_map. reflexivity.
Qed.

(** naive Bayes: if every class's batch vector is the map of a per-row score, the prediction is the
    per-row arg-max over the classes *)
Lemma nb_inplace_rowwise {L Cls} (jll : Cls -> mat F -> list F) (score : Cls -> list F -> F) (dflt : L)
    (classes : list (L * Cls)) X y :
  (forall c, In c classes -> jll (snd c) X = map (score (snd c)) X) ->
  nb_inplace o jll dflt classes X y =
  guard (Nat.eqb (length X) (length y)) (sequence (map (nb_row o score dflt classes) X)).
Proof.
  intros H. unfold nb_inplace. f_equal.
  assert (E : map (fun c : L * Cls => jll (snd c) X) classes = map (fun c => map (score (snd c)) X) classes).
  { apply map_ext_in. exact H. }
  rewrite E.
  rewrite (columns_of_maps o (fun c : L * Cls => score (snd c)) classes X).
  rewrite map_map. reflexivity.
Qed.

Lemma mnb_jll_rowwise (c : F * list F) X : mnb_jll o dot c X = map (mnb_score o dot c) X.
Proof. unfold mnb_jll, mnb_score. apply lin_vector. Qed.

Lemma gnb_jll_rowwise lnf twopi mhalf half (lanes : bool) p (c : F * (list F * list F)) X :
  rect p X = true -> length (fst (snd c)) = p -> length (snd (snd c)) = p ->
  gnb_jll o lnf twopi mhalf half lanes p c X = map (gnb_score o lnf twopi mhalf half lanes c) X.
Proof.
  intros Hr Ht Hs. unfold gnb_jll, gnb_score. cbv zeta.
  rewrite !mat_op_row_rowwise. unfold mat_mapv, vec_op_scalar, mapv.
  rewrite !map_map.
  destruct lanes.
  - rewrite sum_axis1_lanes. rewrite !map_map. reflexivity.
  - rewrite sum_axis1_columns.
    + rewrite !map_map. reflexivity.
    + unfold rect in *. rewrite forallb_forall in *. intros r Hin.
      apply in_map_iff in Hin as [x [<- Hx]]. specialize (Hr x Hx). apply Nat.eqb_eq in Hr.
      apply Nat.eqb_eq. rewrite map2_length, map_length, map2_length. lia.
Qed.
End PredictorsP.

Section FtrlP.
Context {F G : Type} (oF : NumOps F) (oG : NumOps G) (dot : list F -> list F -> F).
Context (expf : F -> F) (signneg : F -> bool) (c35 : F) (cast : F -> G).

Lemma ftrl_inplace_rowwise p w X y :
  ftrl_inplace oF oG dot expf signneg c35 cast p w X y =
  guard (Nat.eqb (length X) (length y)) (guard (Nat.eqb p (length w)) (guard (rect p X)
    (sequence (map (ftrl_row oF oG dot expf signneg c35 cast w) X)))).
Proof.
  unfold ftrl_inplace. destruct (Nat.eqb (length X) (length y)) eqn:E; [|reflexivity].
  apply Nat.eqb_eq in E. cbn [guard]. do 2 f_equal. cbv zeta.
  rewrite matvec_rowwise by apply uninit_length. unfold mapv. rewrite !map_map.
  assert (Em : map (fun x => pr_new oG (cast (stable_sigmoid oF expf signneg c35 (mul oF (dot x w) (one oF))))) X
               = map (ftrl_row oF oG dot expf signneg c35 cast w) X) by reflexivity.
  rewrite Em.
  destruct (sequence (map (ftrl_row oF oG dot expf signneg c35 cast w) X)) as [pr|] eqn:S; [|reflexivity].
  rewrite loop_zip_map, map_id; [reflexivity|].
  rewrite (sequence_length _ _ S), map_length. auto.
Qed.
End FtrlP.

Section LoopPredictorsP.
Context {Row L : Type}.
Lemma zip_inplace_rowwise (f : Row -> L) X y :
  zip_inplace f X y = guard (Nat.eqb (length X) (length y)) (Some (rowwise f X)).
Proof.
  unfold zip_inplace. destruct (Nat.eqb (length X) (length y)) eqn:E; [|reflexivity].
  apply Nat.eqb_eq in E. cbn [guard]. rewrite loop_zip_map by auto. reflexivity.
Qed.
Lemma zip_inplace_opt_rowwise (f : Row -> option L) X y :
  zip_inplace_opt f X y = guard (Nat.eqb (length X) (length y)) (sequence (map f X)).
Proof.
  unfold zip_inplace_opt. destruct (Nat.eqb (length X) (length y)) eqn:E; [|reflexivity].
  apply Nat.eqb_eq in E. cbn [guard]. apply loop_zip_opt_sequence. auto.
Qed.
End LoopPredictorsP.

Section IsoP.
Context {F : Type} (o : NumOps F).
Lemma iso_inplace_elementwise reg resp X y :
  iso_inplace o reg resp X y =
  guard (rect 1 X) (guard (Nat.eqb (length X) (length y))
    (Some (map2 (fun row y0 => iso_predict o reg resp y0 (nth 0 row (zero o))) X y))).
Proof.
  unfold iso_inplace. destruct (rect 1 X); [|reflexivity]. cbn [guard].
  destruct (Nat.eqb (length X) (length y)) eqn:E; [|reflexivity].
  apply Nat.eqb_eq in E. cbn [guard]. rewrite loop_indexed_map2 by auto. reflexivity.
Qed.
End IsoP.

(** * 4. A predictor whose in-place form is [rowwise f] for every target of the right length gives
    [rowwise f] through all four calling forms *)
Lemma forms_of_rowwise_inplace {Row L T0} (dt : list Row -> list L) (pi : list Row -> list L -> option (list L))
    (f : Row -> L) (X : list Row) (t0 : T0) :
  length (dt X) = length X ->
  (forall y, length y = length X -> pi X y = Some (rowwise f X)) ->
  predict_ref dt pi X = Some (rowwise f X)
  /\ predict_owned dt pi X = Some (X, rowwise f X)
  /\ predict_ds_ref dt pi (X, t0) = Some (rowwise f X)
  /\ predict_ds dt pi (X, t0) = Some (X, rowwise f X).
Proof.
  intros Hd Hp. unfold predict_ref, predict_owned, predict_ds_ref, predict_ds. simpl.
  rewrite (Hp (dt X) Hd). simpl. auto.
Qed.

(** * 5. Over the reals both summation orders are the dot product *)
Section RealsP.
Local Open Scope R_scope.
Definition Rsum (l : list R) : R := fold_right Rplus 0 l.
Fixpoint Rdot (a b : list R) : R := match a, b with x :: a', y :: b' => x * y + Rdot a' b' | _, _ => 0 end.

Lemma fold_left_Rplus l : forall a, fold_left Rplus l a = a + Rsum l.
Proof. induction l as [|x l IH]; intros a; simpl; [lra | rewrite IH; lra]. Qed.

Lemma seq_sum_R l : seq_sum R_ops l = Rsum l.
Proof. unfold seq_sum; simpl. rewrite fold_left_Rplus. lra. Qed.

Lemma chunks8_sum : forall n xs p, (length xs <= n)%nat -> length p = 8%nat ->
  length (fst (chunks8 R_ops xs p)) = 8%nat /\
  Rsum (fst (chunks8 R_ops xs p)) + Rsum (snd (chunks8 R_ops xs p)) = Rsum p + Rsum xs.
Proof.
  induction n as [|n IH]; intros xs p Hn Hp.
  - destruct xs; [simpl; split; [exact Hp | lra] | simpl in Hn; lia].
  - destruct xs as [|x0 [|x1 [|x2 [|x3 [|x4 [|x5 [|x6 [|x7 t]]]]]]]];
      try (cbn [chunks8 fst snd]; split; [exact Hp | lra]).
    destruct p as [|p0 [|p1 [|p2 [|p3 [|p4 [|p5 [|p6 [|p7 [|p8 p]]]]]]]]]; try discriminate Hp.
    cbn [chunks8].
    match goal with |- context [chunks8 R_ops t ?q] => destruct (IH t q) as [H1 H2] end.
    + simpl in Hn |- *. lia.
    + reflexivity.
    + split; [exact H1|]. rewrite H2. simpl. lra.
Qed.

Lemma usum_R l : usum R_ops l = Rsum l.
Proof.
  unfold usum.
  destruct (chunks8_sum (length l) l [zero R_ops; zero R_ops; zero R_ops; zero R_ops; zero R_ops; zero R_ops; zero R_ops; zero R_ops]) as [H1 H2];
    [lia | reflexivity |].
  destruct (chunks8 R_ops l _) as [p rest]. cbn [fst snd] in H1, H2.
  destruct p as [|p0 [|p1 [|p2 [|p3 [|p4 [|p5 [|p6 [|p7 [|p8 p]]]]]]]]]; try discriminate H1.
  rewrite fold_left_Rplus. simpl in H2 |- *. lra.
Qed.

Lemma Rsum_products : forall x w, Rsum (map2 Rmult x w) = Rdot x w.
Proof. induction x as [|a x IH]; intros [|b w]; simpl; auto. rewrite IH. reflexivity. Qed.

Lemma udot_R x w : udot R_ops x w = Rdot x w.
Proof. unfold udot. rewrite usum_R. apply Rsum_products. Qed.
Lemma sdot_R x w : sdot R_ops x w = Rdot x w.
Proof. unfold sdot. rewrite seq_sum_R. apply Rsum_products. Qed.

Lemma linear_predict_R (contig : bool) w b x : linear_predict R_ops contig w b x = Rdot x w + b.
Proof. unfold linear_predict. simpl. destruct contig; [rewrite udot_R | rewrite sdot_R]; lra. Qed.

Lemma Rdot_comm : forall x w, Rdot x w = Rdot w x.
Proof. induction x as [|a x IH]; intros [|b w]; simpl; auto. rewrite IH. lra. Qed.

Lemma svm_linear_value_R w rho x : svm_value R_ops (svm_linear_wsum R_ops w) rho x = Rdot w x - rho.
Proof. unfold svm_value, svm_linear_wsum. rewrite usum_R. simpl. rewrite Rsum_products. reflexivity. Qed.

(* over the reals (no NaN) a non-empty isotonic model writes every target element *)
Lemma position_some (p : R -> bool) : forall l i, (exists a, In a l /\ p a = true) -> position p l i <> None.
Proof.
  induction l as [|a l IH]; intros i [b [Hin Hp]]; simpl in *; [contradiction|].
  destruct (p a) eqn:E; [discriminate|]. apply IH. destruct Hin as [->|Hin]; [congruence|]. exists b. auto.
Qed.

Lemma iso_value_R_total reg resp v : reg <> [] -> iso_value R_ops reg resp v <> None.
Proof.
  intros Hne. unfold iso_value. cbv zeta. simpl.
  destruct (Rleb (nth (length reg - 1) reg 0) v) eqn:E1; [discriminate|].
  destruct (Rleb v (nth 0 reg 0)) eqn:E2; [discriminate|].
  apply Rleb_false in E1.
  pose proof (position_some (fun x => Rleb v x) reg 0%nat) as Hp.
  destruct (position (fun x : R => Rleb v x) reg 0).
  - destruct (Rleb v (nth n reg 0) && (n <? length reg)%nat)%bool; discriminate.
  - exfalso. apply Hp; [|reflexivity].
    exists (nth (length reg - 1) reg 0). split.
    + apply nth_In. destruct reg; [congruence|]. simpl. lia.
    + apply Rleb_true. lra.
Qed.
End RealsP.

Lemma iso_inplace_R reg resp (X : mat R) (y : list R) : reg <> [] -> rect 1 X = true -> length y = length X ->
  iso_inplace R_ops reg resp X y = Some (rowwise (fun row => iso_predict R_ops reg resp 0%R (nth 0 row 0%R)) X).
Proof.
  intros Hne Hr Hl. rewrite iso_inplace_elementwise, Hr. cbn [guard].
  rewrite Hl, Nat.eqb_refl. cbn [guard]. f_equal. unfold rowwise.
  revert y Hl. clear Hr. induction X as [|x X IH]; intros [|a y] Hl; simpl in *; try discriminate; auto.
  f_equal; [|apply IH; lia].
  unfold iso_predict. pose proof (iso_value_R_total reg resp (nth 0 x 0%R) Hne) as Ht.
  destruct (iso_value R_ops reg resp (nth 0 x 0%R)); [reflexivity|congruence].
Qed.

(** * 6. The arg-max of ndarray-stats over the reals: never fails on a non-empty lane and returns
    the first position of the maximum *)
Section ArgmaxP.
Local Open Scope R_scope.

Lemma pcmp_R a b : pcmp R_ops a b = if Rlt_dec a b then Some Lt else if Req_EM_T a b then Some Eq else Some Gt.
Proof.
  unfold pcmp; simpl. unfold Rltb, Reqb.
  destruct (Rlt_dec a b); auto. destruct (Req_EM_T a b); auto. destruct (Rlt_dec b a); auto. lra.
Qed.

Lemma argmax_from_R : forall (l pre : list R) (best : nat) (cur : R),
  (best < length pre)%nat -> cur = nth best pre 0 ->
  (forall j, (j < length pre)%nat -> nth j pre 0 <= cur) ->
  (forall j, (j < best)%nat -> nth j pre 0 < cur) ->
  exists k, argmax_from R_ops l (length pre) best cur = Some k /\ (k < length (pre ++ l))%nat
    /\ (forall j, (j < length (pre ++ l))%nat -> nth j (pre ++ l) 0 <= nth k (pre ++ l) 0)
    /\ (forall j, (j < k)%nat -> nth j (pre ++ l) 0 < nth k (pre ++ l) 0).
Proof.
  induction l as [|e l IH]; intros pre best cur Hb Hc Hall Hfirst.
  - exists best. rewrite app_nil_r. simpl. subst cur. repeat split; auto.
  - cbn [argmax_from]. rewrite pcmp_R.
    assert (Hlen : length (pre ++ [e]) = S (length pre)) by (rewrite app_length; simpl; lia).
    assert (Hold : forall j, (j < length pre)%nat -> nth j (pre ++ [e]) 0 = nth j pre 0) by (intros; apply app_nth1; auto).
    assert (Hnew : nth (length pre) (pre ++ [e]) 0 = e) by (rewrite app_nth2, Nat.sub_diag; auto).
    replace (pre ++ e :: l) with ((pre ++ [e]) ++ l) by (rewrite <- app_assoc; reflexivity).
    replace (S (length pre)) with (length (pre ++ [e])) by exact Hlen.
    destruct (Rlt_dec e cur) as [Hlt|Hnlt]; [|destruct (Req_EM_T e cur) as [Heq|Hne]].
    + apply IH; [lia | rewrite Hold by lia; exact Hc | | intros j Hj; rewrite Hold by lia; auto].
      intros j Hj. destruct (Nat.eq_dec j (length pre)) as [->|Hn]; [rewrite Hnew; lra | rewrite Hold by lia; apply Hall; lia].
    + apply IH; [lia | rewrite Hold by lia; exact Hc | | intros j Hj; rewrite Hold by lia; auto].
      intros j Hj. destruct (Nat.eq_dec j (length pre)) as [->|Hn]; [rewrite Hnew; lra | rewrite Hold by lia; apply Hall; lia].
    + assert (Hgt : cur < e) by lra.
      apply IH; [lia | symmetry; exact Hnew | |].
      * intros j Hj. destruct (Nat.eq_dec j (length pre)) as [->|Hn]; [rewrite Hnew; lra|].
        rewrite Hold by lia. specialize (Hall j ltac:(lia)). lra.
      * intros j Hj. rewrite Hold by lia. specialize (Hall j Hj). lra.
Qed.

Lemma argmax_R_first_max (l : list R) : l <> [] ->
  exists k, argmax R_ops l = Some k /\ (k < length l)%nat
    /\ (forall j, (j < length l)%nat -> nth j l 0 <= nth k l 0)
    /\ (forall j, (j < k)%nat -> nth j l 0 < nth k l 0).
Proof.
  destruct l as [|a l]; [congruence|]. intros _.
  unfold argmax. cbn [argmax_from]. rewrite pcmp_R.
  destruct (Rlt_dec a a) as [H|_]; [lra|]. destruct (Req_EM_T a a) as [_|H]; [|congruence].
  apply (argmax_from_R l [a] 0%nat a); simpl; auto.
  - intros j Hj. destruct j; [lra|lia].
  - intros j Hj. lia.
Qed.
End ArgmaxP.

(** * Non-vacuity *)
Example ex_lin_inplace :
  lin_inplace (F := nat) {| zero := 0; one := 1; add := Nat.add; sub := Nat.sub; mul := Nat.mul; div := Nat.div;
                            opp := fun x => x; abs := fun x => x; sqrt := fun x => x;
                            ltb := Nat.ltb; leb := Nat.leb; eqb := Nat.eqb; of_N := N.to_nat |}
              (fun x w => fold_left Nat.add (map2 Nat.mul x w) 0) 2 [3; 4] 5 [[1; 2]; [0; 1]; [2; 0]] [9; 9; 9]
  = Some [16; 9; 11].
Proof. reflexivity. Qed.

(* two classes, two features: scores (1*2+0*1+3, 1*0+0*1+4) = (5, 4) and (0+5+3, 0+5+4) = (8, 9) *)
Example ex_mlogit_rows :
  let o := {| zero := 0; one := 1; add := Nat.add; sub := Nat.sub; mul := Nat.mul; div := Nat.div;
              opp := fun x => x; abs := fun x => x; sqrt := fun x => x;
              ltb := Nat.ltb; leb := Nat.leb; eqb := Nat.eqb; of_N := N.to_nat |} in
  mlogit_inplace o (fun x w => fold_left Nat.add (map2 Nat.mul x w) 0) 2 2 [[2; 0]; [1; 1]] [3; 4] [70; 80] 0
                 [[1; 0]; [0; 5]] [0; 0]
  = Some [70; 80].
Proof. reflexivity. Qed.

(* the isotonic loop leaves an element alone when the row function returns None *)
Example ex_loop_indexed :
  loop_indexed (fun x : nat => if Nat.eqb x 0 then None else Some (10 * x)) [1; 0; 3] [7; 8; 9] = [10; 8; 30].
Proof. reflexivity. Qed.

(* column-major sum_axis: accumulating the columns gives the sequential row sums *)
Example ex_sum_axis1 :
  let o := {| zero := 0; one := 1; add := Nat.add; sub := Nat.sub; mul := Nat.mul; div := Nat.div;
              opp := fun x => x; abs := fun x => x; sqrt := fun x => x;
              ltb := Nat.ltb; leb := Nat.leb; eqb := Nat.eqb; of_N := N.to_nat |} in
  sum_axis1 o false 3 [[1; 2; 3]; [4; 5; 6]] = [6; 15] /\ rect 3 [[1; 2; 3]; [4; 5; 6]] = true.
Proof. split; reflexivity. Qed.

Example ex_argmax_R : exists k, argmax R_ops [1; 3; 2; 3]%R = Some k /\ k = 1%nat.
Proof.
  destruct (argmax_R_first_max [1; 3; 2; 3]%R ltac:(discriminate)) as [k [Hk [Hlt [Hall Hfirst]]]].
  exists k. split; auto. simpl in Hlt.
  destruct k as [|[|[|[|k]]]]; try lia; auto.
  - specialize (Hall 1%nat ltac:(simpl; lia)). simpl in Hall. lra.
  - specialize (Hall 1%nat ltac:(simpl; lia)). simpl in Hall. lra.
  - specialize (Hfirst 1%nat ltac:(lia)). simpl in Hfirst. lra.
Qed.
