(** C03 - property theorems (statements only; proofs are in C03/Proofs.v).
    "Prediction is a per-sample function, identical through every calling form." *)
From Coq Require Import List NArith Reals Permutation.
From LinfaVerif Require Import Common.Num C03.Model C03.Proofs.
Import ListNotations.

(** The four blanket [Predict] forms (borrowed records, owned records, borrowed dataset, owned
    dataset) return the same targets for every model, and the dataset-returning forms hand back
    exactly the records they were given. *)
Theorem forms_agree : forall (Rec Tgt Tgt0 : Type) (default_target : Rec -> Tgt)
    (predict_inplace : Rec -> Tgt -> option Tgt) (x : Rec) (old_targets : Tgt0),
  predict_owned default_target predict_inplace x
    = option_map (fun t => (x, t)) (predict_ref default_target predict_inplace x)
  /\ predict_ds_ref default_target predict_inplace (x, old_targets) = predict_ref default_target predict_inplace x
  /\ predict_ds default_target predict_inplace (x, old_targets)
    = option_map (fun t => (x, t)) (predict_ref default_target predict_inplace x).
Proof. intros; apply forms_same_targets. Qed.

(** For a row-wise predictor every form returns [f] of every row - exactly one output per input
    row - the dataset forms return the records unchanged, and predicting in place does not depend
    on what the target held before (any pre-filled target of the right length; a wrong length is
    the assertion failure). *)
Theorem forms_rowwise_one_output_per_row : forall (Row L T0 : Type) (f : Row -> L) (d : L) (X : list Row) (t0 : T0),
  predict_ref (rw_default d) (rw_inplace f) X = Some (rowwise f X)
  /\ predict_owned (rw_default d) (rw_inplace f) X = Some (X, rowwise f X)
  /\ predict_ds_ref (rw_default d) (rw_inplace f) (X, t0) = Some (rowwise f X)
  /\ predict_ds (rw_default d) (rw_inplace f) (X, t0) = Some (X, rowwise f X)
  /\ length (rowwise f X) = length X
  /\ (forall y, length y = length X -> rw_inplace f X y = Some (rowwise f X))
  /\ (forall y, length y <> length X -> rw_inplace f X y = None).
Proof.
  intros Row L T0 f d X t0. destruct (rw_forms f d X T0 t0) as [H1 [H2 [H3 H4]]].
  repeat split; auto using rowwise_length, rw_inplace_any_target, rw_inplace_wrong_length.
Qed.

(** Predicting any selection of rows (sub-batch, permutation, duplication) yields the selection of
    the predictions; in particular row i of the batch gets what row i alone gets, concatenated
    batches give concatenated predictions, permuted batches permuted predictions, and the empty
    batch the empty prediction. *)
Theorem rowwise_select : forall (Row L : Type) (f : Row -> L) (d : Row) (idx : list nat) (X : list Row),
  rowwise f (select d idx X) = select (f d) idx (rowwise f X).
Proof. intros; apply Proofs.rowwise_select. Qed.

Theorem rowwise_batch_independent : forall (Row L : Type) (f : Row -> L) (d : Row) (X Y : list Row),
  (forall i, rowwise f [nth i X d] = [nth i (rowwise f X) (f d)])
  /\ rowwise f (X ++ Y) = rowwise f X ++ rowwise f Y
  /\ (Permutation X Y -> Permutation (rowwise f X) (rowwise f Y))
  /\ rowwise f [] = [].
Proof.
  intros. repeat split; auto using rowwise_single, rowwise_app, rowwise_perm.
Qed.

(** MultiTargetModel: for every number of member models and every batch size the
    [into_shape((models, n)).reversed_axes()] array has shape (n, models) and its entry (i, j) is
    member j's prediction for row i (members return one output per row). *)
Theorem multi_target_column : forall (Row L : Type) (ms : list (list Row -> list L)) (X : list Row) (d : L),
  (forall m, In m ms -> length (m X) = length X) ->
  exists a, mt_predict ms X = Some a /\ a_rows a = length X /\ a_cols a = length ms /\
    forall i j, i < length X -> j < length ms ->
      get d a i j = nth i (nth j ms (fun _ => []) X) d
      /\ nth j (nth i (to_rows d a) []) d = nth i (nth j ms (fun _ => []) X) d.
Proof.
  intros Row L ms X d H. destruct (mt_column ms X d H) as [a [Ha [Hr [Hc Hg]]]].
  exists a. repeat split; auto. rewrite to_rows_nth by (rewrite ?Hr, ?Hc; auto). auto.
Qed.

(** ... hence a multi-target wrapper of row functions is again a row function. *)
Theorem multi_target_rowwise : forall (Row L : Type) (fs : list (Row -> L)) (X : list Row) (d : L) (dr : Row),
  exists a, mt_predict (map (fun f => rowwise f) fs) X = Some a /\
            to_rows d a = rowwise (fun x => map (fun f => f x) fs) X.
Proof. intros; apply mt_rowwise; assumption. Qed.

(** MultiClassModel: with at least one member (members return one probability per row) the label
    returned for row i is the label of member k, where k has a maximal probability for that row
    and is the first such member. *)
Theorem multi_class_argmax : forall (Row L : Type) (lm0 : L * (list Row -> list R))
    (ms : list (L * (list Row -> list R))) (X : list Row) (dflt : L) (i : nat),
  (forall lm, In lm (lm0 :: ms) -> length (snd lm X) = length X) -> i < length X ->
  exists out k,
    mc_predict Rgtb dflt (lm0 :: ms) X = Some out /\ length out = length X
    /\ k < length (lm0 :: ms)
    /\ nth i out dflt = fst (nth k (lm0 :: ms) lm0)
    /\ (forall k', k' < length (lm0 :: ms) ->
          (nth i (snd (nth k' (lm0 :: ms) lm0) X) 0 <= nth i (snd (nth k (lm0 :: ms) lm0) X) 0)%R)
    /\ (forall k', k' < k ->
          (nth i (snd (nth k' (lm0 :: ms) lm0) X) 0 < nth i (snd (nth k (lm0 :: ms) lm0) X) 0)%R).
Proof. intros; apply mc_argmax; assumption. Qed.

(** ... and for every comparison on probabilities a multi-class wrapper of row functions is again a
    row function: row x gets [mc_row], the label of the running arg-max over (label, f x) pairs. *)
Theorem multi_class_rowwise : forall (Row L P : Type) (gtb : P -> P -> bool)
    (fs : list (L * (Row -> P))) (X : list Row) (dflt : L),
  mc_predict gtb dflt (mc_lift fs) X = Some (rowwise (mc_row gtb fs dflt) X).
Proof. intros; apply mc_rowwise. Qed.

(** Platt calibration over the reals: [platt_predict] never panics, returns 1/(1+exp(a x + b)),
    which lies strictly between 0 and 1 and is non-increasing (strictly decreasing) in the
    decision value a x + b - the sign convention of the code. *)
Theorem platt_is_sigmoid : forall x a b : R,
  platt_predict R_ops R_ops (fun v => v) exp x a b = Some (1 / (1 + exp (a * x + b)))%R.
Proof. exact platt_predict_R. Qed.

Theorem platt_range : forall f : R, (0 < platt_sig R_ops exp f < 1)%R.
Proof. exact platt_sig_range. Qed.

Theorem platt_monotone : forall f1 f2 : R,
  ((f1 <= f2)%R -> (platt_sig R_ops exp f2 <= platt_sig R_ops exp f1)%R)
  /\ ((f1 < f2)%R -> (platt_sig R_ops exp f2 < platt_sig R_ops exp f1)%R).
Proof. intros; split; [apply platt_sig_antitone | apply platt_sig_strict]. Qed.

(** In terms of the inner model's decision value x: non-increasing for a >= 0, non-decreasing for
    a <= 0 (Platt fits a < 0 for a classifier whose positive class has positive decision values). *)
Theorem platt_monotone_in_decision_value : forall a b x1 x2 : R, (x1 <= x2)%R ->
  ((0 <= a)%R -> (platt_R x2 a b <= platt_R x1 a b)%R) /\ ((a <= 0)%R -> (platt_R x1 a b <= platt_R x2 a b)%R).
Proof. intros; apply platt_R_monotone_in_x; assumption. Qed.

(** The Platt wrapper of a row-wise inner model is row-wise, in every arithmetic. *)
Theorem platt_rowwise : forall (F G Row : Type) (oF : NumOps F) (oG : NumOps G) (cast : F -> G) (expf : G -> G)
    (g : Row -> F) (a b : F) (X : list Row),
  platt_model oF oG cast expf (rowwise g) a b X
  = rowwise (fun x => platt_predict oF oG cast expf (g x) a b) X.
Proof. intros; apply platt_model_rowwise. Qed.

(** In every arithmetic (binary32 and binary64 included) a probability that comes out of
    [platt_predict] passed [Pr::new]: it lies in [0,1] in that arithmetic's order. *)
Theorem platt_probability_any_arithmetic : forall (F G : Type) (oF : NumOps F) (oG : NumOps G)
    (cast : F -> G) (expf : G -> G) (x a b : F) (p : G),
  platt_predict oF oG cast expf x a b = Some p ->
  leb oG (zero oG) p = true /\ leb oG p (one oG) = true.
Proof.
  intros F G oF oG cast expf x a b p H. unfold platt_predict in H.
  destruct (pr_new_range oG _ _ H) as [_ H']. exact H'.
Qed.
