(** C03 - correspondence for the array-level models of C03/MatModel.v (the objects of the T2
    theorems of C03/PropertiesT2.v): every [predict_inplace] transliteration is evaluated at the
    binary64 instance on a pre-filled target and compared bit for bit with what the Rust
    implementation left in that target - or with its panic.

    What cannot be recomputed inside Coq enters as a table that is checked independently:
    * one entry of a matrixmultiply product ([mdot]): the table is the product the harness obtained
      from the same ndarray call on the same operands; every entry must lie within the rounding
      bound (p+1) 2^-53 sum|a_i b_i| of the exact rational dot product of the operands that the
      Gallina model computed (valid for any summation order, with or without fused multiply-add);
    * libm's [exp] / [ln]: the table holds (argument, value) pairs; every pair is checked against a
      verified interval enclosure (C03/Elem.v), and a missing argument reads as NaN.
    The one-dimensional [row.dot(w)] is ndarray's [unrolled_dot] / sequential loop of C03/Model.v,
    reproduced bit for bit. *)
From Coq Require Import List NArith ZArith Bool Floats SpecFloat QArith.
From LinfaVerif Require Import Common.Num Common.NdSum Common.Run Common.B32 Common.QF
  C03.Model C03.MatModel C03.Elem.
Import ListNotations.

Definition m64 := B64_ops.
Definition m32 := B32_ops.
Definition fvec := list float.
Definition fmat := list (list float).

Definition vec_eqb : fvec -> fvec -> bool := list_eqb f64_biteq.
Definition mat_eqb : fmat -> fmat -> bool := list_eqb vec_eqb.
Definition opt_eqb {A} (eq : A -> A -> bool) (a b : option A) : bool :=
  match a, b with Some x, Some y => eq x y | None, None => true | _, _ => false end.

(** * tables *)
Definition tbl_fn (t : list (float * float)) (x : float) : float :=
  match find (fun kv => f64_biteq (fst kv) x) t with Some kv => snd kv | None => nan end.
Fixpoint find_idx {A} (eq : A -> A -> bool) (x : A) (l : list A) (i : nat) : option nat :=
  match l with [] => None | a :: l' => if eq a x then Some i else find_idx eq x l' (S i) end.
(* entry of the product table for (left row r, right column c), looked up by content *)
Definition tbl_mdot (A Bc P : fmat) (r c : fvec) : float :=
  match find_idx vec_eqb r A 0, find_idx vec_eqb c Bc 0 with
  | Some i, Some j => nth j (nth i P []) nan
  | _, _ => nan
  end.

(* rounding bound of a length-p dot product in any order: gamma_p <= (p+1) u, u = 2^-53;
   2^-1000 absorbs underflow *)
Definition gam (p : nat) : Q := inject_Z (Z.of_nat p + 1) * (1 # 9007199254740992).
Definition tiny : Q := Qpow2 (-1000).
Definition qabs (a : Q) : Q := Qabs' a.
Definition entry_ok (p : nat) (a c : list Q) (v : float) : bool :=
  f64_finite v
  && Qle_bool (qabs (f64_Q v - Qdot a c)) (gam p * Qdot (map qabs a) (map qabs c) + tiny).
Definition prod_ok (A Bc P : fmat) : bool :=
  let Aq := map (map f64_Q) A in
  let Bq := map (map f64_Q) Bc in
  forallb (forallb f64_finite) (A ++ Bc)
  && Nat.eqb (length P) (length A)
  && forallb (fun ap => let '(a, prow) := ap in
       Nat.eqb (length prow) (length Bq)
       && forallb (fun cv => let '(c, v) := cv in entry_ok (length a) a c v) (combine Bq prow))
     (combine Aq P).

Definition dot1 (contig : bool) : fvec -> fvec -> float := if contig then udot m64 else sdot m64.
Definition dot32 (contig : bool) : list spec_float -> list spec_float -> spec_float := if contig then udot m32 else sdot m32.
Definition bits32 : list Z -> list spec_float := map b32_of_bits.
Definition exps_ok (t : list (float * float)) : bool := forallb (fun kv => exp_ok (fst kv) (snd kv)) t.
Definition lns_ok (t : list (float * float)) : bool := forallb (fun kv => ln_ok (fst kv) (snd kv)) t.

(* f64 -> f32 ([F::to_f32] = [as f32]); the sign bit ([is_negative] = [is_sign_negative]) *)
Definition cast32 (x : float) : spec_float := b32_of_b64 (Prim2SF x).
Definition signneg64 (x : float) : bool :=
  match Prim2SF x with S754_zero s | S754_infinity s | S754_finite s _ _ => s | S754_nan => false end.

Definition twopi64 : float := 0x1.921fb54442d18p+2.

(** * cases: the fitted parameters, the batch, the target before the call, the target after the
    call (None: the call panicked) *)
Inductive mcase :=
(* link 0: OLS / elastic net ([lin_inplace]); 1, 2, 3: Tweedie GLM with identity, log, logit link *)
| MLin (link : N) (contig : bool) (p : N) (w : fvec) (b : float) (exps : list (float * float))
       (X : fmat) (y0 : fvec) (out : option fvec)
(* binary32 instances of OLS / elastic net: all values as bit patterns *)
| MLin32 (contig : bool) (p : N) (w : list Z) (b : Z) (X : list (list Z)) (y0 : list Z) (out : option (list Z))
| MLogit (contig : bool) (p : N) (w : fvec) (b thr : float) (exps : list (float * float)) (pos neg : N)
       (X : fmat) (y0 : list N) (out : option (list N))
| MMlogit (p k : N) (W : fmat) (b : fvec) (classes : list N) (P : fmat)
       (X : fmat) (y0 : list N) (out : option (list N))
| MMtl (p k : N) (W : fmat) (b : fvec) (P : fmat) (X : fmat) (ny : N) (out : option fmat)
| MPca (p : N) (mean : fvec) (E : fmat) (P : fmat) (X Y0 : fmat) (out : option fmat)
| MPls (p k : N) (xm xs : fvec) (Cf : fmat) (ym : fvec) (P : fmat) (X Y0 : fmat) (out : option fmat)
(* class = (label, (prior, (ln prior, feature_log_prob))) *)
| MMnb (contig : bool) (classes : list (N * (float * (float * fvec))))
       (X : fmat) (y0 : list N) (out : option (list N))
(* class = (label, (prior, (ln prior, (theta, sigma)))); [lns]: ln of 2 pi sigma_j *)
| MGnb (lanes : bool) (p : N) (classes : list (N * (float * (float * (fvec * fvec))))) (lns : list (float * float))
       (X : fmat) (y0 : list N) (out : option (list N))
(* probabilities as binary32 bit patterns *)
| MFtrl (contig : bool) (p : N) (w : fvec) (exps : list (float * float))
       (X : fmat) (y0 : list Z) (out : option (list Z))
(* linear-kernel SVM: kind 0 regression value, kind 1 label *)
| MSvm (kind : N) (w : fvec) (rho : float) (X : fmat) (y0 : fvec) (out : option fvec)
       (l0 : list bool) (labs : option (list bool))
| MKm (cs : fmat) (X : fmat) (y0 : list N) (out : option (list N))
| MTree (t : tree (F := float) N) (X : fmat) (y0 : list N) (out : option (list N))
| MIso (reg resp : fvec) (X : fmat) (y0 : fvec) (out : option fvec).

(* corr bits *)
Definition c_model : N := 1024.
Definition c_prod : N := 2048.
Definition c_libm : N := 4096.

Definition is_some {A} (a : option A) : bool := match a with Some _ => true | None => false end.
Definition glm_inv (link : N) (expf : float -> float) : float -> float :=
  match link with
  | 2%N => expf
  | 3%N => fun x => PrimFloat.div 1 (PrimFloat.add 1 (expf (PrimFloat.opp x)))
  | _ => fun x => x
  end.

Definition run_mcase (c : mcase) : N :=
  match c with
  | MLin link contig p w b exps X y0 out =>
      let dot := dot1 contig in
      let m := match link with
               | 0%N => lin_inplace m64 dot (N.to_nat p) w b X y0
               | _ => glm_inplace m64 dot (glm_inv link (tbl_fn exps)) (N.to_nat p) w b X y0
               end in
      N.lor (flag (opt_eqb vec_eqb m out) c_model) (flag (exps_ok exps) c_libm)
  | MLin32 contig p w b X y0 out =>
      flag (opt_eqb (list_eqb sf_eqb)
              (lin_inplace m32 (dot32 contig) (N.to_nat p) (bits32 w) (b32_of_bits b) (map bits32 X) (bits32 y0))
              (option_map bits32 out)) c_model
  | MLogit contig p w b thr exps pos neg X y0 out =>
      let m := logit_inplace m64 (dot1 contig) (tbl_fn exps) (N.to_nat p) w b thr pos neg X y0 in
      N.lor (flag (opt_eqb (list_eqb N.eqb) m out) c_model) (flag (exps_ok exps) c_libm)
  | MMlogit p k W b classes P X y0 out =>
      let Bc := columns m64 (N.to_nat k) W in
      let m := mlogit_inplace m64 (tbl_mdot X Bc P) (N.to_nat p) (N.to_nat k) W b classes 0%N X y0 in
      N.lor (flag (opt_eqb (list_eqb N.eqb) m out) c_model)
            (flag (negb (is_some out) || prod_ok X Bc P) c_prod)
  | MMtl p k W b P X ny out =>
      let Bc := columns m64 (N.to_nat k) W in
      let m := mtl_inplace m64 (tbl_mdot X Bc P) (N.to_nat p) (N.to_nat k) W b X (repeat tt (N.to_nat ny)) in
      N.lor (flag (opt_eqb mat_eqb m out) c_model)
            (flag (negb (is_some out) || prod_ok X Bc P) c_prod)
  | MPca p mean E P X Y0 out =>
      let A := mat_op_row PrimFloat.sub X mean in
      let m := pca_inplace m64 (tbl_mdot A E P) (N.to_nat p) mean E X Y0 in
      N.lor (flag (opt_eqb mat_eqb m out) c_model)
            (flag (negb (is_some out) || prod_ok A E P) c_prod)
  | MPls p k xm xs Cf ym P X Y0 out =>
      let A := mat_op_row PrimFloat.div (mat_op_row PrimFloat.sub X xm) xs in
      let Bc := columns m64 (N.to_nat k) Cf in
      let m := pls_inplace m64 (tbl_mdot A Bc P) (N.to_nat p) (N.to_nat k) xm xs Cf ym X Y0 in
      N.lor (flag (opt_eqb mat_eqb m out) c_model)
            (flag (negb (is_some out) || prod_ok A Bc P) c_prod)
  | MMnb contig classes X y0 out =>
      let cls := map (fun c => (fst c, (fst (snd (snd c)), snd (snd (snd c))))) classes in
      let m := nb_inplace m64 (mnb_jll m64 (dot1 contig)) 0%N cls X y0 in
      N.lor (flag (opt_eqb (list_eqb N.eqb) m out) c_model)
            (flag (lns_ok (map (fun c => (fst (snd c), fst (snd (snd c)))) classes)) c_libm)
  | MGnb lanes p classes lns X y0 out =>
      let cls := map (fun c => (fst c, (fst (snd (snd c)), snd (snd (snd c))))) classes in
      let m := nb_inplace m64 (gnb_jll m64 (tbl_fn lns) twopi64 (-0.5)%float 0.5%float lanes (N.to_nat p)) 0%N cls X y0 in
      N.lor (flag (opt_eqb (list_eqb N.eqb) m out) c_model)
            (flag (lns_ok lns && lns_ok (map (fun c => (fst (snd c), fst (snd (snd c)))) classes)) c_libm)
  | MFtrl contig p w exps X y0 out =>
      let m := ftrl_inplace m64 m32 (dot1 contig) (tbl_fn exps) signneg64 35%float cast32 (N.to_nat p) w X
                            (map b32_of_bits y0) in
      N.lor (flag (opt_eqb (list_eqb sf_eqb) m (option_map (map b32_of_bits) out)) c_model)
            (flag (exps_ok exps) c_libm)
  | MSvm kind w rho X y0 out l0 labs =>
      match kind with
      | 0%N => flag (opt_eqb vec_eqb (zip_inplace (svm_value m64 (svm_linear_wsum m64 w) rho) X y0) out) c_model
      | _ => flag (opt_eqb (list_eqb Bool.eqb) (zip_inplace (svm_label m64 (svm_linear_wsum m64 w) rho) X l0) labs) c_model
      end
  | MKm cs X y0 out =>
      flag (opt_eqb (list_eqb N.eqb) (zip_inplace (fun x => N.of_nat (km_predict m64 cs x)) X y0) out) c_model
  | MTree t X y0 out =>
      flag (opt_eqb (list_eqb N.eqb) (zip_inplace (tree_predict m64 t) X y0) out) c_model
  | MIso reg resp X y0 out =>
      flag (opt_eqb vec_eqb (iso_inplace m64 reg resp X y0) out) c_model
  end.
