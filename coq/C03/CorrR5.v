(** C03, round 5 - correspondence for the non-linear-kernel SVM model of C03/ModelR5.v: the
    transliteration of [predict_inplace] (regression value / label) is evaluated at the binary64
    instance on a pre-filled target and compared bit for bit with the target the Rust
    implementation left behind, or with its panic.  The case carries the TRAINING rows and the
    public [alpha] vector; the stored support vectors (a private field) are recomputed by the
    model of the fit's [select] ([support_vectors]), so a mis-aligned zip would show.
    libm's [exp] (Gaussian kernel) / [powf] (polynomial kernel) enter as (argument, value) tables;
    the model looks its own bit-exact argument up (a missing argument reads as NaN) and every pair
    is judged independently against a verified interval enclosure.
    No theorem depends on the interval computations. *)
From Coq Require Import List NArith ZArith Bool Floats SpecFloat.
From LinfaVerif Require Import Common.Num Common.NdSum Common.Run C03.Model C03.MatModel
  C03.Sigmoid C03.Elem C03.CorrMat C03.ModelR5.
Import ListNotations.

Inductive r5case :=
(* kmethod 0: Gaussian(prm1 = eps); otherwise Polynomial(prm1 = c, prm2 = d), [dn] = Some n when d is the integer n.
   kind 0: regression (y0 / out); otherwise labels (l0 / labs).  [tbl]: exp resp. powf(., d) table *)
| RSvmK (kmethod kind : N) (prm1 prm2 : float) (dn : option Z) (tbl : list (float * float))
        (D : fmat) (alpha : fvec) (rho : float) (X : fmat)
        (y0 : fvec) (out : option fvec) (l0 : list bool) (labs : option (list bool)).

Definition c_r5model : N := 8192.
Definition c_r5libm : N := 16384.

(* F::cast(100.) * F::epsilon() *)
Definition thr64 : float := PrimFloat.mul 100 0x1p-52.

(* v = powf(b, d) up to a relative 2^-50: integer exponents through the verified integer power,
   other exponents (positive base only) through exp(d ln b) *)
Definition pow_ok (d : float) (dn : option Z) (b v : float) : bool :=
  if f64_is_nan b then f64_is_nan v
  else
    let enc := match dn with
               | Some n => IV.power_int iv_prec (iv_of_f64 b) n
               | None => IV.exp iv_prec (IV.mul iv_prec (iv_of_f64 d) (IV.ln iv_prec (iv_of_f64 b)))
               end in
    IV.subset (iv_of_f64 v) (IV.mul iv_prec enc iv_rel50).
Definition dn_ok (d : float) (dn : option Z) : bool :=
  match dn with
  | Some n => Z.leb 0 n && Z.leb n 64 && f64_biteq d (PrimFloat.of_uint63 (Uint63.of_Z n))
  | None => true
  end.
Definition pows_ok (d : float) (dn : option Z) (t : list (float * float)) : bool :=
  dn_ok d dn && forallb (fun kv => pow_ok d dn (fst kv) (snd kv)) t.

Definition r5_kern (km : N) (p1 p2 : float) (tbl : list (float * float)) : fvec -> fvec -> option float :=
  match km with
  | 0%N => kern_gaussian m64 (tbl_fn tbl) p1
  | _ => kern_polynomial m64 (fun b _ => tbl_fn tbl b) p1 p2
  end.

Definition run_r5case (c : r5case) : N :=
  match c with
  | RSvmK km kind p1 p2 dn tbl D alpha rho X y0 out l0 labs =>
      let kern := r5_kern km p1 p2 tbl in
      let svs := support_vectors m64 thr64 D alpha in
      let md := match kind with
                | 0%N => opt_eqb vec_eqb (svm_kernel_inplace m64 kern thr64 svs alpha rho (fun v => v) X y0) out
                | _ => opt_eqb (list_eqb Bool.eqb) (svm_kernel_inplace m64 kern thr64 svs alpha rho (post_label m64) X l0) labs
                end in
      N.lor (flag md c_r5model)
            (flag (match km with 0%N => exps_ok tbl | _ => pows_ok p2 dn tbl end) c_r5libm)
  end.
