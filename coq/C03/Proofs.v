(** C03 - lemmas about the prediction glue models of C03/Model.v *)
From Coq Require Import List NArith ZArith Bool Arith Lia Reals Lra Permutation.
From LinfaVerif Require Import Common.Num Common.NdSum C03.Model.
Import ListNotations.

Lemma map_nth_lt {A B} (f : A -> B) (l : list A) (da : A) (db : B) i :
  i < length l -> nth i (map f l) db = f (nth i l da).
Proof.
  intros H. rewrite (nth_indep (map f l) db (f da)) by (rewrite map_length; exact H). apply map_nth.
Qed.

(** * 1. Calling forms *)
Section FormsP.
Context {Rec Tgt Tgt0 : Type} (dt : Rec -> Tgt) (pi : Rec -> Tgt -> option Tgt).

Lemma forms_same_targets (x : Rec) (t0 : Tgt0) :
  predict_owned dt pi x = option_map (fun t => (x, t)) (predict_ref dt pi x)
  /\ predict_ds_ref dt pi (x, t0) = predict_ref dt pi x
  /\ predict_ds dt pi (x, t0) = option_map (fun t => (x, t)) (predict_ref dt pi x).
Proof. repeat split; reflexivity. Qed.

Lemma forms_records_unchanged (x : Rec) (t0 : Tgt0) r t :
  (predict_owned dt pi x = Some (r, t) -> r = x /\ predict_ref dt pi x = Some t)
  /\ (predict_ds dt pi (x, t0) = Some (r, t) -> r = x /\ predict_ref dt pi x = Some t).
Proof.
  unfold predict_owned, predict_ds, predict_ref; simpl.
  split; destruct (pi x (dt x)); simpl; intros H; inversion H; subst; auto.
Qed.
End FormsP.

(** * 2. Row-wise predictors *)
Section RowwiseP.
Context {Row L : Type}.

Lemma rowwise_length (f : Row -> L) X : length (rowwise f X) = length X.
Proof. apply map_length. Qed.

Lemma rowwise_select (f : Row -> L) (d : Row) idx X :
  rowwise f (select d idx X) = select (f d) idx (rowwise f X).
Proof.
  unfold rowwise, select. rewrite map_map. apply map_ext. intros i. symmetry. apply map_nth.
Qed.

Lemma rowwise_nth (f : Row -> L) (d : Row) X i :
  nth i (rowwise f X) (f d) = f (nth i X d).
Proof. apply map_nth. Qed.

Lemma rowwise_single (f : Row -> L) (d : Row) X i :
  rowwise f [nth i X d] = [nth i (rowwise f X) (f d)].
Proof. simpl. rewrite rowwise_nth. reflexivity. Qed.

Lemma rowwise_app (f : Row -> L) X Y : rowwise f (X ++ Y) = rowwise f X ++ rowwise f Y.
Proof. apply map_app. Qed.

Lemma rowwise_perm (f : Row -> L) X X' : Permutation X X' -> Permutation (rowwise f X) (rowwise f X').
Proof. apply Permutation_map. Qed.

Lemma rw_forms (f : Row -> L) (d : L) (X : list Row) (T0 : Type) (t0 : T0) :
  predict_ref (rw_default d) (rw_inplace f) X = Some (rowwise f X)
  /\ predict_owned (rw_default d) (rw_inplace f) X = Some (X, rowwise f X)
  /\ predict_ds_ref (rw_default d) (rw_inplace f) (X, t0) = Some (rowwise f X)
  /\ predict_ds (rw_default d) (rw_inplace f) (X, t0) = Some (X, rowwise f X).
Proof.
  unfold predict_ref, predict_owned, predict_ds_ref, predict_ds, rw_inplace, rw_default; simpl.
  rewrite repeat_length, Nat.eqb_refl. simpl. auto.
Qed.

Lemma rw_inplace_any_target (f : Row -> L) X (y : list L) :
  length y = length X -> rw_inplace f X y = Some (rowwise f X).
Proof. intros H. unfold rw_inplace. rewrite H, Nat.eqb_refl. reflexivity. Qed.

Lemma rw_inplace_wrong_length (f : Row -> L) X (y : list L) :
  length y <> length X -> rw_inplace f X y = None.
Proof.
  intros H. unfold rw_inplace. destruct (Nat.eqb (length X) (length y)) eqn:E; auto.
  apply Nat.eqb_eq in E. congruence.
Qed.
End RowwiseP.

(** * 3. MultiTargetModel *)
Section MultiTargetP.
Context {Row L : Type}.

Lemma flat_map_length_const {A} (g : A -> list L) (l : list A) n :
  (forall a, In a l -> length (g a) = n) -> length (flat_map g l) = length l * n.
Proof.
  induction l as [|a l IH]; intros H; simpl; auto.
  rewrite app_length, H by (left; auto). rewrite IH; auto. intros b Hb; apply H; right; auto.
Qed.

Lemma flat_map_nth_const {A} (g : A -> list L) (l : list A) n (da : A) (d : L) :
  (forall a, In a l -> length (g a) = n) ->
  forall j i, j < length l -> i < n -> nth (j * n + i) (flat_map g l) d = nth i (g (nth j l da)) d.
Proof.
  induction l as [|a l IH]; intros H j i Hj Hi; simpl in *; [lia|].
  assert (Ha : length (g a) = n) by (apply H; auto).
  destruct j as [|j].
  - simpl. rewrite app_nth1 by lia. reflexivity.
  - rewrite app_nth2 by (rewrite Ha; simpl; lia).
    rewrite Ha. replace (S j * n + i - n) with (j * n + i) by (simpl; lia).
    apply IH; auto; lia.
Qed.

Lemma mt_predict_some (ms : list (list Row -> list L)) X :
  (forall m, In m ms -> length (m X) = length X) ->
  mt_predict ms X =
    Some {| a_rows := length X; a_cols := length ms; a_srow := 1; a_scol := length X; a_data := mt_flat ms X |}.
Proof.
  intros H. unfold mt_predict, mt_predict_inplace, mt_default_shape, into_shape; simpl.
  rewrite !Nat.eqb_refl. simpl.
  unfold mt_flat. rewrite (flat_map_length_const (fun m => m X) ms (length X)) by exact H.
  rewrite Nat.eqb_refl. reflexivity.
Qed.

Lemma mt_column (ms : list (list Row -> list L)) X (d : L) :
  (forall m, In m ms -> length (m X) = length X) ->
  exists a, mt_predict ms X = Some a /\ a_rows a = length X /\ a_cols a = length ms /\
    forall i j, i < length X -> j < length ms ->
      get d a i j = nth i (nth j ms (fun _ => []) X) d.
Proof.
  intros H. eexists. split; [apply mt_predict_some; exact H|]. simpl. repeat split.
  intros i j Hi Hj. unfold get; simpl. unfold mt_flat.
  replace (i * 1 + j * length X) with (j * length X + i) by lia.
  apply (flat_map_nth_const (fun m => m X) ms (length X) (fun _ => []) d H j i Hj Hi).
Qed.

Lemma to_rows_nth (d : L) (a : arr2 L) i j :
  i < a_rows a -> j < a_cols a -> nth j (nth i (to_rows d a) []) d = get d a i j.
Proof.
  intros Hi Hj. unfold to_rows.
  rewrite (nth_indep _ [] (map (fun j0 => get d a 0 j0) (seq 0 (a_cols a)))) by (rewrite map_length, seq_length; lia).
  rewrite (map_nth (fun i0 => map (fun j0 => get d a i0 j0) (seq 0 (a_cols a))) (seq 0 (a_rows a)) 0 i).
  rewrite seq_nth by lia. simpl.
  rewrite (nth_indep _ d (get d a i 0)) by (rewrite map_length, seq_length; lia).
  rewrite (map_nth (fun j0 => get d a i j0) (seq 0 (a_cols a)) 0 j).
  rewrite seq_nth by lia. reflexivity.
Qed.

Lemma to_rows_shape (d : L) (a : arr2 L) :
  length (to_rows d a) = a_rows a /\ forall r, In r (to_rows d a) -> length r = a_cols a.
Proof.
  unfold to_rows. split; [rewrite map_length, seq_length; auto|].
  intros r Hr. apply in_map_iff in Hr as [i [<- _]]. rewrite map_length, seq_length. auto.
Qed.

(* members that are row functions make the wrapper a row function *)
Lemma mt_rowwise (fs : list (Row -> L)) X (d : L) (dr : Row) :
  exists a, mt_predict (map (fun f => rowwise f) fs) X = Some a /\
            to_rows d a = rowwise (fun x => map (fun f => f x) fs) X.
Proof.
  set (ms := map (fun f : Row -> L => rowwise f) fs).
  assert (H : forall m, In m ms -> length (m X) = length X).
  { intros m Hm. apply in_map_iff in Hm as [f [<- _]]. apply map_length. }
  destruct (mt_column ms X d H) as [a [Ha [Hr [Hc Hg]]]].
  exists a. split; auto.
  assert (Hlen : length ms = length fs) by (unfold ms; apply map_length).
  destruct (to_rows_shape d a) as [E Hall].
  apply nth_ext with (d := []) (d' := (fun x => map (fun f => f x) fs) dr).
  - rewrite E, Hr. unfold rowwise. rewrite map_length. auto.
  - intros i Hi. rewrite E, Hr in Hi. unfold rowwise. rewrite (map_nth_lt _ X dr) by exact Hi.
    assert (Hin : In (nth i (to_rows d a) []) (to_rows d a)) by (apply nth_In; rewrite E, Hr; auto).
    apply nth_ext with (d := d) (d' := d).
    + rewrite map_length. rewrite (Hall _ Hin). lia.
    + intros j Hj. rewrite (Hall _ Hin) in Hj.
      rewrite to_rows_nth by lia. rewrite Hg by lia.
      rewrite (map_nth_lt _ fs (fun _ => d)) by lia.
      unfold ms. rewrite (map_nth_lt _ fs (fun _ => d)) by lia.
      unfold rowwise. rewrite (map_nth_lt _ X dr) by exact Hi. reflexivity.
Qed.
End MultiTargetP.

(** * 4. MultiClassModel *)
Section MultiClassP.
Context {Row L P : Type} (gtb : P -> P -> bool).

Definition pick (c d : L * P) : L * P := if gtb (snd d) (snd c) then d else c.
Definition best1 (cur : L * P) (cands : list (L * P)) : L * P := fold_left pick cands cur.

Lemma mc_step_nonempty (res pairs : list (L * P)) :
  res <> [] -> mc_step gtb res pairs = map (fun cd => pick (fst cd) (snd cd)) (combine res pairs).
Proof. destruct res; [congruence|]. intros _. reflexivity. Qed.

Lemma mc_fold_nth (dp : L * P) n i : i < n ->
  forall (ps : list (list (L * P))) (res : list (L * P)),
  length res = n -> (forall p, In p ps -> length p = n) ->
  length (fold_left (mc_step gtb) ps res) = n
  /\ nth i (fold_left (mc_step gtb) ps res) dp = best1 (nth i res dp) (map (fun p => nth i p dp) ps).
Proof.
  intros Hi. induction ps as [|p ps IH]; intros res Hres Hps; simpl; [auto|].
  assert (Hp : length p = n) by (apply Hps; left; auto).
  assert (Hne : res <> []) by (intro E; subst res; simpl in Hres; lia).
  rewrite (mc_step_nonempty res p Hne).
  set (res' := map (fun cd => pick (fst cd) (snd cd)) (combine res p)).
  assert (Hres' : length res' = n).
  { unfold res'. rewrite map_length, combine_length. lia. }
  destruct (IH res' Hres' (fun q Hq => Hps q (or_intror Hq))) as [H1 H2].
  split; auto. rewrite H2. unfold best1. simpl. f_equal.
  unfold res'. rewrite (map_nth_lt _ _ (dp, dp)) by (rewrite combine_length; lia).
  rewrite combine_nth by lia. reflexivity.
Qed.

Lemma overwrite_full (res : list (L * P)) : forall (y : list L),
  length res = length y -> overwrite res y = map fst res.
Proof.
  induction res as [|r res IH]; intros [|a y] H; simpl in *; try discriminate; auto.
  f_equal. apply IH. lia.
Qed.

Lemma overwrite_nil (y : list L) : overwrite (@nil (L * P)) y = y.
Proof. destruct y; reflexivity. Qed.

(* the loop of predict_inplace, row by row *)
Lemma mc_res_nth (ms : list (L * (list Row -> list P))) X (lm0 : L * (list Row -> list P)) (dp : L * P) i :
  (forall lm, In lm (lm0 :: ms) -> length (snd lm X) = length X) -> i < length X ->
  length (mc_res gtb (lm0 :: ms) X) = length X
  /\ nth i (mc_res gtb (lm0 :: ms) X) dp =
     best1 (fst lm0, nth i (snd lm0 X) (snd dp)) (map (fun lm => (fst lm, nth i (snd lm X) (snd dp))) ms).
Proof.
  intros Hlen Hi. unfold mc_res, mc_pairs. simpl.
  assert (H0 : length (snd lm0 X) = length X) by (apply Hlen; left; auto).
  set (p0 := map (fun p => (fst lm0, p)) (snd lm0 X)).
  assert (Hp0 : length p0 = length X) by (unfold p0; rewrite map_length; auto).
  replace (mc_step gtb [] p0) with p0 by reflexivity.
  destruct (mc_fold_nth dp (length X) i Hi
              (map (fun lm => map (fun p => (fst lm, p)) (snd lm X)) ms) p0 Hp0) as [H1 H2].
  { intros p Hp. apply in_map_iff in Hp as [lm [<- Hin]]. rewrite map_length. apply Hlen. right; auto. }
  split; auto. rewrite H2. f_equal.
  - unfold p0. rewrite (map_nth_lt _ _ (snd dp)) by lia. reflexivity.
  - rewrite map_map. apply map_ext_in. intros lm Hin.
    rewrite (map_nth_lt _ _ (snd dp)); auto. rewrite (Hlen lm); auto. right; auto.
Qed.
End MultiClassP.

(** arg-max with "first maximum wins" over the reals *)
Section ArgmaxR.
Context {L : Type}.
Local Open Scope R_scope.
Definition Rgtb (d c : R) : bool := Rltb c d.

Lemma best1_argmax (dp : L * R) (cands : list (L * R)) : forall (cur : L * R),
  exists k, (k < length (cur :: cands))%nat
    /\ best1 Rgtb cur cands = nth k (cur :: cands) dp
    /\ (forall k', (k' < length (cur :: cands))%nat -> snd (nth k' (cur :: cands) dp) <= snd (nth k (cur :: cands) dp))
    /\ (forall k', (k' < k)%nat -> snd (nth k' (cur :: cands) dp) < snd (nth k (cur :: cands) dp)).
Proof.
  induction cands as [|d cands IH] using rev_ind; intros cur.
  - exists 0%nat. simpl. repeat split; auto; intros k' Hk'; [|lia].
    destruct k'; [lra|lia].
  - destruct (IH cur) as [k [Hk [Hb [Hall Hfirst]]]].
    set (all := cur :: cands) in *.
    set (full := cur :: cands ++ [d]).
    assert (Hlen : length full = S (length all)).
    { unfold full, all. simpl. rewrite app_length. simpl. lia. }
    assert (Hold : forall j, (j < length all)%nat -> nth j full dp = nth j all dp).
    { intros j Hj. unfold full. change (cur :: cands ++ [d]) with ((cur :: cands) ++ [d]). apply app_nth1. exact Hj. }
    assert (Hnew : nth (length all) full dp = d).
    { unfold full. change (cur :: cands ++ [d]) with ((cur :: cands) ++ [d]). rewrite app_nth2 by (unfold all; lia).
      unfold all. rewrite Nat.sub_diag. reflexivity. }
    assert (Hstep : best1 Rgtb cur (cands ++ [d]) = pick Rgtb (nth k all dp) d).
    { unfold best1 in *. rewrite fold_left_app. simpl. rewrite Hb. reflexivity. }
    rewrite Hstep. clearbody full all. clear Hstep Hb IH.
    unfold pick, Rgtb. destruct (Rltb (snd (nth k all dp)) (snd d)) eqn:E.
    + apply Rltb_true in E. exists (length all). rewrite Hlen. repeat split; [lia| rewrite Hnew; auto | |].
      * intros k' Hk'. rewrite Hnew. destruct (Nat.eq_dec k' (length all)) as [->|Hne].
        -- rewrite Hnew. lra.
        -- rewrite Hold by lia. specialize (Hall k' ltac:(lia)). lra.
      * intros k' Hk'. rewrite Hnew, Hold by lia. specialize (Hall k' ltac:(lia)). lra.
    + apply Rltb_false in E. exists k. rewrite Hlen. repeat split; [lia | rewrite Hold by lia; auto | |].
      * intros k' Hk'. rewrite (Hold k) by lia. destruct (Nat.eq_dec k' (length all)) as [->|Hne].
        -- rewrite Hnew. lra.
        -- rewrite Hold by lia. apply Hall. lia.
      * intros k' Hk'. rewrite (Hold k), (Hold k') by lia. apply Hfirst. exact Hk'.
Qed.
End ArgmaxR.

Section MultiClassR.
Context {Row L : Type}.
Local Open Scope R_scope.

Lemma mc_argmax (lm0 : L * (list Row -> list R)) (ms : list (L * (list Row -> list R))) X (dflt : L) i :
  (forall lm, In lm (lm0 :: ms) -> length (snd lm X) = length X) -> (i < length X)%nat ->
  exists out k,
    mc_predict Rgtb dflt (lm0 :: ms) X = Some out /\ length out = length X
    /\ (k < length (lm0 :: ms))%nat
    /\ nth i out dflt = fst (nth k (lm0 :: ms) lm0)
    /\ (forall k', (k' < length (lm0 :: ms))%nat ->
          nth i (snd (nth k' (lm0 :: ms) lm0) X) 0 <= nth i (snd (nth k (lm0 :: ms) lm0) X) 0)
    /\ (forall k', (k' < k)%nat ->
          nth i (snd (nth k' (lm0 :: ms) lm0) X) 0 < nth i (snd (nth k (lm0 :: ms) lm0) X) 0).
Proof.
  intros Hlen Hi.
  destruct (mc_res_nth Rgtb ms X lm0 (dflt, 0) i Hlen Hi) as [Hl Hn].
  set (g := fun lm : L * (list Row -> list R) => (fst lm, nth i (snd lm X) 0)).
  simpl snd in Hn.
  change (fst lm0, nth i (snd lm0 X) 0) with (g lm0) in Hn.
  change (map (fun lm : L * (list Row -> list R) => (fst lm, nth i (snd lm X) 0)) ms) with (map g ms) in Hn.
  destruct (best1_argmax (dflt, 0) (map g ms) (g lm0)) as [k [Hk [Hb [Hall Hfirst]]]].
  change (g lm0 :: map g ms) with (map g (lm0 :: ms)) in *.
  rewrite map_length in Hk, Hall.
  assert (Hg : forall j, (j < length (lm0 :: ms))%nat -> nth j (map g (lm0 :: ms)) (dflt, 0) = g (nth j (lm0 :: ms) lm0)).
  { intros j Hj. apply map_nth_lt. exact Hj. }
  exists (map fst (mc_res Rgtb (lm0 :: ms) X)), k.
  repeat split.
  - unfold mc_predict, mc_predict_inplace. rewrite repeat_length, Nat.eqb_refl.
    rewrite overwrite_full by (rewrite repeat_length; exact Hl). reflexivity.
  - rewrite map_length. exact Hl.
  - exact Hk.
  - rewrite (map_nth_lt _ _ (dflt, 0)) by (rewrite Hl; exact Hi).
    rewrite Hn, Hb, Hg by exact Hk. reflexivity.
  - intros k' Hk'. specialize (Hall k' Hk'). rewrite !Hg in Hall by assumption. exact Hall.
  - intros k' Hk'. specialize (Hfirst k' Hk'). rewrite !Hg in Hfirst by lia. exact Hfirst.
Qed.

(* no member model: the default targets are handed back; empty batch: empty output *)
Lemma mc_no_members (X : list Row) (dflt : L) :
  mc_predict (Row := Row) (P := R) Rgtb dflt [] X = Some (repeat dflt (length X)).
Proof.
  unfold mc_predict, mc_predict_inplace. rewrite repeat_length, Nat.eqb_refl.
  unfold mc_res, mc_pairs. simpl. destruct (repeat dflt (length X)); reflexivity.
Qed.
End MultiClassR.

(** * 5. Platt scaling over the reals *)
Section PlattR.
Local Open Scope R_scope.

Definition platt_R (x a b : R) : R := platt_sig R_ops exp (platt_lin R_ops x a b).

Lemma platt_sig_sigmoid f : platt_sig R_ops exp f = 1 / (1 + exp f).
Proof.
  unfold platt_sig; simpl. unfold Rleb. destruct (Rle_dec 0 f) as [H|H]; [|reflexivity].
  rewrite exp_Ropp. pose proof (exp_pos f). field. split; lra.
Qed.

Lemma platt_sig_range f : 0 < platt_sig R_ops exp f < 1.
Proof.
  rewrite platt_sig_sigmoid. pose proof (exp_pos f) as E.
  split.
  - apply Rdiv_lt_0_compat; lra.
  - apply (Rmult_lt_reg_r (1 + exp f)); [lra|]. unfold Rdiv. rewrite Rmult_assoc, Rinv_l by lra. lra.
Qed.

Lemma platt_sig_antitone f1 f2 : f1 <= f2 -> platt_sig R_ops exp f2 <= platt_sig R_ops exp f1.
Proof.
  intros H. rewrite !platt_sig_sigmoid.
  pose proof (exp_pos f1) as E1. pose proof (exp_pos f2) as E2.
  assert (Hexp : exp f1 <= exp f2).
  { destruct H as [H|H]; [left; apply exp_increasing; exact H | subst; right; reflexivity]. }
  unfold Rdiv. rewrite !Rmult_1_l. apply Rinv_le_contravar; lra.
Qed.

Lemma platt_sig_strict f1 f2 : f1 < f2 -> platt_sig R_ops exp f2 < platt_sig R_ops exp f1.
Proof.
  intros H. rewrite !platt_sig_sigmoid.
  pose proof (exp_pos f1) as E1. pose proof (exp_increasing _ _ H) as E2.
  unfold Rdiv. rewrite !Rmult_1_l. apply Rinv_lt_contravar; [|lra].
  apply Rmult_lt_0_compat; lra.
Qed.

Lemma pr_new_R p : 0 <= p <= 1 -> pr_new R_ops p = Some p.
Proof.
  intros [H0 H1]. unfold pr_new; simpl. unfold Rleb.
  destruct (Rle_dec 0 p); [|lra]. destruct (Rle_dec p 1); [|lra]. reflexivity.
Qed.

Lemma platt_predict_R x a b :
  platt_predict R_ops R_ops (fun v => v) exp x a b = Some (1 / (1 + exp (a * x + b))).
Proof.
  unfold platt_predict. pose proof (platt_sig_range (platt_lin R_ops x a b)) as [H0 H1].
  rewrite pr_new_R by lra. rewrite platt_sig_sigmoid. reflexivity.
Qed.
End PlattR.

(** a multi-class wrapper of row functions is a row function, for every comparison [gtb] *)
Section MultiClassRowwise.
Context {Row L P : Type} (gtb : P -> P -> bool).

(* the label a multi-class wrapper of row functions gives to one row *)
Definition mc_row (fs : list (L * (Row -> P))) (dflt : L) (x : Row) : L :=
  match fs with
  | [] => dflt
  | lf0 :: fs' => fst (best1 gtb (fst lf0, snd lf0 x) (map (fun lf => (fst lf, snd lf x)) fs'))
  end.
Definition mc_lift (fs : list (L * (Row -> P))) : list (L * (list Row -> list P)) :=
  map (fun lf => (fst lf, rowwise (snd lf))) fs.

Lemma repeat_map_const {A B} (b : B) (l : list A) : repeat b (length l) = map (fun _ => b) l.
Proof. induction l; simpl; congruence. Qed.

Lemma mc_fold_empty (ps : list (list (L * P))) :
  (forall p, In p ps -> p = []) -> fold_left (mc_step gtb) ps [] = [].
Proof.
  induction ps as [|p ps IH]; intros H; simpl; auto.
  rewrite (H p) by (left; auto). simpl. apply IH. intros q Hq. apply H. right; auto.
Qed.

Lemma mc_rowwise (fs : list (L * (Row -> P))) (X : list Row) (dflt : L) :
  mc_predict gtb dflt (mc_lift fs) X = Some (rowwise (mc_row fs dflt) X).
Proof.
  unfold mc_predict, mc_predict_inplace. rewrite repeat_length, Nat.eqb_refl. f_equal.
  destruct fs as [|lf0 fs].
  - unfold mc_res, mc_lift, mc_pairs. simpl. rewrite repeat_map_const.
    unfold rowwise, mc_row. destruct (map (fun _ : Row => dflt) X); reflexivity.
  - destruct X as [|x0 X'].
    + unfold mc_res. rewrite mc_fold_empty; [reflexivity|].
      intros p Hp. unfold mc_pairs, mc_lift in Hp. rewrite map_map in Hp.
      apply in_map_iff in Hp as [lf [<- _]]. reflexivity.
    + set (X := x0 :: X').
      set (dp := (dflt, snd lf0 x0)).
      assert (Hlen : forall lm, In lm (mc_lift (lf0 :: fs)) -> length (snd lm X) = length X).
      { intros lm Hlm. unfold mc_lift in Hlm. apply in_map_iff in Hlm as [lf [<- _]]. cbn [snd]. unfold rowwise. apply map_length. }
      change (mc_lift (lf0 :: fs)) with ((fst lf0, rowwise (snd lf0)) :: mc_lift fs) in *.
      assert (Hres : length (mc_res gtb ((fst lf0, rowwise (snd lf0)) :: mc_lift fs) X) = length X).
      { destruct (mc_res_nth gtb (mc_lift fs) X (fst lf0, rowwise (snd lf0)) dp 0 Hlen) as [H _]; [simpl; lia | exact H]. }
      rewrite overwrite_full by (rewrite repeat_length; exact Hres).
      apply nth_ext with (d := fst dp) (d' := mc_row (lf0 :: fs) dflt x0).
      * rewrite map_length, Hres. unfold rowwise. rewrite map_length. reflexivity.
      * intros i Hi. rewrite map_length, Hres in Hi.
        rewrite (map_nth_lt fst _ dp) by (rewrite Hres; exact Hi).
        destruct (mc_res_nth gtb (mc_lift fs) X (fst lf0, rowwise (snd lf0)) dp i Hlen Hi) as [_ Hn].
        rewrite Hn. unfold rowwise. rewrite (map_nth_lt _ X x0) by exact Hi.
        unfold mc_row. simpl fst. simpl snd. f_equal. f_equal.
        -- f_equal. apply (map_nth_lt _ X x0). exact Hi.
        -- unfold mc_lift. rewrite map_map. apply map_ext. intros lf. simpl. f_equal.
           apply (map_nth_lt _ X x0). exact Hi.
Qed.
End MultiClassRowwise.

(** the Platt wrapper of a row function is a row function; monotonicity in the inner value *)
Lemma platt_model_rowwise {F G Row} (oF : NumOps F) (oG : NumOps G) (cast : F -> G) (expf : G -> G)
  (g : Row -> F) (a b : F) (X : list Row) :
  platt_model oF oG cast expf (rowwise g) a b X
  = rowwise (fun x => platt_predict oF oG cast expf (g x) a b) X.
Proof. unfold platt_model, rowwise. apply map_map. Qed.

Lemma platt_R_monotone_in_x (a b x1 x2 : R) : (x1 <= x2)%R ->
  ((0 <= a)%R -> (platt_R x2 a b <= platt_R x1 a b)%R) /\ ((a <= 0)%R -> (platt_R x1 a b <= platt_R x2 a b)%R).
Proof.
  intros Hx. unfold platt_R, platt_lin; simpl. split; intros Ha; apply platt_sig_antitone; nra.
Qed.

(** whatever the arithmetic (reals, binary32, binary64): a probability that [Pr::new] lets through
    lies in [0,1] in that arithmetic's own order *)
Lemma pr_new_range {F} (o : NumOps F) (p q : F) :
  pr_new o p = Some q -> q = p /\ leb o (zero o) q = true /\ leb o q (one o) = true.
Proof.
  unfold pr_new. destruct (leb o (zero o) p) eqn:E1; destruct (leb o p (one o)) eqn:E2; simpl; intros H;
    inversion H; subst; auto.
Qed.

(** * Non-vacuity: the hypotheses of the theorems are satisfiable on non-trivial inputs *)
Example ex_forms_rowwise :
  predict_ds (rw_default 0) (rw_inplace (fun r : list nat => length r)) ([[1; 2]; []; [7]], tt)
  = Some ([[1; 2]; []; [7]], [2; 0; 1]).
Proof. reflexivity. Qed.

Example ex_select_perm_dup :
  rowwise (fun r : list nat => length r) (select [] [2; 0; 0; 1] [[1; 2]; []; [7]]) = [1; 2; 2; 0].
Proof. reflexivity. Qed.

(* two members, three rows: flat buffer [10;11;12;20;21;22], shape (2,3), reversed to (3,2) *)
Example ex_multi_target :
  option_map (to_rows 0) (mt_predict [(fun X : list nat => map (fun x => 10 + x) X); (fun X => map (fun x => 20 + x) X)] [0; 1; 2])
  = Some [[10; 20]; [11; 21]; [12; 22]].
Proof. reflexivity. Qed.

Example ex_multi_target_hyp :
  forall m, In m [(fun X : list nat => map (fun x => 10 + x) X); (fun X => map (fun x => 20 + x) X)] ->
  length (m [0; 1; 2]) = length [0; 1; 2].
Proof. intros m [<-|[<-|[]]]; reflexivity. Qed.

(* a member of the wrong length makes into_shape fail: the Rust code panics in unwrap *)
Example ex_multi_target_malformed :
  mt_predict [(fun X : list nat => 0 :: X); (fun X => X)] [0; 1; 2] = None.
Proof. reflexivity. Qed.

(* ties go to the first member: labels 5, 6, 7 with probabilities (1/4, 1/2, 1/2) and (3/4, 1/4, 3/4) *)
Example ex_multi_class :
  mc_predict (fun d c => Nat.ltb c d) 0 [(5, fun _ : list unit => [1; 3]); (6, fun _ => [2; 1]); (7, fun _ => [2; 3])] [tt; tt]
  = Some [6; 5].
Proof. reflexivity. Qed.

Example ex_multi_class_hyp :
  forall lm, In lm [(5%nat, fun _ : list unit => [1; 3]%R); (6%nat, fun _ => [2; 1]%R)] ->
  length (snd lm [tt; tt]) = length [tt; tt].
Proof. intros lm [<-|[<-|[]]]; reflexivity. Qed.

Example ex_platt_half : platt_R 0 1 0 = (1 / 2)%R.
Proof. unfold platt_R. rewrite platt_sig_sigmoid. unfold platt_lin; simpl. rewrite Rmult_0_r, Rplus_0_l, exp_0. lra. Qed.
