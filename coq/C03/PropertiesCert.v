(** C03 - property theorems, part "certificates" (statements only; proofs are in C03/CorrProofs.v).

    The array-level correspondence C03/CorrMat.v runs, on every check, each [predict_inplace]
    transliteration of C03/MatModel.v at binary64 on a pre-filled target and compares it bit for bit
    with what the Rust implementation left in that target ([out = None]: the call panicked).
    [run_mcase c = 0] is "the case passed".  The theorems below say what a passing case certifies:
    on that batch the implementation's output IS the map of the explicit Gallina row function over
    the rows (and the call panics exactly when a shape guard fails) - the conclusion of the T2
    theorems of C03/PropertiesT2.v, transported to the observed output.

    [dot1 contig] is ndarray's one-dimensional dot product (unrolled for contiguous operands,
    sequential otherwise); [tbl_fn t] reads libm's exp / ln from the table [t] that is checked
    against a verified interval enclosure (code 4096); [tbl_mdot A B P] reads one entry of a
    matrixmultiply product from the table [P] that is checked against the exact rational dot
    product within the rounding bound (code 2048). *)
From Coq Require Import List NArith ZArith Bool Floats SpecFloat QArith.
From LinfaVerif Require Import Common.Num Common.NdSum Common.Run Common.B32 Common.QF
  C03.Model C03.MatModel C03.CorrMat C03.CorrProofs.
Import ListNotations.

(** OLS, elastic net: [*y = x.dot(&w) + b]. *)
Theorem passing_case_certifies_rowwise_linear : forall contig p w b exps X y0 out,
  run_mcase (MLin 0 contig p w b exps X y0 out) = 0%N ->
  out = guard (Nat.eqb (length X) (length y0)) (guard (rect (N.to_nat p) X && Nat.eqb (N.to_nat p) (length w))
          (Some (rowwise (lin_row m64 (dot1 contig) w b) X))).
Proof. intros; apply cert_lin with (exps := exps); assumption. Qed.

(** The same for the binary32 instances (all values as IEEE bit patterns). *)
Theorem passing_case_certifies_rowwise_linear_f32 : forall contig p w b X y0 out,
  run_mcase (MLin32 contig p w b X y0 out) = 0%N ->
  option_map bits32 out =
  guard (Nat.eqb (length X) (length y0)) (guard (rect (N.to_nat p) (map bits32 X) && Nat.eqb (N.to_nat p) (length w))
    (Some (rowwise (lin_row m32 (dot32 contig) (bits32 w) (b32_of_bits b)) (map bits32 X)))).
Proof. intros; apply cert_lin32; assumption. Qed.

(** Tweedie GLM with the identity (1), log (2) or logit (3) link. *)
Theorem passing_case_certifies_rowwise_glm : forall link contig p w b exps X y0 out, link <> 0%N ->
  run_mcase (MLin link contig p w b exps X y0 out) = 0%N ->
  out = guard (Nat.eqb (length X) (length y0)) (guard (rect (N.to_nat p) X && Nat.eqb (N.to_nat p) (length w))
          (Some (rowwise (glm_row m64 (dot1 contig) (glm_inv link (tbl_fn exps)) w b) X))).
Proof. intros; apply cert_glm; assumption. Qed.

(** Binary logistic regression (any threshold). *)
Theorem passing_case_certifies_rowwise_logistic : forall contig p w b thr exps pos neg X y0 out,
  run_mcase (MLogit contig p w b thr exps pos neg X y0 out) = 0%N ->
  out = guard (Nat.eqb (length X) (length y0)) (guard (Nat.eqb (N.to_nat p) (length w)) (guard (rect (N.to_nat p) X)
          (Some (rowwise (logit_row m64 (dot1 contig) (tbl_fn exps) w b thr pos neg) X)))).
Proof. intros; apply cert_logit; assumption. Qed.

(** Multinomial logistic regression: per row the class of the first maximal score of [x.dot(&W) + &b]. *)
Theorem passing_case_certifies_rowwise_multinomial_logistic : forall p k W b classes P X y0 out,
  run_mcase (MMlogit p k W b classes P X y0 out) = 0%N ->
  out = guard (Nat.eqb (length X) (length y0)) (guard (Nat.eqb (N.to_nat p) (length W))
          (guard (rect (N.to_nat p) X && rect (N.to_nat k) W && Nat.eqb (N.to_nat k) (length b))
            (sequence (map (mlogit_row m64 (tbl_mdot X (columns m64 (N.to_nat k) W) P) (N.to_nat k) W b classes 0%N) X)))).
Proof. intros; apply cert_mlogit; assumption. Qed.

(** Multi-task elastic net. *)
Theorem passing_case_certifies_rowwise_multi_task : forall p k W b P X ny out,
  run_mcase (MMtl p k W b P X ny out) = 0%N ->
  out = guard (Nat.eqb (length X) (N.to_nat ny))
          (guard (rect (N.to_nat p) X && Nat.eqb (N.to_nat p) (length W) && rect (N.to_nat k) W && Nat.eqb (N.to_nat k) (length b))
            (Some (rowwise (scores_row m64 (tbl_mdot X (columns m64 (N.to_nat k) W) P) (N.to_nat k) W b) X))).
Proof. intros; apply cert_mtl; assumption. Qed.

(** PCA. *)
Theorem passing_case_certifies_rowwise_pca : forall p mean E P X Y0 out,
  run_mcase (MPca p mean E P X Y0 out) = 0%N ->
  out = guard (Nat.eqb (length Y0) (length X) && rect (length E) Y0)
          (guard (rect (N.to_nat p) X && Nat.eqb (N.to_nat p) (length mean) && rect (N.to_nat p) E)
            (Some (rowwise (pca_row m64 (tbl_mdot (mat_op_row PrimFloat.sub X mean) E P) mean E) X))).
Proof. intros; apply cert_pca; assumption. Qed.

(** PLS regression. *)
Theorem passing_case_certifies_rowwise_pls : forall p k xm xs Cf ym P X Y0 out,
  run_mcase (MPls p k xm xs Cf ym P X Y0 out) = 0%N ->
  out = guard (Nat.eqb (length Y0) (length X) && rect (N.to_nat k) Y0)
          (guard (rect (N.to_nat p) X && Nat.eqb (N.to_nat p) (length xm) && Nat.eqb (N.to_nat p) (length xs)
                  && Nat.eqb (N.to_nat p) (length Cf) && rect (N.to_nat k) Cf && Nat.eqb (N.to_nat k) (length ym))
            (Some (rowwise (pls_row m64 (tbl_mdot (mat_op_row PrimFloat.div (mat_op_row PrimFloat.sub X xm) xs)
                                                  (columns m64 (N.to_nat k) Cf) P) (N.to_nat k) xm xs Cf ym) X))).
Proof. intros; apply cert_pls; assumption. Qed.

(** Multinomial and Gaussian naive Bayes: per row the first class of maximal joint log-likelihood
    (classes in sorted order; [nb_classes] drops the prior and keeps its logarithm). *)
Theorem passing_case_certifies_rowwise_multinomial_nb : forall contig classes X y0 out,
  run_mcase (MMnb contig classes X y0 out) = 0%N ->
  out = guard (Nat.eqb (length X) (length y0))
          (sequence (map (nb_row m64 (mnb_score m64 (dot1 contig)) 0%N (nb_classes classes)) X)).
Proof. intros; apply cert_mnb; assumption. Qed.

Theorem passing_case_certifies_rowwise_gaussian_nb : forall lanes p classes lns X y0 out,
  rect (N.to_nat p) X = true ->
  (forall c, In c classes -> length (fst (snd (snd (snd c)))) = N.to_nat p /\ length (snd (snd (snd (snd c)))) = N.to_nat p) ->
  run_mcase (MGnb lanes p classes lns X y0 out) = 0%N ->
  out = guard (Nat.eqb (length X) (length y0))
          (sequence (map (nb_row m64 (gnb_score m64 (tbl_fn lns) twopi64 (-0.5)%float 0.5%float lanes) 0%N (nb_classes classes)) X)).
Proof. intros; eapply cert_gnb; eassumption. Qed.

(** FTRL (probabilities as binary32 values). *)
Theorem passing_case_certifies_rowwise_ftrl : forall contig p w exps X y0 out,
  run_mcase (MFtrl contig p w exps X y0 out) = 0%N ->
  option_map (map b32_of_bits) out =
  guard (Nat.eqb (length X) (length y0)) (guard (Nat.eqb (N.to_nat p) (length w)) (guard (rect (N.to_nat p) X)
    (sequence (map (ftrl_row m64 m32 (dot1 contig) (tbl_fn exps) signneg64 35%float cast32 w) X)))).
Proof. intros; apply cert_ftrl; assumption. Qed.

(** The row loops: linear-kernel SVM (regression value [w.x - rho], label [w.x - rho >= 0]),
    k-means (index of the first nearest centroid), decision tree (descent). *)
Theorem passing_case_certifies_rowwise_row_loops :
  (forall w rho X y0 out l0 labs, run_mcase (MSvm 0 w rho X y0 out l0 labs) = 0%N ->
     out = guard (Nat.eqb (length X) (length y0)) (Some (rowwise (svm_value m64 (svm_linear_wsum m64 w) rho) X)))
  /\ (forall kind w rho X y0 out l0 labs, kind <> 0%N -> run_mcase (MSvm kind w rho X y0 out l0 labs) = 0%N ->
     labs = guard (Nat.eqb (length X) (length l0)) (Some (rowwise (svm_label m64 (svm_linear_wsum m64 w) rho) X)))
  /\ (forall cs X y0 out, run_mcase (MKm cs X y0 out) = 0%N ->
     out = guard (Nat.eqb (length X) (length y0)) (Some (rowwise (fun x => N.of_nat (km_predict m64 cs x)) X)))
  /\ (forall t X y0 out, run_mcase (MTree t X y0 out) = 0%N ->
     out = guard (Nat.eqb (length X) (length y0)) (Some (rowwise (tree_predict m64 t) X))).
Proof.
  repeat split; intros.
  - eapply cert_svm_value; eassumption.
  - eapply cert_svm_label; eassumption.
  - apply cert_kmeans; assumption.
  - apply cert_tree; assumption.
Qed.

(** Isotonic regression: element i of the target is a function of row i and of what that element
    held before (it survives a NaN query). *)
Theorem passing_case_certifies_elementwise_isotonic : forall reg resp X y0 out,
  run_mcase (MIso reg resp X y0 out) = 0%N ->
  out = guard (rect 1 X) (guard (Nat.eqb (length X) (length y0))
          (Some (map2 (fun row v0 => iso_predict m64 reg resp v0 (nth 0 row 0%float)) X y0))).
Proof. intros; apply cert_iso; assumption. Qed.

(** The product-table check behind code 2048: every entry [v] taken for "row a of the left operand
    times column c of the right operand" is finite and lies within the a-priori rounding bound of a
    length-p floating-point dot product (any summation order, with or without fused multiply-add:
    gamma_p <= (p+1) 2^-53) of the exact rational dot product of the exact values of the operands. *)
Theorem passing_product_table_is_within_rounding_bound : forall A Bc P, prod_ok A Bc P = true ->
  length P = length A /\
  forall a prow, In (a, prow) (combine A P) ->
    length prow = length Bc /\
    forall c v, In (c, v) (combine Bc prow) ->
      f64_finite v = true /\
      (qabs (f64_Q v - Qdot (map f64_Q a) (map f64_Q c))
       <= gam (length a) * Qdot (map qabs (map f64_Q a)) (map qabs (map f64_Q c)) + tiny)%Q.
Proof. intros; apply prod_ok_sound; assumption. Qed.
