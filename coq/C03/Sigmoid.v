(** C03 - an enclosure-based test "p is 1/(1+exp f) up to 2^-20" for binary32 values, computed with
    the verified interval arithmetic of the Interval library (I.exp, I.add, I.inv at 60 bits).
    Used only by the run-time oracle of C03/Corr.v; no theorem of Properties.v depends on it. *)
From Coq Require Import ZArith SpecFloat.
From Interval Require Specific_bigint Specific_ops Float_full.

Module SFBI2 := Specific_ops.SpecificFloat Specific_bigint.BigIntRadix2.
Module IV := Float_full.FloatIntervalFull SFBI2.

Definition iv_prec := SFBI2.PtoP 60.
Definition iv_of_sf (x : spec_float) : SFBI2.type :=
  match x with
  | S754_zero _ => SFBI2.zero
  | S754_finite s m e => SFBI2.scale (SFBI2.fromZ (if s then Zneg m else Zpos m)) (SFBI2.ZtoS e)
  | _ => SFBI2.nan
  end.
Definition iv_point (x : spec_float) : IV.type := IV.bnd (iv_of_sf x) (iv_of_sf x).

(* enclosure of 1/(1+exp f) *)
Definition sigmoid_iv (f : spec_float) : IV.type :=
  IV.inv iv_prec (IV.add iv_prec (iv_point (S754_finite false 1 0)) (IV.exp iv_prec (iv_point f))).

(* p lies in the enclosure widened by 2^-20 on both sides (f, p finite).  Beyond |f| >= 16 the
   sigmoid is within 2^-20 of 0 or 1, and the interval exponential of a huge argument would be
   needlessly expensive: there the test is the direct comparison. *)
Definition sigmoid_within (f p : spec_float) : bool :=
  (* binary32 constants in canonical form (24-bit mantissas), as SFleb compares exponents first *)
  let slack := S754_finite false 8388608 (-43) in          (* 2^-20 *)
  let sixteen := S754_finite false 8388608 (-19) in        (* 16 *)
  if SFleb sixteen f then SFleb p slack
  else if SFleb f (SFopp sixteen) then SFleb (S754_finite false 16777200 (-24)) p   (* 1 - 2^-20 *)
  else
  IV.subset (iv_point p)
            (IV.add iv_prec (sigmoid_iv f) (IV.bnd (SFBI2.neg (iv_of_sf slack)) (iv_of_sf slack))).
