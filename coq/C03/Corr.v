(** C03 - correspondence (model = implementation) and property oracle, evaluated on the
    implementation's outputs with the binary64 / binary32 instances and exact rationals.
    The array-level models of C03/MatModel.v are run in C03/CorrMat.v (constructor [CMAT]). *)
From Coq Require Import List NArith ZArith Bool Floats SpecFloat QArith.
From LinfaVerif Require Export Common.Num Common.NdSum Common.Run Common.B32 Common.QF C03.Model.
From LinfaVerif Require Import C03.Sigmoid.
From LinfaVerif Require Export C03.CorrMat.
From LinfaVerif Require Export C03.CorrR5.
Import ListNotations.

Definition o64 := B64_ops.
Definition o32 := B32_ops.

Inductive case :=
(* MultiTargetModel on mock members: member j returned [nth j members] on a batch of n rows;
   the wrapper returned an array of shape [shape] with rows [out] (or panicked) *)
| CMT (id n : N) (members : list (list float)) (panicked : bool) (shape : N * N) (out : list (list float))
(* MultiClassModel on mock members with labels [labels] and probabilities [members] (f32 widened) *)
| CMC (id n dflt : N) (labels : list N) (members : list (list float)) (panicked : bool) (out : list N)
(* platt_predict(x, a, b) for several x: (x, (bits of f_apb as f32, (bits of exp(-|f_apb|) as f32,
   bits of the returned probability or -1 for a panic))); is32: the model is an f32 model *)
| CPL (id : N) (is32 : bool) (a b : float) (pts : list (float * (Z * (Z * Z))))
(* k-means predict *)
| CKM (id : N) (centroids X : list (list float)) (out : list N)
(* x.dot(w) + b: kind 0 = predicted values, kind 1 = logistic labels at threshold 1/2 *)
| CLIN (id kind : N) (contig : bool) (w : list float) (b : float) (X : list (list float))
       (out : list float) (labs : list bool)
(* decision tree descent *)
| CTREE (id : N) (t : tree (F := float) N) (X : list (list float)) (out : list N)
(* isotonic interpolation on an n x 1 batch *)
| CISO (id : N) (reg resp xs out : list float)
(* affine maps through matrixmultiply, recomputed exactly over Q: out = ((X - mean) / scale) W + b
   within the rounding bound (kind 0), or labs = arg-max of that (kind 1); empty mean / scale = none *)
| CAFF (id kind : N) (mean scale : list float) (W : list (list float)) (b : list float)
       (X : list (list float)) (out : list (list float)) (labs : list N)
(* a correspondence code evaluated by the Rust harness (transliterations that need libm) *)
| CEXT (id code : N)
(* the array-level models of C03/MatModel.v (the objects of the T2 theorems) against the
   implementation's predict_inplace on a pre-filled target: see C03/CorrMat.v *)
| CMAT (id : N) (m : mcase)
(* round 5: non-linear-kernel SVM predict_inplace (C03/ModelR5.v), run in C03/CorrR5.v *)
| CR5 (id : N) (m : r5case).

Definition rows_eqb (a b : list (list float)) : bool := list_eqb (list_eqb f64_biteq) a b.
Definition lor_list (l : list N) : N := fold_left N.lor l 0%N.

(* ---------------------------------------------------------------- multi-target *)
Definition mt_members (members : list (list float)) : list (list unit -> list float) :=
  map (fun v => fun _ : list unit => v) members.

Definition run_mt (n : N) members (panicked : bool) (shape : N * N) (out : list (list float)) : N * N :=
  let X := repeat tt (N.to_nat n) in
  let wellformed := forallb (fun v => Nat.eqb (length v) (N.to_nat n)) members in
  let corr :=
    match mt_predict (mt_members members) X with
    | None => flag panicked 1
    | Some a =>
        flag (negb panicked
              && N.eqb (fst shape) (N.of_nat (a_rows a)) && N.eqb (snd shape) (N.of_nat (a_cols a))
              && rows_eqb (to_rows nan a) out) 1
    end in
  let m := length members in
  let oracle :=
    if wellformed then
      flag (negb panicked
            && N.eqb (fst shape) n && N.eqb (snd shape) (N.of_nat m)
            && Nat.eqb (length out) (N.to_nat n)
            && forallb (fun i =>
                 let r := nth i out [] in
                 Nat.eqb (length r) m
                 && forallb (fun j => f64_biteq (nth j r nan) (nth i (nth j members []) nan)) (seq 0 m))
               (seq 0 (N.to_nat n))) 128
    else 0%N in
  (corr, oracle).

(* ---------------------------------------------------------------- multi-class *)
Definition fgtb (d c : float) : bool := PrimFloat.ltb c d.
Definition mc_members (labels : list N) (members : list (list float)) : list (N * (list unit -> list float)) :=
  combine labels (map (fun v => fun _ : list unit => v) members).

Definition run_mc (n dflt : N) labels members (panicked : bool) (out : list N) : N * N :=
  let X := repeat tt (N.to_nat n) in
  let ms := mc_members labels members in
  let corr :=
    match mc_predict fgtb dflt ms X with
    | None => flag panicked 2
    | Some y => flag (negb panicked && list_eqb N.eqb y out) 2
    end in
  let wellformed := forallb (fun v => Nat.eqb (length v) (N.to_nat n)) members
                    && Nat.eqb (length labels) (length members)
                    && forallb (forallb (fun p => PrimFloat.leb 0 p && PrimFloat.leb p 1)) members in
  let oracle :=
    if wellformed then
      flag (negb panicked && Nat.eqb (length out) (N.to_nat n)
            && forallb (fun i =>
                 let probs := map (fun v => nth i v nan) members in
                 let l := nth i out dflt in
                 match probs with
                 | [] => N.eqb l dflt
                 | _ =>
                   (* some member carries this label and no member has a higher probability *)
                   existsb (fun lp => N.eqb (fst lp) l
                                      && forallb (fun q => PrimFloat.leb q (snd lp)) probs)
                           (combine labels probs)
                 end) (seq 0 (N.to_nat n))) 256
    else 0%N in
  (corr, oracle).

(* ---------------------------------------------------------------- Platt *)
Definition to32 (x : float) : spec_float := b32_of_b64 (Prim2SF x).
Definition pl_f (is32 : bool) (x a b : float) : spec_float :=
  if is32 then platt_lin o32 (to32 x) (to32 a) (to32 b) else to32 (platt_lin o64 x a b).
Definition sf_is_nan (x : spec_float) : bool := match x with S754_nan => true | _ => false end.
Definition slack20 : Q := 1 # 1048576.

(* shape of a decreasing sigmoid centred at 0, from 1 + t <= exp t:
   p <= 1/(2+f) for f > -1,  p >= (1-f)/(2-f) for f < 1,  p <= 1/2 <-> f >= 0 *)
Definition sigmoid_shape (f p : spec_float) : bool :=
  match f with
  | S754_infinity false => sf_eqb p (S754_zero false)
  | S754_infinity true => sf_eqb p (one o32)
  | S754_nan => true
  | _ =>
      let fq := SF2Qd f in let pq := SF2Qd p in
      (if Qle_bool 0 fq then Qle_bool pq (1 # 2) else true)
      && (if Qle_bool fq 0 then Qle_bool (1 # 2) pq else true)
      && (if Qltb (-1 # 1) fq then Qle_bool (pq * (2 + fq)) (1 + slack20 * (2 + fq)) else true)
      && (if Qltb fq 1 then Qle_bool ((1 - fq) - slack20 * (2 - fq)) (pq * (2 - fq)) else true)
      (* and the tight test: p = 1/(1+exp f) up to 2^-20, by verified interval arithmetic *)
      && sigmoid_within f p
  end.

(* q2 <= q1 up to rounding: e/(1+e) evaluated in binary32 is monotone only up to an ulp or two
   (numerator and denominator move together), so the order is tested with a relative slack 2^-20 *)
Definition mono_le (q2 q1 : spec_float) : bool :=
  SFleb q2 (SFadd p32 e32 q1 (SFmul p32 e32 q1 (S754_finite false 8388608 (-43)))).

Definition run_pl (is32 : bool) (a b : float) (pts : list (float * (Z * (Z * Z)))) : N * N :=
  let dec := map (fun t => let '(x, (fb, (eb, pb))) := t in
                           (pl_f is32 x a b, b32_of_bits fb, b32_of_bits eb,
                            if Z.ltb pb 0 then None else Some (b32_of_bits pb))) pts in
  let corr :=
    flag (forallb (fun t => let '(f, fh, e, p) := t in
            sf_eqb f fh
            && match pr_new o32 (platt_sig o32 (fun _ => e) f), p with
               | Some m, Some q => sf_eqb m q
               | None, None => true
               | _, _ => false
               end) dec) 4 in
  let oracle :=
    flag (forallb (fun t => let '(f, _, _, p) := t in
            match p with
            | None => sf_is_nan f                        (* a panic is legitimate only for NaN input *)
            | Some q => SFleb (S754_zero false) q && SFleb q (one o32) && sigmoid_shape f q
            end) dec
          (* monotone: a larger decision value never gets a larger probability *)
          && forallb (fun t1 => let '(f1, _, _, p1) := t1 in
               forallb (fun t2 => let '(f2, _, _, p2) := t2 in
                 match p1, p2 with
                 | Some q1, Some q2 => if SFleb f1 f2 then mono_le q2 q1 else true
                 | _, _ => true
                 end) dec) dec) 512 in
  (corr, oracle).

(* ---------------------------------------------------------------- predictors, bit for bit *)
Definition run_km (cs X : list (list float)) (out : list N) : N * N :=
  (flag (list_eqb N.eqb (map (fun x => N.of_nat (km_predict o64 cs x)) X) out) 8, 0%N).

Definition margin40 : float := 0x1p-40%float.
Definition run_lin (kind : N) (contig : bool) (w : list float) (b : float) (X : list (list float))
  (out : list float) (labs : list bool) : N * N :=
  let z := map (linear_predict o64 contig w b) X in
  match kind with
  | 0%N => (flag (list_eqb f64_biteq z out) 16, 0%N)
  | _ =>
      (flag (Nat.eqb (length labs) (length X)
             && forallb (fun zl => let '(v, l) := zl in
                  if PrimFloat.leb 0 v then l
                  else if PrimFloat.ltb v (PrimFloat.opp margin40) then negb l else true)
                (combine z labs)) 32, 0%N)
  end.

Definition run_tree (t : tree (F := float) N) (X : list (list float)) (out : list N) : N * N :=
  (flag (list_eqb N.eqb (map (tree_predict o64 t) X) out) 64, 0%N).

Definition run_iso (reg resp xs out : list float) : N * N :=
  (flag (list_eqb f64_biteq (map (iso_predict o64 reg resp 0%float) xs) out) 128, 0%N).

(* ---------------------------------------------------------------- affine maps over Q *)
Definition Qabs_ (a : Q) : Q := Qabs' a.
Definition qcol (W : list (list Q)) (k : nat) : list Q := map (fun r => nth k r 0%Q) W.
Definition gamma (p : nat) : Q := (inject_Z (Z.of_nat p + 4)) * (1 # 4503599627370496).   (* (p+4) 2^-52 *)

(* exact value and magnitude bound of output k for row x *)
Definition aff_q (mean scale : list Q) (W : list (list Q)) (b : list Q) (x : list Q) (k : nat) : Q * Q :=
  let xc := match mean with [] => x | _ => map2 Qminus x mean end in
  let xc := match scale with [] => xc | _ => map2 Qdiv xc scale end in
  let wk := qcol W k in
  let bk := nth k b 0%Q in
  (Qred (Qdot xc wk + bk), Qred (Qdot (map Qabs_ xc) (map Qabs_ wk) + Qabs_ bk)).

Definition run_aff (kind : N) (mean scale : list float) (W : list (list float)) (b : list float)
  (X out : list (list float)) (labs : list N) : N * N :=
  let mq := map f64_Q mean in
  let sq := map f64_Q scale in
  let Wq := map (map f64_Q) W in
  let bq := map f64_Q b in
  let p := length W in
  let k := match W with [] => length b | r :: _ => length r end in
  let finite := forallb (forallb f64_finite) (mean :: scale :: b :: W ++ X ++ out)
                && forallb (fun q => negb (Qeq_bool q 0)) sq in
  let ok :=
    match kind with
    | 0%N =>
        Nat.eqb (length out) (length X)
        && forallb (fun xo => let '(x, orow) := xo in
             Nat.eqb (length orow) k
             && forallb (fun j => let '(q, s) := aff_q mq sq Wq bq (map f64_Q x) j in
                                  Qle_bool (Qabs_ (f64_Q (nth j orow nan) - q)) (gamma p * s))
                        (seq 0 k)) (combine X out)
    | _ =>
        Nat.eqb (length labs) (length X)
        && forallb (fun xl => let '(x, l) := xl in
             let qs := map (aff_q mq sq Wq bq (map f64_Q x)) (seq 0 k) in
             match nth_error qs (N.to_nat l) with
             | None => false
             | Some (ql, sl) =>
                 forallb (fun qs' => let '(q, s) := qs' in Qle_bool q (ql + gamma p * (s + sl))) qs
             end) (combine X labs)
    end in
  (flag (finite && ok) 256, 0%N).

(* ---------------------------------------------------------------- driver *)
Definition run_case (c : case) : verdict :=
  match c with
  | CMT id n members panicked shape out => (id, run_mt n members panicked shape out)
  | CMC id n dflt labels members panicked out => (id, run_mc n dflt labels members panicked out)
  | CPL id is32 a b pts => (id, run_pl is32 a b pts)
  | CKM id cs X out => (id, run_km cs X out)
  | CLIN id kind contig w b X out labs => (id, run_lin kind contig w b X out labs)
  | CTREE id t X out => (id, run_tree t X out)
  | CISO id reg resp xs out => (id, run_iso reg resp xs out)
  | CAFF id kind mean scale W b X out labs => (id, run_aff kind mean scale W b X out labs)
  | CEXT id code => (id, (code, 0%N))
  | CMAT id m => (id, (run_mcase m, 0%N))
  | CR5 id m => (id, (run_r5case m, 0%N))
  end.

Definition run_cases (cs : list case) : list N := report (map run_case cs).
