(** C03, round 5 - lemmas about the non-linear-kernel SVM model of C03/ModelR5.v. *)
From Coq Require Import List NArith ZArith Bool Reals Lra Lia Floats Permutation.
From LinfaVerif Require Import Common.Num Common.NdSum C03.Model C03.MatModel C03.Proofs C03.MatProofs C03.ModelR5.
Import ListNotations.

(** * option-valued row functions: selection and concatenation of batches *)
Section Seq.
Context {Row L : Type}.

Lemma sequence_map_nth (g : Row -> option L) (d : Row) (dl : L) : forall X out,
  sequence (map g X) = Some out -> forall i, i < length X -> g (nth i X d) = Some (nth i out dl).
Proof.
  induction X as [|x X IH]; intros out H i Hi; simpl in *; [lia|].
  destruct (g x) as [v|] eqn:E; [|discriminate].
  destruct (sequence (map g X)) as [r|] eqn:E2; simpl in H; [|discriminate].
  inversion H; subst out. destruct i as [|i]; simpl; [exact E|].
  apply IH; [reflexivity|lia].
Qed.

Lemma sequence_map_select (g : Row -> option L) (d : Row) (dl : L) X out :
  sequence (map g X) = Some out -> forall idx, (forall i, In i idx -> i < length X) ->
  sequence (map g (select d idx X)) = Some (select dl idx out).
Proof.
  intros H idx. unfold select. induction idx as [|i idx IH]; intros Hin; simpl; [reflexivity|].
  rewrite (sequence_map_nth g d dl X out H i) by (apply Hin; left; reflexivity).
  rewrite IH by (intros j Hj; apply Hin; right; exact Hj). reflexivity.
Qed.

Lemma sequence_map_app (g : Row -> option L) : forall X Y,
  sequence (map g (X ++ Y)) =
  match sequence (map g X), sequence (map g Y) with
  | Some a, Some b => Some (a ++ b)
  | _, _ => None
  end.
Proof.
  induction X as [|x X IH]; intros Y; simpl.
  - destruct (sequence (map g Y)); reflexivity.
  - destruct (g x) as [v|]; [|reflexivity]. rewrite IH.
    destruct (sequence (map g X)); simpl; [|reflexivity].
    destruct (sequence (map g Y)); reflexivity.
Qed.
End Seq.

Lemma select_length {A} (d : A) idx X : length (select d idx X) = length idx.
Proof. unfold select. apply map_length. Qed.

Section SvmK.
Context {F : Type} (o : NumOps F).

(** * the batch is the map of the row function *)
Lemma svm_kernel_inplace_rowwise {L} kern thr svs alpha rho (post : F -> L) X y :
  svm_kernel_inplace o kern thr svs alpha rho post X y =
  guard (Nat.eqb (length X) (length y)) (sequence (map (svm_kernel_row o kern thr svs alpha rho post) X)).
Proof. unfold svm_kernel_inplace. apply zip_inplace_opt_rowwise. Qed.

Lemma svm_kernel_inplace_select {L} kern thr svs alpha rho (post : F -> L) X y out (d : list F) (dl : L) idx y' :
  svm_kernel_inplace o kern thr svs alpha rho post X y = Some out ->
  (forall i, In i idx -> i < length X) -> length y' = length idx ->
  svm_kernel_inplace o kern thr svs alpha rho post (select d idx X) y' = Some (select dl idx out).
Proof.
  rewrite !svm_kernel_inplace_rowwise. intros H Hin Hy.
  destruct (Nat.eqb (length X) (length y)); [|discriminate]. cbn [guard] in H.
  rewrite select_length, Hy, Nat.eqb_refl. cbn [guard].
  apply sequence_map_select; assumption.
Qed.

Lemma svm_kernel_inplace_app {L} kern thr svs alpha rho (post : F -> L) X1 X2 y1 y2 :
  length y1 = length X1 -> length y2 = length X2 ->
  svm_kernel_inplace o kern thr svs alpha rho post (X1 ++ X2) (y1 ++ y2) =
  match svm_kernel_inplace o kern thr svs alpha rho post X1 y1,
        svm_kernel_inplace o kern thr svs alpha rho post X2 y2 with
  | Some a, Some b => Some (a ++ b)
  | _, _ => None
  end.
Proof.
  intros H1 H2. rewrite !svm_kernel_inplace_rowwise, !app_length, H1, H2, !Nat.eqb_refl.
  cbn [guard]. apply sequence_map_app.
Qed.

(** * the Gaussian kernel never panics: a total row function, whatever the column count *)
Definition gauss_value (expf : F -> F) (eps thr : F) svs alpha (rho : F) (x : list F) : F :=
  sub o (isum o (map (fun sa => mul o (expf (div o (opp o (sqdist o (fst sa) x)) eps)) (snd sa))
                     (combine svs (filter (alpha_big o thr) alpha)))) rho.

Lemma gauss_row_total {L} expf eps thr svs alpha rho (post : F -> L) x :
  svm_kernel_row o (kern_gaussian o expf eps) thr svs alpha rho post x =
  Some (post (gauss_value expf eps thr svs alpha rho x)).
Proof.
  unfold svm_kernel_row, svm_kernel_wsum, wsum_terms, kern_gaussian, gauss_value.
  cbn [option_map].
  rewrite (sequence_map_some (fun sa : list F * F => mul o (expf (div o (opp o (sqdist o (fst sa) x)) eps)) (snd sa))).
  reflexivity.
Qed.

Lemma gauss_inplace_rowwise {L} expf eps thr svs alpha rho (post : F -> L) X y :
  svm_kernel_inplace o (kern_gaussian o expf eps) thr svs alpha rho post X y =
  guard (Nat.eqb (length X) (length y))
        (Some (rowwise (fun x => post (gauss_value expf eps thr svs alpha rho x)) X)).
Proof.
  rewrite svm_kernel_inplace_rowwise. f_equal.
  rewrite (map_ext _ (fun x => Some (post (gauss_value expf eps thr svs alpha rho x))))
    by (intros; apply gauss_row_total).
  apply sequence_map_some.
Qed.

(** * the polynomial kernel on well-shaped data: a total row function *)
Definition poly_value (powf : F -> F -> F) (c d thr : F) svs alpha (rho : F) (x : list F) : F :=
  sub o (isum o (map (fun sa => mul o (powf (add o (usum o (map2 (mul o) (fst sa) x)) c) d) (snd sa))
                     (combine svs (filter (alpha_big o thr) alpha)))) rho.

Lemma bdot_same_length a b : length a = length b -> bdot o a b = Some (usum o (map2 (mul o) a b)).
Proof. intros H. unfold bdot, bmul. rewrite H, Nat.eqb_refl. reflexivity. Qed.

Lemma poly_row_total {L} powf c d thr svs alpha rho (post : F -> L) x :
  (forall s, In s svs -> length s = length x) ->
  svm_kernel_row o (kern_polynomial o powf c d) thr svs alpha rho post x =
  Some (post (poly_value powf c d thr svs alpha rho x)).
Proof.
  intros Hs. unfold svm_kernel_row, svm_kernel_wsum, wsum_terms, poly_value.
  rewrite (map_ext_in _ (fun sa : list F * F =>
             Some (mul o (powf (add o (usum o (map2 (mul o) (fst sa) x)) c) d) (snd sa)))).
  - rewrite sequence_map_some. reflexivity.
  - intros [s a] Hin. unfold kern_polynomial. cbn [fst snd].
    rewrite bdot_same_length by (apply Hs; eapply in_combine_l; exact Hin). reflexivity.
Qed.

Lemma poly_inplace_rowwise {L} powf c d thr svs alpha rho (post : F -> L) p X y :
  (forall s, In s svs -> length s = p) -> rect p X = true ->
  svm_kernel_inplace o (kern_polynomial o powf c d) thr svs alpha rho post X y =
  guard (Nat.eqb (length X) (length y))
        (Some (rowwise (fun x => post (poly_value powf c d thr svs alpha rho x)) X)).
Proof.
  intros Hs Hr. rewrite svm_kernel_inplace_rowwise. f_equal.
  rewrite (map_ext_in _ (fun x => Some (post (poly_value powf c d thr svs alpha rho x)))).
  - apply sequence_map_some.
  - intros x Hx. apply poly_row_total. intros s Hin. rewrite (Hs s Hin).
    unfold rect in Hr. rewrite forallb_forall in Hr. symmetry. apply Nat.eqb_eq. apply Hr. exact Hx.
Qed.

(** * the zip of the stored support vectors with the re-filtered alphas is aligned *)
Lemma support_vectors_aligned thr : forall (D : list (list F)) alpha,
  combine (support_vectors o thr D alpha) (filter (alpha_big o thr) alpha) =
  filter (fun da => alpha_big o thr (snd da)) (combine D alpha).
Proof.
  unfold support_vectors.
  induction D as [|r D IH]; intros [|a alpha]; simpl; try reflexivity.
  destruct (alpha_big o thr a); simpl; rewrite IH; reflexivity.
Qed.
End SvmK.

(** * over the reals *)
Lemma isum_R_from (xs : list R) : forall acc : R, fold_left Rplus xs acc = (acc + fold_right Rplus 0 xs)%R.
Proof. induction xs as [|x xs IH]; intros acc; simpl; [lra|]. rewrite IH. lra. Qed.

Lemma isum_R (xs : list R) : isum R_ops xs = fold_right Rplus 0%R xs.
Proof. unfold isum. cbn [add opp zero R_ops]. rewrite isum_R_from. lra. Qed.

Lemma label_R (s rho : R) : post_label R_ops (sub R_ops s rho) = true <-> (rho <= s)%R.
Proof. unfold post_label. cbn [leb zero sub R_ops]. rewrite Rleb_true. lra. Qed.

Lemma gauss_label_R eps thr svs alpha rho (x : list R) :
  svm_kernel_row R_ops (kern_gaussian R_ops exp eps) thr svs alpha rho (post_label R_ops) x = Some true
  <-> (rho <= fold_right Rplus 0
              (map (fun sa => exp (- sqdist R_ops (fst sa) x / eps) * snd sa)
                   (combine svs (filter (alpha_big R_ops thr) alpha))))%R.
Proof.
  rewrite gauss_row_total. unfold gauss_value. rewrite isum_R. split.
  - intros H. inversion H as [H1]. apply label_R in H1. exact H1.
  - intros H. f_equal. apply label_R. exact H.
Qed.

(** * the statements are not vacuous: a two-support-vector model evaluated at binary64 *)
Example gauss_example :
  svm_kernel_inplace B64_ops (kern_gaussian B64_ops (fun z => z) 2%float) 0x1p-40%float
    (support_vectors B64_ops 0x1p-40%float [[0; 0]; [5; 5]; [1; 1]]%float [1; 0; -2]%float) [1; 0; -2]%float
    0.5%float (fun v => v) [[1; 0]; [0; 1]]%float [9; 9]%float
  = Some [0; 0]%float.
Proof. vm_compute. reflexivity. Qed.

Example poly_example_panics_on_wrong_width :
  svm_kernel_inplace B64_ops (kern_polynomial B64_ops (fun b _ => PrimFloat.mul b b) 1%float 2%float) 0x1p-40%float
    [[1; 2]]%float [1]%float 0%float (fun v => v) [[1; 2; 3]]%float [9]%float = None
  /\ svm_kernel_inplace B64_ops (kern_polynomial B64_ops (fun b _ => PrimFloat.mul b b) 1%float 2%float) 0x1p-40%float
    [[1; 2]]%float [1]%float 0%float (fun v => v) [[3]; [1]]%float [9; 9]%float = Some [100; 16]%float.
Proof. split; vm_compute; reflexivity. Qed.

Lemma poly_value_R (powf : R -> R -> R) c d thr svs alpha rho (x : list R) :
  poly_value R_ops powf c d thr svs alpha rho x =
  (fold_right Rplus 0 (map (fun sa => powf (MatProofs.Rdot (fst sa) x + c) d * snd sa)
                           (combine svs (filter (alpha_big R_ops thr) alpha))) - rho)%R.
Proof.
  unfold poly_value. rewrite isum_R. cbn [sub R_ops]. f_equal. f_equal. apply map_ext.
  intros [s a]. cbn [fst snd mul add R_ops]. rewrite usum_R. simpl. rewrite Rsum_products. reflexivity.
Qed.

(** * what a passing correspondence case of C03/CorrR5.v (code 0) certifies *)
From LinfaVerif Require Import Common.Run C03.CorrMat C03.CorrProofs C03.CorrR5.

Lemma c_r5model_nz : c_r5model <> 0%N. Proof. discriminate. Qed.

Lemma cert_r5_value km p1 p2 dn tbl D alpha rho X y0 out l0 labs :
  run_r5case (RSvmK km 0 p1 p2 dn tbl D alpha rho X y0 out l0 labs) = 0%N ->
  out = guard (Nat.eqb (length X) (length y0))
          (sequence (map (svm_kernel_row m64 (r5_kern km p1 p2 tbl) thr64 (support_vectors m64 thr64 D alpha) alpha rho (fun v => v)) X)).
Proof.
  intros H. cbn [run_r5case] in H. cbv zeta in H. apply lor_zero in H. destruct H as [H _].
  apply (flag_zero _ _ c_r5model_nz) in H. apply (opt_eqb_eq _ vec_eqb_eq) in H. rewrite <- H.
  apply svm_kernel_inplace_rowwise.
Qed.

Lemma cert_r5_label km p1 p2 dn tbl D alpha rho X y0 out l0 labs :
  run_r5case (RSvmK km 1 p1 p2 dn tbl D alpha rho X y0 out l0 labs) = 0%N ->
  labs = guard (Nat.eqb (length X) (length l0))
          (sequence (map (svm_kernel_row m64 (r5_kern km p1 p2 tbl) thr64 (support_vectors m64 thr64 D alpha) alpha rho (post_label m64)) X)).
Proof.
  intros H. cbn [run_r5case] in H. cbv zeta in H. apply lor_zero in H. destruct H as [H _].
  apply (flag_zero _ _ c_r5model_nz) in H. apply (opt_eqb_eq _ bools_eqb_eq) in H. rewrite <- H.
  apply svm_kernel_inplace_rowwise.
Qed.

Lemma cert_r5_gauss_value eps p2 dn tbl D alpha rho X y0 out l0 labs :
  run_r5case (RSvmK 0 0 eps p2 dn tbl D alpha rho X y0 out l0 labs) = 0%N ->
  out = guard (Nat.eqb (length X) (length y0))
          (Some (rowwise (gauss_value m64 (tbl_fn tbl) eps thr64 (support_vectors m64 thr64 D alpha) alpha rho) X)).
Proof.
  intros H. apply cert_r5_value in H. rewrite H. cbn [r5_kern].
  rewrite <- svm_kernel_inplace_rowwise.
  apply (gauss_inplace_rowwise m64 (tbl_fn tbl) eps thr64 _ alpha rho (fun v => v)).
Qed.

Lemma cert_r5_gauss_label eps p2 dn tbl D alpha rho X y0 out l0 labs :
  run_r5case (RSvmK 0 1 eps p2 dn tbl D alpha rho X y0 out l0 labs) = 0%N ->
  labs = guard (Nat.eqb (length X) (length l0))
          (Some (rowwise (fun x => post_label m64 (gauss_value m64 (tbl_fn tbl) eps thr64 (support_vectors m64 thr64 D alpha) alpha rho x)) X)).
Proof.
  intros H. apply cert_r5_label in H. rewrite H. cbn [r5_kern].
  rewrite <- svm_kernel_inplace_rowwise.
  apply gauss_inplace_rowwise.
Qed.
