(** C03 - property theorems, part T2 (statements only; proofs are in C03/MatProofs.v).
    "predict_batch_is_rowwise": the [predict_inplace] bodies that are written with whole-array
    operations (C03/MatModel.v transliterates them statement by statement: shape assertions,
    broadcast arithmetic, [x.dot(..)], [mapv], [Zip] loops, [sum_axis], [map_axis] + arg-max) are,
    in EVERY arithmetic [NumOps F] - the reals, binary64, binary32 -, the map of an explicit
    function of one row over the rows of the batch.  [None] is a panic; [guard c r] is "panic
    unless c".  What stays outside is the order in which one float dot product is summed
    ([dot] : a 1-D ndarray dot, [mdot] : one entry of a matrixmultiply product).
    Every transliteration is run against the Rust implementation on every check, bit for bit and
    including the panics of the shape guards (C03/CorrMat.v); C03/PropertiesCert.v says what a
    passing case certifies. *)
From Coq Require Import List NArith Reals.
From LinfaVerif Require Import Common.Num Common.NdSum C03.Model C03.MatModel C03.MatProofs.
Import ListNotations.

(** The two loop shapes through which the row-loop predictors (k-means, decision tree, SVM) write
    their target: exactly [f] of every row, whatever the target held before; a closure that panics
    on some row aborts the call. *)
Theorem loop_predictors_are_rowwise : forall (Row L : Type) (f : Row -> L) (g : Row -> option L) (X : list Row) (y : list L),
  zip_inplace f X y = guard (Nat.eqb (length X) (length y)) (Some (rowwise f X))
  /\ zip_inplace_opt g X y = guard (Nat.eqb (length X) (length y)) (sequence (map g X)).
Proof. intros; split; [apply zip_inplace_rowwise | apply zip_inplace_opt_rowwise]. Qed.

(** [Ix2.dot(Ix1)] (general_mat_vec_mul_impl writing into an uninitialised vector [c0]) is the map
    of [row.dot(w) * 1] over the rows, and a broadcast operation [A op &v] is the map of the row
    operation. *)
Theorem matvec_is_rowwise : forall (F : Type) (o : NumOps F) (dot : list F -> list F -> F) (A : mat F) (w c0 : list F),
  length c0 = length A -> matvec o dot A w c0 = map (fun r => mul o (dot r w) (one o)) A.
Proof. intros; apply matvec_rowwise; assumption. Qed.

Theorem broadcast_op_is_rowwise : forall (F : Type) (f : F -> F -> F) (A : mat F) (v : list F),
  mat_op_row f A v = map (fun r => map2 f r v) A.
Proof. intros; apply mat_op_row_rowwise. Qed.

(** OLS and elastic net ([*y = x.dot(&w) + b]). *)
Theorem predict_batch_is_rowwise_linear : forall (F : Type) (o : NumOps F) (dot : list F -> list F -> F)
    (p : nat) (w : list F) (b : F) (X : mat F) (y : list F),
  lin_inplace o dot p w b X y =
  guard (Nat.eqb (length X) (length y)) (guard (rect p X && Nat.eqb p (length w)) (Some (rowwise (lin_row o dot w b) X))).
Proof. intros; apply lin_inplace_rowwise. Qed.

(** Tweedie GLM ([link.inverse(x.dot(&coef) + intercept)], any inverse link). *)
Theorem predict_batch_is_rowwise_glm : forall (F : Type) (o : NumOps F) (dot : list F -> list F -> F) (inv : F -> F)
    (p : nat) (w : list F) (b : F) (X : mat F) (y : list F),
  glm_inplace o dot inv p w b X y =
  guard (Nat.eqb (length X) (length y)) (guard (rect p X && Nat.eqb p (length w)) (Some (rowwise (glm_row o dot inv w b) X))).
Proof. intros; apply glm_inplace_rowwise. Qed.

(** Binary logistic regression (probability 1/(1+exp(-(x.w+b))) compared with the threshold). *)
Theorem predict_batch_is_rowwise_logistic : forall (F C : Type) (o : NumOps F) (dot : list F -> list F -> F) (expf : F -> F)
    (p : nat) (w : list F) (b thr : F) (pos neg : C) (X : mat F) (y : list C),
  logit_inplace o dot expf p w b thr pos neg X y =
  guard (Nat.eqb (length X) (length y)) (guard (Nat.eqb p (length w)) (guard (rect p X)
    (Some (rowwise (logit_row o dot expf w b thr pos neg) X)))).
Proof. intros; apply logit_inplace_rowwise. Qed.

(** Multinomial logistic regression (arg-max of [x.dot(&W) + &b]; a NaN score panics). *)
Theorem predict_batch_is_rowwise_multinomial_logistic : forall (F C : Type) (o : NumOps F) (mdot : list F -> list F -> F)
    (p k : nat) (W : mat F) (b : list F) (classes : list C) (dflt : C) (X : mat F) (y : list C),
  mlogit_inplace o mdot p k W b classes dflt X y =
  guard (Nat.eqb (length X) (length y)) (guard (Nat.eqb p (length W)) (guard (rect p X && rect k W && Nat.eqb k (length b))
    (sequence (map (mlogit_row o mdot k W b classes dflt) X)))).
Proof. intros; apply mlogit_inplace_rowwise. Qed.

(** Multi-task elastic net ([*y = x.dot(&W) + &b]). *)
Theorem predict_batch_is_rowwise_multi_task : forall (F T : Type) (o : NumOps F) (mdot : list F -> list F -> F)
    (p k : nat) (W : mat F) (b : list F) (X : mat F) (y : list T),
  mtl_inplace o mdot p k W b X y =
  guard (Nat.eqb (length X) (length y)) (guard (rect p X && Nat.eqb p (length W) && rect k W && Nat.eqb k (length b))
    (Some (rowwise (scores_row o mdot k W b) X))).
Proof. intros; apply mtl_inplace_rowwise. Qed.

(** PCA ([(records - &mean).dot(&embedding.t())]). *)
Theorem predict_batch_is_rowwise_pca : forall (F : Type) (o : NumOps F) (mdot : list F -> list F -> F)
    (p : nat) (mean : list F) (E X Y : mat F),
  pca_inplace o mdot p mean E X Y =
  guard (Nat.eqb (length Y) (length X) && rect (length E) Y) (guard (rect p X && Nat.eqb p (length mean) && rect p E)
    (Some (rowwise (pca_row o mdot mean E) X))).
Proof. intros; apply pca_inplace_rowwise. Qed.

(** PLS ([((x - &x_mean) / &x_std).dot(&coefficients) + &y_mean]). *)
Theorem predict_batch_is_rowwise_pls : forall (F : Type) (o : NumOps F) (mdot : list F -> list F -> F)
    (p k : nat) (xm xs : list F) (Cf : mat F) (ym : list F) (X Y : mat F),
  pls_inplace o mdot p k xm xs Cf ym X Y =
  guard (Nat.eqb (length Y) (length X) && rect k Y)
  (guard (rect p X && Nat.eqb p (length xm) && Nat.eqb p (length xs) && Nat.eqb p (length Cf) && rect k Cf && Nat.eqb k (length ym))
    (Some (rowwise (pls_row o mdot k xm xs Cf ym) X))).
Proof. intros; apply pls_inplace_rowwise. Qed.

(** Naive Bayes (base_nb.rs): the (classes x samples) likelihood array, read column by column, is
    the per-row arg-max over the classes - for the multinomial scores [x.dot(flp) + ln prior] and,
    on a rectangular batch, for the Gaussian scores in both summation layouts of [sum_axis]. *)
Theorem predict_batch_is_rowwise_multinomial_nb : forall (F L : Type) (o : NumOps F) (dot : list F -> list F -> F)
    (dflt : L) (classes : list (L * (F * list F))) (X : mat F) (y : list L),
  nb_inplace o (mnb_jll o dot) dflt classes X y =
  guard (Nat.eqb (length X) (length y)) (sequence (map (nb_row o (mnb_score o dot) dflt classes) X)).
Proof. intros. apply nb_inplace_rowwise. intros c _. apply mnb_jll_rowwise. Qed.

Theorem predict_batch_is_rowwise_gaussian_nb : forall (F L : Type) (o : NumOps F) (lnf : F -> F) (twopi mhalf half : F)
    (lanes : bool) (p : nat) (dflt : L) (classes : list (L * (F * (list F * list F)))) (X : mat F) (y : list L),
  rect p X = true ->
  (forall c, In c classes -> length (fst (snd (snd c))) = p /\ length (snd (snd (snd c))) = p) ->
  nb_inplace o (gnb_jll o lnf twopi mhalf half lanes p) dflt classes X y =
  guard (Nat.eqb (length X) (length y)) (sequence (map (nb_row o (gnb_score o lnf twopi mhalf half lanes) dflt classes) X)).
Proof.
  intros F L o lnf twopi mhalf half lanes p dflt classes X y Hr Hc. apply nb_inplace_rowwise.
  intros c Hin. destruct (Hc c Hin). apply gnb_jll_rowwise; assumption.
Qed.

(** FTRL ([x.dot(&weights)], stable sigmoid, cast to f32, [Pr::new]). *)
Theorem predict_batch_is_rowwise_ftrl : forall (F G : Type) (oF : NumOps F) (oG : NumOps G) (dot : list F -> list F -> F)
    (expf : F -> F) (signneg : F -> bool) (c35 : F) (cast : F -> G) (p : nat) (w : list F) (X : mat F) (y : list G),
  ftrl_inplace oF oG dot expf signneg c35 cast p w X y =
  guard (Nat.eqb (length X) (length y)) (guard (Nat.eqb p (length w)) (guard (rect p X)
    (sequence (map (ftrl_row oF oG dot expf signneg c35 cast w) X)))).
Proof. intros; apply ftrl_inplace_rowwise. Qed.

(** Isotonic regression: element i of the target becomes a function of row i and of what that
    element held before (the loop leaves it untouched when no knot satisfies [knot >= val], which
    needs a NaN); over the reals with at least one knot it is a function of row i alone. *)
Theorem isotonic_is_elementwise : forall (F : Type) (o : NumOps F) (reg resp : list F) (X : mat F) (y : list F),
  iso_inplace o reg resp X y =
  guard (rect 1 X) (guard (Nat.eqb (length X) (length y))
    (Some (map2 (fun row y0 => iso_predict o reg resp y0 (nth 0 row (zero o))) X y))).
Proof. intros; apply iso_inplace_elementwise. Qed.

Theorem isotonic_is_rowwise_over_R : forall (reg resp : list R) (X : mat R) (y : list R),
  reg <> [] -> rect 1 X = true -> length y = length X ->
  iso_inplace R_ops reg resp X y = Some (rowwise (fun row => iso_predict R_ops reg resp 0%R (nth 0 row 0%R)) X).
Proof. intros; apply iso_inplace_R; assumption. Qed.

(** Whatever is row-wise in place (for every target of the right length) is row-wise through all
    four calling forms, which hand back the records unchanged. *)
Theorem rowwise_inplace_all_forms : forall (Row L T0 : Type) (default_target : list Row -> list L)
    (predict_inplace : list Row -> list L -> option (list L)) (f : Row -> L) (X : list Row) (t0 : T0),
  length (default_target X) = length X ->
  (forall y, length y = length X -> predict_inplace X y = Some (rowwise f X)) ->
  predict_ref default_target predict_inplace X = Some (rowwise f X)
  /\ predict_owned default_target predict_inplace X = Some (X, rowwise f X)
  /\ predict_ds_ref default_target predict_inplace (X, t0) = Some (rowwise f X)
  /\ predict_ds default_target predict_inplace (X, t0) = Some (X, rowwise f X).
Proof. intros; apply forms_of_rowwise_inplace; assumption. Qed.

(** Over the reals the unrolled and the sequential summation order are the same dot product: the
    row function of the linear predictors does not depend on the memory layout of the batch, and
    the linear-kernel SVM decision value is [w.x - rho]. *)
Theorem dot_orders_agree_over_R : forall (contig : bool) (w : list R) (b : R) (x : list R),
  linear_predict R_ops contig w b x = (Rdot x w + b)%R
  /\ svm_value R_ops (svm_linear_wsum R_ops w) b x = (Rdot w x - b)%R.
Proof. intros; split; [apply linear_predict_R | apply svm_linear_value_R]. Qed.

(** The arg-max used by multinomial logistic regression and naive Bayes: over the reals it never
    fails on a non-empty lane and returns the first position of the maximum. *)
Theorem argmax_is_first_maximum : forall l : list R, l <> [] ->
  exists k, argmax R_ops l = Some k /\ k < length l
    /\ (forall j, j < length l -> (nth j l 0 <= nth k l 0)%R)
    /\ (forall j, j < k -> (nth j l 0 < nth k l 0)%R).
Proof. intros; apply argmax_R_first_max; assumption. Qed.
