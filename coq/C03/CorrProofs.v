(** C03 - what a passing array-level correspondence case (C03/CorrMat.v, code 0) certifies: the
    target the Rust implementation left behind IS the map of the explicit Gallina row function over
    the rows of the batch (or the call panicked exactly where the shape guards say).  These lemmas
    combine the decidable comparison of CorrMat.v with the T2 lemmas of MatProofs.v. *)
From Coq Require Import List NArith ZArith Bool Floats SpecFloat Lia QArith.
From LinfaVerif Require Import Common.Num Common.NdSum Common.Run Common.B32 Common.QF
  C03.Model C03.MatModel C03.MatProofs C03.CorrMat.
Import ListNotations.

(** * decidable equalities decide equality *)
Lemma sf_eqb_eq a b : sf_eqb a b = true -> a = b.
Proof.
  destruct a as [s|s| |s m e], b as [t|t| |t n f]; simpl; intros H; try discriminate; auto.
  - apply Bool.eqb_prop in H. now subst.
  - apply Bool.eqb_prop in H. now subst.
  - apply andb_true_iff in H as [H H3]. apply andb_true_iff in H as [H1 H2].
    apply Bool.eqb_prop in H1. apply Pos.eqb_eq in H2. apply Z.eqb_eq in H3. now subst.
Qed.
Lemma f64_biteq_eq a b : f64_biteq a b = true -> a = b.
Proof. unfold f64_biteq. intros H. apply sf_eqb_eq in H. now apply Prim2SF_inj. Qed.
Lemma vec_eqb_eq a b : vec_eqb a b = true -> a = b.
Proof. apply list_eqb_eq. exact f64_biteq_eq. Qed.
Lemma mat_eqb_eq a b : mat_eqb a b = true -> a = b.
Proof. apply list_eqb_eq. exact vec_eqb_eq. Qed.
Lemma labels_eqb_eq (a b : list N) : list_eqb N.eqb a b = true -> a = b.
Proof. apply list_eqb_eq. intros x y. apply N.eqb_eq. Qed.
Lemma bools_eqb_eq (a b : list bool) : list_eqb Bool.eqb a b = true -> a = b.
Proof. apply list_eqb_eq. intros x y. apply Bool.eqb_prop. Qed.
Lemma sfs_eqb_eq (a b : list spec_float) : list_eqb sf_eqb a b = true -> a = b.
Proof. apply list_eqb_eq. exact sf_eqb_eq. Qed.
Lemma opt_eqb_eq {A} (eq : A -> A -> bool) : (forall x y, eq x y = true -> x = y) ->
  forall a b, opt_eqb eq a b = true -> a = b.
Proof. intros H [x|] [y|]; simpl; intros E; try discriminate; auto. f_equal. auto. Qed.

Lemma flag_zero b c : c <> 0%N -> flag b c = 0%N -> b = true.
Proof. unfold flag. intros H E. destruct b; [reflexivity|contradiction]. Qed.
Lemma lor_zero a b : N.lor a b = 0%N -> a = 0%N /\ b = 0%N.
Proof. apply N.lor_eq_0_iff. Qed.
Lemma c_model_nz : c_model <> 0%N. Proof. discriminate. Qed.

Ltac model_eq H :=
  try (apply lor_zero in H; destruct H as [H _]);
  apply (flag_zero _ _ c_model_nz) in H.

(** * the families *)
Lemma cert_lin contig p w b exps X y0 out :
  run_mcase (MLin 0 contig p w b exps X y0 out) = 0%N ->
  out = guard (Nat.eqb (length X) (length y0)) (guard (rect (N.to_nat p) X && Nat.eqb (N.to_nat p) (length w))
          (Some (rowwise (lin_row m64 (dot1 contig) w b) X))).
Proof.
  intros H. cbn [run_mcase] in H. model_eq H.
  apply (opt_eqb_eq _ vec_eqb_eq) in H. rewrite <- H. apply lin_inplace_rowwise.
Qed.

Lemma cert_glm link contig p w b exps X y0 out : link <> 0%N ->
  run_mcase (MLin link contig p w b exps X y0 out) = 0%N ->
  out = guard (Nat.eqb (length X) (length y0)) (guard (rect (N.to_nat p) X && Nat.eqb (N.to_nat p) (length w))
          (Some (rowwise (glm_row m64 (dot1 contig) (glm_inv link (tbl_fn exps)) w b) X))).
Proof.
  intros Hl H. cbn [run_mcase] in H. destruct link as [|q]; [contradiction|].
  model_eq H. apply (opt_eqb_eq _ vec_eqb_eq) in H. rewrite <- H. apply glm_inplace_rowwise.
Qed.

Lemma cert_lin32 contig p w b X y0 out :
  run_mcase (MLin32 contig p w b X y0 out) = 0%N ->
  option_map bits32 out =
  guard (Nat.eqb (length X) (length y0)) (guard (rect (N.to_nat p) (map bits32 X) && Nat.eqb (N.to_nat p) (length w))
    (Some (rowwise (lin_row m32 (dot32 contig) (bits32 w) (b32_of_bits b)) (map bits32 X)))).
Proof.
  intros H. cbn [run_mcase] in H. model_eq H.
  apply (opt_eqb_eq _ sfs_eqb_eq) in H. rewrite <- H. rewrite lin_inplace_rowwise.
  unfold bits32. rewrite !map_length. reflexivity.
Qed.

Lemma cert_logit contig p w b thr exps pos neg X y0 out :
  run_mcase (MLogit contig p w b thr exps pos neg X y0 out) = 0%N ->
  out = guard (Nat.eqb (length X) (length y0)) (guard (Nat.eqb (N.to_nat p) (length w)) (guard (rect (N.to_nat p) X)
          (Some (rowwise (logit_row m64 (dot1 contig) (tbl_fn exps) w b thr pos neg) X)))).
Proof.
  intros H. cbn [run_mcase] in H. model_eq H.
  apply (opt_eqb_eq _ labels_eqb_eq) in H. rewrite <- H. apply logit_inplace_rowwise.
Qed.

Lemma cert_mlogit p k W b classes P X y0 out :
  run_mcase (MMlogit p k W b classes P X y0 out) = 0%N ->
  out = guard (Nat.eqb (length X) (length y0)) (guard (Nat.eqb (N.to_nat p) (length W))
          (guard (rect (N.to_nat p) X && rect (N.to_nat k) W && Nat.eqb (N.to_nat k) (length b))
            (sequence (map (mlogit_row m64 (tbl_mdot X (columns m64 (N.to_nat k) W) P) (N.to_nat k) W b classes 0%N) X)))).
Proof.
  intros H. cbn [run_mcase] in H. cbv zeta in H. model_eq H.
  apply (opt_eqb_eq _ labels_eqb_eq) in H. rewrite <- H. apply mlogit_inplace_rowwise.
Qed.

Lemma cert_mtl p k W b P X ny out :
  run_mcase (MMtl p k W b P X ny out) = 0%N ->
  out = guard (Nat.eqb (length X) (N.to_nat ny))
          (guard (rect (N.to_nat p) X && Nat.eqb (N.to_nat p) (length W) && rect (N.to_nat k) W && Nat.eqb (N.to_nat k) (length b))
            (Some (rowwise (scores_row m64 (tbl_mdot X (columns m64 (N.to_nat k) W) P) (N.to_nat k) W b) X))).
Proof.
  intros H. cbn [run_mcase] in H. cbv zeta in H. model_eq H.
  apply (opt_eqb_eq _ mat_eqb_eq) in H. rewrite <- H. rewrite mtl_inplace_rowwise, repeat_length. reflexivity.
Qed.

Lemma cert_pca p mean E P X Y0 out :
  run_mcase (MPca p mean E P X Y0 out) = 0%N ->
  out = guard (Nat.eqb (length Y0) (length X) && rect (length E) Y0)
          (guard (rect (N.to_nat p) X && Nat.eqb (N.to_nat p) (length mean) && rect (N.to_nat p) E)
            (Some (rowwise (pca_row m64 (tbl_mdot (mat_op_row PrimFloat.sub X mean) E P) mean E) X))).
Proof.
  intros H. cbn [run_mcase] in H. cbv zeta in H. model_eq H.
  apply (opt_eqb_eq _ mat_eqb_eq) in H. rewrite <- H. apply pca_inplace_rowwise.
Qed.

Lemma cert_pls p k xm xs Cf ym P X Y0 out :
  run_mcase (MPls p k xm xs Cf ym P X Y0 out) = 0%N ->
  out = guard (Nat.eqb (length Y0) (length X) && rect (N.to_nat k) Y0)
          (guard (rect (N.to_nat p) X && Nat.eqb (N.to_nat p) (length xm) && Nat.eqb (N.to_nat p) (length xs)
                  && Nat.eqb (N.to_nat p) (length Cf) && rect (N.to_nat k) Cf && Nat.eqb (N.to_nat k) (length ym))
            (Some (rowwise (pls_row m64 (tbl_mdot (mat_op_row PrimFloat.div (mat_op_row PrimFloat.sub X xm) xs)
                                                  (columns m64 (N.to_nat k) Cf) P) (N.to_nat k) xm xs Cf ym) X))).
Proof.
  intros H. cbn [run_mcase] in H. cbv zeta in H. model_eq H.
  apply (opt_eqb_eq _ mat_eqb_eq) in H. rewrite <- H. apply pls_inplace_rowwise.
Qed.

Definition nb_classes {D} (classes : list (N * (float * (float * D)))) : list (N * (float * D)) :=
  map (fun c => (fst c, (fst (snd (snd c)), snd (snd (snd c))))) classes.

Lemma cert_mnb contig classes X y0 out :
  run_mcase (MMnb contig classes X y0 out) = 0%N ->
  out = guard (Nat.eqb (length X) (length y0))
          (sequence (map (nb_row m64 (mnb_score m64 (dot1 contig)) 0%N (nb_classes classes)) X)).
Proof.
  intros H. cbn [run_mcase] in H. cbv zeta in H. model_eq H.
  apply (opt_eqb_eq _ labels_eqb_eq) in H. rewrite <- H.
  apply nb_inplace_rowwise. intros c _. apply mnb_jll_rowwise.
Qed.

Lemma cert_gnb lanes p classes lns X y0 out :
  rect (N.to_nat p) X = true ->
  (forall c, In c classes -> length (fst (snd (snd (snd c)))) = N.to_nat p /\ length (snd (snd (snd (snd c)))) = N.to_nat p) ->
  run_mcase (MGnb lanes p classes lns X y0 out) = 0%N ->
  out = guard (Nat.eqb (length X) (length y0))
          (sequence (map (nb_row m64 (gnb_score m64 (tbl_fn lns) twopi64 (-0.5)%float 0.5%float lanes) 0%N (nb_classes classes)) X)).
Proof.
  intros Hr Hc H. cbn [run_mcase] in H. cbv zeta in H. model_eq H.
  apply (opt_eqb_eq _ labels_eqb_eq) in H. rewrite <- H.
  apply nb_inplace_rowwise. intros c Hin. unfold nb_classes in Hin.
  apply in_map_iff in Hin as [c0 [<- Hin0]]. destruct (Hc c0 Hin0) as [H1 H2].
  apply gnb_jll_rowwise; assumption.
Qed.

Lemma cert_ftrl contig p w exps X y0 out :
  run_mcase (MFtrl contig p w exps X y0 out) = 0%N ->
  option_map (map b32_of_bits) out =
  guard (Nat.eqb (length X) (length y0)) (guard (Nat.eqb (N.to_nat p) (length w)) (guard (rect (N.to_nat p) X)
    (sequence (map (ftrl_row m64 m32 (dot1 contig) (tbl_fn exps) signneg64 35%float cast32 w) X)))).
Proof.
  intros H. cbn [run_mcase] in H. cbv zeta in H. model_eq H.
  apply (opt_eqb_eq _ sfs_eqb_eq) in H. rewrite <- H. rewrite ftrl_inplace_rowwise, map_length. reflexivity.
Qed.

Lemma cert_svm_value w rho X y0 out l0 labs :
  run_mcase (MSvm 0 w rho X y0 out l0 labs) = 0%N ->
  out = guard (Nat.eqb (length X) (length y0)) (Some (rowwise (svm_value m64 (svm_linear_wsum m64 w) rho) X)).
Proof.
  intros H. cbn [run_mcase] in H. model_eq H.
  apply (opt_eqb_eq _ vec_eqb_eq) in H. rewrite <- H. apply zip_inplace_rowwise.
Qed.
Lemma cert_svm_label kind w rho X y0 out l0 labs : kind <> 0%N ->
  run_mcase (MSvm kind w rho X y0 out l0 labs) = 0%N ->
  labs = guard (Nat.eqb (length X) (length l0)) (Some (rowwise (svm_label m64 (svm_linear_wsum m64 w) rho) X)).
Proof.
  intros Hk H. cbn [run_mcase] in H. destruct kind as [|q]; [contradiction|]. model_eq H.
  apply (opt_eqb_eq _ bools_eqb_eq) in H. rewrite <- H. apply zip_inplace_rowwise.
Qed.
Lemma cert_kmeans cs X y0 out :
  run_mcase (MKm cs X y0 out) = 0%N ->
  out = guard (Nat.eqb (length X) (length y0)) (Some (rowwise (fun x => N.of_nat (km_predict m64 cs x)) X)).
Proof.
  intros H. cbn [run_mcase] in H. model_eq H.
  apply (opt_eqb_eq _ labels_eqb_eq) in H. rewrite <- H. apply zip_inplace_rowwise.
Qed.
Lemma cert_tree t X y0 out :
  run_mcase (MTree t X y0 out) = 0%N ->
  out = guard (Nat.eqb (length X) (length y0)) (Some (rowwise (tree_predict m64 t) X)).
Proof.
  intros H. cbn [run_mcase] in H. model_eq H.
  apply (opt_eqb_eq _ labels_eqb_eq) in H. rewrite <- H. apply zip_inplace_rowwise.
Qed.
Lemma cert_iso reg resp X y0 out :
  run_mcase (MIso reg resp X y0 out) = 0%N ->
  out = guard (rect 1 X) (guard (Nat.eqb (length X) (length y0))
          (Some (map2 (fun row v0 => iso_predict m64 reg resp v0 (nth 0 row 0%float)) X y0))).
Proof.
  intros H. cbn [run_mcase] in H. model_eq H.
  apply (opt_eqb_eq _ vec_eqb_eq) in H. rewrite <- H. apply iso_inplace_elementwise.
Qed.

(** non-vacuity: a passing case exists (a 2 x 2 batch through x.dot(w) + b) *)
Example ex_cert_lin :
  run_mcase (MLin 0 true 2 [1; 2]%float 0.5%float [] [[1; 1]; [0; 3]]%float [9; 9]%float (Some [3.5; 6.5]%float)) = 0%N.
Proof. vm_compute. reflexivity. Qed.

(** * the product-table check (code 2048) means what it says *)
Lemma in_combine_map_l {A A' B} (g : A -> A') : forall (l : list A) (r : list B) a b,
  In (a, b) (combine l r) -> In (g a, b) (combine (map g l) r).
Proof.
  induction l as [|x l IH]; intros [|y r] a b H; simpl in *; try contradiction.
  destruct H as [H|H]; [left; inversion H; reflexivity | right; auto].
Qed.

Lemma prod_ok_sound A Bc P : prod_ok A Bc P = true ->
  length P = length A /\
  forall a prow, In (a, prow) (combine A P) ->
    length prow = length Bc /\
    forall c v, In (c, v) (combine Bc prow) ->
      f64_finite v = true /\
      (qabs (f64_Q v - Qdot (map f64_Q a) (map f64_Q c))
       <= gam (length a) * Qdot (map qabs (map f64_Q a)) (map qabs (map f64_Q c)) + tiny)%Q.
Proof.
  unfold prod_ok. cbv zeta. intros H.
  apply andb_true_iff in H as [H H3]. apply andb_true_iff in H as [_ H2].
  apply Nat.eqb_eq in H2. split; [exact H2|].
  intros a prow Hin. rewrite forallb_forall in H3.
  specialize (H3 (map f64_Q a, prow) (in_combine_map_l (map f64_Q) A P a prow Hin)). cbv beta iota in H3.
  apply andb_true_iff in H3 as [L H4]. apply Nat.eqb_eq in L. rewrite map_length in L. split; [exact L|].
  intros c v Hc. rewrite forallb_forall in H4.
  specialize (H4 (map f64_Q c, v) (in_combine_map_l (map f64_Q) Bc prow c v Hc)). cbv beta iota in H4.
  unfold entry_ok in H4. apply andb_true_iff in H4 as [F Q]. split; [exact F|].
  apply Qle_bool_iff in Q. rewrite map_length in Q. exact Q.
Qed.

(** non-vacuity of the table-based cases: a passing multi-task case whose product table passes its own check *)
Example ex_cert_mtl :
  run_mcase (MMtl 2 2 [[1; 0]; [0; 1]]%float [0.5; 1]%float [[1; 2]; [3; 4]]%float [[1; 2]; [3; 4]]%float 2
                  (Some [[1.5; 3]; [3.5; 5]]%float)) = 0%N
  /\ prod_ok [[1; 2]; [3; 4]]%float (columns m64 2 [[1; 0]; [0; 1]]%float) [[1; 2]; [3; 4]]%float = true.
Proof. split; vm_compute; reflexivity. Qed.
(* a panic is a passing case exactly when a guard fails: target too long *)
Example ex_cert_panic :
  run_mcase (MLin 0 true 2 [1; 2]%float 0.5%float [] [[1; 1]]%float [9; 9]%float None) = 0%N
  /\ run_mcase (MLin 0 true 2 [1; 2]%float 0.5%float [] [[1; 1]]%float [9]%float None) = 1024%N.
Proof. split; vm_compute; reflexivity. Qed.
