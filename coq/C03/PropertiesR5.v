(** C03, round 5 - prediction of a support vector machine with a non-linear kernel is a per-sample
    function.  The objects are the statement-by-statement transliterations of C03/ModelR5.v
    ([Svm::weighted_sum] over the stored support vectors with [KernelMethod::distance], the
    decision value minus rho, and the row loop of [predict_inplace] in classification.rs /
    regression.rs), which C03/CorrR5.v runs against the Rust code bit for bit.  Every theorem
    holds in every arithmetic ([NumOps]) and for every [exp] / [powf] function unless it says
    "over the reals".  [None] is a panic.  Proofs are in C03/ProofsR5.v. *)
From Coq Require Import List NArith ZArith Bool Reals.
From LinfaVerif Require Import Common.Num Common.NdSum C03.Model C03.MatModel C03.ModelR5 C03.CorrMat C03.CorrR5 C03.MatProofs C03.ProofsR5.
Import ListNotations.

(** For every kernel function (Gaussian, polynomial, linear, or any other, panicking or not), every
    post-processing of the decision value (identity: regression; [>= 0]: classification and
    one-class; [platt_predict]: probabilities) and every pre-filled target: the call panics on a
    target of the wrong length, otherwise the target becomes the row function of every row, and a
    row on which the kernel panics aborts the call. *)
Theorem svm_kernel_predict_is_rowwise : forall (F L : Type) (o : NumOps F)
    (kern : list F -> list F -> option F) (thr : F) (svs : list (list F)) (alpha : list F) (rho : F)
    (post : F -> L) (X : list (list F)) (y : list L),
  svm_kernel_inplace o kern thr svs alpha rho post X y =
  guard (Nat.eqb (length X) (length y)) (sequence (map (svm_kernel_row o kern thr svs alpha rho post) X)).
Proof. intros; apply svm_kernel_inplace_rowwise. Qed.

(** Row order, duplication, sub-batches, a row alone: predicting any selection of the rows of a
    batch that was predicted without panic gives the same selection of its predictions, whatever
    the two targets held before. *)
Theorem svm_kernel_predict_commutes_with_selection : forall (F L : Type) (o : NumOps F)
    (kern : list F -> list F -> option F) (thr : F) (svs : list (list F)) (alpha : list F) (rho : F)
    (post : F -> L) (X : list (list F)) (y out : list L) (d : list F) (dl : L) (idx : list nat) (y' : list L),
  svm_kernel_inplace o kern thr svs alpha rho post X y = Some out ->
  (forall i, In i idx -> i < length X) -> length y' = length idx ->
  svm_kernel_inplace o kern thr svs alpha rho post (select d idx X) y' = Some (select dl idx out).
Proof. intros; eapply svm_kernel_inplace_select; eassumption. Qed.

(** Batch composition: the prediction of two batches stacked is the predictions stacked, and it
    panics exactly when one of the parts does. *)
Theorem svm_kernel_predict_batch_composition : forall (F L : Type) (o : NumOps F)
    (kern : list F -> list F -> option F) (thr : F) (svs : list (list F)) (alpha : list F) (rho : F)
    (post : F -> L) (X1 X2 : list (list F)) (y1 y2 : list L),
  length y1 = length X1 -> length y2 = length X2 ->
  svm_kernel_inplace o kern thr svs alpha rho post (X1 ++ X2) (y1 ++ y2) =
  match svm_kernel_inplace o kern thr svs alpha rho post X1 y1,
        svm_kernel_inplace o kern thr svs alpha rho post X2 y2 with
  | Some a, Some b => Some (a ++ b)
  | _, _ => None
  end.
Proof. intros; apply svm_kernel_inplace_app; assumption. Qed.

(** Gaussian kernel: the iterator zip never panics, so for EVERY batch (any column count) the
    prediction is the map of a total, explicit row function:
    post (sum_i exp(-(|s_i - x|^2) / eps) * alpha_i - rho), summed in iteration order from -0. *)
Theorem svm_gaussian_predict_is_rowwise : forall (F L : Type) (o : NumOps F) (expf : F -> F) (eps thr : F)
    (svs : list (list F)) (alpha : list F) (rho : F) (post : F -> L) (X : list (list F)) (y : list L),
  svm_kernel_inplace o (kern_gaussian o expf eps) thr svs alpha rho post X y =
  guard (Nat.eqb (length X) (length y))
        (Some (rowwise (fun x => post (gauss_value o expf eps thr svs alpha rho x)) X)).
Proof. intros; apply gauss_inplace_rowwise. Qed.

(** Polynomial kernel: on a batch whose rows are as long as the support vectors nothing panics and
    the prediction is the map of post (sum_i powf(s_i . x + c, d) * alpha_i - rho). *)
Theorem svm_polynomial_predict_is_rowwise : forall (F L : Type) (o : NumOps F) (powf : F -> F -> F) (c d thr : F)
    (svs : list (list F)) (alpha : list F) (rho : F) (post : F -> L) (p : nat) (X : list (list F)) (y : list L),
  (forall s, In s svs -> length s = p) -> rect p X = true ->
  svm_kernel_inplace o (kern_polynomial o powf c d) thr svs alpha rho post X y =
  guard (Nat.eqb (length X) (length y))
        (Some (rowwise (fun x => post (poly_value o powf c d thr svs alpha rho x)) X)).
Proof. intros; eapply poly_inplace_rowwise; eassumption. Qed.

(** The fit stores the training rows whose |alpha| exceeds 100 epsilon and [weighted_sum] zips
    them with the alphas filtered AGAIN by the same test: every stored vector meets its own weight
    (for any training set and alpha vector, even of different lengths). *)
Theorem svm_support_vectors_meet_their_weights : forall (F : Type) (o : NumOps F) (thr : F)
    (D : list (list F)) (alpha : list F),
  combine (support_vectors o thr D alpha) (filter (alpha_big o thr) alpha) =
  filter (fun da => alpha_big o thr (snd da)) (combine D alpha).
Proof. intros; apply support_vectors_aligned. Qed.

(** Over the reals (exp the real exponential, Iterator::sum the real sum): the Gaussian-kernel
    classifier labels a sample true exactly when sum_i exp(-|s_i - x|^2 / eps) alpha_i >= rho. *)
Theorem svm_gaussian_label_over_R : forall (eps thr : R) (svs : list (list R)) (alpha : list R) (rho : R) (x : list R),
  svm_kernel_row R_ops (kern_gaussian R_ops exp eps) thr svs alpha rho (post_label R_ops) x = Some true
  <-> (rho <= fold_right Rplus 0
              (map (fun sa => exp (- sqdist R_ops (fst sa) x / eps) * snd sa)
                   (combine svs (filter (alpha_big R_ops thr) alpha))))%R.
Proof. intros; apply gauss_label_R. Qed.

(** Over the reals the polynomial-kernel decision value is sum_i powf(s_i . x + c, d) alpha_i - rho
    with the exact dot product: the eight-lane summation order of [.sum()] does not matter. *)
Theorem svm_polynomial_value_over_R : forall (powf : R -> R -> R) (c d thr : R) (svs : list (list R)) (alpha : list R)
    (rho : R) (x : list R),
  poly_value R_ops powf c d thr svs alpha rho x =
  (fold_right Rplus 0 (map (fun sa => powf (MatProofs.Rdot (fst sa) x + c) d * snd sa)
                           (combine svs (filter (alpha_big R_ops thr) alpha))) - rho)%R.
Proof. intros; apply poly_value_R. Qed.

(** What a passing correspondence case of C03/CorrR5.v certifies (code 0; the proofs do not use the
    interval computations): the target the Rust implementation left behind - or its panic - IS the
    guarded map of the Gallina row function over the rows of the batch, with the support vectors
    re-selected from the training rows; for the Gaussian kernel that is the total closed form. *)
Theorem passing_case_certifies_rowwise_svm_kernel_value : forall km p1 p2 dn tbl D alpha rho X y0 out l0 labs,
  run_r5case (RSvmK km 0 p1 p2 dn tbl D alpha rho X y0 out l0 labs) = 0%N ->
  out = guard (Nat.eqb (length X) (length y0))
          (sequence (map (svm_kernel_row m64 (r5_kern km p1 p2 tbl) thr64 (support_vectors m64 thr64 D alpha) alpha rho (fun v => v)) X)).
Proof. intros; eapply cert_r5_value; eassumption. Qed.

Theorem passing_case_certifies_rowwise_svm_kernel_label : forall km p1 p2 dn tbl D alpha rho X y0 out l0 labs,
  run_r5case (RSvmK km 1 p1 p2 dn tbl D alpha rho X y0 out l0 labs) = 0%N ->
  labs = guard (Nat.eqb (length X) (length l0))
          (sequence (map (svm_kernel_row m64 (r5_kern km p1 p2 tbl) thr64 (support_vectors m64 thr64 D alpha) alpha rho (post_label m64)) X)).
Proof. intros; eapply cert_r5_label; eassumption. Qed.

Theorem passing_case_certifies_rowwise_svm_gaussian : forall eps p2 dn tbl D alpha rho X y0 out l0 labs,
  (run_r5case (RSvmK 0 0 eps p2 dn tbl D alpha rho X y0 out l0 labs) = 0%N ->
   out = guard (Nat.eqb (length X) (length y0))
          (Some (rowwise (gauss_value m64 (tbl_fn tbl) eps thr64 (support_vectors m64 thr64 D alpha) alpha rho) X)))
  /\ (run_r5case (RSvmK 0 1 eps p2 dn tbl D alpha rho X y0 out l0 labs) = 0%N ->
   labs = guard (Nat.eqb (length X) (length l0))
          (Some (rowwise (fun x => post_label m64 (gauss_value m64 (tbl_fn tbl) eps thr64 (support_vectors m64 thr64 D alpha) alpha rho x)) X))).
Proof. intros; split; [eapply cert_r5_gauss_value | eapply cert_r5_gauss_label]. Qed.
