(** C20 - lemmas: the fitted count vectoriser, seen as a word -> column-content map, does not depend
    on any of the hash-container enumerations of `fit` (C20/VocabModel.v).  Built on the lemmas of
    C17/Proofs.v about the same transliterated mechanisms (bump, filter_vocab, sort_key, reindex,
    analyze). *)
From Coq Require Import List NArith ZArith Bool String Arith Lia Permutation Sorted SpecFloat.
From LinfaVerif Require Import Common.Num C17.Model C17.Proofs C20.VocabModel.
Import ListNotations.
Local Open Scope string_scope.

(** * 0. list toolkit *)
Lemma map_combine_seq {A B} (f : nat * A -> B) (g : A -> B) : forall (l : list A) (a : nat),
  (forall j w, nth_error l j = Some w -> f ((a + j)%nat, w) = g w) ->
  map f (combine (seq a (List.length l)) l) = map g l.
Proof.
  induction l as [|x l IH]; intros a H; simpl; auto. f_equal.
  - specialize (H 0%nat x eq_refl). rewrite Nat.add_0_r in H. exact H.
  - apply IH. intros j w Hj. specialize (H (S j) w Hj). rewrite Nat.add_succ_r in H. exact H.
Qed.

Lemma Permutation_filter {A} (p : A -> bool) (l l' : list A) :
  Permutation l l' -> Permutation (filter p l) (filter p l').
Proof.
  induction 1 as [|x l l' _ IH|x y l|l l' l'' _ IH1 _ IH2]; simpl; auto.
  - destruct (p x); auto.
  - destruct (p x), (p y); auto. apply perm_swap.
  - eapply perm_trans; eauto.
Qed.

Lemma filter_all {A} (l : list A) : filter (fun _ => true) l = l.
Proof. induction l as [|a l IH]; simpl; congruence. Qed.

Lemma mem_perm w l l' : Permutation l l' -> mem w l = mem w l'.
Proof.
  intros P. destruct (mem w l') eqn:E.
  - apply mem_In. apply mem_In in E. exact (Permutation_in w (Permutation_sym P) E).
  - apply mem_false. apply mem_false in E. intros H. apply E. exact (Permutation_in w P H).
Qed.

(* two sorted lists with the same elements are equal when the order is antisymmetric on them *)
Lemma sorted_perm_eq {A} (le : A -> A -> Prop) : forall l1 l2 : list A,
  (forall a b, In a l1 -> In b l1 -> le a b -> le b a -> a = b) ->
  StronglySorted le l1 -> StronglySorted le l2 -> Permutation l1 l2 -> l1 = l2.
Proof.
  induction l1 as [|a t1 IH]; intros l2 AS S1 S2 P.
  - apply Permutation_nil in P; auto.
  - destruct l2 as [|b t2]; [apply Permutation_sym, Permutation_nil in P; discriminate|].
    inversion S1 as [|? ? S1' H1]; inversion S2 as [|? ? S2' H2]; subst.
    assert (E : a = b).
    { assert (Ha : In a (b :: t2)) by (apply (Permutation_in a P); left; auto).
      assert (Hb : In b (a :: t1)) by (apply (Permutation_in b (Permutation_sym P)); left; auto).
      destruct Ha as [Ha|Ha]; [auto|]. destruct Hb as [Hb|Hb]; [auto|].
      rewrite Forall_forall in H1, H2.
      apply AS; [left; auto | right; auto | apply H1; auto | apply H2; auto]. }
    subst b. f_equal. apply IH; auto.
    + intros x y Hx Hy. apply AS; right; auto.
    + apply Permutation_cons_inv with (a := a); auto.
Qed.

(** * 1. hashmap_to_vocabulary + transform: the word -> column map of an enumeration *)

(* column j of the dense matrix is the occurrence count of vocabulary()[j], whatever the enumeration *)
Lemma word_columns_reindex nmin nmax (enum : vmap) docs : NoDup (keys enum) ->
  word_columns nmin nmax (reindex enum) docs = map (fun w => (w, ref_column nmin nmax docs w)) (keys enum).
Proof.
  intros HN. unfold word_columns.
  set (m := fst (reindex enum)). set (vec := snd (reindex enum)).
  assert (Hv : vec = keys enum) by apply reindex_from_vec.
  assert (Hk : keys m = keys enum) by apply reindex_from_keys.
  assert (Hw : well_indexed m) by (apply reindex_well_indexed; exact HN).
  assert (Hl : List.length m = List.length vec).
  { rewrite Hv, <- Hk. unfold keys. rewrite map_length. reflexivity. }
  rewrite <- Hv. apply map_combine_seq. intros j w Hj. simpl. f_equal.
  unfold dense_column, dense_rows, ref_column. rewrite map_map. apply map_ext. intros d.
  assert (Hlt : (j < List.length m)%nat) by (rewrite Hl; apply nth_error_Some; congruence).
  rewrite (analyze_entry nmin nmax m d j Hw Hlt). f_equal.
  rewrite Hk, <- Hv. apply nth_error_nth. exact Hj.
Qed.

Lemma col_of_map {V} (g : string -> V) ks w :
  col_of w (map (fun k => (k, g k)) ks) = if mem w ks then Some (g w) else None.
Proof.
  induction ks as [|k r IH]; simpl; auto.
  rewrite (String.eqb_sym w k). destruct (String.eqb_spec k w) as [->|N]; simpl; auto.
Qed.

Lemma word_columns_enum_invariant nmin nmax (e1 e2 : vmap) docs :
  NoDup (keys e1) -> Permutation (keys e1) (keys e2) ->
  NoDup (map fst (word_columns nmin nmax (reindex e1) docs)) /\
  Permutation (word_columns nmin nmax (reindex e1) docs) (word_columns nmin nmax (reindex e2) docs) /\
  (forall w, col_of w (word_columns nmin nmax (reindex e1) docs) = col_of w (word_columns nmin nmax (reindex e2) docs)) /\
  (forall w c, col_of w (word_columns nmin nmax (reindex e1) docs) = Some c -> c = ref_column nmin nmax docs w).
Proof.
  intros HN HP.
  assert (HN2 : NoDup (keys e2)) by (eapply Permutation_NoDup; eauto).
  rewrite (word_columns_reindex nmin nmax e1 docs HN), (word_columns_reindex nmin nmax e2 docs HN2).
  repeat split.
  - rewrite map_map. simpl. rewrite map_id. exact HN.
  - apply Permutation_map. exact HP.
  - intros w. rewrite !col_of_map. rewrite (mem_perm w _ _ HP). reflexivity.
  - intros w c. rewrite col_of_map. destruct (mem w (keys e1)); congruence.
Qed.

(** ** the same for the tf-idf matrix *)
Lemma nth_error_ext {A} : forall l1 l2 : list A, (forall i, nth_error l1 i = nth_error l2 i) -> l1 = l2.
Proof.
  induction l1 as [|a l1 IH]; intros [|b l2] H; auto.
  - specialize (H 0%nat); discriminate.
  - specialize (H 0%nat); discriminate.
  - f_equal; [specialize (H 0%nat); simpl in H; congruence|].
    apply IH; intros i; exact (H (S i)).
Qed.

Section TfIdfColumnsProofs.
Context {F : Type} (o : NumOps F) (lnf : F -> F).

Lemma sp_get_In j (l : list (nat * F)) v : NoDup (map fst l) -> In (j, v) l -> sp_get j l = Some v.
Proof.
  induction l as [|[i u] l IH]; simpl; [contradiction|]. intros HN [H|H].
  - inversion H; subst. rewrite Nat.eqb_refl. reflexivity.
  - inversion HN as [|? ? Hi HN']; subst. destruct (Nat.eqb_spec i j) as [->|N]; [|auto].
    exfalso. apply Hi. apply (in_map fst) in H. exact H.
Qed.

Lemma sp_get_None j (l : list (nat * F)) : ~ In j (map fst l) -> sp_get j l = None.
Proof.
  induction l as [|[i u] l IH]; simpl; auto. intros H.
  destruct (Nat.eqb_spec i j) as [->|N]; [exfalso; apply H; auto | apply IH; tauto].
Qed.

Lemma sp_get_sparsify (h : nat * nat -> F) j row :
  sp_get j (map (fun p => (fst p, h p)) (sparsify row))
  = if (0 <? nth j row 0)%nat then Some (h (j, nth j row 0%nat)) else None.
Proof.
  destruct (Nat.ltb_spec 0 (nth j row 0%nat)) as [L|L].
  - apply sp_get_In.
    + rewrite map_map. simpl. apply sparsify_NoDup.
    + apply in_map_iff. exists (j, nth j row 0%nat). split; auto.
      apply sparsify_In. split; auto. apply nth_error_nth'.
      destruct (Nat.ltb_spec j (List.length row)); auto. rewrite nth_overflow in L by lia. lia.
  - apply sp_get_None. rewrite map_map. simpl. intros H.
    apply in_map_iff in H. destruct H as [[j' c] [E H]]. simpl in E. subst j'.
    apply sparsify_In in H. destruct H as [H1 H2]. apply (nth_error_nth _ _ 0%nat) in H1. lia.
Qed.

Lemma tfidf_rows_length mt nmin nmax m docs :
  List.length (tfidf_rows o lnf mt nmin nmax m docs) = List.length docs.
Proof. unfold tfidf_rows, apply_tfidf, count_rows. rewrite !map_length. reflexivity. Qed.

Lemma tfidf_word_columns_reindex mt nmin nmax (enum : vmap) docs : NoDup (keys enum) ->
  tfidf_word_columns o lnf mt nmin nmax (reindex enum) docs
  = map (fun w => (w, ref_tfidf_column o lnf mt nmin nmax docs w)) (keys enum).
Proof.
  intros HN. unfold tfidf_word_columns.
  set (m := fst (reindex enum)). set (vec := snd (reindex enum)).
  assert (Hv : vec = keys enum) by apply reindex_from_vec.
  assert (Hk : keys m = keys enum) by apply reindex_from_keys.
  assert (Hw : well_indexed m) by (apply reindex_well_indexed; exact HN).
  assert (Hl : List.length m = List.length vec).
  { rewrite Hv, <- Hk. unfold keys. rewrite map_length. reflexivity. }
  rewrite <- Hv. apply map_combine_seq. intros j w Hj. simpl. f_equal.
  assert (Hlt : (j < List.length m)%nat) by (rewrite Hl; apply nth_error_Some; congruence).
  assert (Hnw : nth j (keys m) "" = w) by (rewrite Hk, <- Hv; apply nth_error_nth; exact Hj).
  apply nth_error_ext. intros d. unfold ref_tfidf_column. rewrite !nth_error_map.
  destruct (nth_error docs d) as [toks|] eqn:Ed.
  - rewrite (tfidf_rows_entry o lnf mt nmin nmax m docs d toks Hw Ed). simpl. f_equal.
    rewrite (sp_get_sparsify
               (fun p => mul o (ofn o (snd p))
                             (idf o lnf mt (List.length docs)
                                  (df_ref (nth (fst p) (keys m) "") (map (ngrams nmin nmax) docs))))).
    rewrite (analyze_entry nmin nmax m toks j Hw Hlt). simpl. rewrite Hnw. reflexivity.
  - assert (E : nth_error (tfidf_rows o lnf mt nmin nmax m docs) d = None).
    { apply nth_error_None. rewrite tfidf_rows_length. apply nth_error_None. exact Ed. }
    rewrite E. reflexivity.
Qed.

Lemma tfidf_word_columns_enum_invariant mt nmin nmax (e1 e2 : vmap) docs :
  NoDup (keys e1) -> Permutation (keys e1) (keys e2) ->
  Permutation (tfidf_word_columns o lnf mt nmin nmax (reindex e1) docs)
              (tfidf_word_columns o lnf mt nmin nmax (reindex e2) docs) /\
  (forall w, col_of w (tfidf_word_columns o lnf mt nmin nmax (reindex e1) docs)
             = col_of w (tfidf_word_columns o lnf mt nmin nmax (reindex e2) docs)) /\
  (forall w c, col_of w (tfidf_word_columns o lnf mt nmin nmax (reindex e1) docs) = Some c ->
               c = ref_tfidf_column o lnf mt nmin nmax docs w).
Proof.
  intros HN HP.
  assert (HN2 : NoDup (keys e2)) by (eapply Permutation_NoDup; eauto).
  rewrite (tfidf_word_columns_reindex mt nmin nmax e1 docs HN), (tfidf_word_columns_reindex mt nmin nmax e2 docs HN2).
  repeat split.
  - apply Permutation_map. exact HP.
  - intros w. rewrite !col_of_map. rewrite (mem_perm w _ _ HP). reflexivity.
  - intros w c. rewrite col_of_map. destruct (mem w (keys e1)); congruence.
Qed.
End TfIdfColumnsProofs.

(** * 2. the vocabulary map up to provisional indices *)
Definition strip (m : vmap) : list (string * nat) := map (fun e => (fst e, e_df e)) m.

Lemma keys_strip m : map fst (strip m) = keys m.
Proof. unfold strip, keys. rewrite map_map. reflexivity. Qed.

Lemma In_strip_iff m w f : NoDup (keys m) ->
  (In (w, f) (strip m) <-> In w (keys m) /\ dfl w m = f).
Proof.
  intros HN. unfold strip. rewrite in_map_iff. split.
  - intros [[w' [i f']] [E He]]. unfold e_df in E; simpl in E. inversion E; subst. split.
    + unfold keys. apply (in_map fst) in He. exact He.
    + unfold dfl. rewrite (In_vget w (i, f) m HN He). reflexivity.
  - intros [Hk <-]. destruct (In_keys_vget w m Hk) as [v Hv]. exists (w, v). split.
    + unfold dfl, e_df. rewrite Hv. reflexivity.
    + apply vget_In. exact Hv.
Qed.

Lemma strip_perm_intro m m' : NoDup (keys m) -> NoDup (keys m') ->
  (forall w, In w (keys m) <-> In w (keys m')) -> (forall w, dfl w m = dfl w m') ->
  Permutation (strip m) (strip m').
Proof.
  intros H1 H2 Hk Hd. apply NoDup_Permutation.
  - apply (NoDup_map_inv fst). rewrite keys_strip. exact H1.
  - apply (NoDup_map_inv fst). rewrite keys_strip. exact H2.
  - intros [w f]. rewrite (In_strip_iff m w f H1), (In_strip_iff m' w f H2), Hk, Hd. tauto.
Qed.

Lemma strip_perm_keys m m' : Permutation (strip m) (strip m') -> Permutation (keys m) (keys m').
Proof. intros P. rewrite <- !keys_strip. apply Permutation_map. exact P. Qed.

(** ** stage (1): reading the documents *)
Section Read.
Variable o : orders.
Hypothesis Hset : forall d l, Permutation (o_set o d l) l.
Variables nmin nmax : nat.

Lemma read_doc_ord_NoDupL d toks : NoDup (o_set o d (dedup (ngrams nmin nmax toks))).
Proof. eapply Permutation_NoDup; [apply Permutation_sym, Hset | apply dedup_NoDup]. Qed.

Lemma read_doc_ord_dfl m d toks w :
  dfl w (read_doc_ord o nmin nmax m (d, toks)) = (dfl w m + (if mem w (ngrams nmin nmax toks) then 1 else 0))%nat.
Proof.
  unfold read_doc_ord. simpl fst; simpl snd.
  change (fun m0 w0 => bump w0 (List.length m0) m0) with step_bump.
  rewrite fold_bump_dfl by apply read_doc_ord_NoDupL.
  rewrite (mem_perm w _ _ (Hset d _)), mem_dedup. reflexivity.
Qed.

Lemma read_doc_ord_keys m d toks x :
  In x (keys (read_doc_ord o nmin nmax m (d, toks))) <-> In x (keys m) \/ In x (ngrams nmin nmax toks).
Proof.
  unfold read_doc_ord. simpl fst; simpl snd.
  change (fun m0 w0 => bump w0 (List.length m0) m0) with step_bump.
  rewrite fold_bump_keys. rewrite <- (dedup_In x (ngrams nmin nmax toks)).
  split; (intros [H|H]; [left; exact H | right]).
  - exact (Permutation_in x (Hset d _) H).
  - exact (Permutation_in x (Permutation_sym (Hset d _)) H).
Qed.

Lemma read_doc_ord_NoDup m dt : NoDup (keys m) -> NoDup (keys (read_doc_ord o nmin nmax m dt)).
Proof.
  unfold read_doc_ord. change (fun m0 w0 => bump w0 (List.length m0) m0) with step_bump.
  apply fold_bump_NoDup.
Qed.

Lemma read_docs_ord_gen w : forall docs a m,
  dfl w (fold_left (read_doc_ord o nmin nmax) (combine (seq a (List.length docs)) docs) m)
  = (dfl w m + df_ref w (map (ngrams nmin nmax) docs))%nat.
Proof.
  induction docs as [|d docs IH]; intros a m; simpl.
  - unfold df_ref; simpl; lia.
  - rewrite IH, read_doc_ord_dfl, df_ref_cons. lia.
Qed.

Lemma read_docs_ord_keys_gen x : forall docs a m,
  In x (keys (fold_left (read_doc_ord o nmin nmax) (combine (seq a (List.length docs)) docs) m)) <->
  In x (keys m) \/ exists d, In d docs /\ In x (ngrams nmin nmax d).
Proof.
  induction docs as [|d docs IH]; intros a m; simpl.
  - split; auto. intros [H|[d [[] _]]]; auto.
  - rewrite IH, read_doc_ord_keys. split.
    + intros [[H|H]|[d' [H1 H2]]]; auto; right; [exists d|exists d']; auto.
    + intros [H|[d' [[<-|H1] H2]]]; auto. right; exists d'; auto.
Qed.

Lemma read_docs_ord_NoDup_gen : forall docs a m,
  NoDup (keys m) -> NoDup (keys (fold_left (read_doc_ord o nmin nmax) (combine (seq a (List.length docs)) docs) m)).
Proof.
  induction docs as [|d docs IH]; intros a m H; simpl; auto. apply IH. apply read_doc_ord_NoDup; auto.
Qed.

Lemma read_docs_ord_dfl docs w :
  dfl w (read_docs_ord o nmin nmax docs) = df_ref w (map (ngrams nmin nmax) docs).
Proof. unfold read_docs_ord. rewrite read_docs_ord_gen. reflexivity. Qed.

Lemma read_docs_ord_keys docs x :
  In x (keys (read_docs_ord o nmin nmax docs)) <-> exists d, In d docs /\ In x (ngrams nmin nmax d).
Proof. unfold read_docs_ord. rewrite read_docs_ord_keys_gen. simpl. tauto. Qed.

Lemma read_docs_ord_NoDup docs : NoDup (keys (read_docs_ord o nmin nmax docs)).
Proof. apply read_docs_ord_NoDup_gen. constructor. Qed.
End Read.

(* every enumeration of the per-document sets yields the same word -> document-frequency map *)
Lemma read_docs_ord_strip o1 o2 nmin nmax docs :
  (forall d l, Permutation (o_set o1 d l) l) -> (forall d l, Permutation (o_set o2 d l) l) ->
  Permutation (strip (read_docs_ord o1 nmin nmax docs)) (strip (read_docs_ord o2 nmin nmax docs)).
Proof.
  intros H1 H2. apply strip_perm_intro.
  - apply read_docs_ord_NoDup; auto.
  - apply read_docs_ord_NoDup; auto.
  - intros w. rewrite !read_docs_ord_keys by auto. tauto.
  - intros w. rewrite !read_docs_ord_dfl by auto. reflexivity.
Qed.

(** ** stage (2): document-frequency window and stop words *)
Definition keepb (s : settings) (n : nat) (e : string * (nat * nat)) : bool :=
  let lo := abs_bound (s_mindf s) n in
  let hi := abs_bound (s_maxdf s) n in
  if (N.eqb lo 0 && N.eqb hi (N.of_nat n))%bool then
    match s_stop s with None => true | Some sw => negb (mem (fst e) sw) end
  else
    match s_stop s with
    | None => in_window lo hi e
    | Some sw => (in_window lo hi e && negb (mem (fst e) sw))%bool
    end.

Lemma filter_vocab_nocap_eq s m n : filter_vocab (without_cap s) m n = filter (keepb s n) m.
Proof.
  unfold filter_vocab, keepb, without_cap. simpl.
  destruct (N.eqb (abs_bound (s_mindf s) n) 0 && N.eqb (abs_bound (s_maxdf s) n) (N.of_nat n))%bool;
    destruct (s_stop s); auto.
  symmetry. apply filter_all.
Qed.

Lemma keepb_strip s n e : keepb s n e = keepb s n (fst e, (0%nat, e_df e)).
Proof. destruct e as [w [i f]]. reflexivity. Qed.

Lemma strip_filter s n m :
  strip (filter (keepb s n) m) = filter (fun we => keepb s n (fst we, (0%nat, snd we))) (strip m).
Proof.
  induction m as [|e m IH]; simpl; auto. rewrite (keepb_strip s n e). simpl.
  destruct (keepb s n (fst e, (0%nat, e_df e))); simpl; rewrite IH; reflexivity.
Qed.

Lemma filter_stage s n m m' : NoDup (keys m) -> Permutation (strip m) (strip m') ->
  NoDup (keys (filter_vocab (without_cap s) m n)) /\
  Permutation (strip (filter_vocab (without_cap s) m n)) (strip (filter_vocab (without_cap s) m' n)).
Proof.
  intros HN P. rewrite !filter_vocab_nocap_eq. split.
  - apply NoDup_keys_filter. exact HN.
  - rewrite !strip_filter. apply Permutation_filter. exact P.
Qed.

(** ** stage (3): the max_features cut *)
Definition kle2 (a b : string * nat) : Prop := kle (fst a, (0%nat, snd a)) (fst b, (0%nat, snd b)).

Lemma kle_strip a b : kle a b <-> kle2 (fst a, e_df a) (fst b, e_df b).
Proof. destruct a as [wa [ia fa]], b as [wb [ib fb]]. unfold kle2, kle, e_df. simpl. tauto. Qed.

Lemma str_ge_antisym a b : str_ge a b -> str_ge b a -> a = b.
Proof.
  unfold str_ge. intros H1 H2. destruct (str_cmp a b) eqn:E; [apply str_cmp_eq; exact E | congruence |].
  exfalso. apply H2. rewrite str_cmp_antisym, E. reflexivity.
Qed.

Lemma kle_same_word a b : kle a b -> kle b a -> fst a = fst b /\ e_df a = e_df b.
Proof.
  unfold kle. intros [H1|[H1 G1]] [H2|[H2 G2]]; try lia. split; auto. apply str_ge_antisym; auto.
Qed.

Lemma kle2_antisym a b : kle2 a b -> kle2 b a -> a = b.
Proof.
  intros H1 H2. destruct (kle_same_word _ _ H1 H2) as [Hw Hf]. unfold e_df in Hf. simpl in *.
  destruct a, b; simpl in *; congruence.
Qed.

Lemma sorted_strip l : StronglySorted kle l -> StronglySorted kle2 (strip l).
Proof.
  induction 1 as [|a l Hs IH Ha]; simpl; constructor; auto.
  unfold strip. rewrite Forall_map. eapply Forall_impl; [|exact Ha].
  intros b Hb. apply kle_strip. exact Hb.
Qed.

(* the sorted enumeration, read as (word, document frequency) pairs, is a function of the map alone *)
Lemma sort_key_strip v v' : Permutation (strip v) (strip v') -> strip (sort_key v) = strip (sort_key v').
Proof.
  intros P. apply (sorted_perm_eq kle2).
  - intros a b _ _. apply kle2_antisym.
  - apply sorted_strip, sort_key_sorted.
  - apply sorted_strip, sort_key_sorted.
  - unfold strip in *.
    eapply perm_trans; [apply Permutation_map, sort_key_perm|].
    eapply perm_trans; [exact P|]. apply Permutation_sym, Permutation_map, sort_key_perm.
Qed.

(* with the indices: two enumerations of the same map (distinct words) sort to the same list *)
Lemma sort_key_enum_invariant v1 v2 : NoDup (keys v1) -> Permutation v1 v2 -> sort_key v1 = sort_key v2.
Proof.
  intros HN P. apply (sorted_perm_eq kle).
  - intros a b Ha Hb H1 H2. destruct (kle_same_word _ _ H1 H2) as [Hw _].
    assert (HN' : NoDup (keys (sort_key v1))).
    { eapply Permutation_NoDup; [|exact HN]. apply Permutation_map, Permutation_sym, sort_key_perm. }
    clear - Ha Hb Hw HN'. induction (sort_key v1) as [|h t IH]; [contradiction|].
    simpl in HN'. inversion HN' as [|? ? Hn HN'']; subst.
    destruct Ha as [Ha|Ha], Hb as [Hb|Hb]; subst; auto.
    + exfalso; apply Hn. rewrite Hw. apply (in_map fst); auto.
    + exfalso; apply Hn. rewrite <- Hw. apply (in_map fst); auto.
  - apply sort_key_sorted.
  - apply sort_key_sorted.
  - eapply perm_trans; [apply sort_key_perm|]. eapply perm_trans; [exact P|]. apply Permutation_sym, sort_key_perm.
Qed.

Lemma strip_firstn k l : strip (firstn k l) = firstn k (strip l).
Proof. unfold strip. symmetry. apply firstn_map. Qed.

Lemma NoDup_keys_perm (m m' : vmap) : Permutation m m' -> NoDup (keys m) -> NoDup (keys m').
Proof. intros P. apply Permutation_NoDup. apply Permutation_map. exact P. Qed.

Lemma filter_vocab_ord_stage o1 o2 s n m m' :
  (forall m, Permutation (o_filter o1 m) m) -> (forall m, Permutation (o_filter o2 m) m) ->
  (forall m, Permutation (o_cut o1 m) m) -> (forall m, Permutation (o_cut o2 m) m) ->
  NoDup (keys m) -> Permutation (strip m) (strip m') ->
  NoDup (keys (filter_vocab_ord o1 s m n)) /\
  Permutation (strip (filter_vocab_ord o1 s m n)) (strip (filter_vocab_ord o2 s m' n)).
Proof.
  intros F1 F2 C1 C2 HN P. unfold filter_vocab_ord.
  assert (HN1 : NoDup (keys (o_filter o1 m))) by (eapply NoDup_keys_perm; [apply Permutation_sym, F1 | exact HN]).
  assert (P1 : Permutation (strip (o_filter o1 m)) (strip (o_filter o2 m'))).
  { eapply perm_trans; [apply Permutation_map, F1|]. eapply perm_trans; [exact P|].
    apply Permutation_sym, Permutation_map, F2. }
  destruct (filter_stage s n _ _ HN1 P1) as [HNv Pv].
  set (v1 := filter_vocab (without_cap s) (o_filter o1 m) n) in *.
  set (v2 := filter_vocab (without_cap s) (o_filter o2 m') n) in *.
  destruct (s_cap s) as [k|]; [|split; auto]. split.
  - unfold keys. rewrite <- firstn_map. apply NoDup_firstn.
    eapply Permutation_NoDup; [|exact HNv]. apply Permutation_map.
    eapply perm_trans; [apply Permutation_sym, C1 | apply Permutation_sym, sort_key_perm].
  - rewrite !strip_firstn.
    rewrite (sort_key_strip (o_cut o1 v1) (o_cut o2 v2)); [apply Permutation_refl|].
    eapply perm_trans; [apply Permutation_map, C1|]. eapply perm_trans; [exact Pv|].
    apply Permutation_sym, Permutation_map, C2.
Qed.

(** ** the whole fit *)
Definition fitted_enum (o : orders) (s : settings) (docs : list (list string)) : vmap :=
  o_index o (filter_vocab_ord o s (read_docs_ord o (s_nmin s) (s_nmax s) docs) (List.length docs)).

Lemma fit_ord_enum o s docs : fit_ord o s docs = reindex (fitted_enum o s docs).
Proof. reflexivity. Qed.

Lemma fitted_enum_keys o1 o2 s docs : fair o1 -> fair o2 ->
  NoDup (keys (fitted_enum o1 s docs)) /\ Permutation (keys (fitted_enum o1 s docs)) (keys (fitted_enum o2 s docs)).
Proof.
  intros (S1 & F1 & C1 & I1) (S2 & F2 & C2 & I2). unfold fitted_enum.
  pose proof (read_docs_ord_NoDup o1 (s_nmin s) (s_nmax s) docs) as HN.
  pose proof (read_docs_ord_strip o1 o2 (s_nmin s) (s_nmax s) docs S1 S2) as P.
  destruct (filter_vocab_ord_stage o1 o2 s (List.length docs) _ _ F1 F2 C1 C2 HN P) as [HNf Pf].
  split.
  - eapply NoDup_keys_perm; [apply Permutation_sym, I1 | exact HNf].
  - eapply perm_trans; [apply Permutation_map, I1|].
    eapply perm_trans; [apply strip_perm_keys; exact Pf|].
    apply Permutation_sym, Permutation_map, I2.
Qed.

Lemma fit_ord_columns_invariant o1 o2 s train docs : fair o1 -> fair o2 ->
  let c1 := word_columns (s_nmin s) (s_nmax s) (fit_ord o1 s train) docs in
  let c2 := word_columns (s_nmin s) (s_nmax s) (fit_ord o2 s train) docs in
  NoDup (map fst c1) /\ Permutation c1 c2 /\ (forall w, col_of w c1 = col_of w c2) /\
  (forall w c, col_of w c1 = Some c -> c = ref_column (s_nmin s) (s_nmax s) docs w).
Proof.
  intros H1 H2. cbv zeta. rewrite !fit_ord_enum.
  destruct (fitted_enum_keys o1 o2 s train H1 H2) as [HN HP].
  apply word_columns_enum_invariant; auto.
Qed.

Lemma fit_ord_vocab_set o1 o2 s train : fair o1 -> fair o2 ->
  NoDup (snd (fit_ord o1 s train)) /\ Permutation (snd (fit_ord o1 s train)) (snd (fit_ord o2 s train)).
Proof.
  intros H1 H2. rewrite !fit_ord_enum. unfold reindex. rewrite !reindex_from_vec.
  exact (fitted_enum_keys o1 o2 s train H1 H2).
Qed.

Lemma fit_ord_tfidf_columns_invariant {F} (ops : NumOps F) (lnf : F -> F) mt o1 o2 s train docs :
  fair o1 -> fair o2 ->
  let c1 := tfidf_word_columns ops lnf mt (s_nmin s) (s_nmax s) (fit_ord o1 s train) docs in
  let c2 := tfidf_word_columns ops lnf mt (s_nmin s) (s_nmax s) (fit_ord o2 s train) docs in
  Permutation c1 c2 /\ (forall w, col_of w c1 = col_of w c2) /\
  (forall w c, col_of w c1 = Some c -> c = ref_tfidf_column ops lnf mt (s_nmin s) (s_nmax s) docs w).
Proof.
  intros H1 H2. cbv zeta. rewrite !fit_ord_enum.
  destruct (fitted_enum_keys o1 o2 s train H1 H2) as [HN HP].
  apply tfidf_word_columns_enum_invariant; auto.
Qed.

(** the identity orders give C17's fit_map: the theorems of C17 about the vocabulary apply to
    every enumeration through the invariance above *)
Lemma id_orders_fair : fair id_orders.
Proof. repeat split; intros; apply Permutation_refl. Qed.

Lemma rot_perm {A} k (l : list A) : Permutation (rot k l) l.
Proof.
  unfold rot. set (k' := Nat.modulo k (Nat.max 1 (List.length l))).
  eapply perm_trans; [apply Permutation_app_comm|]. rewrite firstn_skipn. apply Permutation_refl.
Qed.

Lemma rot_orders_fair k : fair (rot_orders k).
Proof.
  repeat split; simpl; intros; try apply rot_perm.
  eapply perm_trans; [apply Permutation_sym, Permutation_rev | apply rot_perm].
Qed.

(** ** replayed `vocabulary()` orders are fair enumerations, and every order of the fitted words is reached *)
Lemma nodup_b_spec l : nodup_b l = true <-> NoDup l.
Proof.
  induction l as [|a r IH]; simpl.
  - split; auto. intros _; constructor.
  - rewrite andb_true_iff, negb_true_iff, IH, mem_false. split.
    + intros [H1 H2]; constructor; auto.
    + intros H; inversion H; auto.
Qed.

Lemma lists_keys_spec vocab m : lists_keys vocab m = true <-> NoDup vocab /\ Permutation vocab (keys m).
Proof.
  unfold lists_keys. rewrite !andb_true_iff, nodup_b_spec, Nat.eqb_eq, forallb_forall. split.
  - intros [[HN HL] HI]. split; auto. apply NoDup_Permutation_bis; auto.
    + unfold keys. rewrite map_length. lia.
    + intros w Hw. apply mem_In. apply HI; exact Hw.
  - intros [HN P]. repeat split; auto.
    + rewrite (Permutation_length P). unfold keys. apply map_length.
    + intros w Hw. apply mem_In. exact (Permutation_in w P Hw).
Qed.

Lemma enum_like_cons_fresh k v r ws : ~ In k ws -> enum_like ws ((k, v) :: r) = enum_like ws r.
Proof.
  induction ws as [|w ws IH]; intros H; simpl; auto.
  rewrite IH by (intros X; apply H; right; exact X).
  destruct (String.eqb_spec k w) as [->|N]; [exfalso; apply H; left; reflexivity | reflexivity].
Qed.

Lemma enum_like_self m : NoDup (keys m) -> enum_like (keys m) m = m.
Proof.
  induction m as [|[k v] r IH]; intros HN; simpl; auto.
  inversion HN as [|? ? Hk HN']; subst. rewrite String.eqb_refl. simpl. f_equal.
  change (enum_like (keys r) ((k, v) :: r) = r). rewrite enum_like_cons_fresh; auto.
Qed.

Lemma enum_like_perm v v' m : Permutation v v' -> Permutation (enum_like v m) (enum_like v' m).
Proof. intros P. unfold enum_like. apply Permutation_flat_map. exact P. Qed.

Lemma keys_enum_like vocab m : (forall w, In w vocab -> In w (keys m)) -> keys (enum_like vocab m) = vocab.
Proof.
  induction vocab as [|w r IH]; intros H; simpl; auto.
  destruct (vget w m) as [v|] eqn:E.
  - simpl. f_equal. apply IH. intros x Hx; apply H; right; exact Hx.
  - exfalso. apply vget_None in E. apply E, H. left; reflexivity.
Qed.

Lemma observed_orders_fair vocab : fair (observed_orders vocab).
Proof.
  repeat split; simpl; intros; try apply Permutation_refl.
  destruct (lists_keys vocab m) eqn:E; [|apply Permutation_refl].
  apply lists_keys_spec in E. destruct E as [HN P].
  assert (HNm : NoDup (keys m)) by (eapply Permutation_NoDup; eauto).
  rewrite <- (enum_like_self m HNm) at 2. apply enum_like_perm; exact P.
Qed.

Lemma observed_order_reproduced s train vocab :
  Permutation vocab (snd (fit_ord id_orders s train)) ->
  snd (fit_ord (observed_orders vocab) s train) = vocab.
Proof.
  intros P.
  destruct (fit_ord_vocab_set id_orders id_orders s train id_orders_fair id_orders_fair) as [HN _].
  assert (HNv : NoDup vocab) by (eapply Permutation_NoDup; [apply Permutation_sym; exact P | exact HN]).
  rewrite fit_ord_enum in *. unfold reindex in *. rewrite reindex_from_vec in *.
  unfold fitted_enum in *. simpl in *.
  set (M := filter_vocab_ord id_orders s (read_docs_ord id_orders (s_nmin s) (s_nmax s) train) (List.length train)) in *.
  change (filter_vocab_ord (observed_orders vocab) s (read_docs_ord (observed_orders vocab) (s_nmin s) (s_nmax s) train) (List.length train)) with M.
  assert (E : lists_keys vocab M = true) by (apply lists_keys_spec; split; auto).
  rewrite E. apply keys_enum_like. intros w Hw. exact (Permutation_in w P Hw).
Qed.

(** * 3. non-vacuity examples *)
Definition ex_docs : list (list string) :=
  [["aa"; "bb"; "aa"]; ["bb"; "cc"]; ["cc"; "aa"; "dd"]; ["ee"; "bb"]].
Definition ex_settings (cap : option nat) : settings :=
  mkSettings 1 1 (S754_zero false) (S754_finite false 8388608 (-23)) None cap.

(* the column order differs between two enumerations, the word -> column map does not *)
Example ex_orders_differ :
  snd (fit_ord id_orders (ex_settings None) ex_docs) <> snd (fit_ord (rot_orders 1) (ex_settings None) ex_docs) /\
  col_of "bb" (word_columns 1 1 (fit_ord id_orders (ex_settings None) ex_docs) ex_docs) = Some [1; 1; 0; 1]%nat /\
  col_of "bb" (word_columns 1 1 (fit_ord (rot_orders 1) (ex_settings None) ex_docs) ex_docs) = Some [1; 1; 0; 1]%nat.
Proof. vm_compute. repeat split; auto. intros H; discriminate H. Qed.

(* max_features = 2 with document frequencies aa:2 bb:3 cc:2 dd:1 ee:1 - the tie aa/cc straddles the cut;
   the code keeps the greater word (Reverse(word)), under every enumeration *)
Example ex_cut_tie :
  keys (fst (fit_ord id_orders (ex_settings (Some 2%nat)) ex_docs)) = ["bb"; "cc"] /\
  keys (fst (fit_ord (rot_orders 2) (ex_settings (Some 2%nat)) ex_docs)) = ["cc"; "bb"].
Proof. vm_compute. auto. Qed.

(* a stable sort on the frequency alone keeps whichever tied word the map yields first *)
Example ex_cut_df_only_order_dependent :
  keys (cut_df_only 1 [("aa", (0, 2)); ("cc", (1, 2))]%nat) <> keys (cut_df_only 1 [("cc", (1, 2)); ("aa", (0, 2))]%nat).
Proof. vm_compute. intros H; discriminate H. Qed.

Example ex_nodup_keys : NoDup (keys [("aa", (0, 2)); ("cc", (1, 2))]%nat).
Proof. repeat constructor; simpl; intuition discriminate. Qed.

(* the hypothesis of [observed_order_reproduced] is satisfiable beyond the identity: a reversed listing *)
Example ex_observed_order :
  let v := snd (fit_ord id_orders (ex_settings None) ex_docs) in
  rev v <> v /\ Permutation (rev v) v /\
  snd (fit_ord (observed_orders (rev v)) (ex_settings None) ex_docs) = rev v.
Proof.
  cbv zeta. split; [vm_compute; intros H; discriminate H | split].
  - apply Permutation_sym, Permutation_rev.
  - vm_compute. reflexivity.
Qed.
