(** C20 - property theorems about the text vectorisers (statements only; proofs are in
    C20/VocabProofs.v).  Kept apart from C20/Properties.v because the vectoriser model re-uses
    the transliteration of C17/Model.v, whose names overlap with those of the k-means model.

    Reading guide: an [orders] value fixes the enumeration the four hash containers of
    `CountVectorizer::fit` happen to yield (the per-document `HashSet`, the two `into_iter()` of
    `filter_vocabulary`, the iteration of `hashmap_to_vocabulary`); [fair] says each enumeration
    yields every element exactly once, nothing else is assumed about it (it may depend on the
    content, differ from call to call, from process to process).  `vocabulary()` and the column
    numbering do depend on the enumeration ([ex_orders_differ]); what the statement compares - and
    what the harness compares - is the word -> column-content map. *)
From Coq Require Import List NArith Bool String Arith Permutation.
From LinfaVerif Require Import Common.Num C17.Model C20.VocabModel C20.VocabProofs.
Import ListNotations.

(** `hashmap_to_vocabulary` + `transform`: for any two enumerations of a map with the same (distinct)
    words, the word -> column-content maps of every transformed corpus are equal, and the column of
    a word is its occurrence count among the n-grams of each document *)
Theorem hashmap_to_vocabulary_order_invariant : forall nmin nmax (enum1 enum2 : vmap) (docs : list (list string)),
  NoDup (keys enum1) -> Permutation (keys enum1) (keys enum2) ->
  let c1 := word_columns nmin nmax (reindex enum1) docs in
  let c2 := word_columns nmin nmax (reindex enum2) docs in
  NoDup (map fst c1) /\ Permutation c1 c2 /\ (forall w, col_of w c1 = col_of w c2) /\
  (forall w c, col_of w c1 = Some c -> c = ref_column nmin nmax docs w).
Proof. intros nmin nmax e1 e2 docs HN HP. exact (word_columns_enum_invariant nmin nmax e1 e2 docs HN HP). Qed.

(** the whole `CountVectorizer::fit` (document-frequency window, stop words, max_features) followed by
    `transform` of any corpus: the word -> column-content map is the same for every pair of fair
    enumeration choices *)
Theorem vocabulary_map_invariant : forall (o1 o2 : orders) (s : settings) (train docs : list (list string)),
  fair o1 -> fair o2 ->
  let c1 := word_columns (s_nmin s) (s_nmax s) (fit_ord o1 s train) docs in
  let c2 := word_columns (s_nmin s) (s_nmax s) (fit_ord o2 s train) docs in
  NoDup (map fst c1) /\ Permutation c1 c2 /\ (forall w, col_of w c1 = col_of w c2) /\
  (forall w c, col_of w c1 = Some c -> c = ref_column (s_nmin s) (s_nmax s) docs w).
Proof. intros o1 o2 s train docs H1 H2. exact (fit_ord_columns_invariant o1 o2 s train docs H1 H2). Qed.

(** in particular the fitted vocabulary is the same *set* of words *)
Theorem fitted_vocabulary_set_invariant : forall (o1 o2 : orders) (s : settings) (train : list (list string)),
  fair o1 -> fair o2 ->
  NoDup (snd (fit_ord o1 s train)) /\ Permutation (snd (fit_ord o1 s train)) (snd (fit_ord o2 s train)).
Proof. intros o1 o2 s train H1 H2. exact (fit_ord_vocab_set o1 o2 s train H1 H2). Qed.

(** the tf-idf vectoriser (same fit, counts scaled by the inverse document frequency of the
    transformed corpus): word -> column of stored values, in every arithmetic and for every `ln` *)
Theorem tfidf_map_invariant : forall F (ops : NumOps F) (lnf : F -> F) (mt : method)
    (o1 o2 : orders) (s : settings) (train docs : list (list string)),
  fair o1 -> fair o2 ->
  let c1 := tfidf_word_columns ops lnf mt (s_nmin s) (s_nmax s) (fit_ord o1 s train) docs in
  let c2 := tfidf_word_columns ops lnf mt (s_nmin s) (s_nmax s) (fit_ord o2 s train) docs in
  Permutation c1 c2 /\ (forall w, col_of w c1 = col_of w c2) /\
  (forall w c, col_of w c1 = Some c -> c = ref_tfidf_column ops lnf mt (s_nmin s) (s_nmax s) docs w).
Proof.
  intros F ops lnf mt o1 o2 s train docs H1 H2.
  exact (fit_ord_tfidf_columns_invariant ops lnf mt o1 o2 s train docs H1 H2).
Qed.

(** the max_features cut sorts by (Reverse(document frequency), Reverse(word), index): a total order
    on a map's entries, so the kept entries do not depend on the enumeration fed to the sort *)
Theorem max_features_cut_order_independent : forall (k : nat) (v1 v2 : vmap),
  NoDup (keys v1) -> Permutation v1 v2 -> firstn k (sort_key v1) = firstn k (sort_key v2).
Proof. intros k v1 v2 HN P. rewrite (sort_key_enum_invariant v1 v2 HN P). reflexivity. Qed.

(** contrast: a stable sort on the document frequency alone keeps tied words in enumeration order;
    with a tie straddling the cut the kept *set* depends on the enumeration *)
Theorem max_features_df_only_cut_order_dependent : exists (k : nat) (v1 v2 : vmap),
  NoDup (keys v1) /\ Permutation v1 v2 /\ keys (cut_df_only k v1) <> keys (cut_df_only k v2).
Proof.
  exists 1%nat, [("aa", (0, 2)); ("cc", (1, 2))]%nat%string, [("cc", (1, 2)); ("aa", (0, 2))]%nat%string.
  split; [exact ex_nodup_keys | split; [apply perm_swap | exact ex_cut_df_only_order_dependent]].
Qed.

(** the quantifier is inhabited beyond the identity: rotations / reversals are fair enumerations *)
Theorem rotations_are_fair : forall k, fair (rot_orders k).
Proof. exact rot_orders_fair. Qed.

(** the run-time replay of C20/Corr.v stays inside the quantifier of the theorems above: the
    enumeration that reproduces an observed `vocabulary()` listing is fair, whatever was observed *)
Theorem observed_orders_are_fair : forall vocab : list string, fair (observed_orders vocab).
Proof. exact observed_orders_fair. Qed.

(** conversely the order of `vocabulary()` is not constrained at all: every listing of the fitted words
    is produced by some fair enumeration (which is why only the word -> column map can be compared) *)
Theorem every_vocabulary_order_is_reachable : forall (s : settings) (train : list (list string)) (vocab : list string),
  Permutation vocab (snd (fit_ord id_orders s train)) ->
  exists o, fair o /\ snd (fit_ord o s train) = vocab.
Proof.
  intros s train vocab P. exists (observed_orders vocab). split.
  - apply observed_orders_fair.
  - exact (observed_order_reproduced s train vocab P).
Qed.
