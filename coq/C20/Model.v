(** C20 - executable models of the mechanisms on which run-to-run reproducibility rests.

    (i)  Par: ndarray's `Zip::par_for_each` as used by linfa-clustering k-means
         (`update_cluster_memberships`, `update_min_dists`, `update_memberships_and_dists`):
         a list of tasks, task i computes the value of output cell i from shared immutable input;
         a *schedule* is the order in which the pool happens to execute the tasks.  The Lloyd loop
         of `KMeans::fit` is re-stated with one schedule per parallel loop (`one_run_par`), the
         output arrays `memberships` / `dists` persist between the loops as in the Rust code.
    (ii) HashOrder: every consumer of a `HashMap` / `HashSet` with per-instance `RandomState`
         is a function of the entry list *in the order the map happens to yield it*:
         `find_modal_class` (linfa-trees), the arg-max of `NaiveBayes::predict_inplace`
         (linfa-bayes), `labels()` followed by a sort, integer count sums, the minimum over clusters
         of the silhouette score, the cluster numbering of linfa-hierarchical, and the
         class-frequency sums of the tree impurity.  `_old` variants are the rules before the
         repairs F11 / F19 / F16 / F41 (kept to show what the permutation quantifier excludes).

    Definitions only; polymorphic in NumOps where numeric. *)
From Coq Require Import List NArith ZArith Bool SpecFloat.
From LinfaVerif Require Import Common.Num Common.NdSum Common.B32 C09.Model.
Import ListNotations.

(** * (i) parallel loops with disjoint output cells *)
Section Par.
Context {I C : Type}.

(* cells.[i] <- v ; out-of-range writes do not exist in the Rust code (Zip checks the shapes) *)
Definition set_cell (cells : list C) (i : nat) (v : C) : list C := upd cells i (fun _ => v).

(* the pool executes the tasks in the order [sched]; task i reads only [inp] and writes cell i *)
Definition run_sched (inp : I) (tasks : list (I -> C)) (sched : list nat) (init : list C) : list C :=
  fold_left (fun cells i => match nth_error tasks i with
                            | Some t => set_cell cells i (t inp)
                            | None => cells
                            end) sched init.

(* the sequential meaning of the loop *)
Definition run_seq (inp : I) (tasks : list (I -> C)) : list C := map (fun t => t inp) tasks.
End Par.

(* a schedule given as per-worker chunks executed one worker after the other *)
Definition sched_of_chunks (chunks : list (list nat)) : list nat := concat chunks.

Section KMeansPar.
Context {F : Type} (o : NumOps F).

(* Zip::from(observations.rows()).and(memberships).and(dists).par_for_each: cell i receives closest(x_i) *)
Definition km_tasks (m : metric) (X : list (list F)) : list (list (list F) -> nat * F) :=
  map (fun x cs => closest o m cs x) X.

Definition update_memberships_and_dists (m : metric) (cs X : list (list F)) (sched : list nat)
  (old : list (nat * F)) : list (nat * F) := run_sched cs (km_tasks m X) sched old.

(* update_cluster_memberships (behind `predict`) and update_min_dists (behind `transform`) *)
Definition update_cluster_memberships (m : metric) (cs X : list (list F)) (sched : list nat) (old : list nat)
  : list nat := run_sched cs (map (fun x cs => fst (closest o m cs x)) X) sched old.
Definition update_min_dists (m : metric) (cs X : list (list F)) (sched : list nat) (old : list F)
  : list F := run_sched cs (map (fun x cs => snd (closest o m cs x)) X) sched old.

Definition next_sched (n : nat) (scheds : list (list nat)) : list nat * list (list nat) :=
  match scheds with [] => (seq 0 n, []) | s :: r => (s, r) end.

(* the `loop` of one restart; [arr] is the persistent (memberships, dists) storage *)
Fixpoint lloyd_par (m : metric) (tol : F) (fuel : nat) (cs X : list (list F))
  (scheds : list (list nat)) (arr : list (nat * F)) : list (list F) * list (list nat) * list (nat * F) :=
  match fuel with
  | O => (cs, scheds, arr)
  | S f =>
      let '(s, rest) := next_sched (length X) scheds in
      let arr' := update_memberships_and_dists m cs X s arr in
      let new := compute_centroids o cs X (map fst arr') in
      if ltb o (dist o m (concat cs) (concat new)) tol then (new, rest, arr')
      else lloyd_par m tol f new X rest arr'
  end.

(* one restart of KMeans::fit (after repair F5: memberships / dists recomputed for the final centroids);
   the reduction `dists.sum()` runs sequentially after the loop *)
Definition one_run_par (m : metric) (tol : F) (fuel : nat) (init X : list (list F))
  (scheds : list (list nat)) (arr : list (nat * F)) : @run_result F * list (list nat) * list (nat * F) :=
  let '(cs, rest, arr1) := lloyd_par m tol fuel init X scheds arr in
  let '(s, rest') := next_sched (length X) rest in
  let arr2 := update_memberships_and_dists m cs X s arr1 in
  ({| r_centroids := cs; r_members := map fst arr2; r_inertia := usum o (map snd arr2) |}, rest', arr2).

(* the restart loop: the arrays and the schedule stream are threaded through the runs *)
Definition restarts_par (m : metric) (tol : F) (fuel : nat) (inits : list (list (list F))) (X : list (list F))
  (scheds : list (list nat)) : option (@run_result F) :=
  fst (fold_left (fun st init =>
                    let '(best, (sc, arr)) := st in
                    let '(r, sc', arr') := one_run_par m tol fuel init X sc arr in
                    (better o best r, (sc', arr')))
                 inits (None, (scheds, repeat (0%nat, zero o) (length X)))).

Definition fit_par (m : metric) (tol : F) (fuel k : nat) (inits : list (list (list F))) (X : list (list F))
  (scheds : list (list nat)) : option (@fitted F) :=
  match restarts_par m tol fuel inits X scheds with
  | None => None
  | Some r => Some {| f_centroids := r_centroids r;
                      f_counts := count_members o k (r_members r);
                      f_inertia := div o (r_inertia r) (of_N o (N.of_nat (length X))) |}
  end.

(* what a *parallel reduction* would be: the sum taken in schedule order (NOT what the code does) *)
Definition reduce_in_order (xs : list F) (sched : list nat) : F :=
  seq_sum o (map (fun i => nth i xs (zero o)) sched).
End KMeansPar.

(** * (ii) consumers of hash-map iteration order *)
Section Hash.
Context {F : Type} (o : NumOps F).

(* linfa-trees find_modal_class (after repair F11): fold over (label, weight) in map order;
     if best_freq > freq || (best_freq == freq && best_idx < idx) { acc } else { Some((idx, freq)) } *)
Definition modal_step (acc : option (N * F)) (e : N * F) : option (N * F) :=
  match acc with
  | None => Some e
  | Some b => if ltb o (snd e) (snd b) || (eqb o (snd b) (snd e) && N.ltb (fst b) (fst e)) then acc else Some e
  end.
Definition modal_class (entries : list (N * F)) : option N :=
  option_map fst (fold_left modal_step entries None).

(* before F11: `if best_freq > freq { acc } else { Some((idx, freq)) }` *)
Definition modal_step_old (acc : option (N * F)) (e : N * F) : option (N * F) :=
  match acc with
  | None => Some e
  | Some b => if ltb o (snd e) (snd b) then acc else Some e
  end.
Definition modal_class_old (entries : list (N * F)) : option N :=
  option_map fst (fold_left modal_step_old entries None).

(* sort_by(|a, b| a.0.cmp(b.0)) on entries with pairwise distinct keys *)
Fixpoint insert_by_key {A} (e : N * A) (l : list (N * A)) : list (N * A) :=
  match l with
  | [] => [e]
  | h :: t => if N.leb (fst e) (fst h) then e :: l else h :: insert_by_key e t
  end.
Definition sort_by_key {A} (l : list (N * A)) : list (N * A) := fold_right insert_by_key [] l.

(* ndarray-stats argmax: the first maximal element (a later one must be strictly greater) *)
Definition argmax_first (xs : list F) : option nat :=
  match xs with
  | [] => None
  | x0 :: t => Some (fst (fst (fold_left (fun st v => let '(bi, bv, i) := st in
                                            if ltb o bv v then (i, v, S i) else (bi, bv, S i))
                                         t (0%nat, x0, 1%nat))))
  end.
Definition column (j : nat) (rows : list (list F)) : list F := map (fun r => nth j r (zero o)) rows.

(* NaiveBayes::predict_inplace (after repair F19): classes sorted, likelihood rows in that order,
   per query column the first arg-max *)
Definition argmax_rows (entries : list (N * list F)) (nq : nat) : list N :=
  map (fun j => match argmax_first (column j (map snd entries)) with
                | Some i => nth i (map fst entries) 0%N
                | None => 0%N
                end) (seq 0 nq).
Definition nb_predict (entries : list (N * list F)) (nq : nat) : list N :=
  argmax_rows (sort_by_key entries) nq.
(* before F19: rows in map order *)
Definition nb_predict_old (entries : list (N * list F)) (nq : nat) : list N := argmax_rows entries nq.

(* silhouette: b(x) = minimum over the other clusters of the mean distance, scanned in map order *)
Definition min_over (vals : list F) : option F :=
  fold_left (fun acc v => match acc with
                          | None => Some v
                          | Some mn => if ltb o v mn then Some v else Some mn
                          end) vals None.

(* tree impurity of a list of class weights: n = sum, 1 - sum (x / n)^2, both sums sequential *)
Definition gini (freqs : list F) : F :=
  let n := seq_sum o freqs in
  sub o (one o) (seq_sum o (map (fun x => let p := div o x n in mul o p p) freqs)).
(* linfa-trees gini_impurity (after repair F41): `sorted_frequencies` = weights in ascending class order *)
Definition gini_impurity (entries : list (N * F)) : F := gini (map snd (sort_by_key entries)).
(* before F41: `class_freq.values()` in map order *)
Definition gini_impurity_old (entries : list (N * F)) : F := gini (map snd entries).
End Hash.

(* `labels()` (hash-set order) followed by `sort_unstable()` as in naive Bayes / confusion matrix *)
Definition labels_sorted (observed : list N) : list N :=
  map fst (sort_by_key (map (fun l => (l, tt)) observed)).

(* integer reductions over map values (class_count sums) *)
Definition count_sum (entries : list (N * N)) : N := fold_left N.add (map snd entries) 0%N.

(* linfa-hierarchical (after repair F16): clusters = (key, member ids); sorted by key, numbered 0.. *)
Definition number_clusters (n : nat) (clusters : list (N * list N)) : list N :=
  fold_left (fun tmp ic => fold_left (fun t id => upd t (N.to_nat id) (fun _ => fst ic)) (snd ic) tmp)
            (combine (map N.of_nat (seq 0 (length clusters))) (map snd clusters)) (repeat 0%N n).
Definition hier_labels (n : nat) (clusters : list (N * list N)) : list N :=
  number_clusters n (sort_by_key clusters).
Definition hier_labels_old (n : nat) (clusters : list (N * list N)) : list N :=
  number_clusters n clusters.

(** all permutations of a short list (used by the run-time oracle on observed entry lists) *)
Fixpoint insert_all {A} (x : A) (l : list A) : list (list A) :=
  match l with
  | [] => [[x]]
  | h :: t => (x :: l) :: map (cons h) (insert_all x t)
  end.
Fixpoint perms {A} (l : list A) : list (list A) :=
  match l with
  | [] => [[]]
  | h :: t => flat_map (insert_all h) (perms t)
  end.
(* a cheap family of re-orderings for longer lists: all rotations and their reversals *)
Definition rotations {A} (l : list A) : list (list A) :=
  flat_map (fun k => let r := skipn k l ++ firstn k l in [r; rev r]) (seq 0 (length l)).
Definition reorderings {A} (l : list A) : list (list A) :=
  if Nat.leb (length l) 5 then perms l else rotations l.

(** a finite binary32 value in canonical form - what every decoded `f32` bit pattern other than NaN /
    infinity and every arithmetic result is.  Hypothesis of the binary32 theorem about the modal
    class (C20/FloatOrder.v); evaluated on the observed class weights by C20/Corr.v. *)
Definition sf_is_finite (w : spec_float) : bool :=
  match w with S754_zero _ | S754_finite _ _ _ => true | _ => false end.
Definition b32_finite (w : spec_float) : bool := (sf_is_finite w && valid_binary p32 e32 w)%bool.
