(** C20, round 5 - lemmas for the history dimension (C20/ModelR5.v). *)
From Coq Require Import List NArith Bool Lia.
From LinfaVerif Require Import C20.ModelR5.
Import ListNotations.

Section Generic.
  Context {S D C M : Type}.
  Variable fit : pobj S C -> D -> M * C.

  Lemma settings_after_history_l : forall (h : list (event S D)) (p : pobj S C),
      p_settings (replay fit p h) = final_settings (p_settings p) h.
  Proof.
    induction h as [| e t IH]; intros p; [reflexivity|].
    unfold replay in *. simpl. rewrite IH. destruct e; reflexivity.
  Qed.

  Lemma final_settings_app : forall (h1 h2 : list (event S D)) (s : S),
      final_settings s (h1 ++ h2) = final_settings (final_settings s h1) h2.
  Proof.
    induction h1 as [| e t IH]; intros h2 s; [reflexivity|].
    destruct e; simpl; apply IH.
  Qed.

  Lemma final_settings_fits_only : forall (ds : list D) (s : S),
      final_settings s (map (@FitE S D) ds) = s.
  Proof. induction ds as [| d t IH]; intros s; simpl; auto. Qed.

  Lemma configure_then_fit_ignores_history_l :
    reads_only_settings fit ->
    forall (p q : pobj S C) (h1 h2 : list (event S D)) (d : D),
      final_settings (p_settings p) h1 = final_settings (p_settings q) h2 ->
      fit_after fit p h1 d = fit_after fit q h2 d.
  Proof.
    intros Hro p q h1 h2 d Heq. unfold fit_after. apply Hro.
    rewrite !settings_after_history_l. exact Heq.
  Qed.

  Lemma reconfigured_object_fits_like_fresh_l :
    reads_only_settings fit ->
    forall (p : pobj S C) (h : list (event S D)) (s : S) (c0 : C) (d : D),
      fit_after fit p (h ++ [SetE s]) d = fst (fit (mk_pobj s c0) d).
  Proof.
    intros Hro p h s c0 d.
    change (fst (fit (mk_pobj s c0) d)) with (fit_after fit (mk_pobj s c0) [] d).
    apply configure_then_fit_ignores_history_l; [exact Hro|].
    rewrite final_settings_app. reflexivity.
  Qed.

  Lemma refit_same_object_same_model_l :
    reads_only_settings fit ->
    forall (p : pobj S C) (ds : list D) (d : D),
      fit_after fit p (map (@FitE S D) ds) d = fst (fit p d).
  Proof.
    intros Hro p ds d.
    change (fst (fit p d)) with (fit_after fit p [] d).
    apply configure_then_fit_ignores_history_l; [exact Hro|].
    rewrite final_settings_fits_only. reflexivity.
  Qed.
End Generic.

(** hypotheses are satisfiable: a fit that ignores the cache reads only the settings *)
Example reads_only_settings_example :
  reads_only_settings (fun (p : pobj nat nat) (d : nat) => (p_settings p + d, d)).
Proof. intros p q d H. simpl. rewrite H. reflexivity. Qed.

(** converse witnesses *)
Lemma cached_field_fit_depends_on_history_refuted_l :
  ~ (forall (p : pobj nat (option nat)) (h : list (event nat nat)) (s : nat) (c0 : option nat) (d : nat),
        fit_after cached_fit p (h ++ [SetE s]) d = fst (cached_fit (mk_pobj s c0) d)).
Proof.
  intros H.
  specialize (H (mk_pobj 1 None) [FitE 0] 2 None 0).
  vm_compute in H. discriminate H.
Qed.

Lemma cached_fit_not_settings_only : ~ reads_only_settings cached_fit.
Proof.
  intros H. specialize (H (mk_pobj 2 (Some 1)) (mk_pobj 2 None) 0 eq_refl).
  vm_compute in H. discriminate H.
Qed.

Lemma stale_buffer_refit_depends_on_history_refuted_l :
  ~ (forall (p : pobj nat nat) (ds : list nat) (d : nat),
        fit_after stale_buffer_fit p (map (@FitE nat nat) ds) d = fst (stale_buffer_fit p d)).
Proof.
  intros H. specialize (H (mk_pobj 1 0) [5] 5).
  vm_compute in H. discriminate H.
Qed.

(** observed histories *)
Lemma hist_obs_settings_l : forall (h : list hevent) (s0 s d g : N),
    In (s, d, g) (hist_obs s0 h) ->
    exists h1 h2, h = h1 ++ HFit d g :: h2 /\ s = final_settings s0 (map erase h1).
Proof.
  induction h as [| e t IH]; intros s0 s d g Hin; [contradiction|].
  destruct e as [s' | d' g']; simpl in Hin.
  - destruct (IH _ _ _ _ Hin) as (h1 & h2 & -> & ->).
    exists (HSet s' :: h1), h2. split; reflexivity.
  - destruct Hin as [Heq | Hin].
    + inversion Heq; subst. exists [], t. split; reflexivity.
    + destruct (IH _ _ _ _ Hin) as (h1 & h2 & -> & ->).
      exists (HFit d' g' :: h1), h2. split; reflexivity.
Qed.

Lemma key_eqb_spec : forall a b, key_eqb a b = true <-> fst a = fst b.
Proof.
  intros [[s d] g] [[s' d'] g']. unfold key_eqb. simpl.
  rewrite andb_true_iff, !N.eqb_eq. split.
  - intros [-> ->]. reflexivity.
  - intros H. inversion H. auto.
Qed.

Lemma functional_pairs : forall obs, functional obs = true ->
    forall s d g g', In (s, d, g) obs -> In (s, d, g') obs -> g = g'.
Proof.
  induction obs as [| o t IH]; intros Hf s d g g' H1 H2; [contradiction|].
  simpl in Hf. apply andb_true_iff in Hf. destruct Hf as [Hhead Htail].
  rewrite forallb_forall in Hhead.
  assert (Hk : forall x y : N, key_eqb (s, d, x) (s, d, y) = true).
  { intros x y. apply key_eqb_spec. reflexivity. }
  destruct H1 as [E1 | H1], H2 as [E2 | H2].
  - subst o. inversion E2. reflexivity.
  - subst o. specialize (Hhead _ H2). rewrite Hk in Hhead. simpl in Hhead.
    apply N.eqb_eq in Hhead. exact Hhead.
  - subst o. specialize (Hhead _ H1). rewrite Hk in Hhead. simpl in Hhead.
    apply N.eqb_eq in Hhead. symmetry. exact Hhead.
  - eapply IH; eauto.
Qed.

Lemma explain_correct : forall obs, functional obs = true ->
    forall s d g, In (s, d, g) obs -> explain obs s d = g.
Proof.
  intros obs Hf s d g Hin. unfold explain.
  destruct (find (fun o => key_eqb (s, d, 0%N) o) obs) as [o |] eqn:Hfind.
  - apply find_some in Hfind. destruct Hfind as [Ho Hk].
    apply key_eqb_spec in Hk. destruct o as [[s' d'] g']. simpl in Hk. inversion Hk; subst.
    simpl. eapply functional_pairs; eauto.
  - exfalso. pose proof (find_none _ _ Hfind _ Hin) as Hn.
    assert (Ht : key_eqb (s, d, 0%N) (s, d, g) = true) by (apply key_eqb_spec; reflexivity).
    cbv beta in Hn. rewrite Ht in Hn. discriminate Hn.
Qed.

(** a run whose check succeeds is explained by a history-free function of (settings in effect, data):
    for every object, every fit in its history returned what that function says for the settings produced by
    the setter calls before it - no matter what was fitted or configured earlier *)
Lemma hist_functional_sound_l : forall objs, hist_functional objs = true ->
    exists f : N -> N -> N,
      forall s0 h, In (s0, h) objs ->
      forall h1 d g h2, h = h1 ++ HFit d g :: h2 ->
        g = f (final_settings s0 (map erase h1)) d.
Proof.
  intros objs Hf. exists (explain (all_obs objs)).
  intros s0 h Hobj h1 d g h2 ->.
  symmetry. apply explain_correct; [exact Hf|].
  unfold all_obs. apply in_flat_map. exists (s0, h1 ++ HFit d g :: h2). split; [exact Hobj|].
  simpl. clear Hobj Hf. revert s0.
  induction h1 as [| e t IH]; intros s0; simpl.
  - left. reflexivity.
  - destruct e as [s' | d' g']; simpl.
    + apply IH.
    + right. apply IH.
Qed.

(** the checker rejects a two-object history in which a stale cache shows: fresh object (settings 7) against an
    object first fitted with settings 3 and then re-configured to 7 *)
Example hist_functional_rejects :
  hist_functional [(7, [HFit 0 100]); (3, [HFit 1 55; HSet 7; HFit 0 101])]%N = false.
Proof. vm_compute. reflexivity. Qed.

Example hist_functional_accepts :
  hist_functional [(7, [HFit 0 100; HFit 0 100]); (3, [HFit 1 55; HSet 7; HFit 0 100])]%N = true.
Proof. vm_compute. reflexivity. Qed.
