(** C20 - the count vectoriser with every hash-container enumeration made an explicit parameter.

    linfa-preprocessing countgrams/mod.rs walks through containers with a per-instance
    `RandomState` at four places of `CountVectorizerValidParams::fit`:
      (1) `for word in document_vocabulary` - the `HashSet<String>` of one document's n-grams
          (decides the provisional index `vocabulary.len()` a new word receives);
      (2) `vocabulary.into_iter().filter(..).collect()` in `filter_vocabulary`;
      (3) `sorted(vocabulary.into_iter().map(|(word, (x, freq))| (Reverse(freq), Reverse(word), x)))
           .take(max_features)` in `filter_vocabulary`;
      (4) `for (word, (ref mut idx, _)) in map` in `hashmap_to_vocabulary`, which assigns the
          final column index `vec.len()` and builds `vocabulary()`.
    An [orders] value supplies the enumeration used at each place; the mechanisms themselves
    (`bump`, `filter_vocab`, `sort_key`, `reindex`, `analyze`, the tokeniser and the n-grams) are
    the transliterations of C17/Model.v.  A vocabulary map is an association list with distinct
    keys; (word, (column index, document frequency)).

    What the property compares is the word -> column-content map of a transformed corpus
    ([word_columns]): the harness builds exactly this from `vocabulary()` and the dense matrix.

    Definitions only. *)
From Coq Require Import List NArith Bool String Arith Permutation.
From LinfaVerif Require Import Common.Num C17.Model.
Import ListNotations.
Local Open Scope string_scope.

Record orders := mkOrders {
  o_set : nat -> list string -> list string;   (* (1) the HashSet of document number d *)
  o_filter : vmap -> vmap;                     (* (2) *)
  o_cut : vmap -> vmap;                        (* (3) *)
  o_index : vmap -> vmap                       (* (4) *)
}.

(* an enumeration yields every element exactly once *)
Definition fair (o : orders) : Prop :=
  (forall d l, Permutation (o_set o d l) l) /\
  (forall m, Permutation (o_filter o m) m) /\
  (forall m, Permutation (o_cut o m) m) /\
  (forall m, Permutation (o_index o m) m).

(* read_document_into_vocabulary from the token list on; C17's read_doc is the instance o_set = id *)
Definition read_doc_ord (o : orders) (nmin nmax : nat) (m : vmap) (dt : nat * list string) : vmap :=
  fold_left (fun m w => bump w (List.length m) m)
            (o_set o (fst dt) (dedup (ngrams nmin nmax (snd dt)))) m.

Definition read_docs_ord (o : orders) (nmin nmax : nat) (docs : list (list string)) : vmap :=
  fold_left (read_doc_ord o nmin nmax) (combine (seq 0 (List.length docs)) docs) [].

Definition without_cap (s : settings) : settings :=
  mkSettings (s_nmin s) (s_nmax s) (s_mindf s) (s_maxdf s) (s_stop s) None.

(* filter_vocabulary: the document-frequency window / stop words keep the relative order of the
   enumeration they are fed (into_iter().filter().collect()); the branch that returns the map
   untouched enumerates nothing, applying [o_filter] there only renames the representation *)
Definition filter_vocab_ord (o : orders) (s : settings) (m : vmap) (n_documents : nat) : vmap :=
  let v := filter_vocab (without_cap s) (o_filter o m) n_documents in
  match s_cap s with
  | Some k => firstn k (sort_key (o_cut o v))
  | None => v
  end.

(* CountVectorizerValidParams::fit: (vocabulary map with final indices, vocabulary()) *)
Definition fit_ord (o : orders) (s : settings) (docs : list (list string)) : vmap * list string :=
  reindex (o_index o (filter_vocab_ord o s (read_docs_ord o (s_nmin s) (s_nmax s) docs) (List.length docs))).

(* transform(..).to_dense(): one row per document *)
Definition dense_rows (nmin nmax : nat) (m : vmap) (docs : list (list string)) : list (list nat) :=
  map (analyze nmin nmax m) docs.

Definition dense_column (j : nat) (rows : list (list nat)) : list nat := map (fun r => nth j r 0%nat) rows.

(* for (j, w) in vocabulary().iter().enumerate() { by_word.insert(w, matrix.column(j)) } *)
Definition word_columns (nmin nmax : nat) (fitted : vmap * list string) (docs : list (list string))
  : list (string * list nat) :=
  let rows := dense_rows nmin nmax (fst fitted) docs in
  map (fun jw => (snd jw, dense_column (fst jw) rows))
      (combine (seq 0 (List.length (snd fitted))) (snd fitted)).

Fixpoint col_of {V} (w : string) (wc : list (string * V)) : option V :=
  match wc with
  | [] => None
  | (k, c) :: r => if String.eqb k w then Some c else col_of w r
  end.

(* what every fit must produce for word w: its number of occurrences among the n-grams of each document *)
Definition ref_column (nmin nmax : nat) (docs : list (list string)) (w : string) : list nat :=
  map (fun d => occ w (ngrams nmin nmax d)) docs.

(** the tf-idf vectoriser: `TfIdfVectorizer::fit` is the count vectoriser's fit, `transform` scales the
    stored counts by idf(method, number of transformed documents, number of them containing the entry).
    A stored entry is `Some value`, a structural zero of the sparse matrix is `None`. *)
Section TfIdfColumns.
Context {F : Type} (o : NumOps F) (lnf : F -> F).

Fixpoint sp_get (j : nat) (row : list (nat * F)) : option F :=
  match row with
  | [] => None
  | (i, v) :: r => if Nat.eqb i j then Some v else sp_get j r
  end.

Definition tfidf_word_columns (mt : method) (nmin nmax : nat) (fitted : vmap * list string)
    (docs : list (list string)) : list (string * list (option F)) :=
  let rows := tfidf_rows o lnf mt nmin nmax (fst fitted) docs in
  map (fun jw => (snd jw, map (sp_get (fst jw)) rows))
      (combine (seq 0 (List.length (snd fitted))) (snd fitted)).

Definition ref_tfidf_column (mt : method) (nmin nmax : nat) (docs : list (list string)) (w : string)
  : list (option F) :=
  map (fun d => let c := occ w (ngrams nmin nmax d) in
                if (0 <? c)%nat
                then Some (mul o (ofn o c) (idf o lnf mt (List.length docs) (df_ref w (map (ngrams nmin nmax) docs))))
                else None) docs.
End TfIdfColumns.

(** contrast (the kind of shortcut the permutation quantifier excludes): the max_features cut taken
    with a *stable* sort on the document frequency alone - entries of equal frequency stay in
    enumeration order, so which of them survive the cut depends on the hash seed *)
Fixpoint insert_df (a : string * (nat * nat)) (l : vmap) : vmap :=
  match l with
  | [] => [a]
  | b :: r => if (e_df b <? e_df a)%nat then a :: l else b :: insert_df a r
  end.
Definition sort_df_stable (l : vmap) : vmap := fold_right insert_df [] l.
Definition cut_df_only (k : nat) (enum : vmap) : vmap := firstn k (sort_df_stable enum).

(** executable enumerations for the run-time oracle and the examples *)
Definition rot {A} (k : nat) (l : list A) : list A :=
  let k' := Nat.modulo k (Nat.max 1 (List.length l)) in skipn k' l ++ firstn k' l.
Definition rot_orders (k : nat) : orders :=
  mkOrders (fun d l => rot (k + d) l) (rot k) (fun m => rev (rot k m)) (rot (S k)).
Definition id_orders : orders := mkOrders (fun _ l => l) (fun m => m) (fun m => m) (fun m => m).

(* the hash map [m] enumerated in the order in which the implementation listed its words *)
Definition enum_like (vocab : list string) (m : vmap) : vmap :=
  flat_map (fun w => match vget w m with Some v => [(w, v)] | None => [] end) vocab.
Fixpoint nodup_b (l : list string) : bool :=
  match l with [] => true | a :: r => (negb (mem a r) && nodup_b r)%bool end.
(* is [vocab] a duplicate-free listing of exactly the words of [m] ? *)
Definition lists_keys (vocab : list string) (m : vmap) : bool :=
  (nodup_b vocab && Nat.eqb (List.length vocab) (List.length m) && forallb (fun w => mem w (keys m)) vocab)%bool.
(* an orders value that replays an observed `vocabulary()` order at place (4): the map whose words are
   exactly [vocab] is enumerated in that order, any other map as it comes - a fair enumeration for
   every [vocab] ([observed_orders_fair]); a listing that is not a permutation of the fitted words
   replays nothing and is reported as a correspondence mismatch by C20/Corr.v *)
Definition observed_orders (vocab : list string) : orders :=
  mkOrders (fun _ l => l) (fun m => m) (fun m => m)
           (fun m => if lists_keys vocab m then enum_like vocab m else m).
