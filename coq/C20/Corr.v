(** C20 - correspondence and run-time oracles, evaluated with the binary64 instance.
    Every case carries what the implementation produced (several repetitions where hash order or
    scheduling could matter) together with the hash-map entry lists / task schedules observed
    through public iterators and a spying distance function. *)
From Coq Require Import List NArith ZArith Bool Floats String.
From LinfaVerif Require Export Common.Num Common.NdSum Common.Run C09.Model C20.Model gen.C20_seeds.
From LinfaVerif Require Import Common.B32 C17.Model C20.VocabModel.
From LinfaVerif Require C20.ModelR5.
Import ListNotations.

(* round 5, history dimension: constructors of the recorded events under the names the generated case files use *)
Definition HSet := C20.ModelR5.HSet.
Definition HFit := C20.ModelR5.HFit.

Definition o64 := B64_ops.

Inductive case :=
(* tree leaf prediction: class-frequency entries as yielded by the hash map, root prediction of several fits *)
| CModal (id : N) (entries : list (N * float)) (impls : list N)
(* naive Bayes: (class, joint log-likelihood per query) in some map order, predictions of several fits *)
| CArgmax (id : N) (entries : list (N * list float)) (impls : list (list N))
(* k-means with observed schedules: one per parallel loop of `fit`, one for `predict`, one for `transform` *)
| CPar (id : N) (m : metric) (tol : float) (fuel k : N) (inits : list (list (list float))) (X : list (list float))
       (scheds : list (list N))
       (centroids : list (list float)) (counts : list float) (inertia : float)
       (q : list (list float)) (sched_p sched_t : list N) (predict : list N) (transform : list float)
(* hierarchical clustering: surviving clusters (key, members) in some map order, labels of several transforms *)
| CHier (id : N) (n : N) (clusters : list (N * list N)) (impls : list (list N))
(* `labels()` of several calls on the same targets *)
| CLabels (id : N) (targets : list N) (observed : list (list N))
(* default parameter set behaves exactly like an explicit generator seeded with [seed] *)
| CSeed (id : N) (file type : string) (seed : N) (agrees : bool)
(* count vectoriser (lower-casing, default tokeniser, n-grams 1..nmax, max_features = cap, document-frequency
   window [mindf, maxdf] given as binary32 bit patterns, stop words) fitted several times on [train]:
   per fit the order of `vocabulary()` and the dense rows of `transform(test)` *)
| CVocab (id : N) (nmax : N) (cap : option N) (mindf maxdf : Z) (stop : option (list string))
         (train test : list string) (fits : list (list string * list (list N)))
(* history dimension (round 5): per object its initial settings id and the recorded sequence of setter calls
   (settings id) and fits / predict / transform calls (data id, digest of everything the call produced) *)
| CHist (id : N) (objs : list (N * list C20.ModelR5.hevent)).

Definition case_id (c : case) : N :=
  match c with
  | CModal id _ _ | CArgmax id _ _ | CPar id _ _ _ _ _ _ _ _ _ _ _ _ _ _ _
  | CHier id _ _ _ | CLabels id _ _ | CSeed id _ _ _ _ | CVocab id _ _ _ _ _ _ _ _ | CHist id _ => id
  end.

Definition opt_N_eqb (a : option N) (b : N) : bool := match a with Some x => N.eqb x b | None => false end.
Definition listN_eqb := list_eqb N.eqb.

Definition all_equal {A} (eqA : A -> A -> bool) (l : list A) : bool :=
  match l with [] => true | a :: t => forallb (eqA a) t end.

Definition rows_eqb (a b : list (list float)) : bool := list_eqb (list_eqb f64_biteq) a b.

(* is [s] a permutation of 0 .. n-1 ? *)
Definition is_perm_of_range (n : nat) (s : list N) : bool :=
  Nat.eqb (List.length s) n &&
  forallb (fun i => Nat.eqb (count_occ N.eq_dec s (N.of_nat i)) 1) (seq 0 n).

Definition sched_nat (s : list N) : list nat := map N.to_nat s.

(* weight of a label in an entry list *)
Definition max_weight (entries : list (N * float)) : float :=
  fold_left (fun mx e => if PrimFloat.ltb mx (snd e) then snd e else mx) entries neg_infinity.
Definition is_modal (entries : list (N * float)) (l : N) : bool :=
  existsb (fun e => N.eqb (fst e) l && PrimFloat.eqb (snd e) (max_weight entries)) entries.

Definition site_fixed_seed (file ty : string) : option N :=
  match find (fun s => String.eqb (s_file s) file && String.eqb (s_type s) ty
                       && match s_kind s with Fixed _ => true | _ => false end) rng_sites with
  | Some s => match s_kind s with Fixed n => Some n | _ => None end
  | None => None
  end.

(** vectoriser: settings, tokens, observed word -> column maps *)
Definition vocab_settings (nmax : N) (cap : option N) (mindf maxdf : Z) (stop : option (list string)) : settings :=
  mkSettings 1 (N.to_nat nmax) (b32_of_bits mindf) (b32_of_bits maxdf) stop (option_map N.to_nat cap).
Definition doc_tokens (d : string) : list string := tokenize (transform_string true d).

Definition listnat_eqb := list_eqb Nat.eqb.
Definition opt_col_eqb (a b : option (list nat)) : bool :=
  match a, b with
  | Some x, Some y => listnat_eqb x y
  | None, None => true
  | _, _ => false
  end.
Definition same_words (a b : list string) : bool :=
  (forallb (fun w => mem w b) a && forallb (fun w => mem w a) b && Nat.eqb (List.length a) (List.length b))%bool.
Fixpoint nodup_words (l : list string) : bool :=
  match l with [] => true | a :: r => (negb (mem a r) && nodup_words r)%bool end.

(* the observed matrix read as word -> column, exactly like [word_columns] reads the model's *)
Definition observed_columns (fit : list string * list (list N)) : list (string * list nat) :=
  let rows := map (map N.to_nat) (snd fit) in
  map (fun jw => (snd jw, dense_column (fst jw) rows)) (combine (seq 0 (List.length (fst fit))) (fst fit)).

Definition same_columns (words : list string) (c1 c2 : list (string * list nat)) : bool :=
  (Nat.eqb (List.length c1) (List.length c2) && forallb (fun w => opt_col_eqb (col_of w c1) (col_of w c2)) words)%bool.

Definition run_case (c : case) : verdict :=
  match c with
  | CModal id entries impls =>
      let m := modal_class o64 entries in
      (* the same entries as binary32 values (the weights are `f32`, shipped widened): the model at B32_ops must
         agree, and the weights must satisfy the hypothesis of modal_class_b32_order_independent *)
      let e32 := map (fun e => (fst e, b32_of_b64 (Prim2SF (snd e)))) entries in
      let m32 := modal_class B32_ops e32 in
      (id,
       ((flag (match impls with p :: _ => opt_N_eqb m p && opt_N_eqb m32 p | [] => true end
               && forallb (fun e => b32_finite (snd e)) e32) 1
         + flag (forallb (is_modal entries) impls) 2)%N,
        (flag (all_equal N.eqb impls) 1
         + flag (forallb (fun p => match modal_class o64 p, m with
                                   | Some a, Some b => N.eqb a b
                                   | None, None => true
                                   | _, _ => false
                                   end) (reorderings entries)) 4)%N))
  | CArgmax id entries impls =>
      let nq := match entries with e :: _ => List.length (snd e) | [] => 0%nat end in
      let m := nb_predict o64 entries nq in
      (id,
       (flag (match impls with p :: _ => listN_eqb m p | [] => true end) 1,
        (flag (all_equal listN_eqb impls) 1
         + flag (forallb (fun p => listN_eqb (nb_predict o64 p nq) m) (reorderings entries)) 4)%N))
  | CPar id m tol fuel k inits X scheds cs counts inertia q sp st pr tr =>
      let n := List.length X in
      let corr_fit :=
        match fit_par o64 m tol (N.to_nat fuel) (N.to_nat k) inits X (map sched_nat scheds) with
        | None => 1%N
        | Some f =>
            (flag (rows_eqb (f_centroids f) cs) 1
             + flag (list_eqb f64_biteq (f_counts f) counts) 2
             + flag (f64_biteq (f_inertia f) inertia) 4)%N
        end in
      let nq := List.length q in
      let mp := update_cluster_memberships o64 m cs q (sched_nat sp) (repeat 0%nat nq) in
      let mt := update_min_dists o64 m cs q (sched_nat st) (repeat 0%float nq) in
      (id,
       ((corr_fit
         + flag (listN_eqb (map N.of_nat mp) pr) 8
         + flag (list_eqb f64_biteq mt tr) 16)%N,
        flag (forallb (is_perm_of_range n) scheds && is_perm_of_range nq sp && is_perm_of_range nq st) 8))
  | CHier id n clusters impls =>
      let m := hier_labels (N.to_nat n) clusters in
      (id,
       (flag (match impls with p :: _ => listN_eqb m p | [] => true end) 1,
        (flag (all_equal listN_eqb impls) 1
         + flag (forallb (fun p => listN_eqb (hier_labels (N.to_nat n) p) m) (reorderings clusters)) 4)%N))
  | CLabels id targets observed =>
      let want := labels_sorted (nodup N.eq_dec targets) in
      (id,
       (flag (forallb (fun obs => listN_eqb (labels_sorted obs) want) observed) 1,
        flag (all_equal listN_eqb (map labels_sorted observed)) 1))
  | CSeed id file ty seed agrees =>
      (id,
       ((flag (match site_fixed_seed file ty with Some s => N.eqb s seed | None => false end) 1
         + flag agrees 2)%N,
        0%N))
  | CVocab id nmax cap mindf maxdf stop train test fits =>
      let s := vocab_settings nmax cap mindf maxdf stop in
      let tr := map doc_tokens train in
      let te := map doc_tokens test in
      (* the model run with the identity enumerations, and with each observed `vocabulary()` order replayed *)
      let ref_fit := fit_ord id_orders s tr in
      let words := snd ref_fit in
      let ref_cols := word_columns 1 (N.to_nat nmax) ref_fit te in
      let replay := fun vocab => fit_ord (observed_orders vocab) s tr in
      (id,
       ((flag (forallb (fun f => same_words words (fst f) && nodup_words (fst f)) fits) 1
         + flag (forallb (fun f => list_eqb listnat_eqb
                                     (dense_rows 1 (N.to_nat nmax) (fst (replay (fst f))) te)
                                     (map (map N.to_nat) (snd f))
                                   && list_eqb String.eqb (snd (replay (fst f))) (fst f)) fits) 2)%N,
        (flag (match fits with
               | [] => true
               | f0 :: r => forallb (fun f => same_columns (fst f0) (observed_columns f0) (observed_columns f)) r
               end) 1
         + flag (forallb (fun o => same_columns words ref_cols (word_columns 1 (N.to_nat nmax) (fit_ord o s tr) te))
                         (map rot_orders (seq 1 4) ++ map (fun f => observed_orders (fst f)) fits)) 4)%N))
  | CHist id objs =>
      (* the settings in effect at each fit are computed by C20/ModelR5.v hist_obs (last setter call wins); the
         observed digests must be a function of (settings in effect, data): hist_functional_sound *)
      (id, (0%N, flag (C20.ModelR5.hist_functional objs) 32))
  end.

Definition run_cases (cs : list case) : list N := report (map run_case cs).
