(** C20 - lemmas: schedule independence of the parallel loops, order independence of the
    hash-map consumers, obligations over the translated RNG / parallel-construct tables. *)
From Coq Require Import List NArith Bool Permutation Sorted Reals Lra Lia Floats.
From LinfaVerif Require Import Common.Num Common.NdSum Common.B32 C09.Model C09.Proofs C20.Model C20.F32Add gen.C20_seeds.
Import ListNotations.

(** * 0. list toolkit *)
Lemma nth_error_upd_same {A} (l : list A) k f :
  nth_error (upd l k f) k = option_map f (nth_error l k).
Proof. revert k; induction l as [|a l IH]; intros [|k]; simpl; auto. Qed.

Lemma nth_error_upd_other {A} (l : list A) k i f : i <> k -> nth_error (upd l k f) i = nth_error l i.
Proof.
  revert k i; induction l as [|a l IH]; intros [|k] [|i] H; simpl; auto; try congruence.
Qed.

Lemma nth_error_extensional {A} : forall l1 l2 : list A,
  (forall i, nth_error l1 i = nth_error l2 i) -> l1 = l2.
Proof.
  induction l1 as [|a l1 IH]; intros [|b l2] H; auto.
  - specialize (H 0%nat); discriminate.
  - specialize (H 0%nat); discriminate.
  - f_equal; [specialize (H 0%nat); simpl in H; congruence|].
    apply IH; intros i; exact (H (S i)).
Qed.

Lemma existsb_eqb_In i l : existsb (Nat.eqb i) l = true <-> In i l.
Proof.
  rewrite existsb_exists; split.
  - intros [x [Hx E]]. apply Nat.eqb_eq in E; subst; auto.
  - intros H; exists i; split; auto. apply Nat.eqb_refl.
Qed.

(** * 1. parallel loops *)
Section ParProofs.
Context {I C : Type}.

Lemma run_sched_length (inp : I) (tasks : list (I -> C)) sched : forall init,
  length (run_sched inp tasks sched init) = length init.
Proof.
  unfold run_sched; induction sched as [|j s IH]; intros init; simpl; auto.
  rewrite IH. destruct (nth_error tasks j); auto. unfold set_cell; apply upd_length.
Qed.

(* cell i holds task i's value iff task i was scheduled at least once, the old content otherwise *)
Lemma run_sched_spec (inp : I) (tasks : list (I -> C)) sched : forall init,
  length init = length tasks ->
  forall i, nth_error (run_sched inp tasks sched init) i =
            if existsb (Nat.eqb i) sched then option_map (fun t => t inp) (nth_error tasks i)
            else nth_error init i.
Proof.
  unfold run_sched; induction sched as [|j s IH]; intros init Hl i; simpl; auto.
  set (init' := match nth_error tasks j with Some t => set_cell init j (t inp) | None => init end).
  assert (Hl' : length init' = length tasks).
  { unfold init'; destruct (nth_error tasks j); auto. unfold set_cell; rewrite upd_length; auto. }
  rewrite (IH init' Hl' i).
  destruct (existsb (Nat.eqb i) s) eqn:Es; [rewrite orb_true_r; reflexivity|].
  rewrite orb_false_r. destruct (Nat.eqb i j) eqn:Eij.
  - apply Nat.eqb_eq in Eij; subst j. unfold init'.
    destruct (nth_error tasks i) as [t|] eqn:Et; simpl.
    + unfold set_cell. rewrite nth_error_upd_same.
      destruct (nth_error init i) eqn:Ei; simpl; auto.
      exfalso. apply nth_error_None in Ei. assert (i < length tasks)%nat by (apply nth_error_Some; congruence). lia.
    + apply nth_error_None. apply nth_error_None in Et. lia.
  - apply Nat.eqb_neq in Eij. unfold init'. destruct (nth_error tasks j); auto.
    unfold set_cell. apply nth_error_upd_other; auto.
Qed.

(** any schedule in which every task occurs (once or several times, in any order, whatever the
    previous content of the output array) produces exactly the sequential result *)
Lemma run_sched_covering (inp : I) (tasks : list (I -> C)) sched init :
  length init = length tasks ->
  (forall i, (i < length tasks)%nat -> In i sched) ->
  run_sched inp tasks sched init = run_seq inp tasks.
Proof.
  intros Hl Hc. apply nth_error_extensional; intros i.
  rewrite (run_sched_spec inp tasks sched init Hl i). unfold run_seq. rewrite nth_error_map.
  destruct (existsb (Nat.eqb i) sched) eqn:E; auto.
  destruct (Nat.lt_ge_cases i (length tasks)) as [Hi|Hi].
  - apply Hc in Hi. apply existsb_eqb_In in Hi. congruence.
  - assert (H1 : nth_error tasks i = None) by (apply nth_error_None; lia).
    assert (H2 : nth_error init i = None) by (apply nth_error_None; lia).
    rewrite H1, H2; reflexivity.
Qed.

Lemma perm_range_covers n sched : Permutation sched (seq 0 n) -> forall i, (i < n)%nat -> In i sched.
Proof.
  intros P i Hi. apply (Permutation_in i (Permutation_sym P)). apply in_seq; lia.
Qed.
End ParProofs.

(** workers: the tasks are split into chunks, every worker runs its chunk in order, the pool
    interleaves the workers arbitrarily *)
Inductive interleave {A} : list (list A) -> list A -> Prop :=
| il_done : forall chunks, Forall (fun ch => ch = []) chunks -> interleave chunks []
| il_step : forall pre ch x post rest,
    interleave (pre ++ ch :: post) rest -> interleave (pre ++ (x :: ch) :: post) (x :: rest).

Lemma concat_all_nil {A} (chunks : list (list A)) : Forall (fun ch => ch = []) chunks -> concat chunks = [].
Proof. induction 1 as [|ch chunks H _ IH]; simpl; auto. subst; auto. Qed.

Lemma interleave_perm {A} (chunks : list (list A)) l : interleave chunks l -> Permutation l (concat chunks).
Proof.
  induction 1 as [chunks H|pre ch x post rest _ IH].
  - rewrite concat_all_nil; auto.
  - rewrite concat_app in *. simpl in *. rewrite <- Permutation_middle. constructor. exact IH.
Qed.

(** * 2. the k-means loops and the whole fit *)
Section KMeansProofs.
Context {F : Type} (o : NumOps F).

Definition covers (n : nat) (s : list nat) : Prop := forall i, (i < n)%nat -> In i s.

Lemma covers_seq n : covers n (seq 0 n).
Proof. intros i Hi; apply in_seq; lia. Qed.

Lemma km_tasks_length m (X : list (list F)) : length (km_tasks o m X) = length X.
Proof. unfold km_tasks; apply map_length. Qed.

Lemma km_tasks_seq m cs (X : list (list F)) : run_seq cs (km_tasks o m X) = assign o m cs X.
Proof. unfold run_seq, km_tasks, assign. rewrite map_map. reflexivity. Qed.

Lemma update_memberships_and_dists_covering m cs X s old :
  length old = length X -> covers (length X) s ->
  update_memberships_and_dists o m cs X s old = assign o m cs X.
Proof.
  intros Hl Hc. unfold update_memberships_and_dists. rewrite <- km_tasks_seq.
  apply run_sched_covering; rewrite km_tasks_length; auto.
Qed.

Lemma update_cluster_memberships_covering m cs X s old :
  length old = length X -> covers (length X) s ->
  update_cluster_memberships o m cs X s old = predict o m cs X.
Proof.
  intros Hl Hc. unfold update_cluster_memberships, predict.
  rewrite run_sched_covering; rewrite ?map_length; auto.
  unfold run_seq. rewrite map_map. reflexivity.
Qed.

Lemma update_min_dists_covering m cs X s old :
  length old = length X -> covers (length X) s ->
  update_min_dists o m cs X s old = transform o m cs X.
Proof.
  intros Hl Hc. unfold update_min_dists, transform.
  rewrite run_sched_covering; rewrite ?map_length; auto.
  unfold run_seq. rewrite map_map. reflexivity.
Qed.

Lemma next_sched_covers n scheds s rest :
  Forall (covers n) scheds -> next_sched n scheds = (s, rest) -> covers n s /\ Forall (covers n) rest.
Proof.
  intros H E. destruct scheds as [|s0 r]; simpl in E; inversion E; subst.
  - split; [apply covers_seq | constructor].
  - inversion H; subst; auto.
Qed.

Lemma assign_length m cs (X : list (list F)) : length (assign o m cs X) = length X.
Proof. unfold assign; apply map_length. Qed.

Lemma lloyd_par_eq m tol fuel X : forall cs scheds arr,
  length arr = length X -> Forall (covers (length X)) scheds ->
  let '(cs', rest, arr') := lloyd_par o m tol fuel cs X scheds arr in
  cs' = lloyd o m tol fuel cs X /\ Forall (covers (length X)) rest /\ length arr' = length X.
Proof.
  induction fuel as [|f IH]; intros cs scheds arr Hl Hs; cbn [lloyd_par lloyd].
  - auto.
  - destruct (next_sched (length X) scheds) as [s rest] eqn:En.
    destruct (next_sched_covers _ _ _ _ Hs En) as [Hc Hr].
    rewrite (update_memberships_and_dists_covering m cs X s arr Hl Hc).
    fold (step o m cs X).
    destruct (ltb o (dist o m (concat cs) (concat (step o m cs X))) tol).
    + repeat split; auto. apply assign_length.
    + apply IH; auto. apply assign_length.
Qed.

Lemma one_run_par_eq m tol fuel init X scheds arr :
  length arr = length X -> Forall (covers (length X)) scheds ->
  let '(r, rest, arr') := one_run_par o m tol fuel init X scheds arr in
  r = one_run o m tol fuel init X /\ Forall (covers (length X)) rest /\ length arr' = length X.
Proof.
  intros Hl Hs. unfold one_run_par.
  pose proof (lloyd_par_eq m tol fuel X init scheds arr Hl Hs) as H.
  destruct (lloyd_par o m tol fuel init X scheds arr) as [[cs rest] arr1].
  destruct H as [Hcs [Hr Hl1]].
  destruct (next_sched (length X) rest) as [s rest'] eqn:En.
  destruct (next_sched_covers _ _ _ _ Hr En) as [Hc Hr'].
  rewrite (update_memberships_and_dists_covering m cs X s arr1 Hl1 Hc).
  subst cs. repeat split; auto. apply assign_length.
Qed.

Lemma restarts_par_eq m tol fuel X : forall inits best scheds arr,
  length arr = length X -> Forall (covers (length X)) scheds ->
  fst (fold_left (fun st init =>
                    let '(best, (sc, arr)) := st in
                    let '(r, sc', arr') := one_run_par o m tol fuel init X sc arr in
                    (better o best r, (sc', arr')))
                 inits (best, (scheds, arr)))
  = fold_left (fun best init => better o best (one_run o m tol fuel init X)) inits best.
Proof.
  induction inits as [|i inits IH]; intros best scheds arr Hl Hs; simpl; auto.
  pose proof (one_run_par_eq m tol fuel i X scheds arr Hl Hs) as H.
  destruct (one_run_par o m tol fuel i X scheds arr) as [[r sc'] arr'].
  destruct H as [Hr [Hs' Hl']]. subst r. apply IH; auto.
Qed.

Lemma fit_par_eq m tol fuel k inits X scheds :
  Forall (covers (length X)) scheds ->
  fit_par o m tol fuel k inits X scheds = fit o m tol fuel k inits X.
Proof.
  intros Hs. unfold fit_par, fit, restarts_par, restarts.
  rewrite restarts_par_eq; auto. apply repeat_length.
Qed.
End KMeansProofs.

(** a *reduction* taken in schedule order is not schedule independent in binary64 *)
Lemma reduce_order_dependent_b64 :
  reduce_in_order B64_ops [0x1p+53; 1; 1]%float [0; 1; 2]%nat
  <> reduce_in_order B64_ops [0x1p+53; 1; 1]%float [1; 2; 0]%nat.
Proof. intros H. apply (f_equal Prim2SF) in H. vm_compute in H. discriminate H. Qed.

(** * 3. hash-order consumers *)

(** ** sorting by pairwise distinct keys forgets the input order *)
Section SortProofs.
Context {A : Type}.
Definition key_le (a b : N * A) : Prop := (fst a <= fst b)%N.

Lemma insert_by_key_perm (e : N * A) l : Permutation (insert_by_key e l) (e :: l).
Proof.
  induction l as [|h t IH]; simpl; auto.
  destruct (N.leb (fst e) (fst h)); auto.
  rewrite IH. apply perm_swap.
Qed.

Lemma sort_by_key_perm (l : list (N * A)) : Permutation (sort_by_key l) l.
Proof.
  induction l as [|h t IH]; simpl; auto.
  rewrite insert_by_key_perm. constructor; auto.
Qed.

Lemma insert_by_key_sorted (e : N * A) l :
  StronglySorted key_le l -> StronglySorted key_le (insert_by_key e l).
Proof.
  induction l as [|h t IH]; intros S; simpl.
  - constructor; auto.
  - inversion S as [|? ? St Ht]; subst.
    destruct (N.leb (fst e) (fst h)) eqn:E.
    + apply N.leb_le in E. constructor; auto. constructor; auto.
      eapply Forall_impl; [|exact Ht]. intros a Ha; unfold key_le in *; lia.
    + apply N.leb_gt in E. constructor; auto.
      apply (Permutation_Forall (x := e :: t)); [symmetry; apply insert_by_key_perm|].
      constructor; auto. unfold key_le; lia.
Qed.

Lemma sort_by_key_sorted (l : list (N * A)) : StronglySorted key_le (sort_by_key l).
Proof. induction l as [|h t IH]; simpl; [constructor | apply insert_by_key_sorted; auto]. Qed.

Lemma nodup_keys_inj (l : list (N * A)) a b :
  NoDup (map fst l) -> In a l -> In b l -> fst a = fst b -> a = b.
Proof.
  induction l as [|h t IH]; intros ND Ha Hb E; [contradiction|].
  simpl in ND. inversion ND as [|? ? Hn ND']; subst.
  destruct Ha as [Ha|Ha], Hb as [Hb|Hb]; subst; auto.
  - exfalso; apply Hn. rewrite E. apply in_map; auto.
  - exfalso; apply Hn. rewrite <- E. apply in_map; auto.
Qed.

Lemma sorted_perm_unique : forall l1 l2 : list (N * A),
  StronglySorted key_le l1 -> StronglySorted key_le l2 ->
  NoDup (map fst l1) -> Permutation l1 l2 -> l1 = l2.
Proof.
  induction l1 as [|a t1 IH]; intros l2 S1 S2 ND P.
  - apply Permutation_nil in P; auto.
  - destruct l2 as [|b t2]; [apply Permutation_sym, Permutation_nil in P; discriminate|].
    inversion S1 as [|? ? S1' H1]; inversion S2 as [|? ? S2' H2]; subst.
    assert (a = b).
    { assert (Ha : In a (b :: t2)) by (apply (Permutation_in a P); left; auto).
      assert (Hb : In b (a :: t1)) by (apply (Permutation_in b (Permutation_sym P)); left; auto).
      destruct Ha as [Ha|Ha]; [auto|]. destruct Hb as [Hb|Hb]; [auto|].
      rewrite Forall_forall in H1, H2. specialize (H1 b Hb). specialize (H2 a Ha).
      unfold key_le in *. apply (nodup_keys_inj (a :: t1)); auto; [left; auto | right; auto | lia]. }
    subst b. f_equal. apply IH; auto.
    + simpl in ND; inversion ND; auto.
    + apply Permutation_cons_inv with (a := a); auto.
Qed.

Lemma sort_by_key_order_free (l1 l2 : list (N * A)) :
  NoDup (map fst l1) -> Permutation l1 l2 -> sort_by_key l1 = sort_by_key l2.
Proof.
  intros ND P. apply sorted_perm_unique; try apply sort_by_key_sorted.
  - apply (Permutation_NoDup (l := map fst l1)); auto.
    apply Permutation_map. symmetry. apply sort_by_key_perm.
  - rewrite sort_by_key_perm. rewrite P. symmetry. apply sort_by_key_perm.
Qed.
End SortProofs.

(** ** modal class: the repaired rule is a maximum for a strict total order on (label, weight) *)
Local Open Scope R_scope.
Definition worse (e b : N * R) : Prop := snd e < snd b \/ (snd b = snd e /\ (fst b < fst e)%N).
Definition worse_eq (e b : N * R) : Prop := worse e b \/ e = b.

Lemma modal_test_spec (e b : N * R) :
  (ltb R_ops (snd e) (snd b) || (eqb R_ops (snd b) (snd e) && N.ltb (fst b) (fst e)))%bool = true <-> worse e b.
Proof.
  simpl. unfold worse. rewrite orb_true_iff, andb_true_iff, Rltb_true, Reqb_true, N.ltb_lt. tauto.
Qed.

Lemma worse_total (e b : N * R) : ~ worse e b -> worse_eq b e.
Proof.
  unfold worse_eq, worse. intros H. destruct e as [le we], b as [lb wb]; simpl in *.
  destruct (Rtotal_order we wb) as [Hlt|[Heq|Hgt]].
  - exfalso; apply H; auto.
  - subst. destruct (N.lt_trichotomy lb le) as [Hl|[Hl|Hl]].
    + exfalso; apply H; auto.
    + subst; auto.
    + left; right; auto.
  - left; left; lra.
Qed.

Lemma worse_trans (a b c : N * R) : worse a b -> worse b c -> worse a c.
Proof.
  unfold worse. intros [H1|[H1 H1']] [H2|[H2 H2']].
  - left; lra.
  - left; lra.
  - left; lra.
  - right; split; [congruence|lia].
Qed.

Lemma worse_eq_trans (a b c : N * R) : worse_eq a b -> worse_eq b c -> worse_eq a c.
Proof.
  intros [H1|H1] [H2|H2]; subst; unfold worse_eq; auto. left; eapply worse_trans; eauto.
Qed.

Lemma worse_asym (a b : N * R) : worse a b -> worse b a -> False.
Proof. unfold worse. intros [H1|[H1 H1']] [H2|[H2 H2']]; try lra; try lia. Qed.

Lemma modal_fold_spec : forall l b m,
  fold_left (modal_step R_ops) l (Some b) = Some m ->
  (m = b \/ In m l) /\ worse_eq b m /\ forall e, In e l -> worse_eq e m.
Proof.
  induction l as [|e l IH]; intros b m H; simpl in H.
  - inversion H; subst. repeat split; auto; [right; auto | intros e []].
  - match type of H with context [if ?c then _ else _] => destruct c eqn:T end.
    + apply modal_test_spec in T. destruct (IH b m H) as [Hin [Hb Hall]].
      repeat split; auto.
      * destruct Hin; [left | right; right]; auto.
      * intros e' [He'|He']; [subst e'|auto]. apply worse_eq_trans with b; auto. left; auto.
    + assert (T' : ~ worse e b) by (intros W; apply modal_test_spec in W; simpl in W; rewrite W in T; discriminate T).
      apply worse_total in T'. destruct (IH e m H) as [Hin [He Hall]].
      repeat split.
      * destruct Hin; [right; left | right; right]; auto.
      * apply worse_eq_trans with e; auto.
      * intros e' [He'|He']; [subst e'|]; auto.
Qed.

Lemma modal_fold_none_iff (l : list (N * R)) : fold_left (modal_step R_ops) l None = None <-> l = [].
Proof.
  split; [|intros ->; auto]. destruct l as [|e l]; auto. simpl.
  assert (G : forall l b, fold_left (modal_step R_ops) l (Some b) <> None).
  { induction l0 as [|e' l' IH]; intros b; simpl; [discriminate|].
    match goal with |- context [if ?c then _ else _] => destruct c end; apply IH. }
  intros H; exfalso; eapply G; eauto.
Qed.

Lemma modal_max_spec (l : list (N * R)) m :
  fold_left (modal_step R_ops) l None = Some m -> In m l /\ forall e, In e l -> worse_eq e m.
Proof.
  destruct l as [|b l]; simpl; [discriminate|]. intros H.
  destruct (modal_fold_spec l b m H) as [Hin [Hb Hall]]. split.
  - destruct Hin; [left | right]; auto.
  - intros e [He|He]; subst; auto.
Qed.

Lemma modal_fold_perm (l1 l2 : list (N * R)) :
  Permutation l1 l2 -> fold_left (modal_step R_ops) l1 None = fold_left (modal_step R_ops) l2 None.
Proof.
  intros P.
  destruct (fold_left (modal_step R_ops) l1 None) as [m1|] eqn:E1;
  destruct (fold_left (modal_step R_ops) l2 None) as [m2|] eqn:E2; auto.
  - destruct (modal_max_spec _ _ E1) as [I1 M1]. destruct (modal_max_spec _ _ E2) as [I2 M2].
    assert (W1 : worse_eq m2 m1) by (apply M1; apply (Permutation_in m2 (Permutation_sym P)); auto).
    assert (W2 : worse_eq m1 m2) by (apply M2; apply (Permutation_in m1 P); auto).
    destruct W1 as [W1|W1]; [|congruence]. destruct W2 as [W2|W2]; [|congruence].
    exfalso; eapply worse_asym; eauto.
  - apply modal_fold_none_iff in E2; subst. apply Permutation_sym, Permutation_nil in P; subst. discriminate.
  - apply modal_fold_none_iff in E1; subst. apply Permutation_nil in P; subst. discriminate.
Qed.

(** ** the rule before F11 was order free only when the maximal weight is attained once *)
Lemma modal_old_fold_spec : forall (l : list (N * R)) b m,
  fold_left (modal_step_old R_ops) l (Some b) = Some m ->
  (m = b \/ In m l) /\ snd b <= snd m /\ forall e, In e l -> snd e <= snd m.
Proof.
  induction l as [|e l IH]; intros b m H; simpl in H.
  - inversion H; subst. repeat split; auto; [lra | intros e []].
  - destruct (Rltb (snd e) (snd b)) eqn:T.
    + apply Rltb_true in T. destruct (IH b m H) as [Hin [Hb Hall]]. repeat split; auto.
      * destruct Hin; [left | right; right]; auto.
      * intros e' [He'|He']; [subst; lra | auto].
    + apply Rltb_false in T. destruct (IH e m H) as [Hin [He Hall]]. repeat split.
      * destruct Hin; [right; left | right; right]; auto.
      * lra.
      * intros e' [He'|He']; [subst; lra | auto].
Qed.

Lemma modal_old_fold_some : forall (l : list (N * R)) b,
  exists m, fold_left (modal_step_old R_ops) l (Some b) = Some m.
Proof.
  induction l as [|e l IH]; intros b; simpl; [eauto|]. destruct (Rltb (snd e) (snd b)); apply IH.
Qed.

Lemma pair_eq_dec_NR (a b : N * R) : {a = b} + {a <> b}.
Proof.
  destruct a as [n r], b as [n0 r0]. destruct (N.eq_dec n n0), (Req_EM_T r r0); subst;
    [left; reflexivity | right; congruence | right; congruence | right; congruence].
Qed.

Lemma modal_old_unique_max (l : list (N * R)) m :
  In m l -> (forall e, In e l -> e <> m -> snd e < snd m) -> modal_class_old R_ops l = Some (fst m).
Proof.
  intros Hin Hu. unfold modal_class_old. destruct l as [|b l]; [contradiction|]. simpl.
  destruct (modal_old_fold_some l b) as [m' E]. rewrite E. simpl.
  destruct (modal_old_fold_spec l b m' E) as [Hin' [Hb Hall]].
  assert (I' : In m' (b :: l)) by (destruct Hin' as [->|Hi]; [left; reflexivity | right; exact Hi]).
  assert (Hle : snd m <= snd m') by (destruct Hin as [Hi|Hi]; [subst b; exact Hb | apply Hall; exact Hi]).
  destruct (pair_eq_dec_NR m' m) as [->|Hne]; [reflexivity|].
  specialize (Hu m' I' Hne). lra.
Qed.

(** ** minimum over clusters (silhouette) *)
Lemma min_over_some_spec : forall (l : list R) b m,
  fold_left (fun acc v => match acc with None => Some v | Some mn => if ltb R_ops v mn then Some v else Some mn end)
            l (Some b) = Some m ->
  (m = b \/ In m l) /\ m <= b /\ forall v, In v l -> m <= v.
Proof.
  induction l as [|v l IH]; intros b m H; simpl in H.
  - inversion H; subst. repeat split; auto; [lra | intros v []].
  - destruct (Rltb v b) eqn:T.
    + apply Rltb_true in T. destruct (IH v m H) as [Hin [Hv Hall]]. repeat split.
      * destruct Hin; [right; left | right; right]; auto.
      * lra.
      * intros v' [Hv'|Hv']; [subst; lra | auto].
    + apply Rltb_false in T. destruct (IH b m H) as [Hin [Hb Hall]]. repeat split; auto.
      * destruct Hin; [left | right; right]; auto.
      * intros v' [Hv'|Hv']; [subst; lra | auto].
Qed.

Lemma min_over_perm (l1 l2 : list R) : Permutation l1 l2 -> min_over R_ops l1 = min_over R_ops l2.
Proof.
  intros P. unfold min_over.
  assert (NoneIff : forall l : list R,
    fold_left (fun acc v => match acc with None => Some v | Some mn => if ltb R_ops v mn then Some v else Some mn end) l None = None -> l = []).
  { destruct l as [|v l]; auto. simpl.
    assert (G : forall (l : list R) b, fold_left (fun acc v => match acc with None => Some v | Some mn => if ltb R_ops v mn then Some v else Some mn end) l (Some b) <> None).
    { induction l0 as [|v' l' IH]; intros b; simpl; [discriminate|]. destruct (Rltb v' b); apply IH. }
    intros H; exfalso; eapply G; eauto. }
  assert (Spec : forall (l : list R) m,
    fold_left (fun acc v => match acc with None => Some v | Some mn => if ltb R_ops v mn then Some v else Some mn end) l None = Some m ->
    In m l /\ forall v, In v l -> m <= v).
  { destruct l as [|b l]; simpl; [discriminate|]. intros m H.
    destruct (min_over_some_spec l b m H) as [Hin [Hb Hall]]. split.
    - destruct Hin; [left | right]; auto.
    - intros v [Hv|Hv]; subst; auto. }
  destruct (fold_left _ l1 None) as [m1|] eqn:E1; destruct (fold_left _ l2 None) as [m2|] eqn:E2; auto.
  - destruct (Spec _ _ E1) as [I1 M1]. destruct (Spec _ _ E2) as [I2 M2].
    assert (m1 <= m2) by (apply M1; apply (Permutation_in m2 (Permutation_sym P)); auto).
    assert (m2 <= m1) by (apply M2; apply (Permutation_in m1 P); auto).
    f_equal; lra.
  - apply NoneIff in E2; subst. apply Permutation_sym, Permutation_nil in P; subst. discriminate.
  - apply NoneIff in E1; subst. apply Permutation_nil in P; subst. discriminate.
Qed.

(** ** sums: exact for integers and reals, order dependent in floating point *)
Lemma fold_left_Nadd_perm (l1 l2 : list N) :
  Permutation l1 l2 -> forall a, fold_left N.add l1 a = fold_left N.add l2 a.
Proof.
  induction 1 as [|x l l' _ IH|x y l|l l' l'' _ IH1 _ IH2]; intros a; simpl; auto.
  - f_equal; lia.
  - rewrite IH1; auto.
Qed.

Lemma fold_left_Rplus_perm (l1 l2 : list R) :
  Permutation l1 l2 -> forall a, fold_left Rplus l1 a = fold_left Rplus l2 a.
Proof.
  induction 1 as [|x l l' _ IH|x y l|l l' l'' _ IH1 _ IH2]; intros a; simpl; auto.
  - f_equal; lra.
  - rewrite IH1; auto.
Qed.

(** sums of small integers are exact, hence order free, in any arithmetic that adds small
    integers exactly (binary32 below 2^24: unit-weight class frequencies of the decision tree) *)
Section SmallInt.
Context {F : Type} (o : NumOps F) (bound : N).
Hypothesis exact_add : forall a b, (a + b <= bound)%N -> add o (of_N o a) (of_N o b) = of_N o (a + b).
Hypothesis of_N_0 : of_N o 0%N = zero o.

Lemma fold_Nadd_mono (ns : list N) : forall a : N, (a <= fold_left N.add ns a)%N.
Proof. induction ns as [|n ns IH]; intros a; simpl; [lia|]. specialize (IH (a + n)%N). lia. Qed.

Lemma seq_sum_small_ints_acc (ns : list N) : forall a : N,
  (fold_left N.add ns a <= bound)%N ->
  fold_left (add o) (map (of_N o) ns) (of_N o a) = of_N o (fold_left N.add ns a).
Proof.
  induction ns as [|n ns IH]; intros a H; simpl in *; auto.
  rewrite exact_add; [apply IH; auto|]. pose proof (fold_Nadd_mono ns (a + n)%N). lia.
Qed.

Lemma seq_sum_small_ints (ns : list N) :
  (fold_left N.add ns 0 <= bound)%N -> seq_sum o (map (of_N o) ns) = of_N o (fold_left N.add ns 0%N).
Proof. intros H. unfold seq_sum. rewrite <- of_N_0. apply seq_sum_small_ints_acc; auto. Qed.
End SmallInt.

(** binary32 (Rust f32) satisfies both hypotheses outright with bound 2^24 (C20/F32Add.v, through
    Flocq's Bplus_correct): unit-weight class frequencies are summed exactly, in any order *)
Lemma b32_seq_sum_small_ints (ns : list N) : (fold_left N.add ns 0 <= 16777216)%N ->
  seq_sum B32_ops (map (of_N B32_ops) ns) = of_N B32_ops (fold_left N.add ns 0%N).
Proof. exact (seq_sum_small_ints B32_ops 16777216%N b32_add_small_ints b32_of_N_0 ns). Qed.

Lemma gini_perm_R (l1 l2 : list R) : Permutation l1 l2 -> gini R_ops l1 = gini R_ops l2.
Proof.
  intros P. unfold gini, seq_sum. simpl.
  rewrite (fold_left_Rplus_perm l1 l2 P 0).
  f_equal. apply fold_left_Rplus_perm. apply Permutation_map. exact P.
Qed.

Close Scope R_scope.

(** * 4. RNG construction sites and parallel constructs
      (tables regenerated from the Rust sources by tools/c20_seeds2coq.py) *)
From Coq Require Import String.
Open Scope string_scope.

(* (file, function) pairs the statement excludes: permutation p-values, FastICA without a random
   state (and its optional state that defaults to None), the k-means|| sampler with its
   per-thread streams; t-SNE only fixes a seed that it hands to an external crate *)
Definition excluded : list (string * string) :=
  [ ("src/correlation.rs", "p_values");
    ("algorithms/linfa-ica/src/fast_ica.rs", "fit");
    ("algorithms/linfa-ica/src/hyperparams.rs", "new");
    ("algorithms/linfa-clustering/src/k_means/init.rs", "sample_subsequent_candidates");
    ("algorithms/linfa-clustering/src/k_means/init.rs", "k_means_para") ].

Definition in_excluded (file fn : string) : bool :=
  existsb (fun e => String.eqb (fst e) file && String.eqb (snd e) fn) excluded.

(* estimators that create a generator themselves (parameter builder or fit): (file, impl type) *)
Definition estimators : list (string * string) :=
  [ ("algorithms/linfa-clustering/src/k_means/algorithm.rs", "KMeans");
    ("algorithms/linfa-clustering/src/gaussian_mixture/hyperparams.rs", "GmmParams");
    ("algorithms/linfa-ftrl/src/lib.rs", "Ftrl");
    ("algorithms/linfa-reduction/src/pca.rs", "PcaParams");
    ("algorithms/linfa-reduction/src/random_projection/algorithms.rs", "RandomProjection");
    ("algorithms/linfa-reduction/src/diffusion_map/algorithms.rs", "") ].

Definition sites_of (e : string * string) : list site :=
  filter (fun s => String.eqb (s_file s) (fst e) && String.eqb (s_type s) (snd e)) rng_sites.

(* the seed of the estimator's own generator: defined only when it has at least one site and all are fixed literals *)
Definition default_seed (e : string * string) : option N :=
  match sites_of e with
  | [] => None
  | s :: r => match s_kind s with
              | Fixed n => if forallb (fun s' => match s_kind s' with Fixed _ => true | _ => false end) r
                           then Some n else None
              | _ => None
              end
  end.

Definition is_fixed (k : rng_kind) : bool := match k with Fixed _ => true | _ => false end.

(* the three loops of k-means that write disjoint cells, and the excluded k-means|| sampler *)
Definition known_parallel : list (string * string * string) :=
  [ ("algorithms/linfa-clustering/src/k_means/algorithm.rs", "update_cluster_memberships", "par_for_each");
    ("algorithms/linfa-clustering/src/k_means/algorithm.rs", "update_min_dists", "par_for_each");
    ("algorithms/linfa-clustering/src/k_means/algorithm.rs", "update_memberships_and_dists", "par_for_each");
    ("algorithms/linfa-clustering/src/k_means/init.rs", "sample_subsequent_candidates", "into_par_iter") ].

Definition psite_known (p : psite) : bool :=
  existsb (fun k => String.eqb (fst (fst k)) (p_file p) && String.eqb (snd (fst k)) (p_fn p)
                    && String.eqb (snd k) (p_what p)) known_parallel.

(* Facilities the statement excludes (k-means||, unseeded generators, FastICA with its optional random
   state, permutation p-values, t-SNE) and the only library-code sites that may refer to them:
   (facility, file or directory prefix, enclosing type or "*", enclosing function or "*", why).
   A facility's own defining items, the plumbing through which a *user* selects it, and documented
   sites.  Anything else - e.g. an estimator of the claim that starts calling k-means|| by itself -
   is an unexplained reference and breaks [no_unexplained_refs]. *)
Definition allowed_sites : list (string * string * string * string * string) :=
  [ ("kmeans_para", "algorithms/linfa-clustering/src/k_means/init.rs", "KMeansInit", "", "definition of the user-selectable enum KMeansInit");
    ("kmeans_para", "algorithms/linfa-clustering/src/k_means/init.rs", "KMeansInit", "run", "dispatch on the initialiser the user selected");
    ("kmeans_para", "algorithms/linfa-clustering/src/k_means/init.rs", "", "k_means_para", "the excluded initialiser itself");
    ("unseeded_rng", "src/correlation.rs", "", "p_values", "permutation p-values, excluded by the statement");
    ("unseeded_rng", "algorithms/linfa-ica/src/fast_ica.rs", "FastIcaValidParams", "fit", "FastICA without random_state, excluded by the statement");
    ("unseeded_rng", "datasets/src/generate.rs", "", "make_dataset", "documented: synthetic data generator drawing from caller-supplied distributions, not an estimator");
    ("fastica", "algorithms/linfa-ica/", "*", "*", "the facility's own crate");
    ("p_values", "src/correlation.rs", "PearsonCorrelation", "from_dataset", "reached only when the user passes a number of permutations");
    ("p_values", "src/correlation.rs", "DatasetBase", "pearson_correlation_with_p_value", "the public entry point of the excluded facility");
    ("tsne", "algorithms/linfa-tsne/", "*", "*", "the facility's own crate") ].

Definition wild_eqb (pat x : string) : bool := String.eqb pat "*" || String.eqb pat x.
Definition site_matches (a : string * string * string * string * string) (r : fref) : bool :=
  match a with (fac, file, ty, fn, _) =>
    String.eqb fac (r_facility r) && String.prefix file (r_file r) && wild_eqb ty (r_type r) && wild_eqb fn (r_fn r)
  end.
Definition ref_allowed (r : fref) : bool :=
  match r_area r with Src => existsb (fun a => site_matches a r) allowed_sites | _ => true end.
Definition ref_text (r : fref) : string :=
  r_facility r ++ " (" ++ r_text r ++ ") referenced in " ++ r_file r ++ " item " ++ r_type r ++ "::" ++ r_fn r
  ++ " under guard [" ++ r_guard r ++ "]".
Definition unexplained_refs : list string := map ref_text (filter (fun r => negb (ref_allowed r)) facility_refs).

(* stated on the list itself so that a failure prints the offending file, item, facility and guard *)
Lemma no_unexplained_refs : unexplained_refs = [].
Proof. vm_compute. reflexivity. Qed.

Lemma refs_allowed_b : forallb ref_allowed facility_refs = true.
Proof. vm_compute. reflexivity. Qed.

(* the table is not empty and the obligation is not vacuous: library code does refer to each facility,
   and a reference from the Gaussian mixture to k-means|| would be rejected *)
Example ex_refs_present :
  forallb (fun f => existsb (fun r => String.eqb (r_facility r) f && match r_area r with Src => true | _ => false end) facility_refs)
          ["kmeans_para"; "unseeded_rng"; "fastica"; "p_values"; "tsne"] = true.
Proof. vm_compute. reflexivity. Qed.
Example ex_ref_rejected :
  ref_allowed {| r_facility := "kmeans_para"; r_text := "KMeansPara"; r_file := "algorithms/linfa-clustering/src/gaussian_mixture/algorithm.rs";
                 r_line := 142%N; r_area := Src; r_type := "GaussianMixtureModel"; r_fn := "new"; r_guard := "hyperparameters.n_clusters() > 100" |} = false.
Proof. vm_compute. reflexivity. Qed.

Lemma defaults_seeded_b :
  forallb (fun e => match default_seed e with Some _ => true | None => false end) estimators = true.
Proof. vm_compute. reflexivity. Qed.

Lemma non_fixed_excluded_b :
  forallb (fun s => is_fixed (s_kind s) || in_excluded (s_file s) (s_fn s)) rng_sites = true.
Proof. vm_compute. reflexivity. Qed.

Lemma parallel_known_b : forallb psite_known par_sites = true.
Proof. vm_compute. reflexivity. Qed.

(** * 5. non-vacuity examples *)
Example ex_schedule_covering : covers 4 [2; 0; 3; 1; 0]%nat.
Proof.
  intros i Hi. assert (H : (i = 0 \/ i = 1 \/ i = 2 \/ i = 3)%nat) by lia.
  destruct H as [H|[H|[H|H]]]; subst i; simpl; auto 6.
Qed.

Example ex_interleave : interleave [[0; 1]; [2; 3]]%nat [2; 0; 3; 1]%nat.
Proof.
  apply (il_step [[0; 1]%nat] [3]%nat 2%nat []).
  apply (il_step [] [1]%nat 0%nat [[3]%nat]).
  apply (il_step [[1]%nat] [] 3%nat []).
  apply (il_step [] [] 1%nat [[]]).
  apply il_done. repeat constructor.
Qed.

Example ex_run_sched_b64 :
  update_min_dists B64_ops L2 [[0]; [4]]%float [[1]; [3]; [5]]%float [2; 0; 1]%nat [0; 0; 0]%float
  = [1; 1; 1]%float.
Proof. vm_compute. reflexivity. Qed.

Example ex_modal_tie :
  modal_class B64_ops [(7%N, 2%float); (3%N, 2%float); (9%N, 1%float)] = Some 3%N /\
  modal_class B64_ops [(3%N, 2%float); (9%N, 1%float); (7%N, 2%float)] = Some 3%N.
Proof. vm_compute. auto. Qed.

Example ex_modal_old_order_dependent :
  modal_class_old B64_ops [(7%N, 2%float); (3%N, 2%float)] <> modal_class_old B64_ops [(3%N, 2%float); (7%N, 2%float)].
Proof. vm_compute. intros H; discriminate H. Qed.

Example ex_nb_old_order_dependent :
  nb_predict_old B64_ops [(1%N, [0]%float); (2%N, [0]%float)] 1 <> nb_predict_old B64_ops [(2%N, [0]%float); (1%N, [0]%float)] 1.
Proof. vm_compute. intros H; discriminate H. Qed.

Example ex_hier_old_order_dependent :
  hier_labels_old 3 [(4, [0; 1]); (2, [2])]%N <> hier_labels_old 3 [(2, [2]); (4, [0; 1])]%N.
Proof. vm_compute. intros H; discriminate H. Qed.

Example ex_sort_nodup : NoDup (map fst [(4, [0; 1]); (2, [2])]%N).
Proof. repeat constructor; simpl; intuition discriminate. Qed.

Example ex_gini_old_order_dependent_b64 :
  gini_impurity_old B64_ops [(1%N, 0x1.999999999999ap-4%float); (2%N, 0x1.999999999999ap-3%float); (3%N, 0x1.3333333333333p-2%float)]
  <> gini_impurity_old B64_ops [(3%N, 0x1.3333333333333p-2%float); (2%N, 0x1.999999999999ap-3%float); (1%N, 0x1.999999999999ap-4%float)].
Proof. intros H. apply (f_equal Prim2SF) in H. vm_compute in H. discriminate H. Qed.

(* three class weights whose Gini impurity depends on the summation order in binary64 *)
Example ex_gini_order_dependent_b64 :
  gini B64_ops [0x1.999999999999ap-4; 0x1.999999999999ap-3; 0x1.3333333333333p-2]%float
  <> gini B64_ops [0x1.3333333333333p-2; 0x1.999999999999ap-3; 0x1.999999999999ap-4]%float.
Proof. intros H. apply (f_equal Prim2SF) in H. vm_compute in H. discriminate H. Qed.

(* binary32: integers add exactly up to 2^24 (spot check at the bound), and not beyond *)
Example ex_b32_small_int_add :
  sf_eqb (add B32.B32_ops (of_N B32.B32_ops 16777215) (of_N B32.B32_ops 1)) (of_N B32.B32_ops 16777216) = true /\
  sf_eqb (add B32.B32_ops (of_N B32.B32_ops 16777216) (of_N B32.B32_ops 1)) (of_N B32.B32_ops 16777216) = true.
Proof. vm_compute. auto. Qed.

(* beyond 2^24 the binary32 sum of integers depends on the order: (2^24 + 1) + 1 = 2^24, (1 + 1) + 2^24 = 2^24 + 2 *)
Example ex_b32_sum_beyond_bound :
  seq_sum B32_ops (map (of_N B32_ops) [16777216; 1; 1]%N) <> seq_sum B32_ops (map (of_N B32_ops) [1; 1; 16777216]%N).
Proof. vm_compute. intros H; discriminate H. Qed.

(* ... and at the bound it is still exact: 16777215 + 1 and 8388608 + 8388608 *)
Example ex_b32_sum_at_bound :
  seq_sum B32_ops (map (of_N B32_ops) [8388608; 8388607; 1]%N) = of_N B32_ops 16777216%N /\
  (fold_left N.add [8388608; 8388607; 1] 0 <= 16777216)%N.
Proof. split; [vm_compute; reflexivity | vm_compute; discriminate]. Qed.

Example ex_unique_max : forall e, In e [(1%N, 2%R); (5%N, 3%R)] -> e <> (5%N, 3%R) -> (snd e < snd (5%N, 3%R))%R.
Proof. intros e [H|[H|[]]] Hne; subst; simpl; [lra | congruence]. Qed.
