(** C20 - lemmas. *)
From Coq Require Import List NArith Bool String.
From LinfaVerif Require Import Common.Num Common.NdSum C09.Model C20.Model gen.C20_seeds.
Import ListNotations.
Open Scope string_scope.

(** * RNG construction sites (table regenerated from the Rust sources by tools/c20_seeds2coq.py) *)

(* (file, function) pairs the statement excludes: permutation p-values, FastICA without a random
   state, the k-means|| sampler with its per-thread streams, t-SNE *)
Definition excluded : list (string * string) :=
  [ ("src/correlation.rs", "p_values");
    ("algorithms/linfa-ica/src/fast_ica.rs", "fit");
    ("algorithms/linfa-ica/src/hyperparams.rs", "new");
    ("algorithms/linfa-clustering/src/k_means/init.rs", "sample_subsequent_candidates");
    ("algorithms/linfa-clustering/src/k_means/init.rs", "k_means_para") ].

Definition in_excluded (file fn : string) : bool :=
  existsb (fun e => String.eqb (fst e) file && String.eqb (snd e) fn) excluded.

(* estimators whose parameter builders (or fit) create a generator themselves: (file, type) *)
Definition estimators : list (string * string) :=
  [ ("algorithms/linfa-clustering/src/k_means/algorithm.rs", "KMeans");
    ("algorithms/linfa-clustering/src/gaussian_mixture/hyperparams.rs", "GmmParams");
    ("algorithms/linfa-ftrl/src/lib.rs", "Ftrl");
    ("algorithms/linfa-reduction/src/pca.rs", "PcaParams");
    ("algorithms/linfa-reduction/src/random_projection/algorithms.rs", "RandomProjection");
    ("algorithms/linfa-reduction/src/diffusion_map/algorithms.rs", "") ].

Definition default_seed (e : string * string) : option N :=
  match find (fun s => String.eqb (s_file s) (fst e) && String.eqb (s_type s) (snd e)) rng_sites with
  | Some s => match s_kind s with Fixed n => Some n | _ => None end
  | None => None
  end.

Definition is_entropy (k : rng_kind) : bool :=
  match k with Entropy _ | OptionalNone => true | _ => false end.
Definition is_derived (k : rng_kind) : bool := match k with Derived _ => true | _ => false end.

Lemma defaults_seeded_b : forallb (fun e => match default_seed e with Some _ => true | None => false end) estimators = true.
Proof. vm_compute. reflexivity. Qed.

Lemma entropy_excluded_b :
  forallb (fun s => negb (is_entropy (s_kind s) || is_derived (s_kind s)) || in_excluded (s_file s) (s_fn s)) rng_sites = true.
Proof. vm_compute. reflexivity. Qed.
