(** C20, round 5 - the HISTORY dimension: a parameter object (or a fitted model) is a record of
    settings fields plus whatever else survives inside the object between two calls (a compiled
    regex, a scratch / output buffer, a generator state): the [cache].  Builder setters replace the
    settings and leave the cache alone; a fit (`&self`) may leave a new cache behind.
    Executable definitions only. *)
From Coq Require Import List NArith Bool.
Import ListNotations.

Section ParamObject.
  Variables S D C M : Type.

  Record pobj := mk_pobj { p_settings : S; p_cache : C }.

  (** what can happen to one object: a documented setter call, or a fit on some data *)
  Inductive event := SetE (s : S) | FitE (d : D).

  (** an implementation of fit: reads the object and the data, returns the model and the cache it leaves *)
  Variable fit : pobj -> D -> M * C.

  Definition step (p : pobj) (e : event) : pobj :=
    match e with
    | SetE s => mk_pobj s (p_cache p)
    | FitE d => mk_pobj (p_settings p) (snd (fit p d))
    end.

  Definition replay (p : pobj) (h : list event) : pobj := fold_left step h p.

  (** the model obtained from object [p] after the history [h] *)
  Definition fit_after (p : pobj) (h : list event) (d : D) : M := fst (fit (replay p h) d).

  (** the settings in effect after a history: the last setter call wins, fits do not count *)
  Fixpoint final_settings (s : S) (h : list event) : S :=
    match h with
    | [] => s
    | SetE s' :: t => final_settings s' t
    | FitE _ :: t => final_settings s t
    end.

  (** the discipline the estimators are claimed to follow: the model is a function of the settings fields and the data *)
  Definition reads_only_settings : Prop :=
    forall p q d, p_settings p = p_settings q -> fst (fit p d) = fst (fit q d).
End ParamObject.

Arguments mk_pobj {S C}.
Arguments p_settings {S C}.
Arguments p_cache {S C}.
Arguments SetE {S D}.
Arguments FitE {S D}.
Arguments step {S D C M}.
Arguments replay {S D C M}.
Arguments fit_after {S D C M}.
Arguments final_settings {S D}.
Arguments reads_only_settings {S D C M}.

(** two faulty fits (the seeded changes C17-e and C03-e / C18-d of round 5 in miniature) *)

(** compiles the settings into the cache at the first fit and never looks at the settings again *)
Definition cached_fit (p : pobj nat (option nat)) (d : nat) : nat * option nat :=
  match p_cache p with
  | Some c => (c + d, Some c)
  | None => (p_settings p + d, Some (p_settings p))
  end.

(** accumulates into a buffer kept in the object without clearing it first *)
Definition stale_buffer_fit (p : pobj nat nat) (d : nat) : nat * nat :=
  (p_cache p + p_settings p + d, p_cache p + p_settings p + d).

(** ---- observed histories (what the harness records) ----
    settings, data sets / batches and results are identified by numbers: settings ids are chosen by the harness
    (equal id = equal values passed to the setters), results are 64-bit digests of all learned quantities. *)
Inductive hevent := HSet (s : N) | HFit (d digest : N).

Definition erase (e : hevent) : event N N := match e with HSet s => SetE s | HFit d _ => FitE d end.

(** (settings in effect, data, digest) of every fit of one object that started with settings [s] *)
Fixpoint hist_obs (s : N) (h : list hevent) : list (N * N * N) :=
  match h with
  | [] => []
  | HSet s' :: t => hist_obs s' t
  | HFit d g :: t => (s, d, g) :: hist_obs s t
  end.

Definition all_obs (objs : list (N * list hevent)) : list (N * N * N) :=
  flat_map (fun o => hist_obs (fst o) (snd o)) objs.

Definition key_eqb (a b : N * N * N) : bool :=
  N.eqb (fst (fst a)) (fst (fst b)) && N.eqb (snd (fst a)) (snd (fst b)).

(** no two observations with the same (settings, data) carry different digests *)
Fixpoint functional (obs : list (N * N * N)) : bool :=
  match obs with
  | [] => true
  | o :: t => forallb (fun o' => implb (key_eqb o o') (N.eqb (snd o) (snd o'))) t && functional t
  end.

Definition hist_functional (objs : list (N * list hevent)) : bool := functional (all_obs objs).

(** the history-free explanation of a functional observation list *)
Definition explain (obs : list (N * N * N)) (s d : N) : N :=
  match find (fun o => key_eqb (s, d, 0%N) o) obs with
  | Some o => snd o
  | None => 0%N
  end.
