(** C20 - property theorems (statements only; proofs are in C20/Proofs.v). *)
From Coq Require Import List NArith Bool String.
From LinfaVerif Require Import Common.Num Common.NdSum C09.Model C20.Model gen.C20_seeds C20.Proofs.
Import ListNotations.

(** every estimator that creates a generator by itself seeds it with a fixed literal *)
Theorem defaults_are_seeded : forall e, In e estimators -> default_seed e <> None.
Proof.
  intros e He. pose proof defaults_seeded_b as H. rewrite forallb_forall in H.
  specialize (H e He). destruct (default_seed e); congruence.
Qed.
