(** C20 - property theorems (statements only; proofs are in C20/Proofs.v).

    Reading guide: a *schedule* is the order in which the thread pool executes the tasks of a
    parallel loop; a *map order* is the order in which a hash map with a fresh random state yields
    its entries.  The theorems say that the modelled mechanisms return the same value for every
    schedule / every map order; the `_order_dependent` theorems show that the quantifier is not
    vacuous (the rules before the repairs F11, F19, F16 and a parallel floating-point reduction
    fail it; so did the impurity sums of the decision tree before the repair F41). *)
From Coq Require Import List NArith Bool Permutation Reals Floats SpecFloat.
From LinfaVerif Require Import Common.Num Common.NdSum Common.B32 C09.Model C20.Model gen.C20_seeds C20.F32Add C20.Proofs C20.FloatOrder.
Import ListNotations.

(** ** Parallel loops *)

(** a parallel loop whose task i writes only cell i and reads only shared input returns the
    sequential result for every schedule that is a permutation of the tasks, whatever the output
    array contained before *)
Theorem par_for_each_confluent : forall (I C : Type) (inp : I) (tasks : list (I -> C)) (sched : list nat) (init : list C),
  length init = length tasks ->
  Permutation sched (seq 0 (length tasks)) ->
  run_sched inp tasks sched init = run_seq inp tasks.
Proof.
  intros I C inp tasks sched init Hl P. apply run_sched_covering; auto.
  apply perm_range_covers; exact P.
Qed.

(** the same for any chunking of the tasks over workers and any interleaving of the workers *)
Theorem par_for_each_chunked_confluent : forall (I C : Type) (inp : I) (tasks : list (I -> C))
    (chunks : list (list nat)) (il : list nat) (init : list C),
  length init = length tasks ->
  Permutation (concat chunks) (seq 0 (length tasks)) ->
  interleave chunks il ->
  run_sched inp tasks il init = run_seq inp tasks.
Proof.
  intros I C inp tasks chunks il init Hl P Hi. apply par_for_each_confluent; auto.
  apply Permutation_trans with (concat chunks); auto. apply interleave_perm; auto.
Qed.

(** the three parallel loops of k-means are instances, in every arithmetic (binary64 included):
    whatever the schedule and the stale content of the output arrays, they compute the arg-min
    assignment / index / distance of the sequential model of C09 *)
Theorem kmeans_loops_schedule_independent : forall F (o : NumOps F) m (cs X : list (list F)) (s : list nat),
  Permutation s (seq 0 (length X)) ->
  (forall old, length old = length X -> update_memberships_and_dists o m cs X s old = assign o m cs X) /\
  (forall old, length old = length X -> update_cluster_memberships o m cs X s old = predict o m cs X) /\
  (forall old, length old = length X -> update_min_dists o m cs X s old = transform o m cs X).
Proof.
  intros F o m cs X s P. pose proof (perm_range_covers _ _ P) as Hc. repeat split; intros old Hl.
  - apply update_memberships_and_dists_covering; auto.
  - apply update_cluster_memberships_covering; auto.
  - apply update_min_dists_covering; auto.
Qed.

(** the whole `KMeans::fit` (Lloyd iterations, restarts, persistent membership / distance arrays,
    sequential `dists.sum()`), run with an arbitrary schedule for each of its parallel loops, returns
    exactly what the sequential model returns - bit for bit in binary64, since this holds for every NumOps *)
Theorem kmeans_fit_schedule_independent : forall F (o : NumOps F) m tol fuel k inits (X : list (list F)) (scheds : list (list nat)),
  Forall (fun s => Permutation s (seq 0 (length X))) scheds ->
  fit_par o m tol fuel k inits X scheds = fit o m tol fuel k inits X.
Proof.
  intros F o m tol fuel k inits X scheds H. apply fit_par_eq.
  eapply Forall_impl; [|exact H]. intros s P. exact (perm_range_covers _ _ P).
Qed.

(** contrast: had the reduction been taken in schedule order, binary64 results would depend on the schedule *)
Theorem parallel_reduction_order_dependent : exists (xs : list float) (s1 s2 : list nat),
  Permutation s1 s2 /\ reduce_in_order B64_ops xs s1 <> reduce_in_order B64_ops xs s2.
Proof.
  exists [0x1p+53; 1; 1]%float, [0; 1; 2]%nat, [1; 2; 0]%nat. split.
  - exact (Permutation_cons_append [1; 2]%nat 0%nat).
  - exact reduce_order_dependent_b64.
Qed.

(** ** Hash-map iteration order *)

(** decision-tree leaf prediction (after F11): the modal class does not depend on the map order *)
Theorem modal_class_order_independent : forall (e1 e2 : list (N * R)),
  Permutation e1 e2 -> modal_class R_ops e1 = modal_class R_ops e2.
Proof. intros e1 e2 P. unfold modal_class. rewrite (modal_fold_perm e1 e2 P). reflexivity. Qed.

(** ... and it is a class of maximal weight, the smallest such label *)
Theorem modal_class_is_least_maximal : forall (e : list (N * R)) l,
  modal_class R_ops e = Some l ->
  exists w, In (l, w) e /\ forall l' w', In (l', w') e -> (w' < w)%R \/ (w' = w /\ (l <= l')%N).
Proof.
  intros e l H. unfold modal_class in H.
  destruct (fold_left (modal_step R_ops) e None) as [[l0 w]|] eqn:E; [|discriminate].
  simpl in H. inversion H; subst l0. destruct (modal_max_spec e (l, w) E) as [Hin Hall].
  exists w; split; auto. intros l' w' Hin'. destruct (Hall _ Hin') as [[Hw|[Hw Hl]]|Heq]; simpl in *.
  - left; exact Hw.
  - right; split; [congruence | apply N.lt_le_incl; exact Hl].
  - inversion Heq; subst. right; split; [reflexivity | apply N.le_refl].
Qed.

(** the same in any arithmetic whose comparisons agree with the reals on the weights at hand ... *)
Theorem modal_class_order_independent_embedded : forall F (o : NumOps F) (v : F -> R) (P : F -> Prop),
  order_embeds o v P ->
  forall e1 e2 : list (N * F), Forall (fun e => P (snd e)) e1 -> Permutation e1 e2 ->
  modal_class o e1 = modal_class o e2.
Proof. intros F o v P HE e1 e2 H1 Pm. exact (modal_class_perm_embedded o v P HE e1 e2 H1 Pm). Qed.

(** ... in particular in binary32, the arithmetic of the code (`f32` class weights): for finite weights
    (a decidable condition; every non-overflowing sum of finite sample weights) the predicted class
    of a node does not depend on the map order.  NaN weights are excluded, and have to be
    ([ex_modal_b32_nan] in C20/FloatOrder.v). *)
Theorem modal_class_b32_order_independent : forall e1 e2 : list (N * spec_float),
  forallb (fun e => b32_finite (snd e)) e1 = true -> Permutation e1 e2 ->
  modal_class B32_ops e1 = modal_class B32_ops e2.
Proof. exact modal_class_b32_perm. Qed.

(** the rule before F11 depended on the order (two classes of equal weight) *)
Theorem modal_class_old_order_dependent : exists e1 e2 : list (N * float),
  Permutation e1 e2 /\ modal_class_old B64_ops e1 <> modal_class_old B64_ops e2.
Proof.
  exists [(7%N, 2%float); (3%N, 2%float)], [(3%N, 2%float); (7%N, 2%float)]. split.
  - apply perm_swap.
  - exact ex_modal_old_order_dependent.
Qed.

(** ... while it was order free exactly when the maximal weight is attained by a single class *)
Theorem modal_class_old_invariant_if_unique_max : forall (e1 e2 : list (N * R)) m,
  Permutation e1 e2 -> In m e1 -> (forall e, In e e1 -> e <> m -> (snd e < snd m)%R) ->
  modal_class_old R_ops e1 = modal_class_old R_ops e2.
Proof.
  intros e1 e2 m P Hin Hu. rewrite (modal_old_unique_max e1 m Hin Hu).
  symmetry. apply modal_old_unique_max.
  - exact (Permutation_in m P Hin).
  - intros e He Hne. apply Hu; auto. exact (Permutation_in e (Permutation_sym P) He).
Qed.

(** sorting entries with pairwise distinct keys (what a map yields) forgets the map order *)
Theorem sort_by_key_order_independent : forall (A : Type) (e1 e2 : list (N * A)),
  NoDup (map fst e1) -> Permutation e1 e2 -> sort_by_key e1 = sort_by_key e2.
Proof. intros A e1 e2 ND P. apply sort_by_key_order_free; auto. Qed.

(** naive-Bayes prediction (after F19) does not depend on the order of the class map, in every arithmetic *)
Theorem nb_predict_order_independent : forall F (o : NumOps F) (e1 e2 : list (N * list F)) nq,
  NoDup (map fst e1) -> Permutation e1 e2 -> nb_predict o e1 nq = nb_predict o e2 nq.
Proof. intros F o e1 e2 nq ND P. unfold nb_predict. rewrite (sort_by_key_order_free e1 e2 ND P). reflexivity. Qed.

Theorem nb_predict_old_order_dependent : exists e1 e2 : list (N * list float),
  NoDup (map fst e1) /\ Permutation e1 e2 /\ nb_predict_old B64_ops e1 1 <> nb_predict_old B64_ops e2 1.
Proof.
  exists [(1%N, [0]%float); (2%N, [0]%float)], [(2%N, [0]%float); (1%N, [0]%float)]. repeat split.
  - repeat constructor; simpl; intuition discriminate.
  - apply perm_swap.
  - exact ex_nb_old_order_dependent.
Qed.

(** consumers that sort the label set (naive-Bayes fit, confusion matrix) see one order only *)
Theorem labels_sorted_order_independent : forall o1 o2 : list N,
  NoDup o1 -> Permutation o1 o2 -> labels_sorted o1 = labels_sorted o2.
Proof.
  intros o1 o2 ND P. unfold labels_sorted. f_equal. apply sort_by_key_order_free.
  - rewrite map_map. simpl. rewrite map_id. exact ND.
  - apply Permutation_map. exact P.
Qed.

(** integer reductions over map values (class counts) are order free *)
Theorem count_sum_order_independent : forall e1 e2 : list (N * N),
  Permutation e1 e2 -> count_sum e1 = count_sum e2.
Proof. intros e1 e2 P. unfold count_sum. apply fold_left_Nadd_perm. apply Permutation_map. exact P. Qed.

(** the silhouette's minimum over the other clusters is order free *)
Theorem silhouette_min_order_independent : forall v1 v2 : list R,
  Permutation v1 v2 -> min_over R_ops v1 = min_over R_ops v2.
Proof. exact min_over_perm. Qed.

(** hierarchical clustering (after F16): cluster numbers do not depend on the map order *)
Theorem hier_labels_order_independent : forall n (c1 c2 : list (N * list N)),
  NoDup (map fst c1) -> Permutation c1 c2 -> hier_labels n c1 = hier_labels n c2.
Proof. intros n c1 c2 ND P. unfold hier_labels. rewrite (sort_by_key_order_free c1 c2 ND P). reflexivity. Qed.

Theorem hier_labels_old_order_dependent : exists n (c1 c2 : list (N * list N)),
  NoDup (map fst c1) /\ Permutation c1 c2 /\ hier_labels_old n c1 <> hier_labels_old n c2.
Proof.
  exists 3%nat, [(4, [0; 1]); (2, [2])]%N, [(2, [2]); (4, [0; 1])]%N. repeat split.
  - exact ex_sort_nodup.
  - apply perm_swap.
  - exact ex_hier_old_order_dependent.
Qed.

(** sums of integer-valued weights below the exactness bound of the arithmetic are exact and
    therefore order free - stated for any arithmetic that adds small integers exactly; the two
    hypotheses are discharged for binary32 (bound 2^24) by [b32_small_int_add_exact] below, which
    gives [b32_unit_weight_sum_order_independent] outright. *)
Theorem small_int_sum_order_independent : forall F (o : NumOps F) (bound : N),
  (forall a b, (a + b <= bound)%N -> add o (of_N o a) (of_N o b) = of_N o (a + b)) ->
  of_N o 0%N = zero o ->
  forall n1 n2 : list N, Permutation n1 n2 -> (fold_left N.add n1 0 <= bound)%N ->
  seq_sum o (map (of_N o) n1) = seq_sum o (map (of_N o) n2).
Proof.
  intros F o bound Hex H0 n1 n2 P Hb.
  rewrite (seq_sum_small_ints o bound Hex H0 n1 Hb).
  rewrite (seq_sum_small_ints o bound Hex H0 n2); [|rewrite <- (fold_left_Nadd_perm n1 n2 P); exact Hb].
  rewrite (fold_left_Nadd_perm n1 n2 P). reflexivity.
Qed.

(** binary32 addition (SpecFloat at precision 24 / emax 128, the arithmetic the models run against
    Rust's f32) of two integer-valued operands is exact as long as the sum does not exceed 2^24 *)
Theorem b32_small_int_add_exact : forall a b : N, (a + b <= 16777216)%N ->
  add B32_ops (of_N B32_ops a) (of_N B32_ops b) = of_N B32_ops (a + b).
Proof. exact b32_add_small_ints. Qed.

(** hence unit-weight class counts (`label_frequencies`, `values().sum::<f32>()`): any enumeration
    order of the integer-valued f32 weights gives the same sum, bit for bit, and that sum is the
    integer total - no hypothesis left *)
Theorem b32_unit_weight_sum_order_independent : forall n1 n2 : list N,
  Permutation n1 n2 -> (fold_left N.add n1 0 <= 16777216)%N ->
  seq_sum B32_ops (map (of_N B32_ops) n1) = seq_sum B32_ops (map (of_N B32_ops) n2) /\
  seq_sum B32_ops (map (of_N B32_ops) n1) = of_N B32_ops (fold_left N.add n1 0%N).
Proof.
  intros n1 n2 P Hb. split; [|exact (b32_seq_sum_small_ints n1 Hb)].
  exact (small_int_sum_order_independent _ B32_ops 16777216%N b32_add_small_ints b32_of_N_0 n1 n2 P Hb).
Qed.

(** the bound is sharp: beyond 2^24 the binary32 sum of integers depends on the order *)
Theorem b32_sum_beyond_bound_order_dependent : exists n1 n2 : list N,
  Permutation n1 n2 /\ seq_sum B32_ops (map (of_N B32_ops) n1) <> seq_sum B32_ops (map (of_N B32_ops) n2).
Proof.
  exists [16777216; 1; 1]%N, [1; 1; 16777216]%N. split.
  - exact (Permutation_cons_append [1; 1]%N 16777216%N).
  - exact ex_b32_sum_beyond_bound.
Qed.

(** tree impurity (after F41): the class weights are summed in class order, so the impurity does
    not depend on the map order - in every arithmetic, binary32 / binary64 included *)
Theorem gini_impurity_order_independent : forall F (o : NumOps F) (e1 e2 : list (N * F)),
  NoDup (map fst e1) -> Permutation e1 e2 -> gini_impurity o e1 = gini_impurity o e2.
Proof. intros F o e1 e2 ND P. unfold gini_impurity. rewrite (sort_by_key_order_free e1 e2 ND P). reflexivity. Qed.

(** the rule before F41 (`HashMap::values()` summed in map order) was order free in exact arithmetic only ... *)
Theorem gini_order_independent_exact : forall w1 w2 : list R,
  Permutation w1 w2 -> gini R_ops w1 = gini R_ops w2.
Proof. exact gini_perm_R. Qed.

(** ... and order dependent in floating point once three classes are present *)
Theorem gini_impurity_old_order_dependent : exists e1 e2 : list (N * float),
  NoDup (map fst e1) /\ Permutation e1 e2 /\ gini_impurity_old B64_ops e1 <> gini_impurity_old B64_ops e2.
Proof.
  exists [(1%N, 0x1.999999999999ap-4%float); (2%N, 0x1.999999999999ap-3%float); (3%N, 0x1.3333333333333p-2%float)],
         [(3%N, 0x1.3333333333333p-2%float); (2%N, 0x1.999999999999ap-3%float); (1%N, 0x1.999999999999ap-4%float)].
  repeat split.
  - repeat constructor; simpl; intuition discriminate.
  - apply (Permutation_rev [(1%N, 0x1.999999999999ap-4%float); (2%N, 0x1.999999999999ap-3%float); (3%N, 0x1.3333333333333p-2%float)]).
  - exact ex_gini_old_order_dependent_b64.
Qed.

(** ** Random number generators and parallel constructs of the sources (regenerated tables) *)

(** every estimator that creates a generator by itself seeds it with a fixed literal *)
Theorem defaults_are_seeded : forall e, In e estimators -> default_seed e <> None.
Proof.
  intros e He. pose proof defaults_seeded_b as H. rewrite forallb_forall in H.
  specialize (H e He). destruct (default_seed e); congruence.
Qed.

(** every generator that is not seeded with a fixed literal (entropy, optional state defaulting to
    None, per-thread or caller-derived seeds) sits in a facility the statement excludes *)
Theorem entropy_only_in_excluded : forall s, In s rng_sites ->
  is_fixed (s_kind s) = false -> in_excluded (s_file s) (s_fn s) = true.
Proof.
  intros s Hs Hk. pose proof non_fixed_excluded_b as H. rewrite forallb_forall in H.
  specialize (H s Hs). rewrite Hk in H. exact H.
Qed.

(** the only data-parallel constructs are the three disjoint-cell loops modelled above and the excluded k-means|| sampler *)
Theorem parallel_constructs_are_known : forall p, In p par_sites -> psite_known p = true.
Proof. intros p Hp. pose proof parallel_known_b as H. rewrite forallb_forall in H. exact (H p Hp). Qed.

(** no estimator of the claim reaches a facility the statement excludes: every reference of the library
    code to k-means||, an unseeded generator, FastICA, the permutation p-values or t-SNE lies in the
    facility's own defining items, in the plumbing through which the user selects it, or in a
    documented site ([allowed_sites] in C20/Proofs.v; the reference table is regenerated from all
    workspace crates on every run, tests / examples / benches are recorded but not constrained) *)
Theorem claimed_estimators_do_not_reach_excluded_facilities : forall r, In r facility_refs -> r_area r = Src ->
  exists a, In a allowed_sites /\ site_matches a r = true.
Proof.
  intros r Hr Ha. pose proof refs_allowed_b as H. rewrite forallb_forall in H. specialize (H r Hr).
  unfold ref_allowed in H. rewrite Ha in H. apply existsb_exists in H. exact H.
Qed.
