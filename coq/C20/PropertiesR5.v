(** C20, round 5 - the HISTORY dimension (statements only; proofs are in C20/ProofsR5.v).

    Reading guide: a parameter object (or a fitted model) is a record [pobj] of settings fields and a
    [cache]: everything else that survives inside the object between two calls (a lazily compiled regex, a
    scratch / output buffer, a generator state).  [SetE s] is a call of the documented builder setters that ends
    in the settings [s] (the cache is not touched), [FitE d] a fit (or predict / transform) on [d] through `&self`,
    which may leave a new cache.  [fit_after fit p h d] is the model obtained from object [p] on data [d] after the
    history [h].  "Same data, parameters and seed give the same result" has to hold for [fit_after] with every
    history, not only for freshly built objects: that is what the history cases of harness/src/bin/c20.rs compare
    bit for bit (fresh object / re-configured object / second fit on the same object / batch B2 after batch B1). *)
From Coq Require Import List NArith Bool.
From LinfaVerif Require Import C20.ModelR5 C20.ProofsR5.
Import ListNotations.

(** the settings an object carries after any history are those of its last setter call: fits never change them *)
Theorem settings_after_history : forall (S D C M : Type) (fit : pobj S C -> D -> M * C)
    (h : list (event S D)) (p : pobj S C),
  p_settings (replay fit p h) = final_settings (p_settings p) h.
Proof. intros S D C M fit h p. exact (settings_after_history_l fit h p). Qed.

(** a fit that reads only the settings fields is invariant under any two histories (earlier fits on other data,
    earlier setter calls, different initial objects) that end in the same settings *)
Theorem configure_then_fit_ignores_history : forall (S D C M : Type) (fit : pobj S C -> D -> M * C),
  reads_only_settings fit ->
  forall (p q : pobj S C) (h1 h2 : list (event S D)) (d : D),
    final_settings (p_settings p) h1 = final_settings (p_settings q) h2 ->
    fit_after fit p h1 d = fit_after fit q h2 d.
Proof. intros S D C M fit H. exact (configure_then_fit_ignores_history_l fit H). Qed.

(** comparison (b) of the harness: an object with any past that is re-configured to [s] fits like a fresh object
    built with [s] (whatever the fresh cache [c0]) *)
Theorem reconfigured_object_fits_like_fresh : forall (S D C M : Type) (fit : pobj S C -> D -> M * C),
  reads_only_settings fit ->
  forall (p : pobj S C) (h : list (event S D)) (s : S) (c0 : C) (d : D),
    fit_after fit p (h ++ [SetE s]) d = fst (fit (mk_pobj s c0) d).
Proof. intros S D C M fit H. exact (reconfigured_object_fits_like_fresh_l fit H). Qed.

(** comparisons (c) and (d): after any number of fits (predict / transform calls) through `&self` on the same object
    the next call returns what the first would have returned (second fit = first fit; batch B2 after B1 = B2 alone) *)
Theorem refit_same_object_same_model : forall (S D C M : Type) (fit : pobj S C -> D -> M * C),
  reads_only_settings fit ->
  forall (p : pobj S C) (ds : list D) (d : D),
    fit_after fit p (map (@FitE S D) ds) d = fst (fit p d).
Proof. intros S D C M fit H. exact (refit_same_object_same_model_l fit H). Qed.

(** converse witness 1 (seeded change C17-e in miniature): a fit that reads a cache filled by an earlier fit is NOT
    invariant - object built with settings 1, fitted once, re-configured to 2: the result is that of settings 1 *)
Theorem cached_field_fit_depends_on_history_refuted :
  ~ (forall (p : pobj nat (option nat)) (h : list (event nat nat)) (s : nat) (c0 : option nat) (d : nat),
        fit_after cached_fit p (h ++ [SetE s]) d = fst (cached_fit (mk_pobj s c0) d)).
Proof. exact cached_field_fit_depends_on_history_refuted_l. Qed.

(** converse witness 2 (C03-e / C18-d in miniature): a buffer kept in the object and read before it is cleared makes
    the second fit on the same object and data differ from the first *)
Theorem stale_buffer_refit_depends_on_history_refuted :
  ~ (forall (p : pobj nat nat) (ds : list nat) (d : nat),
        fit_after stale_buffer_fit p (map (@FitE nat nat) ds) d = fst (stale_buffer_fit p d)).
Proof. exact stale_buffer_refit_depends_on_history_refuted_l. Qed.

(** the run-time checker ([CHist] cases of C20/Corr.v, evaluated on the digests the implementation produced): when it
    accepts the recorded object histories, ONE history-free function of (settings in effect, data) explains every
    observed result, the settings in effect being those of the setter calls made before the fit (certified per run) *)
Theorem hist_functional_sound : forall objs : list (N * list hevent), hist_functional objs = true ->
  exists f : N -> N -> N,
    forall s0 h, In (s0, h) objs ->
    forall h1 d g h2, h = h1 ++ HFit d g :: h2 ->
      g = f (final_settings s0 (map erase h1)) d.
Proof. exact hist_functional_sound_l. Qed.
