(** C20 - the modal class in the arithmetic of the code.

    C20/Proofs.v proves the hash-order independence of `find_modal_class` with weights compared as
    reals.  The code compares `f32` class weights.  This file transfers the result to any
    arithmetic whose `<` / `==` agree with the reals through a valuation on the values at hand
    ([order_embeds]) and discharges that for binary32 (SpecFloat at precision 24 / emax 128,
    Common/B32.v) on finite canonical values with Flocq's Bltb_correct / Beqb_correct: every sum
    of finite sample weights that does not overflow is such a value; NaN weights are outside
    (comparisons with NaN are not an order). *)
From Coq Require Import List NArith ZArith Bool Lia Reals Lra Permutation SpecFloat.
From Flocq Require Import Core.Core IEEE754.BinarySingleNaN.
From LinfaVerif Require Import Common.Num Common.B32 C20.Model C20.Proofs.
Import ListNotations.

(** * a comparison structure that embeds into the reals on a set of values *)
Definition order_embeds {F} (o : NumOps F) (v : F -> R) (P : F -> Prop) : Prop :=
  forall a b, P a -> P b -> ltb o a b = Rltb (v a) (v b) /\ eqb o a b = Reqb (v a) (v b).

Section Transfer.
Context {F : Type} (o : NumOps F) (v : F -> R) (P : F -> Prop) (HE : order_embeds o v P).

Definition lift (p : N * F) : N * R := (fst p, v (snd p)).

Lemma modal_step_lift acc e :
  match acc with Some b => P (snd b) | None => True end -> P (snd e) ->
  option_map lift (modal_step o acc e) = modal_step R_ops (option_map lift acc) (lift e).
Proof.
  intros Ha He. destruct acc as [b|]; simpl; auto.
  destruct (HE (snd e) (snd b) He Ha) as [L1 _]. destruct (HE (snd b) (snd e) Ha He) as [_ E1].
  rewrite L1, E1. destruct (_ || _)%bool; reflexivity.
Qed.

Lemma modal_step_keeps acc e :
  match acc with Some b => P (snd b) | None => True end -> P (snd e) ->
  match modal_step o acc e with Some b => P (snd b) | None => True end.
Proof.
  intros Ha He. destruct acc as [b|]; simpl; auto. destruct (_ || _)%bool; auto.
Qed.

Lemma modal_fold_lift : forall (l : list (N * F)) acc,
  match acc with Some b => P (snd b) | None => True end -> Forall (fun e => P (snd e)) l ->
  option_map lift (fold_left (modal_step o) l acc) = fold_left (modal_step R_ops) (map lift l) (option_map lift acc).
Proof.
  induction l as [|e l IH]; intros acc Ha Hl; simpl; auto.
  inversion Hl as [|? ? He Hl']; subst.
  rewrite IH; [|apply modal_step_keeps; auto | exact Hl'].
  rewrite modal_step_lift; auto.
Qed.

Lemma modal_class_lift (l : list (N * F)) : Forall (fun e => P (snd e)) l ->
  modal_class o l = modal_class R_ops (map lift l).
Proof.
  intros Hl. unfold modal_class. pose proof (modal_fold_lift l None I Hl) as E. simpl in E. rewrite <- E.
  destruct (fold_left (modal_step o) l None) as [[k w]|]; reflexivity.
Qed.

Lemma modal_class_perm_embedded (e1 e2 : list (N * F)) :
  Forall (fun e => P (snd e)) e1 -> Permutation e1 e2 -> modal_class o e1 = modal_class o e2.
Proof.
  intros H1 Pm.
  assert (H2 : Forall (fun e => P (snd e)) e2).
  { rewrite Forall_forall in *. intros x Hx. apply H1. exact (Permutation_in x (Permutation_sym Pm) Hx). }
  rewrite (modal_class_lift e1 H1), (modal_class_lift e2 H2). unfold modal_class.
  rewrite (modal_fold_perm (map lift e1) (map lift e2)); [reflexivity|]. apply Permutation_map; exact Pm.
Qed.
End Transfer.

(** * binary32: finite values compare like the reals they denote *)
Local Instance Hprec32 : FLX.Prec_gt_0 p32 := eq_refl _.
Local Instance Hmax32 : Prec_lt_emax p32 e32 := eq_refl _.

(* [b32_finite] (C20/Model.v): a finite binary32 value in canonical form *)
Lemma sf_is_finite_flocq w : sf_is_finite w = is_finite_SF w.
Proof. destruct w; reflexivity. Qed.
Definition b32_val (w : spec_float) : R := SF2R radix2 w.

Lemma b32_finite_B w : b32_finite w = true ->
  exists b : binary_float p32 e32, B2SF b = w /\ is_finite b = true /\ B2R b = b32_val w.
Proof.
  unfold b32_finite. rewrite andb_true_iff, sf_is_finite_flocq. intros [Hf Hv].
  exists (SF2B w Hv). rewrite B2SF_SF2B. repeat split.
  - rewrite is_finite_SF2B. exact Hf.
  - unfold b32_val. rewrite B2R_SF2B. reflexivity.
Qed.

Lemma b32_order_embeds : order_embeds B32_ops b32_val (fun w => b32_finite w = true).
Proof.
  intros a b Ha Hb.
  destruct (b32_finite_B a Ha) as (x & Ex & Fx & Rx). destruct (b32_finite_B b Hb) as (y & Ey & Fy & Ry).
  subst a b. rewrite <- Rx, <- Ry. split.
  - change (ltb B32_ops (B2SF x) (B2SF y)) with (Bltb x y). rewrite (Bltb_correct p32 e32 x y Fx Fy).
    unfold Rltb. destruct (Rlt_bool_spec (B2R x) (B2R y)); destruct (Rlt_dec (B2R x) (B2R y)); auto; lra.
  - change (eqb B32_ops (B2SF x) (B2SF y)) with (Beqb x y). rewrite (Beqb_correct p32 e32 x y Fx Fy).
    unfold Reqb. destruct (Req_bool_spec (B2R x) (B2R y)); destruct (Req_EM_T (B2R x) (B2R y)); auto; contradiction.
Qed.

Lemma modal_class_b32_perm (e1 e2 : list (N * spec_float)) :
  forallb (fun e => b32_finite (snd e)) e1 = true -> Permutation e1 e2 ->
  modal_class B32_ops e1 = modal_class B32_ops e2.
Proof.
  intros H P. apply (modal_class_perm_embedded B32_ops b32_val _ b32_order_embeds); auto.
  rewrite forallb_forall in H. apply Forall_forall. exact H.
Qed.

(** the hypothesis is decidable and satisfiable: a tie between classes 7 and 3 next to a lighter class *)
Example ex_modal_b32 :
  let e := [(7%N, S754_finite false 8388608 (-22)); (5%N, S754_finite false 12582912 (-23)); (3%N, S754_finite false 8388608 (-22))] in
  forallb (fun p => b32_finite (snd p)) e = true /\ modal_class B32_ops e = Some 3%N /\ modal_class B32_ops (rev e) = Some 3%N.
Proof. vm_compute. auto. Qed.

(* NaN is rejected by the hypothesis, and rightly so: with a NaN weight the fold keeps whichever side came last *)
Example ex_modal_b32_nan :
  b32_finite S754_nan = false /\
  modal_class B32_ops [(1%N, S754_nan); (2%N, S754_finite false 8388608 (-22))] <>
  modal_class B32_ops [(2%N, S754_finite false 8388608 (-22)); (1%N, S754_nan)].
Proof. vm_compute. split; [reflexivity | intros H; discriminate H]. Qed.
