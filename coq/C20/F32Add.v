(** C20 - binary32 addition of integer-valued operands is exact while the sum stays within 2^24.

    The class-frequency sums of linfa (`label_frequencies`, the tree impurities) add `f32` sample
    weights; with unit weights every operand and every partial sum is an integer.  The executable
    SpecFloat functions at precision 24 / emax 128 (Common/B32.v, the arithmetic the models run
    against Rust's f32) are related to Flocq's BinarySingleNaN operations exactly as Flocq's
    IEEE754/PrimFloat.v does for binary64; Flocq's Bplus_correct / binary_normalize_correct say
    that the result is the rounding of the exact sum, and an integer of magnitude at most 2^24 is
    a binary32 number, so nothing is rounded.  (C05/F32Exact.v proves the special case b = 1 with
    the same bridge; this file is self-contained on purpose: the two properties are built
    independently.) *)
From Coq Require Import List NArith ZArith Bool Lia Reals Lra SpecFloat.
From Flocq Require Import Core.Core IEEE754.BinarySingleNaN.
From LinfaVerif Require Import Common.Num Common.B32.

(** * SpecFloat at (24, 128) = Flocq's binary32 with round-to-nearest-even *)
Local Instance Hprec32 : FLX.Prec_gt_0 p32 := eq_refl _.
Local Instance Hmax32 : Prec_lt_emax p32 e32 := eq_refl _.
Local Notation bf32 := (binary_float p32 e32).
Local Notation fexp32 := (SpecFloat.fexp p32 e32).

Lemma rne_equiv s m l : SpecFloat.round_nearest_even m l = choice_mode mode_NE s m l.
Proof.
  case l; [reflexivity|intro c]. case c; [ | reflexivity..].
  now simpl; unfold Round.cond_incr; case Z.even.
Qed.

Lemma binary_round_aux_equiv sx mx ex lx :
  SpecFloat.binary_round_aux p32 e32 sx mx ex lx = binary_round_aux p32 e32 mode_NE sx mx ex lx.
Proof.
  unfold SpecFloat.binary_round_aux, binary_round_aux.
  set (mrse' := shr_fexp _ _ _ _ _). case mrse'; intros mrs' e'; simpl.
  now rewrite (rne_equiv sx).
Qed.

Lemma binary_round_equiv s m e :
  SpecFloat.binary_round p32 e32 s m e = binary_round p32 e32 mode_NE s m e.
Proof.
  unfold SpecFloat.binary_round, binary_round, shl_align_fexp.
  set (mez := shl_align _ _ _); case mez as [mz ez]. apply binary_round_aux_equiv.
Qed.

Lemma binary_normalize_equiv m e szero :
  SpecFloat.binary_normalize p32 e32 m e szero = B2SF (binary_normalize p32 e32 Hprec32 Hmax32 mode_NE m e szero).
Proof.
  case m as [ | p | p]; [now simpl | |]; simpl; rewrite B2SF_SF2B; apply binary_round_equiv.
Qed.

Lemma SFadd_equiv (x y : bf32) : SFadd p32 e32 (B2SF x) (B2SF y) = B2SF (Bplus mode_NE x y).
Proof.
  destruct x as [sx|sx| |sx mx ex Bx], y as [sy|sy| |sy my ey By];
    try (now (trivial || simpl; case Bool.eqb)).
  apply binary_normalize_equiv.
Qed.

(** * Integers of magnitude at most 2^24 are binary32 numbers *)
Definition Bnat (k : N) : bf32 := binary_normalize p32 e32 Hprec32 Hmax32 mode_NE (Z.of_N k) 0 false.

Lemma of_N_Bnat k : of_N B32_ops k = B2SF (Bnat k).
Proof.
  unfold Bnat. simpl. destruct k as [|p]; [reflexivity|]. simpl Z.of_N. unfold b32_of_Z.
  apply binary_normalize_equiv.
Qed.

Lemma int_format (z : Z) : (Z.abs z <= 16777216)%Z -> generic_format radix2 fexp32 (IZR z).
Proof.
  intros Hz. apply generic_format_FLT.
  destruct (Z.eq_dec (Z.abs z) 16777216) as [E|NE].
  - (* +-2^24 = +-2^23 * 2 *)
    apply FLT_spec with (f := Float radix2 (z / 2) 1).
    + unfold F2R; simpl. rewrite <- mult_IZR. f_equal.
      assert (z = 16777216 \/ z = -16777216)%Z as [-> | ->] by lia; reflexivity.
    + simpl. assert (z = 16777216 \/ z = -16777216)%Z as [-> | ->] by lia; reflexivity.
    + simpl. unfold emin, e32, p32. lia.
  - apply FLT_spec with (f := Float radix2 z 0).
    + unfold F2R; simpl. lra.
    + simpl. change (2 ^ p32)%Z with 16777216%Z. lia.
    + simpl. unfold emin, e32, p32. lia.
Qed.

Lemma int_round (z : Z) : (Z.abs z <= 16777216)%Z -> round radix2 fexp32 (round_mode mode_NE) (IZR z) = IZR z.
Proof. intros Hz. apply round_generic; [apply valid_rnd_round_mode | apply int_format; exact Hz]. Qed.

Lemma int_small (z : Z) : (Z.abs z <= 16777216)%Z -> Rlt_bool (Rabs (IZR z)) (bpow radix2 e32) = true.
Proof.
  intros Hz. apply Rlt_bool_true. rewrite <- abs_IZR. change (bpow radix2 e32) with (IZR (2 ^ 128)).
  apply IZR_lt. assert (16777216 < 2 ^ 128)%Z by reflexivity. lia.
Qed.

Lemma Bnat_correct k : (k <= 16777216)%N ->
  B2R (Bnat k) = IZR (Z.of_N k) /\ is_finite (Bnat k) = true /\ Bsign (Bnat k) = false.
Proof.
  intros Hk. assert (Hz : (Z.abs (Z.of_N k) <= 16777216)%Z) by lia.
  generalize (binary_normalize_correct p32 e32 Hprec32 Hmax32 mode_NE (Z.of_N k) 0 false).
  fold (Bnat k). cbv zeta.
  replace (F2R (Float radix2 (Z.of_N k) 0)) with (IZR (Z.of_N k)) by (unfold F2R; simpl; lra).
  rewrite (int_round _ Hz), (int_small _ Hz). intros (H1 & H2 & H3). repeat split; auto.
  rewrite H3. destruct (Rcompare_spec (IZR (Z.of_N k)) 0) as [H|H|H]; auto.
  apply lt_IZR in H. lia.
Qed.

(** * Addition of two such integers is exact while the sum stays within 2^24 *)
Lemma b32_add_small_ints (a b : N) : (a + b <= 16777216)%N ->
  add B32_ops (of_N B32_ops a) (of_N B32_ops b) = of_N B32_ops (a + b).
Proof.
  intros Hab. rewrite !of_N_Bnat. change (add B32_ops) with (SFadd p32 e32).
  rewrite SFadd_equiv. f_equal.
  destruct (Bnat_correct a ltac:(lia)) as (A1 & A2 & A3).
  destruct (Bnat_correct b ltac:(lia)) as (B1 & B2 & B3).
  destruct (Bnat_correct (a + b) Hab) as (S1 & S2 & S3).
  generalize (Bplus_correct p32 e32 Hprec32 Hmax32 mode_NE (Bnat a) (Bnat b) A2 B2).
  rewrite A1, B1. rewrite <- plus_IZR.
  replace (Z.of_N a + Z.of_N b)%Z with (Z.of_N (a + b)) by lia.
  assert (Hz : (Z.abs (Z.of_N (a + b)) <= 16777216)%Z) by lia.
  rewrite (int_round _ Hz), (int_small _ Hz). intros (P1 & P2 & P3).
  apply B2R_Bsign_inj; auto; [congruence|]. rewrite P3, S3.
  destruct (Rcompare_spec (IZR (Z.of_N (a + b))) 0) as [H|H|H].
  - apply lt_IZR in H. lia.
  - (* the sum is zero: both operands are +0, and (+0) + (+0) = +0 *)
    rewrite A3, B3. reflexivity.
  - reflexivity.
Qed.

Lemma b32_of_N_0 : of_N B32_ops 0%N = zero B32_ops.
Proof. reflexivity. Qed.

(** the bound is sharp: 2^24 + 1 is not a binary32 number, the sum stops growing *)
Lemma b32_add_saturates : add B32_ops (of_N B32_ops 16777216) (of_N B32_ops 1) = of_N B32_ops 16777216.
Proof. vm_compute. reflexivity. Qed.
