(** C07 - executable model of the k-d tree wrapper of linfa-nn (algorithms/linfa-nn/src/kdtree.rs)
    around the external `kdtree` crate.  The crate's two queries are parameters:
      within  q rr : KdTree::within(q, rr, rdistance)   -> Vec<(distance, datum)>
      nearest q k  : KdTree::nearest(q, k, rdistance)   -> Vec<(distance, datum)>
    where the datum stored with every point is (the row view, its position in the batch).
    The wrapper itself is three lines per query; it is modelled literally, polymorphic in NumOps.
    Also: decidable checks of the crate's assumed contract on observed raw answers. *)
From Coq Require Import List NArith Bool Arith.
From LinfaVerif Require Import Common.Num C07.Model.
Import ListNotations.

Section Kd.
Context {F : Type} (o : NumOps F).

Definition kd_within_t := @pt F -> F -> list (F * @ipt F).
Definition kd_nearest_t := @pt F -> nat -> list (F * @ipt F).

(* KdTreeIndex::within_range:
     let range = dist_fn.dist_to_rdist(range);
     tree.within(point, range, rdistance)?.into_iter().filter(|(dist, _)| *dist < range).map(|(_, (pt, pos))| (pt, pos)) *)
Definition kd_range (within : kd_within_t) (m : metric) (q : @pt F) (r : F) : list (@ipt F) :=
  let rr := to_r o m r in
  map snd (filter (fun e => ltb o (fst e) rr) (within q rr)).

(* the wrapper before repair 276337d (finding F3): the crate's inclusive answer was passed on *)
Definition kd_range_unfiltered (within : kd_within_t) (m : metric) (q : @pt F) (r : F) : list (@ipt F) :=
  map snd (within q (to_r o m r)).

(* KdTreeIndex::k_nearest: tree.nearest(point, k, rdistance)?.into_iter().map(|(_, (pt, pos))| (pt, pos)) *)
Definition kd_knn (nearest : kd_nearest_t) (q : @pt F) (k : nat) : list (@ipt F) :=
  map snd (nearest q k).

(* KdTreeIndex::new (leaf size 0 / zero columns) and the crate's check_point (wrong dimension ->
   ErrorKind::WrongDimension -> NnError::WrongDimension) *)
Definition kd_index_knn (nearest : kd_nearest_t) (leaf dim : nat) (q : @pt F) (k : nat)
  : option build_error + (option query_error + list (@ipt F)) :=
  match build_check dim leaf with
  | Some e => inl (Some e)
  | None => match query_check dim q with
            | Some e => inr (inl (Some e))
            | None => inr (inr (kd_knn nearest q k))
            end
  end.
Definition kd_index_range (within : kd_within_t) (m : metric) (leaf dim : nat) (q : @pt F) (r : F)
  : option build_error + (option query_error + list (@ipt F)) :=
  match build_check dim leaf with
  | Some e => inl (Some e)
  | None => match query_check dim q with
            | Some e => inr (inl (Some e))
            | None => inr (inr (kd_range within m q r))
            end
  end.

(** decidable contract of the crate on one observed raw answer; [dq p] is the reduced distance from
    the query to the stored point p.
    within: valid distinct rows, every entry carries the distance of its row and lies within rr
    (inclusive), every row within rr is present *)
Definition within_obs_ok (beq : F -> F -> bool) (dq : @ipt F -> F) (rr : F) (X : list (@pt F))
           (raw : list (F * @ipt F)) : bool :=
  let rows := map snd raw in
  let idx := map snd rows in
  forallb (ipt_valid beq X) rows
  && nodup_N idx
  && forallb (fun e => beq (fst e) (dq (snd e)) && leb o (fst e) rr) raw
  && forallb (fun p => negb (leb o (dq p) rr) || mem_N (snd p) idx) (enumerate X).

(* nearest: every entry carries the distance of its row, and the rows are a correct k-nearest answer *)
Definition nearest_obs_ok (beq : F -> F -> bool) (dq : @ipt F -> F) (k : nat) (X : list (@pt F))
           (raw : list (F * @ipt F)) : bool :=
  forallb (fun e => beq (fst e) (dq (snd e))) raw
  && knn_ok o beq dq k X (map snd raw).

End Kd.
