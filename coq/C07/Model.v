(** C07 - executable model of linfa-nn: the distance functions of distance.rs (L1, L2, Linf with
    their reduced forms and conversions), the linear scan (linear.rs), the ball tree (balltree.rs:
    partition with order_stat's Floyd-Rivest selection, calc_radius, BallTreeInner::new, the sphere
    bound and the best-first search nn_helper) and the build/query error cases of lib.rs.
    The k-d tree delegates to the external `kdtree` crate and is not modelled: it is judged by the
    specification only.  Polymorphic in NumOps: R_ops for the theorems, B64_ops / B32_ops to run
    against the Rust f64 / f32 code.  Binary heaps are modelled by sorted lists (the order in which
    std's BinaryHeap returns elements of equal priority is not part of the model; the property
    allows ties to be broken arbitrarily). *)
From Coq Require Import List NArith Bool Arith.
From LinfaVerif Require Import Common.Num.
Import ListNotations.

Inductive metric := L1 | L2 | Linf.

Inductive build_error := ZeroDimension | EmptyLeaf.
Inductive query_error := WrongDimension.

Section NN.
Context {F : Type} (o : NumOps F).
Notation "a + b" := (add o a b).
Notation "a - b" := (sub o a b).
Notation "a * b" := (mul o a b).
Notation "a / b" := (div o a b).

Definition pt := list F.
(* a stored point together with its row position in the batch *)
Definition ipt := (pt * N)%type.

(** * distance.rs (ndarray-stats: sequential Zip folds) *)
Fixpoint fold2 (f : F -> F -> F -> F) (a b : pt) (acc : F) : F :=
  match a, b with
  | x :: a', y :: b' => fold2 f a' b' (f acc x y)
  | _, _ => acc
  end.

Definition sq_l2 (a b : pt) : F := fold2 (fun acc x y => acc + (x - y) * (x - y)) a b (zero o).
Definition l1d (a b : pt) : F := fold2 (fun acc x y => acc + abs o (x - y)) a b (zero o).
Definition linfd (a b : pt) : F :=
  fold2 (fun acc x y => let d := abs o (x - y) in if ltb o acc d then d else acc) a b (zero o).

(* Distance::rdistance, ::distance, ::dist_to_rdist, ::rdist_to_dist *)
Definition rdist (m : metric) (a b : pt) : F :=
  match m with L1 => l1d a b | L2 => sq_l2 a b | Linf => linfd a b end.
Definition dist (m : metric) (a b : pt) : F :=
  match m with L1 => l1d a b | L2 => sqrt o (sq_l2 a b) | Linf => linfd a b end.
Definition to_r (m : metric) (x : F) : F := match m with L2 => x * x | _ => x end.
Definition of_r (m : metric) (x : F) : F := match m with L2 => sqrt o x | _ => x end.

(** * the batch: rows with their positions *)
Definition enumerate (X : list pt) : list ipt := combine X (map N.of_nat (seq 0 (length X))).

(** * priority queues as sorted lists.
    [ins_asc]: ascending by key, a new element goes behind the elements of equal key. *)
Fixpoint ins_asc {A} (key : A -> F) (x : A) (l : list A) : list A :=
  match l with
  | [] => [x]
  | y :: t => if ltb o (key x) (key y) then x :: y :: t else y :: ins_asc key x t
  end.
(* descending by key (head = maximum) *)
Fixpoint ins_desc {A} (key : A -> F) (x : A) (l : list A) : list A :=
  match l with
  | [] => [x]
  | y :: t => if ltb o (key y) (key x) then x :: y :: t else y :: ins_desc key x t
  end.

(** * linear.rs *)
Definition build_check (dim leaf : nat) : option build_error :=
  if Nat.eqb leaf 0 then Some EmptyLeaf else if Nat.eqb dim 0 then Some ZeroDimension else None.

(* LinearSearchIndex::k_nearest: push every (rdistance, (point, i)) on a min-heap, pop min(k, n) times *)
Definition linear_heap (m : metric) (q : pt) (X : list pt) : list (F * ipt) :=
  fold_left (fun h p => ins_asc fst (rdist m q (fst p), p) h) (enumerate X) [].
Definition linear_knn (m : metric) (q : pt) (k : nat) (X : list pt) : list ipt :=
  map snd (firstn (Nat.min k (length X)) (linear_heap m q X)).
(* LinearSearchIndex::within_range: filter rdistance < dist_to_rdist(range), in row order *)
Definition linear_range (m : metric) (q : pt) (r : F) (X : list pt) : list ipt :=
  filter (fun p => ltb o (rdist m q (fst p)) (to_r m r)) (enumerate X).

Definition query_check (dim : nat) (q : pt) : option query_error :=
  if Nat.eqb dim (length q) then None else Some WrongDimension.

(** * order_stat::kth_by = floyd_rivest::select (arrays of at most 601 elements: the sampling
      branch is never taken).  Arrays are lists; [cmp_lt a b] is "a orders before b". *)
Section Select.
Context {A : Type} (dflt : A) (lt : A -> A -> bool).

Fixpoint set_nth (l : list A) (i : nat) (v : A) : list A :=
  match l, i with
  | [], _ => []
  | _ :: t, O => v :: t
  | a :: t, S i' => a :: set_nth t i' v
  end.
(* slice::swap (indices outside the array make Rust panic; the selection never produces them) *)
Definition swap (l : list A) (i j : nat) : list A :=
  if Nat.ltb i (length l) && Nat.ltb j (length l) then
    let a := nth i l dflt in let b := nth j l dflt in set_nth (set_nth l i b) j a
  else l.

(* while cmp(array[i], t) == Less { i += 1 } *)
Fixpoint scan_up (fuel : nat) (l : list A) (t : A) (i : nat) : nat :=
  match fuel with
  | O => i
  | S f => if lt (nth i l dflt) t then scan_up f l t (S i) else i
  end.
(* while cmp(array[j], t) == Greater { j -= 1 } *)
Fixpoint scan_down (fuel : nat) (l : list A) (t : A) (j : nat) : nat :=
  match fuel with
  | O => j
  | S f => if lt t (nth j l dflt) then scan_down f l t (Nat.pred j) else j
  end.
(* while i < j { swap(i, j); i += 1; j -= 1; scan up; scan down } *)
Fixpoint swap_loop (fuel : nat) (l : list A) (t : A) (i j : nat) : list A * nat * nat :=
  match fuel with
  | O => (l, i, j)
  | S f =>
      if Nat.ltb i j then
        let l1 := swap l i j in
        let n := length l in
        let i1 := scan_up n l1 t (S i) in
        let j1 := scan_down n l1 t (Nat.pred j) in
        swap_loop f l1 t i1 j1
      else (l, i, j)
  end.

(* while right > left { ... } *)
Fixpoint fr_loop (fuel : nat) (l : list A) (left right k : nat) : list A :=
  match fuel with
  | O => l
  | S f =>
      if Nat.ltb left right then
        let n := length l in
        let l1 := swap l left k in
        let at_right := negb (lt (nth left l1 dflt) (nth right l1 dflt)) in
        let l2 := if at_right then swap l1 left right else l1 in
        let t := nth (if at_right then right else left) l2 dflt in
        let i := scan_up n l2 t (S left) in
        let j := scan_down n l2 t (Nat.pred right) in
        let '(l3, _, j3) := swap_loop n l2 t i j in
        let '(l4, j4) := if at_right then (swap l3 right (S j3), S j3) else (swap l3 left j3, j3) in
        let left' := if Nat.leb j4 k then S j4 else left in
        let right' := if Nat.leb k j4 then Nat.pred j4 else right in
        fr_loop f l4 left' right' k
      else l
  end.

Definition fr_select (l : list A) (k : nat) : list A :=
  match l with
  | [] => l
  | _ => fr_loop (length l) l 0 (Nat.pred (length l)) k
  end.
End Select.

(** * balltree.rs *)
Inductive btree :=
| BLeaf (c : pt) (r : F) (ps : list ipt)
| BBranch (c : pt) (r : F) (l rt : btree).

Definition center (t : btree) : pt := match t with BLeaf c _ _ => c | BBranch c _ _ _ => c end.
Definition radius (t : btree) : F := match t with BLeaf _ r _ => r | BBranch _ r _ _ => r end.
Fixpoint tree_points (t : btree) : list ipt :=
  match t with BLeaf _ _ ps => ps | BBranch _ _ l r => tree_points l ++ tree_points r end.
Fixpoint tree_nodes (t : btree) : nat :=
  match t with BLeaf _ _ _ => 1 | BBranch _ _ l r => S (tree_nodes l + tree_nodes r) end.

Definition fmax (a c : F) : F := if ltb o a c then c else a.
Definition fmin (b c : F) : F := if ltb o c b then c else b.
Definition coord (d : nat) (p : ipt) : F := nth d (fst p) (zero o).
Definition dflt_ipt : ipt := ([], 0%N).

(* range of one dimension: fold ((-inf, +inf), |(a, b), c| (max a c, min b c)); max - min.
   The list is non-empty wherever this is used, so the fold starts at the first point. *)
Definition spread (ps : list ipt) (d : nat) : F :=
  match ps with
  | [] => zero o
  | p0 :: t =>
      let mm := fold_left (fun ab p => (fmax (fst ab) (coord d p), fmin (snd ab) (coord d p)))
                          t (coord d p0, coord d p0) in
      fst mm - snd mm
  end.
(* Iterator::max_by_key returns the LAST of several maximal elements *)
Definition max_spread_dim (ps : list ipt) (dim : nat) : nat :=
  match seq 0 dim with
  | [] => 0%nat
  | d0 :: ds =>
      fst (fold_left (fun best d => let v := spread ps d in
                                    if ltb o v (snd best) then best else (d, v))
                     ds (d0, spread ps d0))
  end.

(* partition(): selection of the median on the dimension of maximal spread, left = strictly
   smaller, and the repair of an empty left half: left.push(right.pop()) *)
Definition partition_pts (ps : list ipt) : list ipt * pt * list ipt :=
  let dim := max_spread_dim ps (length (fst (hd dflt_ipt ps))) in
  let mid := Nat.div (length ps) 2 in
  let ps' := fr_select dflt_ipt (fun a b => ltb o (coord dim a) (coord dim b)) ps mid in
  let med := fst (nth mid ps' dflt_ipt) in
  let mv := nth dim med (zero o) in
  let '(l, r) := List.partition (fun p => ltb o (coord dim p) mv) ps' in
  match l, r with
  | [], _ :: _ => ([last r dflt_ipt], med, removelast r)
  | _, _ => (l, med, r)
  end.

(* calc_radius: rdist_to_dist (max of rdistance(pt, center)) *)
Definition calc_radius (m : metric) (ps : list ipt) (c : pt) : F :=
  match ps with
  | [] => zero o
  | p0 :: t => of_r m (fold_left (fun a p => fmax a (rdist m (fst p) c)) t (rdist m (fst p0) c))
  end.

Definition vadd (a b : pt) : pt := map (fun p => fst p + snd p) (combine a b).

(* leaf: centre = (0 + p1 + p2 + ...) / n, per coordinate in point order *)
Definition leaf_node (m : metric) (ps : list ipt) : btree :=
  match ps with
  | [] => BLeaf [] (zero o) []
  | p0 :: _ =>
      let s := fold_left (fun c p => vadd c (fst p)) ps (repeat (zero o) (length (fst p0))) in
      let c := map (fun v => v / of_N o (N.of_nat (length ps))) s in
      BLeaf c (calc_radius m ps c) ps
  end.

Fixpoint bt_build (fuel : nat) (m : metric) (leaf : nat) (ps : list ipt) : btree :=
  if Nat.leb (length ps) leaf then leaf_node m ps
  else match fuel with
       | O => BLeaf [] (zero o) []        (* never reached when fuel >= length ps *)
       | S f =>
           let '(l, c, r) := partition_pts ps in
           BBranch c (calc_radius m (l ++ r) c) (bt_build f m leaf l) (bt_build f m leaf r)
       end.

Definition bt_new (m : metric) (leaf : nat) (X : list pt) : btree :=
  bt_build (length X) m leaf (enumerate X).

(* BallTreeInner::rdistance: reduced distance from the query to the sphere.  [eps] is the safety
   margin factor of the repaired code (finding F38, commit 23cafd4): margin = (d + radius) * eps * (dim + 4);
   eps = 0 gives the bits of the unrepaired expression dist_to_rdist(max(d - radius, 0)). *)
Context (eps : F).
Definition node_bound (m : metric) (q : pt) (t : btree) : F :=
  let d := dist m q (center t) in
  let r := radius t in
  let margin := ((d + r) * eps) * of_N o (N.of_nat (length (center t) + 4)) in
  let b := (d - r) - margin in
  to_r m (if ltb o b (zero o) then zero o else b).

(* comparisons against max_radius; None = +infinity (k_nearest) *)
Definition ge_max (d : F) (mx : option F) : bool := match mx with None => false | Some r => leb o r d end.
Definition lt_max (d : F) (mx : option F) : bool := match mx with None => true | Some r => ltb o d r end.
Definition le_max (d : F) (mx : option F) : bool := match mx with None => true | Some r => leb o d r end.

Definition worst (out : list (F * ipt)) : F := match out with [] => zero o | (d, _) :: _ => d end.

(* one stored point of a leaf against the result heap [out] (descending, head = worst, size <= k) *)
Definition visit_point (m : metric) (q : pt) (k : nat) (mx : option F) (out : list (F * ipt)) (p : ipt)
  : list (F * ipt) :=
  let d := rdist m q (fst p) in
  if lt_max d mx && (Nat.ltb (length out) k || ltb o d (worst out)) then
    let out1 := ins_desc fst (d, p) out in
    if Nat.ltb k (length out1) then tl out1 else out1
  else out.

(* the `while let Some(..) = queue.pop()` loop; [queue] ascending by bound *)
Fixpoint bt_loop (fuel : nat) (m : metric) (q : pt) (k : nat) (mx : option F)
         (queue : list (F * btree)) (out : list (F * ipt)) : list (F * ipt) :=
  match fuel with
  | O => out
  | S f =>
      match queue with
      | [] => out
      | (d, t) :: queue' =>
          if ge_max d mx || (Nat.eqb (length out) k && leb o (worst out) d) then out
          else match t with
               | BLeaf _ _ ps => bt_loop f m q k mx queue' (fold_left (visit_point m q k mx) ps out)
               | BBranch _ _ l r =>
                   let dl := node_bound m q l in
                   let dr := node_bound m q r in
                   let q1 := if le_max dl mx then ins_asc fst (dl, l) queue' else queue' in
                   let q2 := if le_max dr mx then ins_asc fst (dr, r) q1 else q1 in
                   bt_loop f m q k mx q2 out
               end
      end
  end.

(* nn_helper after the dimension check; the early return for k = 0 is the repair of finding F22
   (the unrepaired code panics there) *)
Definition nn_helper (m : metric) (t : btree) (n : nat) (q : pt) (k : nat) (mx : option F) : list ipt :=
  if Nat.eqb n 0 || Nat.eqb k 0 then []
  else map snd (rev (bt_loop (S (tree_nodes t)) m q k mx [(node_bound m q t, t)] [])).

Definition bt_knn (m : metric) (t : btree) (n : nat) (q : pt) (k : nat) : list ipt :=
  nn_helper m t n q k None.
Definition bt_range (m : metric) (t : btree) (n : nat) (q : pt) (r : F) : list ipt :=
  nn_helper m t n q n (Some (to_r m r)).

(** * the public interface with its error cases (lib.rs), for the kinds that are modelled *)
Inductive kind := Linear | Ball.

Definition index_knn (kd : kind) (m : metric) (leaf dim : nat) (X : list pt) (q : pt) (k : nat)
  : option build_error + (option query_error + list ipt) :=
  match build_check dim leaf with
  | Some e => inl (Some e)
  | None =>
      match query_check dim q with
      | Some e => inr (inl (Some e))
      | None => inr (inr (match kd with
                          | Linear => linear_knn m q k X
                          | Ball => bt_knn m (bt_new m leaf X) (length X) q k
                          end))
      end
  end.
Definition index_range (kd : kind) (m : metric) (leaf dim : nat) (X : list pt) (q : pt) (r : F)
  : option build_error + (option query_error + list ipt) :=
  match build_check dim leaf with
  | Some e => inl (Some e)
  | None =>
      match query_check dim q with
      | Some e => inr (inl (Some e))
      | None => inr (inr (match kd with
                          | Linear => linear_range m q r X
                          | Ball => bt_range m (bt_new m leaf X) (length X) q r
                          end))
      end
  end.

(** * decidable judges of an answer (the property oracle; soundness is proved in Proofs.v)
    An answer is a list of (coordinates, row position). *)
Definition ipt_valid (beq : F -> F -> bool) (X : list pt) (p : ipt) : bool :=
  match nth_error X (N.to_nat (snd p)) with
  | Some x => list_eqb beq x (fst p)
  | None => false
  end.
Fixpoint nodup_N (l : list N) : bool :=
  match l with
  | [] => true
  | a :: t => negb (existsb (N.eqb a) t) && nodup_N t
  end.
Fixpoint ascending (l : list F) : bool :=
  match l with
  | a :: (b :: _) as t => leb o a b && ascending t
  | _ => true
  end.
Definition mem_N (a : N) (l : list N) : bool := existsb (N.eqb a) l.

(* [dq p] is the reduced distance from the query to the stored point p, [rr] the reduced radius.
   k nearest: min(k, n) valid, distinct rows, ascending reduced distances, and no row left out is
   strictly closer than a returned one *)
Definition knn_ok (beq : F -> F -> bool) (dq : ipt -> F) (k : nat) (X : list pt) (res : list ipt) : bool :=
  let ds := map dq res in
  let idx := map snd res in
  Nat.eqb (length res) (Nat.min k (length X))
  && forallb (ipt_valid beq X) res
  && nodup_N idx
  && ascending ds
  && forallb (fun p => mem_N (snd p) idx || forallb (fun d => leb o d (dq p)) ds) (enumerate X).

(* range: valid, distinct rows, all strictly inside, and every row strictly inside is returned *)
Definition range_ok (beq : F -> F -> bool) (dq : ipt -> F) (rr : F) (X : list pt) (res : list ipt) : bool :=
  let idx := map snd res in
  forallb (ipt_valid beq X) res
  && nodup_N idx
  && forallb (fun p => ltb o (dq p) rr) res
  && forallb (fun p => negb (ltb o (dq p) rr) || mem_N (snd p) idx) (enumerate X).

(* the distance function of a query point under one of the modelled metrics *)
Definition dq_of (m : metric) (q : pt) (p : ipt) : F := rdist m q (fst p).

(** invariant of a ball tree (checked on the dump of the implementation's tree, proved of bt_build) *)
Fixpoint tree_inv (m : metric) (t : btree) : bool :=
  forallb (fun p => leb o (dist m (fst p) (center t)) (radius t)) (tree_points t)
  && match t with
     | BLeaf _ _ _ => true
     | BBranch _ _ l r => tree_inv m l && tree_inv m r
     end.

End NN.

Arguments btree : clear implicits.
Arguments BLeaf {F}. Arguments BBranch {F}.
